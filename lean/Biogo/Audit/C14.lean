import Biogo.Properties.C14
open Biogo.Properties.C14
#print axioms tube_geometry
#print axioms qgram_lemma
#print axioms rule_tie
#print axioms retire_timing_ok
#print axioms run_accumulates
#print axioms filter_complete
#print axioms filter_complete_complement
#print axioms filter_complete_strand
#print axioms filter_incomplete_pinned
#print axioms filter_incomplete_flush
#print axioms filter_incomplete_ticker
#print axioms ticker_repair_conservative
