import Biogo.Properties.C14
open Biogo.Properties.C14
#print axioms tube_geometry
#print axioms qgram_lemma
