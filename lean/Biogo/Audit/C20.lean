import Biogo.Properties.C20
open Biogo.Properties.C20
#print axioms oneToZero_zeroToOne
#print axioms zeroToOne_oneToZero
