import Biogo.Properties.C20
open Biogo.Properties.C20
#print axioms accepted_sorted_disjoint
#print axioms accepted_sorted_disjoint_add
#print axioms exons_introns_tile
#print axioms rejected_add_unchanged
#print axioms add_never_writes_receiver
#print axioms rejected_add_unchanged_history
#print axioms pinned_rejected_add_corrupts
#print axioms rejected_setExons_unchanged
#print axioms rejected_update_unchanged_history
#print axioms basePositionOf_eq
#print axioms basePositionOf_tooLong
#print axioms basePosition_additive
#print axioms positionWithin_eq
#print axioms positionWithin_absent
#print axioms within_compose
#print axioms basePosition_within
#print axioms baseOrientationOf_eq
#print axioms baseOrientation_multiplicative
#print axioms orientationWithin_eq
#print axioms orientationWithin_compose
#print axioms utr_cds_tile
#print axioms utr_orientation
#print axioms oneToZero_zeroToOne
#print axioms zeroToOne_oneToZero
#print axioms oneToZero_zero
