import Biogo.Properties.C03_feat
open Biogo.Properties.C03_feat
#print axioms bed_never_panics
#print axioms bed_progress
#print axioms bed_call_reads_line
#print axioms bed_rejects_missing_columns
#print axioms bed_rejects_non_numeric_coordinates
#print axioms bed_rejects_bad_strand
#print axioms gff_never_panics
#print axioms gff_progress
#print axioms gff_read_never_panics
#print axioms gff_rejects_missing_columns
#print axioms gff_rejects_non_numeric_start
#print axioms gff_rejects_non_numeric_end
#print axioms gff_rejects_start_zero
#print axioms gff_rejects_region_start_zero
#print axioms gff_rejects_bad_strand
#print axioms gff_rejects_incomplete_metaline
#print axioms date_parse_format
#print axioms date_layout_examples
