import Biogo.Properties.C03_feat
open Biogo.Properties.C03_feat
#print axioms bed_progress
