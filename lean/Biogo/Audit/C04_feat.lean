import Biogo.Properties.C04_feat
open Biogo.Properties.C04_feat
#print axioms lines_singleton_tail
