import Biogo.Properties.C04_feat
open Biogo.Properties.C04_feat
#print axioms bed_read_crlf
#print axioms bed_read_no_final_newline
#print axioms gff_read_crlf
#print axioms gff_read_no_final_newline
#print axioms bed_read_crlf_no_final_newline
#print axioms gff_read_crlf_no_final_newline
