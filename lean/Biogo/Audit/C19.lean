import Biogo.Properties.C19
open Biogo.Properties.C19
#print axioms no_panic
#print axioms out_closed_exactly_once
#print axioms each_op_one_result
#print axioms each_op_one_result_one_producer
#print axioms each_op_one_result_final
#print axioms shutdown_terminates
#print axioms shutdown_clean
#print axioms map_partition
#print axioms map_one_result_per_chunk
#print axioms promise_single_assignment
#print axioms other_fulfills_error_and_unchanged
#print axioms waits_return_value
#print axioms no_deadlock
#print axioms promise_terminates
#print axioms seq_fulfill_unset
#print axioms seq_fulfill_fulfilled
#print axioms seq_fulfill_failed
#print axioms seq_fail
#print axioms seq_recover
#print axioms seq_laws_table
#print axioms runMacro_reach
#print axioms driver_runs_are_reachable
#print axioms double_close
#print axioms double_close_both_at_hook
#print axioms send_on_closed
#print axioms borrow_race
