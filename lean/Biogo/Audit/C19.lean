import Biogo.Properties.C19
open Biogo.Properties.C19
#print axioms fulfill_unset
