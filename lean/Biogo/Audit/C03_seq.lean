import Biogo.Properties.C03_seq
open Biogo.Properties.C03_seq
#print axioms fasta_never_panics
#print axioms fasta_progress
#print axioms fasta_record_or_error
#print axioms fasta_rejects_data_before_header
