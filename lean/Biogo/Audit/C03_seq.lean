import Biogo.Properties.C03_seq
open Biogo.Properties.C03_seq
#print axioms empty_input_is_eof
