import Biogo.Properties.C03_seq
open Biogo.Properties.C03_seq
#print axioms fasta_never_panics
#print axioms fasta_progress
#print axioms fasta_record_or_error
#print axioms fasta_rejects_data_before_header
#print axioms fastq_never_panics
#print axioms fastq_progress
#print axioms fastq_record_or_error
#print axioms fastq_rejects_length_mismatch
#print axioms fastq_rejects_length_mismatch_at_eof
#print axioms fastq_rejects_quality_header_mismatch
#print axioms fasta_total_any_prefixes
