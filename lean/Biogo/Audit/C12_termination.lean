import Biogo.Properties.C12_termination
open Biogo.Properties.C12_termination
#print axioms step_decreases
#print axioms every_schedule_terminates
#print axioms no_infinite_run
#print axioms maximal_run_finished
