import Biogo.Properties.C02_checker
open Biogo.Properties.C02_checker
#print axioms wantBed_is_roundtrip
#print axioms bedWF_mono
#print axioms wantBed_is_model
#print axioms gffFeature_norm
#print axioms wantGff_is_roundtrip
#print axioms wantCoords_is_one_based
#print axioms wantRegion_is_roundtrip
#print axioms wantSeq_is_roundtrip
