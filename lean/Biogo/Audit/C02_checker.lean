import Biogo.Properties.C02_checker
open Biogo.Properties.C02_checker
#print axioms wantBed_is_roundtrip
#print axioms bedWF_mono
#print axioms wantBed_is_model
#print axioms gffFeature_norm
#print axioms wantGff_is_roundtrip
#print axioms wantCoords_is_one_based
#print axioms wantRegion_is_roundtrip
#print axioms wantSeq_is_roundtrip
#print axioms wantBedFile_single
#print axioms wantGffFile_single
#print axioms wantBedFile_is_records_then_eof
#print axioms wantGffFile_is_features_then_eof
