import Biogo.Proofs.Wire
#print axioms Biogo.Wire.bytesOfHex_hexOfBytes
