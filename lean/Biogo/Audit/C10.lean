import Biogo.Properties.C10
open Biogo.Properties.C10
#print axioms facts_tie
#print axioms foreach_spec
#print axioms validWindows_spec
#print axioms new_ok
#print axioms freq_spec
#print axioms positions_spec
#print axioms absent_spec
#print axioms format_kmerOf
#print axioms kmerOf_format
#print axioms kmerOf_rejects
#print axioms gc_spec
#print axioms complement_spec
#print axioms check_true
