import Biogo.Properties.C10
open Biogo.Properties.C10
#print axioms facts_tie
