import Biogo.Properties.C10
open Biogo.Properties.C10
#print axioms facts_tie
#print axioms foreach_spec
#print axioms validWindows_spec
