import Biogo.Properties.C08_aff
open Biogo.Properties.C08_aff
#print axioms nwAffine_not_opt
