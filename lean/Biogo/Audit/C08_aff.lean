import Biogo.Properties.C08_aff
open Biogo.Properties.C08_aff
#print axioms globalOpt_optimal
#print axioms localOpt_optimal
#print axioms fittedOpt_optimal
#print axioms nwAffine_opt
#print axioms swAffine_opt
#print axioms fittedAffine_opt
#print axioms k1_repair_conservative_nw
#print axioms k1_repair_conservative_sw
#print axioms nwAffine_opt_partial
#print axioms swAffine_opt_partial
#print axioms fittedAffine_opt_partial
#print axioms fittedAffine_opt_restricted
#print axioms fittedRestricted_yardstick
#print axioms fittedAffine_not_opt
#print axioms fittedAffine_side_condition_insufficient
#print axioms nwAffine_not_opt
#print axioms noAdj_suffices
#print axioms nwAffine_opt_of_side_condition
#print axioms swAffine_opt_of_side_condition
#print axioms design_side_condition_insufficient
