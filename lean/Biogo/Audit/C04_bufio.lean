import Biogo.Properties.C04_bufio
open Biogo.Properties.C04_bufio

#print axioms example_cr_boundary
