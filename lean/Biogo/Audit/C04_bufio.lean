import Biogo.Properties.C04_bufio
open Biogo.Properties.C04_bufio

#print axioms inv_new
#print axioms readSlice_of_stream
#print axioms readLine_of_stream
#print axioms readLine_chunking_independent
#print axioms readLine_fragments_join
#print axioms readLine_fragments_last
#print axioms readBytes_line
#print axioms readBytes_rest
#print axioms readLine_loop_image
#print axioms readLine_loop_image_default
#print axioms readLine_loop_image_fasta
#print axioms readBytes_loop_image
#print axioms readBytes_loop_image_processed
#print axioms never_panics
