import Biogo.Properties.C06
open Biogo.Properties.C06
#print axioms constants_tied
