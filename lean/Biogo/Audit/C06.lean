import Biogo.Properties.C06
open Biogo.Properties.C06
#print axioms constants_tied
#print axioms truncate_spec
#print axioms truncatePositions_inside
#print axioms truncate_total
#print axioms join_spec
#print axioms join_total
#print axioms stitch_spec_sorted
#print axioms stitch_spec
#print axioms stitch_total
#print axioms compose_spec
#print axioms compose_spec_noreverser
#print axioms compose_total
#print axioms segment_positions
#print axioms dst_ne_src_fresh
#print axioms truncate_same_writes_nothing
#print axioms trim_optimal
#print axioms isMaxWindow_iff
#print axioms trim_passes_check
