import Biogo.Properties.C18_checker
open Biogo.Properties.C18_checker
#print axioms phredProbClose_real
#print axioms solexaProbClose_real
#print axioms probLe_real
#print axioms phredToSolexaNearest_real
#print axioms solexaToPhredNearest_real
#print axioms phredNearest_real
#print axioms phredNearest_special
#print axioms solexaNearest_real
#print axioms phredNearestTol_cases
#print axioms nudge_real
