import Biogo.Properties.C05
open Biogo.Properties.C05
#print axioms builtin_complement_involutive
#print axioms two_pointer_loop_eq_list_spec
#print axioms reverse_loop_eq_list_spec
#print axioms heap_loop_refines_list_loop
#print axioms revcomp_spec_linear
#print axioms revcomp_involutive_linear
#print axioms reverse_involutive_linear
#print axioms revcomp_spec_multi
#print axioms multi_revcomp_mirror_span
#print axioms revcomp_involutive_multi
#print axioms reverse_involutive_multi
#print axioms initial_object_separated
#print axioms untouched_object_unchanged
#print axioms clone_deep
#print axioms revcomp_spec_alignment
#print axioms revcomp_involutive_alignment
#print axioms reverse_involutive_alignment
#print axioms clone_deep_alignment
#print axioms history_observes_runOps
#print axioms initial_object_wellformed
#print axioms operation_is_local
#print axioms untouched_object_unchanged_all
#print axioms clone_deep_all
#print axioms row_revcomp_spec_alignment
#print axioms row_reverse_spec_alignment
#print axioms row_revcomp_involutive_alignment
