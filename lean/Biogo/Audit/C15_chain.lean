import Biogo.Properties.C15_chain
open Biogo.Properties.C15_chain
#print axioms epsmatch_inside_trapezoid
