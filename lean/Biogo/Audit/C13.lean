import Biogo.Properties.C13
open Biogo.Properties.C13
#print axioms fault_surfaces
#print axioms cleanup_removes_dir
#print axioms autoclean_drain_removes_dir
#print axioms autoclear_drain_no_runs
