import Biogo.Properties.C13
open Biogo.Properties.C13
