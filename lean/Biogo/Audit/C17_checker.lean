import Biogo.Properties.C17_checker
open Biogo.Properties.C17_checker
#print axioms firstBad_none_iff
#print axioms naStatement_none_iff
#print axioms npStatement_none_iff
#print axioms avFirst_spec
