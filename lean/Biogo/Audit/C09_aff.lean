import Biogo.Properties.C09_aff
open Biogo.Properties.C09_aff
#print axioms align_total
