import Biogo.Properties.C09_aff
open Biogo.Properties.C09_aff
#print axioms align_total
#print axioms trace_wf_nwAffine
#print axioms trace_wf_swAffine
#print axioms trace_wf_fittedAffine
#print axioms pair_scores_faithful
#print axioms pair_scores_faithful_swAffine
#print axioms pair_scores_swAffine_needs_nonpositive_gaps
#print axioms pair_scores_faithful_fittedAffine
#print axioms pair_scores_faithful_partial
#print axioms legacy_pair_scores_not_faithful
#print axioms k5_repair_conservative
