import Biogo.Properties.C15
open Biogo.Properties.C15
#print axioms pals_constants
#print axioms palsMatrix_is_plus1_minus3
#print axioms palsGlobal_opt
#print axioms globalScore_opt
#print axioms editDist_opt
#print axioms score_bounds_edit
#print axioms error_bounds_edit
#print axioms accepted_hit_meets_thresholds
#print axioms rejected_hit_misses_a_threshold
#print axioms edit_bounded_by_threshold
#print axioms suppression_returns_emitted_hits
#print axioms suppression_keeps_best
#print axioms optimise_sound
