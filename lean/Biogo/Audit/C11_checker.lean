import Biogo.Properties.C11_checker
open Biogo.Properties.C11_checker
#print axioms checkCycle_sound
#print axioms checkHistory_sound
#print axioms historyStatement_sound
#print axioms checkHistory_complete
#print axioms checkHistory_iff
#print axioms rejectsStatement_sound
#print axioms programStatement_sound
#print axioms checkSegs_cycles
#print axioms programStatementA_cycles
#print axioms segs_from_fresh
#print axioms checkDropped_iff
#print axioms checkSegs_sound
#print axioms checkSegs_complete
#print axioms checkSegs_iff
#print axioms programStatementA_sound
