import Biogo.Properties.C08_lin
open Biogo.Properties.C08_lin
