import Biogo.Properties.C08_lin
open Biogo.Properties.C08_lin
#print axioms nw_opt
#print axioms sw_opt
#print axioms sw_nonneg
#print axioms fitted_table_opt
