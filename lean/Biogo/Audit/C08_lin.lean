import Biogo.Properties.C08_lin
open Biogo.Properties.C08_lin
#print axioms nw_opt
#print axioms sw_opt
#print axioms sw_nonneg
#print axioms fitted_table_opt
#print axioms trace_faithful_nw
#print axioms nw_returns_optimal
#print axioms trace_faithful_sw
#print axioms sw_returns_optimal
#print axioms trace_faithful_fit
#print axioms fitted_opt_at_end
