import Biogo.Properties.C08_lin
open Biogo.Properties.C08_lin
#print axioms nw_opt
#print axioms sw_opt
#print axioms sw_nonneg
#print axioms fitted_table_opt
#print axioms trace_faithful_nw
#print axioms nw_returns_optimal
#print axioms trace_faithful_sw
#print axioms sw_returns_optimal
#print axioms trace_faithful_fit
#print axioms fitted_opt_at_end
#print axioms scoring_reads_matrix_entries
#print axioms nw_returns_optimal_any_size
#print axioms sw_returns_optimal_any_size
#print axioms fitted_opt_at_end_any_size
#print axioms nw_total_ignores_extra_rows
#print axioms sw_total_ignores_extra_rows
