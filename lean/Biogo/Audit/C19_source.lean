import Biogo.Properties.C19_source
open Biogo.Properties.C19_source
#print axioms model_is_of_this_source
