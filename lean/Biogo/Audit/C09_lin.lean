import Biogo.Properties.C09_lin
open Biogo.Properties.C09_lin
#print axioms wellFormed_iff
#print axioms chain_links
#print axioms wellFormed_global_sound
#print axioms wellFormed_local_sound
#print axioms wellFormed_fitted_sound
#print axioms pairScores_total
#print axioms trace_wf_nw
#print axioms trace_wf_sw
#print axioms trace_wf_fit
#print axioms pair_scores_faithful
#print axioms format_rows
#print axioms align_never_panics
#print axioms align_total
#print axioms align_legal_ok
#print axioms generated_files_are_template_instances
