import Biogo.Properties.C09_lin
open Biogo.Properties.C09_lin
#print axioms generated_files_are_template_instances
