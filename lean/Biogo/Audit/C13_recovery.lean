import Biogo.Properties.C13_recovery
open Biogo.Properties.C13_recovery
#print axioms recovery_surfaces
#print axioms recovery_surfaces_of_quiet
#print axioms sequential_between_calls
#print axioms a_buffer_remains
#print axioms recoveryStatement_sound
#print axioms afterRecovery_spec
