import Biogo.Properties.C01
open Biogo.Properties.C01
#print axioms source_constants
