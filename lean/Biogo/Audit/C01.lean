import Biogo.Properties.C01
open Biogo.Properties.C01
#print axioms source_constants
#print axioms alphabet_letters_ok
#print axioms fasta_roundtrip
#print axioms fasta_write_count
#print axioms fasta_renders_read
#print axioms fastq_roundtrip
#print axioms fastq_roundtrip_plain
#print axioms fastq_write_count
#print axioms fastq_score_range
#print axioms format_a_roundtrip
#print axioms format_q_roundtrip
#print axioms fasta_write_layout_prefixes
