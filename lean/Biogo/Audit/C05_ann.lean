import Biogo.Properties.C05_ann
open Biogo.Properties.C05_ann
#print axioms annotation_store_refines_values
#print axioms annotations_separated
#print axioms clone_deep_annotations
#print axioms initial_annotation_store
#print axioms pinned_clone_shares_annotations
