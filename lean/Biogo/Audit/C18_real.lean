import Biogo.Properties.C18_real
open Biogo.Properties.C18Real
#print axioms phredE_close_real
#print axioms ephred_nearest_real
#print axioms phredSolexa_nearest_real
#print axioms solexaPhred_nearest_real
#print axioms solexaE_close_real
#print axioms esolexa_nearest_real
