import Biogo.Properties.C15_merge
open Biogo.Properties.C15_merge
