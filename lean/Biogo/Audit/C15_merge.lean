import Biogo.Properties.C15_merge
open Biogo.Properties.C15_merge
#print axioms merge_source_facts
#print axioms clipping_is_identity_on_valid
#print axioms merger_covers_hits
#print axioms merger_output_sorted
#print axioms merger_output_wellformed
#print axioms merger_self_clear_of_diagonal
#print axioms merger_output_within_rows
#print axioms merger_total
#print axioms clipping_never_grows
#print axioms merger_output_rows_any_letters
