import Biogo.Properties.C07
open Biogo.Properties.C07
#print axioms row_eq_column_multi
#print axioms row_at_defined
#print axioms row_eq_column_aln
#print axioms truncate_exact
#print axioms subseq_exact
#print axioms append_exact_aln
#print axioms append_no_retain_aln
#print axioms builtin_consensus_facts
#print axioms unanimous_consensus
#print axioms delete_exact_aln
#print axioms delete_exact_multi
#print axioms append_each_exact_aln
#print axioms append_each_exact_multi
#print axioms append_columns_exact_multi
#print axioms flush_preserves
#print axioms initial_multi_wellformed
#print axioms operation_preserves_wellformed
#print axioms reachable_wellformed
#print axioms wellformed_gives_hypotheses
#print axioms clone_deep_edits
#print axioms append_no_retain_history
#print axioms row_eq_column_reachable
#print axioms frame_on_observations
#print axioms clone_equal_on_observations
