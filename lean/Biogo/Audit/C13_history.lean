import Biogo.Properties.C13_history
open Biogo.Properties.C13_history
#print axioms history_fault_surfaces
#print axioms history_no_error
#print axioms surfaceStatement_sound
#print axioms history_autoclean_drain_removes_dir
#print axioms history_autoclear_drain_no_runs
#print axioms history_rejected_push_noop
