import Biogo.Properties.C13_history
open Biogo.Properties.C13_history
#print axioms history_fault_surfaces
#print axioms history_no_error
#print axioms surfaceStatement_sound
