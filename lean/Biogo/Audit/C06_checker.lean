import Biogo.Properties.C06_checker
open Biogo.Properties.C06_checker
#print axioms truncateSpec_positions
#print axioms stitchSpec_positions
#print axioms untouched_iff
#print axioms truncate_checker_iff
#print axioms truncate_checker_sound
#print axioms stitch_checker_iff
#print axioms compose_checker_iff
#print axioms join_checker_iff
#print axioms trim_checker_iff
