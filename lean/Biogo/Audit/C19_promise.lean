import Biogo.Properties.C19_promise
open Biogo.Properties.C19_promise
#print axioms promise_linearizable
#print axioms calls_atomic_under_mutex
#print axioms no_deadlock_all
#print axioms settled_never_stuck
#print axioms mutex_never_leaks
#print axioms no_deadlock_noreset
#print axioms wait_returns_settled_between
#print axioms wait_delivers_current
#print axioms content_has_a_source
#print axioms immutable_single_assignment
#print axioms immutable_value_never_changes
#print axioms immutable_result_never_changes
#print axioms immutable_value_changed_only_by_reset
#print axioms immutable_takes_successful_value
#print axioms relay_semantics
#print axioms fail_on_settled_refused
#print axioms refused_recover_changes_nothing
#print axioms immutable_waits_deliver_the_value
#print axioms mutable_fulfill_replaces
#print axioms settled_stays_settled
#print axioms fail_after_fulfill_nil_as_found
#print axioms refused_recover_dropped_message_as_found
