import Biogo.Properties.C05_laws
open Biogo.Properties.C05_laws
#print axioms stepLaw_sound
#print axioms c05_verdict_sound
#print axioms verdict_means_checked
