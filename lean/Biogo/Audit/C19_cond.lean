import Biogo.Properties.C19_cond
open Biogo.Properties.C19_cond
#print axioms cond_refines_protocol
#print axioms cond_step_refines
#print axioms cond_linearizable
#print axioms cond_immutable_single_assignment
#print axioms driver_promise_runs_refine
#print axioms no_lost_wakeup
#print axioms no_deadlock_cond
#print axioms cond_terminates
#print axioms signal_loses_wakeup
