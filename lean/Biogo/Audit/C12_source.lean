import Biogo.Properties.C12_source
open Biogo.Properties.C12_source
#print axioms model_matches_source_structure
