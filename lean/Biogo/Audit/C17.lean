import Biogo.Properties.C17
open Biogo.Properties.C17
#print axioms builtin_laws
#print axioms builtin_index_laws
#print axioms builtins_accepted
