import Biogo.Properties.C17
open Biogo.Properties.C17
#print axioms builtin_laws
#print axioms builtin_index_laws
#print axioms builtins_accepted
#print axioms valid_iff_mem
#print axioms valid_iff_mem_cased
#print axioms valid_iff_mem_uncased
#print axioms indexOf_letter
#print axioms letter_indexOf
#print axioms indexOf_neg_iff_invalid
#print axioms allValid_first_invalid
#print axioms complement_involutive
#print axioms table_agrees_method
#print axioms newComplementor_pairing
#print axioms rejects_nonASCII
#print axioms rejects_nonASCII_pairing
#print axioms rejects_length_mismatch
#print axioms accepts_iff_involution
#print axioms rejects_non_bijection
#print axioms second_bijection_test_redundant
#print axioms newComplementor_accepts_every_pairing
#print axioms complement_valid_not_general
