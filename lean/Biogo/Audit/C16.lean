import Biogo.Properties.C16
open Biogo.Properties.C16
#print axioms merge_preserves_invariant
#print axioms piles_are_components
#print axioms insertion_order_irrelevant
#print axioms components_unique
#print axioms insertion_order_irrelevant_intervals
#print axioms intervals_unique
#print axioms every_feature_once
#print axioms mate_intact
#print axioms duplicate_rejected
#print axioms rejected_changes_nothing
#print axioms filter_keeps_intervals
#print axioms loc_filter_on_final_piles
#print axioms checker_sound
#print axioms adds_expect
