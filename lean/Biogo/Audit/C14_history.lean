import Biogo.Properties.C14_history
open Biogo.Properties.C14_history
#print axioms history_source_facts
#print axioms scan_independent_of_state
#print axioms scan_resets_state
#print axioms scan_independent_of_history
#print axioms filter_complete_history
#print axioms history_dependent_if_tubes_kept
