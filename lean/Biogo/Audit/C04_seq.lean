import Biogo.Properties.C04_seq
open Biogo.Properties.C04_seq
#print axioms crlf_line
