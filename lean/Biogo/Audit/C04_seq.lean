import Biogo.Properties.C04_seq
open Biogo.Properties.C04_seq
#print axioms fasta_layout_independent
#print axioms fasta_rewrap
#print axioms fastq_layout_independent
#print axioms fastq_layout_independent_plain
