import Biogo.Properties.C04_seq
open Biogo.Properties.C04_seq
#print axioms fasta_layout_independent
#print axioms fasta_rewrap
#print axioms fastq_layout_independent
#print axioms fastq_layout_independent_plain
#print axioms fasta_view
#print axioms fasta_crlf_any
#print axioms fasta_final_newline_any
#print axioms fasta_trailing_blanks_any
#print axioms fasta_blank_line_any
#print axioms fastq_crlf_any
#print axioms fastq_trailing_blanks_any
#print axioms fasta_renders_toCRLF
#print axioms fastq_view
#print axioms fastq_renders_toCRLF
