import Biogo.Properties.C01_checker
open Biogo.Properties.C01_checker
#print axioms demands_none_iff
#print axioms fasta_expected_is_roundtrip
#print axioms fasta_expected_is_model
#print axioms fasta_scope
#print axioms fastq_expected_is_roundtrip
#print axioms fastq_plain_expected_is_roundtrip
#print axioms fastq_expected_is_model
#print axioms driver_cfg_is_default
#print axioms faultDemand_none_iff
#print axioms faultDemands_none_iff
#print axioms faultRun_total
