import Biogo.Properties.C10_checker
open Biogo.Properties.C10_checker
#print axioms groupBy_spec
#print axioms byWord_spec
#print axioms byWord_lookup
#print axioms byWord_freq
#print axioms byWord_eq
#print axioms byText_spec
#print axioms byText_lookup
#print axioms km_complement
