import Biogo.Properties.C13_abandon
open Biogo.Properties.C13_abandon
#print axioms abandon_leaves_nothing
#print axioms sysA_agrees_while_dir_exists
