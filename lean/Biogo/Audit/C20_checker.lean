import Biogo.Properties.C20_checker
open Biogo.Properties.C20_checker
#print axioms sortedDisjoint_iff
#print axioms cover_one_iff
#print axioms tiles_partition
#print axioms intronsFit_iff
#print axioms maxStop_iff
#print axioms add_checker_iff
#print axioms tx_checker_sound
#print axioms introns_gaps_on_transcript
#print axioms gf_checker_sound
#print axioms chain_split
#print axioms query_positionWithin
#print axioms query_orientationWithin
