import Biogo.Properties.C04_bufio_readers
open Biogo.Properties.C04_bufio

#print axioms fasta_over_bufio
#print axioms fastq_over_bufio
#print axioms bed_over_bufio
#print axioms gff_over_bufio
#print axioms fasta_long_lines
#print axioms fastq_long_lines
#print axioms feat_long_lines
#print axioms fastq_read_lazy
#print axioms fastq_lazy_image
#print axioms fasta_read_lazy
#print axioms fasta_lazy_image
