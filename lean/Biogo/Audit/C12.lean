import Biogo.Properties.C12
open Biogo.Properties.C12
#print axioms finalise_waits
#print axioms finalise_blocked_while_writing
#print axioms no_deadlock
#print axioms conc_sorted_multiset
#print axioms conc_no_error
