import Biogo.Properties.C12
open Biogo.Properties.C12
