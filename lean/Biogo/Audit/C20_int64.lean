import Biogo.Properties.C20_int64
open Biogo.Properties.C20_int64
#print axioms conversions64_refine
#print axioms oneToZero64_zeroToOne64
#print axioms zeroToOne64_max
#print axioms maxInt64_not_a_zero_based_image
#print axioms oneToZero64_zeroToOne64_iff
#print axioms zeroToOne64_oneToZero64
#print axioms oneToZero64_zero
