import Biogo.Properties.C14_checker
open Biogo.Properties.C14_checker
#print axioms checker_iff
#print axioms checker_sound
#print axioms mem_uncovered
#print axioms checker_iff_in_scope
#print axioms nreq_zero_iff
#print axioms checker_iff_strand
#print axioms mem_uncoveredC
#print axioms nreqC_zero_iff
#print axioms requiredC_mirror
