import Biogo.Properties.C14_checker
open Biogo.Properties.C14_checker
#print axioms checker_iff
#print axioms checker_sound
#print axioms mem_uncovered
#print axioms checker_iff_in_scope
#print axioms nreq_zero_iff
