import Biogo.Properties.C11
open Biogo.Properties.C11
#print axioms history_sorted_multiset
#print axioms history_key_observation
#print axioms spec_cycle_values
#print axioms spec_cycle_sorted_perm
#print axioms run_rejects
#print axioms history_rejected_push_noop
#print axioms abandoned_cycle_fresh
