import Biogo.Properties.C11
open Biogo.Properties.C11
