import Biogo.Properties.C02
open Biogo.Properties.C02
#print axioms oneToZero_zeroToOne
#print axioms zeroToOne_oneToZero
#print axioms oneToZero_none_iff
