import Biogo.Properties.C02
open Biogo.Properties.C02
#print axioms parseInt_formatInt
#print axioms bed_roundtrip
#print axioms bed_narrow
#print axioms bed_narrow_read
#print axioms bed_write_count
#print axioms bed_write_wider_refused
#print axioms oneToZero_zeroToOne
#print axioms zeroToOne_oneToZero
#print axioms oneToZero_none_iff
#print axioms gff_roundtrip
#print axioms gff_coords
#print axioms gff_text_is_one_based
#print axioms gff_write_count
#print axioms region_roundtrip
#print axioms inline_seq_roundtrip
#print axioms region_write_count
#print axioms inline_seq_write_count
#print axioms inline_seq_writer_is_fasta
#print axioms inline_seq_roundtrip_via_fasta
