import Biogo.Properties.C18
open Biogo.Properties.C18
#print axioms encoding_codes
#print axioms tables_are_the_dumped_floats
#print axioms decode_encode_phred
#print axioms decode_encode_solexa
#print axioms encode_phred_is_offset
#print axioms encode_solexa_is_offset
#print axioms phredE_close
#print axioms phredE_special
#print axioms phredE_antitone
#print axioms ephred_nearest_spec
#print axioms solexaE_close
#print axioms solexaE_special
#print axioms solexaE_antitone
#print axioms esolexa_nearest_spec
#print axioms enclosure_ok
#print axioms phredSolexa_nearest
#print axioms phredSolexa_saturates
#print axioms solexaPhred_nearest
#print axioms mutual_inverse_from_10
#print axioms conversion_probabilities_agree_phred
#print axioms conversion_probabilities_agree_solexa
