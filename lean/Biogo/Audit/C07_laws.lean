import Biogo.Properties.C07_laws
open Biogo.Properties.C07_laws
#print axioms stepLaw_sound
#print axioms snapLaw_sound
#print axioms c07_verdict_sound
#print axioms verdict_means_checked
