/-
Positions and letters: lemmas about `intRange`, `letterAt`, `lettersAt` (core only).
-/
import Biogo.Spec.Sequtils

set_option linter.unusedSectionVars false

namespace Biogo.Sequtils

variable {α : Type}

theorem mem_intRange (a b p : Int) : p ∈ intRange a b ↔ a ≤ p ∧ p < b := by
  simp only [intRange, List.mem_map, List.mem_range]
  constructor
  · rintro ⟨k, hk, rfl⟩; omega
  · intro ⟨h1, h2⟩
    exact ⟨(p - a).toNat, by omega, by omega⟩

theorem length_intRange (a b : Int) : (intRange a b).length = (b - a).toNat := by
  simp [intRange]

theorem intRange_empty (a b : Int) (h : b ≤ a) : intRange a b = [] := by
  have : (b - a).toNat = 0 := by omega
  simp [intRange, this]

theorem getElem?_intRange (a b : Int) (k : Nat) :
    (intRange a b)[k]? = if k < (b - a).toNat then some (a + (k : Int)) else none := by
  simp only [intRange, List.getElem?_map]
  split
  · rename_i h; simp [List.getElem?_range h]
  · rename_i h
    have : (List.range (b - a).toNat)[k]? = none := by
      simp; omega
    simp [this]

theorem intRange_append (a m b : Int) (h1 : a ≤ m) (h2 : m ≤ b) :
    intRange a b = intRange a m ++ intRange m b := by
  apply List.ext_getElem?
  intro k
  rw [getElem?_intRange]
  by_cases hk : k < (m - a).toNat
  · rw [List.getElem?_append_left (by rw [length_intRange]; exact hk), getElem?_intRange]
    simp only [hk, if_true]
    rw [if_pos (by omega)]
  · rw [List.getElem?_append_right (by rw [length_intRange]; omega), length_intRange, getElem?_intRange]
    by_cases hk2 : k < (b - a).toNat
    · rw [if_pos hk2, if_pos (by omega)]
      congr 1; omega
    · rw [if_neg hk2, if_neg (by omega)]

/-- the letters at an interval of positions inside the sequence are a window of the letters,
    and every position has one -/
theorem map_letterAt_intRange (xs : List α) (offset p q : Int) (hp : offset ≤ p)
    (hq : q ≤ offset + xs.length) :
    (intRange p q).map (letterAt xs offset) =
      (((xs.drop (p - offset).toNat).take (q - p).toNat)).map some := by
  apply List.ext_getElem?
  intro k
  simp only [List.getElem?_map, getElem?_intRange, List.getElem?_take, List.getElem?_drop]
  by_cases hk : k < (q - p).toNat
  · simp only [hk, if_true, Option.map_some]
    unfold letterAt
    rw [if_pos (by omega)]
    have e : (p + (k : Int) - offset).toNat = (p - offset).toNat + k := by omega
    rw [e]
    have hlt : (p - offset).toNat + k < xs.length := by omega
    simp [List.getElem?_eq_getElem hlt]
  · simp [hk]

theorem filterMap_of_map_some {β γ : Type} (f : β → Option γ) (ps : List β) (l : List γ)
    (h : ps.map f = l.map some) : ps.filterMap f = l := by
  induction ps generalizing l with
  | nil => cases l <;> simp_all
  | cons p ps ih =>
    cases l with
    | nil => simp at h
    | cons x l =>
      simp only [List.map_cons, List.cons.injEq] at h
      simp [h.1, ih l h.2]

theorem lettersAt_intRange (xs : List α) (offset p q : Int) (hp : offset ≤ p)
    (hq : q ≤ offset + xs.length) :
    lettersAt xs offset (intRange p q) = (xs.drop (p - offset).toNat).take (q - p).toNat :=
  filterMap_of_map_some _ _ _ (map_letterAt_intRange xs offset p q hp hq)

theorem lettersAt_append (xs : List α) (offset : Int) (ps qs : List Int) :
    lettersAt xs offset (ps ++ qs) = lettersAt xs offset ps ++ lettersAt xs offset qs := by
  simp [lettersAt, List.filterMap_append]

theorem lettersAt_nil (xs : List α) (offset : Int) : lettersAt xs offset [] = [] := rfl

/-- no position inside the sequence is dropped by `lettersAt` -/
theorem lettersAt_map_some (xs : List α) (offset : Int) (ps : List Int)
    (hin : ∀ p ∈ ps, offset ≤ p ∧ p < offset + xs.length) :
    (lettersAt xs offset ps).map some = ps.map (letterAt xs offset) := by
  induction ps with
  | nil => rfl
  | cons p ps ih =>
    have ⟨h1, h2⟩ := hin p (by simp)
    have hlt : (p - offset).toNat < xs.length := by omega
    have e : letterAt xs offset p = some (xs[(p - offset).toNat]) := by
      unfold letterAt; rw [if_pos h1]; exact List.getElem?_eq_getElem hlt
    have ih' := ih (fun q hq => hin q (by simp [hq]))
    simp only [lettersAt] at ih' ⊢
    simp [e, ih']

end Biogo.Sequtils
