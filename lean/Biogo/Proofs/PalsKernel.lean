/-
Consequences of the kernel contract `Biogo.Spec.PalsKernel` (C15): a hit that satisfies `HitOK`
passes the executable consistency conditions the driver evaluates, and its score is bounded by
the proved oracle.  Core Lean only.
-/
import Biogo.Spec.PalsKernel
import Biogo.Proofs.PalsOracle

namespace Biogo.Proofs.PalsKernel
open Biogo.Spec.Alignment Biogo.PalsOracle Biogo.Spec.PalsKernel

/-! ### column counts of an alignment -/

def nM : Aln → Nat
  | [] => 0
  | .m _ _ :: a => nM a + 1
  | _ :: a => nM a

def nU : Aln → Nat
  | [] => 0
  | .u _ :: a => nU a + 1
  | _ :: a => nU a

def nL : Aln → Nat
  | [] => 0
  | .l _ :: a => nL a + 1
  | _ :: a => nL a

theorem projR_length (a : Aln) : (projR a).length = nM a + nU a := by
  induction a with
  | nil => rfl
  | cons c a ih => cases c <;> simp only [projR, nM, nU, List.length_cons, ih] <;> omega

theorem projQ_length (a : Aln) : (projQ a).length = nM a + nL a := by
  induction a with
  | nil => rfl
  | cons c a ih => cases c <;> simp only [projQ, nM, nL, List.length_cons, ih] <;> omega

theorem length_counts (a : Aln) : a.length = nM a + nU a + nL a := by
  induction a with
  | nil => rfl
  | cons c a ih => cases c <;> simp only [nM, nU, nL, List.length_cons, ih] <;> omega

theorem nmatch_le_nM (a : Aln) : nmatch a ≤ nM a := by
  induction a with
  | nil => simp [nmatch, nM]
  | cons c a ih =>
    cases c with
    | m r q => simp only [nmatch, nM]; split <;> omega
    | u r => simp only [nmatch, Col.exact, nM, Bool.false_eq_true, if_false]; omega
    | l q => simp only [nmatch, Col.exact, nM, Bool.false_eq_true, if_false]; omega

/-! ### slices -/

theorem slice_length (s : List Nat) (b e : Int) (h0 : 0 ≤ b) (h1 : b ≤ e) (h2 : e ≤ s.length) :
    ((slice s b e).length : Int) = e - b := by
  unfold slice
  rw [List.length_take, List.length_drop]
  omega

/-! ### from the two traces to the hit -/

theorem assemble_ok (S : Matrix) (diffCost maxIGap : Int) (target query : List Nat) (mid low high : Int)
    (f : Fwd) (r : Rev) (hf : FwdOK S diffCost maxIGap target query mid low high f)
    (hr : RevOK S target query f.bepos f.aepos r) : HitOK S target query (assemble f r) := by
  obtain ⟨fr, fc, _, _⟩ := hf
  obtain ⟨rr, rc, rn, rp, rd1, rd2⟩ := hr
  refine ⟨?_, ?_, rn, rp, ?_, ?_⟩
  · simp only [assemble]; omega
  · simp only [assemble]; omega
  · simp only [assemble]; omega
  · simp only [assemble]; omega

/-! ### what a hit under contract must satisfy -/

/-- the arithmetic of a PALS-scored global alignment of regions `alen`, `blen` long -/
theorem counts_of_path (aln : Aln) (A B : List Nat) (hg : IsGlobal aln A B) :
    ∃ m x u l : Nat, (A.length = m + x + u) ∧ (B.length = m + x + l) ∧
      scoreLin (palsS 1 3) aln = (m : Int) - 3 * ((x : Int) + u + l) := by
  refine ⟨nmatch aln, nM aln - nmatch aln, nU aln, nL aln, ?_, ?_, ?_⟩
  · rw [← hg.1, projR_length]; have := nmatch_le_nM aln; omega
  · rw [← hg.2, projQ_length]; have := nmatch_le_nM aln; omega
  · rw [scoreLin_pals]
    have h1 := nmatch_add_cost aln
    have h2 := length_counts aln
    have h3 := nmatch_le_nM aln
    omega

theorem representable_of (total indel : Int) (g x t : Nat) (hg : (g : Int) = indel + 2 * t)
    (ht : total = 7 * g + 8 * x) (hi : 0 ≤ indel) : representable 1 3 total indel = true := by
  unfold representable
  rw [List.any_eq_true]
  refine ⟨t, List.mem_range.mpr (by omega), ?_⟩
  simp only [Bool.and_eq_true, decide_eq_true_eq]
  constructor <;> omega

/-- **a hit under contract passes the driver's consistency conditions** (scoring `+1 / −3`) -/
theorem consistent_of_hitOK (target query : List Nat) (k : KHit) (ok : HitOK (palsS 1 3) target query k)
    (hb : k.h.bbpos < k.h.bepos) : consistent 1 3 k = true := by
  obtain ⟨ha, hbq, hn, hp, d1, d2⟩ := ok
  obtain ⟨aln, hg, hs⟩ := hp hb
  obtain ⟨m, x, u, l, eA, eB, eS⟩ := counts_of_path aln _ _ hg
  have lA := slice_length target k.h.abpos k.h.aepos ha.1 ha.2.1 ha.2.2
  have lB := slice_length query k.h.bbpos k.h.bepos hbq.1 hbq.2.1 hbq.2.2
  have hal : k.h.alen = (m : Int) + x + u := by unfold Hit.alen; omega
  have hbl : k.h.blen = (m : Int) + x + l := by unfold Hit.blen; omega
  have hind : k.h.indel = ((u : Int) - l).natAbs := by
    unfold Hit.indel
    congr 1
    unfold Hit.alen at hal; unfold Hit.blen at hbl
    omega
  have hsc : k.h.score = (m : Int) - 3 * ((x : Int) + u + l) := by rw [← hs, eS]
  unfold consistent
  simp only [Bool.and_eq_true, decide_eq_true_eq]
  refine ⟨⟨⟨⟨⟨⟨hn, ?_⟩, ?_⟩, d1.1⟩, d1.2⟩, d2.1⟩, d2.2⟩
  · rw [hal, hbl, hind, hsc]; omega
  · apply representable_of _ _ (u + l) x (min u l)
    · rw [hind]; omega
    · rw [hal, hbl, hsc]; omega
    · rw [hind]; omega

end Biogo.Proofs.PalsKernel
