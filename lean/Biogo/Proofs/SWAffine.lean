/-
`SWAffine` (model `Biogo.AlignAff.swAlign`): its table is the reference table of
`Spec.AffineOpt` for local alignments (with the cross transitions since the repair of K1,
`cross = true`; without them before, `cross = false`), with the two gap layers clipped at 0; the end cell it selects holds the maximum of the match layer, which dominates
the gap layers; the traceback reports pairs whose total is that maximum.  Core only.
-/
import Biogo.Proofs.AffineOpt
import Biogo.Proofs.AlignAffTable
import Biogo.Proofs.TraceSum
import Biogo.Proofs.NWAffine
import Biogo.Proofs.TraceWF

namespace Biogo.Proofs.SWAffine
open Biogo.Spec.Alignment Biogo.AlignAff Biogo.Spec.AffineOpt Biogo.Proofs.AffineAln
open Biogo.Proofs.AffineOpt Biogo.Proofs.AlignAffTable Biogo.Proofs.TraceSum
open Biogo.Proofs.NWAffine (max3_none max2_none_left gapLayer_eq gapLayer_sel)

/-! ### `max2`, `max3`, `clip0` as one semilattice operation -/

def vmax : V → V → V
  | none, b => b
  | a, none => a
  | some x, some y => some (max x y)

theorem max2_eq (a b : V) : max2 a b = vmax a b := by
  rcases a with _ | x <;> rcases b with _ | y <;> simp [max2, vgt, vmax]
  by_cases h : y < x <;> simp [h] <;> omega

theorem clip0_eq (a : V) : clip0 a = vmax (some 0) a := by
  rcases a with _ | x <;> simp [clip0, vmax]
  by_cases h : x < 0 <;> simp [h] <;> omega

theorem max3_eq (a b c : V) : max3 a b c = vmax (vmax a b) c := by
  rcases a with _ | x <;> rcases b with _ | y <;> rcases c with _ | z <;> simp [max3, vgt, vmax]
  · by_cases h : y < z <;> simp [h] <;> omega
  · by_cases h : x < z <;> simp [h] <;> omega
  · by_cases h : x < y <;> simp [h] <;> omega
  · by_cases h : x < y <;> simp [h]
    · by_cases h' : y < z <;> simp [h'] <;> omega
    · by_cases h' : x < z <;> simp [h'] <;> omega

/-- the class of alignments `SWAffine` explores: local; all of them since the repair of K1
    (`cross = true`), before it those with no gap next to an opposite gap -/
def flL (cross : Bool) : Flags := ⟨cross, true, true⟩

/-- the third argument of a gap layer's maximum: the other gap layer, when it is a predecessor -/
def crossV (cross : Bool) (po : V) (x : Int) : V := if cross then vadd po x else none

theorem gapVal_flL (cross : Bool) (o g : Int) (pd ps po : V) :
    gapVal (flL cross) o g pd ps po = vmax (vmax (vadd pd (o + g)) (vadd ps g)) (crossV cross po (o + g)) := by
  cases cross <;> simp [gapVal, flL, max3_eq, crossV]

theorem gapLayer_flL (cross : Bool) (o g : Int) (pd ps po : V) :
    gapLayer cross o g pd ps po = vmax (vmax (vadd pd (o + g)) (vadd ps g)) (crossV cross po (o + g)) := by
  have := gapLayer_eq (flL cross) o g pd ps po
  simp only [flL] at this
  rw [this, ← gapVal_flL]; rfl

/-- a reference cell as the code stores it: gap layers clipped at 0 -/
def clipCell (c : Cell) : Cell := ⟨c.d, clip0 c.u, clip0 c.l⟩

/-- `max3` does not see the clipping once the match layer is non-negative -/
theorem max3_clip (x : Int) (hx : 0 ≤ x) (u l : V) :
    max3 (some x) (clip0 u) (clip0 l) = max3 (some x) u l := by
  simp only [max3_eq, clip0_eq]
  rcases u with _ | a <;> rcases l with _ | b <;> simp [vmax] <;> omega

/-- the clipped gap layer, computed from a clipped predecessor cell, is the clipped reference value -/
theorem gap_clip (cross : Bool) (A g h : Int) (hg : g ≤ 0) (hh : h ≤ 0) (us po : V) :
    clip0 (vmax (vmax (some A) (vadd (clip0 us) g)) (crossV cross (clip0 po) h)) =
      clip0 (vmax (vmax (some A) (vadd us g)) (crossV cross po h)) := by
  simp only [clip0_eq, crossV]
  cases cross <;> rcases us with _ | w <;> rcases po with _ | z <;> simp [vmax, vadd] <;> omega

/-- the match layer: `if score > 0 then score else 0` is `max 0 score` -/
theorem dclip (m : V) (s : Int) :
    (if vgt (vadd m s) (some 0) then vadd m s else some 0) = max2 (some 0) (vadd m s) := by
  rcases m with _ | x <;> simp [vadd, vgt, max2]
  by_cases h : 0 < x + s <;> simp [h]
  · intro h'; omega
  · intro h'; omega

/-- one inner cell: the code's cell is the clipped reference cell -/
theorem swCell_clip (cross : Bool) (S : Matrix) (o : Int) (ho : o ≤ 0) (hg : ∀ x, S x 0 ≤ 0 ∧ S 0 x ≤ 0) (x y : Nat)
    (pd pu lc : Cell) (xd xu xl : Int) (hd : pd.d = some xd) (hd0 : 0 ≤ xd)
    (hu : pu.d = some xu) (hl : lc.d = some xl) :
    swCell cross S o x (clipCell pd) (clipCell pu) (clipCell lc) y =
        clipCell (optCell (flL cross) S o x pd pu lc y) ∧
      ∃ z, (optCell (flL cross) S o x pd pu lc y).d = some z ∧ 0 ≤ z := by
  constructor
  · simp only [swCell, optCell, clipCell, gapVal_flL, gapLayer_flL, hd, hu, hl]
    rw [max3_clip xd hd0, dclip]
    have e1 := gap_clip cross (xu + (o + S x 0)) (S x 0) (o + S x 0) (hg x).1 (by have := (hg x).1; omega) pu.u pu.l
    have e2 := gap_clip cross (xl + (o + S 0 y)) (S 0 y) (o + S 0 y) (hg y).2 (by have := (hg y).2; omega) lc.l lc.u
    simp only [vadd] at e1 e2 ⊢
    rw [e1, e2]
    simp [flL, emptyAt]
  · simp only [optCell, hd]
    simp only [flL, emptyAt, Bool.and_self, if_true, max2_eq, max3_eq]
    rcases pd.u with _ | a <;> rcases pd.l with _ | b <;> simp [vmax, vadd] <;> omega

/-! ### the two tables, cell by cell -/

def specAt (cross : Bool) (S : Matrix) (o : Int) (r q : List Nat) (i j : Nat) : Cell :=
  rowAt (optRows (flL cross) S o r q) i j
def swAt (cross : Bool) (S : Matrix) (o : Int) (r q : List Nat) (i j : Nat) : Cell :=
  rowAt (swRows cross S o r q) i j

/-- a border cell of the reference table: empty alignment in the match layer, nothing positive -/
def BorderOK (c : Cell) : Prop :=
  c.d = some 0 ∧ (∀ x, c.u = some x → x ≤ 0) ∧ (∀ x, c.l = some x → x ≤ 0)

theorem clipCell_border {c : Cell} (h : BorderOK c) : clipCell c = zeroCell := by
  obtain ⟨hd, hu, hl⟩ := h
  have cu : clip0 c.u = some 0 := by
    rcases hcu : c.u with _ | x
    · rfl
    · have := hu x hcu; simp only [clip0]; split <;> simp <;> omega
  have cl : clip0 c.l = some 0 := by
    rcases hcl : c.l with _ | x
    · rfl
    · have := hl x hcl; simp only [clip0]; split <;> simp <;> omega
  simp [clipCell, zeroCell, hd, cu, cl]

/-- a gap layer on the border (the other gap layer of the predecessor is empty) is not positive -/
theorem gapVal_nonpos (cross : Bool) (o g : Int) (ho : o ≤ 0) (hg : g ≤ 0) (ps : V) (x : Int)
    (hx : gapVal (flL cross) o g (some 0) ps none = some x) (hl : ∀ y, ps = some y → y ≤ 0) : x ≤ 0 := by
  rw [gapVal_flL] at hx
  have hc : crossV cross none (o + g) = none := by cases cross <;> rfl
  rw [hc] at hx
  rcases ps with _ | y
  · simp [vmax, vadd] at hx; omega
  · have := hl y rfl; simp [vmax, vadd] at hx; omega

theorem specAt_first (cross : Bool) (S : Matrix) (o : Int) (r q : List Nat) (i : Nat) (hi : i < r.length) :
    specAt cross S o r q (i + 1) 0 =
      optFirst (flL cross) S o (if i = 0 then true else false) (specAt cross S o r q i 0) (r.getD i 0) := by
  simp only [specAt, optRows]
  exact rows_first _ _ q r _ i hi

theorem specAt_inner (cross : Bool) (S : Matrix) (o : Int) (r q : List Nat) (i j : Nat) (hi : i < r.length)
    (hj : j < q.length) :
    specAt cross S o r q (i + 1) (j + 1) =
      optCell (flL cross) S o (r.getD i 0) (specAt cross S o r q i j) (specAt cross S o r q i (j + 1))
        (specAt cross S o r q (i + 1) j) (q.getD j 0) := by
  simp only [specAt, optRows]
  exact rows_inner _ _ q r _ (row0_ok (flL cross) S o q).1 i j hi hj

theorem swAt_first (cross : Bool) (S : Matrix) (o : Int) (r q : List Nat) (i : Nat) (hi : i < r.length) :
    swAt cross S o r q (i + 1) 0 = zeroCell := by
  simp only [swAt, swRows]
  rw [rows_first _ _ q r _ i hi]; rfl

theorem swAt_inner (cross : Bool) (S : Matrix) (o : Int) (r q : List Nat) (i j : Nat) (hi : i < r.length)
    (hj : j < q.length) :
    swAt cross S o r q (i + 1) (j + 1) =
      swCell cross S o (r.getD i 0) (swAt cross S o r q i j) (swAt cross S o r q i (j + 1))
        (swAt cross S o r q (i + 1) j) (q.getD j 0) := by
  simp only [swAt, swRows]
  exact rows_inner _ _ q r _ (by simp) i j hi hj

theorem swAt_row0 (cross : Bool) (S : Matrix) (o : Int) (r q : List Nat) (j : Nat) (hj : j ≤ q.length) :
    swAt cross S o r q 0 j = zeroCell := by
  simp only [swAt, swRows, rowAt, List.getD_cons_zero]
  rw [List.getD_eq_getElem?_getD, List.getElem?_replicate, if_pos (by omega)]
  rfl

theorem spec_row0 (cross : Bool) (S : Matrix) (o : Int) (ho : o ≤ 0) (hg : ∀ x, S x 0 ≤ 0 ∧ S 0 x ≤ 0)
    (r q : List Nat) :
    ∀ j, j ≤ q.length → BorderOK (specAt cross S o r q 0 j) ∧ (specAt cross S o r q 0 j).u = none := by
  intro j
  induction j with
  | zero =>
    intro _
    have h0 : specAt cross S o r q 0 0 = origin := optRows_origin (flL cross) S o r q
    rw [h0]
    exact ⟨⟨rfl, (fun x h => by cases h), (fun x h => by cases h)⟩, rfl⟩
  | succ j ih =>
    intro hj
    obtain ⟨hb, hu⟩ := ih (by omega)
    have key : specAt cross S o r q 0 (j + 1) = _ := optRows_row0 (flL cross) S o r q j (by omega)
    rw [key]
    refine ⟨⟨by simp [flL, emptyAt], (fun x h => by cases h), ?_⟩, rfl⟩
    intro x hx
    change gapVal (flL cross) o _ (specAt cross S o r q 0 j).d (specAt cross S o r q 0 j).l
      (specAt cross S o r q 0 j).u = some x at hx
    rw [hb.1, hu] at hx
    exact gapVal_nonpos cross o _ ho (hg _).2 _ x hx hb.2.2

theorem spec_col0 (cross : Bool) (S : Matrix) (o : Int) (ho : o ≤ 0) (hg : ∀ x, S x 0 ≤ 0 ∧ S 0 x ≤ 0)
    (r q : List Nat) :
    ∀ i, i ≤ r.length → BorderOK (specAt cross S o r q i 0) ∧ (specAt cross S o r q i 0).l = none := by
  intro i
  induction i with
  | zero =>
    intro _
    have h0 : specAt cross S o r q 0 0 = origin := optRows_origin (flL cross) S o r q
    rw [h0]
    exact ⟨⟨rfl, (fun x h => by cases h), (fun x h => by cases h)⟩, rfl⟩
  | succ i ih =>
    intro hi
    obtain ⟨hb, hl⟩ := ih (by omega)
    rw [specAt_first cross S o r q i (by omega)]
    refine ⟨⟨by simp [optFirst, flL, emptyAt], ?_, (fun x h => by simp [optFirst] at h)⟩, by simp [optFirst]⟩
    intro x hx
    simp only [optFirst] at hx
    rw [hb.1, hl] at hx
    exact gapVal_nonpos cross o _ ho (hg _).1 _ x hx hb.2.1

/-- the code's table is the reference table with clipped gap layers, and the match layer of
    the reference table is never negative -/
theorem sw_clip (cross : Bool) (S : Matrix) (o : Int) (ho : o ≤ 0) (hg : ∀ x, S x 0 ≤ 0 ∧ S 0 x ≤ 0)
    (r q : List Nat) :
    ∀ i, i ≤ r.length → ∀ j, j ≤ q.length →
      swAt cross S o r q i j = clipCell (specAt cross S o r q i j) ∧
        ∃ z, (specAt cross S o r q i j).d = some z ∧ 0 ≤ z := by
  intro i
  induction i with
  | zero =>
    intro _ j hj
    have hb := (spec_row0 cross S o ho hg r q j hj).1
    exact ⟨by rw [swAt_row0 cross S o r q j hj, clipCell_border hb], 0, hb.1, Int.le_refl _⟩
  | succ i ih =>
    intro hi j
    induction j with
    | zero =>
      intro _
      have hb := (spec_col0 cross S o ho hg r q (i + 1) hi).1
      exact ⟨by rw [swAt_first cross S o r q i (by omega), clipCell_border hb], 0, hb.1, Int.le_refl _⟩
    | succ j ihj =>
      intro hj
      obtain ⟨e1, xd, hd, hd0⟩ := ih (by omega) j (by omega)
      obtain ⟨e2, xu, hu, _⟩ := ih (by omega) (j + 1) hj
      obtain ⟨e3, xl, hl, _⟩ := ihj (by omega)
      rw [swAt_inner cross S o r q i j (by omega) (by omega), specAt_inner cross S o r q i j (by omega) (by omega),
        e1, e2, e3]
      exact swCell_clip cross S o ho hg _ _ _ _ _ xd xu xl hd hd0 hu hl

/-! ### the end cell holds the maximum of the match layer -/

def BestOK (g : Nat → Nat → V) (best : Int × Nat × Nat) : Prop :=
  0 ≤ best.1 ∧ g best.2.1 best.2.2 = some best.1

theorem swBestRow_spec (g : Nat → Nat → V) (i : Nat) :
    ∀ (cells : List Cell) (j : Nat) (best : Int × Nat × Nat),
      (∀ k, k < cells.length → (cells.getD k noCell).d = g i (j + k)) → BestOK g best →
      BestOK g (swBestRow i cells j best) ∧ best.1 ≤ (swBestRow i cells j best).1 ∧
        ∀ k, k < cells.length → ∀ x, g i (j + k) = some x → x ≤ (swBestRow i cells j best).1 := by
  intro cells
  induction cells with
  | nil => intro j best _ hb; exact ⟨hb, Int.le_refl _, fun k hk => absurd hk (by simp)⟩
  | cons cell cs ih =>
    intro j best hcells hb
    have h0 : cell.d = g i j := by simpa using hcells 0 (by simp)
    have hrest : ∀ k, k < cs.length → (cs.getD k noCell).d = g i (j + 1 + k) := by
      intro k hk
      have := hcells (k + 1) (by simpa using hk)
      simpa [Nat.add_assoc, Nat.add_comm 1 k] using this
    -- the candidate after looking at this cell
    have hstep : ∃ b1 : Int × Nat × Nat,
        swBestStep i j cell best = b1 ∧ BestOK g b1 ∧ best.1 ≤ b1.1 ∧ ∀ x, g i j = some x → x ≤ b1.1 := by
      unfold swBestStep
      rcases hd : cell.d with _ | s
      · refine ⟨best, rfl, hb, Int.le_refl _, ?_⟩
        intro x hx; rw [← h0, hd] at hx; cases hx
      · by_cases hc : s > 0 ∧ s ≥ best.1
        · refine ⟨(s, i, j), by simp [hc], ⟨by simp; omega, by simp; rw [← h0, hd]⟩, hc.2, ?_⟩
          intro x hx; rw [← h0, hd] at hx; cases hx; exact Int.le_refl _
        · refine ⟨best, by simp [hc], hb, Int.le_refl _, ?_⟩
          intro x hx; rw [← h0, hd] at hx; cases hx
          have := hb.1
          omega
    obtain ⟨b1, e1, hb1, hle1, hx1⟩ := hstep
    simp only [swBestRow]
    rw [e1]
    obtain ⟨hb2, hle2, hx2⟩ := ih (j + 1) b1 hrest hb1
    refine ⟨hb2, by omega, ?_⟩
    intro k hk x hx
    cases k with
    | zero => have := hx1 x (by simpa using hx); omega
    | succ k =>
      have := hx2 k (by simpa using hk) x (by simpa [Nat.add_assoc, Nat.add_comm 1 k] using hx)
      exact this

theorem swBestRows_spec (g : Nat → Nat → V) :
    ∀ (rows : List (List Cell)) (i : Nat) (best : Int × Nat × Nat),
      (∀ a, a < rows.length → ∀ k, k + 1 < (rows.getD a []).length →
        ((rows.getD a []).getD (k + 1) noCell).d = g (i + a) (1 + k)) → BestOK g best →
      BestOK g (swBestRows rows i best) ∧ best.1 ≤ (swBestRows rows i best).1 ∧
        ∀ a, a < rows.length → ∀ k, k + 1 < (rows.getD a []).length →
          ∀ x, g (i + a) (1 + k) = some x → x ≤ (swBestRows rows i best).1 := by
  intro rows
  induction rows with
  | nil => intro i best _ hb; exact ⟨hb, Int.le_refl _, fun a ha => absurd ha (by simp)⟩
  | cons row rows ih =>
    intro i best hrows hb
    have hrow : ∀ k, k < (row.drop 1).length → ((row.drop 1).getD k noCell).d = g i (1 + k) := by
      intro k hk
      have := hrows 0 (by simp) k (by simp at hk ⊢; omega)
      simp only [List.getD_cons_zero, Nat.add_zero] at this
      rw [← this]
      simp only [List.getD_eq_getElem?_getD, List.getElem?_drop]
      rw [Nat.add_comm 1 k]
    obtain ⟨hb1, hle1, hx1⟩ := swBestRow_spec g i (row.drop 1) 1 best hrow hb
    have hrest : ∀ a, a < rows.length → ∀ k, k + 1 < (rows.getD a []).length →
        ((rows.getD a []).getD (k + 1) noCell).d = g (i + 1 + a) (1 + k) := by
      intro a ha k hk
      have := hrows (a + 1) (by simpa using ha) k (by simpa using hk)
      simpa [Nat.add_assoc, Nat.add_comm 1 a] using this
    simp only [swBestRows]
    obtain ⟨hb2, hle2, hx2⟩ := ih (i + 1) _ hrest hb1
    refine ⟨hb2, by omega, ?_⟩
    intro a ha k hk x hx
    cases a with
    | zero =>
      simp only [List.getD_cons_zero] at hk
      have := hx1 k (by simp; omega) x (by simpa using hx)
      omega
    | succ a =>
      exact hx2 a (by simpa using ha) k (by simpa using hk) x
        (by simpa [Nat.add_assoc, Nat.add_comm 1 a] using hx)

/-- `maxS, maxI, maxJ`: a cell of the table holding the largest match-layer value -/
theorem swBest_spec (cross : Bool) (S : Matrix) (o : Int) (r q : List Nat) :
    0 ≤ (swBest (swRows cross S o r q)).1 ∧
    (swAt cross S o r q (swBest (swRows cross S o r q)).2.1 (swBest (swRows cross S o r q)).2.2).d
      = some (swBest (swRows cross S o r q)).1 ∧
    ∀ i j, i < r.length → j < q.length → ∀ x, (swAt cross S o r q (i + 1) (j + 1)).d = some x →
      x ≤ (swBest (swRows cross S o r q)).1 := by
  have hlen : (swRows cross S o r q).length = r.length + 1 := by simp [swRows, fillRows_length]
  have hrowlen : ∀ a, a ≤ r.length → ((swRows cross S o r q).getD a []).length = q.length + 1 := by
    intro a ha
    exact rows_getD_len swFirst (swCell cross S o) q r _ (by simp) a ha
  have h0 : BestOK (fun i j => (swAt cross S o r q i j).d) (0, 0, 0) := by
    refine ⟨Int.le_refl _, ?_⟩
    simp only [swAt_row0 cross S o r q 0 (Nat.zero_le _)]; rfl
  have hrows : ∀ a, a < ((swRows cross S o r q).drop 1).length → ∀ k,
      k + 1 < (((swRows cross S o r q).drop 1).getD a []).length →
      ((((swRows cross S o r q).drop 1).getD a []).getD (k + 1) noCell).d
        = (fun i j => (swAt cross S o r q i j).d) (1 + a) (1 + k) := by
    intro a _ k _
    simp only [swAt, rowAt, List.getD_eq_getElem?_getD, List.getElem?_drop]
    rw [Nat.add_comm 1 k]
  obtain ⟨hb, _, hx⟩ := swBestRows_spec (fun i j => (swAt cross S o r q i j).d) _ 1 (0, 0, 0) hrows h0
  refine ⟨hb.1, hb.2, ?_⟩
  intro i j hi hj x hxx
  have hda : (List.drop 1 (swRows cross S o r q)).getD i [] = (swRows cross S o r q).getD (i + 1) [] := by
    simp only [List.getD_eq_getElem?_getD, List.getElem?_drop]; rw [Nat.add_comm 1 i]
  have := hx i (by simp [hlen]; omega) j (by rw [hda, hrowlen (i + 1) (by omega)]; omega) x
    (by simpa [Nat.add_comm 1 i, Nat.add_comm 1 j] using hxx)
  exact this

/-! ### the gap layers never exceed the best match-layer value -/

/-- a gap-layer value is bounded by what bounds the three layers of its predecessor cell -/
theorem gapVal_le (cross : Bool) (o g : Int) (ho : o ≤ 0) (hg : g ≤ 0) (s : Int) (pd ps po : V)
    (h1 : ∀ y, pd = some y → y ≤ s) (h2 : ∀ y, ps = some y → y ≤ s) (h3 : ∀ y, po = some y → y ≤ s)
    (x : Int) (hv : gapVal (flL cross) o g pd ps po = some x) : x ≤ s := by
  rw [gapVal_flL] at hv
  cases cross <;> rcases pd with _ | a <;> rcases ps with _ | b <;> rcases po with _ | c <;>
    simp [vmax, vadd, crossV] at hv <;>
    (try have := h1 _ rfl) <;> (try have := h2 _ rfl) <;> (try have := h3 _ rfl) <;> omega

theorem spec_gap_le (cross : Bool) (S : Matrix) (o : Int) (ho : o ≤ 0) (hg : ∀ x, S x 0 ≤ 0 ∧ S 0 x ≤ 0)
    (r q : List Nat) (s : Int) (hs : 0 ≤ s)
    (hd : ∀ i j, i ≤ r.length → j ≤ q.length → ∀ x, (specAt cross S o r q i j).d = some x → x ≤ s) :
    ∀ i, i ≤ r.length → ∀ j, j ≤ q.length →
      (∀ x, (specAt cross S o r q i j).u = some x → x ≤ s) ∧
      (∀ x, (specAt cross S o r q i j).l = some x → x ≤ s) := by
  intro i
  induction i with
  | zero =>
    intro _ j hj
    obtain ⟨hb, hu⟩ := spec_row0 cross S o ho hg r q j hj
    exact ⟨fun x hx => (by rw [hu] at hx; cases hx), fun x hx => (by have := hb.2.2 x hx; omega)⟩
  | succ i ih =>
    intro hi j
    induction j with
    | zero =>
      intro _
      obtain ⟨hb, hl⟩ := spec_col0 cross S o ho hg r q (i + 1) hi
      exact ⟨fun x hx => (by have := hb.2.1 x hx; omega), fun x hx => (by rw [hl] at hx; cases hx)⟩
    | succ j ihj =>
      intro hj
      rw [specAt_inner cross S o r q i j (by omega) (by omega)]
      obtain ⟨hu1, hl1⟩ := ih (by omega) (j + 1) hj
      obtain ⟨hu2, hl2⟩ := ihj (by omega)
      refine ⟨fun x hx => ?_, fun x hx => ?_⟩
      · exact gapVal_le cross o _ ho (hg _).1 s _ _ _ (hd i (j + 1) (by omega) hj) hu1 hl1 x hx
      · exact gapVal_le cross o _ ho (hg _).2 s _ _ _ (hd (i + 1) j hi (by omega)) hl2 hu2 x hx

/-! ### the traceback of `SWAffine` -/

theorem swTable_at (cross : Bool) (S : Matrix) (o : Int) (r q : List Nat) (i j : Nat) (hj : j ≤ q.length) :
    (swTable cross S o r q).at i j = swAt cross S o r q i j := by
  simp only [swTable, swAt, swRows]
  exact mkTable_at _ _ i j (rows_all_len swFirst (swCell cross S o) q r _ (by simp)) (by omega)

theorem clip0_some_ne_zero {w : V} {v : Int} (h : clip0 w = some v) (hv : v ≠ 0) : w = some v := by
  rcases w with _ | x
  · simp [clip0] at h; exact absurd h.symm hv
  · simp only [clip0] at h
    split at h
    · simp at h; exact absurd h.symm hv
    · exact h

theorem exists_cand_sw (cross : Bool) (S : Matrix) (o : Int) (r q : List Nat) (i j : Nat) (hi : i < r.length)
    (hj : j < q.length) (k : Kind) (v : Int)
    (h : ((swTable cross S o r q).at (i + 1) (j + 1)).get k = some v) (hv : ¬ ((true : Bool) = true ∧ v = 0)) :
    ∃ cd ∈ cands cross true S o (r.getD i 0) (q.getD j 0), cd.1 = k ∧
      vadd ((predOf (swTable cross S o r q) (i + 1) (j + 1) cd.1).get cd.2.1) cd.2.2 = some v := by
  have hv0 : v ≠ 0 := fun e => hv ⟨rfl, e⟩
  have e1 : (swTable cross S o r q).at i j = swAt cross S o r q i j := swTable_at cross S o r q i j (by omega)
  have e2 : (swTable cross S o r q).at i (j + 1) = swAt cross S o r q i (j + 1) := swTable_at cross S o r q i (j + 1) (by omega)
  have e3 : (swTable cross S o r q).at (i + 1) j = swAt cross S o r q (i + 1) j := swTable_at cross S o r q (i + 1) j (by omega)
  rw [swTable_at cross S o r q (i + 1) (j + 1) (by omega), swAt_inner cross S o r q i j hi hj] at h
  cases k with
  | m =>
    simp only [Cell.get, swCell] at h
    split at h
    · obtain ⟨hsel, _⟩ := max3_spec (swAt cross S o r q i j).d (swAt cross S o r q i j).u (swAt cross S o r q i j).l
      rcases hsel with e | e | e <;> rw [e] at h
      · exact ⟨(.m, .m, S (r.getD i 0) (q.getD j 0)), by cases cross <;> simp [cands], rfl, by simpa [predOf, Cell.get, e1] using h⟩
      · exact ⟨(.m, .u, S (r.getD i 0) (q.getD j 0)), by cases cross <;> simp [cands], rfl, by simpa [predOf, Cell.get, e1] using h⟩
      · exact ⟨(.m, .l, S (r.getD i 0) (q.getD j 0)), by cases cross <;> simp [cands], rfl, by simpa [predOf, Cell.get, e1] using h⟩
    · simp at h; exact absurd h.symm hv0
  | u =>
    simp only [Cell.get, swCell] at h
    have h' := clip0_some_ne_zero h hv0
    rcases gapLayer_sel cross o _ _ _ _ v h' with e | e | ⟨hc, e⟩
    · exact ⟨(.u, .m, o + S (r.getD i 0) 0), by cases cross <;> simp [cands], rfl, by simpa [predOf, Cell.get, e2] using e⟩
    · exact ⟨(.u, .u, S (r.getD i 0) 0), by cases cross <;> simp [cands], rfl, by simpa [predOf, Cell.get, e2] using e⟩
    · subst hc
      exact ⟨(.u, .l, o + S (r.getD i 0) 0), by simp [cands], rfl, by simpa [predOf, Cell.get, e2] using e⟩
  | l =>
    simp only [Cell.get, swCell] at h
    have h' := clip0_some_ne_zero h hv0
    rcases gapLayer_sel cross o _ _ _ _ v h' with e | e | ⟨hc, e⟩
    · exact ⟨(.l, .m, o + S 0 (q.getD j 0)), by cases cross <;> simp [cands], rfl, by simpa [predOf, Cell.get, e3] using e⟩
    · exact ⟨(.l, .l, S 0 (q.getD j 0)), by cases cross <;> simp [cands], rfl, by simpa [predOf, Cell.get, e3] using e⟩
    · subst hc
      exact ⟨(.l, .u, o + S 0 (q.getD j 0)), by simp [cands], rfl, by simpa [predOf, Cell.get, e3] using e⟩

/-- The pairs reported by the model of `SWAffine` add up to the largest match-layer value of
    the table, which is the optimum over the local alignments (the empty alignment scoring 0) —
    all of them for the fill of the code (`cross = true`), those without adjacent opposite gaps
    for the fill before the repair of K1. -/
theorem swAlignT_total (cross : Bool) (S : Matrix) (o : Int) (ho : o ≤ 0) (hg : ∀ x, S x 0 ≤ 0 ∧ S 0 x ≤ 0)
    (r q : List Nat) :
    ∃ ps, (swAlignT true cross S o r q).map (·.1) = .ok ps ∧
      (∀ a, IsLocal a r q → (cross = true ∨ NoAdj a) → scoreAff S o a ≤ total ps) ∧
      (∃ a, IsLocal a r q ∧ (cross = true ∨ NoAdj a) ∧ scoreAff S o a = total ps) := by
  obtain ⟨hs0, hbest, hmax⟩ := swBest_spec cross S o r q
  obtain ⟨hI, hJ⟩ := Biogo.Proofs.TraceWF.swBest_bound cross S o r q
  generalize hb : swBest (swRows cross S o r q) = best at hs0 hbest hmax hI hJ
  obtain ⟨s, mi, mj⟩ := best
  simp only [] at hs0 hbest hmax hI hJ
  have hclip := sw_clip cross S o ho hg r q
  -- every match-layer value of the reference table is at most `s`
  have hd : ∀ i j, i ≤ r.length → j ≤ q.length → ∀ x, (specAt cross S o r q i j).d = some x → x ≤ s := by
    intro i j hi hj x hx
    cases i with
    | zero => rw [(spec_row0 cross S o ho hg r q j hj).1.1] at hx; cases hx; exact hs0
    | succ i =>
      cases j with
      | zero => rw [(spec_col0 cross S o ho hg r q (i + 1) hi).1.1] at hx; cases hx; exact hs0
      | succ j =>
        apply hmax i j (by omega) (by omega) x
        rw [(hclip (i + 1) hi (j + 1) hj).1]; exact hx
  have hgap := spec_gap_le cross S o ho hg r q s hs0 hd
  -- the traceback
  have hinit : Good (swTable cross S o r q) r.length q.length s
      { i := mi, j := mj, layer := .m, last := .m, score := 0, maxI := mi, maxJ := mj, aln := [] } := by
    refine ⟨hI, hJ, s, ?_, by simp [total]⟩
    simp only []
    rw [swTable_at cross S o r q mi mj hJ]; exact hbest
  obtain ⟨st', hloop, ⟨hi', hj', v, hv, hsum⟩, hend⟩ :=
    loop_good_gen true cross true r.length q.length (exists_cand_sw cross S o r q) s (mi + mj) _ hinit (Nat.le_refl _)
  have hv0 : v = 0 := by
    rw [swTable_at cross S o r q _ _ hj'] at hv
    rcases hend with h | h | ⟨_, h⟩
    · rw [h, swAt_row0 cross S o r q _ hj'] at hv
      cases hk : st'.layer <;> rw [hk] at hv <;> simp [zeroCell, Cell.get] at hv <;> omega
    · rw [h] at hv
      cases hi0 : st'.i with
      | zero =>
        rw [hi0, swAt_row0 cross S o r q _ (Nat.zero_le _)] at hv
        cases hk : st'.layer <;> rw [hk] at hv <;> simp [zeroCell, Cell.get] at hv <;> omega
      | succ i0 =>
        rw [hi0, swAt_first cross S o r q i0 (by omega)] at hv
        cases hk : st'.layer <;> rw [hk] at hv <;> simp [zeroCell, Cell.get] at hv <;> omega
    · rw [swTable_at cross S o r q _ _ hj', hv] at h
      cases h; rfl
  have htot : total st'.emit.aln = s := by
    simp only [TB.emit, total_cons]; omega
  refine ⟨st'.emit.aln, ?_, ?_, ?_⟩
  · unfold swAlignT
    simp only [hb, hloop, Except.map]
  · intro a hloc hna
    rw [htot]
    obtain ⟨i, j, hi, hj, hr, hq⟩ := (local_iff a r q).mp hloc
    have hcell := cellBest_isOpt (optRows_ok (flL cross) S o r q i j hi hj)
    obtain ⟨x, hx, hle⟩ := hcell.1 a ⟨by simpa [fits, flL] using hr, by simpa [fits, flL] using hq, hna⟩
    have hxs : x ≤ s := by
      obtain ⟨hsel, _⟩ := max3_spec (specAt cross S o r q i j).d (specAt cross S o r q i j).u (specAt cross S o r q i j).l
      have hx' : max3 (specAt cross S o r q i j).d (specAt cross S o r q i j).u (specAt cross S o r q i j).l = some x := hx
      rcases hsel with e | e | e <;> rw [e] at hx'
      · exact hd i j hi hj x hx'
      · exact (hgap i hi j hj).1 x hx'
      · exact (hgap i hi j hj).2 x hx'
    omega
  · rw [htot]
    have hspec : (specAt cross S o r q mi mj).d = some s := by
      rw [← hbest, (hclip mi hI mj hJ).1]; rfl
    obtain ⟨a, ⟨⟨hr, hq, hn⟩, _⟩, e⟩ := (optRows_ok (flL cross) S o r q mi mj hI hJ .m).2 s hspec
    exact ⟨a, (local_iff a r q).mpr ⟨mi, mj, hI, hJ, by simpa [fits, flL] using hr, by simpa [fits, flL] using hq⟩,
      hn, e⟩

/-- `swAlign`, the model of the code: the total is the optimum over *all* local alignments -/
theorem swAlign_total (S : Matrix) (o : Int) (ho : o ≤ 0) (hg : ∀ x, S x 0 ≤ 0 ∧ S 0 x ≤ 0) (r q : List Nat) :
    ∃ ps, swAlign S o r q = .ok ps ∧
      (∀ a, IsLocal a r q → scoreAff S o a ≤ total ps) ∧
      (∃ a, IsLocal a r q ∧ scoreAff S o a = total ps) := by
  obtain ⟨ps, h1, h2, a, h3, _, h4⟩ := swAlignT_total true S o ho hg r q
  exact ⟨ps, h1, fun a ha => h2 a ha (Or.inl rfl), a, h3, h4⟩

/-- the fill before the repair of K1: the total is the optimum over the local alignments
    without adjacent opposite gaps -/
theorem swAlignNoCross_total (S : Matrix) (o : Int) (ho : o ≤ 0) (hg : ∀ x, S x 0 ≤ 0 ∧ S 0 x ≤ 0)
    (r q : List Nat) :
    ∃ ps, swAlignNoCross S o r q = .ok ps ∧
      (∀ a, IsLocal a r q → NoAdj a → scoreAff S o a ≤ total ps) ∧
      (∃ a, IsLocal a r q ∧ NoAdj a ∧ scoreAff S o a = total ps) := by
  obtain ⟨ps, h1, h2, a, h3, h5, h4⟩ := swAlignT_total false S o ho hg r q
  refine ⟨ps, h1, fun a ha hn => h2 a ha (Or.inr hn), a, h3, ?_, h4⟩
  rcases h5 with h5 | h5
  · cases h5
  · exact h5

end Biogo.Proofs.SWAffine
