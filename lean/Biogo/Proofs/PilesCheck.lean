/-
Soundness of the executable checker the C16 driver runs on the implementation's piles:
`checkPiles fs ps = true → IsComponents fs ps`.  Core-only.
-/
import Biogo.Proofs.PilerInv

namespace Biogo.Proofs.Piler
open Biogo.Piler Biogo.Spec.Piles

theorem nodupIds_iff (l : List Nat) : nodupIds l = true ↔ l.Nodup := by
  induction l with
  | nil => simp [nodupIds]
  | cons a l ih =>
    simp only [nodupIds, Bool.and_eq_true, Bool.not_eq_true', List.nodup_cons, ih]
    constructor
    · rintro ⟨h1, h2⟩
      refine ⟨?_, h2⟩
      intro hm
      have := List.contains_iff_mem.mpr hm
      rw [this] at h1; cases h1
    · rintro ⟨h1, h2⟩
      refine ⟨?_, h2⟩
      cases h : l.contains a
      · rfl
      · exact absurd (List.contains_iff_mem.mp h) h1

theorem lookup_mem {fs : Feats} {i : Nat} {k : Key} (h : fs.lookup i = some k) : (i, k) ∈ fs := by
  induction fs with
  | nil => simp [List.lookup] at h
  | cons x fs ih =>
    obtain ⟨j, kj⟩ := x
    simp only [List.lookup] at h
    split at h
    · rename_i e
      have : i = j := by simpa using e
      simp only [Option.some.injEq] at h
      rw [this, h]; exact List.mem_cons_self ..
    · exact List.mem_cons_of_mem _ (ih h)

theorem resolve_spec {fs : Feats} {is : List Nat} {ms : List (Nat × Key)} (h : resolve fs is = some ms) :
    ms.map (·.1) = is ∧ ∀ m ∈ ms, m ∈ fs := by
  induction is generalizing ms with
  | nil => simp only [resolve, Option.some.injEq] at h; subst h; simp
  | cons i is ih =>
    simp only [resolve] at h
    split at h
    · rename_i k r hk hr
      simp only [Option.some.injEq] at h
      subst h
      have := ih hr
      refine ⟨by simp [this.1], ?_⟩
      intro m hm
      rcases List.mem_cons.mp hm with rfl | hm
      · exact lookup_mem hk
      · exact this.2 m hm
    · cases h

/-- what `chainHull` has established about the members walked so far -/
structure Walked (fs : Feats) (seen : List (Nat × Key)) (lo hi : Int) : Prop where
  inside : ∀ y ∈ seen, lo ≤ y.2.s ∧ y.2.e ≤ hi
  atLo : ∃ y ∈ seen, y.2.s = lo
  atHi : ∃ y ∈ seen, y.2.e = hi
  cover : ∀ x : Int, lo ≤ x → x < hi → ∃ y ∈ seen, y.2.s ≤ x ∧ x < y.2.e
  linked : ∀ y ∈ seen, ∀ z ∈ seen, Linked fs y.1 z.1

theorem chainHull_sound {fs : Feats} (wf : WF fs) {seen rest : List (Nat × Key)} {lo hi L H : Int}
    (hs : ∀ y ∈ seen, y ∈ fs) (hr : ∀ y ∈ rest, y ∈ fs)
    (w : Walked fs seen lo hi) (h : chainHull seen lo hi rest = some (L, H)) :
    ∃ seen', (∀ y, y ∈ seen' ↔ y ∈ seen ∨ y ∈ rest) ∧ Walked fs seen' L H := by
  induction rest generalizing seen lo hi with
  | nil =>
    simp only [chainHull, Option.some.injEq, Prod.mk.injEq] at h
    obtain ⟨rfl, rfl⟩ := h
    exact ⟨seen, by simp, w⟩
  | cons x rest ih =>
    simp only [chainHull] at h
    split at h
    · rename_i hany
      obtain ⟨y, hy, ty⟩ := List.any_eq_true.mp hany
      have tyx := touches_iff.mp ty
      have hx : x ∈ fs := hr x (List.mem_cons_self ..)
      have hxwf : x.2.s ≤ x.2.e := wf x hx
      have hyin := w.inside y hy
      have w' : Walked fs (x :: seen) (min lo x.2.s) (max hi x.2.e) := by
        refine ⟨?_, ?_, ?_, ?_, ?_⟩
        · intro z hz
          rcases List.mem_cons.mp hz with rfl | hz
          · omega
          · have := w.inside z hz; omega
        · rcases Int.le_total lo x.2.s with c | c
          · obtain ⟨z, hz, e⟩ := w.atLo
            exact ⟨z, List.mem_cons_of_mem _ hz, by omega⟩
          · exact ⟨x, List.mem_cons_self .., by omega⟩
        · rcases Int.le_total hi x.2.e with c | c
          · exact ⟨x, List.mem_cons_self .., by omega⟩
          · obtain ⟨z, hz, e⟩ := w.atHi
            exact ⟨z, List.mem_cons_of_mem _ hz, by omega⟩
        · intro v hv hv'
          rcases Int.lt_or_le v x.2.s with c | c
          · -- left of x: then lo ≤ v, and v < x.s ≤ y.e ≤ hi
            obtain ⟨z, hz, e⟩ := w.cover v (by omega) (by omega)
            exact ⟨z, List.mem_cons_of_mem _ hz, e⟩
          · rcases Int.lt_or_le v x.2.e with d | d
            · exact ⟨x, List.mem_cons_self .., c, d⟩
            · obtain ⟨z, hz, e⟩ := w.cover v (by omega) (by omega)
              exact ⟨z, List.mem_cons_of_mem _ hz, e⟩
        · have lx : ∀ z ∈ seen, Linked fs z.1 x.1 := by
            intro z hz
            have t : Touch fs y.1 x.1 := ⟨y.2, x.2, hs y hy, hx, ty⟩
            exact Linked.trans (w.linked z hz y hy) (Linked.of_touch t)
          intro a ha b hb
          rcases List.mem_cons.mp ha with ea | ha' <;> rcases List.mem_cons.mp hb with eb | hb'
          · rw [ea, eb]; exact .refl hx
          · rw [ea]; exact Linked.symm (lx b hb')
          · rw [eb]; exact lx a ha'
          · exact w.linked a ha' b hb'
      have hs' : ∀ z ∈ x :: seen, z ∈ fs := by
        intro z hz
        rcases List.mem_cons.mp hz with rfl | hz
        · exact hx
        · exact hs z hz
      obtain ⟨seen', m, w''⟩ := ih hs' (fun z hz => hr z (List.mem_cons_of_mem _ hz)) w' h
      refine ⟨seen', ?_, w''⟩
      intro z
      rw [m z]
      simp only [List.mem_cons]
      constructor
      · rintro ((h | h) | h) <;> simp [h]
      · rintro (h | h | h) <;> simp [h]
    · cases h

theorem sepAll_iff (ps : List Pile) : sepAll ps = true ↔ ps.Pairwise (fun p q => sepPile p q = true) := by
  induction ps with
  | nil => simp [sepAll]
  | cons p ps ih =>
    simp only [sepAll, Bool.and_eq_true, List.all_eq_true, List.pairwise_cons, ih]

theorem sepPile_spec {p q : Pile} (h : sepPile p q = true) : p.loc = q.loc → p.e < q.s ∨ q.e < p.s := by
  simp only [sepPile, Bool.or_eq_true, bne_iff_ne, ne_eq, decide_eq_true_eq] at h
  intro e
  rcases h with (h | h) | h
  · exact absurd e h
  · exact Or.inl h
  · exact Or.inr h

/-- facts about one pile that passed `checkPile` -/
theorem checkPile_sound {fs : Feats} (wf : WF fs) {p : Pile} (h : checkPile fs p = true) :
    ∃ ms : List (Nat × Key), (∀ i, i ∈ p.imgs ↔ ∃ k, (i, k) ∈ ms) ∧ (∀ m ∈ ms, m ∈ fs ∧ m.2.loc = p.loc) ∧
      Walked fs ms p.s p.e := by
  simp only [checkPile] at h
  split at h
  · cases h
  · rename_i ms hres
    have ⟨r1, r2⟩ := resolve_spec hres
    simp only [Bool.and_eq_true, List.all_eq_true, beq_iff_eq] at h
    obtain ⟨hloc, h⟩ := h
    split at h
    · cases h
    · rename_i m rest hsort
      have hmem : ∀ y, y ∈ m :: rest ↔ y ∈ ms := by
        intro y; rw [← hsort]; exact List.mem_mergeSort
      have hm : m ∈ fs := r2 m ((hmem m).mp (List.mem_cons_self ..))
      have hmwf : m.2.s ≤ m.2.e := wf m hm
      have w0 : Walked fs [m] m.2.s m.2.e := by
        refine ⟨?_, ⟨m, by simp, rfl⟩, ⟨m, by simp, rfl⟩, ?_, ?_⟩
        · intro y hy; simp only [List.mem_singleton] at hy; subst hy; omega
        · intro x h1 h2; exact ⟨m, by simp, h1, h2⟩
        · intro a ha b hb
          simp only [List.mem_singleton] at ha hb
          subst ha; subst hb; exact .refl hm
      have h' : chainHull [m] m.2.s m.2.e rest = some (p.s, p.e) := by simpa using h
      obtain ⟨seen', ms', w⟩ := chainHull_sound wf
        (by intro y hy; simp only [List.mem_singleton] at hy; subst hy; exact hm)
        (fun y hy => r2 y ((hmem y).mp (List.mem_cons_of_mem _ hy))) w0 h'
      have eqv : ∀ y, y ∈ seen' ↔ y ∈ ms := by
        intro y; rw [ms' y, ← hmem y]; simp [List.mem_cons]
      refine ⟨ms, ?_, fun m hm => ⟨r2 m hm, hloc m hm⟩, ?_⟩
      · intro i
        rw [← r1]
        simp only [List.mem_map]
        constructor
        · rintro ⟨⟨j, k⟩, hjk, rfl⟩; exact ⟨k, hjk⟩
        · rintro ⟨k, hk⟩; exact ⟨(i, k), hk, rfl⟩
      · exact ⟨fun y hy => w.inside y ((eqv y).mpr hy),
          let ⟨y, hy, e⟩ := w.atLo; ⟨y, (eqv y).mp hy, e⟩,
          let ⟨y, hy, e⟩ := w.atHi; ⟨y, (eqv y).mp hy, e⟩,
          fun x h1 h2 => let ⟨y, hy, e⟩ := w.cover x h1 h2; ⟨y, (eqv y).mp hy, e⟩,
          fun a ha b hb => w.linked a ((eqv a).mpr ha) b ((eqv b).mpr hb)⟩

/-- The checker the driver runs on the implementation's output is sound for the statement. -/
theorem checkPiles_sound {fs : Feats} {ps : List Pile} (h : checkPiles fs ps = true) :
    IsComponents fs ps := by
  simp only [checkPiles, featsOK, onceOK, Bool.and_eq_true, List.all_eq_true, decide_eq_true_eq] at h
  obtain ⟨⟨⟨⟨hnd, hwf⟩, honce⟩, hpile⟩, hsep⟩ := h
  have nd : (fs.map (·.1)).Nodup := (nodupIds_iff _).mp hnd
  have uniq : Uniq fs := uniq_of_nodup nd
  have wf : WF fs := hwf
  have once : (ps.flatMap (·.imgs)).Perm (fs.map (·.1)) := List.isPerm_iff.mp honce
  have sep := (sepAll_iff ps).mp hsep
  have disj : ps.Pairwise fun p q => p.loc = q.loc → p.e < q.s ∨ q.e < p.s :=
    sep.imp (fun h => sepPile_spec h)
  have inside : ∀ p ∈ ps, ∀ i ∈ p.imgs, ∀ k, (i, k) ∈ fs → k.loc = p.loc ∧ p.s ≤ k.s ∧ k.e ≤ p.e := by
    intro p hp i hi k hk
    obtain ⟨ms, m1, m2, w⟩ := checkPile_sound wf (hpile p hp)
    obtain ⟨k', hk'⟩ := (m1 i).mp hi
    have := uniq i k k' hk (m2 _ hk').1
    subst this
    exact ⟨(m2 _ hk').2, w.inside _ hk'⟩
  refine ⟨once, disj, inside, ?_, ?_, ?_⟩
  · intro p hp x h1 h2
    obtain ⟨ms, m1, m2, w⟩ := checkPile_sound wf (hpile p hp)
    obtain ⟨y, hy, e⟩ := w.cover x h1 h2
    exact ⟨y.1, y.2, (m1 y.1).mpr ⟨y.2, hy⟩, (m2 y hy).1, e⟩
  · intro p hp
    obtain ⟨ms, m1, m2, w⟩ := checkPile_sound wf (hpile p hp)
    obtain ⟨y, hy, e⟩ := w.atLo
    obtain ⟨z, hz, e'⟩ := w.atHi
    exact ⟨⟨y.1, y.2, (m1 y.1).mpr ⟨y.2, hy⟩, (m2 y hy).1, e⟩,
           ⟨z.1, z.2, (m1 z.1).mpr ⟨z.2, hz⟩, (m2 z hz).1, e'⟩⟩
  · refine share_iff_of ?_ inside ?_ ?_
    · intro i k hik
      have : i ∈ fs.map (·.1) := List.mem_map.mpr ⟨(i, k), hik, rfl⟩
      obtain ⟨p, hp, hi⟩ := List.mem_flatMap.mp (once.mem_iff.mpr this)
      exact ⟨p, hp, hi⟩
    · intro p hp q hq
      rcases pairwise_trichotomy disj hp hq with e | e | e
      · exact Or.inl e
      · by_cases c : p.loc = q.loc
        · exact Or.inr (Or.inr (e c))
        · exact Or.inr (Or.inl c)
      · by_cases c : p.loc = q.loc
        · rcases e c.symm with e | e
          · exact Or.inr (Or.inr (Or.inr e))
          · exact Or.inr (Or.inr (Or.inl e))
        · exact Or.inr (Or.inl c)
    · intro p hp i hi j hj
      obtain ⟨ms, m1, m2, w⟩ := checkPile_sound wf (hpile p hp)
      obtain ⟨ki, hki⟩ := (m1 i).mp hi
      obtain ⟨kj, hkj⟩ := (m1 j).mp hj
      exact w.linked _ hki _ hkj

end Biogo.Proofs.Piler
