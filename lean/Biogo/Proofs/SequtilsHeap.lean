/-
Storage lemmas for the heap model of `Biogo/Model/Sequtils.lean` (core only):
what `mk`, `slice`, `append`, `copy`, `revInPlace` do to `read`, which arrays they leave
alone, and well-formedness of slice headers.
-/
import Biogo.Model.Sequtils

set_option linter.unusedSectionVars false

namespace Biogo.Sequtils

variable {α : Type} [Inhabited α]

/-- a slice header fits its backing array -/
def WF (h : Heap α) (s : Sl) : Prop :=
  s.arr < h.length ∧ s.off + s.cap ≤ (h.arr s.arr).length ∧ s.len ≤ s.cap

/-! ### arrays -/

theorem arr_append_left (h x : Heap α) (i : Nat) (hi : i < h.length) : (h ++ x).arr i = h.arr i := by
  simp [Heap.arr, List.getD_eq_getElem?_getD, List.getElem?_append_left hi]

theorem arr_append_new (h : Heap α) (a : List α) : (h ++ [a]).arr h.length = a := by
  simp [Heap.arr, List.getD_eq_getElem?_getD]

theorem arr_write_ne (h : Heap α) (a p : Nat) (vs : List α) (i : Nat) (hne : i ≠ a) :
    (h.write a p vs).arr i = h.arr i := by
  simp [Heap.arr, Heap.write, List.getD_eq_getElem?_getD, List.getElem?_set_ne (Ne.symm hne)]

theorem arr_write_eq (h : Heap α) (a p : Nat) (vs : List α) (ha : a < h.length) :
    (h.write a p vs).arr a = writeAt (h.arr a) p vs := by
  simp [Heap.arr, Heap.write, List.getD_eq_getElem?_getD, List.getElem?_set_self ha]

theorem length_write (h : Heap α) (a p : Nat) (vs : List α) : (h.write a p vs).length = h.length := by
  simp [Heap.write]

theorem length_writeAt (xs : List α) (p : Nat) (vs : List α) (hp : p + vs.length ≤ xs.length) :
    (writeAt xs p vs).length = xs.length := by
  simp [writeAt, List.length_append, List.length_take, List.length_drop]
  omega

/-- reading the window `[off, off+n)` of an array after writing `vs` at `off + k` -/
theorem read_writeAt (xs : List α) (off k : Nat) (vs : List α) (hp : off + k + vs.length ≤ xs.length) :
    ((writeAt xs (off + k) vs).drop off).take (k + vs.length) = ((xs.drop off).take k) ++ vs := by
  unfold writeAt
  have h1 : (xs.take (off + k)).length = off + k := by simp [List.length_take]; omega
  rw [List.append_assoc, List.drop_append, h1]
  have : off - (off + k) = 0 := by omega
  rw [this, List.drop_zero, List.take_append]
  have h2 : (List.drop off (List.take (off + k) xs)).length = k := by simp [List.length_drop, h1]
  rw [h2]
  have : k + vs.length - k = vs.length := by omega
  rw [this, List.take_append]
  simp only [Nat.sub_self, List.take_zero, List.append_nil]
  rw [List.take_of_length_le (by omega), List.take_of_length_le (Nat.le_refl _), List.drop_take]
  simp

/-! ### read -/

theorem read_length (h : Heap α) (s : Sl) (wf : WF h s) : (read h s).length = s.len := by
  obtain ⟨_, h2, h3⟩ := wf
  simp [read, List.length_take, List.length_drop]
  omega

theorem read_congr (h h' : Heap α) (s : Sl) (e : h'.arr s.arr = h.arr s.arr) : read h' s = read h s := by
  simp [read, e]

theorem WF_congr (h h' : Heap α) (s : Sl) (hl : h.length ≤ h'.length) (e : h'.arr s.arr = h.arr s.arr)
    (wf : WF h s) : WF h' s := by
  obtain ⟨h1, h2, h3⟩ := wf
  exact ⟨by omega, by rw [e]; exact h2, h3⟩

/-! ### mk -/

theorem mk_ok (h : Heap α) (l c : Int) (h1 : Heap α) (t : Sl) (e : mk h l c = .ok (h1, t)) :
    0 ≤ l ∧ l ≤ c ∧ h1 = h ++ [List.replicate c.toNat default] ∧
    t = { arr := h.length, off := 0, len := l.toNat, cap := c.toNat } := by
  unfold mk at e
  split at e
  · cases e
  · rename_i hn
    simp only [Except.ok.injEq, Prod.mk.injEq] at e
    exact ⟨by omega, by omega, e.1.symm, e.2.symm⟩

theorem mk_ne_panic (h : Heap α) (l c : Int) (hl : 0 ≤ l) (hc : l ≤ c) :
    ∃ h1 t, mk h l c = .ok (h1, t) := by
  unfold mk
  rw [if_neg (by omega)]
  exact ⟨_, _, rfl⟩

/-- everything `mk` establishes, in the shape the loops use -/
theorem mk_spec (h : Heap α) (l c : Int) (h1 : Heap α) (t : Sl) (e : mk h l c = .ok (h1, t)) :
    0 ≤ l ∧ l ≤ c ∧ h1.length = h.length + 1 ∧ t.arr = h.length ∧ t.off = 0 ∧ t.len = l.toNat ∧
    t.cap = c.toNat ∧ WF h1 t ∧ (∀ i, i < h.length → h1.arr i = h.arr i) ∧
    read h1 t = List.replicate l.toNat default := by
  obtain ⟨a, b, e1, e2⟩ := mk_ok h l c h1 t e
  subst e1 e2
  refine ⟨a, b, by simp, rfl, rfl, rfl, rfl, ?_, fun i hi => arr_append_left _ _ i hi, ?_⟩
  · refine ⟨by simp, ?_, by simp; omega⟩
    simp [arr_append_new]
  · simp [read, arr_append_new, List.take_replicate]
    omega

/-! ### slice -/

theorem slice_ok (s : Sl) (a b : Int) (s' : Sl) (e : slice s a b = .ok s') :
    0 ≤ a ∧ a ≤ b ∧ b ≤ s.cap ∧
    s' = { arr := s.arr, off := s.off + a.toNat, len := (b - a).toNat, cap := s.cap - a.toNat } := by
  unfold slice at e
  split at e
  · rename_i hc
    simp only [Except.ok.injEq] at e
    exact ⟨hc.1, hc.2.1, hc.2.2, e.symm⟩
  · cases e

theorem slice_ne_panic (s : Sl) (a b : Int) (h0 : 0 ≤ a) (h1 : a ≤ b) (h2 : b ≤ s.cap) :
    ∃ s', slice s a b = .ok s' := by
  unfold slice
  rw [if_pos ⟨h0, h1, h2⟩]
  exact ⟨_, rfl⟩

/-- a slice taken inside the length shows the corresponding window of the letters -/
theorem read_slice (h : Heap α) (s : Sl) (a b : Int) (s' : Sl) (e : slice s a b = .ok s')
    (hb : b ≤ s.len) : read h s' = ((read h s).drop a.toNat).take (b - a).toNat := by
  obtain ⟨h0, h1, _, rfl⟩ := slice_ok s a b s' e
  simp only [read]
  rw [List.drop_take, List.drop_drop, List.take_take]
  congr 1
  omega

theorem slice_arr (s : Sl) (a b : Int) (s' : Sl) (e : slice s a b = .ok s') : s'.arr = s.arr := by
  obtain ⟨_, _, _, rfl⟩ := slice_ok s a b s' e
  rfl

/-! ### append -/

theorem append_read (h : Heap α) (t s : Sl) (wf : WF h t) :
    read (append h t s).1 (append h t s).2 = read h t ++ read h s := by
  obtain ⟨w1, w2, w3⟩ := wf
  unfold append
  simp only
  split
  · rename_i hfit
    simp only [read]
    rw [arr_write_eq _ _ _ _ w1, read_writeAt _ _ _ _ (by simp only [read] at hfit ⊢; omega)]
  · simp only [read, arr_append_new, List.drop_zero]
    rw [List.take_of_length_le]
    have := read_length h t ⟨w1, w2, w3⟩
    simp only [read] at this
    simp [List.length_append, this]

theorem append_other (h : Heap α) (t s : Sl) (i : Nat) (hi : i < h.length) (hne : i ≠ t.arr) :
    (append h t s).1.arr i = h.arr i := by
  unfold append
  simp only
  split
  · exact arr_write_ne _ _ _ _ _ hne
  · exact arr_append_left _ _ _ hi

theorem append_length (h : Heap α) (t s : Sl) : h.length ≤ (append h t s).1.length := by
  unfold append
  simp only
  split
  · simp [length_write]
  · simp

theorem append_arr (h : Heap α) (t s : Sl) :
    (append h t s).2.arr = t.arr ∨ (append h t s).2.arr = h.length := by
  unfold append
  simp only
  split
  · exact Or.inl rfl
  · exact Or.inr rfl

theorem append_wf (h : Heap α) (t s : Sl) (wf : WF h t) : WF (append h t s).1 (append h t s).2 := by
  obtain ⟨w1, w2, w3⟩ := wf
  unfold append
  simp only
  split
  · rename_i hfit
    refine ⟨by simp [length_write]; exact w1, ?_, hfit⟩
    rw [arr_write_eq _ _ _ _ w1, length_writeAt _ _ _ (by simp only [read] at hfit ⊢; omega)]
    exact w2
  · refine ⟨by simp, ?_, Nat.le_refl _⟩
    have := read_length h t ⟨w1, w2, w3⟩
    simp [arr_append_new, List.length_append, this]

theorem append_len (h : Heap α) (t s : Sl) : (append h t s).2.len = t.len + (read h s).length := by
  unfold append
  simp only
  split <;> rfl

/-! ### copy -/

theorem copy_read (h : Heap α) (t s : Sl) (wf : WF h t) (hl : (read h s).length = t.len) :
    read (copy h t s) t = read h s := by
  obtain ⟨w1, w2, w3⟩ := wf
  unfold copy
  simp only [read]
  rw [arr_write_eq _ _ _ _ w1]
  have hl' : (List.take t.len (List.take s.len (List.drop s.off (h.arr s.arr)))).length = t.len := by
    simp only [read] at hl
    rw [List.length_take, hl]; omega
  have := read_writeAt (h.arr t.arr) t.off 0
      (List.take t.len (List.take s.len (List.drop s.off (h.arr s.arr)))) (by omega)
  simp only [Nat.add_zero, Nat.zero_add, List.take_zero, List.nil_append, hl'] at this
  rw [this, List.take_of_length_le]
  simp only [read] at hl
  omega

theorem copy_other (h : Heap α) (t s : Sl) (i : Nat) (hne : i ≠ t.arr) : (copy h t s).arr i = h.arr i :=
  arr_write_ne _ _ _ _ _ hne

theorem copy_length (h : Heap α) (t s : Sl) : (copy h t s).length = h.length := length_write _ _ _ _

theorem copy_wf (h : Heap α) (t s : Sl) (wf : WF h t) (hl : (read h s).length = t.len) : WF (copy h t s) t := by
  obtain ⟨w1, w2, w3⟩ := wf
  refine ⟨by rw [copy_length]; exact w1, ?_, w3⟩
  unfold copy
  rw [arr_write_eq _ _ _ _ w1, length_writeAt]
  · exact w2
  · rw [List.length_take, hl]; omega

/-! ### revInPlace -/

theorem revInPlace_read (rc : α → α) (h : Heap α) (t : Sl) (wf : WF h t) :
    read (revInPlace rc h t) t = revComp rc (read h t) := by
  obtain ⟨w1, w2, w3⟩ := wf
  have hl : (revComp rc (read h t)).length = t.len := by
    simp [revComp, read_length h t ⟨w1, w2, w3⟩]
  unfold revInPlace
  simp only [read]
  rw [arr_write_eq _ _ _ _ w1]
  have := read_writeAt (h.arr t.arr) t.off 0 (revComp rc (read h t)) (by omega)
  simp only [Nat.add_zero, Nat.zero_add, List.take_zero, List.nil_append, hl] at this
  simp only [read] at this
  rw [this]

theorem revInPlace_other (rc : α → α) (h : Heap α) (t : Sl) (i : Nat) (hne : i ≠ t.arr) :
    (revInPlace rc h t).arr i = h.arr i :=
  arr_write_ne _ _ _ _ _ hne

theorem revInPlace_length (rc : α → α) (h : Heap α) (t : Sl) : (revInPlace rc h t).length = h.length :=
  length_write _ _ _ _

theorem revInPlace_wf (rc : α → α) (h : Heap α) (t : Sl) (wf : WF h t) : WF (revInPlace rc h t) t := by
  obtain ⟨w1, w2, w3⟩ := wf
  refine ⟨by rw [revInPlace_length]; exact w1, ?_, w3⟩
  unfold revInPlace
  rw [arr_write_eq _ _ _ _ w1, length_writeAt]
  · exact w2
  · have := read_length h t ⟨w1, w2, w3⟩
    simp [revComp, this]; omega

end Biogo.Sequtils
