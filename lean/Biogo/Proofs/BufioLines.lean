/-
Lines through the byte-level `bufio.Reader` model: what `ReadSlice`, `ReadLine`, the
`ReadLine`/`append`/`isPrefix` loop and `ReadBytes` make of one physical line.  Core only.
-/
import Biogo.Proofs.BufioSlice

namespace Biogo.Go.Bufio
open Biogo.Spec.Bufio (sliceOf lineOf)

/-- a line as `ReadLine` returns it: one CR before the LF is dropped -/
def chompCR (l : Bytes) : Bytes := if l.getLast? = some 13 then l.dropLast else l

theorem getLast?_append_ne (x : Bytes) {y : Bytes} (hy : y ≠ []) : (x ++ y).getLast? = y.getLast? := by
  rw [List.getLast?_append]
  cases h : y.getLast? with
  | none => exact absurd (List.getLast?_eq_none_iff.mp h) hy
  | some a => rfl

theorem chompCR_append (x y : Bytes) (hy : y ≠ []) : chompCR (x ++ y) = x ++ chompCR y := by
  simp only [chompCR, getLast?_append_ne x hy]
  split
  · rw [List.dropLast_append_of_ne_nil hy]
  · rfl

theorem chompCR_of_ne {l : Bytes} (h : l.getLast? ≠ some 13) : chompCR l = l := by
  simp [chompCR, h]

/-! ### `ReadSlice('\n')` on a stream -/

theorem sliceOf_short {size : Nat} {fin : Err} {e : Bool} {l : Bytes} (post : Bytes) (hl : (10 : UInt8) ∉ l)
    (hs : l.length < size) : sliceOf size 10 fin e (l ++ 10 :: post) = (l ++ [10], none, post) := by
  have h1 : indexByte ((l ++ 10 :: post).take size) 10 = some l.length := by
    rw [List.take_append]
    have : size - l.length = (size - l.length - 1) + 1 := by omega
    rw [List.take_of_length_le (by omega), this, List.take_succ_cons]
    exact indexByte_first hl _
  rw [sliceOf_found h1]
  have e1 : (l ++ 10 :: post).take (l.length + 1) = l ++ [10] := by
    rw [List.take_append, List.take_of_length_le (by omega)]
    simp
  have e2 : (l ++ 10 :: post).drop (l.length + 1) = post := by
    rw [List.drop_append]
    simp
  rw [e1, e2]

theorem sliceOf_full {size : Nat} {fin : Err} {e : Bool} {c : Bytes} (tail : Bytes) (hc : (10 : UInt8) ∉ c)
    (hs : c.length = size) (ht : tail ≠ [] ∨ e = false) :
    sliceOf size 10 fin e (c ++ tail) = (c, some .bufferFull, tail) := by
  have h1 : indexByte ((c ++ tail).take size) 10 = none := by
    rw [← hs, List.take_left]; exact indexByte_none_iff.mpr hc
  rw [sliceOf_none h1]
  have hcond : ¬ ((c ++ tail).length < size ∨ ((c ++ tail).length = size ∧ e = true)) := by
    simp only [List.length_append]
    intro h
    rcases h with h | ⟨h, he⟩
    · omega
    · rcases ht with ht | ht
      · have : tail.length ≠ 0 := fun h0 => ht (List.eq_nil_of_length_eq_zero h0)
        omega
      · rw [ht] at he; exact absurd he (by simp)
  rw [if_neg hcond, ← hs, List.take_left, List.drop_left]

theorem sliceOf_rest {size : Nat} {fin : Err} {e : Bool} {l : Bytes} (hl : (10 : UInt8) ∉ l)
    (hs : l.length < size ∨ (l.length = size ∧ e = true)) : sliceOf size 10 fin e l = (l, some fin, []) := by
  have h1 : indexByte (l.take size) 10 = none := by
    rw [indexByte_none_iff]; intro h; exact hl (List.mem_of_mem_take h)
  rw [sliceOf_none h1, if_pos hs]

/-! ### `ReadLine()` on a stream -/

theorem lineOf_short {size : Nat} {fin : Err} {e : Bool} {l : Bytes} (post : Bytes) (hl : (10 : UInt8) ∉ l)
    (hs : l.length < size) : lineOf size fin e (l ++ 10 :: post) = (⟨chompCR l, false, none⟩, post) := by
  simp only [lineOf, sliceOf_short post hl hs]
  have h0 : ¬ (l ++ [10]).length = 0 := by simp
  have h1 : (l ++ [10]).getLast? = some 10 := by simp
  simp only [reduceCtorEq, ↓reduceIte, h0, h1]
  congr 2
  simp only [List.length_append, List.length_cons, List.length_nil, chompCR]
  cases hq : l.getLast? with
  | none =>
    have : l = [] := List.getLast?_eq_none_iff.mp hq
    subst this
    simp
  | some x =>
    have hne : l ≠ [] := by intro h; rw [h] at hq; simp at hq
    have hlen : 0 < l.length := List.length_pos_iff.mpr hne
    have hidx : (l ++ [10])[l.length + (0 + 1) - 2]? = some x := by
      have : l.length + (0 + 1) - 2 = l.length - 1 := by omega
      rw [this, List.getElem?_append_left (by omega), ← List.getLast?_eq_getElem?]
      exact hq
    simp only [hidx, Option.some.injEq]
    by_cases hx : x = 13
    · subst hx
      have : l.length + (0 + 1) > 1 := by omega
      simp only [this, and_self, ↓reduceIte]
      rw [List.dropLast_eq_take]
      have : l.length + (0 + 1) - 2 = l.length - 1 := by omega
      rw [this, List.take_append_of_le_length (by omega)]
    · simp only [hx, and_false, ↓reduceIte]
      have : l.length + (0 + 1) - 1 = l.length := by omega
      rw [this, List.take_left]

/-- a full buffer that ends in CR: the CR is put back -/
theorem lineOf_full_cr {size : Nat} {fin : Err} {e : Bool} {c' : Bytes} (tail : Bytes) (hc : (10 : UInt8) ∉ c' ++ [13])
    (hs : (c' ++ [13]).length = size) (ht : tail ≠ [] ∨ e = false) :
    lineOf size fin e ((c' ++ [13]) ++ tail) = (⟨c', true, none⟩, 13 :: tail) := by
  simp only [lineOf, sliceOf_full tail hc hs ht, ↓reduceIte, List.getLast?_concat, List.dropLast_concat]

theorem lineOf_full {size : Nat} {fin : Err} {e : Bool} {c : Bytes} (tail : Bytes) (hc : (10 : UInt8) ∉ c)
    (hs : c.length = size) (ht : tail ≠ [] ∨ e = false) (hcr : c.getLast? ≠ some 13) :
    lineOf size fin e (c ++ tail) = (⟨c, true, none⟩, tail) := by
  simp only [lineOf, sliceOf_full tail hc hs ht, ↓reduceIte, hcr]

theorem lineOf_end {size : Nat} {fin : Err} {e : Bool} (hf : fin ≠ .bufferFull) (hs : 0 < size) :
    lineOf size fin e [] = (⟨[], false, some fin⟩, []) := by
  have h : sliceOf size 10 fin e [] = ([], some fin, []) := sliceOf_rest (by simp) (Or.inl (by simpa using hs))
  have hf' : ¬ (some fin = some Err.bufferFull) := by simpa using hf
  simp only [lineOf, h, hf', ↓reduceIte, List.length_nil]

theorem lineOf_rest {size : Nat} {fin : Err} {e : Bool} {l : Bytes} (hf : fin ≠ .bufferFull) (hl : (10 : UInt8) ∉ l)
    (hne : l ≠ []) (hs : l.length < size ∨ (l.length = size ∧ e = true)) :
    lineOf size fin e l = (⟨l, false, none⟩, []) := by
  have hf' : ¬ (some fin = some Err.bufferFull) := by simpa using hf
  have h0 : ¬ l.length = 0 := fun h => hne (List.eq_nil_of_length_eq_zero h)
  have h1 : l.getLast? ≠ some 10 := by
    intro h; exact hl (List.mem_of_getLast? h)
  simp only [lineOf, sliceOf_rest hl hs, hf', ↓reduceIte, h0, h1]

/-! ### the `ReadLine` / `append` / `isPrefix` loop -/

theorem chunk_cases (c : Bytes) : (∃ c', c = c' ++ [13]) ∨ c.getLast? ≠ some 13 := by
  by_cases h : c.getLast? = some 13
  · left; exact List.getLast?_eq_some_iff.mp h
  · right; exact h

theorem sameCfg_lineOf {b b' : Reader} (h : SameCfg b b') (st : Bytes) :
    lineOf b'.size b'.src.fin b'.src.withData st = lineOf b.size b.src.fin b.src.withData st := by
  rw [h.1, h.2.2.1, h.2.2.2]

/-- one step of `collectLine`, with `ReadLine` replaced by its value on the stream -/
theorem collectLine_step (fuel : Nat) (b : Reader) (acc : Bytes) (h : Inv b) :
    ∃ b₁, Inv b₁ ∧ SameCfg b b₁ ∧ b₁.stream = (lineOf b.size b.src.fin b.src.withData b.stream).2 ∧
      collectLine (fuel + 1) b acc =
        match (lineOf b.size b.src.fin b.src.withData b.stream).1.err with
        | some e => (acc, some e, b₁)
        | none =>
          if (lineOf b.size b.src.fin b.src.withData b.stream).1.isPrefix = true then
            collectLine fuel b₁ (acc ++ (lineOf b.size b.src.fin b.src.withData b.stream).1.line)
          else (acc ++ (lineOf b.size b.src.fin b.src.withData b.stream).1.line, none, b₁) := by
  have hres := readLine_spec b h
  generalize hrl : readLine b = res at hres
  obtain ⟨ln, b₁⟩ := res
  refine ⟨b₁, hres.inv, hres.cfg, hres.stream_eq, ?_⟩
  rw [collectLine, hrl]
  have := hres.line_eq
  simp only at this
  subst this
  rfl

/-- **A terminated physical line of any length** is what the loop collects: the concatenation of
    the `isPrefix` fragments and the final fragment is the line without its `\n` and without one
    `\r` directly before it; the stream continues after the terminator. -/
theorem collectLine_terminated : ∀ (n : Nat) (l : Bytes), l.length = n → (10 : UInt8) ∉ l →
    ∀ (b : Reader) (acc post : Bytes) (fuel : Nat), Inv b → b.stream = l ++ 10 :: post → l.length < fuel →
    ∃ b', collectLine fuel b acc = (acc ++ chompCR l, none, b') ∧ b'.stream = post ∧ Inv b' ∧ SameCfg b b' := by
  intro n
  induction n using Nat.strongRecOn with
  | _ n ih =>
    intro l hn hl b acc post fuel hinv hst hfuel
    cases fuel with
    | zero => omega
    | succ fuel =>
      obtain ⟨b₁, hinv₁, hcfg₁, hst₁, hstep⟩ := collectLine_step fuel b acc hinv
      rw [hstep]
      rw [hst] at hst₁ ⊢
      have hsz := hinv.size_ge
      by_cases hshort : l.length < b.size
      · -- the whole line and its terminator fit
        rw [lineOf_short post hl hshort] at hst₁ ⊢
        exact ⟨b₁, rfl, hst₁, hinv₁, hcfg₁⟩
      · -- a full buffer first
        have hsplit : l = l.take b.size ++ l.drop b.size := (List.take_append_drop _ _).symm
        have hclen : (l.take b.size).length = b.size := by simp [List.length_take]; omega
        have hc10 : (10 : UInt8) ∉ l.take b.size := fun h => hl (List.mem_of_mem_take h)
        have hd10 : (10 : UInt8) ∉ l.drop b.size := fun h => hl (List.mem_of_mem_drop h)
        have hstream : l ++ 10 :: post = l.take b.size ++ (l.drop b.size ++ 10 :: post) := by
          rw [← List.append_assoc, ← hsplit]
        rcases chunk_cases (l.take b.size) with ⟨c', hc'⟩ | hcr
        · -- it ends in CR: the CR is put back
          rw [hstream, hc'] at hst₁ ⊢
          rw [hc'] at hclen hc10
          rw [lineOf_full_cr _ hc10 hclen (Or.inl (by simp))] at hst₁ ⊢
          simp only [↓reduceIte] at hst₁ ⊢
          have hlen' : (13 :: l.drop b.size).length < n := by
            simp only [List.length_cons, List.length_drop]; omega
          have h13 : (10 : UInt8) ∉ 13 :: l.drop b.size := by
            simp only [List.mem_cons, not_or]; exact ⟨by decide, hd10⟩
          obtain ⟨b', h1, h2, h3, h4⟩ := ih _ hlen' (13 :: l.drop b.size) rfl h13 b₁ (acc ++ c') post fuel hinv₁
            (by rw [hst₁]; rfl) (by simp only [List.length_cons, List.length_drop]; omega)
          refine ⟨b', ?_, h2, h3, hcfg₁.trans h4⟩
          rw [h1]
          have : l = c' ++ (13 :: l.drop b.size) := by
            conv => lhs; rw [hsplit, hc']
            simp
          conv => rhs; rw [this, chompCR_append _ _ (by simp)]
          simp
        · rw [hstream] at hst₁ ⊢
          rw [lineOf_full _ hc10 hclen (Or.inl (by simp)) hcr] at hst₁ ⊢
          simp only [↓reduceIte] at hst₁ ⊢
          have hlen' : (l.drop b.size).length < n := by
            simp only [List.length_drop]; omega
          obtain ⟨b', h1, h2, h3, h4⟩ := ih _ hlen' (l.drop b.size) rfl hd10 b₁ (acc ++ l.take b.size) post fuel hinv₁
            hst₁ (by simp only [List.length_drop]; omega)
          refine ⟨b', ?_, h2, h3, hcfg₁.trans h4⟩
          rw [h1]
          by_cases hnil : l.drop b.size = []
          · have : l = l.take b.size := by conv => lhs; rw [hsplit, hnil]; simp
            rw [hnil]
            conv => rhs; rw [this, chompCR_of_ne hcr]
            simp [chompCR]
          · conv => rhs; rw [hsplit, chompCR_append _ _ hnil]
            simp

open Biogo.Spec.Bufio (endsPendingAux) in
/-- **An unterminated last line of any length**: the fragments the loop collects are the line,
    byte for byte (a final CR is kept); the loop ends with a complete line, or — exactly when
    `endsPendingAux` says so and the final error comes after the last bytes, or when nothing is
    left — with the final error while the fragments are still pending. -/
theorem collectLine_last : ∀ (n : Nat) (l : Bytes), l.length = n → (10 : UInt8) ∉ l →
    ∀ (b : Reader) (acc : Bytes) (fuel f' : Nat), Inv b → b.stream = l → l.length < fuel → l.length < f' →
    ∃ b', collectLine fuel b acc =
        (acc ++ l,
         (if l = [] ∨ (b.src.withData = false ∧ endsPendingAux b.size f' l = true) then some b.src.fin else none),
         b') ∧ b'.stream = [] ∧ Inv b' ∧ SameCfg b b' := by
  intro n
  induction n using Nat.strongRecOn with
  | _ n ih =>
    intro l hn hl b acc fuel f' hinv hst hfuel hf'
    cases fuel with
    | zero => omega
    | succ fuel =>
    cases f' with
    | zero => omega
    | succ f' =>
      obtain ⟨b₁, hinv₁, hcfg₁, hst₁, hstep⟩ := collectLine_step fuel b acc hinv
      rw [hstep]
      rw [hst] at hst₁ ⊢
      have hsz := hinv.size_ge
      have hfin := hinv.fin_ne
      by_cases hnil : l = []
      · subst hnil
        rw [lineOf_end hfin (by omega)] at hst₁ ⊢
        exact ⟨b₁, by simp, hst₁, hinv₁, hcfg₁⟩
      by_cases hshort : l.length < b.size ∨ (l.length = b.size ∧ b.src.withData = true)
      · rw [lineOf_rest hfin hl hnil hshort] at hst₁ ⊢
        refine ⟨b₁, ?_, hst₁, hinv₁, hcfg₁⟩
        have h0 : ¬ l.length = 0 := fun h => hnil (List.eq_nil_of_length_eq_zero h)
        have hcond : ¬ (l = [] ∨ (b.src.withData = false ∧ endsPendingAux b.size (f' + 1) l = true)) := by
          intro h
          rcases h with h | ⟨hw, hp⟩
          · exact hnil h
          · rcases hshort with hs | ⟨_, hw'⟩
            · simp [endsPendingAux, h0, hs] at hp
            · rw [hw] at hw'; exact absurd hw' (by simp)
        simp only [hcond, ↓reduceIte, Bool.false_eq_true]
      · -- a full buffer first
        have hge : b.size ≤ l.length := by
          rcases Nat.lt_or_ge l.length b.size with h | h
          · exact absurd (Or.inl h) hshort
          · exact h
        have hwd : l.length = b.size → b.src.withData = false := by
          intro h
          cases hw : b.src.withData with
          | false => rfl
          | true => exact absurd (Or.inr ⟨h, hw⟩) hshort
        have h0 : ¬ l.length = 0 := by omega
        have hnlt : ¬ l.length < b.size := by omega
        have hsplit : l = l.take b.size ++ l.drop b.size := (List.take_append_drop _ _).symm
        have hclen : (l.take b.size).length = b.size := by simp [List.length_take]; omega
        have hc10 : (10 : UInt8) ∉ l.take b.size := fun h => hl (List.mem_of_mem_take h)
        have hd10 : (10 : UInt8) ∉ l.drop b.size := fun h => hl (List.mem_of_mem_drop h)
        have htail : l.drop b.size ≠ [] ∨ b.src.withData = false := by
          by_cases hd : l.drop b.size = []
          · right; apply hwd
            have := List.drop_eq_nil_iff.mp hd; omega
          · left; exact hd
        rcases chunk_cases (l.take b.size) with ⟨c', hc'⟩ | hcr
        · -- it ends in CR: the CR is put back
          have hpend : endsPendingAux b.size (f' + 1) l = endsPendingAux b.size f' (13 :: l.drop b.size) := by
            have hg : (l.take b.size).getLast? = some 13 := by rw [hc']; simp
            have hd : l.drop (b.size - 1) = 13 :: l.drop b.size := by
              have hlen : c'.length = b.size - 1 := by
                rw [hc'] at hclen; simp at hclen; omega
              conv => lhs; rw [hsplit, hc']
              rw [List.append_assoc, ← hlen, List.drop_left]
              rfl
            simp only [endsPendingAux, beq_iff_eq, h0, ↓reduceIte, hnlt, hg, hd]
          rw [hc'] at hclen hc10
          have hline : lineOf b.size b.src.fin b.src.withData l = (⟨c', true, none⟩, 13 :: l.drop b.size) := by
            conv => lhs; rw [hsplit, hc']
            exact lineOf_full_cr _ hc10 hclen htail
          rw [hline] at hst₁ ⊢
          simp only [↓reduceIte] at hst₁ ⊢
          have hlen' : (13 :: l.drop b.size).length < n := by
            simp only [List.length_cons, List.length_drop]; omega
          have h13 : (10 : UInt8) ∉ 13 :: l.drop b.size := by
            simp only [List.mem_cons, not_or]; exact ⟨by decide, hd10⟩
          obtain ⟨b', h1, h2, h3, h4⟩ := ih _ hlen' (13 :: l.drop b.size) rfl h13 b₁ (acc ++ c') fuel f' hinv₁
            hst₁ (by simp only [List.length_cons, List.length_drop]; omega)
            (by simp only [List.length_cons, List.length_drop]; omega)
          refine ⟨b', ?_, h2, h3, hcfg₁.trans h4⟩
          rw [h1, hcfg₁.1, hcfg₁.2.2.1, hcfg₁.2.2.2, hpend]
          have : l = c' ++ (13 :: l.drop b.size) := by
            conv => lhs; rw [hsplit, hc']
            simp
          congr 1
          · conv => rhs; rw [this]
            simp
          · simp [hnil]
        · have hpend : endsPendingAux b.size (f' + 1) l = endsPendingAux b.size f' (l.drop b.size) := by
            simp only [endsPendingAux, beq_iff_eq, h0, ↓reduceIte, hnlt, hcr]
          have hline : lineOf b.size b.src.fin b.src.withData l = (⟨l.take b.size, true, none⟩, l.drop b.size) := by
            conv => lhs; rw [hsplit]
            exact lineOf_full _ hc10 hclen htail hcr
          rw [hline] at hst₁ ⊢
          simp only [↓reduceIte] at hst₁ ⊢
          have hlen' : (l.drop b.size).length < n := by
            simp only [List.length_drop]; omega
          obtain ⟨b', h1, h2, h3, h4⟩ := ih _ hlen' (l.drop b.size) rfl hd10 b₁ (acc ++ l.take b.size) fuel f' hinv₁
            hst₁ (by simp only [List.length_drop]; omega) (by simp only [List.length_drop]; omega)
          refine ⟨b', ?_, h2, h3, hcfg₁.trans h4⟩
          rw [h1, hcfg₁.1, hcfg₁.2.2.1, hcfg₁.2.2.2, hpend]
          congr 1
          · rw [List.append_assoc, List.take_append_drop]
          · congr 1
            by_cases hd : l.drop b.size = []
            · have hw : b.src.withData = false := by
                apply hwd; have := List.drop_eq_nil_iff.mp hd; omega
              have hf1 : f' = (f' - 1) + 1 := by omega
              rw [hd, hf1]
              simp [endsPendingAux, hnil, hw]
            · simp [hnil, hd]

/-! ### `ReadBytes('\n')` -/

/-- one step of `collectLoop`, with `ReadSlice` replaced by its value on the stream -/
theorem collectLoop_step (fuel : Nat) (b : Reader) (full : List Bytes) (h : Inv b) :
    ∃ b₁, Inv b₁ ∧ SameCfg b b₁ ∧ b₁.stream = (sliceOf b.size 10 b.src.fin b.src.withData b.stream).2.2 ∧
      collectLoop 10 (fuel + 1) b full =
        match (sliceOf b.size 10 b.src.fin b.src.withData b.stream).2.1 with
        | none => (full, (sliceOf b.size 10 b.src.fin b.src.withData b.stream).1, none, b₁)
        | some .bufferFull => collectLoop 10 fuel b₁ (full ++ [(sliceOf b.size 10 b.src.fin b.src.withData b.stream).1])
        | some e => (full, (sliceOf b.size 10 b.src.fin b.src.withData b.stream).1, some e, b₁) := by
  have hres := readSlice_spec 10 b h
  generalize hrl : readSlice 10 b = res at hres
  obtain ⟨frag, e, b₁⟩ := res
  refine ⟨b₁, hres.inv, hres.cfg, hres.stream_eq, ?_⟩
  rw [collectLoop, hrl]
  have h1 := hres.line_eq
  have h2 := hres.err_eq
  simp only at h1 h2
  subst h1 h2
  rfl

theorem collectLoop_terminated : ∀ (n : Nat) (l : Bytes), l.length = n → (10 : UInt8) ∉ l →
    ∀ (b : Reader) (full : List Bytes) (post : Bytes) (fuel : Nat), Inv b → b.stream = l ++ 10 :: post → l.length < fuel →
    ∃ b' full' frag, collectLoop 10 fuel b full = (full', frag, none, b') ∧
      full'.flatten ++ frag = full.flatten ++ l ++ [10] ∧ b'.stream = post ∧ Inv b' ∧ SameCfg b b' := by
  intro n
  induction n using Nat.strongRecOn with
  | _ n ih =>
    intro l hn hl b full post fuel hinv hst hfuel
    cases fuel with
    | zero => omega
    | succ fuel =>
      obtain ⟨b₁, hinv₁, hcfg₁, hst₁, hstep⟩ := collectLoop_step fuel b full hinv
      rw [hstep]
      rw [hst] at hst₁ ⊢
      have hsz := hinv.size_ge
      by_cases hshort : l.length < b.size
      · rw [sliceOf_short post hl hshort] at hst₁ ⊢
        exact ⟨b₁, full, l ++ [10], rfl, by simp, hst₁, hinv₁, hcfg₁⟩
      · have hsplit : l = l.take b.size ++ l.drop b.size := (List.take_append_drop _ _).symm
        have hclen : (l.take b.size).length = b.size := by simp [List.length_take]; omega
        have hc10 : (10 : UInt8) ∉ l.take b.size := fun h => hl (List.mem_of_mem_take h)
        have hd10 : (10 : UInt8) ∉ l.drop b.size := fun h => hl (List.mem_of_mem_drop h)
        have hslice : sliceOf b.size 10 b.src.fin b.src.withData (l ++ 10 :: post)
            = (l.take b.size, some .bufferFull, l.drop b.size ++ 10 :: post) := by
          conv => lhs; rw [hsplit, List.append_assoc]
          exact sliceOf_full _ hc10 hclen (Or.inl (by simp))
        rw [hslice] at hst₁ ⊢
        simp only at hst₁ ⊢
        have hlen' : (l.drop b.size).length < n := by simp only [List.length_drop]; omega
        obtain ⟨b', full', frag, h1, h2, h3, h4, h5⟩ := ih _ hlen' (l.drop b.size) rfl hd10 b₁ (full ++ [l.take b.size]) post fuel
          hinv₁ hst₁ (by simp only [List.length_drop]; omega)
        refine ⟨b', full', frag, h1, ?_, h3, h4, hcfg₁.trans h5⟩
        rw [h2]
        simp only [List.flatten_append, List.flatten_cons, List.flatten_nil, List.append_nil, List.append_assoc]
        rw [← List.append_assoc (l.take b.size), List.take_append_drop]

theorem collectLoop_last : ∀ (n : Nat) (l : Bytes), l.length = n → (10 : UInt8) ∉ l →
    ∀ (b : Reader) (full : List Bytes) (fuel : Nat), Inv b → b.stream = l → l.length < fuel →
    ∃ b' full' frag, collectLoop 10 fuel b full = (full', frag, some b.src.fin, b') ∧
      full'.flatten ++ frag = full.flatten ++ l ∧ b'.stream = [] ∧ Inv b' ∧ SameCfg b b' := by
  intro n
  induction n using Nat.strongRecOn with
  | _ n ih =>
    intro l hn hl b full fuel hinv hst hfuel
    cases fuel with
    | zero => omega
    | succ fuel =>
      obtain ⟨b₁, hinv₁, hcfg₁, hst₁, hstep⟩ := collectLoop_step fuel b full hinv
      rw [hstep]
      rw [hst] at hst₁ ⊢
      have hsz := hinv.size_ge
      have hfin := hinv.fin_ne
      by_cases hshort : l.length < b.size ∨ (l.length = b.size ∧ b.src.withData = true)
      · rw [sliceOf_rest hl hshort] at hst₁ ⊢
        refine ⟨b₁, full, l, ?_, rfl, hst₁, hinv₁, hcfg₁⟩
        simp only
      · have hge : b.size ≤ l.length := by
          rcases Nat.lt_or_ge l.length b.size with h | h
          · exact absurd (Or.inl h) hshort
          · exact h
        have hwd : l.length = b.size → b.src.withData = false := by
          intro h
          cases hw : b.src.withData with
          | false => rfl
          | true => exact absurd (Or.inr ⟨h, hw⟩) hshort
        have hsplit : l = l.take b.size ++ l.drop b.size := (List.take_append_drop _ _).symm
        have hclen : (l.take b.size).length = b.size := by simp [List.length_take]; omega
        have hc10 : (10 : UInt8) ∉ l.take b.size := fun h => hl (List.mem_of_mem_take h)
        have hd10 : (10 : UInt8) ∉ l.drop b.size := fun h => hl (List.mem_of_mem_drop h)
        have htail : l.drop b.size ≠ [] ∨ b.src.withData = false := by
          by_cases hd : l.drop b.size = []
          · right; apply hwd
            have := List.drop_eq_nil_iff.mp hd; omega
          · left; exact hd
        have hslice : sliceOf b.size 10 b.src.fin b.src.withData l
            = (l.take b.size, some .bufferFull, l.drop b.size) := by
          conv => lhs; rw [hsplit]
          exact sliceOf_full _ hc10 hclen htail
        rw [hslice] at hst₁ ⊢
        simp only at hst₁ ⊢
        have hlen' : (l.drop b.size).length < n := by simp only [List.length_drop]; omega
        obtain ⟨b', full', frag, h1, h2, h3, h4, h5⟩ := ih _ hlen' (l.drop b.size) rfl hd10 b₁ (full ++ [l.take b.size]) fuel
          hinv₁ hst₁ (by simp only [List.length_drop]; omega)
        refine ⟨b', full', frag, ?_, ?_, h3, h4, hcfg₁.trans h5⟩
        · rw [h1, hcfg₁.2.2.2]
        · rw [h2]
          simp only [List.flatten_append, List.flatten_cons, List.flatten_nil, List.append_nil, List.append_assoc]
          rw [List.take_append_drop]

/-- **`ReadBytes('\n')` returns exactly the line with its terminator**, for every line length,
    and leaves the stream after it. -/
theorem readBytes_terminated (l post : Bytes) (hl : (10 : UInt8) ∉ l) (b : Reader) (hinv : Inv b)
    (hst : b.stream = l ++ 10 :: post) :
    ∃ b', readBytes 10 b = (l ++ [10], none, b') ∧ b'.stream = post ∧ Inv b' ∧ SameCfg b b' := by
  obtain ⟨b', full', frag, h1, h2, h3, h4, h5⟩ := collectLoop_terminated _ l rfl hl b [] post (b.stream.length + 1) hinv hst
    (by rw [hst]; simp only [List.length_append, List.length_cons]; omega)
  refine ⟨b', ?_, h3, h4, h5⟩
  simp only [readBytes, h1, h2, List.flatten_nil, List.nil_append]

/-- **… or the unterminated rest with the final error** (`io.EOF`). -/
theorem readBytes_last (l : Bytes) (hl : (10 : UInt8) ∉ l) (b : Reader) (hinv : Inv b) (hst : b.stream = l) :
    ∃ b', readBytes 10 b = (l, some b.src.fin, b') ∧ b'.stream = [] ∧ Inv b' ∧ SameCfg b b' := by
  obtain ⟨b', full', frag, h1, h2, h3, h4, h5⟩ := collectLoop_last _ l rfl hl b [] (b.stream.length + 1) hinv hst
    (by rw [hst]; omega)
  refine ⟨b', ?_, h3, h4, h5⟩
  simp only [readBytes, h1, h2, List.flatten_nil, List.nil_append]

end Biogo.Go.Bufio
