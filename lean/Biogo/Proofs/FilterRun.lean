/-
Helper lemmas for C14: the tube state machine run against one ε-match.  A monitor invariant
(`MInv`) follows the slot of the match's tube through the scan: before the first shared k-mer
nothing is required; from then on either a covering hit has been pushed (`Done`) or the slot's
current run contains every shared k-mer seen so far.  Core-only.
-/
import Biogo.Model.Filter

set_option linter.unusedSimpArgs false

namespace Biogo.Proofs.FilterRun
open Biogo.Filter

/-! ### reading the tube array after an update -/

theorem getTube_set (s : St) (slot : Nat) (v : Tube) (slot' : Nat) :
    getTube { s with tubes := s.tubes.setIfInBounds slot v } slot' =
      if slot = slot' ∧ slot < s.tubes.size then v else getTube s slot' := by
  unfold getTube
  simp only [Array.getElem?_setIfInBounds]
  by_cases h : slot = slot'
  · subst h
    by_cases hlt : slot < s.tubes.size
    · simp [hlt]
    · simp [hlt]
  · simp [h]

/-- a covering hit for the match with tube `i`, first shared k-mer at `lo`, last at `hi` -/
def Done (c : Cfg) (i lo hi : Nat) (st : St) : Prop :=
  ∃ h ∈ st.hits, h.diagonal = (c.tlen : Int) - (i : Int) * c.off ∧ h.from_ ≤ (lo : Int) ∧ (hi : Int) + c.k ≤ h.to

theorem Done_mono (c : Cfg) (i lo hi : Nat) (st st' : St) (h : ∀ x ∈ st.hits, x ∈ st'.hits) :
    Done c i lo hi st → Done c i lo hi st' := by
  rintro ⟨x, hx, hd⟩; exact ⟨x, h x hx, hd⟩

theorem addHit_hits (c : Cfg) (s : St) (ti : Int) (a b : Nat) : ∀ x ∈ s.hits, x ∈ (addHit c s ti a b).hits := by
  intro x hx; simp [addHit, hx]

theorem addHit_tubes (c : Cfg) (s : St) (ti : Int) (a b : Nat) : (addHit c s ti a b).tubes = s.tubes := rfl
theorem addHit_panic (c : Cfg) (s : St) (ti : Int) (a b : Nat) : (addHit c s ti a b).panic = s.panic := rfl

theorem getTube_addHit (c : Cfg) (s : St) (ti : Int) (a b : Nat) (slot : Nat) :
    getTube (addHit c s ti a b) slot = getTube s slot := rfl

theorem addHit_done (c : Cfg) (i lo hi : Nat) (s : St) (a b : Nat) (ha : a ≤ lo) (hb : hi ≤ b) :
    Done c i lo hi (addHit c s (i : Int) a b) := by
  refine ⟨_, List.mem_cons_self, rfl, ?_, ?_⟩ <;> simp <;> omega

/-! ### the monitor invariant -/

/-- the slot of the match's tube -/
def tb (c : Cfg) (i : Nat) (st : St) : Tube := getTube st (i % c.cap)

/-- State of the scan relative to one match, while events at query position `p` are processed and
    `r` of the `m` shared k-mers of the match have been processed.  `qi` is the position of the
    tick that retires tube `i`. -/
structure MInv (c : Cfg) (i lo hi m qi : Nat) (st : St) (p r : Nat) : Prop where
  nopanic : st.panic = false
  size : st.tubes.size = c.cap
  wf : (getTube st (i % c.cap)).count > 0 →
    (getTube st (i % c.cap)).qLo ≤ (getTube st (i % c.cap)).qHi ∧ (getTube st (i % c.cap)).qHi ≤ p
  run : 1 ≤ r → Done c i lo hi st ∨
    (r ≤ (getTube st (i % c.cap)).count ∧ (getTube st (i % c.cap)).qLo ≤ lo ∧
      lo ≤ (getTube st (i % c.cap)).qHi ∧ (r = m → hi ≤ (getTube st (i % c.cap)).qHi))
  late : Done c i lo hi st ∨ p ≤ qi

/-- the three outcomes of `hitTube` on the addressed slot -/
theorem hitTube_cases (c : Cfg) (st : St) (ti q : Nat) (hsz : st.tubes.size = c.cap) (hcap : 0 < c.cap) :
    let t := getTube st (ti % c.cap)
    let st' := hitTube c st ti q
    st'.panic = st.panic ∧ st'.tubes.size = st.tubes.size ∧ (∀ x ∈ st.hits, x ∈ st'.hits) ∧
    (∀ slot, slot ≠ ti % c.cap → getTube st' slot = getTube st slot) ∧
    ((t.count = 0 ∧ getTube st' (ti % c.cap) = { qLo := q, qHi := q, count := 1 } ∧ st'.hits = st.hits) ∨
     (t.count ≠ 0 ∧ (q : Int) - t.qHi > c.maxKmerDist ∧
        getTube st' (ti % c.cap) = { qLo := q, qHi := q, count := 1 } ∧
        (((t.count : Int) ≥ c.minKmers ∧ st'.hits = (addHit c st ti t.qLo t.qHi).hits) ∨
         (¬ (t.count : Int) ≥ c.minKmers ∧ st'.hits = st.hits))) ∨
     (t.count ≠ 0 ∧ ¬ (q : Int) - t.qHi > c.maxKmerDist ∧
        getTube st' (ti % c.cap) = { t with count := t.count + 1, qHi := q } ∧ st'.hits = st.hits)) := by
  have hslot : ti % c.cap < st.tubes.size := by rw [hsz]; exact Nat.mod_lt _ hcap
  simp only []
  unfold hitTube
  simp only []
  by_cases h0 : (getTube st (ti % c.cap)).count = 0
  · rw [if_pos h0]
    refine ⟨rfl, by simp, fun x hx => hx, ?_, Or.inl ⟨h0, ?_, rfl⟩⟩
    · intro slot hne; rw [getTube_set, if_neg (fun h => hne h.1.symm)]
    · rw [getTube_set, if_pos ⟨rfl, hslot⟩]
  · rw [if_neg h0]
    by_cases hgap : (q : Int) - (getTube st (ti % c.cap)).qHi > c.maxKmerDist
    · rw [if_pos hgap]
      by_cases hthr : ((getTube st (ti % c.cap)).count : Int) ≥ c.minKmers
      · rw [if_pos hthr]
        refine ⟨rfl, by simp [addHit_tubes], fun x hx => addHit_hits c st _ _ _ x hx, ?_,
          Or.inr (Or.inl ⟨h0, hgap, ?_, Or.inl ⟨hthr, rfl⟩⟩)⟩
        · intro slot hne; rw [getTube_set, if_neg (fun h => hne h.1.symm)]; rfl
        · rw [getTube_set, if_pos ⟨rfl, by rw [addHit_tubes]; exact hslot⟩]
      · rw [if_neg hthr]
        refine ⟨rfl, by simp, fun x hx => hx, ?_, Or.inr (Or.inl ⟨h0, hgap, ?_, Or.inr ⟨hthr, rfl⟩⟩)⟩
        · intro slot hne; rw [getTube_set, if_neg (fun h => hne h.1.symm)]
        · rw [getTube_set, if_pos ⟨rfl, hslot⟩]
    · rw [if_neg hgap]
      refine ⟨rfl, by simp, fun x hx => hx, ?_, Or.inr (Or.inr ⟨h0, hgap, ?_, rfl⟩)⟩
      · intro slot hne; rw [getTube_set, if_neg (fun h => hne h.1.symm)]
      · rw [getTube_set, if_pos ⟨rfl, hslot⟩]

/-- a hit that is not (counted as) a shared k-mer of the match keeps the invariant -/
theorem hitTube_pres (c : Cfg) (i lo hi m qi : Nat) (st : St) (p r ti : Nat) (hcap : 0 < c.cap)
    (inv : MInv c i lo hi m qi st p r)
    (hthr : (m : Int) ≥ c.minKmers) (hD : (hi : Int) - lo ≤ c.maxKmerDist)
    (hrle : r ≤ m) (h1 : 1 ≤ r → lo ≤ p) (h2 : r < m → p ≤ hi) (h3 : r = m → hi ≤ p)
    (halias : r = m → ¬ Done c i lo hi st → ti % c.cap = i % c.cap → ti = i) :
    MInv c i lo hi m qi (hitTube c st ti p) p r := by
  obtain ⟨hpan, hsize, hhits, hframe, hcase⟩ := hitTube_cases c st ti p inv.size hcap
  by_cases hslot : ti % c.cap = i % c.cap
  · -- the event addresses the slot of the match
    have hdone : Done c i lo hi st → Done c i lo hi (hitTube c st ti p) := Done_mono c i lo hi _ _ hhits
    have hlate : Done c i lo hi (hitTube c st ti p) ∨ p ≤ qi := inv.late.imp hdone id
    rw [hslot] at hcase
    rcases hcase with ⟨h0, hnew, _⟩ | ⟨h0, hgap, hnew, hem⟩ | ⟨h0, hgap, hnew, _⟩
    · refine ⟨by rw [hpan]; exact inv.nopanic, by rw [hsize]; exact inv.size, ?_, ?_, hlate⟩
      · intro _; rw [hnew]; exact ⟨Nat.le_refl _, Nat.le_refl _⟩
      · intro hr
        rcases inv.run hr with hd | ⟨hc, _⟩
        · exact Or.inl (hdone hd)
        · omega
    · refine ⟨by rw [hpan]; exact inv.nopanic, by rw [hsize]; exact inv.size, ?_, ?_, hlate⟩
      · intro _; rw [hnew]; exact ⟨Nat.le_refl _, Nat.le_refl _⟩
      · intro hr
        by_cases hd : Done c i lo hi st
        · exact Or.inl (hdone hd)
        · rcases inv.run hr with hd' | ⟨hc, hqlo, hqhi, hlast⟩
          · exact absurd hd' hd
          · left
            by_cases hrm : r = m
            · -- all shared k-mers are in the run: it is emitted, under the match's own index
              have hti := halias hrm hd hslot
              have hhi := hlast hrm
              rcases hem with ⟨_, hh⟩ | ⟨hno, _⟩
              · obtain ⟨x, hx, hxd⟩ := addHit_done c i lo hi st _ _ hqlo hhi
                refine ⟨x, ?_, hxd⟩
                rw [hh, hti]; exact hx
              · omega
            · have := h2 (by omega); omega
    · refine ⟨by rw [hpan]; exact inv.nopanic, by rw [hsize]; exact inv.size, ?_, ?_, hlate⟩
      · intro _
        rw [hnew]
        have := inv.wf (by omega)
        simp only []; omega
      · intro hr
        rcases inv.run hr with hd | ⟨hc, hqlo, hqhi, hlast⟩
        · exact Or.inl (hdone hd)
        · right
          rw [hnew]
          simp only []
          exact ⟨by omega, hqlo, h1 hr, h3⟩
  · -- another slot
    have hsame : getTube (hitTube c st ti p) (i % c.cap) = getTube st (i % c.cap) := hframe _ (fun h => hslot h.symm)
    have hdone : Done c i lo hi st → Done c i lo hi (hitTube c st ti p) := Done_mono c i lo hi _ _ hhits
    refine ⟨by rw [hpan]; exact inv.nopanic, by rw [hsize]; exact inv.size, ?_, ?_, inv.late.imp hdone id⟩
    · rw [hsame]; exact inv.wf
    · intro hr; rw [hsame]; exact (inv.run hr).imp hdone id

/-- the hit of a shared k-mer of the match, in the match's own tube -/
theorem hitTube_shared (c : Cfg) (i lo hi m qi : Nat) (st : St) (p r : Nat) (hcap : 0 < c.cap)
    (inv : MInv c i lo hi m qi st p r)
    (hD : (hi : Int) - lo ≤ c.maxKmerDist)
    (hr : r < m) (h0 : r = 0 → p = lo) (hlast : r + 1 = m → p = hi) (hlo : lo ≤ p) (hhi : p ≤ hi) :
    MInv c i lo hi m qi (hitTube c st i p) p (r + 1) := by
  obtain ⟨hpan, hsize, hhits, hframe, hcase⟩ := hitTube_cases c st i p inv.size hcap
  have hdone : Done c i lo hi st → Done c i lo hi (hitTube c st i p) := Done_mono c i lo hi _ _ hhits
  have hlate : Done c i lo hi (hitTube c st i p) ∨ p ≤ qi := inv.late.imp hdone id
  rcases hcase with ⟨hc0, hnew, _⟩ | ⟨hc0, hgap, hnew, _⟩ | ⟨hc0, hgap, hnew, _⟩
  · refine ⟨by rw [hpan]; exact inv.nopanic, by rw [hsize]; exact inv.size, ?_, ?_, hlate⟩
    · intro _; rw [hnew]; exact ⟨Nat.le_refl _, Nat.le_refl _⟩
    · intro _
      by_cases hr0 : r = 0
      · right; rw [hnew]; simp only []
        exact ⟨by omega, by have := h0 hr0; omega, hlo, fun h => by have := hlast h; omega⟩
      · rcases inv.run (by omega) with hd | ⟨hc, _⟩
        · exact Or.inl (hdone hd)
        · omega
  · refine ⟨by rw [hpan]; exact inv.nopanic, by rw [hsize]; exact inv.size, ?_, ?_, hlate⟩
    · intro _; rw [hnew]; exact ⟨Nat.le_refl _, Nat.le_refl _⟩
    · intro _
      by_cases hr0 : r = 0
      · right; rw [hnew]; simp only []
        exact ⟨by omega, by have := h0 hr0; omega, hlo, fun h => by have := hlast h; omega⟩
      · rcases inv.run (by omega) with hd | ⟨hc, hqlo, hqhi, _⟩
        · exact Or.inl (hdone hd)
        · omega
  · refine ⟨by rw [hpan]; exact inv.nopanic, by rw [hsize]; exact inv.size, ?_, ?_, hlate⟩
    · intro _
      rw [hnew]
      have := inv.wf (by omega)
      simp only []; omega
    · intro _
      by_cases hr0 : r = 0
      · right; rw [hnew]; simp only []
        have hw := inv.wf (by omega)
        have := h0 hr0
        exact ⟨by omega, by omega, hlo, fun h => by have := hlast h; omega⟩
      · rcases inv.run (by omega) with hd | ⟨hc, hqlo, hqhi, _⟩
        · exact Or.inl (hdone hd)
        · right; rw [hnew]; simp only []
          exact ⟨by omega, hqlo, hlo, fun h => by have := hlast h; omega⟩

/-! ### the configuration of the repaired filter, and the arithmetic of aliases -/

/-- the filter parameters of the property, for the repaired retirement rule -/
structure WF (c : Cfg) : Prop where
  off_pos : 1 ≤ c.off
  err_le : c.maxError ≤ c.off
  cap_eq : c.cap = (c.tlen + (c.off + c.maxError) - 1) / c.off + 1
  rule : c.rule = { retireSubMaxError := true, flushFromLastTick := true, tickByPosition := true }

theorem WF.cap_pos {c : Cfg} (w : WF c) : 0 < c.cap := by rw [w.cap_eq]; exact Nat.succ_pos _

/-- `(cap-1)·off ≥ Tlen + e` and `cap·off ≥ Tlen + off + e` -/
theorem WF.cap_mul {c : Cfg} (w : WF c) :
    c.tlen + c.maxError ≤ (c.cap - 1) * c.off ∧ c.tlen + c.off + c.maxError ≤ c.cap * c.off := by
  have h1 := Nat.div_add_mod (c.tlen + (c.off + c.maxError) - 1) c.off
  have h2 := Nat.mod_lt (c.tlen + (c.off + c.maxError) - 1) w.off_pos
  have h0 := w.cap_eq
  generalize (c.tlen + (c.off + c.maxError) - 1) / c.off = D at h0 h1
  generalize (c.tlen + (c.off + c.maxError) - 1) % c.off = M at h1 h2
  have h3 : c.cap - 1 = D := by omega
  have h4 : c.cap * c.off = D * c.off + c.off := by
    rw [h0, Nat.succ_mul]
  rw [h4, h3, Nat.mul_comm D]
  have := w.off_pos
  omega

theorem mod_eq_far {a b n : Nat} (h : a % n = b % n) (hne : a ≠ b) : a + n ≤ b ∨ b + n ≤ a := by
  rcases Nat.lt_or_gt_of_ne hne with hlt | hgt
  · left
    have h0 : (b - a) % n = 0 := Nat.sub_mod_eq_zero_of_mod_eq h.symm
    have hd : n ∣ b - a := Nat.dvd_of_mod_eq_zero h0
    have := Nat.le_of_dvd (by omega) hd
    omega
  · right
    have h0 : (a - b) % n = 0 := Nat.sub_mod_eq_zero_of_mod_eq h
    have hd : n ∣ a - b := Nat.dvd_of_mod_eq_zero h0
    have := Nat.le_of_dvd (by omega) hd
    omega

/-- While the run of the match is complete and its tube not yet retired (`hi ≤ p ≤ qi`), a tube
    index `x` whose band `[x·off, (x+1)·off + e)` contains the diagonal index `d'` of a k-mer at
    query position `p` and that shares the slot of tube `i` is `i` itself. -/
theorem alias_excl {c : Cfg} (w : WF c) (i lo hi p d' x : Nat)
    (hband : i * c.off ≤ c.tlen + lo) (hlohi : lo ≤ hi) (hp : hi ≤ p)
    (hq : p ≤ (i + 1) * c.off + c.maxError - 1)
    (hd1 : p + 1 ≤ d') (hd2 : d' ≤ c.tlen + p)
    (hx1 : x * c.off ≤ d') (hx2 : d' < (x + 1) * c.off + c.maxError)
    (hmod : x % c.cap = i % c.cap) : x = i := by
  apply Classical.byContradiction
  intro hne
  obtain ⟨hc1, hc2⟩ := w.cap_mul
  have hoff := w.off_pos
  rcases mod_eq_far hmod hne with h | h
  · -- x + cap ≤ i : the band of x ended before the match began
    have h1 : (x + c.cap) * c.off ≤ i * c.off := Nat.mul_le_mul_right _ h
    have h2 : (x + c.cap) * c.off = (x + 1) * c.off + (c.cap - 1) * c.off := by
      rw [← Nat.add_mul]; congr 1; have := w.cap_pos; omega
    omega
  · -- i + cap ≤ x : the band of x begins after tube i is retired
    have h1 : (i + c.cap) * c.off ≤ x * c.off := Nat.mul_le_mul_right _ h
    rw [Nat.add_mul] at h1
    rw [Nat.add_mul, Nat.one_mul] at hq
    omega

/-- the wrap-around of the previous-tube hit (`tubeIndex = 0 → cap-1`) never reaches the slot of the
    match while its run is complete -/
theorem wrap_excl {c : Cfg} (w : WF c) (i lo hi p d' : Nat)
    (hband : i * c.off ≤ c.tlen + lo) (hlohi : lo ≤ hi) (hp : hi ≤ p)
    (hd1 : p + 1 ≤ d') (hd3 : d' < c.maxError)
    (hmod : (c.cap - 1) % c.cap = i % c.cap) : False := by
  obtain ⟨hc1, _⟩ := w.cap_mul
  have hcap := w.cap_pos
  have h1 : (c.cap - 1) % c.cap = c.cap - 1 := Nat.mod_eq_of_lt (by omega)
  have h2 : i % c.cap ≤ i := Nat.mod_le _ _
  have h3 : (c.cap - 1) * c.off ≤ i * c.off := Nat.mul_le_mul_right _ (by omega)
  omega

/-- both tube indices a common k-mer at query position `p` can address are the match's own index
    if they share its slot (while `hi ≤ p ≤ qi`) -/
theorem event_alias {c : Cfg} (w : WF c) (i lo hi p t : Nat) (ht : t < c.tlen)
    (hband : i * c.off ≤ c.tlen + lo) (hlohi : lo ≤ hi) (hp : hi ≤ p)
    (hq : p ≤ (i + 1) * c.off + c.maxError - 1) :
    (tubeIndex c (diagIndex c t p) % c.cap = i % c.cap → tubeIndex c (diagIndex c t p) = i) ∧
    (diagIndex c t p % c.off < c.maxError →
      (if tubeIndex c (diagIndex c t p) = 0 then c.cap - 1 else tubeIndex c (diagIndex c t p) - 1) % c.cap = i % c.cap →
      (if tubeIndex c (diagIndex c t p) = 0 then c.cap - 1 else tubeIndex c (diagIndex c t p) - 1) = i) := by
  have hoff := w.off_pos
  have hd1 : p + 1 ≤ diagIndex c t p := by unfold diagIndex; omega
  have hd2 : diagIndex c t p ≤ c.tlen + p := by unfold diagIndex; omega
  have hdm := Nat.div_add_mod (diagIndex c t p) c.off
  have hml := Nat.mod_lt (diagIndex c t p) hoff
  unfold tubeIndex
  generalize diagIndex c t p = d at *
  generalize hD : d / c.off = ti at *
  generalize hM : d % c.off = dm at *
  rw [Nat.mul_comm] at hdm
  constructor
  · intro hmod
    exact alias_excl w i lo hi p d ti hband hlohi hp hq hd1 hd2 (by omega)
      (by rw [Nat.add_mul, Nat.one_mul]; omega) hmod
  · intro hprev hmod
    by_cases h0 : ti = 0
    · rw [if_pos h0] at hmod ⊢
      exfalso
      subst h0
      exact wrap_excl w i lo hi p d hband hlohi hp hd1 (by omega) hmod
    · rw [if_neg h0] at hmod ⊢
      have hti : (ti - 1 + 1) * c.off = ti * c.off := by congr 1; omega
      have hti' : (ti - 1) * c.off + c.off = ti * c.off := by rw [← Nat.succ_mul]; congr 1 <;> omega
      exact alias_excl w i lo hi p d (ti - 1) hband hlohi hp hq hd1 hd2 (by omega) (by rw [hti]; omega) hmod

/-- a common k-mer that is not counted as a shared k-mer of the match keeps the invariant -/
theorem commonKmer_pres {c : Cfg} (w : WF c) (i lo hi m qi : Nat) (st : St) (p r t : Nat) (ht : t < c.tlen)
    (inv : MInv c i lo hi m qi st p r)
    (hthr : (m : Int) ≥ c.minKmers) (hD : (hi : Int) - lo ≤ c.maxKmerDist)
    (hband : i * c.off ≤ c.tlen + lo) (hlohi : lo ≤ hi) (hqi : qi = (i + 1) * c.off + c.maxError - 1)
    (hrle : r ≤ m) (h1 : 1 ≤ r → lo ≤ p) (h2 : r < m → p ≤ hi) (h3 : r = m → hi ≤ p) :
    MInv c i lo hi m qi (commonKmer c st t p) p r := by
  unfold commonKmer
  by_cases hcut : selfCut c t p = true
  · rw [if_pos hcut]; exact inv
  · rw [if_neg hcut]
    simp only []
    have hcap := w.cap_pos
    have inv1 : MInv c i lo hi m qi (hitTube c st (tubeIndex c (diagIndex c t p)) p) p r := by
      apply hitTube_pres c i lo hi m qi st p r _ hcap inv hthr hD hrle h1 h2 h3
      intro hrm hnd hmod
      have hpq : p ≤ qi := inv.late.resolve_left hnd
      exact (event_alias w i lo hi p t ht hband hlohi (h3 hrm) (by omega)).1 hmod
    by_cases hprev : diagIndex c t p % c.off < c.maxError
    · rw [if_pos hprev]
      apply hitTube_pres c i lo hi m qi _ p r _ hcap inv1 hthr hD hrle h1 h2 h3
      intro hrm hnd hmod
      have hpq : p ≤ qi := inv1.late.resolve_left hnd
      exact (event_alias w i lo hi p t ht hband hlohi (h3 hrm) (by omega)).2 hprev hmod
    · rw [if_neg hprev]; exact inv1

/-- the common k-mer that is a shared k-mer of the match advances the invariant -/
theorem commonKmer_shared {c : Cfg} (w : WF c) (i lo hi m qi : Nat) (st : St) (p r t : Nat) (ht : t < c.tlen)
    (inv : MInv c i lo hi m qi st p r)
    (hthr : (m : Int) ≥ c.minKmers) (hD : (hi : Int) - lo ≤ c.maxKmerDist)
    (hband : i * c.off ≤ c.tlen + lo) (hlohi : lo ≤ hi) (hqi : qi = (i + 1) * c.off + c.maxError - 1)
    (hcut : selfCut c t p = false) (hti : tubeIndex c (diagIndex c t p) = i)
    (hr : r < m) (h0 : r = 0 → p = lo) (hlast : r + 1 = m → p = hi) (hlo : lo ≤ p) (hhi : p ≤ hi) :
    MInv c i lo hi m qi (commonKmer c st t p) p (r + 1) := by
  unfold commonKmer
  rw [if_neg (by rw [hcut]; simp)]
  simp only []
  have hcap := w.cap_pos
  rw [hti]
  have inv1 := hitTube_shared c i lo hi m qi st p r hcap inv hD hr h0 hlast hlo hhi
  by_cases hprev : diagIndex c t p % c.off < c.maxError
  · rw [if_pos hprev]
    apply hitTube_pres c i lo hi m qi _ p (r + 1) _ hcap inv1 hthr hD (by omega) (fun _ => hlo)
      (fun _ => hhi) (fun h => by have := hlast h; omega)
    intro hrm hnd hmod
    have hpq : p ≤ qi := inv1.late.resolve_left hnd
    have := (event_alias w i lo hi p t ht hband hlohi (by have := hlast hrm; omega) (by omega)).2 hprev
    rw [hti] at this
    exact this hmod
  · rw [if_neg hprev]; exact inv1

/-! ### all common k-mers of one query position -/

theorem fold_pres {c : Cfg} (w : WF c) (i lo hi m qi : Nat) (p r : Nat) (ts : List Nat) (st : St)
    (hts : ∀ t ∈ ts, t < c.tlen)
    (inv : MInv c i lo hi m qi st p r)
    (hthr : (m : Int) ≥ c.minKmers) (hD : (hi : Int) - lo ≤ c.maxKmerDist)
    (hband : i * c.off ≤ c.tlen + lo) (hlohi : lo ≤ hi) (hqi : qi = (i + 1) * c.off + c.maxError - 1)
    (hrle : r ≤ m) (h1 : 1 ≤ r → lo ≤ p) (h2 : r < m → p ≤ hi) (h3 : r = m → hi ≤ p) :
    MInv c i lo hi m qi (ts.foldl (fun s t => commonKmer c s t p) st) p r := by
  induction ts generalizing st with
  | nil => exact inv
  | cons t ts ih =>
    rw [List.foldl_cons]
    exact ih _ (fun x hx => hts x (by simp [hx]))
      (commonKmer_pres w i lo hi m qi st p r t (hts t (by simp)) inv hthr hD hband hlohi hqi hrle h1 h2 h3)

/-- a query position that carries a shared k-mer of the match (target position `t ∈ ts`) -/
theorem fold_shared {c : Cfg} (w : WF c) (i lo hi m qi : Nat) (p r : Nat) (ts : List Nat) (st : St) (t : Nat)
    (hts : ∀ t ∈ ts, t < c.tlen) (hmem : t ∈ ts)
    (inv : MInv c i lo hi m qi st p r)
    (hthr : (m : Int) ≥ c.minKmers) (hD : (hi : Int) - lo ≤ c.maxKmerDist)
    (hband : i * c.off ≤ c.tlen + lo) (hlohi : lo ≤ hi) (hqi : qi = (i + 1) * c.off + c.maxError - 1)
    (hcut : selfCut c t p = false) (hti : tubeIndex c (diagIndex c t p) = i)
    (hr : r < m) (h0 : r = 0 → p = lo) (hlast : r + 1 = m → p = hi) (hlo : lo ≤ p) (hhi : p ≤ hi) :
    MInv c i lo hi m qi (ts.foldl (fun s t => commonKmer c s t p) st) p (r + 1) := by
  obtain ⟨ts₁, ts₂, rfl⟩ := List.append_of_mem hmem
  rw [List.foldl_append, List.foldl_cons]
  have inv1 := fold_pres w i lo hi m qi p r ts₁ st (fun x hx => hts x (by simp [hx])) inv hthr hD hband hlohi hqi
    (by omega) (fun _ => hlo) (fun _ => hhi) (fun h => by omega)
  have inv2 := commonKmer_shared w i lo hi m qi _ p r t (hts t (by simp)) inv1 hthr hD hband hlohi hqi hcut hti
    hr h0 hlast hlo hhi
  exact fold_pres w i lo hi m qi p (r + 1) ts₂ _ (fun x hx => hts x (by simp [hx])) inv2 hthr hD hband hlohi hqi
    (by omega) (fun _ => hlo) (fun _ => hhi) (fun h => by have := hlast h; omega)

/-! ### retirement by a tick -/

theorem retire_cases (c : Cfg) (st : St) (j : Nat) (hsz : st.tubes.size = c.cap) (hcap : 0 < c.cap) :
    let t := getTube st (j % c.cap)
    let st' := retire c st (j : Int)
    st'.panic = st.panic ∧ st'.tubes.size = st.tubes.size ∧ (∀ x ∈ st.hits, x ∈ st'.hits) ∧
    (∀ slot, slot ≠ j % c.cap → getTube st' slot = getTube st slot) ∧
    getTube st' (j % c.cap) = { t with count := 0 } ∧
    (((t.count : Int) ≥ c.minKmers ∧ st'.hits = (addHit c st (j : Int) t.qLo t.qHi).hits) ∨
     (¬ (t.count : Int) ≥ c.minKmers ∧ st'.hits = st.hits)) := by
  have hslot : j % c.cap < st.tubes.size := by rw [hsz]; exact Nat.mod_lt _ hcap
  have hmod : (j : Int).tmod (c.cap : Int) = ((j % c.cap : Nat) : Int) := rfl
  simp only []
  unfold retire
  simp only [hmod]
  rw [if_neg (by omega), Int.toNat_natCast]
  by_cases hthr : ((getTube st (j % c.cap)).count : Int) ≥ c.minKmers
  · rw [if_pos hthr]
    refine ⟨rfl, by simp [addHit_tubes], fun x hx => addHit_hits c st _ _ _ x hx, ?_, ?_, Or.inl ⟨hthr, rfl⟩⟩
    · intro slot hne; rw [getTube_set, if_neg (fun h => hne h.1.symm)]; rfl
    · rw [getTube_set, if_pos ⟨rfl, by rw [addHit_tubes]; exact hslot⟩]
  · rw [if_neg hthr]
    refine ⟨rfl, by simp, fun x hx => hx, ?_, ?_, Or.inr ⟨hthr, rfl⟩⟩
    · intro slot hne; rw [getTube_set, if_neg (fun h => hne h.1.symm)]
    · rw [getTube_set, if_pos ⟨rfl, hslot⟩]

/-- the tick at query position `p = (j+1)·off + e - 1` retires tube `j`; afterwards the scan moves
    on to position `p + 1` -/
theorem retire_step {c : Cfg} (w : WF c) (i lo hi m qi : Nat) (st : St) (p r j : Nat)
    (inv : MInv c i lo hi m qi st p r) (hp : p = (j + 1) * c.off + c.maxError - 1)
    (hthr : (m : Int) ≥ c.minKmers) (hm1 : 1 ≤ m)
    (hband : i * c.off ≤ c.tlen + lo) (hlohi : lo ≤ hi) (hqi : qi = (i + 1) * c.off + c.maxError - 1)
    (hhiq : hi ≤ qi) (hr_all : hi ≤ p → r = m) (hr_none : 1 ≤ r → lo ≤ p) :
    MInv c i lo hi m qi (retire c st (j : Int)) (p + 1) r := by
  have hcap := w.cap_pos
  have hoff := w.off_pos
  obtain ⟨hpan, hsize, hhits, hframe, hnew, hem⟩ := retire_cases c st j inv.size hcap
  have hvj : 1 ≤ (j + 1) * c.off := Nat.mul_pos (by omega) hoff
  have hvi : 1 ≤ (i + 1) * c.off := Nat.mul_pos (by omega) hoff
  have hdone : Done c i lo hi st → Done c i lo hi (retire c st (j : Int)) := Done_mono c i lo hi _ _ hhits
  by_cases hslot : j % c.cap = i % c.cap
  · rw [hslot] at hnew hem
    have hwf : (getTube (retire c st (j : Int)) (i % c.cap)).count > 0 →
        (getTube (retire c st (j : Int)) (i % c.cap)).qLo ≤ (getTube (retire c st (j : Int)) (i % c.cap)).qHi ∧
        (getTube (retire c st (j : Int)) (i % c.cap)).qHi ≤ p + 1 := by
      intro h; rw [hnew] at h; simp at h
    by_cases hji : j = i
    · -- the match's own tube is retired: its run is complete and is emitted under its own index
      subst hji
      have hpq : p = qi := by omega
      have hrm : r = m := hr_all (by omega)
      have hd : Done c j lo hi (retire c st (j : Int)) := by
        rcases inv.run (by omega) with hd | ⟨hc, hqlo, _, hlast⟩
        · exact hdone hd
        · rcases hem with ⟨_, hh⟩ | ⟨hno, _⟩
          · obtain ⟨x, hx, hxd⟩ := addHit_done c j lo hi st _ _ hqlo (hlast hrm)
            exact ⟨x, by rw [hh]; exact hx, hxd⟩
          · omega
      exact ⟨by rw [hpan]; exact inv.nopanic, by rw [hsize]; exact inv.size, hwf, fun _ => Or.inl hd, Or.inl hd⟩
    · obtain ⟨hc1, _⟩ := w.cap_mul
      rcases mod_eq_far hslot hji with h | h
      · -- an earlier tube of the same slot: the match has not begun
        have h1 : (j + c.cap) * c.off ≤ i * c.off := Nat.mul_le_mul_right _ h
        have h2 : (j + c.cap) * c.off = (j + 1) * c.off + (c.cap - 1) * c.off := by
          rw [← Nat.add_mul]; congr 1; omega
        have hplo : p < lo := by omega
        have hr0 : r = 0 := by
          apply Classical.byContradiction; intro hne; have := hr_none (by omega); omega
        exact ⟨by rw [hpan]; exact inv.nopanic, by rw [hsize]; exact inv.size, hwf,
          fun h => by omega, Or.inr (by omega)⟩
      · -- a later tube of the same slot: tube i was retired long ago
        have h1 : (i + 1) * c.off ≤ (j + 1) * c.off := Nat.mul_le_mul_right _ (by omega)
        have h2 : (i + 1 + c.cap) * c.off ≤ (j + 1) * c.off := Nat.mul_le_mul_right _ (by omega)
        rw [Nat.add_mul] at h2
        have hcm : c.off ≤ c.cap * c.off := Nat.le_mul_of_pos_left _ hcap
        have hd : Done c i lo hi st := inv.late.resolve_right (by omega)
        exact ⟨by rw [hpan]; exact inv.nopanic, by rw [hsize]; exact inv.size, hwf,
          fun _ => Or.inl (hdone hd), Or.inl (hdone hd)⟩
  · have hsame : getTube (retire c st (j : Int)) (i % c.cap) = getTube st (i % c.cap) :=
      hframe _ (fun h => hslot h.symm)
    refine ⟨by rw [hpan]; exact inv.nopanic, by rw [hsize]; exact inv.size, ?_, ?_, ?_⟩
    · rw [hsame]; intro h; have := inv.wf h; omega
    · intro hr; rw [hsame]; exact (inv.run hr).imp hdone id
    · rcases inv.late with hd | hle
      · exact Or.inl (hdone hd)
      · right
        have hne : j ≠ i := fun h => hslot (by rw [h])
        rcases Nat.lt_or_gt_of_ne hne with hlt | hgt
        · have h1 : (j + 1 + 1) * c.off ≤ (i + 1) * c.off := Nat.mul_le_mul_right _ (by omega)
          rw [Nat.add_mul (j + 1) 1, Nat.one_mul] at h1
          omega
        · have h1 : (i + 1 + 1) * c.off ≤ (j + 1) * c.off := Nat.mul_le_mul_right _ (by omega)
          rw [Nat.add_mul (i + 1) 1, Nat.one_mul] at h1
          omega

/-! ### one callback of the scan: common k-mers, then the ticker -/

/-- query position of the `j`-th tick (`j = 0, 1, …`) -/
def tickPos (c : Cfg) (j : Nat) : Nat := (j + 1) * c.off + c.maxError - 1

theorem tickPos_succ {c : Cfg} (w : WF c) (j : Nat) : tickPos c (j + 1) = tickPos c j + c.off := by
  unfold tickPos
  have := w.off_pos
  have h : 1 ≤ (j + 1) * c.off := Nat.mul_pos (by omega) this
  rw [Nat.add_mul (j + 1) 1, Nat.one_mul]; omega

theorem tickPos_lt {c : Cfg} (w : WF c) {j j' : Nat} (h : j < j') : tickPos c j < tickPos c j' := by
  induction h with
  | refl => rw [tickPos_succ w]; have := w.off_pos; omega
  | step _ ih => rw [tickPos_succ w]; omega

theorem tickPos_inj {c : Cfg} (w : WF c) {j j' : Nat} (h : tickPos c j = tickPos c j') : j = j' := by
  rcases Nat.lt_trichotomy j j' with h1 | h1 | h1
  · have := tickPos_lt w h1; omega
  · exact h1
  · have := tickPos_lt w h1; omega

/-- with the repaired rule the tick at `tickPos j` retires tube `j` -/
theorem tubeEndIndex_tick {c : Cfg} (w : WF c) (j : Nat) : tubeEndIndex c (tickPos c j) = (j : Int) := by
  unfold tubeEndIndex tickPos
  simp only [w.rule, if_true]
  have hoff := w.off_pos
  have h1 : 1 ≤ (j + 1) * c.off := Nat.mul_pos (by omega) hoff
  have hcast : ((c.tlen : Int) - ((c.tlen : Int) - 1) + ((((j + 1) * c.off + c.maxError - 1 : Nat) : Int) - 1) - (c.maxError : Int))
      = (((j + 1) * c.off - 1 : Nat) : Int) := by omega
  rw [hcast]
  have hdiv : ((j + 1) * c.off - 1) / c.off = j := by
    apply Nat.div_eq_of_lt_le
    · rw [Nat.add_mul, Nat.one_mul] at h1 ⊢; omega
    · rw [Nat.add_mul, Nat.one_mul]; omega
  show (((((j + 1) * c.off - 1) / c.off : Nat)) : Int) = j
  rw [hdiv]

/-! ### the ticker: `tick(passed)` retires the tubes that have ended -/

theorem tickLoop_done (c : Cfg) (passed fuel : Nat) (st : St) (ticker : Nat) (h : passed < ticker) :
    tickLoop c passed fuel st ticker = { st := st, ticker := ticker } := by
  cases fuel with
  | zero => rfl
  | succ n => rw [tickLoop, if_neg (by omega)]

/-- fuel beyond `passed + 1 - ticker` is never used (`tubeOffset ≥ 1`) -/
theorem tickLoop_more (c : Cfg) (hoff : 1 ≤ c.off) (passed : Nat) : ∀ (fuel : Nat) (st : St) (ticker d : Nat),
    passed + 1 - ticker ≤ fuel → tickLoop c passed (fuel + d) st ticker = tickLoop c passed fuel st ticker := by
  intro fuel
  induction fuel with
  | zero =>
    intro st ticker d h
    rw [tickLoop_done c passed _ st ticker (by omega), tickLoop_done c passed _ st ticker (by omega)]
  | succ n ih =>
    intro st ticker d h
    by_cases hle : ticker ≤ passed
    · rw [show n + 1 + d = (n + d) + 1 by omega, tickLoop, tickLoop, if_pos hle, if_pos hle]
      exact ih _ _ d (by omega)
    · rw [tickLoop_done c passed _ st ticker (by omega), tickLoop_done c passed _ st ticker (by omega)]

theorem tick_done (c : Cfg) (l : Loop) (passed : Nat) (h : passed < l.ticker) : tick c l passed = l := by
  unfold tick; rw [tickLoop_done c passed _ l.st l.ticker h]

/-- one turn of the loop of `tick` -/
theorem tick_unfold (c : Cfg) (hoff : 1 ≤ c.off) (l : Loop) (passed : Nat) (h : l.ticker ≤ passed) :
    tick c l passed = tick c { st := tubeEnd c l.st (l.ticker - 1), ticker := l.ticker + c.off } passed := by
  unfold tick
  simp only []
  rw [show passed + 1 - l.ticker = (passed - l.ticker) + 1 by omega, tickLoop, if_pos h]
  have hd : passed - l.ticker = (passed + 1 - (l.ticker + c.off)) + (passed - l.ticker - (passed + 1 - (l.ticker + c.off))) := by
    omega
  rw [hd, tickLoop_more c hoff passed _ _ _ _ (Nat.le_refl _)]

/-- the tube that ends exactly now -/
theorem tick_one (c : Cfg) (hoff : 1 ≤ c.off) (l : Loop) (passed : Nat) (h : l.ticker = passed) :
    tick c l passed = { st := tubeEnd c l.st (passed - 1), ticker := passed + c.off } := by
  rw [tick_unfold c hoff l passed (by omega), tick_done _ _ _ (by show passed < l.ticker + c.off; omega), h]

/-- retiring up to `p` and then up to `p' ≥ p` is retiring up to `p'` -/
theorem tick_tick (c : Cfg) (hoff : 1 ≤ c.off) (p p' : Nat) (hp : p ≤ p') : ∀ (n : Nat) (l : Loop),
    p + 1 - l.ticker ≤ n → tick c (tick c l p) p' = tick c l p' := by
  intro n
  induction n with
  | zero => intro l h; rw [tick_done c l p (by omega)]
  | succ n ih =>
    intro l h
    by_cases hle : l.ticker ≤ p
    · rw [tick_unfold c hoff l p hle, tick_unfold c hoff l p' (by omega)]
      exact ih _ (by show p + 1 - (l.ticker + c.off) ≤ n; omega)
    · rw [tick_done c l p (by omega)]

/-- the invariant of the loop over the callbacks: the monitor and the ticker -/
structure LInv (c : Cfg) (i lo hi m qi : Nat) (l : Loop) (p r : Nat) : Prop where
  minv : MInv c i lo hi m qi l.st p r
  tick : ∃ j, l.ticker = tickPos c j + 1 ∧ p ≤ tickPos c j ∧ ∀ j', j' < j → tickPos c j' < p

theorem MInv_next (c : Cfg) (i lo hi m qi : Nat) (st : St) (p r : Nat) (inv : MInv c i lo hi m qi st p r)
    (hne : p ≠ qi) : MInv c i lo hi m qi st (p + 1) r :=
  ⟨inv.nopanic, inv.size, fun h => by have := inv.wf h; omega, inv.run, inv.late.imp id (by omega)⟩

/-- after the common k-mers of position `p` (state `st1`), the ticker: `tick(p + 1)` -/
theorem ticker_step {c : Cfg} (w : WF c) (i lo hi m qi : Nat) (l : Loop) (st1 : St) (p r : Nat)
    (htick : ∃ j, l.ticker = tickPos c j + 1 ∧ p ≤ tickPos c j ∧ ∀ j', j' < j → tickPos c j' < p)
    (inv : MInv c i lo hi m qi st1 p r)
    (hthr : (m : Int) ≥ c.minKmers) (hm1 : 1 ≤ m)
    (hband : i * c.off ≤ c.tlen + lo) (hlohi : lo ≤ hi) (hqi : qi = tickPos c i)
    (hhiq : hi ≤ qi) (hr_all : hi ≤ p → r = m) (hr_none : 1 ≤ r → lo ≤ p) :
    LInv c i lo hi m qi (tick c { st := st1, ticker := l.ticker } (p + 1)) (p + 1) r := by
  obtain ⟨j, hj1, hj2, hj3⟩ := htick
  have hoff := w.off_pos
  by_cases hfire : p = tickPos c j
  · rw [tick_one c hoff _ (p + 1) (by show l.ticker = p + 1; omega)]
    constructor
    · show MInv c i lo hi m qi (tubeEnd c st1 (p + 1 - 1)) (p + 1) r
      rw [Nat.add_sub_cancel]
      unfold tubeEnd
      rw [hfire, tubeEndIndex_tick w j, ← hfire]
      exact retire_step w i lo hi m qi st1 p r j inv hfire hthr hm1 hband hlohi hqi hhiq hr_all hr_none
    · refine ⟨j + 1, ?_, ?_, ?_⟩
      · show p + 1 + c.off = _
        rw [tickPos_succ w]; omega
      · rw [tickPos_succ w]; omega
      · intro j' hj'
        by_cases h : j' = j
        · subst h; omega
        · have := hj3 j' (by omega); omega
  · rw [tick_done _ _ _ (by show p + 1 < l.ticker; omega)]
    constructor
    · show MInv c i lo hi m qi st1 (p + 1) r
      apply MInv_next c i lo hi m qi st1 p r inv
      intro hpq
      -- p = tickPos i would be the next tick position
      rw [hqi] at hpq
      rcases Nat.lt_trichotomy i j with h | h | h
      · have := hj3 i h; omega
      · subst h; exact hfire hpq
      · have := tickPos_lt w h; omega
    · exact ⟨j, hj1, by omega, fun j' hj' => by have := hj3 j' hj'; omega⟩

/-! ### the shared k-mers of the match along the scan -/

/-- number of shared positions below `N` -/
def R (sh : Nat → Bool) (N : Nat) : Nat := (List.range N).countP sh

theorem R_succ (sh : Nat → Bool) (N : Nat) : R sh (N + 1) = R sh N + (if sh N then 1 else 0) := by
  unfold R; rw [List.range_succ, List.countP_append, List.countP_singleton]

theorem R_mono (sh : Nat → Bool) {N N' : Nat} (h : N ≤ N') : R sh N ≤ R sh N' := by
  induction h with
  | refl => exact Nat.le_refl _
  | step _ ih => rw [R_succ]; omega

/-- the shared positions lie in `[lo, hi]`, `lo` and `hi` are shared, there are `m` of them -/
structure Shared (sh : Nat → Bool) (lo hi m : Nat) : Prop where
  range : ∀ p, sh p = true → lo ≤ p ∧ p ≤ hi
  first : sh lo = true
  last : sh hi = true
  total : m = R sh (hi + 1)

theorem Shared.R_pos {sh : Nat → Bool} {lo hi m : Nat} (s : Shared sh lo hi m) (N : Nat) (h : 1 ≤ R sh N) : lo < N := by
  induction N with
  | zero => simp [R] at h
  | succ N ih =>
    rw [R_succ] at h
    by_cases hs : sh N = true
    · have := (s.range N hs).1; omega
    · simp [hs] at h; have := ih h; omega

theorem Shared.R_after {sh : Nat → Bool} {lo hi m : Nat} (s : Shared sh lo hi m) (N : Nat) (h : hi < N) : R sh N = m := by
  induction N with
  | zero => omega
  | succ N ih =>
    by_cases hN : N = hi
    · rw [hN, s.total]
    · rw [R_succ, ih (by omega)]
      have : ¬ sh N = true := fun hs => by have := (s.range N hs).2; omega
      simp [this]

theorem Shared.R_before {sh : Nat → Bool} {lo hi m : Nat} (s : Shared sh lo hi m) (N : Nat) (h : N ≤ hi) : R sh N < m := by
  have h1 := R_mono sh h
  have h2 := R_succ sh hi
  rw [s.last] at h2
  rw [s.total]; simp at h2; omega

theorem Shared.R_zero {sh : Nat → Bool} {lo hi m : Nat} (s : Shared sh lo hi m) (N : Nat) (h0 : R sh N = 0)
    (hs : sh N = true) : N = lo := by
  have hlo := (s.range N hs).1
  apply Classical.byContradiction; intro hne
  have h1 := R_mono sh (show lo + 1 ≤ N by omega)
  rw [R_succ, s.first] at h1
  simp at h1; omega

theorem Shared.R_last {sh : Nat → Bool} {lo hi m : Nat} (s : Shared sh lo hi m) (N : Nat) (h1 : R sh N + 1 = m)
    (hs : sh N = true) : N = hi := by
  have hhi := (s.range N hs).2
  apply Classical.byContradiction; intro hne
  have h2 := R_mono sh (show N + 1 ≤ hi by omega)
  have h3 := R_succ sh hi
  have h4 := R_succ sh N
  rw [s.last] at h3; rw [hs] at h4
  rw [s.total] at h1; simp at h3 h4; omega

/-! ### the whole scan -/

/-- one query position of the scan: its common k-mers (none if the position has no callback), then
    the tubes that end with it -/
def stepPos (c : Cfg) (l : Loop) (p : Nat) (ts : List Nat) : Loop := tick c (kmers c l p ts) (p + 1)

/-- the scan of `Filter` position by position, for query positions `0 … N-1`; `ts p` are the target
    positions of the k-mer at query position `p` (`[]` where the callback is skipped).  This is the
    loop over the callbacks followed by the `tick` that catches up (`scan_calls` in
    `Proofs/FilterComplete.lean`). -/
def scanN (c : Cfg) (ts : Nat → List Nat) (l0 : Loop) (N : Nat) : Loop :=
  ((List.range N).map fun p => (p, ts p)).foldl (fun l call => stepPos c l call.1 call.2) l0

theorem scanN_succ (c : Cfg) (ts : Nat → List Nat) (l0 : Loop) (N : Nat) :
    scanN c ts l0 (N + 1) = stepPos c (scanN c ts l0 N) N (ts N) := by
  unfold scanN; rw [List.range_succ, List.map_append, List.foldl_append]; rfl

/-- the scan with the callback-counting ticker of the first wave, on a query in which every
    position `0 … N-1` has a callback -/
def scanCount (c : Cfg) (ts : Nat → List Nat) (l0 : Loop) (N : Nat) : Loop :=
  ((List.range N).map fun p => (p, ts p)).foldl (fun l call => onKmerCount c l call.1 call.2) l0

theorem scanCount_succ (c : Cfg) (ts : Nat → List Nat) (l0 : Loop) (N : Nat) :
    scanCount c ts l0 (N + 1) = onKmerCount c (scanCount c ts l0 N) N (ts N) := by
  unfold scanCount; rw [List.range_succ, List.map_append, List.foldl_append]; rfl

/-- where every position has a callback the countdown of callbacks and the ticker that follows the
    query position drive the tubes through the same states: the countdown is `ticker - position` -/
theorem scanCount_eq (c : Cfg) (hoff : 1 ≤ c.off) (ts : Nat → List Nat) (l0 : Loop) (h0 : 1 ≤ l0.ticker) (N : Nat) :
    (scanCount c ts l0 N).st = (scanN c ts l0 N).st ∧
    (scanCount c ts l0 N).ticker + N = (scanN c ts l0 N).ticker ∧ N < (scanN c ts l0 N).ticker := by
  induction N with
  | zero => exact ⟨rfl, rfl, h0⟩
  | succ N ih =>
    obtain ⟨h1, h2, h3⟩ := ih
    rw [scanCount_succ, scanN_succ]
    unfold onKmerCount stepPos kmers
    simp only []
    rw [h1]
    by_cases hfire : (scanCount c ts l0 N).ticker - 1 = 0
    · rw [if_pos hfire, tick_one c hoff _ (N + 1) (by show (scanN c ts l0 N).ticker = N + 1; omega)]
      refine ⟨?_, ?_, ?_⟩
      · show tubeEnd c _ N = tubeEnd c _ (N + 1 - 1)
        rw [Nat.add_sub_cancel]
      · show c.off + (N + 1) = N + 1 + c.off
        omega
      · show N + 1 < N + 1 + c.off
        omega
    · rw [if_neg hfire, tick_done c _ (N + 1) (by show N + 1 < (scanN c ts l0 N).ticker; omega)]
      refine ⟨rfl, ?_, ?_⟩
      · show (scanCount c ts l0 N).ticker - 1 + (N + 1) = (scanN c ts l0 N).ticker
        omega
      · show N + 1 < (scanN c ts l0 N).ticker
        omega

/-- what the match needs from the scan: every shared position `p` has its target position
    `tstar p` among the target positions of the k-mer at `p`, on the match's tube, not cut -/
structure Events (c : Cfg) (i : Nat) (sh : Nat → Bool) (tstar : Nat → Nat) (ts : Nat → List Nat) : Prop where
  bound : ∀ p t, t ∈ ts p → t < c.tlen
  mem : ∀ p, sh p = true → tstar p ∈ ts p
  cut : ∀ p, sh p = true → selfCut c (tstar p) p = false
  tube : ∀ p, sh p = true → tubeIndex c (diagIndex c (tstar p) p) = i

theorem scan_inv {c : Cfg} (w : WF c) (i lo hi m : Nat) (sh : Nat → Bool) (tstar : Nat → Nat)
    (ts : Nat → List Nat) (l0 : Loop)
    (hs : Shared sh lo hi m) (he : Events c i sh tstar ts)
    (hthr : (m : Int) ≥ c.minKmers) (hm1 : 1 ≤ m) (hD : (hi : Int) - lo ≤ c.maxKmerDist)
    (hband : i * c.off ≤ c.tlen + lo) (hhiq : hi ≤ tickPos c i)
    (h0 : LInv c i lo hi m (tickPos c i) l0 0 0) (N : Nat) :
    LInv c i lo hi m (tickPos c i) (scanN c ts l0 N) N (R sh N) := by
  have hlohi : lo ≤ hi := (hs.range lo hs.first).2
  induction N with
  | zero => exact h0
  | succ N ih =>
    rw [scanN_succ, R_succ]
    unfold stepPos kmers
    have hrle : R sh N ≤ m := by
      rcases Nat.lt_or_ge hi N with h | h
      · rw [hs.R_after N h]; exact Nat.le_refl _
      · exact Nat.le_of_lt (hs.R_before N h)
    by_cases hsh : sh N = true
    · -- position N carries a shared k-mer
      rw [if_pos hsh]
      have hr := hs.R_before N (hs.range N hsh).2
      have inv1 := fold_shared w i lo hi m (tickPos c i) N (R sh N) (ts N) (scanN c ts l0 N).st (tstar N)
        (he.bound N) (he.mem N hsh) ih.minv hthr hD hband hlohi rfl (he.cut N hsh) (he.tube N hsh) hr
        (fun h => hs.R_zero N h hsh) (fun h => hs.R_last N h hsh) (hs.range N hsh).1 (hs.range N hsh).2
      apply ticker_step w i lo hi m (tickPos c i) _ _ N (R sh N + 1) ih.tick inv1 hthr hm1 hband hlohi rfl hhiq
      · intro h
        have : N = hi := by have := (hs.range N hsh).2; omega
        have h2 := hs.R_after (N + 1) (by omega)
        rw [R_succ, hsh] at h2; simpa using h2
      · intro _; exact (hs.range N hsh).1
    · rw [if_neg hsh, Nat.add_zero]
      have inv1 := fold_pres w i lo hi m (tickPos c i) N (R sh N) (ts N) (scanN c ts l0 N).st
        (he.bound N) ih.minv hthr hD hband hlohi rfl hrle
        (fun h => Nat.le_of_lt (hs.R_pos N h))
        (fun h => by
          apply Classical.byContradiction; intro hn
          have := hs.R_after N (by omega); omega)
        (fun h => by
          apply Classical.byContradiction; intro hn
          have := hs.R_before N (by omega); omega)
      apply ticker_step w i lo hi m (tickPos c i) _ _ N (R sh N) ih.tick inv1 hthr hm1 hband hlohi rfl hhiq
      · intro h
        have hne : N ≠ hi := fun hN => hsh (by rw [hN]; exact hs.last)
        have h2 := hs.R_after (N + 1) (by omega)
        rw [R_succ] at h2; simp [hsh] at h2; exact h2
      · intro h; exact Nat.le_of_lt (hs.R_pos N h)

/-! ### after the scan: the final `tubeEnd` and the flush loop -/

/-- after the scan: a covering hit exists, or the slot of the match holds its complete run -/
structure FInv (c : Cfg) (i lo hi m : Nat) (st : St) : Prop where
  nopanic : st.panic = false
  size : st.tubes.size = c.cap
  run : Done c i lo hi st ∨
    (m ≤ (getTube st (i % c.cap)).count ∧ (getTube st (i % c.cap)).qLo ≤ lo ∧ hi ≤ (getTube st (i % c.cap)).qHi)

theorem near_eq {x i n : Nat} (hmod : x % n = i % n) (h1 : x < i + n) (h2 : i < x + n) : x = i := by
  apply Classical.byContradiction; intro hne
  rcases mod_eq_far hmod hne with h | h <;> omega

/-- retiring tube `j` after the scan, when `j` can only share the match's slot by being `i` -/
theorem retire_final {c : Cfg} (w : WF c) (i lo hi m : Nat) (st : St) (j : Nat)
    (inv : FInv c i lo hi m st) (hthr : (m : Int) ≥ c.minKmers)
    (hnear : ¬ Done c i lo hi st → j % c.cap = i % c.cap → j = i) :
    FInv c i lo hi m (retire c st (j : Int)) := by
  have hcap := w.cap_pos
  obtain ⟨hpan, hsize, hhits, hframe, hnew, hem⟩ := retire_cases c st j inv.size hcap
  have hdone : Done c i lo hi st → Done c i lo hi (retire c st (j : Int)) := Done_mono c i lo hi _ _ hhits
  refine ⟨by rw [hpan]; exact inv.nopanic, by rw [hsize]; exact inv.size, ?_⟩
  by_cases hd : Done c i lo hi st
  · exact Or.inl (hdone hd)
  · rcases inv.run with hd' | ⟨hc, hqlo, hqhi⟩
    · exact absurd hd' hd
    · by_cases hslot : j % c.cap = i % c.cap
      · have hji := hnear hd hslot
        subst hji
        left
        rcases hem with ⟨_, hh⟩ | ⟨hno, _⟩
        · obtain ⟨x, hx, hxd⟩ := addHit_done c j lo hi st _ _ hqlo hqhi
          exact ⟨x, by rw [hh]; exact hx, hxd⟩
        · omega
      · right
        rw [hframe _ (fun h => hslot h.symm)]
        exact ⟨hc, hqlo, hqhi⟩

theorem tubeFlush_cases (c : Cfg) (st : St) (x : Nat) (hsz : st.tubes.size = c.cap) (hcap : 0 < c.cap) :
    let t := getTube st (x % c.cap)
    let st' := tubeFlush c st x
    st'.panic = st.panic ∧ st'.tubes.size = st.tubes.size ∧ (∀ h ∈ st.hits, h ∈ st'.hits) ∧
    (∀ slot, slot ≠ x % c.cap → getTube st' slot = getTube st slot) ∧
    (((t.count : Int) ≥ c.minKmers ∧ st'.hits = (addHit c st (x : Int) t.qLo t.qHi).hits) ∨
     (¬ (t.count : Int) ≥ c.minKmers ∧ st' = st)) := by
  simp only []
  unfold tubeFlush
  simp only []
  by_cases hthr : ((getTube st (x % c.cap)).count : Int) < c.minKmers
  · rw [if_pos hthr]
    exact ⟨rfl, rfl, fun h hh => hh, fun _ _ => rfl, Or.inr ⟨by omega, rfl⟩⟩
  · rw [if_neg hthr]
    refine ⟨rfl, by simp [addHit_tubes], fun h hh => addHit_hits c st _ _ _ h hh, ?_, Or.inl ⟨by omega, rfl⟩⟩
    intro slot hne; rw [getTube_set, if_neg (fun h => hne h.1.symm)]; rfl

/-- the flush loop from index `x`, `n` iterations: if the match's tube `i` lies in `[x, x+n)` and
    is the first index of its slot from `x` on, a covering hit exists afterwards -/
theorem flushLoop_done {c : Cfg} (w : WF c) (i lo hi m : Nat) (n x : Nat) (st : St)
    (inv : FInv c i lo hi m st) (hthr : (m : Int) ≥ c.minKmers)
    (hx : Done c i lo hi st ∨ x ≤ i) (hin : i < x + n) (hnear : i < x + c.cap) :
    FInv c i lo hi m (flushLoop c n x st) ∧ Done c i lo hi (flushLoop c n x st) := by
  have hcap := w.cap_pos
  induction n generalizing x st with
  | zero =>
    rw [flushLoop]
    rcases hx with hd | hle
    · exact ⟨inv, hd⟩
    · omega
  | succ n ih =>
    rw [flushLoop]
    obtain ⟨hpan, hsize, hhits, hframe, hem⟩ := tubeFlush_cases c st x inv.size hcap
    have hdone : Done c i lo hi st → Done c i lo hi (tubeFlush c st x) := Done_mono c i lo hi _ _ hhits
    have hbase : (tubeFlush c st x).panic = false ∧ (tubeFlush c st x).tubes.size = c.cap :=
      ⟨by rw [hpan]; exact inv.nopanic, by rw [hsize]; exact inv.size⟩
    by_cases hd : Done c i lo hi st
    · exact ih (x + 1) _ ⟨hbase.1, hbase.2, Or.inl (hdone hd)⟩ (Or.inl (hdone hd)) (by
        rcases hx with _ | hle
        · omega
        · omega) (by omega)
    · have hle : x ≤ i := hx.resolve_left hd
      rcases inv.run with hd' | ⟨hc, hqlo, hqhi⟩
      · exact absurd hd' hd
      · by_cases hslot : x % c.cap = i % c.cap
        · have hxi : x = i := near_eq hslot (by omega) hnear
          subst hxi
          have hd2 : Done c x lo hi (tubeFlush c st x) := by
            rcases hem with ⟨_, hh⟩ | ⟨hno, _⟩
            · obtain ⟨y, hy, hyd⟩ := addHit_done c x lo hi st _ _ hqlo hqhi
              exact ⟨y, by rw [hh]; exact hy, hyd⟩
            · omega
          exact ih (x + 1) _ ⟨hbase.1, hbase.2, Or.inl hd2⟩ (Or.inl hd2) (by omega) (by omega)
        · have hne : x ≠ i := fun h => hslot (by rw [h])
          refine ih (x + 1) _ ⟨hbase.1, hbase.2, Or.inr ?_⟩ (Or.inr (by omega)) (by omega) (by omega)
          rw [hframe _ (fun h => hslot h.symm)]
          exact ⟨hc, hqlo, hqhi⟩

/-! ### the whole run -/

theorem tdiv_nonpos {x y : Int} (hx : x < 0) (hy : 0 < y) : x.tdiv y ≤ 0 := by
  have h1 : x = -(-x) := by omega
  rw [h1, Int.neg_tdiv]
  have := Int.tdiv_nonneg (show 0 ≤ -x by omega) (show 0 ≤ y by omega)
  omega

theorem lt_succ_div_mul (a b : Nat) (h : 0 < b) : a < (a / b + 1) * b := by
  have h1 := Nat.div_add_mod a b
  have h2 := Nat.mod_lt a h
  generalize a / b = d at *
  generalize a % b = r at *
  rw [Nat.add_mul, Nat.one_mul, Nat.mul_comm d b]; omega

/-- first tube of the final flush (repaired rule): the first tube no tick has retired -/
def flushFrom (c : Cfg) (qlen : Nat) : Nat := (qlen - c.k + 1 - c.maxError) / c.off
/-- last tube of the final flush -/
def flushTo (c : Cfg) (qlen : Nat) : Nat := (c.tlen + (qlen - 1) + (c.off + c.maxError)) / c.off

theorem flushRange_eq {c : Cfg} (w : WF c) (qlen : Nat) (hq : c.k ≤ qlen) (hq1 : 1 ≤ qlen) :
    flushRange c qlen = (flushFrom c qlen, (flushTo c qlen : Int)) := by
  unfold flushRange flushFrom flushTo
  simp only [w.rule, if_true]
  have hoff := w.off_pos
  congr 1
  · by_cases hneg : ((qlen : Int) - c.k + 1) - c.maxError < 0
    · have h1 := tdiv_nonpos hneg (show (0 : Int) < c.off by omega)
      have h2 : qlen - c.k + 1 - c.maxError = 0 := by omega
      rw [h2, Nat.zero_div]
      generalize (((qlen : Int) - c.k + 1) - c.maxError).tdiv (c.off : Int) = z at h1 ⊢
      split <;> omega
    · have hcast : ((qlen : Int) - c.k + 1) - c.maxError = ((qlen - c.k + 1 - c.maxError : Nat) : Int) := by omega
      rw [hcast]
      have hd : ((qlen - c.k + 1 - c.maxError : Nat) : Int).tdiv (c.off : Int)
          = (((qlen - c.k + 1 - c.maxError) / c.off : Nat) : Int) := rfl
      rw [hd, if_neg (Int.not_lt.mpr (Int.natCast_nonneg _)), Int.toNat_natCast]
  · have hcast : (c.tlen : Int) + ((qlen : Int) - 1) + ((c.off : Int) + c.maxError)
        = ((c.tlen + (qlen - 1) + (c.off + c.maxError) : Nat) : Int) := by omega
    rw [hcast]; rfl

theorem getTube_init (cap : Nat) (slot : Nat) :
    getTube { tubes := Array.replicate cap default, hits := [] } slot = default := by
  unfold getTube
  rw [Array.getElem?_replicate]
  split <;> rfl

/-- the state of `Filter` after the scan of `N` callbacks, the final `tubeEnd` and the flush -/
def runFilter (c : Cfg) (ts : Nat → List Nat) (N qlen : Nat) : St :=
  let l0 : Loop := { st := { tubes := Array.replicate c.cap default, hits := [] }, ticker := c.off + c.maxError }
  let l := scanN c ts l0 N
  let st := tubeEnd c l.st (qlen - 1)
  let r := flushRange c qlen
  flushLoop c ((r.2 + 1 - r.1).toNat) r.1 st

/-- Completeness of the repaired tube state machine for one match: if the shared k-mers of the
    match (`m ≥ threshold` of them, at query positions within `[lo, hi]`, `hi - lo ≤ maxKmerDist`,
    all on tube `i`) are among the common k-mers the scan processes, a hit on the diagonal of tube
    `i` whose query interval contains `[lo, hi + k)` is pushed. -/
theorem run_complete {c : Cfg} (w : WF c) (i lo hi m : Nat) (sh : Nat → Bool) (tstar : Nat → Nat)
    (ts : Nat → List Nat) (qlen : Nat)
    (hk2 : 2 ≤ c.k) (hkt : c.k ≤ c.tlen) (hq : c.k ≤ qlen) (hqe : c.maxError + 1 ≤ qlen)
    (hs : Shared sh lo hi m) (he : Events c i sh tstar ts)
    (hthr : (m : Int) ≥ c.minKmers) (hm1 : 1 ≤ m) (hD : (hi : Int) - lo ≤ c.maxKmerDist)
    (hband : i * c.off ≤ c.tlen + lo) (hhiq : hi ≤ tickPos c i) (hhi : hi + c.k ≤ qlen) :
    (runFilter c ts (qlen - c.k + 1) qlen).panic = false ∧
    Done c i lo hi (runFilter c ts (qlen - c.k + 1) qlen) := by
  have hoff := w.off_pos
  have hcap := w.cap_pos
  obtain ⟨hc1, hc2⟩ := w.cap_mul
  have hlohi : lo ≤ hi := (hs.range lo hs.first).2
  -- the scan
  have h0 : LInv c i lo hi m (tickPos c i)
      { st := { tubes := Array.replicate c.cap default, hits := [] }, ticker := c.off + c.maxError } 0 0 := by
    constructor
    · refine ⟨rfl, by simp, ?_, fun h => by omega, Or.inr (Nat.zero_le _)⟩
      intro h; rw [getTube_init] at h
      have : (default : Tube).count = 0 := rfl
      omega
    · refine ⟨0, ?_, Nat.zero_le _, fun j' hj' => by omega⟩
      show c.off + c.maxError = _
      unfold tickPos; omega
  have hscan := scan_inv w i lo hi m sh tstar ts _ hs he hthr hm1 hD hband hhiq h0 (qlen - c.k + 1)
  rw [hs.R_after _ (by omega)] at hscan
  unfold runFilter
  simp only []
  generalize scanN c ts _ (qlen - c.k + 1) = l at hscan
  have hm := hscan.minv
  -- after the scan
  have hf : FInv c i lo hi m l.st := by
    refine ⟨hm.nopanic, hm.size, ?_⟩
    rcases hm.run hm1 with hd | ⟨h1, h2, _, h4⟩
    · exact Or.inl hd
    · exact Or.inr ⟨h1, h2, h4 rfl⟩
  -- arithmetic of the end of the query
  have hJ1 : (flushFrom c qlen) * c.off ≤ qlen - c.k + 1 - c.maxError := Nat.div_mul_le_self _ _
  have hJ2 : qlen - c.k + 1 - c.maxError < flushFrom c qlen * c.off + c.off := by
    have := lt_succ_div_mul (qlen - c.k + 1 - c.maxError) c.off hoff
    rw [Nat.add_mul, Nat.one_mul] at this; exact this
  have hJcap : (flushFrom c qlen + c.cap) * c.off = flushFrom c qlen * c.off + c.cap * c.off := Nat.add_mul _ _ _
  have hiJ : ¬ Done c i lo hi l.st → flushFrom c qlen ≤ i := by
    intro hnd
    have hle : qlen - c.k + 1 ≤ tickPos c i := hm.late.resolve_left hnd
    unfold tickPos at hle
    have : flushFrom c qlen < i + 1 := by
      unfold flushFrom
      rw [Nat.div_lt_iff_lt_mul hoff]
      have : 1 ≤ (i + 1) * c.off := Nat.mul_pos (by omega) hoff
      omega
    omega
  have hiJcap : i < flushFrom c qlen + c.cap := by
    apply Classical.byContradiction; intro hn
    have := Nat.mul_le_mul_right c.off (show flushFrom c qlen + c.cap ≤ i by omega)
    omega
  -- the final tubeEnd
  have hr0 : tubeEndIndex c (qlen - 1) = (((qlen - 1 - c.maxError) / c.off : Nat) : Int) := by
    unfold tubeEndIndex
    simp only [w.rule, if_true]
    have hcast : ((c.tlen : Int) - ((c.tlen : Int) - 1) + (((qlen - 1 : Nat) : Int) - 1) - (c.maxError : Int))
        = ((qlen - 1 - c.maxError : Nat) : Int) := by omega
    rw [hcast]; rfl
  have hr0J : flushFrom c qlen ≤ (qlen - 1 - c.maxError) / c.off := by
    unfold flushFrom; exact Nat.div_le_div_right (by omega)
  have hr0cap : (qlen - 1 - c.maxError) / c.off < flushFrom c qlen + c.cap := by
    apply Classical.byContradiction; intro hn
    have h1 := Nat.mul_le_mul_right c.off (show flushFrom c qlen + c.cap ≤ (qlen - 1 - c.maxError) / c.off by omega)
    have h2 := Nat.div_mul_le_self (qlen - 1 - c.maxError) c.off
    omega
  have hf2 : FInv c i lo hi m (tubeEnd c l.st (qlen - 1)) := by
    unfold tubeEnd
    rw [hr0]
    apply retire_final w i lo hi m l.st _ hf hthr
    intro hnd hmod
    have := hiJ hnd
    exact near_eq hmod (by omega) (by omega)
  -- the flush
  rw [flushRange_eq w qlen hq (by omega)]
  simp only []
  have hn : ((flushTo c qlen : Int) + 1 - (flushFrom c qlen : Int)).toNat = flushTo c qlen + 1 - flushFrom c qlen := by omega
  rw [hn]
  have hiT : i ≤ flushTo c qlen := by
    unfold flushTo
    rw [Nat.le_div_iff_mul_le hoff]; omega
  have hx : Done c i lo hi (tubeEnd c l.st (qlen - 1)) ∨ flushFrom c qlen ≤ i := by
    by_cases hnd : Done c i lo hi l.st
    · left
      unfold tubeEnd; rw [hr0]
      exact Done_mono c i lo hi _ _ (retire_cases c l.st _ hf.size hcap).2.2.1 hnd
    · exact Or.inr (hiJ hnd)
  have hfin := flushLoop_done w i lo hi m (flushTo c qlen + 1 - flushFrom c qlen) (flushFrom c qlen) _ hf2 hthr hx
    (by omega) hiJcap
  exact ⟨hfin.1.nopanic, hfin.2⟩

end Biogo.Proofs.FilterRun
