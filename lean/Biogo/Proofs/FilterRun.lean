/-
Helper lemmas for C14: the tube state machine run against one ε-match.  A monitor invariant
(`MInv`) follows the slot of the match's tube through the scan: before the first shared k-mer
nothing is required; from then on either a covering hit has been pushed (`Done`) or the slot's
current run contains every shared k-mer seen so far.  Core-only.
-/
import Biogo.Model.Filter

set_option linter.unusedSimpArgs false

namespace Biogo.Proofs.FilterRun
open Biogo.Filter

/-! ### reading the tube array after an update -/

theorem getTube_set (s : St) (slot : Nat) (v : Tube) (slot' : Nat) :
    getTube { s with tubes := s.tubes.setIfInBounds slot v } slot' =
      if slot = slot' ∧ slot < s.tubes.size then v else getTube s slot' := by
  unfold getTube
  simp only [Array.getElem?_setIfInBounds]
  by_cases h : slot = slot'
  · subst h
    by_cases hlt : slot < s.tubes.size
    · simp [hlt]
    · simp [hlt]
  · simp [h]

/-- a covering hit for the match with tube `i`, first shared k-mer at `lo`, last at `hi` -/
def Done (c : Cfg) (i lo hi : Nat) (st : St) : Prop :=
  ∃ h ∈ st.hits, h.diagonal = (c.tlen : Int) - (i : Int) * c.off ∧ h.from_ ≤ (lo : Int) ∧ (hi : Int) + c.k ≤ h.to

theorem Done_mono (c : Cfg) (i lo hi : Nat) (st st' : St) (h : ∀ x ∈ st.hits, x ∈ st'.hits) :
    Done c i lo hi st → Done c i lo hi st' := by
  rintro ⟨x, hx, hd⟩; exact ⟨x, h x hx, hd⟩

theorem addHit_hits (c : Cfg) (s : St) (ti : Int) (a b : Nat) : ∀ x ∈ s.hits, x ∈ (addHit c s ti a b).hits := by
  intro x hx; simp [addHit, hx]

theorem addHit_tubes (c : Cfg) (s : St) (ti : Int) (a b : Nat) : (addHit c s ti a b).tubes = s.tubes := rfl
theorem addHit_panic (c : Cfg) (s : St) (ti : Int) (a b : Nat) : (addHit c s ti a b).panic = s.panic := rfl

theorem getTube_addHit (c : Cfg) (s : St) (ti : Int) (a b : Nat) (slot : Nat) :
    getTube (addHit c s ti a b) slot = getTube s slot := rfl

theorem addHit_done (c : Cfg) (i lo hi : Nat) (s : St) (a b : Nat) (ha : a ≤ lo) (hb : hi ≤ b) :
    Done c i lo hi (addHit c s (i : Int) a b) := by
  refine ⟨_, List.mem_cons_self, rfl, ?_, ?_⟩ <;> simp <;> omega

/-! ### the monitor invariant -/

/-- the slot of the match's tube -/
def tb (c : Cfg) (i : Nat) (st : St) : Tube := getTube st (i % c.cap)

/-- State of the scan relative to one match, while events at query position `p` are processed and
    `r` of the `m` shared k-mers of the match have been processed.  `qi` is the position of the
    tick that retires tube `i`. -/
structure MInv (c : Cfg) (i lo hi m qi : Nat) (st : St) (p r : Nat) : Prop where
  nopanic : st.panic = false
  size : st.tubes.size = c.cap
  wf : (getTube st (i % c.cap)).count > 0 →
    (getTube st (i % c.cap)).qLo ≤ (getTube st (i % c.cap)).qHi ∧ (getTube st (i % c.cap)).qHi ≤ p
  run : 1 ≤ r → Done c i lo hi st ∨
    (r ≤ (getTube st (i % c.cap)).count ∧ (getTube st (i % c.cap)).qLo ≤ lo ∧
      lo ≤ (getTube st (i % c.cap)).qHi ∧ (r = m → hi ≤ (getTube st (i % c.cap)).qHi))
  late : Done c i lo hi st ∨ p ≤ qi

/-- the three outcomes of `hitTube` on the addressed slot -/
theorem hitTube_cases (c : Cfg) (st : St) (ti q : Nat) (hsz : st.tubes.size = c.cap) (hcap : 0 < c.cap) :
    let t := getTube st (ti % c.cap)
    let st' := hitTube c st ti q
    st'.panic = st.panic ∧ st'.tubes.size = st.tubes.size ∧ (∀ x ∈ st.hits, x ∈ st'.hits) ∧
    (∀ slot, slot ≠ ti % c.cap → getTube st' slot = getTube st slot) ∧
    ((t.count = 0 ∧ getTube st' (ti % c.cap) = { qLo := q, qHi := q, count := 1 } ∧ st'.hits = st.hits) ∨
     (t.count ≠ 0 ∧ (q : Int) - t.qHi > c.maxKmerDist ∧
        getTube st' (ti % c.cap) = { qLo := q, qHi := q, count := 1 } ∧
        (((t.count : Int) ≥ c.minKmers ∧ st'.hits = (addHit c st ti t.qLo t.qHi).hits) ∨
         (¬ (t.count : Int) ≥ c.minKmers ∧ st'.hits = st.hits))) ∨
     (t.count ≠ 0 ∧ ¬ (q : Int) - t.qHi > c.maxKmerDist ∧
        getTube st' (ti % c.cap) = { t with count := t.count + 1, qHi := q } ∧ st'.hits = st.hits)) := by
  have hslot : ti % c.cap < st.tubes.size := by rw [hsz]; exact Nat.mod_lt _ hcap
  simp only []
  unfold hitTube
  simp only []
  by_cases h0 : (getTube st (ti % c.cap)).count = 0
  · rw [if_pos h0]
    refine ⟨rfl, by simp, fun x hx => hx, ?_, Or.inl ⟨h0, ?_, rfl⟩⟩
    · intro slot hne; rw [getTube_set, if_neg (fun h => hne h.1.symm)]
    · rw [getTube_set, if_pos ⟨rfl, hslot⟩]
  · rw [if_neg h0]
    by_cases hgap : (q : Int) - (getTube st (ti % c.cap)).qHi > c.maxKmerDist
    · rw [if_pos hgap]
      by_cases hthr : ((getTube st (ti % c.cap)).count : Int) ≥ c.minKmers
      · rw [if_pos hthr]
        refine ⟨rfl, by simp [addHit_tubes], fun x hx => addHit_hits c st _ _ _ x hx, ?_,
          Or.inr (Or.inl ⟨h0, hgap, ?_, Or.inl ⟨hthr, rfl⟩⟩)⟩
        · intro slot hne; rw [getTube_set, if_neg (fun h => hne h.1.symm)]; rfl
        · rw [getTube_set, if_pos ⟨rfl, by rw [addHit_tubes]; exact hslot⟩]
      · rw [if_neg hthr]
        refine ⟨rfl, by simp, fun x hx => hx, ?_, Or.inr (Or.inl ⟨h0, hgap, ?_, Or.inr ⟨hthr, rfl⟩⟩)⟩
        · intro slot hne; rw [getTube_set, if_neg (fun h => hne h.1.symm)]
        · rw [getTube_set, if_pos ⟨rfl, hslot⟩]
    · rw [if_neg hgap]
      refine ⟨rfl, by simp, fun x hx => hx, ?_, Or.inr (Or.inr ⟨h0, hgap, ?_, rfl⟩)⟩
      · intro slot hne; rw [getTube_set, if_neg (fun h => hne h.1.symm)]
      · rw [getTube_set, if_pos ⟨rfl, hslot⟩]

/-- a hit that is not (counted as) a shared k-mer of the match keeps the invariant -/
theorem hitTube_pres (c : Cfg) (i lo hi m qi : Nat) (st : St) (p r ti : Nat) (hcap : 0 < c.cap)
    (inv : MInv c i lo hi m qi st p r)
    (hthr : (m : Int) ≥ c.minKmers) (hD : (hi : Int) - lo ≤ c.maxKmerDist)
    (hrle : r ≤ m) (h1 : 1 ≤ r → lo ≤ p) (h2 : r < m → p ≤ hi) (h3 : r = m → hi ≤ p)
    (halias : r = m → ¬ Done c i lo hi st → ti % c.cap = i % c.cap → ti = i) :
    MInv c i lo hi m qi (hitTube c st ti p) p r := by
  obtain ⟨hpan, hsize, hhits, hframe, hcase⟩ := hitTube_cases c st ti p inv.size hcap
  by_cases hslot : ti % c.cap = i % c.cap
  · -- the event addresses the slot of the match
    have hdone : Done c i lo hi st → Done c i lo hi (hitTube c st ti p) := Done_mono c i lo hi _ _ hhits
    have hlate : Done c i lo hi (hitTube c st ti p) ∨ p ≤ qi := inv.late.imp hdone id
    rw [hslot] at hcase
    rcases hcase with ⟨h0, hnew, _⟩ | ⟨h0, hgap, hnew, hem⟩ | ⟨h0, hgap, hnew, _⟩
    · refine ⟨by rw [hpan]; exact inv.nopanic, by rw [hsize]; exact inv.size, ?_, ?_, hlate⟩
      · intro _; rw [hnew]; exact ⟨Nat.le_refl _, Nat.le_refl _⟩
      · intro hr
        rcases inv.run hr with hd | ⟨hc, _⟩
        · exact Or.inl (hdone hd)
        · omega
    · refine ⟨by rw [hpan]; exact inv.nopanic, by rw [hsize]; exact inv.size, ?_, ?_, hlate⟩
      · intro _; rw [hnew]; exact ⟨Nat.le_refl _, Nat.le_refl _⟩
      · intro hr
        by_cases hd : Done c i lo hi st
        · exact Or.inl (hdone hd)
        · rcases inv.run hr with hd' | ⟨hc, hqlo, hqhi, hlast⟩
          · exact absurd hd' hd
          · left
            by_cases hrm : r = m
            · -- all shared k-mers are in the run: it is emitted, under the match's own index
              have hti := halias hrm hd hslot
              have hhi := hlast hrm
              rcases hem with ⟨_, hh⟩ | ⟨hno, _⟩
              · obtain ⟨x, hx, hxd⟩ := addHit_done c i lo hi st _ _ hqlo hhi
                refine ⟨x, ?_, hxd⟩
                rw [hh, hti]; exact hx
              · omega
            · have := h2 (by omega); omega
    · refine ⟨by rw [hpan]; exact inv.nopanic, by rw [hsize]; exact inv.size, ?_, ?_, hlate⟩
      · intro _
        rw [hnew]
        have := inv.wf (by omega)
        simp only []; omega
      · intro hr
        rcases inv.run hr with hd | ⟨hc, hqlo, hqhi, hlast⟩
        · exact Or.inl (hdone hd)
        · right
          rw [hnew]
          simp only []
          exact ⟨by omega, hqlo, h1 hr, h3⟩
  · -- another slot
    have hsame : getTube (hitTube c st ti p) (i % c.cap) = getTube st (i % c.cap) := hframe _ (fun h => hslot h.symm)
    have hdone : Done c i lo hi st → Done c i lo hi (hitTube c st ti p) := Done_mono c i lo hi _ _ hhits
    refine ⟨by rw [hpan]; exact inv.nopanic, by rw [hsize]; exact inv.size, ?_, ?_, inv.late.imp hdone id⟩
    · rw [hsame]; exact inv.wf
    · intro hr; rw [hsame]; exact (inv.run hr).imp hdone id

/-- the hit of a shared k-mer of the match, in the match's own tube -/
theorem hitTube_shared (c : Cfg) (i lo hi m qi : Nat) (st : St) (p r : Nat) (hcap : 0 < c.cap)
    (inv : MInv c i lo hi m qi st p r)
    (hD : (hi : Int) - lo ≤ c.maxKmerDist)
    (hr : r < m) (h0 : r = 0 → p = lo) (hlast : r + 1 = m → p = hi) (hlo : lo ≤ p) (hhi : p ≤ hi) :
    MInv c i lo hi m qi (hitTube c st i p) p (r + 1) := by
  obtain ⟨hpan, hsize, hhits, hframe, hcase⟩ := hitTube_cases c st i p inv.size hcap
  have hdone : Done c i lo hi st → Done c i lo hi (hitTube c st i p) := Done_mono c i lo hi _ _ hhits
  have hlate : Done c i lo hi (hitTube c st i p) ∨ p ≤ qi := inv.late.imp hdone id
  rcases hcase with ⟨hc0, hnew, _⟩ | ⟨hc0, hgap, hnew, _⟩ | ⟨hc0, hgap, hnew, _⟩
  · refine ⟨by rw [hpan]; exact inv.nopanic, by rw [hsize]; exact inv.size, ?_, ?_, hlate⟩
    · intro _; rw [hnew]; exact ⟨Nat.le_refl _, Nat.le_refl _⟩
    · intro _
      by_cases hr0 : r = 0
      · right; rw [hnew]; simp only []
        exact ⟨by omega, by have := h0 hr0; omega, hlo, fun h => by have := hlast h; omega⟩
      · rcases inv.run (by omega) with hd | ⟨hc, _⟩
        · exact Or.inl (hdone hd)
        · omega
  · refine ⟨by rw [hpan]; exact inv.nopanic, by rw [hsize]; exact inv.size, ?_, ?_, hlate⟩
    · intro _; rw [hnew]; exact ⟨Nat.le_refl _, Nat.le_refl _⟩
    · intro _
      by_cases hr0 : r = 0
      · right; rw [hnew]; simp only []
        exact ⟨by omega, by have := h0 hr0; omega, hlo, fun h => by have := hlast h; omega⟩
      · rcases inv.run (by omega) with hd | ⟨hc, hqlo, hqhi, _⟩
        · exact Or.inl (hdone hd)
        · omega
  · refine ⟨by rw [hpan]; exact inv.nopanic, by rw [hsize]; exact inv.size, ?_, ?_, hlate⟩
    · intro _
      rw [hnew]
      have := inv.wf (by omega)
      simp only []; omega
    · intro _
      by_cases hr0 : r = 0
      · right; rw [hnew]; simp only []
        have hw := inv.wf (by omega)
        have := h0 hr0
        exact ⟨by omega, by omega, hlo, fun h => by have := hlast h; omega⟩
      · rcases inv.run (by omega) with hd | ⟨hc, hqlo, hqhi, _⟩
        · exact Or.inl (hdone hd)
        · right; rw [hnew]; simp only []
          exact ⟨by omega, hqlo, hlo, fun h => by have := hlast h; omega⟩

/-! ### the configuration of the repaired filter, and the arithmetic of aliases -/

/-- the filter parameters of the property, for the repaired retirement rule -/
structure WF (c : Cfg) : Prop where
  off_pos : 1 ≤ c.off
  err_le : c.maxError ≤ c.off
  cap_eq : c.cap = (c.tlen + (c.off + c.maxError) - 1) / c.off + 1
  rule : c.rule = { retireSubMaxError := true, flushFromLastTick := true }
  compl : c.complement = false

theorem WF.cap_pos {c : Cfg} (w : WF c) : 0 < c.cap := by rw [w.cap_eq]; exact Nat.succ_pos _

/-- `(cap-1)·off ≥ Tlen + e` and `cap·off ≥ Tlen + off + e` -/
theorem WF.cap_mul {c : Cfg} (w : WF c) :
    c.tlen + c.maxError ≤ (c.cap - 1) * c.off ∧ c.tlen + c.off + c.maxError ≤ c.cap * c.off := by
  have h1 := Nat.div_add_mod (c.tlen + (c.off + c.maxError) - 1) c.off
  have h2 := Nat.mod_lt (c.tlen + (c.off + c.maxError) - 1) w.off_pos
  have h0 := w.cap_eq
  generalize (c.tlen + (c.off + c.maxError) - 1) / c.off = D at h0 h1
  generalize (c.tlen + (c.off + c.maxError) - 1) % c.off = M at h1 h2
  have h3 : c.cap - 1 = D := by omega
  have h4 : c.cap * c.off = D * c.off + c.off := by
    rw [h0, Nat.succ_mul]
  rw [h4, h3, Nat.mul_comm D]
  have := w.off_pos
  omega

theorem mod_eq_far {a b n : Nat} (h : a % n = b % n) (hne : a ≠ b) : a + n ≤ b ∨ b + n ≤ a := by
  rcases Nat.lt_or_gt_of_ne hne with hlt | hgt
  · left
    have h0 : (b - a) % n = 0 := Nat.sub_mod_eq_zero_of_mod_eq h.symm
    have hd : n ∣ b - a := Nat.dvd_of_mod_eq_zero h0
    have := Nat.le_of_dvd (by omega) hd
    omega
  · right
    have h0 : (a - b) % n = 0 := Nat.sub_mod_eq_zero_of_mod_eq h
    have hd : n ∣ a - b := Nat.dvd_of_mod_eq_zero h0
    have := Nat.le_of_dvd (by omega) hd
    omega

/-- While the run of the match is complete and its tube not yet retired (`hi ≤ p ≤ qi`), a tube
    index `x` whose band `[x·off, (x+1)·off + e)` contains the diagonal index `d'` of a k-mer at
    query position `p` and that shares the slot of tube `i` is `i` itself. -/
theorem alias_excl {c : Cfg} (w : WF c) (i lo hi p d' x : Nat)
    (hband : i * c.off ≤ c.tlen + lo) (hlohi : lo ≤ hi) (hp : hi ≤ p)
    (hq : p ≤ (i + 1) * c.off + c.maxError - 1)
    (hd1 : p + 1 ≤ d') (hd2 : d' ≤ c.tlen + p)
    (hx1 : x * c.off ≤ d') (hx2 : d' < (x + 1) * c.off + c.maxError)
    (hmod : x % c.cap = i % c.cap) : x = i := by
  apply Classical.byContradiction
  intro hne
  obtain ⟨hc1, hc2⟩ := w.cap_mul
  have hoff := w.off_pos
  rcases mod_eq_far hmod hne with h | h
  · -- x + cap ≤ i : the band of x ended before the match began
    have h1 : (x + c.cap) * c.off ≤ i * c.off := Nat.mul_le_mul_right _ h
    have h2 : (x + c.cap) * c.off = (x + 1) * c.off + (c.cap - 1) * c.off := by
      rw [← Nat.add_mul]; congr 1; have := w.cap_pos; omega
    omega
  · -- i + cap ≤ x : the band of x begins after tube i is retired
    have h1 : (i + c.cap) * c.off ≤ x * c.off := Nat.mul_le_mul_right _ h
    rw [Nat.add_mul] at h1
    rw [Nat.add_mul, Nat.one_mul] at hq
    omega

/-- the wrap-around of the previous-tube hit (`tubeIndex = 0 → cap-1`) never reaches the slot of the
    match while its run is complete -/
theorem wrap_excl {c : Cfg} (w : WF c) (i lo hi p d' : Nat)
    (hband : i * c.off ≤ c.tlen + lo) (hlohi : lo ≤ hi) (hp : hi ≤ p)
    (hd1 : p + 1 ≤ d') (hd3 : d' < c.maxError)
    (hmod : (c.cap - 1) % c.cap = i % c.cap) : False := by
  obtain ⟨hc1, _⟩ := w.cap_mul
  have hcap := w.cap_pos
  have h1 : (c.cap - 1) % c.cap = c.cap - 1 := Nat.mod_eq_of_lt (by omega)
  have h2 : i % c.cap ≤ i := Nat.mod_le _ _
  have h3 : (c.cap - 1) * c.off ≤ i * c.off := Nat.mul_le_mul_right _ (by omega)
  omega

/-- both tube indices a common k-mer at query position `p` can address are the match's own index
    if they share its slot (while `hi ≤ p ≤ qi`) -/
theorem event_alias {c : Cfg} (w : WF c) (i lo hi p t : Nat) (ht : t < c.tlen)
    (hband : i * c.off ≤ c.tlen + lo) (hlohi : lo ≤ hi) (hp : hi ≤ p)
    (hq : p ≤ (i + 1) * c.off + c.maxError - 1) :
    (tubeIndex c (diagIndex c t p) % c.cap = i % c.cap → tubeIndex c (diagIndex c t p) = i) ∧
    (diagIndex c t p % c.off < c.maxError →
      (if tubeIndex c (diagIndex c t p) = 0 then c.cap - 1 else tubeIndex c (diagIndex c t p) - 1) % c.cap = i % c.cap →
      (if tubeIndex c (diagIndex c t p) = 0 then c.cap - 1 else tubeIndex c (diagIndex c t p) - 1) = i) := by
  have hoff := w.off_pos
  have hd1 : p + 1 ≤ diagIndex c t p := by unfold diagIndex; omega
  have hd2 : diagIndex c t p ≤ c.tlen + p := by unfold diagIndex; omega
  have hdm := Nat.div_add_mod (diagIndex c t p) c.off
  have hml := Nat.mod_lt (diagIndex c t p) hoff
  unfold tubeIndex
  generalize diagIndex c t p = d at *
  generalize hD : d / c.off = ti at *
  generalize hM : d % c.off = dm at *
  rw [Nat.mul_comm] at hdm
  constructor
  · intro hmod
    exact alias_excl w i lo hi p d ti hband hlohi hp hq hd1 hd2 (by omega)
      (by rw [Nat.add_mul, Nat.one_mul]; omega) hmod
  · intro hprev hmod
    by_cases h0 : ti = 0
    · rw [if_pos h0] at hmod ⊢
      exfalso
      subst h0
      exact wrap_excl w i lo hi p d hband hlohi hp hd1 (by omega) hmod
    · rw [if_neg h0] at hmod ⊢
      have hti : (ti - 1 + 1) * c.off = ti * c.off := by congr 1; omega
      have hti' : (ti - 1) * c.off + c.off = ti * c.off := by rw [← Nat.succ_mul]; congr 1 <;> omega
      exact alias_excl w i lo hi p d (ti - 1) hband hlohi hp hq hd1 hd2 (by omega) (by rw [hti]; omega) hmod

/-- a common k-mer that is not counted as a shared k-mer of the match keeps the invariant -/
theorem commonKmer_pres {c : Cfg} (w : WF c) (i lo hi m qi : Nat) (st : St) (p r t : Nat) (ht : t < c.tlen)
    (inv : MInv c i lo hi m qi st p r)
    (hthr : (m : Int) ≥ c.minKmers) (hD : (hi : Int) - lo ≤ c.maxKmerDist)
    (hband : i * c.off ≤ c.tlen + lo) (hlohi : lo ≤ hi) (hqi : qi = (i + 1) * c.off + c.maxError - 1)
    (hrle : r ≤ m) (h1 : 1 ≤ r → lo ≤ p) (h2 : r < m → p ≤ hi) (h3 : r = m → hi ≤ p) :
    MInv c i lo hi m qi (commonKmer c st t p) p r := by
  unfold commonKmer
  by_cases hcut : selfCut c t p = true
  · rw [if_pos hcut]; exact inv
  · rw [if_neg hcut]
    simp only []
    have hcap := w.cap_pos
    have inv1 : MInv c i lo hi m qi (hitTube c st (tubeIndex c (diagIndex c t p)) p) p r := by
      apply hitTube_pres c i lo hi m qi st p r _ hcap inv hthr hD hrle h1 h2 h3
      intro hrm hnd hmod
      have hpq : p ≤ qi := inv.late.resolve_left hnd
      exact (event_alias w i lo hi p t ht hband hlohi (h3 hrm) (by omega)).1 hmod
    by_cases hprev : diagIndex c t p % c.off < c.maxError
    · rw [if_pos hprev]
      apply hitTube_pres c i lo hi m qi _ p r _ hcap inv1 hthr hD hrle h1 h2 h3
      intro hrm hnd hmod
      have hpq : p ≤ qi := inv1.late.resolve_left hnd
      exact (event_alias w i lo hi p t ht hband hlohi (h3 hrm) (by omega)).2 hprev hmod
    · rw [if_neg hprev]; exact inv1

/-- the common k-mer that is a shared k-mer of the match advances the invariant -/
theorem commonKmer_shared {c : Cfg} (w : WF c) (i lo hi m qi : Nat) (st : St) (p r t : Nat) (ht : t < c.tlen)
    (inv : MInv c i lo hi m qi st p r)
    (hthr : (m : Int) ≥ c.minKmers) (hD : (hi : Int) - lo ≤ c.maxKmerDist)
    (hband : i * c.off ≤ c.tlen + lo) (hlohi : lo ≤ hi) (hqi : qi = (i + 1) * c.off + c.maxError - 1)
    (hcut : selfCut c t p = false) (hti : tubeIndex c (diagIndex c t p) = i)
    (hr : r < m) (h0 : r = 0 → p = lo) (hlast : r + 1 = m → p = hi) (hlo : lo ≤ p) (hhi : p ≤ hi) :
    MInv c i lo hi m qi (commonKmer c st t p) p (r + 1) := by
  unfold commonKmer
  rw [if_neg (by rw [hcut]; simp)]
  simp only []
  have hcap := w.cap_pos
  rw [hti]
  have inv1 := hitTube_shared c i lo hi m qi st p r hcap inv hD hr h0 hlast hlo hhi
  by_cases hprev : diagIndex c t p % c.off < c.maxError
  · rw [if_pos hprev]
    apply hitTube_pres c i lo hi m qi _ p (r + 1) _ hcap inv1 hthr hD (by omega) (fun _ => hlo)
      (fun _ => hhi) (fun h => by have := hlast h; omega)
    intro hrm hnd hmod
    have hpq : p ≤ qi := inv1.late.resolve_left hnd
    have := (event_alias w i lo hi p t ht hband hlohi (by have := hlast hrm; omega) (by omega)).2 hprev
    rw [hti] at this
    exact this hmod
  · rw [if_neg hprev]; exact inv1

end Biogo.Proofs.FilterRun
