/-
Invariants of the repaired Processor protocol (`Biogo.Processor.sys c` with `c.fixed = true`),
for any number of workers, any buffer sizes, any list of operations and every schedule.
-/
import Biogo.Model.Processor

namespace Biogo.Processor
open Biogo.LTS

/-- number of workers that have left their loop (kept opaque for `simp`) -/
def nEx (ws : List WPc) : Nat := ws.countP WPc.exiting

def WPc.isSendErr : WPc → Bool
  | .sendErr _ => true
  | _ => false

/-- number of workers that recovered from a panicking operation and still hold the error result -/
def nErr (ws : List WPc) : Nat := ws.countP WPc.isSendErr

structure Inv (c : Cfg) (s : St) : Prop where
  len : s.ws.length = c.threads
  nocrash : s.crashed = none
  exited_eq : s.exited = s.ws.countP WPc.isDone
  wg_eq : s.wgDone = s.exited
  closes_eq : s.closes = if s.exited = c.threads then 1 else 0
  tokens : s.work + s.ws.countP WPc.holds = c.threads
  counts : ∀ x, (results s).count x = (s.taken.map eval).count x
  order : s.taken ++ s.inq ++ s.todo = c.ops
  closedTodo : s.inClosed = true → s.todo = []
  rw_coh : s.recvWaiting = true → s.cpc = .receiving ∧ s.handoff = none
  ho_coh : s.handoff.isSome = true → s.cpc = .receiving
  recv_coh : s.cpc = .receiving → s.recvWaiting = true ∨ s.handoff.isSome = true
  recv_empty : s.recvWaiting = true → s.outq = []
  seen_coh : s.cpc = .closedSeen → s.outq = [] ∧ s.handoff = none ∧ s.closes = 1
  exit_why : 0 < nEx s.ws →
    s.stop = true ∨ (s.inClosed = true ∧ s.inq = []) ∨ s.taken.any Op.isPan = true
  err_why : 0 < nErr s.ws → s.taken.any Op.isPan = true

theorem countP_replicate_false {α : Type} (p : α → Bool) (a : α) (n : Nat) (h : p a = false) :
    (List.replicate n a).countP p = 0 := by
  induction n with
  | zero => rfl
  | succ n ih => simp [List.replicate_succ, ih, h]

theorem filterMap_replicate_none {α β : Type} (f : α → Option β) (a : α) (n : Nat) (h : f a = none) :
    (List.replicate n a).filterMap f = [] := by
  induction n with
  | zero => rfl
  | succ n ih => simp [List.replicate_succ, ih, h]

theorem inv_init (c : Cfg) (ht : 0 < c.threads) : Inv c (init c) := by
  have h1 := countP_replicate_false WPc.isDone WPc.idle c.threads rfl
  have h2 := countP_replicate_false WPc.holds WPc.idle c.threads rfl
  have h3 := countP_replicate_false WPc.exiting WPc.idle c.threads rfl
  have h4 := filterMap_replicate_none heldOf WPc.idle c.threads rfl
  have h5 := countP_replicate_false WPc.isSendErr WPc.idle c.threads rfl
  have hne : ¬ (0 = c.threads) := by omega
  constructor <;> simp [init, results, held, h1, h2, h3, h4, h5, hne, nEx, nErr]

/-- bookkeeping facts for replacing worker `i`'s pc `a` by `b` -/
theorem set_facts (ws : List WPc) (i : Nat) (a b : WPc) (h : ws[i]? = some a) :
    ((ws.set i b).countP WPc.isDone + (if a.isDone then 1 else 0) = ws.countP WPc.isDone + (if b.isDone then 1 else 0)) ∧
    ((ws.set i b).countP WPc.holds + (if a.holds then 1 else 0) = ws.countP WPc.holds + (if b.holds then 1 else 0)) ∧
    (nEx (ws.set i b) + (if a.exiting then 1 else 0) = nEx ws + (if b.exiting then 1 else 0)) ∧
    (nErr (ws.set i b) + (if a.isSendErr then 1 else 0) = nErr ws + (if b.isSendErr then 1 else 0)) ∧
    (∀ x, (heldOf a).toList.count x + ((ws.set i b).filterMap heldOf).count x
          = (heldOf b).toList.count x + (ws.filterMap heldOf).count x) :=
  ⟨countP_set _ ws i a b h, countP_set _ ws i a b h, countP_set _ ws i a b h, countP_set _ ws i a b h,
   count_filterMap_set heldOf ws i a b h⟩

theorem closes_zero_of_active {c : Cfg} {s : St} (hI : Inv c s) {i : Nat} {pc : WPc}
    (hget : s.ws[i]? = some pc) (hpc : pc.isDone = false) : s.closes = 0 ∧ s.exited < c.threads := by
  have h1 := countP_lt_length_of WPc.isDone s.ws i pc hget hpc
  have h2 := hI.len
  have h3 := hI.exited_eq
  have h4 := hI.closes_eq
  have : s.exited ≠ c.threads := by omega
  simp [this] at h4
  exact ⟨h4, by omega⟩

macro "close_inv" h7:ident : tactic =>
  `(tactic| (constructor <;> simp_all [results, held] <;>
      first | done | omega | (intro x; have := $h7 x; omega) | grind | skip))

macro "facts" ws:term "," i:term "," b:term "," hget:term : tactic =>
  `(tactic| (obtain ⟨hD, hH, hE, hR, hP⟩ := set_facts $ws $i _ $b $hget
             simp [WPc.isDone, WPc.holds, WPc.exiting, WPc.isSendErr, heldOf] at hD hH hE hR hP))

variable {c : Cfg} {s s' : St} {i : Nat}

theorem inv_w_idle (hI : Inv c s) (hget : s.ws[i]? = some .idle)
    (h : workerStep c s i = some s') : Inv c s' := by
  simp only [workerStep, hget] at h
  split at h
  · cases h
    facts s.ws, i, WPc.recv, hget
    obtain ⟨h1, h2, h3, h4, h5, h6, h7, h8, h9, h10, h11, h12, h13, h14, h15, h16⟩ := hI
    close_inv h7
  · cases h

theorem inv_w_recv (hI : Inv c s) (hget : s.ws[i]? = some .recv)
    (h : workerStep c s i = some s') : Inv c s' := by
  simp only [workerStep, hget] at h
  split at h
  · rename_i op rest hinq
    cases h
    cases hp : op.isPan
    · facts s.ws, i, (WPc.send (eval op)), hget
      obtain ⟨h1, h2, h3, h4, h5, h6, h7, h8, h9, h10, h11, h12, h13, h14, h15, h16⟩ := hI
      close_inv h7
    · facts s.ws, i, (WPc.sendErr (eval op)), hget
      obtain ⟨h1, h2, h3, h4, h5, h6, h7, h8, h9, h10, h11, h12, h13, h14, h15, h16⟩ := hI
      close_inv h7
  · split at h
    · cases h
      facts s.ws, i, WPc.tokret, hget
      obtain ⟨h1, h2, h3, h4, h5, h6, h7, h8, h9, h10, h11, h12, h13, h14, h15, h16⟩ := hI
      close_inv h7
    · cases h

theorem inv_w_send {r : Res} (hI : Inv c s) (hget : s.ws[i]? = some (.send r))
    (h : workerStep c s i = some s') : Inv c s' := by
  simp only [workerStep, hget] at h
  have hnc := hI.nocrash
  have ⟨hc0, hex⟩ := closes_zero_of_active hI hget (pc := .send r) rfl
  have hgt : ¬ (s.closes > 0) := by omega
  cases hrw : s.recvWaiting <;> cases hst : s.stop <;>
    by_cases hroom : s.outq.length < c.outCap <;>
    simp [sendOut, hgt, hrw, hroom, hnc, hst] at h
  all_goals subst h
  all_goals first
    | (facts s.ws, i, WPc.recv, hget
       obtain ⟨h1, h2, h3, h4, h5, h6, h7, h8, h9, h10, h11, h12, h13, h14, h15, h16⟩ := hI
       close_inv h7
       done)
    | (facts s.ws, i, WPc.tokret, hget
       obtain ⟨h1, h2, h3, h4, h5, h6, h7, h8, h9, h10, h11, h12, h13, h14, h15, h16⟩ := hI
       close_inv h7)

theorem inv_w_sendErr {r : Res} (hI : Inv c s) (hget : s.ws[i]? = some (.sendErr r))
    (h : workerStep c s i = some s') : Inv c s' := by
  simp only [workerStep, hget] at h
  have hnc := hI.nocrash
  have ⟨hc0, hex⟩ := closes_zero_of_active hI hget (pc := .sendErr r) rfl
  have hgt : ¬ (s.closes > 0) := by omega
  have hpan := hI.err_why (countP_pos_of WPc.isSendErr s.ws i _ hget rfl)
  cases hrw : s.recvWaiting <;>
    by_cases hroom : s.outq.length < c.outCap <;>
    simp [sendOut, hgt, hrw, hroom, hnc] at h
  all_goals subst h
  all_goals
    (facts s.ws, i, WPc.tokret, hget
     obtain ⟨h1, h2, h3, h4, h5, h6, h7, h8, h9, h10, h11, h12, h13, h14, h15, h16⟩ := hI
     close_inv h7)

theorem inv_w_tokret (hfix : c.fixed = true) (hI : Inv c s) (hget : s.ws[i]? = some .tokret)
    (h : workerStep c s i = some s') : Inv c s' := by
  simp only [workerStep, hget] at h
  have ⟨hc0, hex⟩ := closes_zero_of_active hI hget (pc := .tokret) rfl
  have hgt : ¬ (s.closes > 0) := by omega
  cases h
  facts s.ws, i, WPc.done, hget
  have hpos := countP_pos_of WPc.exiting s.ws i _ hget rfl
  have hwhy := hI.exit_why hpos
  obtain ⟨h1, h2, h3, h4, h5, h6, h7, h8, h9, h10, h11, h12, h13, h14, h15, h16⟩ := hI
  by_cases hlast : s.exited + 1 = c.threads <;> simp [exitBlock, hfix, hlast, hgt]
  all_goals close_inv h7

theorem inv_producer (hI : Inv c s) (h : producerStep c s = some s') : Inv c s' := by
  simp only [producerStep] at h
  obtain ⟨h1, h2, h3, h4, h5, h6, h7, h8, h9, h10, h11, h12, h13, h14, h15, h16⟩ := hI
  split at h
  · rename_i op rest htodo
    split at h
    · cases h
    · split at h
      · cases h
        close_inv h7
      · cases h
  · rename_i htodo
    split at h
    · cases h
      close_inv h7
    · cases h

theorem inv_collector (hI : Inv c s) (h : collectorStep s = some s') : Inv c s' := by
  simp only [collectorStep] at h
  obtain ⟨h1, h2, h3, h4, h5, h6, h7, h8, h9, h10, h11, h12, h13, h14, h15, h16⟩ := hI
  split at h
  · split at h
    · cases h
      close_inv h7
    · split at h
      · cases h
        close_inv h7
      · cases h
        close_inv h7
  · split at h
    · cases h
      close_inv h7
    · split at h
      · cases h
        close_inv h7
      · cases h
  · cases h

theorem inv_step (hfix : c.fixed = true) {a : Actor}
    (hI : Inv c s) (h : step c s a = some s') : Inv c s' := by
  have hnc := hI.nocrash
  simp only [step, hnc, Option.isSome_none, Bool.false_eq_true, if_false] at h
  cases a with
  | worker i =>
    simp only at h
    cases hget : s.ws[i]? with
    | none => simp [workerStep, hget] at h
    | some pc =>
      cases pc with
      | idle => exact inv_w_idle hI hget h
      | recv => exact inv_w_recv hI hget h
      | send r => exact inv_w_send hI hget h
      | sendErr r => exact inv_w_sendErr hI hget h
      | tokret => exact inv_w_tokret hfix hI hget h
      | done => simp [workerStep, hget] at h
  | producer => exact inv_producer hI h
  | collector => exact inv_collector hI h
  | stopper =>
    simp only at h
    obtain ⟨h1, h2, h3, h4, h5, h6, h7, h8, h9, h10, h11, h12, h13, h14, h15, h16⟩ := hI
    split at h
    · cases h
    · cases h
      close_inv h7
  | waiter =>
    simp only at h
    obtain ⟨h1, h2, h3, h4, h5, h6, h7, h8, h9, h10, h11, h12, h13, h14, h15, h16⟩ := hI
    split at h
    · cases h
      close_inv h7
    · cases h

/-- the invariant holds in every reachable state of the repaired protocol -/
theorem inv_reach (hfix : c.fixed = true) (ht : 0 < c.threads) :
    ∀ s, Reach (sys c) s → Inv c s :=
  inv_induction (S := sys c) (Inv c) (inv_init c ht) (fun _ _ _ hI h => inv_step hfix hI h)

end Biogo.Processor
