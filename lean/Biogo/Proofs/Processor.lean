/-
Invariants of the repaired Processor protocol (`Biogo.Processor.sys c` with `c.fixed = true`),
for any number of workers, any buffer sizes, any list of operations and every schedule.
-/
import Biogo.Model.Processor

namespace Biogo.Processor
open Biogo.LTS

/-- number of workers that have left their loop (kept opaque for `simp`) -/
def nEx (ws : List WPc) : Nat := ws.countP WPc.exiting

def WPc.isSendErr : WPc → Bool
  | .sendErr _ => true
  | _ => false

/-- number of workers that recovered from a panicking operation and still hold the error result -/
def nErr (ws : List WPc) : Nat := ws.countP WPc.isSendErr

structure Inv (c : Cfg) (s : St) : Prop where
  len : s.ws.length = c.threads
  nocrash : s.crashed = none
  exited_eq : s.exited = s.ws.countP WPc.isDone
  wg_eq : s.wgDone = s.exited
  closes_eq : s.closes = if s.exited = c.threads then 1 else 0
  tokens : s.work + s.ws.countP WPc.holds = c.threads
  counts : ∀ x, (results s).count x = (s.taken.map eval).count x
  order : s.taken ++ s.inq ++ s.todo = c.ops
  closedTodo : s.inClosed = true → s.todo = []
  rw_coh : s.recvWaiting = true → s.cpc = .receiving ∧ s.handoff = none
  ho_coh : s.handoff.isSome = true → s.cpc = .receiving
  recv_coh : s.cpc = .receiving → s.recvWaiting = true ∨ s.handoff.isSome = true
  recv_empty : s.recvWaiting = true → s.outq = []
  seen_coh : s.cpc = .closedSeen → s.outq = [] ∧ s.handoff = none ∧ s.closes = 1
  exit_why : 0 < nEx s.ws →
    s.stop = true ∨ (s.inClosed = true ∧ s.inq = []) ∨ s.taken.any Op.isPan = true
  err_why : 0 < nErr s.ws → s.taken.any Op.isPan = true

theorem countP_replicate_false {α : Type} (p : α → Bool) (a : α) (n : Nat) (h : p a = false) :
    (List.replicate n a).countP p = 0 := by
  induction n with
  | zero => rfl
  | succ n ih => simp [List.replicate_succ, ih, h]

theorem filterMap_replicate_none {α β : Type} (f : α → Option β) (a : α) (n : Nat) (h : f a = none) :
    (List.replicate n a).filterMap f = [] := by
  induction n with
  | zero => rfl
  | succ n ih => simp [List.replicate_succ, ih, h]

theorem inv_init (c : Cfg) (ht : 0 < c.threads) : Inv c (init c) := by
  have h1 := countP_replicate_false WPc.isDone WPc.idle c.threads rfl
  have h2 := countP_replicate_false WPc.holds WPc.idle c.threads rfl
  have h3 := countP_replicate_false WPc.exiting WPc.idle c.threads rfl
  have h4 := filterMap_replicate_none heldOf WPc.idle c.threads rfl
  have h5 := countP_replicate_false WPc.isSendErr WPc.idle c.threads rfl
  have hne : ¬ (0 = c.threads) := by omega
  constructor <;> simp [init, results, held, h1, h2, h3, h4, h5, hne, nEx, nErr]

/-- bookkeeping facts for replacing worker `i`'s pc `a` by `b` -/
theorem set_facts (ws : List WPc) (i : Nat) (a b : WPc) (h : ws[i]? = some a) :
    ((ws.set i b).countP WPc.isDone + (if a.isDone then 1 else 0) = ws.countP WPc.isDone + (if b.isDone then 1 else 0)) ∧
    ((ws.set i b).countP WPc.holds + (if a.holds then 1 else 0) = ws.countP WPc.holds + (if b.holds then 1 else 0)) ∧
    (nEx (ws.set i b) + (if a.exiting then 1 else 0) = nEx ws + (if b.exiting then 1 else 0)) ∧
    (nErr (ws.set i b) + (if a.isSendErr then 1 else 0) = nErr ws + (if b.isSendErr then 1 else 0)) ∧
    (∀ x, (heldOf a).toList.count x + ((ws.set i b).filterMap heldOf).count x
          = (heldOf b).toList.count x + (ws.filterMap heldOf).count x) :=
  ⟨countP_set _ ws i a b h, countP_set _ ws i a b h, countP_set _ ws i a b h, countP_set _ ws i a b h,
   count_filterMap_set heldOf ws i a b h⟩

theorem closes_zero_of_active {c : Cfg} {s : St} (hI : Inv c s) {i : Nat} {pc : WPc}
    (hget : s.ws[i]? = some pc) (hpc : pc.isDone = false) : s.closes = 0 ∧ s.exited < c.threads := by
  have h1 := countP_lt_length_of WPc.isDone s.ws i pc hget hpc
  have h2 := hI.len
  have h3 := hI.exited_eq
  have h4 := hI.closes_eq
  have : s.exited ≠ c.threads := by omega
  simp [this] at h4
  exact ⟨h4, by omega⟩

macro "close_inv" h7:ident : tactic =>
  `(tactic| (constructor <;> simp_all [results, held] <;>
      first | done | omega | (intro x; have := $h7 x; omega) | grind | skip))

macro "facts" ws:term "," i:term "," b:term "," hget:term : tactic =>
  `(tactic| (obtain ⟨hD, hH, hE, hR, hP⟩ := set_facts $ws $i _ $b $hget
             simp [WPc.isDone, WPc.holds, WPc.exiting, WPc.isSendErr, heldOf] at hD hH hE hR hP))

variable {c : Cfg} {s s' : St} {i : Nat}

theorem inv_w_idle (hI : Inv c s) (hget : s.ws[i]? = some .idle)
    (h : workerStep c s i = some s') : Inv c s' := by
  simp only [workerStep, hget] at h
  split at h
  · cases h
    facts s.ws, i, WPc.recv, hget
    obtain ⟨h1, h2, h3, h4, h5, h6, h7, h8, h9, h10, h11, h12, h13, h14, h15, h16⟩ := hI
    close_inv h7
  · cases h

theorem inv_w_recv (hI : Inv c s) (hget : s.ws[i]? = some .recv)
    (h : workerStep c s i = some s') : Inv c s' := by
  simp only [workerStep, hget] at h
  split at h
  · rename_i op rest hinq
    cases h
    cases hp : op.isPan
    · facts s.ws, i, (WPc.send (eval op)), hget
      obtain ⟨h1, h2, h3, h4, h5, h6, h7, h8, h9, h10, h11, h12, h13, h14, h15, h16⟩ := hI
      close_inv h7
    · facts s.ws, i, (WPc.sendErr (eval op)), hget
      obtain ⟨h1, h2, h3, h4, h5, h6, h7, h8, h9, h10, h11, h12, h13, h14, h15, h16⟩ := hI
      close_inv h7
  · split at h
    · cases h
      facts s.ws, i, WPc.tokret, hget
      obtain ⟨h1, h2, h3, h4, h5, h6, h7, h8, h9, h10, h11, h12, h13, h14, h15, h16⟩ := hI
      close_inv h7
    · cases h

theorem inv_w_send {r : Res} (hI : Inv c s) (hget : s.ws[i]? = some (.send r))
    (h : workerStep c s i = some s') : Inv c s' := by
  simp only [workerStep, hget] at h
  have hnc := hI.nocrash
  have ⟨hc0, hex⟩ := closes_zero_of_active hI hget (pc := .send r) rfl
  have hgt : ¬ (s.closes > 0) := by omega
  cases hrw : s.recvWaiting <;> cases hst : s.stop <;>
    by_cases hroom : s.outq.length < c.outCap <;>
    simp [sendOut, hgt, hrw, hroom, hnc, hst] at h
  all_goals subst h
  all_goals first
    | (facts s.ws, i, WPc.recv, hget
       obtain ⟨h1, h2, h3, h4, h5, h6, h7, h8, h9, h10, h11, h12, h13, h14, h15, h16⟩ := hI
       close_inv h7
       done)
    | (facts s.ws, i, WPc.tokret, hget
       obtain ⟨h1, h2, h3, h4, h5, h6, h7, h8, h9, h10, h11, h12, h13, h14, h15, h16⟩ := hI
       close_inv h7)

theorem inv_w_sendErr {r : Res} (hI : Inv c s) (hget : s.ws[i]? = some (.sendErr r))
    (h : workerStep c s i = some s') : Inv c s' := by
  simp only [workerStep, hget] at h
  have hnc := hI.nocrash
  have ⟨hc0, hex⟩ := closes_zero_of_active hI hget (pc := .sendErr r) rfl
  have hgt : ¬ (s.closes > 0) := by omega
  have hpan := hI.err_why (countP_pos_of WPc.isSendErr s.ws i _ hget rfl)
  cases hrw : s.recvWaiting <;>
    by_cases hroom : s.outq.length < c.outCap <;>
    simp [sendOut, hgt, hrw, hroom, hnc] at h
  all_goals subst h
  all_goals
    (facts s.ws, i, WPc.tokret, hget
     obtain ⟨h1, h2, h3, h4, h5, h6, h7, h8, h9, h10, h11, h12, h13, h14, h15, h16⟩ := hI
     close_inv h7)

theorem inv_w_tokret (hfix : c.fixed = true) (hI : Inv c s) (hget : s.ws[i]? = some .tokret)
    (h : workerStep c s i = some s') : Inv c s' := by
  simp only [workerStep, hget] at h
  have ⟨hc0, hex⟩ := closes_zero_of_active hI hget (pc := .tokret) rfl
  have hgt : ¬ (s.closes > 0) := by omega
  cases h
  facts s.ws, i, WPc.done, hget
  have hpos := countP_pos_of WPc.exiting s.ws i _ hget rfl
  have hwhy := hI.exit_why hpos
  obtain ⟨h1, h2, h3, h4, h5, h6, h7, h8, h9, h10, h11, h12, h13, h14, h15, h16⟩ := hI
  by_cases hlast : s.exited + 1 = c.threads <;> simp [exitBlock, hfix, hlast, hgt]
  all_goals close_inv h7

theorem inv_producer (hI : Inv c s) (h : producerStep c s = some s') : Inv c s' := by
  simp only [producerStep] at h
  obtain ⟨h1, h2, h3, h4, h5, h6, h7, h8, h9, h10, h11, h12, h13, h14, h15, h16⟩ := hI
  split at h
  · rename_i op rest htodo
    split at h
    · cases h
    · split at h
      · cases h
        close_inv h7
      · cases h
  · rename_i htodo
    split at h
    · cases h
      close_inv h7
    · cases h

theorem inv_collector (hI : Inv c s) (h : collectorStep s = some s') : Inv c s' := by
  simp only [collectorStep] at h
  obtain ⟨h1, h2, h3, h4, h5, h6, h7, h8, h9, h10, h11, h12, h13, h14, h15, h16⟩ := hI
  split at h
  · split at h
    · cases h
      close_inv h7
    · split at h
      · cases h
        close_inv h7
      · cases h
        close_inv h7
  · split at h
    · cases h
      close_inv h7
    · split at h
      · cases h
        close_inv h7
      · cases h
  · cases h

theorem inv_step (hfix : c.fixed = true) {a : Actor}
    (hI : Inv c s) (h : step c s a = some s') : Inv c s' := by
  have hnc := hI.nocrash
  simp only [step, hnc, Option.isSome_none, Bool.false_eq_true, if_false] at h
  cases a with
  | worker i =>
    simp only at h
    cases hget : s.ws[i]? with
    | none => simp [workerStep, hget] at h
    | some pc =>
      cases pc with
      | idle => exact inv_w_idle hI hget h
      | recv => exact inv_w_recv hI hget h
      | send r => exact inv_w_send hI hget h
      | sendErr r => exact inv_w_sendErr hI hget h
      | tokret => exact inv_w_tokret hfix hI hget h
      | done => simp [workerStep, hget] at h
  | producer => exact inv_producer hI h
  | collector => exact inv_collector hI h
  | stopper =>
    simp only at h
    obtain ⟨h1, h2, h3, h4, h5, h6, h7, h8, h9, h10, h11, h12, h13, h14, h15, h16⟩ := hI
    split at h
    · cases h
    · cases h
      close_inv h7
  | waiter =>
    simp only at h
    obtain ⟨h1, h2, h3, h4, h5, h6, h7, h8, h9, h10, h11, h12, h13, h14, h15, h16⟩ := hI
    split at h
    · cases h
      close_inv h7
    · cases h

/-- the invariant holds in every reachable state of the repaired protocol -/
theorem inv_reach (hfix : c.fixed = true) (ht : 0 < c.threads) :
    ∀ s, Reach (sys c) s → Inv c s :=
  inv_induction (S := sys c) (Inv c) (inv_init c ht) (fun _ _ _ hI h => inv_step hfix hI h)

/-! ### termination: a variant that every step decreases -/

def rank : WPc → Nat
  | .idle => 3 | .recv => 2 | .send _ => 5 | .sendErr _ => 5 | .tokret => 1 | .done => 0

def crank : CPc → Nat
  | .ready => 2 | .receiving => 1 | .closedSeen => 0

def rankSum (ws : List WPc) : Nat := (ws.map rank).sum

def mu (c : Cfg) (s : St) : Nat :=
  5 * s.todo.length + (if c.wantClose && !s.inClosed then 1 else 0) + 4 * s.inq.length + rankSum s.ws
  + s.outq.length + (if s.handoff.isSome then 2 else 0) + crank s.cpc
  + (if s.stop then 0 else 1) + (if s.waitReturned then 0 else 1)

theorem rankSum_set (ws : List WPc) (i : Nat) (a b : WPc) (h : ws[i]? = some a) :
    rankSum (ws.set i b) + rank a = rankSum ws + rank b := by
  induction ws generalizing i with
  | nil => simp at h
  | cons x xs ih =>
    cases i with
    | zero => simp at h; subst h; simp [rankSum]; omega
    | succ n => simp at h; have := ih n h; simp [rankSum] at this ⊢; omega

theorem mu_step (hfix : c.fixed = true) {a : Actor}
    (hI : Inv c s) (h : step c s a = some s') : mu c s' < mu c s := by
  have hnc := hI.nocrash
  simp only [step, hnc, Option.isSome_none, Bool.false_eq_true, if_false] at h
  cases a with
  | worker i =>
    simp only at h
    cases hget : s.ws[i]? with
    | none => simp [workerStep, hget] at h
    | some pc =>
      cases pc with
      | idle =>
        simp only [workerStep, hget] at h
        have hr := rankSum_set s.ws i _ WPc.recv hget
        split at h
        · cases h; simp [mu, rank] at hr ⊢; omega
        · cases h
      | recv =>
        simp only [workerStep, hget] at h
        split at h
        · rename_i op rest hinq
          cases h
          cases hp : op.isPan
          · have hr := rankSum_set s.ws i _ (WPc.send (eval op)) hget
            simp [mu, rank, hinq] at hr ⊢; omega
          · have hr := rankSum_set s.ws i _ (WPc.sendErr (eval op)) hget
            simp [mu, rank, hinq] at hr ⊢; omega
        · split at h
          · cases h
            have hr := rankSum_set s.ws i _ WPc.tokret hget
            simp [mu, rank] at hr ⊢; omega
          · cases h
      | send r =>
        simp only [workerStep, hget] at h
        have ⟨hc0, _⟩ := closes_zero_of_active hI hget (pc := .send r) rfl
        have hgt : ¬ (s.closes > 0) := by omega
        have hr1 := rankSum_set s.ws i _ WPc.recv hget
        have hr2 := rankSum_set s.ws i _ WPc.tokret hget
        cases hrw : s.recvWaiting <;> cases hst : s.stop <;>
          by_cases hroom : s.outq.length < c.outCap <;>
          simp [sendOut, hgt, hrw, hroom, hnc, hst] at h
        all_goals subst h
        all_goals (simp [mu, rank, hst] at hr1 hr2 ⊢; split <;> omega)
      | sendErr r =>
        simp only [workerStep, hget] at h
        have ⟨hc0, _⟩ := closes_zero_of_active hI hget (pc := .sendErr r) rfl
        have hgt : ¬ (s.closes > 0) := by omega
        have hr2 := rankSum_set s.ws i _ WPc.tokret hget
        cases hrw : s.recvWaiting <;>
          by_cases hroom : s.outq.length < c.outCap <;>
          simp [sendOut, hgt, hrw, hroom, hnc] at h
        all_goals subst h
        all_goals (simp [mu, rank] at hr2 ⊢; split <;> omega)
      | tokret =>
        simp only [workerStep, hget] at h
        have ⟨hc0, _⟩ := closes_zero_of_active hI hget (pc := .tokret) rfl
        have hgt : ¬ (s.closes > 0) := by omega
        have hr := rankSum_set s.ws i _ WPc.done hget
        cases h
        by_cases hlast : s.exited + 1 = c.threads <;>
          simp [exitBlock, hfix, hlast, hgt, mu, rank] at hr ⊢ <;> omega
      | done => simp [workerStep, hget] at h
  | producer =>
    simp only [producerStep] at h
    split at h
    · rename_i op rest htodo
      split at h
      · cases h
      · split at h
        · cases h; simp [mu, htodo]; omega
        · cases h
    · split at h
      · rename_i hcl
        cases h
        simp at hcl
        simp [mu, hcl]
      · cases h
  | collector =>
    simp only [collectorStep] at h
    split at h
    · rename_i hc
      split at h
      · rename_i r rest hq
        cases h; simp [mu, hq, hc, crank] <;> omega
      · split at h
        · cases h; simp [mu, hc, crank] <;> omega
        · cases h; simp [mu, hc, crank] <;> omega
    · rename_i hc
      split at h
      · rename_i r hh
        cases h; simp [mu, hc, hh, crank] <;> omega
      · rename_i hh
        split at h
        · cases h; simp [mu, hc, hh, crank]
        · cases h
    · cases h
  | stopper =>
    simp only at h
    split at h
    · cases h
    · rename_i hst
      cases h; simp at hst; simp [mu, hst]
  | waiter =>
    simp only at h
    split at h
    · rename_i hw
      cases h; simp at hw; simp [mu, hw]
    · cases h

/-! ### progress: with the queue closed, a state where no worker and not the collector can
move is the clean final state -/

theorem send_blocked_absurd (hI : Inv c s) (hc0 : s.closes = 0)
    (hrw : s.recvWaiting = false) (hc : collectorStep s = none) : False := by
  simp only [collectorStep] at hc
  split at hc
  · split at hc
    · cases hc
    · split at hc <;> cases hc
  · rename_i hcpc
    split at hc
    · cases hc
    · rename_i hh
      have := hI.recv_coh hcpc
      simp [hrw, hh] at this
  · rename_i hcpc
    have := (hI.seen_coh hcpc).2.2
    omega

theorem stuck_worker_done (hI : Inv c s) (hcl : s.inClosed = true) {i : Nat} {pc : WPc}
    (hget : s.ws[i]? = some pc)
    (hw : workerStep c s i = none) (hc : collectorStep s = none) : pc = .done := by
  have hnc := hI.nocrash
  cases pc with
  | idle =>
    simp only [workerStep, hget] at hw
    split at hw
    · cases hw
    · have h1 := countP_lt_length_of WPc.holds s.ws i _ hget rfl
      have h2 := hI.tokens
      have h3 := hI.len
      omega
  | recv =>
    simp only [workerStep, hget] at hw
    split at hw
    · cases hw
    · simp [hcl] at hw
  | send r =>
    exfalso
    simp only [workerStep, hget] at hw
    have ⟨hc0, _⟩ := closes_zero_of_active hI hget (pc := .send r) rfl
    have hgt : ¬ (s.closes > 0) := by omega
    cases hrw : s.recvWaiting
    · exact send_blocked_absurd hI hc0 hrw hc
    · cases hst : s.stop <;> simp [sendOut, hgt, hrw, hnc, hst] at hw
  | sendErr r =>
    exfalso
    simp only [workerStep, hget] at hw
    have ⟨hc0, _⟩ := closes_zero_of_active hI hget (pc := .sendErr r) rfl
    have hgt : ¬ (s.closes > 0) := by omega
    cases hrw : s.recvWaiting
    · exact send_blocked_absurd hI hc0 hrw hc
    · simp [sendOut, hgt, hrw, hnc] at hw
  | tokret => simp [workerStep, hget] at hw
  | done => rfl

theorem allDone_iff (hI : Inv c s) : allDone s = true ↔ s.exited = c.threads := by
  rw [hI.exited_eq, ← hI.len, List.countP_eq_length]
  simp [allDone, List.all_eq_true]

theorem stuck_final (hI : Inv c s) (hcl : s.inClosed = true)
    (hw : ∀ i, step c s (.worker i) = none) (hc : step c s .collector = none) :
    allDone s = true ∧ s.closes = 1 ∧ s.wgDone = c.threads ∧ s.cpc = .closedSeen := by
  have hnc := hI.nocrash
  simp only [step, hnc, Option.isSome_none, Bool.false_eq_true, if_false] at hw hc
  have hall : allDone s = true := by
    simp only [allDone, List.all_eq_true]
    intro pc hmem
    obtain ⟨i, hi, hget⟩ := List.getElem_of_mem hmem
    have hget' : s.ws[i]? = some pc := by simp [hi, hget]
    have := stuck_worker_done hI hcl hget' (hw i) hc
    subst this; rfl
  have hex := (allDone_iff hI).1 hall
  have hcloses : s.closes = 1 := by have := hI.closes_eq; simp [hex] at this; exact this
  refine ⟨hall, hcloses, by rw [hI.wg_eq, hex], ?_⟩
  simp only [collectorStep] at hc
  split at hc
  · split at hc
    · cases hc
    · split at hc <;> cases hc
  · split at hc
    · cases hc
    · simp [hcloses] at hc
  · assumption

end Biogo.Processor
