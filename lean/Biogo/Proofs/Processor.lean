/-
Invariants of the repaired Processor protocol (`Biogo.Processor.sys c` with `c.fixed = true`),
for any number of workers, producers and collectors, any buffer sizes, any lists of operations
and every schedule.

The invariant is proved in three layers, each by induction over the reachable states:
  `InvA` — the workers' bookkeeping (tokens, exit counter, wait group, close of `out`, no crash)
  `InvB` — the data (every result that exists is the result of an operation taken; FIFO queue;
           per-producer order; nothing lost or invented)
  `InvC` — coherence of `out` with several receivers (queue of waiting collectors, hand-overs)
-/
import Biogo.Model.Processor

namespace Biogo.Processor
open Biogo.LTS

/-- number of workers that have left their loop (kept opaque for `simp`) -/
def nEx (ws : List WPc) : Nat := ws.countP WPc.exiting

def WPc.isSendErr : WPc → Bool
  | .sendErr _ => true
  | _ => false

/-- number of workers that recovered from a panicking operation and still hold the error result -/
def nErr (ws : List WPc) : Nat := ws.countP WPc.isSendErr

/-! ### shapes of a send on `out` -/

theorem sendOut_cases {c : Cfg} {s s1 : St} {r : Res} (h : sendOut c s r = some s1) (hc0 : s.closes = 0) :
    (∃ k rest, s.recvq = k :: rest ∧ s1 = { s with handoff := s.handoff.set k (some r), recvq := rest }) ∨
    (s.recvq = [] ∧ s.outq.length < c.outCap ∧ s1 = { s with outq := s.outq ++ [r] }) := by
  have hgt : ¬ (s.closes > 0) := by omega
  simp only [sendOut, hgt, if_false] at h
  split at h
  · rename_i k rest hq
    cases h; exact Or.inl ⟨k, rest, hq, rfl⟩
  · rename_i hq
    split at h
    · rename_i hroom; cases h; exact Or.inr ⟨hq, hroom, rfl⟩
    · cases h

/-! ### layer A: the workers' bookkeeping -/

structure InvA (c : Cfg) (s : St) : Prop where
  len : s.ws.length = c.threads
  nocrash : s.crashed = none
  exited_eq : s.exited = s.ws.countP WPc.isDone
  wg_eq : s.wgDone = s.exited
  closes_eq : s.closes = if s.exited = c.threads then 1 else 0
  tokens : s.work + s.ws.countP WPc.holds = c.threads
  exit_why : 0 < nEx s.ws →
    s.stop = true ∨ (s.inClosed = true ∧ s.inq = []) ∨ s.taken.any Op.isPan = true
  err_why : 0 < nErr s.ws → s.taken.any Op.isPan = true

theorem countP_replicate_false {α : Type} (p : α → Bool) (a : α) (n : Nat) (h : p a = false) :
    (List.replicate n a).countP p = 0 := by
  induction n with
  | zero => rfl
  | succ n ih => simp [List.replicate_succ, ih, h]

theorem filterMap_replicate_none {α β : Type} (f : α → Option β) (a : α) (n : Nat) (h : f a = none) :
    (List.replicate n a).filterMap f = [] := by
  induction n with
  | zero => rfl
  | succ n ih => simp [List.replicate_succ, ih, h]

theorem invA_init (c : Cfg) (ht : 0 < c.threads) : InvA c (init c) := by
  have h1 := countP_replicate_false WPc.isDone WPc.idle c.threads rfl
  have h2 := countP_replicate_false WPc.holds WPc.idle c.threads rfl
  have h3 := countP_replicate_false WPc.exiting WPc.idle c.threads rfl
  have h5 := countP_replicate_false WPc.isSendErr WPc.idle c.threads rfl
  have hne : ¬ (0 = c.threads) := by omega
  constructor <;> simp [init, h1, h2, h3, h5, hne, nEx, nErr]

/-- bookkeeping facts for replacing worker `i`'s pc `a` by `b` -/
theorem set_facts (ws : List WPc) (i : Nat) (a b : WPc) (h : ws[i]? = some a) :
    ((ws.set i b).countP WPc.isDone + (if a.isDone then 1 else 0) = ws.countP WPc.isDone + (if b.isDone then 1 else 0)) ∧
    ((ws.set i b).countP WPc.holds + (if a.holds then 1 else 0) = ws.countP WPc.holds + (if b.holds then 1 else 0)) ∧
    (nEx (ws.set i b) + (if a.exiting then 1 else 0) = nEx ws + (if b.exiting then 1 else 0)) ∧
    (nErr (ws.set i b) + (if a.isSendErr then 1 else 0) = nErr ws + (if b.isSendErr then 1 else 0)) ∧
    (∀ x, (heldOf a).toList.count x + ((ws.set i b).filterMap heldOf).count x
          = (heldOf b).toList.count x + (ws.filterMap heldOf).count x) :=
  ⟨countP_set _ ws i a b h, countP_set _ ws i a b h, countP_set _ ws i a b h, countP_set _ ws i a b h,
   count_filterMap_set heldOf ws i a b h⟩

theorem closes_zero_of_active {c : Cfg} {s : St} (hI : InvA c s) {i : Nat} {pc : WPc}
    (hget : s.ws[i]? = some pc) (hpc : pc.isDone = false) : s.closes = 0 ∧ s.exited < c.threads := by
  have h1 := countP_lt_length_of WPc.isDone s.ws i pc hget hpc
  have h2 := hI.len
  have h3 := hI.exited_eq
  have h4 := hI.closes_eq
  have : s.exited ≠ c.threads := by omega
  simp [this] at h4
  exact ⟨h4, by omega⟩

macro "close_invA" : tactic =>
  `(tactic| (constructor <;> simp_all <;> first | done | omega | grind | skip))

macro "facts" ws:term "," i:term "," b:term "," hget:term : tactic =>
  `(tactic| (obtain ⟨hD, hH, hE, hR, hP⟩ := set_facts $ws $i _ $b $hget
             simp [WPc.isDone, WPc.holds, WPc.exiting, WPc.isSendErr, heldOf] at hD hH hE hR hP))

variable {c : Cfg} {s s' : St} {i : Nat}

theorem invA_w_idle (hI : InvA c s) (hget : s.ws[i]? = some .idle)
    (h : workerStep c s i = some s') : InvA c s' := by
  simp only [workerStep, hget] at h
  split at h
  · cases h
    facts s.ws, i, WPc.recv, hget
    obtain ⟨h1, h2, h3, h4, h5, h6, h7, h8⟩ := hI
    close_invA
  · cases h

theorem invA_w_recv (hI : InvA c s) (hget : s.ws[i]? = some .recv)
    (h : workerStep c s i = some s') : InvA c s' := by
  simp only [workerStep, hget] at h
  split at h
  · rename_i op rest hinq
    cases h
    cases hp : op.isPan
    · facts s.ws, i, (WPc.send (eval op)), hget
      obtain ⟨h1, h2, h3, h4, h5, h6, h7, h8⟩ := hI
      close_invA
    · facts s.ws, i, (WPc.sendErr (eval op)), hget
      obtain ⟨h1, h2, h3, h4, h5, h6, h7, h8⟩ := hI
      close_invA
  · split at h
    · cases h
      facts s.ws, i, WPc.tokret, hget
      obtain ⟨h1, h2, h3, h4, h5, h6, h7, h8⟩ := hI
      close_invA
    · cases h

theorem invA_w_send {r : Res} (hI : InvA c s) (hget : s.ws[i]? = some (.send r))
    (h : workerStep c s i = some s') : InvA c s' := by
  simp only [workerStep, hget] at h
  have hnc := hI.nocrash
  have ⟨hc0, hex⟩ := closes_zero_of_active hI hget (pc := .send r) rfl
  cases hso : sendOut c s r with
  | none => simp [hso] at h
  | some s1 =>
    simp only [hso] at h
    rcases sendOut_cases hso hc0 with ⟨k, rest, hq, hs1⟩ | ⟨hq, hroom, hs1⟩ <;> subst hs1 <;>
      cases hst : s.stop <;> simp [hnc, hst] at h <;> subst h
    all_goals first
      | (facts s.ws, i, WPc.recv, hget
         obtain ⟨h1, h2, h3, h4, h5, h6, h7, h8⟩ := hI
         close_invA
         done)
      | (facts s.ws, i, WPc.tokret, hget
         obtain ⟨h1, h2, h3, h4, h5, h6, h7, h8⟩ := hI
         close_invA)

theorem invA_w_sendErr {r : Res} (hI : InvA c s) (hget : s.ws[i]? = some (.sendErr r))
    (h : workerStep c s i = some s') : InvA c s' := by
  simp only [workerStep, hget] at h
  have hnc := hI.nocrash
  have ⟨hc0, hex⟩ := closes_zero_of_active hI hget (pc := .sendErr r) rfl
  have hpan := hI.err_why (countP_pos_of WPc.isSendErr s.ws i _ hget rfl)
  cases hso : sendOut c s r with
  | none => simp [hso] at h
  | some s1 =>
    simp only [hso] at h
    rcases sendOut_cases hso hc0 with ⟨k, rest, hq, hs1⟩ | ⟨hq, hroom, hs1⟩ <;> subst hs1 <;>
      simp [hnc] at h <;> subst h
    all_goals
      (facts s.ws, i, WPc.tokret, hget
       obtain ⟨h1, h2, h3, h4, h5, h6, h7, h8⟩ := hI
       close_invA)

theorem invA_w_tokret (hfix : c.fixed = true) (hI : InvA c s) (hget : s.ws[i]? = some .tokret)
    (h : workerStep c s i = some s') : InvA c s' := by
  simp only [workerStep, hget] at h
  have ⟨hc0, hex⟩ := closes_zero_of_active hI hget (pc := .tokret) rfl
  have hgt : ¬ (s.closes > 0) := by omega
  cases h
  facts s.ws, i, WPc.done, hget
  have hpos := countP_pos_of WPc.exiting s.ws i _ hget rfl
  have hwhy := hI.exit_why hpos
  obtain ⟨h1, h2, h3, h4, h5, h6, h7, h8⟩ := hI
  by_cases hlast : s.exited + 1 = c.threads <;> simp [exitBlock, hfix, hlast, hgt]
  all_goals close_invA

theorem invA_producer {p : Nat} (hI : InvA c s) (h : producerStep c s p = some s') : InvA c s' := by
  simp only [producerStep] at h
  obtain ⟨h1, h2, h3, h4, h5, h6, h7, h8⟩ := hI
  split at h
  · cases h
  · split at h
    · cases h
    · split at h
      · cases h
        close_invA
      · cases h
  · split at h
    · cases h
      close_invA
    · cases h

/-- a collector's step touches nothing the workers' bookkeeping speaks about -/
theorem invA_collector {k : Nat} (hI : InvA c s) (h : collectorStep s k = some s') : InvA c s' := by
  simp only [collectorStep] at h
  split at h
  · cases h
  · split at h
    · cases h; exact ⟨hI.len, hI.nocrash, hI.exited_eq, hI.wg_eq, hI.closes_eq, hI.tokens, hI.exit_why, hI.err_why⟩
    · split at h <;> cases h <;>
        exact ⟨hI.len, hI.nocrash, hI.exited_eq, hI.wg_eq, hI.closes_eq, hI.tokens, hI.exit_why, hI.err_why⟩
  · split at h
    · cases h; exact ⟨hI.len, hI.nocrash, hI.exited_eq, hI.wg_eq, hI.closes_eq, hI.tokens, hI.exit_why, hI.err_why⟩
    · split at h
      · cases h; exact ⟨hI.len, hI.nocrash, hI.exited_eq, hI.wg_eq, hI.closes_eq, hI.tokens, hI.exit_why, hI.err_why⟩
      · cases h
  · cases h

theorem invA_step (hfix : c.fixed = true) {a : Actor}
    (hI : InvA c s) (h : step c s a = some s') : InvA c s' := by
  have hnc := hI.nocrash
  simp only [step, hnc, Option.isSome_none, Bool.false_eq_true, if_false] at h
  cases a with
  | worker i =>
    simp only at h
    cases hget : s.ws[i]? with
    | none => simp [workerStep, hget] at h
    | some pc =>
      cases pc with
      | idle => exact invA_w_idle hI hget h
      | recv => exact invA_w_recv hI hget h
      | send r => exact invA_w_send hI hget h
      | sendErr r => exact invA_w_sendErr hI hget h
      | tokret => exact invA_w_tokret hfix hI hget h
      | done => simp [workerStep, hget] at h
  | producer p => exact invA_producer hI h
  | collector k => exact invA_collector hI h
  | stopper =>
    simp only at h
    obtain ⟨h1, h2, h3, h4, h5, h6, h7, h8⟩ := hI
    split at h
    · cases h
    · cases h
      close_invA
  | waiter =>
    simp only at h
    obtain ⟨h1, h2, h3, h4, h5, h6, h7, h8⟩ := hI
    split at h
    · cases h
      close_invA
    · cases h

theorem invA_reach (hfix : c.fixed = true) (ht : 0 < c.threads) :
    ∀ s, Reach (sys c) s → InvA c s :=
  inv_induction (S := sys c) (InvA c) (invA_init c ht) (fun _ _ _ hI h => invA_step hfix hI h)

/-! ### the shapes of a step (no crash: layer A holds in the source state) -/

inductive Shape (c : Cfg) (s : St) : Actor → St → Prop
  | w_idle (i : Nat) (hget : s.ws[i]? = some .idle) (hw : 0 < s.work) :
      Shape c s (.worker i) { s with work := s.work - 1, ws := s.ws.set i .recv }
  | w_take (i : Nat) (op : Op) (rest : List Op) (hget : s.ws[i]? = some .recv) (hq : s.inq = op :: rest) :
      Shape c s (.worker i)
        { s with inq := rest, taken := s.taken ++ [op],
                 ws := s.ws.set i (if op.isPan then .sendErr (eval op) else .send (eval op)) }
  | w_closed (i : Nat) (hget : s.ws[i]? = some .recv) (hq : s.inq = []) (hcl : s.inClosed = true) :
      Shape c s (.worker i) { s with work := s.work + 1, ws := s.ws.set i .tokret }
  /-- a send (of a result or of a recovered panic's error) handed to the oldest waiting collector -/
  | w_hand (i : Nat) (pc pc' : WPc) (r : Res) (w' k : Nat) (rest : List Nat)
      (hget : s.ws[i]? = some pc) (hheld : heldOf pc = some r) (hheld' : pc' = .recv ∨ pc' = .tokret)
      (hc0 : s.closes = 0) (hq : s.recvq = k :: rest) :
      Shape c s (.worker i)
        { s with handoff := s.handoff.set k (some r), recvq := rest, work := w', ws := s.ws.set i pc' }
  /-- a send into the buffer of `out` -/
  | w_buf (i : Nat) (pc pc' : WPc) (r : Res) (w' : Nat)
      (hget : s.ws[i]? = some pc) (hheld : heldOf pc = some r) (hheld' : pc' = .recv ∨ pc' = .tokret)
      (hc0 : s.closes = 0) (hq : s.recvq = []) (hroom : s.outq.length < c.outCap) :
      Shape c s (.worker i) { s with outq := s.outq ++ [r], work := w', ws := s.ws.set i pc' }
  | w_exit (i : Nat) (cl : Nat) (hget : s.ws[i]? = some .tokret) (hcl : cl = 1 ∨ cl = s.closes) :
      Shape c s (.worker i)
        { s with exited := s.exited + 1, closes := cl, wgDone := s.wgDone + 1, ws := s.ws.set i .done }
  | p_submit (p : Nat) (op : Op) (rest : List Op) (hget : s.todo[p]? = some (op :: rest))
      (hncl : s.inClosed = false) (hroom : s.inq.length < c.inCap) :
      Shape c s (.producer p)
        { s with todo := s.todo.set p rest, inq := s.inq ++ [op], subm := s.subm ++ [(p, op)] }
  | p_close (p : Nat) (hall : allSubmitted s = true) (hncl : s.inClosed = false) (hwc : c.wantClose = true) :
      Shape c s (.producer p) { s with inClosed := true }
  | c_take (k : Nat) (r : Res) (rest : List Res) (hget : s.cpcs[k]? = some .ready) (hq : s.outq = r :: rest) :
      Shape c s (.collector k)
        { s with outq := rest, delivered := s.delivered.set k (s.delivered.getD k [] ++ [r]) }
  | c_seen_ready (k : Nat) (hget : s.cpcs[k]? = some .ready) (hq : s.outq = []) (hcl : s.closes > 0) :
      Shape c s (.collector k) { s with cpcs := s.cpcs.set k .closedSeen }
  | c_wait (k : Nat) (hget : s.cpcs[k]? = some .ready) (hq : s.outq = []) (hcl : s.closes = 0) :
      Shape c s (.collector k) { s with recvq := s.recvq ++ [k], cpcs := s.cpcs.set k .receiving }
  | c_hand (k : Nat) (r : Res) (hget : s.cpcs[k]? = some .receiving) (hh : s.handoff.getD k none = some r) :
      Shape c s (.collector k)
        { s with handoff := s.handoff.set k none,
                 delivered := s.delivered.set k (s.delivered.getD k [] ++ [r]),
                 cpcs := s.cpcs.set k .ready }
  | c_seen_recv (k : Nat) (hget : s.cpcs[k]? = some .receiving) (hh : s.handoff.getD k none = none)
      (hcl : s.closes > 0) :
      Shape c s (.collector k) { s with recvq := s.recvq.erase k, cpcs := s.cpcs.set k .closedSeen }
  | stop (hst : s.stop = false) : Shape c s .stopper { s with stop := true }
  | wait (hwr : s.waitReturned = false) (hwg : s.wgDone = c.threads) :
      Shape c s .waiter { s with waitReturned := true }

theorem shape_of_step (hfix : c.fixed = true) {a : Actor} (hA : InvA c s)
    (h : step c s a = some s') : Shape c s a s' := by
  have hnc := hA.nocrash
  simp only [step, hnc, Option.isSome_none, Bool.false_eq_true, if_false] at h
  cases a with
  | worker i =>
    simp only at h
    cases hget : s.ws[i]? with
    | none => simp [workerStep, hget] at h
    | some pc =>
      cases pc with
      | idle =>
        simp only [workerStep, hget] at h
        split at h
        · rename_i hw; cases h; exact .w_idle i hget hw
        · cases h
      | recv =>
        simp only [workerStep, hget] at h
        split at h
        · rename_i op rest hq; cases h; exact .w_take i op rest hget hq
        · rename_i hq
          split at h
          · rename_i hcl; cases h; exact .w_closed i hget hq hcl
          · cases h
      | send r =>
        simp only [workerStep, hget] at h
        have ⟨hc0, _⟩ := closes_zero_of_active hA hget (pc := .send r) rfl
        cases hso : sendOut c s r with
        | none => simp [hso] at h
        | some s1 =>
          simp only [hso] at h
          rcases sendOut_cases hso hc0 with ⟨k, rest, hq, hs1⟩ | ⟨hq, hroom, hs1⟩ <;> subst hs1 <;>
            cases hst : s.stop <;> simp [hnc, hst] at h <;> subst h
          · have hw := Shape.w_hand (c := c) i (.send r) .recv r s.work k rest hget rfl (Or.inl rfl) hc0 hq
            simp only [hnc, hst] at hw; exact hw
          · have hw := Shape.w_hand (c := c) i (.send r) .tokret r (s.work + 1) k rest hget rfl (Or.inr rfl) hc0 hq
            simp only [hnc, hst] at hw; exact hw
          · have hw := Shape.w_buf (c := c) i (.send r) .recv r s.work hget rfl (Or.inl rfl) hc0 hq hroom
            simp only [hnc, hst] at hw; exact hw
          · have hw := Shape.w_buf (c := c) i (.send r) .tokret r (s.work + 1) hget rfl (Or.inr rfl) hc0 hq hroom
            simp only [hnc, hst] at hw; exact hw
      | sendErr r =>
        simp only [workerStep, hget] at h
        have ⟨hc0, _⟩ := closes_zero_of_active hA hget (pc := .sendErr r) rfl
        cases hso : sendOut c s r with
        | none => simp [hso] at h
        | some s1 =>
          simp only [hso] at h
          rcases sendOut_cases hso hc0 with ⟨k, rest, hq, hs1⟩ | ⟨hq, hroom, hs1⟩ <;> subst hs1 <;>
            simp [hnc] at h <;> subst h
          · have hw := Shape.w_hand (c := c) i (.sendErr r) .tokret r (s.work + 1) k rest hget rfl (Or.inr rfl) hc0 hq
            simp only [hnc] at hw; exact hw
          · have hw := Shape.w_buf (c := c) i (.sendErr r) .tokret r (s.work + 1) hget rfl (Or.inr rfl) hc0 hq hroom
            simp only [hnc] at hw; exact hw
      | tokret =>
        simp only [workerStep, hget] at h
        have ⟨hc0, _⟩ := closes_zero_of_active hA hget (pc := .tokret) rfl
        have hgt : ¬ (s.closes > 0) := by omega
        cases h
        by_cases hlast : s.exited + 1 = c.threads
        · simp only [exitBlock, hfix, hlast, hgt, if_true, if_false, beq_self_eq_true]
          have hw := Shape.w_exit (c := c) (s := s) i 1 hget (Or.inl rfl)
          simp only [hlast] at hw; exact hw
        · have : (s.exited + 1 == c.threads) = false := by simpa using hlast
          simp only [exitBlock, hfix, this, if_true, Bool.false_eq_true, if_false]
          have hw := Shape.w_exit (c := c) (s := s) i s.closes hget (Or.inr rfl)
          simpa using hw
      | done => simp [workerStep, hget] at h
  | producer p =>
    simp only [producerStep] at h
    split at h
    · cases h
    · rename_i op rest hget
      split at h
      · cases h
      · rename_i hncl
        split at h
        · rename_i hroom; cases h
          exact .p_submit p op rest hget (by simpa using hncl) hroom
        · cases h
    · split at h
      · rename_i hcond
        cases h
        simp at hcond
        exact .p_close p hcond.2 hcond.1.2 hcond.1.1.2
      · cases h
  | collector k =>
    simp only [collectorStep] at h
    split at h
    · cases h
    · rename_i hget
      split at h
      · rename_i r rest hq; cases h; exact .c_take k r rest hget hq
      · rename_i hq
        split at h
        · rename_i hcl; cases h; exact .c_seen_ready k hget hq hcl
        · rename_i hcl; cases h; exact .c_wait k hget hq (by omega)
    · rename_i hget
      split at h
      · rename_i r hh; cases h; exact .c_hand k r hget hh
      · rename_i hh
        split at h
        · rename_i hcl; cases h; exact .c_seen_recv k hget hh hcl
        · cases h
    · cases h
  | stopper =>
    simp only at h
    split at h
    · cases h
    · rename_i hst; cases h
      have hw := Shape.stop (c := c) (s := s) (by simpa using hst)
      simp only [hnc] at hw; exact hw
  | waiter =>
    simp only at h
    split at h
    · rename_i hw; cases h
      simp at hw
      have hw' := Shape.wait (c := c) (s := s) hw.1 hw.2
      simp only [hnc] at hw'; exact hw'
    · cases h

/-! ### layer C: `out` with several receivers -/

theorem getD_set {α : Type} (l : List α) (k j : Nat) (v d : α) :
    (l.set k v).getD j d = if k = j then (if k < l.length then v else d) else l.getD j d := by
  simp only [List.getD_eq_getElem?_getD, List.getElem?_set]
  split
  · split <;> simp_all
  · rfl

theorem lt_of_getElem? {α : Type} {l : List α} {k : Nat} {a : α} (h : l[k]? = some a) : k < l.length := by
  rcases Nat.lt_or_ge k l.length with h' | h'
  · exact h'
  · rw [List.getElem?_eq_none h'] at h; cases h

structure InvC (c : Cfg) (s : St) : Prop where
  clen : s.cpcs.length = c.ncoll
  hlen : s.handoff.length = c.ncoll
  dlen : s.delivered.length = c.ncoll
  rq_coh : ∀ k : Nat, k ∈ s.recvq → s.cpcs[k]? = some CPc.receiving ∧ s.handoff.getD k none = none
  rq_nodup : s.recvq.Nodup
  ho_coh : ∀ k : Nat, (s.handoff.getD k none).isSome = true → s.cpcs[k]? = some CPc.receiving
  recv_coh : ∀ k : Nat, s.cpcs[k]? = some CPc.receiving → k ∈ s.recvq ∨ (s.handoff.getD k none).isSome = true
  recv_empty : s.recvq ≠ [] → s.outq = []
  seen_coh : ∀ k : Nat, s.cpcs[k]? = some CPc.closedSeen → s.outq = [] ∧ s.closes = 1

theorem invC_init (c : Cfg) : InvC c (init c) := by
  constructor
  · simp [init]
  · simp [init]
  · simp [init]
  · intro k h; simp [init] at h
  · simp [init]
  · intro k h
    simp [init, List.getD_eq_getElem?_getD, List.getElem?_replicate] at h
    split at h <;> simp at h
  · intro k h
    simp [init, List.getElem?_replicate] at h
  · intro h; simp [init] at h
  · intro k h
    simp [init, List.getElem?_replicate] at h

/-- the C-relevant components are untouched -/
theorem invC_congr {s s' : St} (hI : InvC c s)
    (h1 : s'.cpcs = s.cpcs) (h2 : s'.handoff = s.handoff) (h3 : s'.delivered = s.delivered)
    (h4 : s'.recvq = s.recvq) (h5 : s'.outq = s.outq) (h6 : s'.closes = s.closes) : InvC c s' := by
  constructor
  · rw [h1]; exact hI.clen
  · rw [h2]; exact hI.hlen
  · rw [h3]; exact hI.dlen
  · rw [h4, h1, h2]; exact hI.rq_coh
  · rw [h4]; exact hI.rq_nodup
  · rw [h2, h1]; exact hI.ho_coh
  · rw [h1, h4, h2]; exact hI.recv_coh
  · rw [h4, h5]; exact hI.recv_empty
  · rw [h1, h5, h6]; exact hI.seen_coh

theorem closes_le_one (hA : InvA c s) (h : s.closes > 0) : s.closes = 1 := by
  have := hA.closes_eq
  split at this <;> omega

theorem invC_step (hfix : c.fixed = true) {a : Actor} (hA : InvA c s) (hI : InvC c s)
    (h : step c s a = some s') : InvC c s' := by
  cases shape_of_step hfix hA h with
  | w_idle i hget hw => exact invC_congr hI rfl rfl rfl rfl rfl rfl
  | w_take i op rest hget hq => exact invC_congr hI rfl rfl rfl rfl rfl rfl
  | w_closed i hget hq hcl => exact invC_congr hI rfl rfl rfl rfl rfl rfl
  | w_hand i pc pc' r w' k rest hget hheld hheld' hc0 hq =>
    have hk := hI.rq_coh k (by rw [hq]; simp)
    have hklt : k < s.handoff.length := by rw [hI.hlen, ← hI.clen]; exact lt_of_getElem? hk.1
    have hnd : k ∉ rest ∧ rest.Nodup := by
      have := hI.rq_nodup; rw [hq] at this; exact List.nodup_cons.1 this
    constructor
    · exact hI.clen
    · simp [hI.hlen]
    · exact hI.dlen
    · intro j hj
      have hjk : k ≠ j := fun e => hnd.1 (e ▸ hj)
      have := hI.rq_coh j (by rw [hq]; exact List.mem_cons_of_mem _ hj)
      refine ⟨this.1, ?_⟩
      show (s.handoff.set k (some r)).getD j none = none
      rw [getD_set, if_neg hjk]; exact this.2
    · exact hnd.2
    · intro j hj
      show s.cpcs[j]? = some CPc.receiving
      have hj' : ((s.handoff.set k (some r)).getD j none).isSome = true := hj
      rw [getD_set] at hj'
      split at hj'
      · rename_i e; subst e; exact hk.1
      · exact hI.ho_coh j hj'
    · intro j hj
      show j ∈ rest ∨ ((s.handoff.set k (some r)).getD j none).isSome = true
      rw [getD_set]
      by_cases e : k = j
      · subst e; right; simp [hklt]
      · rw [if_neg e]
        rcases hI.recv_coh j hj with h' | h'
        · rw [hq] at h'
          rcases List.mem_cons.1 h' with h'' | h''
          · exact absurd h''.symm e
          · exact Or.inl h''
        · exact Or.inr h'
    · intro hne
      exact hI.recv_empty (by rw [hq]; simp)
    · exact hI.seen_coh
  | w_buf i pc pc' r w' hget hheld hheld' hc0 hq hroom =>
    constructor
    · exact hI.clen
    · exact hI.hlen
    · exact hI.dlen
    · exact hI.rq_coh
    · exact hI.rq_nodup
    · exact hI.ho_coh
    · exact hI.recv_coh
    · intro hne; exact absurd hq hne
    · intro j hj
      have := (hI.seen_coh j hj).2
      omega
  | w_exit i cl hget hcl =>
    constructor
    · exact hI.clen
    · exact hI.hlen
    · exact hI.dlen
    · exact hI.rq_coh
    · exact hI.rq_nodup
    · exact hI.ho_coh
    · exact hI.recv_coh
    · exact hI.recv_empty
    · intro j hj
      have := hI.seen_coh j hj
      refine ⟨this.1, ?_⟩
      show cl = 1
      rcases hcl with h' | h'
      · exact h'
      · rw [h']; exact this.2
  | p_submit p op rest hget hncl hroom => exact invC_congr hI rfl rfl rfl rfl rfl rfl
  | p_close p hall hncl hwc => exact invC_congr hI rfl rfl rfl rfl rfl rfl
  | c_take k r rest hget hq =>
    have hrq : s.recvq = [] := by
      cases hr : s.recvq with
      | nil => rfl
      | cons a l => have := hI.recv_empty (by rw [hr]; simp); rw [this] at hq; cases hq
    constructor
    · exact hI.clen
    · exact hI.hlen
    · simp [hI.dlen]
    · exact hI.rq_coh
    · exact hI.rq_nodup
    · exact hI.ho_coh
    · exact hI.recv_coh
    · intro hne; exact absurd hrq hne
    · intro j hj
      have := (hI.seen_coh j hj).1
      rw [this] at hq; cases hq
  | c_seen_ready k hget hq hcl =>
    have hklt := lt_of_getElem? hget
    have hne : ∀ j, s.cpcs[j]? = some CPc.receiving → k ≠ j := by
      intro j hj e; subst e; rw [hget] at hj; cases hj
    have keep : ∀ j, k ≠ j → (s.cpcs.set k .closedSeen)[j]? = s.cpcs[j]? := by
      intro j e; rw [List.getElem?_set, if_neg e]
    constructor
    · simp [hI.clen]
    · exact hI.hlen
    · exact hI.dlen
    · intro j hj
      have := hI.rq_coh j hj
      exact ⟨by show (s.cpcs.set k .closedSeen)[j]? = _; rw [keep j (hne j this.1)]; exact this.1, this.2⟩
    · exact hI.rq_nodup
    · intro j hj
      have := hI.ho_coh j hj
      show (s.cpcs.set k .closedSeen)[j]? = _
      rw [keep j (hne j this)]; exact this
    · intro j hj
      have hj' : (s.cpcs.set k .closedSeen)[j]? = some CPc.receiving := hj
      by_cases e : k = j
      · subst e; simp [hklt] at hj'
      · rw [keep j e] at hj'; exact hI.recv_coh j hj'
    · exact hI.recv_empty
    · intro j hj
      have hj' : (s.cpcs.set k .closedSeen)[j]? = some CPc.closedSeen := hj
      by_cases e : k = j
      · exact ⟨hq, closes_le_one (s := s) hA hcl⟩
      · rw [keep j e] at hj'; exact hI.seen_coh j hj'
  | c_wait k hget hq hcl =>
    have hklt := lt_of_getElem? hget
    have hne : ∀ j, s.cpcs[j]? = some CPc.receiving → k ≠ j := by
      intro j hj e; subst e; rw [hget] at hj; cases hj
    have keep : ∀ j, k ≠ j → (s.cpcs.set k .receiving)[j]? = s.cpcs[j]? := by
      intro j e; rw [List.getElem?_set, if_neg e]
    have hknot : k ∉ s.recvq := fun hm => hne k (hI.rq_coh k hm).1 rfl
    have hkh : s.handoff.getD k none = none := by
      cases hh : s.handoff.getD k none with
      | none => rfl
      | some r => exact absurd rfl (hne k (hI.ho_coh k (by rw [hh]; rfl)))
    constructor
    · simp [hI.clen]
    · exact hI.hlen
    · exact hI.dlen
    · intro j hj
      have hj' : j ∈ s.recvq ++ [k] := hj
      rcases List.mem_append.1 hj' with h' | h'
      · have := hI.rq_coh j h'
        exact ⟨by show (s.cpcs.set k .receiving)[j]? = _; rw [keep j (hne j this.1)]; exact this.1, this.2⟩
      · simp at h'; subst h'
        exact ⟨by show (s.cpcs.set j .receiving)[j]? = _; simp [hklt], hkh⟩
    · show (s.recvq ++ [k]).Nodup
      rw [List.nodup_append]
      refine ⟨hI.rq_nodup, by simp, ?_⟩
      intro a ha b hb; simp at hb; subst hb
      intro e; subst e; exact hknot ha
    · intro j hj
      have := hI.ho_coh j hj
      show (s.cpcs.set k .receiving)[j]? = _
      rw [keep j (hne j this)]; exact this
    · intro j hj
      have hj' : (s.cpcs.set k .receiving)[j]? = some CPc.receiving := hj
      show j ∈ s.recvq ++ [k] ∨ _
      by_cases e : k = j
      · subst e; left; simp
      · rw [keep j e] at hj'
        rcases hI.recv_coh j hj' with h' | h'
        · left; exact List.mem_append_left _ h'
        · right; exact h'
    · intro _; exact hq
    · intro j hj
      have hj' : (s.cpcs.set k .receiving)[j]? = some CPc.closedSeen := hj
      by_cases e : k = j
      · subst e; simp [hklt] at hj'
      · rw [keep j e] at hj'; exact hI.seen_coh j hj'
  | c_hand k r hget hh =>
    have hklt := lt_of_getElem? hget
    have keep : ∀ j, k ≠ j → (s.cpcs.set k .ready)[j]? = s.cpcs[j]? := by
      intro j e; rw [List.getElem?_set, if_neg e]
    have hknot : k ∉ s.recvq := by
      intro hm; have := (hI.rq_coh k hm).2; rw [hh] at this; cases this
    constructor
    · simp [hI.clen]
    · simp [hI.hlen]
    · simp [hI.dlen]
    · intro j hj
      have hjk : k ≠ j := fun e => hknot (e ▸ hj)
      have := hI.rq_coh j hj
      refine ⟨by show (s.cpcs.set k .ready)[j]? = _; rw [keep j hjk]; exact this.1, ?_⟩
      show (s.handoff.set k none).getD j none = none
      rw [getD_set, if_neg hjk]; exact this.2
    · exact hI.rq_nodup
    · intro j hj
      have hj' : ((s.handoff.set k none).getD j none).isSome = true := hj
      rw [getD_set] at hj'
      by_cases e : k = j
      · rw [if_pos e] at hj'; split at hj' <;> simp at hj'
      · rw [if_neg e] at hj'
        show (s.cpcs.set k .ready)[j]? = _
        rw [keep j e]; exact hI.ho_coh j hj'
    · intro j hj
      have hj' : (s.cpcs.set k .ready)[j]? = some CPc.receiving := hj
      by_cases e : k = j
      · subst e; simp [hklt] at hj'
      · rw [keep j e] at hj'
        show j ∈ s.recvq ∨ ((s.handoff.set k none).getD j none).isSome = true
        rw [getD_set, if_neg e]; exact hI.recv_coh j hj'
    · exact hI.recv_empty
    · intro j hj
      have hj' : (s.cpcs.set k .ready)[j]? = some CPc.closedSeen := hj
      by_cases e : k = j
      · subst e; simp [hklt] at hj'
      · rw [keep j e] at hj'; exact hI.seen_coh j hj'
  | c_seen_recv k hget hh hcl =>
    have hklt := lt_of_getElem? hget
    have keep : ∀ j, k ≠ j → (s.cpcs.set k .closedSeen)[j]? = s.cpcs[j]? := by
      intro j e; rw [List.getElem?_set, if_neg e]
    have hkin : k ∈ s.recvq := by
      rcases hI.recv_coh k hget with h' | h'
      · exact h'
      · rw [hh] at h'; cases h'
    constructor
    · simp [hI.clen]
    · exact hI.hlen
    · exact hI.dlen
    · intro j hj
      have hj' : j ∈ s.recvq.erase k := hj
      rw [hI.rq_nodup.mem_erase_iff] at hj'
      have := hI.rq_coh j hj'.2
      exact ⟨by show (s.cpcs.set k .closedSeen)[j]? = _; rw [keep j (Ne.symm hj'.1)]; exact this.1, this.2⟩
    · exact hI.rq_nodup.erase k
    · intro j hj
      have hjk : k ≠ j := by intro e; subst e; rw [hh] at hj; cases hj
      show (s.cpcs.set k .closedSeen)[j]? = _
      rw [keep j hjk]; exact hI.ho_coh j hj
    · intro j hj
      have hj' : (s.cpcs.set k .closedSeen)[j]? = some CPc.receiving := hj
      by_cases e : k = j
      · subst e; simp [hklt] at hj'
      · rw [keep j e] at hj'
        rcases hI.recv_coh j hj' with h' | h'
        · left; show j ∈ s.recvq.erase k
          rw [hI.rq_nodup.mem_erase_iff]; exact ⟨Ne.symm e, h'⟩
        · right; exact h'
    · intro hne
      apply hI.recv_empty
      intro hnil; rw [hnil] at hkin; cases hkin
    · intro j hj
      have hj' : (s.cpcs.set k .closedSeen)[j]? = some CPc.closedSeen := hj
      by_cases e : k = j
      · refine ⟨hI.recv_empty ?_, closes_le_one (s := s) hA hcl⟩
        intro hnil; rw [hnil] at hkin; cases hkin
      · rw [keep j e] at hj'; exact hI.seen_coh j hj'
  | stop hst => exact invC_congr hI rfl rfl rfl rfl rfl rfl
  | wait hwr hwg => exact invC_congr hI rfl rfl rfl rfl rfl rfl

theorem invC_reach (hfix : c.fixed = true) (ht : 0 < c.threads) :
    ∀ s, Reach (sys c) s → InvC c s :=
  inv_induction' (S := sys c) (InvC c) (invC_init c)
    (fun _ _ _ hr hI h => invC_step hfix (invA_reach hfix ht _ hr) hI h)

/-! ### layer B: the data -/

theorem count_flatten_set {α : Type} [BEq α] (l : List (List α)) (k : Nat) (a b : List α)
    (h : l[k]? = some a) (x : α) :
    (l.set k b).flatten.count x + a.count x = l.flatten.count x + b.count x := by
  induction l generalizing k with
  | nil => simp at h
  | cons y ys ih =>
    cases k with
    | zero =>
      simp at h; subst h
      simp only [List.set_cons_zero, List.flatten_cons, List.count_append]; omega
    | succ n =>
      simp at h
      have := ih n h
      simp only [List.set_cons_succ, List.flatten_cons, List.count_append]; omega

theorem getD_of_getElem? {α : Type} {l : List α} {k : Nat} {a d : α} (h : l[k]? = some a) :
    l.getD k d = a := by
  simp [List.getD_eq_getElem?_getD, h]

theorem getElem?_of_getD_some {l : List (Option Res)} {k : Nat} {r : Res}
    (h : l.getD k none = some r) : l[k]? = some (some r) := by
  rw [List.getD_eq_getElem?_getD] at h
  cases hk : l[k]? with
  | none => rw [hk] at h; cases h
  | some v => rw [hk] at h; simp at h; rw [h]

theorem getElem?_of_getD_none {l : List (Option Res)} {k : Nat} (hlt : k < l.length)
    (h : l.getD k none = none) : l[k]? = some none := by
  rw [List.getD_eq_getElem?_getD] at h
  have : l[k]? = some l[k] := by simp [hlt]
  rw [this] at h ⊢; simp at h; rw [h]

theorem handed_set_some {l : List (Option Res)} {k : Nat} (h : l[k]? = some none) (r x : Res) :
    ((l.set k (some r)).filterMap id).count x = (l.filterMap id).count x + [r].count x := by
  have := count_filterMap_set (id : Option Res → Option Res) l k none (some r) h x
  simp only [id, Option.toList] at this
  simp only [List.count_nil, Nat.zero_add] at this
  omega

theorem handed_set_none {l : List (Option Res)} {k : Nat} {r : Res} (h : l[k]? = some (some r)) (x : Res) :
    ((l.set k none).filterMap id).count x + [r].count x = (l.filterMap id).count x := by
  have := count_filterMap_set (id : Option Res → Option Res) l k (some r) none h x
  simp only [id, Option.toList] at this
  simp only [List.count_nil, Nat.zero_add] at this
  omega

structure InvB (c : Cfg) (s : St) : Prop where
  tlen : s.todo.length = c.prods.length
  counts : ∀ x, (results s).count x = (s.taken.map eval).count x
  fifo : s.taken ++ s.inq = s.subm.map Prod.snd
  perprod : ∀ p : Nat, submittedBy s p ++ s.todo.getD p [] = c.prods.getD p []
  mset : ∀ x, (s.taken ++ s.inq ++ s.todo.flatten).count x = c.ops.count x
  closedTodo : s.inClosed = true → allSubmitted s = true
  subm_ids : ∀ e ∈ s.subm, e.1 < c.prods.length

theorem flatten_replicate_nil {α : Type} (n : Nat) : (List.replicate n ([] : List α)).flatten = [] := by
  induction n with
  | zero => rfl
  | succ n ih => simp [List.replicate_succ, ih]

theorem invB_init (c : Cfg) : InvB c (init c) := by
  have h4 := filterMap_replicate_none heldOf WPc.idle c.threads rfl
  have h5 := filterMap_replicate_none (id : Option Res → Option Res) none c.ncoll rfl
  constructor
  · simp [init]
  · intro x; simp [init, results, held, handed, allDelivered, h4, h5]
  · simp [init]
  · intro p; simp [init, submittedBy]
  · intro x; simp [init, Cfg.ops]
  · intro h; simp [init] at h
  · intro e h; simp [init] at h

/-- the B-relevant components are untouched -/
theorem invB_congr {s s' : St} (hI : InvB c s)
    (h1 : s'.todo = s.todo) (h2 : s'.inq = s.inq) (h3 : s'.taken = s.taken) (h4 : s'.subm = s.subm)
    (h5 : s'.inClosed = s.inClosed) (h6 : ∀ x, (results s').count x = (results s).count x) : InvB c s' := by
  constructor
  · rw [h1]; exact hI.tlen
  · intro x; rw [h6, h3]; exact hI.counts x
  · rw [h3, h2, h4]; exact hI.fifo
  · intro p; simp only [submittedBy, h4, h1]; exact hI.perprod p
  · rw [h3, h2, h1]; exact hI.mset
  · rw [h5]; simp only [allSubmitted, h1]; exact hI.closedTodo
  · rw [h4]; exact hI.subm_ids

theorem results_count (s : St) (x : Res) :
    (results s).count x = (held s).count x + s.outq.count x + (handed s).count x + (allDelivered s).count x := by
  simp [results, List.count_append]; omega

theorem invB_step (hfix : c.fixed = true) {a : Actor} (hA : InvA c s) (hC : InvC c s) (hI : InvB c s)
    (h : step c s a = some s') : InvB c s' := by
  cases shape_of_step hfix hA h with
  | w_idle i hget hw =>
    refine invB_congr hI rfl rfl rfl rfl rfl ?_
    intro x
    have := (set_facts s.ws i _ WPc.recv hget).2.2.2.2 x
    simp only [results_count, held, handed, allDelivered, heldOf] at this ⊢
    simp at this; omega
  | w_take i op rest hget hq =>
    have hP := (set_facts s.ws i _ (if op.isPan then WPc.sendErr (eval op) else WPc.send (eval op)) hget).2.2.2.2
    have hheld : heldOf (if op.isPan then WPc.sendErr (eval op) else WPc.send (eval op)) = some (eval op) := by
      cases op.isPan <;> rfl
    constructor
    · exact hI.tlen
    · intro x
      have h1 := hP x
      have h2 := hI.counts x
      rw [hheld] at h1
      simp only [results_count, held, handed, allDelivered, heldOf] at h1 h2 ⊢
      simp only [List.map_append, List.count_append, List.map_cons, List.map_nil] at h1 h2 ⊢
      simp at h1; omega
    · show (s.taken ++ [op]) ++ rest = _
      rw [← hI.fifo, hq]; simp
    · exact hI.perprod
    · intro x
      have := hI.mset x
      rw [hq] at this
      show ((s.taken ++ [op]) ++ rest ++ s.todo.flatten).count x = _
      simpa [List.count_append, List.count_cons] using this
    · exact hI.closedTodo
    · exact hI.subm_ids
  | w_closed i hget hq hcl =>
    refine invB_congr hI rfl rfl rfl rfl rfl ?_
    intro x
    have := (set_facts s.ws i _ WPc.tokret hget).2.2.2.2 x
    simp only [results_count, held, handed, allDelivered, heldOf] at this ⊢
    simp at this; omega
  | w_hand i pc pc' r w' k rest hget hheld hheld' hc0 hq =>
    have hk := hC.rq_coh k (by rw [hq]; simp)
    have hklt : k < s.handoff.length := by rw [hC.hlen, ← hC.clen]; exact lt_of_getElem? hk.1
    have hkn := getElem?_of_getD_none hklt hk.2
    refine invB_congr hI rfl rfl rfl rfl rfl ?_
    intro x
    have h1 := (set_facts s.ws i _ pc' hget).2.2.2.2 x
    have h2 := handed_set_some hkn r x
    have hheld'' : heldOf pc' = none := by rcases hheld' with e | e <;> subst e <;> rfl
    rw [hheld, hheld''] at h1
    simp only [Option.toList, List.count_nil] at h1
    simp only [results_count, held, handed, allDelivered] at h1 h2 ⊢
    omega
  | w_buf i pc pc' r w' hget hheld hheld' hc0 hq hroom =>
    refine invB_congr hI rfl rfl rfl rfl rfl ?_
    intro x
    have h1 := (set_facts s.ws i _ pc' hget).2.2.2.2 x
    have hheld'' : heldOf pc' = none := by rcases hheld' with e | e <;> subst e <;> rfl
    rw [hheld, hheld''] at h1
    simp only [Option.toList, List.count_nil] at h1
    simp only [results_count, held, handed, allDelivered, List.count_append] at h1 ⊢
    omega
  | w_exit i cl hget hcl =>
    refine invB_congr hI rfl rfl rfl rfl rfl ?_
    intro x
    have := (set_facts s.ws i _ WPc.done hget).2.2.2.2 x
    simp only [results_count, held, handed, allDelivered, heldOf] at this ⊢
    simp at this; omega
  | p_submit p op rest hget hncl hroom =>
    have hplt := lt_of_getElem? hget
    constructor
    · simp [hI.tlen]
    · exact hI.counts
    · show s.taken ++ (s.inq ++ [op]) = (s.subm ++ [(p, op)]).map Prod.snd
      rw [← List.append_assoc, hI.fifo]; simp
    · intro q
      have := hI.perprod q
      show ((s.subm ++ [(p, op)]).filter (·.1 == q)).map Prod.snd ++ (s.todo.set p rest).getD q [] = _
      rw [getD_set, List.filter_append, List.map_append]
      by_cases e : p = q
      · subst e
        rw [getD_of_getElem? hget] at this
        simp only [submittedBy] at this
        rw [← this]
        simp [hplt]
      · have e' : (p == q) = false := by simpa using e
        rw [if_neg e]
        simp only [submittedBy] at this
        rw [← this]
        simp [e']
    · intro x
      have h1 := hI.mset x
      have h2 := count_flatten_set s.todo p (op :: rest) rest hget x
      show (s.taken ++ (s.inq ++ [op]) ++ (s.todo.set p rest).flatten).count x = _
      simp only [List.count_append, List.count_cons, List.count_nil] at h1 h2 ⊢
      omega
    · intro hcl
      have : s.inClosed = true := hcl
      rw [hncl] at this; cases this
    · intro e he
      have he' : e ∈ s.subm ++ [(p, op)] := he
      rcases List.mem_append.1 he' with h' | h'
      · exact hI.subm_ids e h'
      · simp at h'; subst h'; rw [← hI.tlen]; exact hplt
  | p_close p hall hncl hwc =>
    constructor
    · exact hI.tlen
    · exact hI.counts
    · exact hI.fifo
    · exact hI.perprod
    · exact hI.mset
    · intro _; exact hall
    · exact hI.subm_ids
  | c_take k r rest hget hq =>
    have hklt : k < s.delivered.length := by rw [hC.dlen, ← hC.clen]; exact lt_of_getElem? hget
    have hdk : s.delivered[k]? = some (s.delivered.getD k []) := by
      simp [List.getD_eq_getElem?_getD, hklt]
    refine invB_congr hI rfl rfl rfl rfl rfl ?_
    intro x
    have h2 := count_flatten_set s.delivered k _ (s.delivered.getD k [] ++ [r]) hdk x
    have h3 : (r :: rest).count x = [r].count x + rest.count x := by
      rw [← List.count_append]; rfl
    simp only [results_count, held, handed, allDelivered, hq, List.count_append] at h2 ⊢
    omega
  | c_seen_ready k hget hq hcl => exact invB_congr hI rfl rfl rfl rfl rfl (fun _ => rfl)
  | c_wait k hget hq hcl => exact invB_congr hI rfl rfl rfl rfl rfl (fun _ => rfl)
  | c_hand k r hget hh =>
    have hklt : k < s.delivered.length := by rw [hC.dlen, ← hC.clen]; exact lt_of_getElem? hget
    have hdk : s.delivered[k]? = some (s.delivered.getD k []) := by
      simp [List.getD_eq_getElem?_getD, hklt]
    have hks := getElem?_of_getD_some hh
    refine invB_congr hI rfl rfl rfl rfl rfl ?_
    intro x
    have h1 := handed_set_none hks x
    have h2 := count_flatten_set s.delivered k _ (s.delivered.getD k [] ++ [r]) hdk x
    simp only [results_count, held, handed, allDelivered, List.count_append] at h1 h2 ⊢
    omega
  | c_seen_recv k hget hh hcl => exact invB_congr hI rfl rfl rfl rfl rfl (fun _ => rfl)
  | stop hst => exact invB_congr hI rfl rfl rfl rfl rfl (fun _ => rfl)
  | wait hwr hwg => exact invB_congr hI rfl rfl rfl rfl rfl (fun _ => rfl)

theorem invB_reach (hfix : c.fixed = true) (ht : 0 < c.threads) :
    ∀ s, Reach (sys c) s → InvB c s :=
  inv_induction' (S := sys c) (InvB c) (invB_init c)
    (fun _ _ _ hr hI h => invB_step hfix (invA_reach hfix ht _ hr) (invC_reach hfix ht _ hr) hI h)

/-! ### the three layers together -/

structure Inv (c : Cfg) (s : St) : Prop where
  a : InvA c s
  b : InvB c s
  c' : InvC c s

theorem inv_init (c : Cfg) (ht : 0 < c.threads) : Inv c (init c) :=
  ⟨invA_init c ht, invB_init c, invC_init c⟩

theorem inv_step (hfix : c.fixed = true) {a : Actor} (hI : Inv c s) (h : step c s a = some s') : Inv c s' :=
  ⟨invA_step hfix hI.a h, invB_step hfix hI.a hI.c' hI.b h, invC_step hfix hI.a hI.c' h⟩

/-- the invariant holds in every reachable state of the repaired protocol -/
theorem inv_reach (hfix : c.fixed = true) (ht : 0 < c.threads) :
    ∀ s, Reach (sys c) s → Inv c s :=
  inv_induction (S := sys c) (Inv c) (inv_init c ht) (fun _ _ _ hI h => inv_step hfix hI h)

/-! ### termination: a variant that every step decreases -/

def rank : WPc → Nat
  | .idle => 3 | .recv => 2 | .send _ => 5 | .sendErr _ => 5 | .tokret => 1 | .done => 0

def crank : CPc → Nat
  | .ready => 2 | .receiving => 1 | .closedSeen => 0

def rankSum (ws : List WPc) : Nat := (ws.map rank).sum

def crankSum (cs : List CPc) : Nat := (cs.map crank).sum

/-- operations not yet submitted -/
def todoLen (todo : List (List Op)) : Nat := (todo.map List.length).sum

/-- hand-overs under way -/
def nHand (ho : List (Option Res)) : Nat := ho.countP Option.isSome

def mu (c : Cfg) (s : St) : Nat :=
  5 * todoLen s.todo + (if c.wantClose && !s.inClosed then 1 else 0) + 4 * s.inq.length + rankSum s.ws
  + s.outq.length + 2 * nHand s.handoff + crankSum s.cpcs
  + (if s.stop then 0 else 1) + (if s.waitReturned then 0 else 1)

theorem sum_map_set' {α : Type} (f : α → Nat) (l : List α) (i : Nat) (a b : α) (h : l[i]? = some a) :
    ((l.set i b).map f).sum + f a = (l.map f).sum + f b := by
  induction l generalizing i with
  | nil => simp at h
  | cons x xs ih =>
    cases i with
    | zero => simp at h; subst h; simp; omega
    | succ n => simp at h; have := ih n h; simp at this ⊢; omega

theorem rankSum_set (ws : List WPc) (i : Nat) (a b : WPc) (h : ws[i]? = some a) :
    rankSum (ws.set i b) + rank a = rankSum ws + rank b := sum_map_set' rank ws i a b h

theorem crankSum_set (cs : List CPc) (i : Nat) (a b : CPc) (h : cs[i]? = some a) :
    crankSum (cs.set i b) + crank a = crankSum cs + crank b := sum_map_set' crank cs i a b h

theorem todoLen_set (todo : List (List Op)) (p : Nat) (a b : List Op) (h : todo[p]? = some a) :
    todoLen (todo.set p b) + a.length = todoLen todo + b.length := sum_map_set' List.length todo p a b h

theorem nHand_set (ho : List (Option Res)) (k : Nat) (a b : Option Res) (h : ho[k]? = some a) :
    nHand (ho.set k b) + (if a.isSome then 1 else 0) = nHand ho + (if b.isSome then 1 else 0) :=
  countP_set Option.isSome ho k a b h

theorem rank_held {pc : WPc} {r : Res} (h : heldOf pc = some r) : rank pc = 5 := by
  cases pc <;> simp [heldOf] at h <;> rfl

theorem mu_step (hfix : c.fixed = true) {a : Actor}
    (hI : Inv c s) (h : step c s a = some s') : mu c s' < mu c s := by
  cases shape_of_step hfix hI.a h with
  | w_idle i hget hw =>
    have hr := rankSum_set s.ws i _ WPc.recv hget
    simp only [mu, rank] at hr ⊢; omega
  | w_take i op rest hget hq =>
    have hr := rankSum_set s.ws i _ (if op.isPan then WPc.sendErr (eval op) else WPc.send (eval op)) hget
    have h5 : rank (if op.isPan then WPc.sendErr (eval op) else WPc.send (eval op)) = 5 := by
      cases op.isPan <;> rfl
    rw [h5] at hr
    simp only [mu, rank, hq, List.length_cons] at hr ⊢; omega
  | w_closed i hget hq hcl =>
    have hr := rankSum_set s.ws i _ WPc.tokret hget
    simp only [mu, rank] at hr ⊢; omega
  | w_hand i pc pc' r w' k rest hget hheld hheld' hc0 hq =>
    have hk := hI.c'.rq_coh k (by rw [hq]; simp)
    have hklt : k < s.handoff.length := by rw [hI.c'.hlen, ← hI.c'.clen]; exact lt_of_getElem? hk.1
    have hn := nHand_set s.handoff k none (some r) (getElem?_of_getD_none hklt hk.2)
    have hr := rankSum_set s.ws i _ pc' hget
    rw [rank_held hheld] at hr
    have : rank pc' ≤ 2 := by rcases hheld' with e | e <;> subst e <;> simp [rank]
    simp only [mu] at hr hn ⊢
    simp at hn; omega
  | w_buf i pc pc' r w' hget hheld hheld' hc0 hq hroom =>
    have hr := rankSum_set s.ws i _ pc' hget
    rw [rank_held hheld] at hr
    have : rank pc' ≤ 2 := by rcases hheld' with e | e <;> subst e <;> simp [rank]
    simp only [mu, List.length_append, List.length_cons, List.length_nil] at hr ⊢; omega
  | w_exit i cl hget hcl =>
    have hr := rankSum_set s.ws i _ WPc.done hget
    simp only [mu, rank] at hr ⊢; omega
  | p_submit p op rest hget hncl hroom =>
    have ht := todoLen_set s.todo p _ rest hget
    simp only [mu, List.length_append, List.length_cons, List.length_nil] at ht ⊢; omega
  | p_close p hall hncl hwc =>
    simp only [mu, hwc, hncl]; simp
  | c_take k r rest hget hq =>
    simp only [mu, hq, List.length_cons]; omega
  | c_seen_ready k hget hq hcl =>
    have hr := crankSum_set s.cpcs k _ CPc.closedSeen hget
    simp only [mu, crank] at hr ⊢; omega
  | c_wait k hget hq hcl =>
    have hr := crankSum_set s.cpcs k _ CPc.receiving hget
    simp only [mu, crank] at hr ⊢; omega
  | c_hand k r hget hh =>
    have hr := crankSum_set s.cpcs k _ CPc.ready hget
    have hn := nHand_set s.handoff k (some r) none (getElem?_of_getD_some hh)
    simp only [mu, crank] at hr hn ⊢
    simp at hn; omega
  | c_seen_recv k hget hh hcl =>
    have hr := crankSum_set s.cpcs k _ CPc.closedSeen hget
    simp only [mu, crank] at hr ⊢; omega
  | stop hst => simp only [mu, hst]; simp
  | wait hwr hwg => simp only [mu, hwr]; simp

/-! ### progress: with the queue closed, a state where no worker and no collector can move is the
clean final state (at least one collector exists) -/

/-- a collector that is not enabled has seen `out` closed, or waits in `recvq` with `out` open -/
theorem collector_stuck (hI : Inv c s) {k : Nat} {pc : CPc} (hget : s.cpcs[k]? = some pc)
    (hc : collectorStep s k = none) :
    pc = .closedSeen ∨ (pc = .receiving ∧ k ∈ s.recvq ∧ s.closes = 0) := by
  simp only [collectorStep, hget] at hc
  cases pc with
  | ready =>
    simp only at hc
    split at hc
    · cases hc
    · split at hc <;> cases hc
  | receiving =>
    right
    simp only at hc
    split at hc
    · cases hc
    · rename_i hh
      split at hc
      · cases hc
      · rename_i hcl
        rcases hI.c'.recv_coh k hget with h' | h'
        · exact ⟨rfl, h', by omega⟩
        · rw [hh] at h'; cases h'
  | closedSeen => left; rfl

theorem send_blocked_absurd (hn : 0 < c.ncoll) (hI : Inv c s) (hc0 : s.closes = 0)
    (hrq : s.recvq = []) (hc : ∀ k, collectorStep s k = none) : False := by
  have hlt : 0 < s.cpcs.length := by rw [hI.c'.clen]; exact hn
  have hget : s.cpcs[0]? = some s.cpcs[0] := by simp [hlt]
  rcases collector_stuck hI hget (hc 0) with h' | ⟨_, h', _⟩
  · rw [h'] at hget
    have := (hI.c'.seen_coh 0 hget).2
    omega
  · rw [hrq] at h'; cases h'

theorem stuck_worker_done (hn : 0 < c.ncoll) (hI : Inv c s) (hcl : s.inClosed = true) {i : Nat} {pc : WPc}
    (hget : s.ws[i]? = some pc)
    (hw : workerStep c s i = none) (hc : ∀ k, collectorStep s k = none) : pc = .done := by
  have hnc := hI.a.nocrash
  cases pc with
  | idle =>
    simp only [workerStep, hget] at hw
    split at hw
    · cases hw
    · have h1 := countP_lt_length_of WPc.holds s.ws i _ hget rfl
      have h2 := hI.a.tokens
      have h3 := hI.a.len
      omega
  | recv =>
    simp only [workerStep, hget] at hw
    split at hw
    · cases hw
    · simp [hcl] at hw
  | send r =>
    exfalso
    simp only [workerStep, hget] at hw
    have ⟨hc0, _⟩ := closes_zero_of_active hI.a hget (pc := .send r) rfl
    have hgt : ¬ (s.closes > 0) := by omega
    cases hrq : s.recvq with
    | nil => exact send_blocked_absurd hn hI hc0 hrq hc
    | cons k rest => cases hst : s.stop <;> simp [sendOut, hgt, hrq, hnc, hst] at hw
  | sendErr r =>
    exfalso
    simp only [workerStep, hget] at hw
    have ⟨hc0, _⟩ := closes_zero_of_active hI.a hget (pc := .sendErr r) rfl
    have hgt : ¬ (s.closes > 0) := by omega
    cases hrq : s.recvq with
    | nil => exact send_blocked_absurd hn hI hc0 hrq hc
    | cons k rest => simp [sendOut, hgt, hrq, hnc] at hw
  | tokret => simp [workerStep, hget] at hw
  | done => rfl

theorem allDone_iff (hI : Inv c s) : allDone s = true ↔ s.exited = c.threads := by
  rw [hI.a.exited_eq, ← hI.a.len, List.countP_eq_length]
  simp [allDone, List.all_eq_true]

theorem stuck_final (hn : 0 < c.ncoll) (hI : Inv c s) (hcl : s.inClosed = true)
    (hw : ∀ i, step c s (.worker i) = none) (hc : ∀ k, step c s (.collector k) = none) :
    allDone s = true ∧ s.closes = 1 ∧ s.wgDone = c.threads ∧ allSeen s = true := by
  have hnc := hI.a.nocrash
  simp only [step, hnc, Option.isSome_none, Bool.false_eq_true, if_false] at hw hc
  have hall : allDone s = true := by
    simp only [allDone, List.all_eq_true]
    intro pc hmem
    obtain ⟨i, hi, hget⟩ := List.getElem_of_mem hmem
    have hget' : s.ws[i]? = some pc := by simp [hi, hget]
    have := stuck_worker_done hn hI hcl hget' (hw i) hc
    subst this; rfl
  have hex := (allDone_iff hI).1 hall
  have hcloses : s.closes = 1 := by have := hI.a.closes_eq; simp [hex] at this; exact this
  refine ⟨hall, hcloses, by rw [hI.a.wg_eq, hex], ?_⟩
  simp only [allSeen, List.all_eq_true]
  intro pc hmem
  obtain ⟨k, hk, hget⟩ := List.getElem_of_mem hmem
  have hget' : s.cpcs[k]? = some pc := by simp [hk, hget]
  rcases collector_stuck hI hget' (hc k) with h' | ⟨_, _, h'⟩
  · subst h'; rfl
  · omega

end Biogo.Processor
