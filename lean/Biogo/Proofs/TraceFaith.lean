/-
Faithful pair scores: as long as the traceback only takes `case`s that belong to its current
layer (the ghost flag `TB.tie` stays false), the score accumulated for the current segment is
the score recomputed from the letters — a block is the sum of its letter pairs, a gap run is
its per-letter gap scores plus `gapOpen` exactly when the run has been closed by its opening
step.  The layer-aware switch (after the repair of K5) never raises the flag
(`loop_tie_aware`), so for it the invariant holds unconditionally (`loop_faith_aware`); the
layer-blind switch it replaced could (finding K5).  Core only.
-/
import Biogo.Proofs.TraceWF
import Biogo.Proofs.TraceSum

set_option linter.unusedVariables false

namespace Biogo.Proofs.TraceFaith
open Biogo.Spec.Alignment Biogo.AlignAff Biogo.Spec.AffPairs Biogo.Proofs.TraceWF

theorem sumRange_zero (f : Nat → Int) : sumRange 0 f = 0 := rfl

theorem sumRange_succ (n : Nat) (f : Nat → Int) :
    sumRange (n + 1) f = f 0 + sumRange n (fun k => f (k + 1)) := by
  simp only [sumRange, List.range_succ_eq_map, List.map_cons, List.sum_cons, List.map_map]
  rfl

def blockSum (S : Matrix) (r q : List Nat) (i j n : Nat) : Int :=
  sumRange n fun k => S (r.getD (i + k) 0) (q.getD (j + k) 0)
def upSum (S : Matrix) (r : List Nat) (i n : Nat) : Int := sumRange n fun k => S (r.getD (i + k) 0) 0
def leftSum (S : Matrix) (q : List Nat) (j n : Nat) : Int := sumRange n fun k => S 0 (q.getD (j + k) 0)

theorem blockSum_succ (S : Matrix) (r q : List Nat) (i j n : Nat) :
    blockSum S r q i j (n + 1) = S (r.getD i 0) (q.getD j 0) + blockSum S r q (i + 1) (j + 1) n := by
  simp only [blockSum, sumRange_succ, Nat.add_zero]
  congr 2
  funext k
  rw [Nat.add_assoc, Nat.add_comm 1 k, Nat.add_assoc j, Nat.add_comm 1 k]

theorem upSum_succ (S : Matrix) (r : List Nat) (i n : Nat) :
    upSum S r i (n + 1) = S (r.getD i 0) 0 + upSum S r (i + 1) n := by
  simp only [upSum, sumRange_succ, Nat.add_zero]
  congr 2
  funext k
  rw [Nat.add_assoc, Nat.add_comm 1 k]

theorem leftSum_succ (S : Matrix) (q : List Nat) (j n : Nat) :
    leftSum S q j (n + 1) = S 0 (q.getD j 0) + leftSum S q (j + 1) n := by
  simp only [leftSum, sumRange_succ, Nat.add_zero]
  congr 2
  funext k
  rw [Nat.add_assoc, Nat.add_comm 1 k]

/-- a pair with the recomputed score -/
def pairOK (S : Matrix) (o : Int) (r q : List Nat) (p : Pair) : Bool := p.score == pairScore S o r q p

theorem pairOK_block (S : Matrix) (o : Int) (r q : List Nat) (i mi j mj : Nat) (hi : i ≤ mi)
    (h : mi - i = mj - j) :
    pairOK S o r q ⟨i, mi, j, mj, blockSum S r q i j (mi - i)⟩ = true := by
  simp only [pairOK, pairScore, beq_iff_eq]
  by_cases h0 : mi - i = 0
  · have : mj - j = 0 := by omega
    simp [h0, this, blockSum, sumRange_zero]
  · have : ¬ (mi - i = 0 ∧ mj - j = 0) := fun hh => h0 hh.1
    rw [if_neg this, if_pos h]
    rfl

theorem pairOK_up (S : Matrix) (o : Int) (r q : List Nat) (i mi j : Nat) (hi : i < mi) :
    pairOK S o r q ⟨i, mi, j, j, o + upSum S r i (mi - i)⟩ = true := by
  have h2 : mi - i ≠ 0 := by omega
  simp [pairOK, pairScore, h2, upSum]

theorem pairOK_left (S : Matrix) (o : Int) (r q : List Nat) (i j mj : Nat) (hj : j < mj) :
    pairOK S o r q ⟨i, i, j, mj, o + leftSum S q j (mj - j)⟩ = true := by
  have h2 : (0 : Nat) ≠ mj - j := by omega
  have h3 : mj - j ≠ 0 := by omega
  simp [pairOK, pairScore, h2, h3, leftSum]

/-- the score invariant of the traceback loop -/
structure Faith (S : Matrix) (o : Int) (r q : List Nat) (st : TB) : Prop where
  done : st.aln.all (pairOK S o r q) = true
  segm : st.last = .m → st.score = blockSum S r q st.i st.j (st.maxI - st.i)
  -- a gap run still in its own layer has not been charged `gapOpen` yet; once it has left
  -- its layer (for the match layer or, since the repair of K1, the other gap layer) it has
  segu : st.last = .u → (st.layer = .u → st.score = upSum S r st.i (st.maxI - st.i)) ∧
    (st.layer ≠ .u → st.score = o + upSum S r st.i (st.maxI - st.i))
  segl : st.last = .l → (st.layer = .l → st.score = leftSum S q st.j (st.maxJ - st.j)) ∧
    (st.layer ≠ .l → st.score = o + leftSum S q st.j (st.maxJ - st.j))
  termi : st.i = 0 → st.last ≠ .l
  termj : st.j = 0 → st.last ≠ .u

theorem cands_cases {cross sw : Bool} {S : Matrix} {o : Int} {x y : Nat} {mv pl : Kind} {add : Int}
    (h : (mv, pl, add) ∈ cands cross sw S o x y) :
    (mv = .u ∧ ((pl = .u ∧ add = S x 0) ∨ (pl ≠ .u ∧ add = o + S x 0))) ∨
    (mv = .l ∧ ((pl = .l ∧ add = S 0 y) ∨ (pl ≠ .l ∧ add = o + S 0 y))) ∨
    (mv = .m ∧ add = S x y) := by
  cases cross <;> cases sw <;> simp [cands] at h
  · rcases h with ⟨rfl, rfl, rfl⟩ | ⟨rfl, rfl, rfl⟩ | ⟨rfl, rfl, rfl⟩ | ⟨rfl, rfl, rfl⟩ | ⟨rfl, rfl, rfl⟩ |
      ⟨rfl, rfl, rfl⟩ | ⟨rfl, rfl, rfl⟩ <;> simp
  · rcases h with ⟨rfl, rfl, rfl⟩ | ⟨rfl, rfl, rfl⟩ | ⟨rfl, rfl, rfl⟩ | ⟨rfl, rfl, rfl⟩ | ⟨rfl, rfl, rfl⟩ |
      ⟨rfl, rfl, rfl⟩ | ⟨rfl, rfl, rfl⟩ <;> simp
  · rcases h with ⟨rfl, rfl, rfl⟩ | ⟨rfl, rfl, rfl⟩ | ⟨rfl, rfl, rfl⟩ | ⟨rfl, rfl, rfl⟩ | ⟨rfl, rfl, rfl⟩ |
      ⟨rfl, rfl, rfl⟩ | ⟨rfl, rfl, rfl⟩ | ⟨rfl, rfl, rfl⟩ | ⟨rfl, rfl, rfl⟩ <;> simp
  · rcases h with ⟨rfl, rfl, rfl⟩ | ⟨rfl, rfl, rfl⟩ | ⟨rfl, rfl, rfl⟩ | ⟨rfl, rfl, rfl⟩ | ⟨rfl, rfl, rfl⟩ |
      ⟨rfl, rfl, rfl⟩ | ⟨rfl, rfl, rfl⟩ | ⟨rfl, rfl, rfl⟩ | ⟨rfl, rfl, rfl⟩ <;> simp

/-- an `up` step that belongs to the current layer keeps the score invariant -/
theorem move_faith_u {S : Matrix} {o : Int} {r q : List Nat} {R C I0 J0 : Nat} {st : TB}
    (hinv : Inv R C I0 J0 st) (hf : Faith S o r q st) (hi0 : 0 < st.i) (hj0 : 0 < st.j)
    (hR : st.i ≤ R) (hC : st.j ≤ C) (pl : Kind) (v pv : Int) (hlayer : st.layer = .u)
    (hpl : (pl = .u ∧ v - pv = S (r.getD (st.i - 1) 0) 0) ∨
           (pl ≠ .u ∧ v - pv = o + S (r.getD (st.i - 1) 0) 0)) :
    Faith S o r q (st.move (decide (st.i = R ∧ st.j = C)) .u pl v pv) := by
  obtain ⟨hi, hj, hmR, hmC, isegm, isegu, isegl, iempty0, _, _, _, _⟩ := hinv
  obtain ⟨done, segm, segu, segl, termi, termj⟩ := hf
  have hsucc : st.i - 1 + 1 = st.i := by omega
  by_cases hc : st.last ≠ .u ∧ ((Kind.u : Kind) = .m ∨ ¬ decide (st.i = R ∧ st.j = C) = true)
  · rw [move_emit st _ .u pl v pv hc]
    have hpair : pairOK S o r q ⟨st.i, st.maxI, st.j, st.maxJ, st.score⟩ = true := by
      cases h : st.last with
      | m => rw [segm h]; exact pairOK_block S o r q _ _ _ _ hi (isegm h)
      | u => exact absurd h hc.1
      | l =>
        -- the run of query letters against gaps just closed by its opening step from `up`
        obtain ⟨e1, e2⟩ := isegl h
        have e2' : st.j < st.maxJ := by
          rcases e2 with e2 | e2
          · exact e2
          · rw [hlayer] at e2; cases e2
        rw [(segl h).2 (by rw [hlayer]; decide), ← e1]
        exact pairOK_left S o r q _ _ _ e2'
    refine ⟨by simp only [List.all_cons, hpair, done, Bool.and_self], (fun h => by cases h), ?_,
      (fun h => by cases h), (fun _ h => by cases h), (fun h => by simp at h; omega)⟩
    intro _
    simp only [if_neg (show ¬ (Kind.u = Kind.l) by decide)]
    have h1 : st.i - (st.i - 1) = 1 := by omega
    rw [h1, upSum_succ, hsucc]
    simp only [upSum, sumRange_zero]
    rcases hpl with ⟨rfl, e⟩ | ⟨hne, e⟩
    · exact ⟨(fun _ => by omega), (fun h => absurd rfl h)⟩
    · exact ⟨(fun h => absurd h hne), (fun _ => by omega)⟩
  · rw [move_keep st _ .u pl v pv hc]
    have hscore : st.score = upSum S r st.i (st.maxI - st.i) := by
      by_cases hl : st.last = .u
      · exact (segu hl).1 hlayer
      · -- direction changes without emission only at the very first step: the segment is empty
        have hend : st.i = R ∧ st.j = C := by
          have : ¬ ((Kind.u : Kind) = .m ∨ ¬ decide (st.i = R ∧ st.j = C) = true) := fun h => hc ⟨hl, h⟩
          have h2 : decide (st.i = R ∧ st.j = C) = true := by
            cases hd : decide (st.i = R ∧ st.j = C) with
            | true => rfl
            | false => exact absurd (Or.inr (by simp [hd])) this
          simpa using h2
        have e1 : st.maxI = st.i := by omega
        have e2 : st.maxJ = st.j := by omega
        rw [iempty0 e1.symm e2.symm, e1]
        simp [upSum, sumRange_zero]
    refine ⟨done, (fun h => by cases h), ?_, (fun h => by cases h), (fun _ h => by cases h),
      (fun h => by simp at h; omega)⟩
    intro _
    simp only [if_neg (show ¬ (Kind.u = Kind.l) by decide)]
    have h1 : st.maxI - (st.i - 1) = (st.maxI - st.i) + 1 := by omega
    rw [h1, upSum_succ, hsucc, hscore]
    rcases hpl with ⟨rfl, e⟩ | ⟨hne, e⟩
    · exact ⟨(fun _ => by omega), (fun h => absurd rfl h)⟩
    · exact ⟨(fun h => absurd h hne), (fun _ => by omega)⟩

/-- a `left` step that belongs to the current layer keeps the score invariant -/
theorem move_faith_l {S : Matrix} {o : Int} {r q : List Nat} {R C I0 J0 : Nat} {st : TB}
    (hinv : Inv R C I0 J0 st) (hf : Faith S o r q st) (hi0 : 0 < st.i) (hj0 : 0 < st.j)
    (hR : st.i ≤ R) (hC : st.j ≤ C) (pl : Kind) (v pv : Int) (hlayer : st.layer = .l)
    (hpl : (pl = .l ∧ v - pv = S 0 (q.getD (st.j - 1) 0)) ∨
           (pl ≠ .l ∧ v - pv = o + S 0 (q.getD (st.j - 1) 0))) :
    Faith S o r q (st.move (decide (st.i = R ∧ st.j = C)) .l pl v pv) := by
  obtain ⟨hi, hj, hmR, hmC, isegm, isegu, isegl, iempty0, _, _, _, _⟩ := hinv
  obtain ⟨done, segm, segu, segl, termi, termj⟩ := hf
  have hsucc : st.j - 1 + 1 = st.j := by omega
  by_cases hc : st.last ≠ .l ∧ ((Kind.l : Kind) = .m ∨ ¬ decide (st.i = R ∧ st.j = C) = true)
  · rw [move_emit st _ .l pl v pv hc]
    have hpair : pairOK S o r q ⟨st.i, st.maxI, st.j, st.maxJ, st.score⟩ = true := by
      cases h : st.last with
      | m => rw [segm h]; exact pairOK_block S o r q _ _ _ _ hi (isegm h)
      | l => exact absurd h hc.1
      | u =>
        obtain ⟨e1, e2⟩ := isegu h
        have e2' : st.i < st.maxI := by
          rcases e2 with e2 | e2
          · exact e2
          · rw [hlayer] at e2; cases e2
        rw [(segu h).2 (by rw [hlayer]; decide), ← e1]
        exact pairOK_up S o r q _ _ _ e2'
    refine ⟨by simp only [List.all_cons, hpair, done, Bool.and_self], (fun h => by cases h),
      (fun h => by cases h), ?_, (fun h => by simp at h; omega), (fun _ h => by cases h)⟩
    intro _
    simp only [if_neg (show ¬ (Kind.l = Kind.u) by decide)]
    have h1 : st.j - (st.j - 1) = 1 := by omega
    rw [h1, leftSum_succ, hsucc]
    simp only [leftSum, sumRange_zero]
    rcases hpl with ⟨rfl, e⟩ | ⟨hne, e⟩
    · exact ⟨(fun _ => by omega), (fun h => absurd rfl h)⟩
    · exact ⟨(fun h => absurd h hne), (fun _ => by omega)⟩
  · rw [move_keep st _ .l pl v pv hc]
    have hscore : st.score = leftSum S q st.j (st.maxJ - st.j) := by
      by_cases hl : st.last = .l
      · exact (segl hl).1 hlayer
      · have hend : st.i = R ∧ st.j = C := by
          have : ¬ ((Kind.l : Kind) = .m ∨ ¬ decide (st.i = R ∧ st.j = C) = true) := fun h => hc ⟨hl, h⟩
          have h2 : decide (st.i = R ∧ st.j = C) = true := by
            cases hd : decide (st.i = R ∧ st.j = C) with
            | true => rfl
            | false => exact absurd (Or.inr (by simp [hd])) this
          simpa using h2
        have e1 : st.maxI = st.i := by omega
        have e2 : st.maxJ = st.j := by omega
        rw [iempty0 e1.symm e2.symm, e2]
        simp [leftSum, sumRange_zero]
    refine ⟨done, (fun h => by cases h), (fun h => by cases h), ?_, (fun h => by simp at h; omega),
      (fun _ h => by cases h)⟩
    intro _
    simp only [if_neg (show ¬ (Kind.l = Kind.u) by decide)]
    have h1 : st.maxJ - (st.j - 1) = (st.maxJ - st.j) + 1 := by omega
    rw [h1, leftSum_succ, hsucc, hscore]
    rcases hpl with ⟨rfl, e⟩ | ⟨hne, e⟩
    · exact ⟨(fun _ => by omega), (fun h => absurd rfl h)⟩
    · exact ⟨(fun h => absurd h hne), (fun _ => by omega)⟩

/-- a diagonal step that belongs to the current layer keeps the score invariant -/
theorem move_faith_m {S : Matrix} {o : Int} {r q : List Nat} {R C I0 J0 : Nat} {st : TB}
    (hinv : Inv R C I0 J0 st) (hf : Faith S o r q st) (hi0 : 0 < st.i) (hj0 : 0 < st.j)
    (pl : Kind) (v pv : Int) (hlayer : st.layer = .m)
    (hadd : v - pv = S (r.getD (st.i - 1) 0) (q.getD (st.j - 1) 0)) :
    Faith S o r q (st.move (decide (st.i = R ∧ st.j = C)) .m pl v pv) := by
  obtain ⟨hi, hj, hmR, hmC, isegm, isegu, isegl, iempty0, _, _, _, _⟩ := hinv
  obtain ⟨done, segm, segu, segl, termi, termj⟩ := hf
  have hsi : st.i - 1 + 1 = st.i := by omega
  have hsj : st.j - 1 + 1 = st.j := by omega
  by_cases hc : st.last ≠ .m ∧ ((Kind.m : Kind) = .m ∨ ¬ decide (st.i = R ∧ st.j = C) = true)
  · rw [move_emit st _ .m pl v pv hc]
    have hpair : pairOK S o r q ⟨st.i, st.maxI, st.j, st.maxJ, st.score⟩ = true := by
      cases hl : st.last with
      | m => exact absurd hl hc.1
      | u =>
        obtain ⟨e1, e2⟩ := isegu hl
        have e2' : st.i < st.maxI := by
          rcases e2 with e2 | e2
          · exact e2
          · rw [hlayer] at e2; cases e2
        rw [(segu hl).2 (by rw [hlayer]; decide), ← e1]
        exact pairOK_up S o r q _ _ _ e2'
      | l =>
        obtain ⟨e1, e2⟩ := isegl hl
        have e2' : st.j < st.maxJ := by
          rcases e2 with e2 | e2
          · exact e2
          · rw [hlayer] at e2; cases e2
        rw [(segl hl).2 (by rw [hlayer]; decide), ← e1]
        exact pairOK_left S o r q _ _ _ e2'
    refine ⟨by simp only [List.all_cons, hpair, done, Bool.and_self], ?_, (fun h => by cases h),
      (fun h => by cases h), (fun _ h => by cases h), (fun _ h => by cases h)⟩
    intro _
    simp only [if_neg (show ¬ (Kind.m = Kind.l) by decide), if_neg (show ¬ (Kind.m = Kind.u) by decide)]
    have h1 : st.i - (st.i - 1) = 1 := by omega
    rw [h1, blockSum_succ, hsi, hsj]
    simp only [blockSum, sumRange_zero]
    omega
  · rw [move_keep st _ .m pl v pv hc]
    have hlm : st.last = .m := by
      cases h : st.last with
      | m => rfl
      | u => exact absurd ⟨by simp [h], Or.inl rfl⟩ hc
      | l => exact absurd ⟨by simp [h], Or.inl rfl⟩ hc
    refine ⟨done, ?_, (fun h => by cases h), (fun h => by cases h), (fun _ h => by cases h),
      (fun _ h => by cases h)⟩
    intro _
    simp only [if_neg (show ¬ (Kind.m = Kind.l) by decide), if_neg (show ¬ (Kind.m = Kind.u) by decide)]
    have h1 : st.maxI - (st.i - 1) = (st.maxI - st.i) + 1 := by omega
    rw [h1, blockSum_succ, hsi, hsj, segm hlm]
    omega

theorem move_tie (st : TB) (e : Bool) (mv pl : Kind) (v pv : Int) :
    (st.move e mv pl v pv).tie = (st.tie || decide (st.layer ≠ mv)) := by
  by_cases h : st.last ≠ mv ∧ (mv = .m ∨ ¬ e = true)
  · rw [move_emit st e mv pl v pv h]
  · rw [move_keep st e mv pl v pv h]

/-- as long as no step leaves its layer, the score invariant holds along the loop -/
theorem loop_faith (aware cross sw : Bool) (T : Table) (S : Matrix) (o : Int) (r q : List Nat) (R C I0 J0 : Nat) :
    ∀ (fuel : Nat) (st st' : TB), Inv R C I0 J0 st → (st.tie = false → Faith S o r q st) →
      tbLoop aware cross sw T S o r q R C fuel st = .ok st' → (st'.tie = false → Faith S o r q st') := by
  intro fuel
  induction fuel with
  | zero => intro st st' _ hf hl; simp only [tbLoop] at hl; cases hl; exact hf
  | succ fuel ih =>
    intro st st' hinv hf hl
    unfold tbLoop at hl
    by_cases h0 : st.i = 0 ∨ st.j = 0
    · rw [if_pos h0] at hl; cases hl; exact hf
    rw [if_neg h0] at hl
    simp only [] at hl
    cases hv : (T.at st.i st.j).get st.layer with
    | none => rw [hv] at hl; cases hl
    | some v =>
      rw [hv] at hl
      simp only [] at hl
      by_cases hsw : (sw = true ∧ v = 0)
      · rw [if_pos hsw] at hl; cases hl; exact hf
      rw [if_neg hsw] at hl
      cases hfind : (cands cross sw S o (r.getD (st.i - 1) 0) (q.getD (st.j - 1) 0)).find?
          (caseHit aware T st v) with
      | none => rw [hfind] at hl; cases hl
      | some cd =>
        obtain ⟨mv, pl, add⟩ := cd
        rw [hfind] at hl
        simp only [] at hl
        have hmem := List.mem_of_find?_eq_some hfind
        have hp := Biogo.Proofs.TraceSum.caseHit_vadd (List.find?_some hfind)
        simp only [] at hp
        have hadd : v - vget ((predOf T st.i st.j mv).get pl) = add := by
          cases hx : (predOf T st.i st.j mv).get pl with
          | none => rw [hx] at hp; cases hp
          | some w =>
            rw [hx] at hp
            have : w + add = v := by simpa [vadd] using hp
            simp only [vget]; omega
        have hiR : st.i ≤ R := by have := hinv.hi; have := hinv.hR; omega
        have hjC : st.j ≤ C := by have := hinv.hj; have := hinv.hC; omega
        have hinv' := move_inv hinv (by omega) (by omega) hiR hjC mv pl v
          (vget ((predOf T st.i st.j mv).get pl))
        apply ih _ _ hinv' ?_ hl
        intro htie
        rw [move_tie] at htie
        have ht0 : st.tie = false := by
          cases h : st.tie with
          | false => rfl
          | true => rw [h] at htie; simp at htie
        have hlay : st.layer = mv := by
          rw [ht0] at htie
          simpa using htie
        have hf0 := hf ht0
        rcases cands_cases hmem with ⟨rfl, hpl⟩ | ⟨rfl, hpl⟩ | ⟨rfl, hs⟩
        · apply move_faith_u hinv hf0 (by omega) (by omega) hiR hjC pl v _ hlay
          rcases hpl with ⟨rfl, e⟩ | ⟨hne, e⟩
          · exact Or.inl ⟨rfl, by rw [hadd, e]⟩
          · exact Or.inr ⟨hne, by rw [hadd, e]⟩
        · apply move_faith_l hinv hf0 (by omega) (by omega) hiR hjC pl v _ hlay
          rcases hpl with ⟨rfl, e⟩ | ⟨hne, e⟩
          · exact Or.inl ⟨rfl, by rw [hadd, e]⟩
          · exact Or.inr ⟨hne, by rw [hadd, e]⟩
        · exact move_faith_m hinv hf0 (by omega) (by omega) pl v _ hlay (by rw [hadd, hs])

/-- the layer-aware switch only takes `case`s of the current layer: the ghost flag never changes -/
theorem loop_tie_aware (cross sw : Bool) (T : Table) (S : Matrix) (o : Int) (r q : List Nat) (R C : Nat) :
    ∀ (fuel : Nat) (st st' : TB), tbLoop true cross sw T S o r q R C fuel st = .ok st' → st'.tie = st.tie := by
  intro fuel
  induction fuel with
  | zero => intro st st' hl; simp only [tbLoop] at hl; cases hl; rfl
  | succ fuel ih =>
    intro st st' hl
    unfold tbLoop at hl
    by_cases h0 : st.i = 0 ∨ st.j = 0
    · rw [if_pos h0] at hl; cases hl; rfl
    rw [if_neg h0] at hl
    simp only [] at hl
    cases hv : (T.at st.i st.j).get st.layer with
    | none => rw [hv] at hl; cases hl
    | some v =>
      rw [hv] at hl
      simp only [] at hl
      by_cases hsw : (sw = true ∧ v = 0)
      · rw [if_pos hsw] at hl; cases hl; rfl
      rw [if_neg hsw] at hl
      cases hfind : (cands cross sw S o (r.getD (st.i - 1) 0) (q.getD (st.j - 1) 0)).find?
          (caseHit true T st v) with
      | none => rw [hfind] at hl; cases hl
      | some cd =>
        obtain ⟨mv, pl, add⟩ := cd
        rw [hfind] at hl
        simp only [] at hl
        have hlay : mv = st.layer := Biogo.Proofs.TraceSum.caseHit_layer (List.find?_some hfind)
        rw [ih _ _ hl, move_tie]
        simp [hlay]

/-- **the score invariant holds along the layer-aware loop**, unconditionally -/
theorem loop_faith_aware (cross sw : Bool) (T : Table) (S : Matrix) (o : Int) (r q : List Nat) (R C I0 J0 : Nat)
    (fuel : Nat) (st st' : TB) (hinv : Inv R C I0 J0 st) (ht : st.tie = false) (hf : Faith S o r q st)
    (hl : tbLoop true cross sw T S o r q R C fuel st = .ok st') : Faith S o r q st' :=
  loop_faith true cross sw T S o r q R C I0 J0 fuel st st' hinv (fun _ => hf) hl
    (by rw [loop_tie_aware cross sw T S o r q R C fuel st st' hl]; exact ht)

/-- the initial state -/
theorem init_faith (S : Matrix) (o : Int) (r q : List Nat) (I0 J0 : Nat) (layer : Kind) (hI : 0 < I0)
    (hJ : 0 < J0) :
    Faith S o r q { i := I0, j := J0, layer, last := .m, score := 0, maxI := I0, maxJ := J0, aln := [] } where
  done := rfl
  segm := fun _ => by simp [blockSum, sumRange_zero]
  segu := fun h => by cases h
  segl := fun h => by cases h
  termi := fun h => by simp only [] at h; omega
  termj := fun h => by simp only [] at h; omega

/-- the initial state of a traceback that starts in the run of its start layer (`last = layer`,
    FittedAffine): an empty run that has not been charged anything -/
theorem init_faith_layer (S : Matrix) (o : Int) (r q : List Nat) (I0 J0 : Nat) (layer : Kind) (hI : 0 < I0)
    (hJ : 0 < J0) :
    Faith S o r q { i := I0, j := J0, layer, last := layer, score := 0, maxI := I0, maxJ := J0, aln := [] } where
  done := rfl
  segm := fun _ => by simp [blockSum, sumRange_zero]
  segu := fun h => ⟨fun _ => by simp [upSum, sumRange_zero], fun hne => absurd h hne⟩
  segl := fun h => ⟨fun _ => by simp [leftSum, sumRange_zero], fun hne => absurd h hne⟩
  termi := fun h => by simp only [] at h; omega
  termj := fun h => by simp only [] at h; omega

theorem sumRange_succ_last (n : Nat) (f : Nat → Int) : sumRange (n + 1) f = sumRange n f + f n := by
  simp only [sumRange, List.range_succ, List.map_append, List.map_cons, List.map_nil, List.sum_append,
    List.sum_cons, List.sum_nil]
  omega

end Biogo.Proofs.TraceFaith
