/-
Soundness of the kernel model `Biogo.PalsKernel` (C15): every cell of the banded x-drop table is
the score of a path of kernel moves from the basis (`Reach`), hence the cell `traceCore` reports is
one (`traceCore_sound`); a path is an alignment of the letters it consumes (`Reach.aln`); the
mirrored run is an alignment of the original regions (`traceReverse_ok`: the model's
`traceReverse` keeps the contract `RevOK`); and every hit `alignRecursion` / `AlignTraps` of the
model emit satisfies `HitOK` (`emitted_ok`, `emitted_hitOK`).  Only the direction "a reported score
is attained by some alignment" is proved — no optimality within the band.  Core Lean only.
-/
import Biogo.Model.PalsKernel
import Biogo.Spec.PalsKernel
import Biogo.Proofs.PalsOracle

namespace Biogo.Proofs.PalsKernelSound
open Biogo.PalsKernel
open Biogo.PalsMerge (Trap)

/-- `Reach c v mid lo hi i j s`: some path of the kernel's moves leads from a basis cell
    `(mid, j0)`, `lo ≤ j0 ≤ hi`, to the cell `(i, j)` and scores `s` -/
inductive Reach (c : Costs) (v : View) (mid lo hi : Int) : Int → Int → Int → Prop
  | basis (j : Int) : lo ≤ j → j ≤ hi → Reach c v mid lo hi mid j 0
  | diag {i j s : Int} : Reach c v mid lo hi i j s →
      Reach c v mid lo hi (i + 1) (j + 1)
        ((if isMatch (v.qAt i) (v.tAt (j + 1)) then s + c.matchCost else s) - c.diffCost)
  | up {i j s : Int} : Reach c v mid lo hi i j s → Reach c v mid lo hi (i + 1) j (s - c.diffCost)
  | left {i j s : Int} : Reach c v mid lo hi i j s → Reach c v mid lo hi i (j + 1) (s - c.diffCost)

/-- every cell of the row is the score of a path to it -/
def RowOK (c : Costs) (v : View) (mid lo hi : Int) (i : Int) (r : Row) : Prop :=
  ∀ j, r.lo ≤ j → j < r.lo + r.vals.size → Reach c v mid lo hi i j (r.at j)

def BestOK (c : Costs) (v : View) (mid lo hi jinit : Int) (b : Best) : Prop :=
  (mid ≤ b.i ∧ b.i ≤ v.qlen ∧ lo ≤ b.j ∧ b.j ≤ v.tlen ∧ 0 ≤ b.score) ∧
  ((b.i = mid ∧ b.score = 0 ∧ b.j = jinit) ∨ Reach c v mid lo hi b.i b.j b.score)



theorem Row.at_push_lt (r : Row) (x : Int) (j : Int) (h0 : r.lo ≤ j) (h1 : j < r.lo + r.vals.size) :
    (⟨r.lo, r.vals.push x⟩ : Row).at j = r.at j := by
  unfold Row.at
  simp only
  have : (j - r.lo).toNat < r.vals.size := by omega
  have h2 : (j - r.lo).toNat < (r.vals.push x).size := by rw [Array.size_push]; omega
  simp only [Array.getD, this, h2, dite_true]
  exact Array.getElem_push_lt this

theorem Row.at_push_eq (r : Row) (x : Int) : (⟨r.lo, r.vals.push x⟩ : Row).at (r.lo + r.vals.size) = x := by
  unfold Row.at
  simp only
  have : (r.lo + r.vals.size - r.lo).toNat = r.vals.size := by omega
  rw [this]
  simp [Array.getD]

/-- the best cell is not below row `i1`, and if it is in row `i1` it is a cell of `r` holding the best score -/
def BestRow (b : Best) (i1 : Int) (r : Row) : Prop :=
  b.i ≤ i1 ∧ (b.i = i1 → r.lo ≤ b.j ∧ b.j < r.lo + r.vals.size ∧ r.at b.j = b.score)

theorem BestRow.push {b : Best} {i1 : Int} {r : Row} (h : BestRow b i1 r) (x : Int) :
    BestRow b i1 ⟨r.lo, r.vals.push x⟩ := by
  refine ⟨h.1, fun e => ?_⟩
  obtain ⟨h1, h2, h3⟩ := h.2 e
  refine ⟨h1, by simp only [Array.size_push]; omega, ?_⟩
  rw [Row.at_push_lt r x b.j h1 h2]; exact h3

section
variable {c : Costs} {v : View} {mid lo hi jinit : Int}

theorem Reach.diag' {i j s : Int} (h : Reach c v mid lo hi i (j - 1) s) :
    Reach c v mid lo hi (i + 1) j ((if isMatch (v.qAt i) (v.tAt j) then s + c.matchCost else s) - c.diffCost) := by
  have := Reach.diag h
  rwa [Int.sub_add_cancel] at this

theorem Reach.left' {i j s : Int} (h : Reach c v mid lo hi i (j - 1) s) :
    Reach c v mid lo hi i j (s - c.diffCost) := by
  have := Reach.left h
  rwa [Int.sub_add_cancel] at this

theorem RowOK.push {i : Int} {r : Row} (h : RowOK c v mid lo hi i r) (x : Int)
    (hx : Reach c v mid lo hi i (r.lo + r.vals.size) x) : RowOK c v mid lo hi i ⟨r.lo, r.vals.push x⟩ := by
  intro j h0 h1
  simp only [Array.size_push] at h1
  by_cases hj : j < r.lo + r.vals.size
  · rw [Row.at_push_lt r x j h0 hj]; exact h j h0 hj
  · have : j = r.lo + r.vals.size := by
      have : ((r.vals.size + 1 : Nat) : Int) = (r.vals.size : Int) + 1 := by omega
      omega
    subst this
    rw [Row.at_push_eq]; exact hx

theorem pick3 (P : Int → Prop) (a b d : Int) (ha : P a) (hb : P b) (hd : P d) :
    P (if a > (if b > d then b else d) then a else (if b > d then b else d)) := by
  by_cases h1 : a > (if b > d then b else d)
  · rw [if_pos h1]; exact ha
  · rw [if_neg h1]
    by_cases h2 : b > d
    · rw [if_pos h2]; exact hb
    · rw [if_neg h2]; exact hd

/-- the value the inner loop writes into column `j` -/
def newCost (c : Costs) (v : View) (prev : Row) (i j cost score : Int) : Int :=
  (if cost > (if prev.at j > (if isMatch (v.qAt i) (v.tAt j) then score + c.matchCost else score) then prev.at j
              else (if isMatch (v.qAt i) (v.tAt j) then score + c.matchCost else score))
   then cost
   else (if prev.at j > (if isMatch (v.qAt i) (v.tAt j) then score + c.matchCost else score) then prev.at j
         else (if isMatch (v.qAt i) (v.tAt j) then score + c.matchCost else score))) - c.diffCost

theorem innerLoop_succ (c : Costs) (v : View) (prev : Row) (i : Int) (n : Nat) (j cost score : Int)
    (vals : Array Int) (best : Best) :
    innerLoop c v prev i (n + 1) j cost score vals best =
      innerLoop c v prev i n (j + 1) (newCost c v prev i j cost score) (prev.at j)
        (vals.push (newCost c v prev i j cost score))
        (if newCost c v prev i j cost score ≥ best.score then ⟨newCost c v prev i j cost score, i + 1, j⟩ else best) := rfl

/-- the inner loop keeps: the row under construction holds path scores, `cost` is its last cell,
    `score` the cell of the previous row above it, the best cell is a path score -/
theorem innerLoop_ok (prev : Row) (i : Int) (hprev : RowOK c v mid lo hi i prev) (clo : Int) :
    ∀ (n : Nat) (j cost score : Int) (vals : Array Int) (best : Best),
      prev.lo ≤ j - 1 → j - 1 + n < prev.lo + prev.vals.size →
      mid ≤ i → i + 1 ≤ v.qlen → lo ≤ j - 1 → j - 1 + n ≤ v.tlen →
      score = prev.at (j - 1) →
      clo + vals.size = j →
      RowOK c v mid lo hi (i + 1) ⟨clo, vals⟩ →
      Reach c v mid lo hi (i + 1) (j - 1) cost →
      BestOK c v mid lo hi jinit best → BestRow best (i + 1) ⟨clo, vals⟩ →
      let r := innerLoop c v prev i n j cost score vals best
      RowOK c v mid lo hi (i + 1) ⟨clo, r.2.2.1⟩ ∧ r.2.2.1.size = vals.size + n ∧
      r.2.1 = prev.at (j - 1 + n) ∧ Reach c v mid lo hi (i + 1) (j - 1 + n) r.1 ∧
      BestOK c v mid lo hi jinit r.2.2.2 ∧ BestRow r.2.2.2 (i + 1) ⟨clo, r.2.2.1⟩ ∧
      (r.2.2.2 = best ∨ r.2.2.2.i = i + 1) := by
  intro n
  induction n with
  | zero =>
    intro j cost score vals best _ _ _ _ _ _ hs _ hrow hc hb hbr
    simp only [innerLoop, Nat.add_zero]
    refine ⟨hrow, trivial, ?_, ?_, hb, hbr, Or.inl trivial⟩
    · rw [hs]; congr 1; omega
    · have : j - 1 + ((0 : Nat) : Int) = j - 1 := by omega
      rw [this]; exact hc
  | succ n ih =>
    intro j cost score vals best h1 h2 b1 b2 b3 b4 hs hsz hrow hc hb hbr
    have hup : Reach c v mid lo hi i j (prev.at j) := hprev j (by omega) (by omega)
    have hdiag : Reach c v mid lo hi i (j - 1) score := by rw [hs]; exact hprev (j - 1) h1 (by omega)
    -- the new cell
    have hnew : Reach c v mid lo hi (i + 1) j (newCost c v prev i j cost score) :=
      pick3 (fun x => Reach c v mid lo hi (i + 1) j (x - c.diffCost)) cost (prev.at j)
        (if isMatch (v.qAt i) (v.tAt j) then score + c.matchCost else score)
        (Reach.left' hc) (Reach.up hup) (Reach.diag' hdiag)
    rw [innerLoop_succ]
    have step := ih (j + 1) (newCost c v prev i j cost score) (prev.at j) (vals.push (newCost c v prev i j cost score))
      (if newCost c v prev i j cost score ≥ best.score then ⟨newCost c v prev i j cost score, i + 1, j⟩ else best)
      (by omega) (by have : ((n + 1 : Nat) : Int) = (n : Int) + 1 := by omega
                     omega)
      b1 b2 (by omega) (by have : ((n + 1 : Nat) : Int) = (n : Int) + 1 := by omega
                           omega)
      (by rw [Int.add_sub_cancel]) (by rw [Array.size_push]; omega)
      (RowOK.push hrow _ (by rw [hsz]; exact hnew))
      (by rw [Int.add_sub_cancel]; exact hnew)
      (by split
          · rename_i hge
            have := hb.1.2.2.2.2
            exact ⟨⟨by simp only []; omega, b2, by simp only []; omega,
              by simp only []
                 have : ((n + 1 : Nat) : Int) = (n : Int) + 1 := by omega
                 omega, by simp only []; omega⟩, Or.inr hnew⟩
          · exact hb)
      (by split
          · refine ⟨Int.le_refl _, fun _ => ⟨by simp only []; omega, by simp only [Array.size_push]; omega, ?_⟩⟩
            simp only []
            rw [← hsz]; exact Row.at_push_eq ⟨clo, vals⟩ _
          · exact hbr.push _)
    have e1 : j + 1 - 1 + (n : Int) = j - 1 + ((n + 1 : Nat) : Int) := by omega
    rw [e1] at step
    refine ⟨step.1, ?_, step.2.2.1, step.2.2.2.1, step.2.2.2.2.1, step.2.2.2.2.2.1, ?_⟩
    · rw [step.2.1, Array.size_push]; omega
    · rcases step.2.2.2.2.2.2 with e | e
      · rw [e]
        split
        · exact Or.inr rfl
        · exact Or.inl rfl
      · exact Or.inr e

/-- the gap extension to the right of a row keeps it a row of path scores -/
theorem extendLoop_ok (x maxScore : Int) (i clo : Int) :
    ∀ (n : Nat) (j score : Int) (vals : Array Int),
      clo + vals.size = j → RowOK c v mid lo hi i ⟨clo, vals⟩ → Reach c v mid lo hi i (j - 1) score →
      ∀ (b : Best), BestRow b i ⟨clo, vals⟩ →
      let r := extendLoop c x maxScore v.tlen n j score vals
      RowOK c v mid lo hi i ⟨clo, r.1⟩ ∧ clo + r.1.size = r.2 ∧ j ≤ r.2 ∧ (r.2 ≤ v.tlen + 1 ∨ r.2 = j) ∧
      BestRow b i ⟨clo, r.1⟩ := by
  intro n
  induction n with
  | zero =>
    intro j score vals hsz hrow _ b hb
    simp only [extendLoop]
    exact ⟨hrow, hsz, Int.le_refl _, Or.inr trivial, hb⟩
  | succ n ih =>
    intro j score vals hsz hrow hr b hb
    unfold extendLoop
    split
    · exact ⟨hrow, hsz, Int.le_refl _, Or.inr rfl, hb⟩
    · rename_i hj
      simp only []
      split
      · exact ⟨hrow, hsz, Int.le_refl _, Or.inr rfl, hb⟩
      · have hnew : Reach c v mid lo hi i j (score - c.diffCost) := Reach.left' hr
        have step := ih (j + 1) (score - c.diffCost) (vals.push (score - c.diffCost))
          (by rw [Array.size_push]; omega) (RowOK.push hrow _ (by rw [hsz]; exact hnew))
          (by rw [Int.add_sub_cancel]; exact hnew) b (hb.push _)
        refine ⟨step.1, step.2.1, by omega, ?_, step.2.2.2.2⟩
        rcases step.2.2.2.1 with h | h
        · exact Or.inl h
        · exact Or.inl (by omega)

theorem pruneLow_ge (r : Row) (bound : Int) : ∀ (n : Nat) (low high : Int), low ≤ pruneLow r bound n low high := by
  intro n
  induction n with
  | zero => intro low high; exact Int.le_refl _
  | succ n ih =>
    intro low high
    unfold pruneLow
    split
    · exact Int.le_trans (by omega) (ih (low + 1) high)
    · exact Int.le_refl _

theorem pruneHigh_le (r : Row) (bound : Int) : ∀ (n : Nat) (low high : Int), pruneHigh r bound n low high ≤ high := by
  intro n
  induction n with
  | zero => intro low high; exact Int.le_refl _
  | succ n ih =>
    intro low high
    unfold pruneHigh
    split
    · exact Int.le_trans (ih low (high - 1)) (by omega)
    · exact Int.le_refl _

/-- the cell right of `high` (no cell above it) and the gap extension -/
def tailCells (c : Costs) (v : View) (x i high cost score : Int) (vals : Array Int) (best : Best) :
    Array Int × Best × Int :=
  let j := high + 1
  if j ≤ v.tlen then
    let d := if isMatch (v.qAt i) (v.tAt j) then score + c.matchCost else score
    let ratchet := if cost > d then cost else d
    let sc := ratchet - c.diffCost
    let best' : Best := if sc > best.score then ⟨sc, i + 1, j⟩ else best
    let (vals', je) := extendLoop c x best'.score v.tlen (v.tlen - j).toNat (j + 1) sc (vals.push sc)
    (vals', best', je)
  else (vals, best, j)

def pruneBoth (v : View) (row : Row) (bound low high : Int) : Int × Int :=
  if v.pruneHighFirst then
    let h := pruneHigh row bound (high + 1 - low).toNat low high
    (pruneLow row bound (h + 1 - low).toNat low h, h)
  else
    let l := pruneLow row bound (high + 1 - low).toNat low high
    (l, pruneHigh row bound (high + 1 - l).toNat l high)

theorem rowStep_eq (c : Costs) (v : View) (s : TState) (i : Int) :
    rowStep c v s i =
      (let r := innerLoop c v s.row i (s.high - s.low).toNat (s.low + 1) (s.row.at s.low - c.diffCost)
                  (s.row.at s.low) #[s.row.at s.low - c.diffCost] s.best
       let t := tailCells c v (v.xf i) i s.high r.1 r.2.1 r.2.2.1 r.2.2.2
       let row : Row := ⟨s.low, t.1⟩
       let p := pruneBoth v row (t.2.1.score - v.xf i) s.low (t.2.2 - 1)
       { row := row, low := p.1, high := p.2, best := t.2.1
         maxRight := if (i + 1) - p.1 > s.maxRight then (i + 1) - p.1 else s.maxRight
         maxLeft := if (i + 1) - p.2 < s.maxLeft then (i + 1) - p.2 else s.maxLeft }) := by
  unfold rowStep tailCells pruneBoth
  simp only []

theorem pruneBoth_ok (row : Row) (bound low high : Int) :
    low ≤ (pruneBoth v row bound low high).1 ∧ (pruneBoth v row bound low high).2 ≤ high := by
  unfold pruneBoth
  split
  · exact ⟨pruneLow_ge _ _ _ _ _, pruneHigh_le _ _ _ _ _⟩
  · exact ⟨pruneLow_ge _ _ _ _ _, pruneHigh_le _ _ _ _ _⟩

theorem pruneLow_le (r : Row) (bound : Int) : ∀ (n : Nat) (low high j : Int), low ≤ j → j ≤ high →
    ¬ r.at j < bound → pruneLow r bound n low high ≤ j := by
  intro n
  induction n with
  | zero => intro low high j h _ _; exact h
  | succ n ih =>
    intro low high j h1 h2 h3
    unfold pruneLow
    split
    · rename_i hc
      simp only [Bool.and_eq_true, decide_eq_true_eq] at hc
      have : low ≠ j := by intro e; subst e; exact h3 hc.2
      exact ih (low + 1) high j (by omega) h2 h3
    · exact h1

theorem pruneHigh_ge (r : Row) (bound : Int) : ∀ (n : Nat) (low high j : Int), low ≤ j → j ≤ high →
    ¬ r.at j < bound → j ≤ pruneHigh r bound n low high := by
  intro n
  induction n with
  | zero => intro low high j _ h _; exact h
  | succ n ih =>
    intro low high j h1 h2 h3
    unfold pruneHigh
    split
    · rename_i hc
      simp only [Bool.and_eq_true, decide_eq_true_eq] at hc
      have : high ≠ j := by intro e; subst e; exact h3 hc.2
      exact ih low (high - 1) j h1 (by omega) h3
    · exact h2

theorem pruneBoth_keeps (row : Row) (bound low high j : Int) (h1 : low ≤ j) (h2 : j ≤ high)
    (h3 : ¬ row.at j < bound) :
    (pruneBoth v row bound low high).1 ≤ j ∧ j ≤ (pruneBoth v row bound low high).2 := by
  unfold pruneBoth
  split
  · have hh := pruneHigh_ge row bound (high + 1 - low).toNat low high j h1 h2 h3
    exact ⟨pruneLow_le row bound _ low _ j h1 hh h3, hh⟩
  · have hl := pruneLow_le row bound (high + 1 - low).toNat low high j h1 h2 h3
    exact ⟨hl, pruneHigh_ge row bound _ _ high j hl h2 h3⟩

theorem tailCells_ok (x i high cost score clo : Int) (vals : Array Int) (best : Best)
    (hsz : clo + vals.size = high + 1) (hrow : RowOK c v mid lo hi (i + 1) ⟨clo, vals⟩)
    (hcost : Reach c v mid lo hi (i + 1) high cost) (hscore : Reach c v mid lo hi i high score)
    (hbest : BestOK c v mid lo hi jinit best) (hbr : BestRow best (i + 1) ⟨clo, vals⟩)
    (b1 : mid ≤ i) (b2 : i + 1 ≤ v.qlen) (b3 : lo ≤ high) (b4 : high ≤ v.tlen) :
    let t := tailCells c v x i high cost score vals best
    RowOK c v mid lo hi (i + 1) ⟨clo, t.1⟩ ∧ clo + t.1.size = t.2.2 ∧ high + 1 ≤ t.2.2 ∧ t.2.2 ≤ v.tlen + 1 ∧
    BestOK c v mid lo hi jinit t.2.1 ∧ BestRow t.2.1 (i + 1) ⟨clo, t.1⟩ ∧ (t.2.1 = best ∨ t.2.1.i = i + 1) := by
  unfold tailCells
  simp only []
  split
  · rename_i hj
    have hd : Reach c v mid lo hi (i + 1) (high + 1)
        ((if isMatch (v.qAt i) (v.tAt (high + 1)) then score + c.matchCost else score) - c.diffCost) := Reach.diag hscore
    have hl : Reach c v mid lo hi (i + 1) (high + 1) (cost - c.diffCost) := Reach.left hcost
    have hnew : Reach c v mid lo hi (i + 1) (high + 1)
        ((if cost > (if isMatch (v.qAt i) (v.tAt (high + 1)) then score + c.matchCost else score) then cost
          else (if isMatch (v.qAt i) (v.tAt (high + 1)) then score + c.matchCost else score)) - c.diffCost) := by
      by_cases h : cost > (if isMatch (v.qAt i) (v.tAt (high + 1)) then score + c.matchCost else score)
      · rw [if_pos h]; exact hl
      · rw [if_neg h]; exact hd
    generalize ((if cost > (if isMatch (v.qAt i) (v.tAt (high + 1)) then score + c.matchCost else score) then cost
          else (if isMatch (v.qAt i) (v.tAt (high + 1)) then score + c.matchCost else score)) - c.diffCost) = sc at hnew ⊢
    have hb' : BestOK c v mid lo hi jinit (if sc > best.score then ⟨sc, i + 1, high + 1⟩ else best) := by
      split
      · have := hbest.1.2.2.2.2
        exact ⟨⟨by simp only []; omega, b2, by simp only []; omega, hj, by simp only []; omega⟩, Or.inr hnew⟩
      · exact hbest
    have hbr' : BestRow (if sc > best.score then (⟨sc, i + 1, high + 1⟩ : Best) else best) (i + 1) ⟨clo, vals.push sc⟩ := by
      split
      · refine ⟨Int.le_refl _, fun _ => ⟨by simp only []; omega, by simp only [Array.size_push]; omega, ?_⟩⟩
        simp only []
        rw [← hsz]; exact Row.at_push_eq ⟨clo, vals⟩ _
      · exact hbr.push _
    have ext := extendLoop_ok (c := c) (v := v) (mid := mid) (lo := lo) (hi := hi) x
      (if sc > best.score then (⟨sc, i + 1, high + 1⟩ : Best) else best).score (i + 1) clo
      (v.tlen - (high + 1)).toNat (high + 1 + 1) sc (vals.push sc)
      (by rw [Array.size_push]; omega) (RowOK.push hrow _ (by rw [hsz]; exact hnew))
      (by rw [Int.add_sub_cancel]; exact hnew) _ hbr'
    simp only [] at ext
    generalize extendLoop c x (if sc > best.score then (⟨sc, i + 1, high + 1⟩ : Best) else best).score v.tlen
      (v.tlen - (high + 1)).toNat (high + 1 + 1) sc (vals.push sc) = r at ext ⊢
    obtain ⟨vals', je⟩ := r
    simp only [] at ext ⊢
    refine ⟨ext.1, ext.2.1, by omega, ?_, hb', ext.2.2.2.2, ?_⟩
    · rcases ext.2.2.2.1 with h | h
      · exact h
      · omega
    · split
      · exact Or.inr rfl
      · exact Or.inl rfl
  · refine ⟨hrow, hsz, Int.le_refl _, ?_, hbest, hbr, Or.inl rfl⟩
    show high + 1 ≤ v.tlen + 1
    omega

/-- what the row loop keeps -/
structure SOK (c : Costs) (v : View) (mid lo hi jinit : Int) (i : Int) (s : TState) : Prop where
  row : RowOK c v mid lo hi i s.row
  lowIn : s.row.lo ≤ s.low
  highIn : s.high < s.row.lo + s.row.vals.size
  cols : lo ≤ s.row.lo ∧ s.row.lo + s.row.vals.size ≤ v.tlen + 1
  best : BestOK c v mid lo hi jinit s.best
  bestI : s.best.i ≤ i
  /-- the best cell and every basis cell lie within the recorded diagonal range -/
  diagBest : s.maxLeft ≤ s.best.i - s.best.j ∧ s.best.i - s.best.j ≤ s.maxRight
  diagBasis : ∀ j0, lo ≤ j0 → j0 ≤ hi → s.maxLeft ≤ mid - j0 ∧ mid - j0 ≤ s.maxRight

theorem rowStep_ok (s : TState) (i : Int) (h : SOK c v mid lo hi jinit i s) (hlh : s.low ≤ s.high)
    (hi1 : mid ≤ i) (hi2 : i < v.qlen) (hx : 0 ≤ v.xf i) : SOK c v mid lo hi jinit (i + 1) (rowStep c v s i) := by
  obtain ⟨hrow, hlow, hhigh, hcols, hbest, hbi, hdb, hds⟩ := h
  -- first cell
  have h0 : Reach c v mid lo hi i s.low (s.row.at s.low) := hrow s.low hlow (by omega)
  have hc0 : Reach c v mid lo hi (i + 1) s.low (s.row.at s.low - c.diffCost) := Reach.up h0
  have hrow0 : RowOK c v mid lo hi (i + 1) ⟨s.low, #[s.row.at s.low - c.diffCost]⟩ := by
    intro j hj0 hj1
    have : j = s.low := by
      simp only [List.size_toArray, List.length_cons, List.length_nil] at hj1
      dsimp only at hj0 hj1
      omega
    subst this
    have : (⟨s.low, #[s.row.at s.low - c.diffCost]⟩ : Row).at s.low = s.row.at s.low - c.diffCost := by
      simp [Row.at]
    rw [this]; exact hc0
  have hbr0 : BestRow s.best (i + 1) ⟨s.low, #[s.row.at s.low - c.diffCost]⟩ :=
    ⟨by omega, fun e => by omega⟩
  have hn : ((s.high - s.low).toNat : Int) = s.high - s.low := by omega
  have inner := innerLoop_ok s.row i hrow s.low (s.high - s.low).toNat (s.low + 1) (s.row.at s.low - c.diffCost)
    (s.row.at s.low) #[s.row.at s.low - c.diffCost] s.best
    (by omega) (by omega) hi1 (by omega) (by omega) (by omega) (by rw [Int.add_sub_cancel])
    (by simp) hrow0 (by rw [Int.add_sub_cancel]; exact hc0) hbest hbr0
  simp only [] at inner
  rw [rowStep_eq]
  simp only []
  generalize innerLoop c v s.row i (s.high - s.low).toNat (s.low + 1) (s.row.at s.low - c.diffCost)
    (s.row.at s.low) #[s.row.at s.low - c.diffCost] s.best = r at inner ⊢
  obtain ⟨cost, score, vals, best⟩ := r
  simp only [] at inner ⊢
  obtain ⟨irow, isz, isc, icost, ibest, ibr, ikeep⟩ := inner
  have e1 : s.low + 1 - 1 + ((s.high - s.low).toNat : Int) = s.high := by omega
  rw [e1] at isc icost
  have vsz : s.low + (vals.size : Int) = s.high + 1 := by
    rw [isz]; simp only [List.size_toArray, List.length_cons, List.length_nil]; omega
  have hscore : Reach c v mid lo hi i s.high score := by rw [isc]; exact hrow s.high (by omega) hhigh
  have tl := tailCells_ok (c := c) (v := v) (mid := mid) (lo := lo) (hi := hi) (jinit := jinit) (v.xf i) i s.high cost score s.low vals best
    vsz irow icost hscore ibest ibr hi1 (by omega) (by omega) (by omega)
  simp only [] at tl
  generalize tailCells c v (v.xf i) i s.high cost score vals best = t at tl ⊢
  obtain ⟨vals', best', je⟩ := t
  simp only [] at tl ⊢
  obtain ⟨trow, tsz, tge, tle, tbest, tbr, tkeep⟩ := tl
  have pb := pruneBoth_ok (v := v) (⟨s.low, vals'⟩ : Row) (best'.score - v.xf i) s.low (je - 1)
  refine ⟨trow, pb.1, by simp only []; omega, ⟨by simp only []; omega, by simp only []; omega⟩, tbest, tbr.1, ?_, ?_⟩
  · -- the best cell within the diagonal range
    simp only []
    by_cases hbi' : best'.i = i + 1
    · obtain ⟨q1, q2, q3⟩ := tbr.2 hbi'
      dsimp only at q1 q2
      have keep := pruneBoth_keeps (v := v) (⟨s.low, vals'⟩ : Row) (best'.score - v.xf i) s.low (je - 1) best'.j
        q1 (by omega) (by rw [q3]; omega)
      constructor
      · split <;> omega
      · split <;> omega
    · have e : best' = s.best := by
        rcases tkeep with e | e
        · rcases ikeep with e' | e'
          · rw [e, e']
          · rw [e] at hbi'; exact absurd e' hbi'
        · exact absurd e hbi'
      rw [e]
      constructor
      · split <;> omega
      · split <;> omega
  · intro j0 h1 h2
    have := hds j0 h1 h2
    simp only []
    constructor
    · split <;> omega
    · split <;> omega

theorem rowLoop_ok (hx : ∀ i, 0 ≤ v.xf i) : ∀ (n : Nat) (i : Int) (s : TState), SOK c v mid lo hi jinit i s → mid ≤ i →
    ∃ i', SOK c v mid lo hi jinit i' (rowLoop c v n i s) := by
  intro n
  induction n with
  | zero => intro i s h _; exact ⟨i, h⟩
  | succ n ih =>
    intro i s h hi
    unfold rowLoop
    split
    · rename_i hc
      simp only [Bool.and_eq_true, decide_eq_true_eq] at hc
      exact ih (i + 1) _ (rowStep_ok s i h hc.1 hi hc.2 (hx i)) (by omega)
    · exact ⟨i, h⟩

/-- the gap-penalised cells right of the zero basis -/
theorem basisTail_ok (i clo : Int) : ∀ (n : Nat) (last : Int) (vals : Array Int),
    RowOK c v mid lo hi i ⟨clo, vals⟩ → Reach c v mid lo hi i (clo + vals.size - 1) last →
    RowOK c v mid lo hi i ⟨clo, basisTail c n last vals⟩ ∧ (basisTail c n last vals).size = vals.size + n := by
  intro n
  induction n with
  | zero => intro last vals h _; exact ⟨h, rfl⟩
  | succ n ih =>
    intro last vals h hl
    unfold basisTail
    have hnew : Reach c v mid lo hi i (clo + vals.size) (last - c.diffCost) := by
      have := Reach.left hl
      rwa [Int.sub_add_cancel] at this
    have step := ih (last - c.diffCost) (vals.push (last - c.diffCost)) (RowOK.push h _ hnew)
      (by rw [Array.size_push]
          have : clo + ((vals.size + 1 : Nat) : Int) - 1 = clo + vals.size := by omega
          rw [this]; exact hnew)
    refine ⟨step.1, ?_⟩
    rw [step.2, Array.size_push]; omega

theorem zeros_ok (low high : Int) (h : low ≤ high) (hlo : lo = low) (hhi : hi = high) :
    RowOK c v mid lo hi mid ⟨low, Array.replicate (high + 1 - low).toNat 0⟩ := by
  intro j h0 h1
  simp only [Array.size_replicate] at h1
  dsimp only at h0
  have hat : (⟨low, Array.replicate (high + 1 - low).toNat 0⟩ : Row).at j = 0 := by
    unfold Row.at
    simp only [Array.getD]
    split
    · simp
    · rfl
  rw [hat]
  exact Reach.basis j (by omega) (by omega)

/-- **soundness of the trace program**: the cell it reports lies in the table, its score is
    non-negative and — unless nothing was found (`maxI = mid`, score 0) — the score of a path of
    kernel moves from the zero basis `(mid, [low, high])`; the reported cell and every basis cell
    lie within the recorded diagonal range -/
theorem traceCore_sound (c : Costs) (v : View) (mid low high : Int) (h : low ≤ high) (hh : high ≤ v.tlen)
    (hq : mid ≤ v.qlen) (hg : 0 ≤ c.maxIGap) (hx : ∀ i, 0 ≤ v.xf i) :
    let o := traceCore c v mid low high
    (mid ≤ o.maxI ∧ o.maxI ≤ v.qlen ∧ low ≤ o.maxJ ∧ o.maxJ ≤ v.tlen ∧ 0 ≤ o.maxScore) ∧
    ((o.maxI = mid ∧ o.maxScore = 0 ∧ (v.bestAtExtended = false → o.maxJ = low)) ∨
      Reach c v mid low high o.maxI o.maxJ o.maxScore) ∧
    (o.maxLeft ≤ o.maxI - o.maxJ ∧ o.maxI - o.maxJ ≤ o.maxRight) ∧
    (∀ j0, low ≤ j0 → j0 ≤ high → o.maxLeft ≤ mid - j0 ∧ mid - j0 ≤ o.maxRight) := by
  unfold traceCore
  simp only []
  generalize hh' : (if high + c.maxIGap > v.tlen then v.tlen else high + c.maxIGap) = high'
  have hh1 : high ≤ high' ∧ high' ≤ v.tlen := by rw [← hh']; split <;> omega
  have z := zeros_ok (c := c) (v := v) (mid := mid) (lo := low) (hi := high) low high h rfl rfl
  have hlast : Reach c v mid low high mid (low + ((Array.replicate (high + 1 - low).toNat (0 : Int)).size : Int) - 1) 0 := by
    simp only [Array.size_replicate]
    exact Reach.basis _ (by omega) (by omega)
  have bt := basisTail_ok (c := c) (v := v) (mid := mid) (lo := low) (hi := high) mid low (high' - high).toNat 0
    (Array.replicate (high + 1 - low).toNat 0) z hlast
  have s0 : SOK c v mid low high (if v.bestAtExtended then high' else low) mid
      { row := ⟨low, basisTail c (high' - high).toNat 0 (Array.replicate (high + 1 - low).toNat 0)⟩,
        low := low, high := high', best := ⟨0, mid, if v.bestAtExtended then high' else low⟩,
        maxRight := mid - low, maxLeft := mid - high' } := by
    refine ⟨bt.1, Int.le_refl _, ?_, ⟨Int.le_refl _, ?_⟩, ⟨⟨Int.le_refl _, hq, ?_, ?_, Int.le_refl _⟩, Or.inl ⟨rfl, rfl, rfl⟩⟩,
      Int.le_refl _, ?_, ?_⟩
    · simp only [bt.2, Array.size_replicate]; omega
    · simp only [bt.2, Array.size_replicate]; omega
    · simp only []; split <;> omega
    · simp only []; split <;> omega
    · simp only []; split <;> omega
    · intro j0 h1 h2; simp only []; omega
  obtain ⟨i', hs⟩ := rowLoop_ok hx (v.qlen - mid).toNat mid _ s0 (Int.le_refl _)
  refine ⟨hs.best.1, ?_, hs.diagBest, hs.diagBasis⟩
  rcases hs.best.2 with ⟨e1, e2, e3⟩ | hr
  · refine Or.inl ⟨e1, e2, fun hb => ?_⟩
    rw [e3, hb]; rfl
  · exact Or.inr hr

end

/-! ### from paths of kernel moves to alignments -/

open Biogo.Spec.Alignment

/-- the kernel's scoring as a matrix: `MatchCost - DiffCost` for a match, `-DiffCost` for a mismatch
    and for a letter against a gap (row / column 0) -/
def kS (c : Costs) : Matrix := fun r q => if isMatch q r then c.matchCost - c.diffCost else -c.diffCost

/-- the target letters a path consumes between columns `a` and `b` -/
def tSeg (v : View) (a b : Int) : List Nat := (List.range (b - a).toNat).map fun (k : Nat) => v.tAt (a + 1 + (k : Int))
/-- the query letters a path consumes between rows `a` and `b` -/
def qSeg (v : View) (a b : Int) : List Nat := (List.range (b - a).toNat).map fun (k : Nat) => v.qAt (a + (k : Int))

theorem tSeg_succ (v : View) (a b : Int) (h : a ≤ b) : tSeg v a (b + 1) = tSeg v a b ++ [v.tAt (b + 1)] := by
  unfold tSeg
  have : (b + 1 - a).toNat = (b - a).toNat + 1 := by omega
  rw [this, List.range_succ, List.map_append, List.map_singleton]
  have e : a + 1 + (((b - a).toNat : Nat) : Int) = b + 1 := by omega
  rw [e]

theorem qSeg_succ (v : View) (a b : Int) (h : a ≤ b) : qSeg v a (b + 1) = qSeg v a b ++ [v.qAt b] := by
  unfold qSeg
  have : (b + 1 - a).toNat = (b - a).toNat + 1 := by omega
  rw [this, List.range_succ, List.map_append, List.map_singleton]
  have e : a + (((b - a).toNat : Nat) : Int) = b := by omega
  rw [e]

theorem tSeg_self (v : View) (a : Int) : tSeg v a a = [] := by simp [tSeg]
theorem qSeg_self (v : View) (a : Int) : qSeg v a a = [] := by simp [qSeg]

theorem projR_append (a b : Aln) : projR (a ++ b) = projR a ++ projR b := by
  induction a with
  | nil => rfl
  | cons x xs ih => cases x <;> simp [projR, ih]

theorem projQ_append (a b : Aln) : projQ (a ++ b) = projQ a ++ projQ b := by
  induction a with
  | nil => rfl
  | cons x xs ih => cases x <;> simp [projQ, ih]

theorem scoreLin_append (S : Matrix) (a b : Aln) : scoreLin S (a ++ b) = scoreLin S a + scoreLin S b := by
  induction a with
  | nil => simp [scoreLin]
  | cons x xs ih => simp only [List.cons_append, scoreLin, ih]; omega

/-- a path of kernel moves is an alignment of the letters it consumes, scored by `kS` -/
theorem Reach.aln {c : Costs} {v : View} {mid lo hi i j s : Int} (h : Reach c v mid lo hi i j s)
    (hv : ∀ j, isMatch 0 (v.tAt j) = false) :
    ∃ (j0 : Int) (a : Aln), lo ≤ j0 ∧ j0 ≤ hi ∧ j0 ≤ j ∧ mid ≤ i ∧
      IsGlobal a (tSeg v j0 j) (qSeg v mid i) ∧ scoreLin (kS c) a = s := by
  induction h with
  | basis j h1 h2 =>
    exact ⟨j, [], h1, h2, Int.le_refl _, Int.le_refl _, ⟨by rw [tSeg_self]; rfl, by rw [qSeg_self]; rfl⟩, rfl⟩
  | @diag i j s _ ih =>
    obtain ⟨j0, a, h1, h2, h3, h4, ⟨g1, g2⟩, hs⟩ := ih
    refine ⟨j0, a ++ [.m (v.tAt (j + 1)) (v.qAt i)], h1, h2, by omega, by omega, ⟨?_, ?_⟩, ?_⟩
    · rw [projR_append, g1, tSeg_succ v j0 j h3]; rfl
    · rw [projQ_append, g2, qSeg_succ v mid i h4]; rfl
    · rw [scoreLin_append, hs]
      simp only [scoreLin, colScore, kS]
      split <;> omega
  | @up i j s _ ih =>
    obtain ⟨j0, a, h1, h2, h3, h4, ⟨g1, g2⟩, hs⟩ := ih
    refine ⟨j0, a ++ [.l (v.qAt i)], h1, h2, h3, by omega, ⟨?_, ?_⟩, ?_⟩
    · rw [projR_append, g1]; simp [projR]
    · rw [projQ_append, g2, qSeg_succ v mid i h4]; rfl
    · rw [scoreLin_append, hs]
      simp only [scoreLin, colScore, kS]
      have : isMatch (v.qAt i) 0 = false := by
        unfold isMatch
        by_cases e : v.qAt i = 0
        · rw [e]; simp [validLetter]
        · simp [e]
      rw [this]; simp only [Bool.false_eq_true, if_false]; omega
  | @left i j s _ ih =>
    obtain ⟨j0, a, h1, h2, h3, h4, ⟨g1, g2⟩, hs⟩ := ih
    refine ⟨j0, a ++ [.u (v.tAt (j + 1))], h1, h2, by omega, h4, ⟨?_, ?_⟩, ?_⟩
    · rw [projR_append, g1, tSeg_succ v j0 j h3]; rfl
    · rw [projQ_append, g2]; simp [projQ]
    · rw [scoreLin_append, hs]
      simp only [scoreLin, colScore, kS, hv, Bool.false_eq_true, if_false]
      omega

/-! ### the two views of a pair of sequences -/

open Biogo.Spec.PalsKernel (slice)

theorem fwdView_qAt (c : Costs) (s : Seqs) (i : Int) : (fwdView c s).qAt i = s.query.getD i.toNat 0 := rfl
theorem fwdView_tAt (c : Costs) (s : Seqs) (j : Int) : (fwdView c s).tAt j = s.target.getD (j - 1).toNat 0 := rfl
theorem revView_qAt (c : Costs) (s : Seqs) (bottom x0 i : Int) :
    (revView c s bottom x0).qAt i = s.query.getD (s.qlen - 1 - i).toNat 0 := rfl
theorem revView_tAt (c : Costs) (s : Seqs) (bottom x0 j : Int) :
    (revView c s bottom x0).tAt j = s.target.getD (s.tlen - j).toNat 0 := rfl

theorem getD_toList (a : Array Nat) (k : Nat) (h : k < a.size) : a.getD k 0 = a.toList[k]'(by simpa using h) := by
  simp [Array.getD, h]

theorem slice_getElem (l : List Nat) (b e : Int) (h0 : 0 ≤ b) (h1 : b ≤ e) (h2 : e ≤ l.length) (k : Nat)
    (hk : k < (e - b).toNat) :
    (slice l b e)[k]'(by unfold slice; rw [List.length_take, List.length_drop]; omega) = l[b.toNat + k]'(by omega) := by
  unfold slice
  rw [List.getElem_take, List.getElem_drop]

theorem slice_length' (l : List Nat) (b e : Int) (h0 : 0 ≤ b) (h1 : b ≤ e) (h2 : e ≤ l.length) :
    (slice l b e).length = (e - b).toNat := by
  unfold slice; rw [List.length_take, List.length_drop]; omega

theorem tSeg_fwd (c : Costs) (s : Seqs) (a b : Int) (h0 : 0 ≤ a) (h1 : a ≤ b) (h2 : b ≤ s.tlen) :
    tSeg (fwdView c s) a b = slice s.target.toList a b := by
  have hl : (s.target.toList.length : Int) = s.tlen := by simp [Seqs.tlen]
  apply List.ext_getElem
  · rw [slice_length' _ _ _ h0 h1 (by omega)]; simp [tSeg]
  · intro k hk1 hk2
    have hk : k < (b - a).toNat := by simpa [tSeg] using hk1
    rw [slice_getElem _ _ _ h0 h1 (by omega) k hk]
    simp only [tSeg, fwdView_tAt, List.getElem_map, List.getElem_range]
    have e : (a + 1 + (k : Int) - 1).toNat = a.toNat + k := by omega
    rw [e]
    exact getD_toList _ _ (by unfold Seqs.tlen at h2; omega)

theorem qSeg_fwd (c : Costs) (s : Seqs) (a b : Int) (h0 : 0 ≤ a) (h1 : a ≤ b) (h2 : b ≤ s.qlen) :
    qSeg (fwdView c s) a b = slice s.query.toList a b := by
  have hl : (s.query.toList.length : Int) = s.qlen := by simp [Seqs.qlen]
  apply List.ext_getElem
  · rw [slice_length' _ _ _ h0 h1 (by omega)]; simp [qSeg]
  · intro k hk1 hk2
    have hk : k < (b - a).toNat := by simpa [qSeg] using hk1
    rw [slice_getElem _ _ _ h0 h1 (by omega) k hk]
    simp only [qSeg, fwdView_qAt, List.getElem_map, List.getElem_range]
    have e : (a + (k : Int)).toNat = a.toNat + k := by omega
    rw [e]
    exact getD_toList _ _ (by unfold Seqs.qlen at h2; omega)

theorem tSeg_rev (c : Costs) (s : Seqs) (bottom x0 : Int) (a b : Int) (h0 : 0 ≤ a) (h1 : a ≤ b) (h2 : b ≤ s.tlen) :
    tSeg (revView c s bottom x0) a b = (slice s.target.toList (s.tlen - b) (s.tlen - a)).reverse := by
  have hl : (s.target.toList.length : Int) = s.tlen := by simp [Seqs.tlen]
  apply List.ext_getElem
  · rw [List.length_reverse, slice_length' _ _ _ (by omega) (by omega) (by omega)]
    simp only [tSeg, List.length_map, List.length_range]
    omega
  · intro k hk1 hk2
    have hk : k < (b - a).toNat := by simpa [tSeg] using hk1
    rw [List.getElem_reverse]
    have hlen := slice_length' s.target.toList (s.tlen - b) (s.tlen - a) (by omega) (by omega) (by omega)
    rw [slice_getElem _ _ _ (by omega) (by omega) (by omega) _ (by omega)]
    simp only [tSeg, revView_tAt, List.getElem_map, List.getElem_range]
    have e : (s.tlen - (a + 1 + (k : Int))).toNat = (s.tlen - b).toNat + ((slice s.target.toList (s.tlen - b) (s.tlen - a)).length - 1 - k) := by
      rw [hlen]; omega
    rw [e]
    exact getD_toList _ _ (by rw [hlen]; unfold Seqs.tlen at h2 ⊢; omega)

theorem qSeg_rev (c : Costs) (s : Seqs) (bottom x0 : Int) (a b : Int) (h0 : 0 ≤ a) (h1 : a ≤ b) (h2 : b ≤ s.qlen) :
    qSeg (revView c s bottom x0) a b = (slice s.query.toList (s.qlen - b) (s.qlen - a)).reverse := by
  have hl : (s.query.toList.length : Int) = s.qlen := by simp [Seqs.qlen]
  apply List.ext_getElem
  · rw [List.length_reverse, slice_length' _ _ _ (by omega) (by omega) (by omega)]
    simp only [qSeg, List.length_map, List.length_range]
    omega
  · intro k hk1 hk2
    have hk : k < (b - a).toNat := by simpa [qSeg] using hk1
    rw [List.getElem_reverse]
    have hlen := slice_length' s.query.toList (s.qlen - b) (s.qlen - a) (by omega) (by omega) (by omega)
    rw [slice_getElem _ _ _ (by omega) (by omega) (by omega) _ (by omega)]
    simp only [qSeg, revView_qAt, List.getElem_map, List.getElem_range]
    have e : (s.qlen - 1 - (a + (k : Int))).toNat = (s.qlen - b).toNat + ((slice s.query.toList (s.qlen - b) (s.qlen - a)).length - 1 - k) := by
      rw [hlen]; omega
    rw [e]
    exact getD_toList _ _ (by rw [hlen]; unfold Seqs.qlen at h2 ⊢; omega)

/-! ### the two trace functions of the model keep the contract -/

open Biogo.Spec.PalsKernel (Rev RevOK HitOK)

theorem projR_reverse (a : Aln) : projR a.reverse = (projR a).reverse := by
  induction a with
  | nil => rfl
  | cons x xs ih =>
    rw [List.reverse_cons, projR_append, ih]
    cases x <;> simp [projR]

theorem projQ_reverse (a : Aln) : projQ a.reverse = (projQ a).reverse := by
  induction a with
  | nil => rfl
  | cons x xs ih =>
    rw [List.reverse_cons, projQ_append, ih]
    cases x <;> simp [projQ]

theorem scoreLin_reverse (S : Matrix) (a : Aln) : scoreLin S a.reverse = scoreLin S a := by
  induction a with
  | nil => rfl
  | cons x xs ih =>
    rw [List.reverse_cons, scoreLin_append, ih]
    simp only [scoreLin]; omega

theorem isMatch_zero (t : Nat) : isMatch 0 t = false := by
  unfold isMatch validLetter; simp

theorem clampBounds_id (tlen a : Int) (h0 : 0 ≤ a) (h1 : a ≤ tlen) : clampBounds tlen a a = (a, a) := by
  unfold clampBounds
  simp only []
  rw [if_neg (by omega), if_neg (by omega), if_neg (by omega), if_neg (by omega)]

theorem clampBounds_ok (tlen low high : Int) (h : 0 ≤ tlen) :
    0 ≤ (clampBounds tlen low high).1 ∧ (clampBounds tlen low high).1 ≤ (clampBounds tlen low high).2 ∧
    (clampBounds tlen low high).2 ≤ tlen := by
  unfold clampBounds
  simp only []
  refine ⟨?_, ?_, ?_⟩ <;> (repeat' split) <;> omega

/-- **`traceReverse` of the model keeps `RevOK`** (scoring `kS`) -/
theorem traceReverse_ok (c : Costs) (s : Seqs) (top a bottom xfactor : Int)
    (ha : 0 ≤ a ∧ a ≤ s.tlen) (ht : 0 ≤ top ∧ top ≤ s.qlen) (hg : 0 ≤ c.maxIGap) (hb : 0 ≤ c.blockCost)
    (hx : 0 ≤ xfactor) :
    let r := traceReverse c s top a a bottom xfactor
    RevOK (kS c) s.target.toList s.query.toList top a ⟨r.maxJ, r.maxI, r.maxScore, r.maxLeft, r.maxRight⟩ := by
  unfold traceReverse
  rw [clampBounds_id s.tlen a ha.1 ha.2]
  simp only []
  generalize hx0 : (if top - 1 ≤ bottom then c.blockCost else xfactor) = x0
  have hx0' : 0 ≤ x0 := by rw [← hx0]; split <;> omega
  have snd := traceCore_sound c (revView c s bottom x0) (s.qlen - top) (s.tlen - a) (s.tlen - a)
    (Int.le_refl _) (by show s.tlen - a ≤ s.tlen; omega) (by show s.qlen - top ≤ s.qlen; omega) hg
    (by intro i; show 0 ≤ (if s.qlen - 1 - i ≥ bottom then x0 else c.blockCost); split <;> omega)
  simp only [] at snd
  generalize traceCore c (revView c s bottom x0) (s.qlen - top) (s.tlen - a) (s.tlen - a) = o at snd ⊢
  obtain ⟨⟨b1, b2, b3, b4, b5⟩, hpath, ⟨d1, d2⟩, dbasis⟩ := snd
  have q1 : (revView c s bottom x0).qlen = s.qlen := rfl
  have q2 : (revView c s bottom x0).tlen = s.tlen := rfl
  rw [q1] at b2
  rw [q2] at b4
  have hl1 : (s.target.toList.length : Int) = s.tlen := by simp [Seqs.tlen]
  have hl2 : (s.query.toList.length : Int) = s.qlen := by simp [Seqs.qlen]
  refine ⟨by simp only []; omega, by simp only []; omega, b5, ?_, ?_, ?_⟩
  · intro hlt
    simp only [] at hlt
    rcases hpath with ⟨e, _⟩ | hr
    · omega
    · obtain ⟨j0, aln, h1, h2, h3, h4, ⟨g1, g2⟩, hs⟩ := hr.aln (fun j => isMatch_zero _)
      have ej : j0 = s.tlen - a := by omega
      subst ej
      refine ⟨aln.reverse, ⟨?_, ?_⟩, ?_⟩
      · rw [projR_reverse, g1, tSeg_rev c s bottom x0 _ _ (by omega) h3 b4, List.reverse_reverse]
        simp only []
        congr 1; omega
      · rw [projQ_reverse, g2, qSeg_rev c s bottom x0 _ _ (by omega) h4 b2, List.reverse_reverse]
        simp only []
        congr 1; omega
      · rw [scoreLin_reverse]; exact hs
  · simp only []; omega
  · have := dbasis (s.tlen - a) (Int.le_refl _) (Int.le_refl _)
    simp only []; omega

/-- `traceForward` of the model reports a cell of the table -/
theorem traceForward_bounds (c : Costs) (s : Seqs) (mid low high : Int) (hm : mid ≤ s.qlen) (hg : 0 ≤ c.maxIGap)
    (hb : 0 ≤ c.blockCost) :
    let o := traceForward c s mid low high
    mid ≤ o.maxI ∧ o.maxI ≤ s.qlen ∧ 0 ≤ o.maxJ ∧ o.maxJ ≤ s.tlen := by
  unfold traceForward
  have cb := clampBounds_ok s.tlen low high (by unfold Seqs.tlen; omega)
  generalize clampBounds s.tlen low high = p at cb ⊢
  obtain ⟨l, h⟩ := p
  simp only [] at cb ⊢
  have snd := traceCore_sound c (fwdView c s) mid l h cb.2.1 cb.2.2 hm hg (fun _ => hb)
  simp only [] at snd
  obtain ⟨⟨b1, b2, b3, b4, _⟩, _⟩ := snd
  exact ⟨b1, b2, Int.le_trans cb.1 b3, b4⟩

open Biogo.Spec.PalsKernel (Fwd FwdOK clamp) in
/-- **`traceForward` of the model keeps `FwdOK`** (scoring `kS`): the start column can be taken
    inside the zero basis, the gap letters of a start beyond `high` being columns of the alignment -/
theorem traceForward_ok (c : Costs) (s : Seqs) (mid low high : Int) (hm0 : 0 ≤ mid) (hm : mid ≤ s.qlen)
    (hg : 0 ≤ c.maxIGap) (hb : 0 ≤ c.blockCost) :
    let o := traceForward c s mid low high
    FwdOK (kS c) c.diffCost c.maxIGap s.target.toList s.query.toList mid low high ⟨o.maxJ, o.maxI, o.maxScore⟩ := by
  unfold traceForward
  have cb := clampBounds_ok s.tlen low high (by unfold Seqs.tlen; omega)
  have hl1 : (s.target.toList.length : Int) = s.tlen := by simp [Seqs.tlen]
  have hl2 : (s.query.toList.length : Int) = s.qlen := by simp [Seqs.qlen]
  have e1 : (clampBounds s.tlen low high).1 = clamp low 0 s.target.toList.length := by
    rw [hl1]; unfold clampBounds clamp; simp only []; (repeat' split) <;> omega
  have e2 : (clampBounds s.tlen low high).2 =
      max (clamp low 0 s.target.toList.length) (clamp high 0 s.target.toList.length) := by
    rw [hl1]; unfold clampBounds clamp; simp only []
    have : (0 : Int) ≤ s.tlen := by unfold Seqs.tlen; omega
    (repeat' split) <;> omega
  generalize clampBounds s.tlen low high = p at cb e1 e2 ⊢
  obtain ⟨l, h⟩ := p
  simp only [] at cb e1 e2 ⊢
  show FwdOK (kS c) c.diffCost c.maxIGap s.target.toList s.query.toList mid low high
    ⟨(traceCore c (fwdView c s) mid l h).maxJ, (traceCore c (fwdView c s) mid l h).maxI,
     (traceCore c (fwdView c s) mid l h).maxScore⟩
  have snd := traceCore_sound c (fwdView c s) mid l h cb.2.1 cb.2.2 hm hg (fun _ => hb)
  simp only [] at snd
  obtain ⟨⟨b1, b2, b3, b4, b5⟩, hpath, _, _⟩ := snd
  have q1 : (fwdView c s).qlen = s.qlen := rfl
  have q2 : (fwdView c s).tlen = s.tlen := rfl
  rw [q1] at b2
  rw [q2] at b4
  refine ⟨⟨b1, by rw [hl2]; exact b2⟩, ⟨Int.le_trans cb.1 b3, by rw [hl1]; exact b4⟩, b5, ?_⟩
  rcases hpath with ⟨ei, es, ej⟩ | hr
  · -- nothing found: the empty alignment at the basis cell `(mid, low)`
    have ej' := ej rfl
    refine ⟨l, [], by rw [← e1]; exact Int.le_refl _, by rw [← e2]; omega, by rw [ej']; exact Int.le_refl _, ⟨?_, ?_⟩, ?_⟩
    · show [] = slice s.target.toList l (traceCore c (fwdView c s) mid l h).maxJ
      rw [ej']; simp [slice]
    · show [] = slice s.query.toList mid (traceCore c (fwdView c s) mid l h).maxI
      rw [ei]; simp [slice]
    · have : max 0 (l - max (clamp low 0 s.target.toList.length) (clamp high 0 s.target.toList.length)) = 0 := by
        rw [← e2]; omega
      rw [this]
      show (traceCore c (fwdView c s) mid l h).maxScore = scoreLin (kS c) [] - c.diffCost * 0
      rw [es]; simp [scoreLin]
  · obtain ⟨j0, aln, h1, h2, h3, h4, ⟨g1, g2⟩, hs⟩ := hr.aln (fun j => isMatch_zero _)
    refine ⟨j0, aln, by rw [← e1]; exact h1, by rw [← e2]; omega, h3, ⟨?_, ?_⟩, ?_⟩
    · rw [g1]; exact tSeg_fwd c s _ _ (by omega) h3 b4
    · rw [g2]; exact qSeg_fwd c s _ _ hm0 h4 b2
    · have : max 0 (j0 - max (clamp low 0 s.target.toList.length) (clamp high 0 s.target.toList.length)) = 0 := by
        rw [← e2]; omega
      rw [this]
      show (traceCore c (fwdView c s) mid l h).maxScore = scoreLin (kS c) aln - c.diffCost * 0
      rw [hs]; simp

/-! ### every hit the model emits is under contract -/

/-- the contract of a reported hit, for a hit of the model (scoring `kS`) -/
def HitP (c : Costs) (s : Seqs) (kh : Biogo.PalsKernel.KHit) : Prop :=
  HitOK (kS c) s.target.toList s.query.toList ⟨kh.h, kh.lowDiagonal, kh.highDiagonal⟩

structure CostsOK (c : Costs) : Prop where
  gap : 0 ≤ c.maxIGap
  block : 0 ≤ c.blockCost
  diff : 0 ≤ c.diffCost

/-- every result of the loop around `traceReverse` is a `traceReverse` from the forward end -/
theorem reverseLoop_is_trace (c : Costs) (ok : CostsOK c) (s : Seqs) (mid : Int) (lowEnd : TraceOut) :
    ∀ (n : Nat) (x : Int) (r : TraceOut), 0 ≤ x →
      (∃ xf, 0 ≤ xf ∧ r = traceReverse c s lowEnd.maxI lowEnd.maxJ lowEnd.maxJ (mid + c.maxIGap) xf) →
      ∃ xf, 0 ≤ xf ∧ reverseLoop c s mid lowEnd n x r =
        traceReverse c s lowEnd.maxI lowEnd.maxJ lowEnd.maxJ (mid + c.maxIGap) xf := by
  intro n
  induction n with
  | zero => intro x r _ h; exact h
  | succ n ih =>
    intro x r hx h
    unfold reverseLoop
    split
    · refine ih (x + 1) _ (by omega) ⟨c.blockCost + 2 * x * c.diffCost, ?_, rfl⟩
      have := ok.block
      have := Int.mul_nonneg (Int.mul_nonneg (by omega : (0 : Int) ≤ 2) hx) ok.diff
      omega
    · exact h

theorem tdiv_mid' (b t : Int) (h : b ≤ t) : b ≤ (b + t).tdiv 2 ∧ (b + t).tdiv 2 ≤ t := by
  rcases Int.le_total 0 (b + t) with hs | hs
  · rw [Int.tdiv_eq_ediv_of_nonneg hs]; omega
  · have e : (b + t).tdiv 2 = -((-(b + t)).tdiv 2) := by rw [Int.neg_tdiv, Int.neg_neg]
    rw [e, Int.tdiv_eq_ediv_of_nonneg (by omega)]
    omega

/-- what every pushed hit satisfies: the contract, the acceptance test of `alignRecursion`, and the
    error numerator is that of the hit -/
def HitQ (c : Costs) (s : Seqs) (minLen num den : Int) (kh : Biogo.PalsKernel.KHit) : Prop :=
  HitP c s kh ∧ Biogo.PalsOracle.accept minLen c.rMatchCost num den kh.h = true ∧ kh.errNum = kh.h.errNum

theorem alignRecursion_ok (c : Costs) (ok : CostsOK c) (s : Seqs) (traps : Array Trap) (slot : Nat)
    (minLen num den : Int) (split : Bool) (hml : 0 ≤ minLen) :
    ∀ (fuel : Nat) (t : Trap) (st : AState), (∀ kh ∈ st.hits, HitQ c s minLen num den kh) →
      0 ≤ t.bottom → t.bottom ≤ t.top → t.top ≤ s.qlen →
      ∀ kh ∈ (alignRecursion c s traps slot minLen num den split fuel t st).hits, HitQ c s minLen num den kh := by
  intro fuel
  induction fuel with
  | zero => intro t st h _ _ _; exact h
  | succ fuel ih =>
    intro t st hst hb0 hbt htq
    unfold alignRecursion
    simp only []
    have hmid := tdiv_mid' t.bottom t.top hbt
    generalize (t.bottom + t.top).tdiv 2 = mid at hmid ⊢
    have fb := traceForward_bounds c s mid (mid - t.right) (mid - t.left) (by omega) ok.gap ok.block
    simp only [] at fb
    generalize traceForward c s mid (mid - t.right) (mid - t.left) = lowEnd at fb ⊢
    obtain ⟨xf, hxf, hrev⟩ := reverseLoop_is_trace c ok s mid lowEnd (s.query.size + 2) 2
      (traceReverse c s lowEnd.maxI lowEnd.maxJ lowEnd.maxJ (mid + c.maxIGap) (c.blockCost + 2 * 1 * c.diffCost))
      (by omega) ⟨c.blockCost + 2 * 1 * c.diffCost, by have := ok.block; have := ok.diff; omega, rfl⟩
    rw [hrev]
    have rok := traceReverse_ok c s lowEnd.maxI lowEnd.maxJ (mid + c.maxIGap) xf ⟨fb.2.2.1, fb.2.2.2⟩
      ⟨by omega, fb.2.1⟩ ok.gap ok.block hxf
    simp only [] at rok
    generalize traceReverse c s lowEnd.maxI lowEnd.maxJ lowEnd.maxJ (mid + c.maxIGap) xf = highEnd at rok ⊢
    obtain ⟨rr, rc, rn, rp, rd1, rd2⟩ := rok
    simp only [] at rr rc rn rp rd1 rd2
    -- the hit, if accepted, is under contract
    have hhit : Biogo.PalsOracle.accept minLen c.rMatchCost num den { abpos := highEnd.maxJ, bbpos := highEnd.maxI, aepos := lowEnd.maxJ, bepos := lowEnd.maxI, score := highEnd.maxScore } = true → HitQ c s minLen num den
        { h := { abpos := highEnd.maxJ, bbpos := highEnd.maxI, aepos := lowEnd.maxJ, bepos := lowEnd.maxI,
                 score := highEnd.maxScore },
          lowDiagonal := -highEnd.maxRight, highDiagonal := -highEnd.maxLeft,
          errNum := Biogo.PalsOracle.Hit.errNum { abpos := highEnd.maxJ, bbpos := highEnd.maxI, aepos := lowEnd.maxJ,
                                                    bepos := lowEnd.maxI, score := highEnd.maxScore } } := by
      intro hacc
      refine ⟨⟨?_, ?_, rn, rp, ?_, ?_⟩, hacc, rfl⟩
      · have hl1 : (s.target.toList.length : Int) = s.tlen := by simp [Seqs.tlen]
        simp only []; omega
      · have hl2 : (s.query.toList.length : Int) = s.qlen := by simp [Seqs.qlen]
        simp only []; omega
      · simp only []; omega
      · simp only []; omega
    generalize hK : ({ h := { abpos := highEnd.maxJ, bbpos := highEnd.maxI, aepos := lowEnd.maxJ, bepos := lowEnd.maxI, score := highEnd.maxScore }, lowDiagonal := -highEnd.maxRight, highDiagonal := -highEnd.maxLeft, errNum := Biogo.PalsOracle.Hit.errNum { abpos := highEnd.maxJ, bbpos := highEnd.maxI, aepos := lowEnd.maxJ, bepos := lowEnd.maxI, score := highEnd.maxScore } } : Biogo.PalsKernel.KHit) = K at hhit ⊢
    generalize (Biogo.PalsOracle.accept minLen c.rMatchCost num den { abpos := highEnd.maxJ, bbpos := highEnd.maxI, aepos := lowEnd.maxJ, bepos := lowEnd.maxI, score := highEnd.maxScore }) = acc at hhit ⊢
    generalize coverLoop traps lowEnd.maxI highEnd.maxLeft highEnd.maxRight (traps.size - (slot + 1)) (slot + 1) st.covered = cov
    -- the state after the acceptance test
    have h1 : ∀ kh ∈ (if acc = true then ({ covered := cov, hits := st.hits.push K } : AState) else st).hits, HitQ c s minLen num den kh := by
      intro kh hk
      split at hk
      · rename_i hacc
        rcases Array.mem_push.mp hk with h | h
        · exact hst kh h
        · rw [h]; exact hhit hacc
      · exact hst kh hk
    generalize (if acc = true then ({ covered := cov, hits := st.hits.push K } : AState) else st) = st1 at h1 ⊢
    -- the two row-wise recursive calls
    have h2 : ∀ kh ∈ (if (decide (highEnd.maxI - c.maxIGap - t.bottom > minLen) && decide (highEnd.maxI - c.maxIGap < t.top - c.maxIGap)) = true
               then alignRecursion c s traps slot minLen num den split fuel { t with top := highEnd.maxI - c.maxIGap } st1
               else st1).hits, HitQ c s minLen num den kh := by
      split
      · rename_i hc
        simp only [Bool.and_eq_true, decide_eq_true_eq] at hc
        have := ok.gap
        exact ih _ st1 h1 hb0 (by simp only []; omega) (by simp only []; omega)
      · exact h1
    generalize (if (decide (highEnd.maxI - c.maxIGap - t.bottom > minLen) && decide (highEnd.maxI - c.maxIGap < t.top - c.maxIGap)) = true
               then alignRecursion c s traps slot minLen num den split fuel { t with top := highEnd.maxI - c.maxIGap } st1
               else st1) = st2 at h2 ⊢
    have h3 : ∀ kh ∈ (if t.top - (lowEnd.maxI + c.maxIGap) > minLen
               then alignRecursion c s traps slot minLen num den split fuel { t with bottom := lowEnd.maxI + c.maxIGap } st2
               else st2).hits, HitQ c s minLen num den kh := by
      split
      · rename_i hc
        have := ok.gap
        exact ih _ st2 h2 (by simp only []; omega) (by simp only []; omega) htq
      · exact h2
    generalize (if t.top - (lowEnd.maxI + c.maxIGap) > minLen
               then alignRecursion c s traps slot minLen num den split fuel { t with bottom := lowEnd.maxI + c.maxIGap } st2
               else st2) = st3 at h3 ⊢
    -- the two diagonal-wise calls of `split = true`: rows within those of `t`
    cases split with
    | false => exact h3
    | true =>
      simp only [if_true]
      generalize hsb : (if highEnd.maxI - c.maxIGap > t.bottom then highEnd.maxI - c.maxIGap else t.bottom) = sideBottom
      generalize hst' : (if lowEnd.maxI + c.maxIGap < t.top then lowEnd.maxI + c.maxIGap else t.top) = sideTop
      have hsb1 : t.bottom ≤ sideBottom := by rw [← hsb]; split <;> omega
      have hst1 : sideTop ≤ t.top := by rw [← hst']; split <;> omega
      have h4 : ∀ kh ∈ (if (decide (sideTop - sideBottom > minLen) && decide (t.left ≤ highEnd.maxLeft - 1) && decide (highEnd.maxLeft - 1 < t.right)) = true
                 then alignRecursion c s traps slot minLen num den true fuel
                   { t with bottom := sideBottom, top := sideTop, right := highEnd.maxLeft - 1 } st3
                 else st3).hits, HitQ c s minLen num den kh := by
        split
        · rename_i hc
          simp only [Bool.and_eq_true, decide_eq_true_eq] at hc
          exact ih _ st3 h3 (by simp only []; omega) (by simp only []; omega) (by simp only []; omega)
        · exact h3
      generalize (if (decide (sideTop - sideBottom > minLen) && decide (t.left ≤ highEnd.maxLeft - 1) && decide (highEnd.maxLeft - 1 < t.right)) = true
                 then alignRecursion c s traps slot minLen num den true fuel
                   { t with bottom := sideBottom, top := sideTop, right := highEnd.maxLeft - 1 } st3
                 else st3) = st4 at h4 ⊢
      split
      · rename_i hc
        simp only [Bool.and_eq_true, decide_eq_true_eq] at hc
        exact ih _ st4 h4 (by simp only []; omega) (by simp only []; omega) (by simp only []; omega)
      · exact h4

/-- the trapezoids handed to the aligner lie within the query rows -/
def TrapsIn (qlen : Int) (traps : Array Trap) : Prop :=
  ∀ t ∈ traps, 0 ≤ t.bottom ∧ t.bottom ≤ t.top ∧ t.top ≤ qlen

theorem alignLoop_ok (c : Costs) (ok : CostsOK c) (s : Seqs) (traps : Array Trap) (k minLen num den : Int) (split : Bool)
    (hml : 0 ≤ minLen) (htr : TrapsIn s.qlen traps) :
    ∀ (n i : Nat) (st : AState), (∀ kh ∈ st.hits, HitQ c s minLen num den kh) →
      ∀ kh ∈ (alignLoop c s traps k minLen num den split n i st).hits, HitQ c s minLen num den kh := by
  intro n
  induction n with
  | zero => intro i st h; exact h
  | succ n ih =>
    intro i st h
    unfold alignLoop
    split
    · exact h
    · rename_i t ht
      have hmem : t ∈ traps := Array.mem_of_getElem? ht
      obtain ⟨t1, t2, t3⟩ := htr t hmem
      apply ih
      split
      · exact alignRecursion_ok c ok s traps i minLen num den split hml _ t st h t1 t2 t3
      · exact h

/-- **every hit the kernel model emits is under contract** (scoring `kS`), for the recursion of the
    source and for the one that also splits by diagonals -/
theorem emittedWith_okQ (split : Bool) (c : Costs) (ok : CostsOK c) (s : Seqs) (traps : List Trap) (k minLen num den : Int)
    (hml : 0 ≤ minLen) (htr : TrapsIn s.qlen traps.toArray) :
    ∀ kh ∈ emittedWith split c s traps k minLen num den, HitQ c s minLen num den kh := by
  intro kh hk
  unfold emittedWith at hk
  simp only [] at hk
  refine alignLoop_ok c ok s traps.toArray k minLen num den split hml htr _ 0 _ ?_ kh (Array.mem_toList_iff.mp hk)
  intro kh h
  exact absurd h (Array.not_mem_empty kh)

theorem emittedWith_ok (split : Bool) (c : Costs) (ok : CostsOK c) (s : Seqs) (traps : List Trap) (k minLen num den : Int)
    (hml : 0 ≤ minLen) (htr : TrapsIn s.qlen traps.toArray) :
    ∀ kh ∈ emittedWith split c s traps k minLen num den, HitP c s kh :=
  fun kh hk => (emittedWith_okQ split c ok s traps k minLen num den hml htr kh hk).1

theorem emitted_ok (c : Costs) (ok : CostsOK c) (s : Seqs) (traps : List Trap) (k minLen num den : Int)
    (hml : 0 ≤ minLen) (htr : TrapsIn s.qlen traps.toArray) :
    ∀ kh ∈ emitted c s traps k minLen num den, HitP c s kh :=
  emittedWith_ok false c ok s traps k minLen num den hml htr

/-- every emitted hit passed the acceptance test of `alignRecursion` -/
theorem emitted_accepted (c : Costs) (ok : CostsOK c) (s : Seqs) (traps : List Trap) (k minLen num den : Int)
    (hml : 0 ≤ minLen) (htr : TrapsIn s.qlen traps.toArray) :
    ∀ kh ∈ emitted c s traps k minLen num den,
      Biogo.PalsOracle.accept minLen c.rMatchCost num den kh.h = true ∧ kh.errNum = kh.h.errNum :=
  fun kh hk => (emittedWith_okQ false c ok s traps k minLen num den hml htr kh hk).2

/-! ### with valid letters the kernel's scoring is the PALS matrix -/

theorem validLetter_ne_zero {x : Nat} (h : validLetter x = true) : x ≠ 0 := by
  intro e; subst e; simp [validLetter] at h

theorem scoreLin_kS_pals (c : Costs) (hm : c.matchCost - c.diffCost = 1) (hd : c.diffCost = 3) (a : Aln)
    (hR : ∀ x ∈ projR a, validLetter x = true) (hQ : ∀ x ∈ projQ a, validLetter x = true) :
    scoreLin (kS c) a = scoreLin (Biogo.PalsOracle.palsS 1 3) a := by
  induction a with
  | nil => rfl
  | cons col a ih =>
    cases col with
    | m r q =>
      have hr : validLetter r = true := hR r (by simp [projR])
      have hq : validLetter q = true := hQ q (by simp [projQ])
      have ih' := ih (fun x hx => hR x (by simp [projR, hx])) (fun x hx => hQ x (by simp [projQ, hx]))
      simp only [scoreLin, colScore, ih', kS, Biogo.PalsOracle.palsS, isMatch, hq, Bool.and_true, beq_iff_eq]
      have := validLetter_ne_zero hr
      by_cases e : q = r
      · subst e; simp [this]; omega
      · have e' : ¬ r = q := fun h => e h.symm
        simp [e, e']; omega
    | u r =>
      have hr : validLetter r = true := hR r (by simp [projR])
      have ih' := ih (fun x hx => hR x (by simp [projR, hx])) (fun x hx => hQ x (by simpa [projQ] using hx))
      have := validLetter_ne_zero hr
      simp only [scoreLin, colScore, ih', kS, Biogo.PalsOracle.palsS, isMatch_zero]
      have e' : ¬ (r = 0 ∧ r ≠ 0) := fun h => h.2 h.1
      simp [e']; omega
    | l q =>
      have hq : validLetter q = true := hQ q (by simp [projQ])
      have ih' := ih (fun x hx => hR x (by simpa [projR] using hx)) (fun x hx => hQ x (by simp [projQ, hx]))
      have hq0 := validLetter_ne_zero hq
      have hm0 : isMatch q 0 = false := by unfold isMatch; simp [hq0]
      simp only [scoreLin, colScore, ih', kS, Biogo.PalsOracle.palsS, hm0]
      simp; omega

theorem mem_slice {l : List Nat} {b e : Int} {x : Nat} (h : x ∈ slice l b e) : x ∈ l := by
  unfold slice at h
  exact List.mem_of_mem_drop (List.mem_of_mem_take h)

/-- **for sequences of valid letters every hit the kernel model emits satisfies the contract
    `HitOK` under the PALS matrix** (`+1 / −3`) -/
theorem emittedWith_hitOK (split : Bool) (c : Costs) (ok : CostsOK c) (hm : c.matchCost - c.diffCost = 1) (hd : c.diffCost = 3)
    (s : Seqs) (hvt : ∀ x ∈ s.target.toList, validLetter x = true) (hvq : ∀ x ∈ s.query.toList, validLetter x = true)
    (traps : List Trap) (k minLen num den : Int) (hml : 0 ≤ minLen) (htr : TrapsIn s.qlen traps.toArray) :
    ∀ kh ∈ emittedWith split c s traps k minLen num den,
      HitOK (Biogo.PalsOracle.palsS 1 3) s.target.toList s.query.toList ⟨kh.h, kh.lowDiagonal, kh.highDiagonal⟩ := by
  intro kh hk
  obtain ⟨h1, h2, h3, h4, h5, h6⟩ := emittedWith_ok split c ok s traps k minLen num den hml htr kh hk
  refine ⟨h1, h2, h3, ?_, h5, h6⟩
  intro hlt
  obtain ⟨aln, hg, hs⟩ := h4 hlt
  refine ⟨aln, hg, ?_⟩
  rw [← hs]
  symm
  apply scoreLin_kS_pals c hm hd
  · intro x hx; rw [hg.1] at hx; exact hvt x (mem_slice hx)
  · intro x hx; rw [hg.2] at hx; exact hvq x (mem_slice hx)

theorem emitted_hitOK (c : Costs) (ok : CostsOK c) (hm : c.matchCost - c.diffCost = 1) (hd : c.diffCost = 3)
    (s : Seqs) (hvt : ∀ x ∈ s.target.toList, validLetter x = true) (hvq : ∀ x ∈ s.query.toList, validLetter x = true)
    (traps : List Trap) (k minLen num den : Int) (hml : 0 ≤ minLen) (htr : TrapsIn s.qlen traps.toArray) :
    ∀ kh ∈ emitted c s traps k minLen num den,
      HitOK (Biogo.PalsOracle.palsS 1 3) s.target.toList s.query.toList ⟨kh.h, kh.lowDiagonal, kh.highDiagonal⟩ :=
  emittedWith_hitOK false c ok hm hd s hvt hvq traps k minLen num den hml htr

end Biogo.Proofs.PalsKernelSound
