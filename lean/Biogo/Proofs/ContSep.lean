/-
Ownership, well-formedness and the frame theorem for worlds of *all* container kinds
(linear.Seq/QSeq, multi.Multi, multi.Set and the column-stored alignment.Seq/QSeq) with
caller-owned buffers, under *every* operation of the C05 and C07 histories.

  `Obj.arrs`    the backing arrays an object owns (a column-stored alignment owns one per column)
  `ObjWF`       every slice of the object lies, with its capacity, inside an allocated array; the
                slices of one object are in pairwise different arrays; the columns of an
                alignment all have the same number of rows, and there is one row annotation per row
  `WorldWF`     every object is well formed, different objects own different arrays, no
                caller buffer shares an array with an object
  `Eff`         the effect of an operation on the object it is applied to: it writes only that
                object's arrays or arrays it allocates, and leaves the object well formed

Core-only.
-/
import Biogo.Model.ContWorld
import Biogo.Proofs.Containers
import Biogo.Proofs.ContFrame
import Biogo.Proofs.ContAln
import Biogo.Proofs.ContGrid
import Biogo.Proofs.ContAppend

namespace Biogo.Containers
open Biogo.Go

/-! ### ownership and well-formedness -/

/-- the backing arrays an object owns -/
def Obj.arrs : Obj → List Nat
  | .lin l => [l.s.arr]
  | .aln a => a.cols.map (·.arr)
  | .multi m => m.rows.map (·.s.arr)
  | .set m => m.rows.map (·.s.arr)

/-- slices with their capacity inside allocated arrays, in pairwise different arrays -/
def SlicesCapWF (h : Cells) (ss : List Slice) : Prop :=
  (∀ s ∈ ss, CapValid h s) ∧ ss.Pairwise (fun x y => x.arr ≠ y.arr)

/-- the columns of an alignment of `n` rows -/
def ColsCapWF (h : Cells) (n : Nat) (cols : List Slice) : Prop :=
  SlicesCapWF h cols ∧ ∀ c ∈ cols, c.len = n

theorem rowsCapWF_iff (h : Cells) (rows : List Lin) :
    RowsCapWF h rows ↔ SlicesCapWF h (rows.map (·.s)) := by
  simp only [RowsCapWF, SlicesCapWF, List.mem_map, List.pairwise_map]
  constructor
  · rintro ⟨h1, h2⟩
    exact ⟨fun s ⟨r, hr, e⟩ => e ▸ h1 r hr, h2⟩
  · rintro ⟨h1, h2⟩
    exact ⟨fun r hr => h1 r.s ⟨r, hr, rfl⟩, h2⟩

/-- well-formedness of one object -/
def ObjWF (h : Cells) : Obj → Prop
  | .lin l => CapValid h l.s
  | .aln a => a.off = 0 ∧ ∃ n, ColsCapWF h n a.cols ∧ (a.cols ≠ [] → a.subs.length = n)
  | .multi m => RowsCapWF h m.rows
  | .set m => RowsCapWF h m.rows

theorem ColsCapWF.toColsWF {h : Cells} {n : Nat} {cols : List Slice} (hw : ColsCapWF h n cols) :
    ColsWF h n cols :=
  ⟨fun c hc => ⟨(hw.1.1 c hc).1, by have := (hw.1.1 c hc).2.1; have := (hw.1.1 c hc).2.2; omega, hw.2 c hc⟩,
   hw.1.2⟩

theorem ColsCapWF.cap {h : Cells} {n : Nat} {cols : List Slice} (hw : ColsCapWF h n cols) :
    ∀ c ∈ cols, c.len ≤ c.cap := fun c hc => (hw.1.1 c hc).2.1

theorem RowsCapWF.toRowsWF {h : Cells} {rows : List Lin} (hw : RowsCapWF h rows) : RowsWF h rows :=
  ⟨fun r hr => (hw.1 r hr).toValid, hw.2⟩

theorem ObjWF.arrs_lt {h : Cells} {o : Obj} (hw : ObjWF h o) : ∀ a ∈ o.arrs, a < h.arrays.length := by
  intro a ha
  cases o with
  | lin l => simp only [Obj.arrs, List.mem_singleton] at ha; subst ha; exact hw.1
  | aln al =>
    obtain ⟨_, n, hc, _⟩ := hw
    simp only [Obj.arrs, List.mem_map] at ha
    obtain ⟨c, hc', rfl⟩ := ha
    exact (hc.1.1 c hc').1
  | multi m =>
    simp only [Obj.arrs, List.mem_map] at ha
    obtain ⟨r, hr, rfl⟩ := ha
    exact (hw.1 r hr).1
  | set m =>
    simp only [Obj.arrs, List.mem_map] at ha
    obtain ⟨r, hr, rfl⟩ := ha
    exact (hw.1 r hr).1

theorem SlicesCapWF.mono {h h' : Cells} {ss : List Slice} (hw : SlicesCapWF h ss)
    (hl : h.arrays.length ≤ h'.arrays.length) (ha : ∀ s ∈ ss, h'.arr s.arr = h.arr s.arr) :
    SlicesCapWF h' ss :=
  ⟨fun s hs => (hw.1 s hs).mono hl (ha s hs), hw.2⟩

/-- well-formedness depends only on the number of arrays and on the object's own arrays -/
theorem ObjWF.mono {h h' : Cells} {o : Obj} (hw : ObjWF h o) (hl : h.arrays.length ≤ h'.arrays.length)
    (ha : ∀ a ∈ o.arrs, h'.arr a = h.arr a) : ObjWF h' o := by
  cases o with
  | lin l => exact CapValid.mono hw hl (ha _ (by simp [Obj.arrs]))
  | aln al =>
    obtain ⟨h0, n, hc, hsub⟩ := hw
    refine ⟨h0, n, ⟨hc.1.mono hl fun s hs => ha _ ?_, hc.2⟩, hsub⟩
    simp only [Obj.arrs, List.mem_map]; exact ⟨s, hs, rfl⟩
  | multi m =>
    exact (rowsCapWF_iff _ _).mpr (((rowsCapWF_iff _ _).mp hw).mono hl fun s hs => by
      obtain ⟨r, hr, rfl⟩ := List.mem_map.mp hs
      exact ha _ (by simp only [Obj.arrs, List.mem_map]; exact ⟨r, hr, rfl⟩))
  | set m =>
    exact (rowsCapWF_iff _ _).mpr (((rowsCapWF_iff _ _).mp hw).mono hl fun s hs => by
      obtain ⟨r, hr, rfl⟩ := List.mem_map.mp hs
      exact ha _ (by simp only [Obj.arrs, List.mem_map]; exact ⟨r, hr, rfl⟩))

/-! ### what is observed of an object depends only on the arrays it owns -/

theorem foldl_ext_mem {α β : Type} (f g : β → α → β) : ∀ (l : List α) (b : β),
    (∀ acc, ∀ x ∈ l, f acc x = g acc x) → l.foldl f b = l.foldl g b := by
  intro l
  induction l with
  | nil => intro b _; rfl
  | cons x xs ih =>
    intro b hfg
    simp only [List.foldl_cons]
    rw [hfg b x List.mem_cons_self]
    exact ih _ fun acc y hy => hfg acc y (List.mem_cons_of_mem _ hy)

theorem get?_congr_arr {h h' : Cells} {s : Slice} (e : h'.arr s.arr = h.arr s.arr) (i : Nat) :
    h'.get? s i = h.get? s i := by
  simp only [Heap.get?, e]

theorem Lin.at?_congr {h h' : Cells} {l : Lin} (e : h'.arr l.s.arr = h.arr l.s.arr) (p : Int) :
    l.at? h' p = l.at? h p := by
  simp only [Lin.at?, get?_congr_arr e]

theorem Multi.column_congr (cx : Ctx) {h h' : Cells} (m : Multi)
    (e : ∀ r ∈ m.rows, h'.arr r.s.arr = h.arr r.s.arr) (p : Int) (fill : Bool) :
    m.column cx h' p fill = m.column cx h p fill := by
  simp only [Multi.column]
  apply foldl_ext_mem
  intro acc r hr
  simp only [Lin.at?_congr (e r hr)]

theorem Multi.columnQL_congr (cx : Ctx) {h h' : Cells} (m : Multi)
    (e : ∀ r ∈ m.rows, h'.arr r.s.arr = h.arr r.s.arr) (p : Int) (fill : Bool) :
    m.columnQL cx h' p fill = m.columnQL cx h p fill := by
  simp only [Multi.columnQL]
  apply foldl_ext_mem
  intro acc r hr
  simp only [Lin.at?_congr (e r hr)]

/-- **the observation of an object is a function of the arrays it owns** (every field of the
    observation: rows with `At` over their span, coordinates, strands, `Column`, `ColumnQL`,
    `Column(.., false)`, consensus) -/
theorem viewObj_congr (cx : Ctx) {h h' : Cells} (o : Obj) (e : ∀ a ∈ o.arrs, h'.arr a = h.arr a) :
    viewObj cx h' o = viewObj cx h o := by
  cases o with
  | lin l =>
    have e1 : h'.arr l.s.arr = h.arr l.s.arr := e _ (by simp [Obj.arrs])
    simp only [viewObj, linRowV_congr e1]
  | aln a =>
    have ec : ∀ c ∈ a.cols, h'.arr c.arr = h.arr c.arr := fun c hc =>
      e _ (by simp only [Obj.arrs, List.mem_map]; exact ⟨c, hc, rfl⟩)
    have hcol : a.column cx h' = a.column cx h := by
      funext i
      simp only [Aln.column]
      cases hi : a.cols[i]? with
      | none => rfl
      | some c => simp only [read_congr_arr h h' c (ec c (List.mem_of_getElem? hi))]
    have hcolQ : a.columnQL h' = a.columnQL h := by
      funext i
      simp only [Aln.columnQL]
      cases hi : a.cols[i]? with
      | none => rfl
      | some c => simp only [read_congr_arr h h' c (ec c (List.mem_of_getElem? hi))]
    have hrow : ∀ r, a.rowLetters h' r = a.rowLetters h r := by
      intro r
      simp only [Aln.rowLetters]
      apply List.map_congr_left
      intro c hc
      simp only [Heap.get, get?_congr_arr (ec c hc)]
    simp only [viewObj, hcol, hcolQ, hrow]
  | multi m =>
    have er : ∀ r ∈ m.rows, h'.arr r.s.arr = h.arr r.s.arr := fun r hr =>
      e _ (by simp only [Obj.arrs, List.mem_map]; exact ⟨r, hr, rfl⟩)
    have hrows : m.rows.map (linRowV h') = m.rows.map (linRowV h) :=
      List.map_congr_left fun r hr => linRowV_congr (er r hr)
    simp only [viewObj, hrows, Multi.column_congr cx m er, Multi.columnQL_congr cx m er]
  | set m =>
    have er : ∀ r ∈ m.rows, h'.arr r.s.arr = h.arr r.s.arr := fun r hr =>
      e _ (by simp only [Obj.arrs, List.mem_map]; exact ⟨r, hr, rfl⟩)
    have hrows : m.rows.map (linRowV h') = m.rows.map (linRowV h) :=
      List.map_congr_left fun r hr => linRowV_congr (er r hr)
    simp only [viewObj, hrows]

/-! ### worlds -/

/-- every object is well formed, different objects own different backing arrays, and no caller
    buffer lies in an array an object owns -/
structure WorldWF (w : World) : Prop where
  obj : ∀ (i : Nat) (o : Obj), w.objs[i]? = some o → ObjWF w.cells o
  buf : ∀ (b : Nat) (s : Slice), w.bufs[b]? = some s → s.arr < w.cells.arrays.length
  objDisj : ∀ (i j : Nat) (oi oj : Obj), i ≠ j → w.objs[i]? = some oi → w.objs[j]? = some oj →
    ∀ a ∈ oi.arrs, a ∉ oj.arrs
  bufDisj : ∀ (i : Nat) (o : Obj) (b : Nat) (s : Slice), w.objs[i]? = some o → w.bufs[b]? = some s →
    s.arr ∉ o.arrs

/-- the effect of an operation that turns object `o` into `o'` and the heap `h` into `h'`:
    only arrays of `o` and new arrays are written, `o'` lives in arrays of `o` and new arrays -/
structure Eff (h : Cells) (o : Obj) (h' : Cells) (o' : Obj) : Prop where
  size : h.arrays.length ≤ h'.arrays.length
  frame : ∀ b, b < h.arrays.length → b ∉ o.arrs → h'.arr b = h.arr b
  foot : ∀ a' ∈ o'.arrs, a' ∈ o.arrs ∨ h.arrays.length ≤ a'
  wf : ObjWF h' o'

/-- every array that existed is as it was -/
structure Grow (h h' : Cells) : Prop where
  size : h.arrays.length ≤ h'.arrays.length
  frame : ∀ b, b < h.arrays.length → h'.arr b = h.arr b

theorem Grow.refl (h : Cells) : Grow h h := ⟨Nat.le_refl _, fun _ _ => rfl⟩

theorem Grow.trans {h1 h2 h3 : Cells} (a : Grow h1 h2) (b : Grow h2 h3) : Grow h1 h3 :=
  ⟨Nat.le_trans a.size b.size, fun x hx => by rw [b.frame x (Nat.lt_of_lt_of_le hx a.size), a.frame x hx]⟩

theorem getElem?_set_objs (objs : List Obj) (k : Nat) (o' : Obj) (hk : k < objs.length) (j : Nat) :
    (objs.set k o')[j]? = if k = j then some o' else objs[j]? := by
  rw [List.getElem?_set]
  by_cases e : k = j
  · subst e; simp [hk]
  · simp [e]

theorem getElem?_append_one {α : Type} (l : List α) (c : α) (j : Nat) :
    (l ++ [c])[j]? = if j < l.length then l[j]? else if j = l.length then some c else none := by
  by_cases hj : j < l.length
  · simp [hj, List.getElem?_append_left hj]
  · simp only [hj, if_false]
    rw [List.getElem?_append_right (by omega)]
    by_cases e : j = l.length
    · simp [e]
    · simp only [e, if_false]
      cases hx : j - l.length with
      | zero => omega
      | succ n => simp

/-- what every object other than the one operated on keeps: itself, its observation -/
def OthersKept (cx : Ctx) (w w' : World) (k : Option Nat) : Prop :=
  ∀ (j : Nat) (oj : Obj), k ≠ some j → w.objs[j]? = some oj →
    w'.objs[j]? = some oj ∧ viewObj cx w'.cells oj = viewObj cx w.cells oj

/-- an operation with a local effect on object `k` keeps the world well formed and every other
    object (and its observation) as it was -/
theorem WorldWF.setObj (cx : Ctx) {w : World} (hw : WorldWF w) (k : Nat) (o : Obj) (hk : w.objs[k]? = some o)
    (h' : Cells) (o' : Obj) (he : Eff w.cells o h' o') :
    WorldWF (w.setObj k h' o') ∧ OthersKept cx w (w.setObj k h' o') (some k) := by
  have hklt : k < w.objs.length := (List.getElem?_eq_some_iff.mp hk).1
  have hget : ∀ j, (w.setObj k h' o').objs[j]? = if k = j then some o' else w.objs[j]? :=
    fun j => getElem?_set_objs w.objs k o' hklt j
  -- an object other than `k`: its arrays are untouched
  have hoth : ∀ (j : Nat) (oj : Obj), j ≠ k → w.objs[j]? = some oj →
      (∀ a ∈ oj.arrs, h'.arr a = w.cells.arr a) ∧ (∀ a' ∈ o'.arrs, a' ∉ oj.arrs) := by
    intro j oj hjk hj
    have hlt := (hw.obj j oj hj).arrs_lt
    refine ⟨fun a ha => he.frame a (hlt a ha) (hw.objDisj j k oj o hjk hj hk a ha), ?_⟩
    intro a' ha' hmem
    rcases he.foot a' ha' with hin | hfresh
    · exact hw.objDisj k j o oj (Ne.symm hjk) hk hj a' hin hmem
    · have := hlt a' hmem; omega
  refine ⟨⟨?_, ?_, ?_, ?_⟩, ?_⟩
  · intro i oi hi
    rw [hget] at hi
    by_cases e : k = i
    · simp only [e, if_true, Option.some.injEq] at hi; subst hi; exact he.wf
    · simp only [e, if_false] at hi
      exact (hw.obj i oi hi).mono he.size (hoth i oi (Ne.symm e) hi).1
  · intro b s hb
    exact Nat.lt_of_lt_of_le (hw.buf b s hb) he.size
  · intro i j oi oj hij hi hj
    rw [hget] at hi hj
    by_cases ei : k = i
    · simp only [ei, if_true, Option.some.injEq] at hi; subst hi
      have ej : ¬ k = j := fun e => hij (ei.symm.trans e)
      simp only [ej, if_false] at hj
      exact (hoth j oj (Ne.symm ej) hj).2
    · simp only [ei, if_false] at hi
      by_cases ej : k = j
      · simp only [ej, if_true, Option.some.injEq] at hj; subst hj
        intro a ha hmem
        exact (hoth i oi (Ne.symm ei) hi).2 a hmem ha
      · simp only [ej, if_false] at hj
        exact hw.objDisj i j oi oj hij hi hj
  · intro i oi b s hi hb
    rw [hget] at hi
    have hb' : w.bufs[b]? = some s := hb
    by_cases e : k = i
    · simp only [e, if_true, Option.some.injEq] at hi; subst hi
      intro hmem
      rcases he.foot _ hmem with hin | hfresh
      · exact hw.bufDisj k o b s hk hb' hin
      · have := hw.buf b s hb'; omega
    · simp only [e, if_false] at hi
      exact hw.bufDisj i oi b s hi hb'
  · intro j oj hjk hj
    have hjk' : j ≠ k := fun e => hjk (by rw [e])
    refine ⟨by rw [hget]; simp [Ne.symm hjk', hj], ?_⟩
    exact viewObj_congr cx oj (hoth j oj hjk' hj).1

/-- the heap only grows: nothing observable changes -/
theorem WorldWF.grow (cx : Ctx) {w : World} (hw : WorldWF w) (h' : Cells) (hg : Grow w.cells h') :
    WorldWF { w with cells := h' } ∧ OthersKept cx w { w with cells := h' } none := by
  have hsame : ∀ (j : Nat) (oj : Obj), w.objs[j]? = some oj → ∀ a ∈ oj.arrs, h'.arr a = w.cells.arr a :=
    fun j oj hj a ha => hg.frame a ((hw.obj j oj hj).arrs_lt a ha)
  refine ⟨⟨?_, ?_, hw.objDisj, hw.bufDisj⟩, ?_⟩
  · intro i oi hi
    exact (hw.obj i oi hi).mono hg.size (hsame i oi hi)
  · intro b s hb
    exact Nat.lt_of_lt_of_le (hw.buf b s hb) hg.size
  · intro j oj _ hj
    exact ⟨hj, viewObj_congr cx oj (hsame j oj hj)⟩

/-- a new object in new arrays is added -/
theorem WorldWF.addObj (cx : Ctx) {w : World} (hw : WorldWF w) (h' : Cells) (c : Obj) (hg : Grow w.cells h')
    (hwf : ObjWF h' c) (hfresh : ∀ a ∈ c.arrs, w.cells.arrays.length ≤ a) :
    WorldWF { w with cells := h', objs := w.objs ++ [c] } ∧
    OthersKept cx w { w with cells := h', objs := w.objs ++ [c] } none := by
  obtain ⟨hw1, hk1⟩ := hw.grow cx h' hg
  have hsome : ∀ (j : Nat) (oj : Obj), w.objs[j]? = some oj → j < w.objs.length := fun j oj hj =>
    (List.getElem?_eq_some_iff.mp hj).1
  have hold : ∀ (j : Nat) (oj : Obj), w.objs[j]? = some oj → ∀ a ∈ c.arrs, a ∉ oj.arrs := by
    intro j oj hj a ha hmem
    have := (hw.obj j oj hj).arrs_lt a hmem
    have := hfresh a ha
    omega
  -- classify an index of the extended list
  have hcases : ∀ (i : Nat) (oi : Obj), (w.objs ++ [c])[i]? = some oi →
      w.objs[i]? = some oi ∨ (i = w.objs.length ∧ oi = c) := by
    intro i oi hi
    rw [getElem?_append_one] at hi
    by_cases hlt : i < w.objs.length
    · simp only [hlt, if_true] at hi; exact Or.inl hi
    · simp only [hlt, if_false] at hi
      by_cases e : i = w.objs.length
      · simp only [e, if_true, Option.some.injEq] at hi; exact Or.inr ⟨e, hi.symm⟩
      · simp [e] at hi
  refine ⟨⟨?_, hw1.buf, ?_, ?_⟩, ?_⟩
  · intro i oi hi
    rcases hcases i oi hi with h1 | ⟨_, rfl⟩
    · exact hw1.obj i oi h1
    · exact hwf
  · intro i j oi oj hij hi hj
    rcases hcases i oi hi with h1 | ⟨e1, rfl⟩
    · rcases hcases j oj hj with h2 | ⟨e2, rfl⟩
      · exact hw.objDisj i j oi oj hij h1 h2
      · intro a ha hmem; exact hold i oi h1 a hmem ha
    · rcases hcases j oj hj with h2 | ⟨e2, rfl⟩
      · exact hold j oj h2
      · omega
  · intro i oi b s hi hb
    rcases hcases i oi hi with h1 | ⟨_, rfl⟩
    · exact hw.bufDisj i oi b s h1 hb
    · intro hmem
      have := hw.buf b s hb
      have := hfresh _ hmem
      omega
  · intro j oj _ hj
    refine ⟨?_, (hk1 j oj (by simp) hj).2⟩
    show (w.objs ++ [c])[j]? = some oj
    rw [List.getElem?_append_left (hsome j oj hj)]; exact hj

/-- a new caller buffer in a new array is added -/
theorem WorldWF.addBuf (cx : Ctx) {w : World} (hw : WorldWF w) (h' : Cells) (s : Slice) (hg : Grow w.cells h')
    (hlo : w.cells.arrays.length ≤ s.arr) (hhi : s.arr < h'.arrays.length) :
    WorldWF { w with cells := h', bufs := w.bufs ++ [s] } ∧
    OthersKept cx w { w with cells := h', bufs := w.bufs ++ [s] } none := by
  obtain ⟨hw1, hk1⟩ := hw.grow cx h' hg
  have hcases : ∀ (b : Nat) (t : Slice), (w.bufs ++ [s])[b]? = some t → w.bufs[b]? = some t ∨ t = s := by
    intro b t hb
    rw [getElem?_append_one] at hb
    by_cases hlt : b < w.bufs.length
    · simp only [hlt, if_true] at hb; exact Or.inl hb
    · simp only [hlt, if_false] at hb
      by_cases e : b = w.bufs.length
      · simp only [e, if_true, Option.some.injEq] at hb; exact Or.inr hb.symm
      · simp [e] at hb
  refine ⟨⟨hw1.obj, ?_, hw.objDisj, ?_⟩, hk1⟩
  · intro b t hb
    rcases hcases b t hb with h1 | rfl
    · exact hw1.buf b t h1
    · exact hhi
  · intro i oi b t hi hb
    rcases hcases b t hb with h1 | rfl
    · exact hw.bufDisj i oi b t hi h1
    · intro hmem
      have := (hw.obj i oi hi).arrs_lt _ hmem
      omega

/-- a write through a caller buffer changes no object -/
theorem WorldWF.mutBuf (cx : Ctx) {w : World} (hw : WorldWF w) (b : Nat) (s : Slice) (hb : w.bufs[b]? = some s)
    (i : Nat) (c : QL) :
    WorldWF { w with cells := w.cells.set s i c } ∧
    OthersKept cx w { w with cells := w.cells.set s i c } none := by
  have hsame : ∀ (j : Nat) (oj : Obj), w.objs[j]? = some oj →
      ∀ a ∈ oj.arrs, (w.cells.set s i c).arr a = w.cells.arr a := by
    intro j oj hj a ha
    apply Heap.arr_set_other
    intro e
    exact hw.bufDisj j oj b s hj hb (e ▸ ha)
  have hsz : (w.cells.set s i c).arrays.length = w.cells.arrays.length := Heap.length_set _ _ _ _
  refine ⟨⟨?_, ?_, hw.objDisj, hw.bufDisj⟩, ?_⟩
  · intro j oj hj
    exact (hw.obj j oj hj).mono (by rw [hsz]; exact Nat.le_refl _) (hsame j oj hj)
  · intro b' t hb'
    show t.arr < (w.cells.set s i c).arrays.length
    rw [hsz]; exact hw.buf b' t hb'
  · intro j oj _ hj
    exact ⟨hj, viewObj_congr cx oj (hsame j oj hj)⟩

end Biogo.Containers
