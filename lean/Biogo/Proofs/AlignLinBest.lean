/-
SW's running end cell `(maxS, maxI, maxJ)`: after the fill it is at least every table cell
(under gap scores ≤ 0 — the end-cell filter `score == diagScore` loses nothing) and it is the
value of the cell it points to.
-/
import Biogo.Proofs.AlignLinTable

namespace Biogo.Proofs.AlignLin
open Biogo.Spec.Alignment Biogo.AlignLin

/-- no cell exceeds the running best: inner loop -/
theorem swRowGo_bound (S : Matrix) (a i : Nat) (hga : S a 0 ≤ 0) :
    ∀ (rest : List Nat) (prev : List Int) (j : Nat) (d l : Int) (best : Best),
    (∀ y ∈ rest, S 0 y ≤ 0) → 0 ≤ best.s → d ≤ best.s → l ≤ best.s → (∀ x ∈ prev, x ≤ best.s) →
    best.s ≤ (swRowGo S a i j d l prev rest best).2.s ∧
    ∀ x ∈ (swRowGo S a i j d l prev rest best).1, x ≤ (swRowGo S a i j d l prev rest best).2.s := by
  intro rest
  induction rest with
  | nil => intro prev j d l best _ _ _ _ _; cases prev <;> simp [swRowGo]
  | cons b rest ih =>
    intro prev j d l best hq h0 hd hl hprev
    have hq' : ∀ y ∈ rest, S 0 y ≤ 0 := fun y hy => hq y (List.mem_cons_of_mem _ hy)
    cases prev with
    | nil => simp [swRowGo]
    | cons u prev' =>
      have hu : u ≤ best.s := hprev u (by simp)
      have hp' : ∀ x ∈ prev', x ≤ best.s := fun x hx => hprev x (by simp [hx])
      simp only [swRowGo]
      generalize hsc : max3 (d + S a b) (u + S a 0) (l + S 0 b) = sc
      have hgb := hq b (by simp)
      by_cases hpos : sc > 0
      · by_cases hupd : sc ≥ best.s ∧ sc = d + S a b
        · have hc : (sc > 0 ∧ sc ≥ best.s ∧ sc = d + S a b) := ⟨hpos, hupd⟩
          rw [if_pos hpos, if_pos hc]
          have := ih prev' (j + 1) u sc ⟨sc, i, j⟩ hq' (by simp; omega) (by simp; omega) (by simp)
            (fun x hx => by have := hp' x hx; simp; omega)
          obtain ⟨h1, h2⟩ := this
          simp only at h1
          refine ⟨by omega, ?_⟩
          intro x hx
          simp only [List.mem_cons] at hx
          rcases hx with rfl | hx
          · exact h1
          · exact h2 x hx
        · have hc : ¬ (sc > 0 ∧ sc ≥ best.s ∧ sc = d + S a b) := fun h => hupd h.2
          rw [if_pos hpos, if_neg hc]
          have hle : sc ≤ best.s := by
            rcases max3_cases (d + S a b) (u + S a 0) (l + S 0 b) with h | h | h <;> rw [hsc] at h
            · by_cases hb : sc ≥ best.s
              · exact absurd ⟨hb, h⟩ hupd
              · omega
            · omega
            · omega
          have := ih prev' (j + 1) u sc best hq' h0 hu hle hp'
          obtain ⟨h1, h2⟩ := this
          refine ⟨h1, ?_⟩
          intro x hx
          simp only [List.mem_cons] at hx
          rcases hx with rfl | hx
          · omega
          · exact h2 x hx
      · have hc : ¬ (sc > 0 ∧ sc ≥ best.s ∧ sc = d + S a b) := fun h => hpos h.1
        rw [if_neg hpos, if_neg hc]
        have := ih prev' (j + 1) u 0 best hq' h0 hu h0 hp'
        obtain ⟨h1, h2⟩ := this
        refine ⟨h1, ?_⟩
        intro x hx
        simp only [List.mem_cons] at hx
        rcases hx with rfl | hx
        · omega
        · exact h2 x hx

/-- no cell exceeds the running best: all rows -/
theorem swRowsFrom_bound (S : Matrix) (q : List Nat) (hq : ∀ y ∈ q, S 0 y ≤ 0) :
    ∀ (rest : List Nat) (prev : List Int) (i : Nat) (best : Best),
    (∀ x ∈ rest, S x 0 ≤ 0) → 0 ≤ best.s → (∀ x ∈ prev, x ≤ best.s) →
    best.s ≤ (swRowsFrom S q i prev rest best).2.s ∧
    ∀ row ∈ (swRowsFrom S q i prev rest best).1, ∀ x ∈ row, x ≤ (swRowsFrom S q i prev rest best).2.s := by
  intro rest
  induction rest with
  | nil => intro prev i best _ _ _; simp [swRowsFrom]
  | cons a rest ih =>
    intro prev i best hr h0 hprev
    cases prev with
    | nil => simp [swRowsFrom]
    | cons p0 prev' =>
      simp only [swRowsFrom]
      have hin := swRowGo_bound S a i (hr a (by simp)) q prev' 1 p0 0 best hq h0 (hprev p0 (by simp)) h0
        (fun x hx => hprev x (by simp [hx]))
      obtain ⟨hi1, hi2⟩ := hin
      generalize swRowGo S a i 1 p0 0 prev' q best = inner at hi1 hi2 ⊢
      have hrow : ∀ x ∈ (0 :: inner.1), x ≤ inner.2.s := by
        intro x hx
        simp only [List.mem_cons] at hx
        rcases hx with rfl | hx
        · omega
        · exact hi2 x hx
      have := ih (0 :: inner.1) (i + 1) inner.2 (fun x hx => hr x (List.mem_cons_of_mem _ hx)) (by omega) hrow
      obtain ⟨h1, h2⟩ := this
      refine ⟨by omega, ?_⟩
      intro row hr
      simp only [List.mem_cons] at hr
      rcases hr with rfl | hr
      · intro x hx; have := hrow x hx; omega
      · exact h2 row hr

theorem swFill_bound (S : Matrix) (r q : List Nat) (hg : GapsNonPos S r q) :
    0 ≤ (swFill S r q).2.s ∧ ∀ row ∈ (swFill S r q).1, ∀ x ∈ row, x ≤ (swFill S r q).2.s := by
  have := swRowsFrom_bound S q hg.2 r (List.replicate (q.length + 1) 0) 1 ⟨0, 0, 0⟩ hg.1 (by simp)
    (by intro x hx; simp [List.mem_replicate] at hx; simp [hx])
  obtain ⟨h1, h2⟩ := this
  simp only [swFill]
  refine ⟨by simpa using h1, ?_⟩
  intro row hr
  simp only [List.mem_cons] at hr
  rcases hr with rfl | hr
  · intro x hx; simp [List.mem_replicate] at hx; simp only at h1; omega
  · exact h2 row hr

/-! ### the best cell holds the best value -/

theorem swRowGo_pos (S : Matrix) (a i : Nat) :
    ∀ (rest : List Nat) (prev : List Int) (j : Nat) (d l : Int) (best : Best),
    (swRowGo S a i j d l prev rest best).2 = best ∨
    ((swRowGo S a i j d l prev rest best).2.i = i ∧ j ≤ (swRowGo S a i j d l prev rest best).2.j ∧
      (swRowGo S a i j d l prev rest best).1[(swRowGo S a i j d l prev rest best).2.j - j]?
        = some (swRowGo S a i j d l prev rest best).2.s) := by
  intro rest
  induction rest with
  | nil => intro prev j d l best; cases prev <;> simp [swRowGo]
  | cons b rest ih =>
    intro prev j d l best
    cases prev with
    | nil => simp [swRowGo]
    | cons u prev' =>
      simp only [swRowGo]
      generalize hsc : max3 (d + S a b) (u + S a 0) (l + S 0 b) = sc
      generalize hb' : (if sc > 0 ∧ sc ≥ best.s ∧ sc = d + S a b then (⟨sc, i, j⟩ : Best) else best) = best'
      generalize hv : (if sc > 0 then sc else 0) = v
      have := ih prev' (j + 1) u v best'
      generalize swRowGo S a i (j + 1) u v prev' rest best' = res at this ⊢
      rcases this with h | ⟨h1, h2, h3⟩
      · by_cases hc : sc > 0 ∧ sc ≥ best.s ∧ sc = d + S a b
        · rw [if_pos hc] at hb'
          rw [if_pos hc.1] at hv
          right
          rw [h, ← hb', ← hv]
          simp
        · rw [if_neg hc] at hb'
          left; rw [h, hb']
      · right
        refine ⟨h1, by omega, ?_⟩
        have : res.2.j - j = (res.2.j - (j + 1)) + 1 := by omega
        simp only [this, List.getElem?_cons_succ, h3]

theorem swRowsFrom_pos (S : Matrix) (q : List Nat) :
    ∀ (rest : List Nat) (prev : List Int) (i : Nat) (best : Best),
    (swRowsFrom S q i prev rest best).2 = best ∨
    (i ≤ (swRowsFrom S q i prev rest best).2.i ∧
      ((swRowsFrom S q i prev rest best).1[(swRowsFrom S q i prev rest best).2.i - i]?).bind
        (·[(swRowsFrom S q i prev rest best).2.j]?) = some (swRowsFrom S q i prev rest best).2.s) := by
  intro rest
  induction rest with
  | nil => intro prev i best; simp [swRowsFrom]
  | cons a rest ih =>
    intro prev i best
    cases prev with
    | nil => simp [swRowsFrom]
    | cons p0 prev' =>
      simp only [swRowsFrom]
      have hin := swRowGo_pos S a i q prev' 1 p0 0 best
      generalize swRowGo S a i 1 p0 0 prev' q best = inner at hin ⊢
      have hout := ih (0 :: inner.1) (i + 1) inner.2
      generalize swRowsFrom S q (i + 1) (0 :: inner.1) rest inner.2 = res at hout ⊢
      rcases hout with h | ⟨h1, h2⟩
      · rcases hin with h' | ⟨h1', h2', h3'⟩
        · left; rw [h, h']
        · right
          rw [h]
          refine ⟨by omega, ?_⟩
          have : inner.2.i - i = 0 := by omega
          have hj : inner.2.j = (inner.2.j - 1) + 1 := by omega
          rw [this]
          simp only [List.getElem?_cons_zero, Option.bind_some]
          rw [hj, List.getElem?_cons_succ, h3']
      · right
        refine ⟨by omega, ?_⟩
        have : res.2.i - i = (res.2.i - (i + 1)) + 1 := by omega
        simp only [this, List.getElem?_cons_succ, h2]

theorem swFill_pos (S : Matrix) (r q : List Nat) :
    ((swFill S r q).1[(swFill S r q).2.i]?).bind (·[(swFill S r q).2.j]?) = some (swFill S r q).2.s := by
  have := swRowsFrom_pos S q r (List.replicate (q.length + 1) 0) 1 ⟨0, 0, 0⟩
  simp only [swFill]
  generalize swRowsFrom S q 1 (List.replicate (q.length + 1) 0) r ⟨0, 0, 0⟩ = res at this ⊢
  rcases this with h | ⟨h1, h2⟩
  · rw [h]; simp
  · have : res.2.i = (res.2.i - 1) + 1 := by omega
    rw [this, List.getElem?_cons_succ, h2]

end Biogo.Proofs.AlignLin
