/-
Indexing lemmas for the tables of `Biogo.Model.AlignAff`: the flat array `table[i*c+j]`
against the rows it is built from, and the recurrence each cell satisfies
(`scanRow` / `fillRows`).  Core only.
-/
import Biogo.Model.AlignAff
import Biogo.Spec.AffineOpt

namespace Biogo.Proofs.AlignAffTable
open Biogo.AlignAff Biogo.Spec.AffineOpt

theorem flatten_getD {α} (d : α) (c : Nat) :
    ∀ (rows : List (List α)) (i j : Nat), (∀ row ∈ rows, row.length = c) → j < c →
      rows.flatten.getD (i * c + j) d = (rows.getD i []).getD j d := by
  intro rows
  induction rows with
  | nil => intro i j _ _; simp
  | cons row rest ih =>
    intro i j hlen hj
    have hrow : row.length = c := hlen row List.mem_cons_self
    cases i with
    | zero =>
      simp only [List.flatten_cons, Nat.zero_mul, Nat.zero_add, List.getD_eq_getElem?_getD]
      rw [List.getElem?_append_left (by omega)]
      simp
    | succ i =>
      have ih' := ih i j (fun r hr => hlen r (List.mem_cons_of_mem _ hr)) hj
      simp only [List.flatten_cons, List.getD_eq_getElem?_getD] at ih' ⊢
      rw [List.getElem?_append_right (by rw [hrow, Nat.succ_mul]; omega)]
      have e : (i + 1) * c + j - row.length = i * c + j := by rw [hrow, Nat.succ_mul]; omega
      rw [e, ih']
      simp

theorem mkTable_at (c : Nat) (rows : List (List Cell)) (i j : Nat)
    (hlen : ∀ row ∈ rows, row.length = c) (hj : j < c) :
    (mkTable c rows).at i j = rowAt rows i j := by
  have h := flatten_getD noCell c rows i j hlen hj
  simp only [Table.at, mkTable, rowAt, Array.getD_eq_getD_getElem?, List.getElem?_toArray]
  simpa [List.getD_eq_getElem?_getD] using h

theorem scanRow_length (f : Cell → Cell → Cell → Nat → Cell) :
    ∀ (ys : List Nat) (prev : List Cell) (lc : Cell), ys.length + 1 ≤ prev.length →
      (scanRow f prev lc ys).length = ys.length := by
  intro ys
  induction ys with
  | nil => intro prev lc _; cases prev with
    | nil => rfl
    | cons a t => cases t <;> rfl
  | cons y ys ih =>
    intro prev lc h
    match prev, h with
    | pd :: pu :: rest, h =>
      simp only [scanRow, List.length_cons]
      rw [ih (pu :: rest) _ (by simpa using h)]
    | [], h => simp at h
    | [_], h => simp at h

/-- the recurrence inside one row -/
theorem scanRow_getD (f : Cell → Cell → Cell → Nat → Cell) (d : Cell) :
    ∀ (ys : List Nat) (prev : List Cell) (lc : Cell) (j : Nat), ys.length + 1 ≤ prev.length →
      j < ys.length →
      (lc :: scanRow f prev lc ys).getD (j + 1) d =
        f (prev.getD j d) (prev.getD (j + 1) d) ((lc :: scanRow f prev lc ys).getD j d) (ys.getD j 0) := by
  intro ys
  induction ys with
  | nil => intro prev lc j _ hj; simp at hj
  | cons y ys ih =>
    intro prev lc j h hj
    match prev, h with
    | pd :: pu :: rest, h =>
      cases j with
      | zero => simp [scanRow]
      | succ j =>
        have := ih (pu :: rest) (f pd pu lc y) j (by simpa using h) (by simpa using hj)
        simp only [scanRow, List.getD_cons_succ] at this ⊢
        exact this
    | [], h => simp at h
    | [_], h => simp at h

/-- the rows of a table: row `i+1` is computed from row `i` -/
theorem fillRows_getD (first : Bool → Cell → Nat → Cell) (f : Nat → Cell → Cell → Cell → Nat → Cell)
    (q : List Nat) :
    ∀ (xs : List Nat) (b : Bool) (prev : List Cell) (i : Nat), i < xs.length →
      (prev :: fillRows first f q b prev xs).getD (i + 1) [] =
        (let prevRow := (prev :: fillRows first f q b prev xs).getD i []
         let fc := first (if i = 0 then b else false) (prevRow.headD noCell) (xs.getD i 0)
         fc :: scanRow (f (xs.getD i 0)) prevRow fc q) := by
  intro xs
  induction xs with
  | nil => intro b prev i hi; simp at hi
  | cons x xs ih =>
    intro b prev i hi
    cases i with
    | zero => simp [fillRows]
    | succ i =>
      have := ih false (first b (prev.headD noCell) x :: scanRow (f x) prev (first b (prev.headD noCell) x) q) i
        (by simpa using hi)
      simp only [fillRows, List.getD_cons_succ] at this ⊢
      rw [this]
      simp

theorem fillRows_length (first : Bool → Cell → Nat → Cell) (f : Nat → Cell → Cell → Cell → Nat → Cell)
    (q : List Nat) : ∀ (xs : List Nat) (b : Bool) (prev : List Cell),
      (fillRows first f q b prev xs).length = xs.length := by
  intro xs
  induction xs with
  | nil => intro b prev; rfl
  | cons x xs ih => intro b prev; simp [fillRows, ih]

/-- every row has `|q|+1` cells when the first one has -/
theorem fillRows_rowlen (first : Bool → Cell → Nat → Cell) (f : Nat → Cell → Cell → Cell → Nat → Cell)
    (q : List Nat) : ∀ (xs : List Nat) (b : Bool) (prev : List Cell), prev.length = q.length + 1 →
      ∀ row ∈ fillRows first f q b prev xs, row.length = q.length + 1 := by
  intro xs
  induction xs with
  | nil => intro b prev _ row hrow; simp [fillRows] at hrow
  | cons x xs ih =>
    intro b prev hp row hrow
    simp only [fillRows, List.mem_cons] at hrow
    have hl : (first b (prev.headD noCell) x :: scanRow (f x) prev (first b (prev.headD noCell) x) q).length
        = q.length + 1 := by
      rw [List.length_cons, scanRow_length (f x) q prev _ (by omega)]
    rcases hrow with rfl | hrow
    · exact hl
    · exact ih false _ hl row hrow

theorem rows_all_len (first : Bool → Cell → Nat → Cell) (f : Nat → Cell → Cell → Cell → Nat → Cell)
    (q r : List Nat) (r0 : List Cell) (h0 : r0.length = q.length + 1) :
    ∀ row ∈ r0 :: fillRows first f q true r0 r, row.length = q.length + 1 := by
  intro row hrow
  rcases List.mem_cons.mp hrow with rfl | h
  · exact h0
  · exact fillRows_rowlen first f q r true r0 h0 row h

theorem rows_getD_len (first : Bool → Cell → Nat → Cell) (f : Nat → Cell → Cell → Cell → Nat → Cell)
    (q r : List Nat) (r0 : List Cell) (h0 : r0.length = q.length + 1) (i : Nat) (hi : i ≤ r.length) :
    ((r0 :: fillRows first f q true r0 r).getD i []).length = q.length + 1 := by
  have hl : i < (r0 :: fillRows first f q true r0 r).length := by
    rw [List.length_cons, fillRows_length]; omega
  rw [List.getD_eq_getElem?_getD, List.getElem?_eq_getElem hl, Option.getD_some]
  exact rows_all_len first f q r r0 h0 _ (List.getElem_mem hl)

/-- the recurrence of an inner cell, in table coordinates -/
theorem rows_inner (first : Bool → Cell → Nat → Cell) (f : Nat → Cell → Cell → Cell → Nat → Cell)
    (q r : List Nat) (r0 : List Cell) (h0 : r0.length = q.length + 1) (i j : Nat)
    (hi : i < r.length) (hj : j < q.length) :
    rowAt (r0 :: fillRows first f q true r0 r) (i + 1) (j + 1) =
      f (r.getD i 0) (rowAt (r0 :: fillRows first f q true r0 r) i j)
        (rowAt (r0 :: fillRows first f q true r0 r) i (j + 1))
        (rowAt (r0 :: fillRows first f q true r0 r) (i + 1) j) (q.getD j 0) := by
  have hrow := fillRows_getD first f q r true r0 i hi
  have hlen := rows_getD_len first f q r r0 h0 i (by omega)
  simp only [rowAt]
  have key := scanRow_getD (f (r.getD i 0)) noCell q
    ((r0 :: fillRows first f q true r0 r).getD i [])
    (first (if i = 0 then true else false) (((r0 :: fillRows first f q true r0 r).getD i []).headD noCell) (r.getD i 0))
    j (by omega) hj
  rw [hrow]
  exact key

/-- the first cell of a row -/
theorem rows_first (first : Bool → Cell → Nat → Cell) (f : Nat → Cell → Cell → Cell → Nat → Cell)
    (q r : List Nat) (r0 : List Cell) (i : Nat) (hi : i < r.length) :
    rowAt (r0 :: fillRows first f q true r0 r) (i + 1) 0 =
      first (if i = 0 then true else false) (rowAt (r0 :: fillRows first f q true r0 r) i 0) (r.getD i 0) := by
  have hrow := fillRows_getD first f q r true r0 i hi
  simp only [rowAt]
  rw [hrow]
  simp only [List.getD_cons_zero]
  congr 1
  cases (r0 :: fillRows first f q true r0 r).getD i [] <;> rfl

/-- the recurrence of the first row of the reference table -/
theorem row0Tail_getD (fl : Flags) (S : Biogo.Spec.Alignment.Matrix) (o : Int) :
    ∀ (ys : List Nat) (lc : Cell) (j : Nat), j < ys.length →
      (lc :: optRow0Tail fl S o lc ys).getD (j + 1) noCell =
        { d := emptyAt fl.freeQ, u := none,
          l := gapVal fl o (S 0 (ys.getD j 0))
            ((lc :: optRow0Tail fl S o lc ys).getD j noCell).d
            ((lc :: optRow0Tail fl S o lc ys).getD j noCell).l
            ((lc :: optRow0Tail fl S o lc ys).getD j noCell).u } := by
  intro ys
  induction ys with
  | nil => intro lc j hj; simp at hj
  | cons y ys ih =>
    intro lc j hj
    cases j with
    | zero => simp [optRow0Tail]
    | succ j =>
      have := ih { d := emptyAt fl.freeQ, u := none, l := gapVal fl o (S 0 y) lc.d lc.l lc.u } j
        (by simpa using hj)
      simp only [optRow0Tail, List.getD_cons_succ] at this ⊢
      exact this

theorem optRows_row0 (fl : Flags) (S : Biogo.Spec.Alignment.Matrix) (o : Int) (r q : List Nat)
    (j : Nat) (hj : j < q.length) :
    rowAt (optRows fl S o r q) 0 (j + 1) =
      { d := emptyAt fl.freeQ, u := none,
        l := gapVal fl o (S 0 (q.getD j 0)) (rowAt (optRows fl S o r q) 0 j).d
          (rowAt (optRows fl S o r q) 0 j).l (rowAt (optRows fl S o r q) 0 j).u } := by
  simp only [rowAt, optRows, List.getD_cons_zero]
  exact row0Tail_getD fl S o q origin j hj

theorem optRows_origin (fl : Flags) (S : Biogo.Spec.Alignment.Matrix) (o : Int) (r q : List Nat) :
    rowAt (optRows fl S o r q) 0 0 = origin := by
  simp [rowAt, optRows]

end Biogo.Proofs.AlignAffTable
