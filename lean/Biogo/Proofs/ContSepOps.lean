/-
The effect (`Eff`) of every operation of the C05/C07 histories on the object it is applied to,
for every container kind: it writes only arrays the object owns or arrays it allocates, and
leaves the object well formed (`ObjWF`).  Core-only.
-/
import Biogo.Proofs.ContSep

namespace Biogo.Containers
open Biogo.Go

/-! ### in-place changes: no array is allocated or resized -/

/-- `h'` differs from `h` only inside the arrays listed in `A` -/
structure SameShape (A : List Nat) (h h' : Cells) : Prop where
  size : h'.arrays.length = h.arrays.length
  arrlen : ∀ b, (h'.arr b).length = (h.arr b).length
  frame : ∀ b, b ∉ A → h'.arr b = h.arr b

theorem SameShape.refl (A : List Nat) (h : Cells) : SameShape A h h := ⟨rfl, fun _ => rfl, fun _ _ => rfl⟩

theorem SameShape.trans {A : List Nat} {h1 h2 h3 : Cells} (a : SameShape A h1 h2) (b : SameShape A h2 h3) :
    SameShape A h1 h3 :=
  ⟨by rw [b.size, a.size], fun x => by rw [b.arrlen, a.arrlen], fun x hx => by rw [b.frame x hx, a.frame x hx]⟩

theorem SameShape.weaken {A B : List Nat} {h h' : Cells} (a : SameShape A h h') (hAB : ∀ x ∈ A, x ∈ B) :
    SameShape B h h' :=
  ⟨a.size, a.arrlen, fun x hx => a.frame x fun hxa => hx (hAB x hxa)⟩

theorem SameShape.set {A : List Nat} (h : Cells) (s : Slice) (i : Nat) (v : QL) (hs : s.arr ∈ A) :
    SameShape A h (h.set s i v) :=
  ⟨Heap.length_set _ _ _ _, fun b => Heap.length_arr_set _ _ _ _ _,
   fun b hb => Heap.arr_set_other _ _ _ _ _ fun e => hb (e ▸ hs)⟩

theorem SameShape.foldl {α : Type} {A : List Nat} (step : Cells → α → Cells) :
    ∀ (xs : List α) (h : Cells), (∀ h, ∀ x ∈ xs, SameShape A h (step h x)) → SameShape A h (xs.foldl step h) := by
  intro xs
  induction xs with
  | nil => intro h _; exact SameShape.refl A h
  | cons x xs ih =>
    intro h hstep
    simp only [List.foldl_cons]
    exact (hstep h x List.mem_cons_self).trans (ih _ fun h y hy => hstep h y (List.mem_cons_of_mem _ hy))

theorem SameShape.hTwoPtr {A : List Nat} (f : QL → QL) (mid : Bool) (s : Slice) (fuel i j1 : Nat) (h : Cells)
    (hs : s.arr ∈ A) : SameShape A h (hTwoPtr f mid s fuel i j1 h) :=
  ⟨length_hTwoPtr f mid s fuel i j1 h, fun b => arrlen_hTwoPtr f mid s b fuel i j1 h,
   fun b hb => arr_hTwoPtr f mid s b (fun e => hb (e ▸ hs)) fuel i j1 h⟩

theorem SameShape.hModAt {A : List Nat} (f : QL → QL) (s : Slice) (i : Nat) (h : Cells) (hs : s.arr ∈ A) :
    SameShape A h (hModAt f h s i) :=
  ⟨length_hModAt f h s i, fun b => arrlen_hModAt f h s i b, fun b hb => arr_hModAt f h s i b fun e => hb (e ▸ hs)⟩

/-- one exchange `ci[r], cj[r] = f(cj[r]), f(ci[r])` -/
theorem SameShape.rowSwap {A : List Nat} (f : QL → QL) (h : Cells) (ci cj : Slice) (r : Nat)
    (hi : ci.arr ∈ A) (hj : cj.arr ∈ A) : SameShape A h (Aln.rowSwap f h ci cj r) := by
  unfold Aln.rowSwap
  cases h.get? ci r with
  | none => exact SameShape.refl A h
  | some x =>
    cases h.get? cj r with
    | none => exact SameShape.refl A h
    | some y => exact (SameShape.set h ci r (f y) hi).trans (SameShape.set _ cj r (f x) hj)

theorem SameShape.swapCols {A : List Nat} (f : QL → QL) (h : Cells) (ci cj : Slice)
    (hi : ci.arr ∈ A) (hj : cj.arr ∈ A) : SameShape A h (Aln.swapCols f h ci cj) := by
  unfold Aln.swapCols
  apply SameShape.foldl
  intro h r _
  exact SameShape.rowSwap f h ci cj r hi hj

theorem SameShape.mapCol {A : List Nat} (f : QL → QL) (h : Cells) (c : Slice) (hc : c.arr ∈ A) :
    SameShape A h (Aln.mapCol f h c) := by
  unfold Aln.mapCol
  apply SameShape.foldl
  intro h r _
  exact SameShape.hModAt f c r h hc

theorem mem_arrs_of_getElem? {cols : List Slice} {i : Nat} {c : Slice} (hi : cols[i]? = some c) :
    c.arr ∈ cols.map (·.arr) := List.mem_map.mpr ⟨c, List.mem_of_getElem? hi, rfl⟩

theorem SameShape.colLoop (f : QL → QL) (cols : List Slice) :
    ∀ (fuel i j1 : Nat) (h : Cells), SameShape (cols.map (·.arr)) h (Aln.colLoop f cols fuel i j1 h) := by
  intro fuel
  induction fuel with
  | zero => intro i j1 h; exact SameShape.refl _ h
  | succ fuel ih =>
    intro i j1 h
    unfold Aln.colLoop
    by_cases h1 : i + 1 < j1
    · simp only [h1, if_true]
      cases hi : cols[i]? with
      | none => exact SameShape.refl _ h
      | some ci =>
        cases hj : cols[j1 - 1]? with
        | none => exact SameShape.refl _ h
        | some cj =>
          exact (SameShape.swapCols f h ci cj (mem_arrs_of_getElem? hi) (mem_arrs_of_getElem? hj)).trans (ih _ _ _)
    · simp only [h1, if_false]
      by_cases h2 : (i + 1 == j1) = true
      · simp only [h2, if_true]
        cases hi : cols[i]? with
        | none => exact SameShape.refl _ h
        | some ci => exact SameShape.mapCol f h ci (mem_arrs_of_getElem? hi)
      · simp only [h2]; exact SameShape.refl _ h

theorem SameShape.rowLoop (f : QL → QL) (mid : Bool) (cols : List Slice) (r : Nat) :
    ∀ (fuel i j1 : Nat) (h : Cells), SameShape (cols.map (·.arr)) h (Aln.rowLoop f mid cols r fuel i j1 h) := by
  intro fuel
  induction fuel with
  | zero => intro i j1 h; exact SameShape.refl _ h
  | succ fuel ih =>
    intro i j1 h
    unfold Aln.rowLoop
    by_cases h1 : i + 1 < j1
    · simp only [h1, if_true]
      cases hi : cols[i]? with
      | none => exact SameShape.refl _ h
      | some ci =>
        cases hj : cols[j1 - 1]? with
        | none => exact SameShape.refl _ h
        | some cj =>
          exact (SameShape.rowSwap f h ci cj r (mem_arrs_of_getElem? hi) (mem_arrs_of_getElem? hj)).trans (ih _ _ _)
    · simp only [h1, if_false]
      by_cases h2 : (mid && i + 1 == j1) = true
      · simp only [h2, if_true]
        cases hi : cols[i]? with
        | none => exact SameShape.refl _ h
        | some ci => exact SameShape.hModAt f ci r h (mem_arrs_of_getElem? hi)
      · simp only [h2]; exact SameShape.refl _ h

theorem CapValid.sameShape {A : List Nat} {h h' : Cells} {s : Slice} (hs : SameShape A h h') (hv : CapValid h s) :
    CapValid h' s := ⟨by rw [hs.size]; exact hv.1, hv.2.1, by rw [hs.arrlen]; exact hv.2.2⟩

theorem SlicesCapWF.sameShape {A : List Nat} {h h' : Cells} {ss : List Slice} (hs : SameShape A h h')
    (hw : SlicesCapWF h ss) : SlicesCapWF h' ss := ⟨fun s hm => (hw.1 s hm).sameShape hs, hw.2⟩

/-- an in-place change of the heap inside the object's own arrays, the object keeping its slices -/
theorem Eff.of_sameShape {h h' : Cells} {o o' : Obj} (hs : SameShape o.arrs h h') (harrs : o'.arrs = o.arrs)
    (hwf : ObjWF h' o') : Eff h o h' o' :=
  ⟨by rw [hs.size]; exact Nat.le_refl _, fun b _ hb => hs.frame b hb, fun a' ha' => Or.inl (harrs ▸ ha'), hwf⟩

/-! ### linear sequences -/

theorem eff_lin_revComp (cx : Ctx) (h : Cells) (l : Lin) (hw : ObjWF h (.lin l)) :
    Eff h (.lin l) (l.revComp cx h).1 (.lin (l.revComp cx h).2) := by
  have hs : SameShape [l.s.arr] h (l.revComp cx h).1 := SameShape.hTwoPtr _ _ _ _ _ _ _ (by simp)
  exact Eff.of_sameShape hs rfl (CapValid.sameShape hs hw)

theorem eff_lin_reverse (h : Cells) (l : Lin) (hw : ObjWF h (.lin l)) :
    Eff h (.lin l) (l.reverse h).1 (.lin (l.reverse h).2) := by
  have hs : SameShape [l.s.arr] h (l.reverse h).1 := SameShape.hTwoPtr _ _ _ _ _ _ _ (by simp)
  exact Eff.of_sameShape hs rfl (CapValid.sameShape hs hw)

theorem sameShape_lin_set (h : Cells) (l : Lin) (pos : Int) (c : QL) : SameShape [l.s.arr] h (l.set h pos c) := by
  unfold Lin.set
  split
  · exact SameShape.refl _ h
  · exact SameShape.set h l.s _ _ (by simp)

theorem eff_lin_set (h : Cells) (l : Lin) (pos : Int) (c : QL) (hw : ObjWF h (.lin l)) :
    Eff h (.lin l) (l.set h pos c) (.lin l) :=
  Eff.of_sameShape (sameShape_lin_set h l pos c) rfl (CapValid.sameShape (sameShape_lin_set h l pos c) hw)

/-! ### allocation -/

theorem ofList_facts (h : Cells) (xs : List QL) (cap : Nat) :
    (h.ofList xs cap zeroQL).2.arr = h.arrays.length ∧
    (h.ofList xs cap zeroQL).2.len = xs.length ∧
    (h.ofList xs cap zeroQL).1.arrays.length = h.arrays.length + 1 ∧
    CapValid (h.ofList xs cap zeroQL).1 (h.ofList xs cap zeroQL).2 ∧
    Grow h (h.ofList xs cap zeroQL).1 ∧
    (h.ofList xs cap zeroQL).1.read (h.ofList xs cap zeroQL).2 = xs := by
  have hsz : (h.ofList xs cap zeroQL).1.arrays.length = h.arrays.length + 1 := Heap.size_ofList _ _ _ _
  refine ⟨rfl, rfl, hsz, ⟨?_, ?_, ?_⟩, ⟨by omega, fun b hb => ?_⟩, Heap.read_ofList _ _ _ _⟩
  · rw [hsz]; exact Nat.lt_succ_self _
  · simp only [Heap.ofList]; omega
  · rw [show (h.ofList xs cap zeroQL).2.arr
          = (h.alloc (xs ++ List.replicate (max xs.length cap - xs.length) zeroQL)).2 from rfl]
    simp only [Heap.ofList]
    rw [Heap.arr_alloc_new]
    simp only [List.length_append, List.length_replicate]
    omega
  · simp only [Heap.ofList]; exact Heap.arr_alloc_old _ _ _ hb

theorem lin_clone_facts (cx : Ctx) (h : Cells) (l : Lin) :
    (l.clone cx h).2.s.arr = h.arrays.length ∧ CapValid (l.clone cx h).1 (l.clone cx h).2.s ∧
    Grow h (l.clone cx h).1 ∧ (l.clone cx h).1.arrays.length = h.arrays.length + 1 := by
  obtain ⟨a, _, c, d, e, _⟩ := ofList_facts h (h.read l.s) (cx.grow 0 l.s.len)
  exact ⟨a, d, e, c⟩

/-! ### row-stored containers: the effect on the list of rows -/

/-- the effect of an operation on the rows of a multi / set -/
structure EffRows (h : Cells) (rows : List Lin) (h' : Cells) (rows' : List Lin) : Prop where
  size : h.arrays.length ≤ h'.arrays.length
  frame : ∀ b, b < h.arrays.length → b ∉ rows.map (·.s.arr) → h'.arr b = h.arr b
  foot : ∀ r' ∈ rows', r'.s.arr ∈ rows.map (·.s.arr) ∨ h.arrays.length ≤ r'.s.arr
  wf : RowsCapWF h' rows'

theorem EffRows.multi {h h' : Cells} {rows rows' : List Lin} (e : EffRows h rows h' rows') :
    Eff h (.multi ⟨rows⟩) h' (.multi ⟨rows'⟩) :=
  ⟨e.size, e.frame, fun a' ha' => by
    obtain ⟨r', hr', rfl⟩ := List.mem_map.mp ha'
    exact e.foot r' hr', e.wf⟩

theorem EffRows.set {h h' : Cells} {rows rows' : List Lin} (e : EffRows h rows h' rows') :
    Eff h (.set ⟨rows⟩) h' (.set ⟨rows'⟩) :=
  ⟨e.size, e.frame, fun a' ha' => by
    obtain ⟨r', hr', rfl⟩ := List.mem_map.mp ha'
    exact e.foot r' hr', e.wf⟩

theorem EffRows.refl {h : Cells} {rows : List Lin} (hw : RowsCapWF h rows) : EffRows h rows h rows :=
  ⟨Nat.le_refl _, fun _ _ _ => rfl, fun r hr => Or.inl (List.mem_map.mpr ⟨r, hr, rfl⟩), hw⟩

theorem EffRows.trans {h1 h2 h3 : Cells} {r1 r2 r3 : List Lin} (a : EffRows h1 r1 h2 r2) (b : EffRows h2 r2 h3 r3) :
    EffRows h1 r1 h3 r3 := by
  refine ⟨Nat.le_trans a.size b.size, ?_, ?_, b.wf⟩
  · intro x hx hnot
    rw [b.frame x (Nat.lt_of_lt_of_le hx a.size) ?_, a.frame x hx hnot]
    intro hmem
    obtain ⟨r', hr', e⟩ := List.mem_map.mp hmem
    rcases a.foot r' hr' with hin | hfresh
    · exact hnot (e ▸ hin)
    · omega
  · intro r' hr'
    rcases b.foot r' hr' with hin | hfresh
    · obtain ⟨r, hr, e⟩ := List.mem_map.mp hin
      rcases a.foot r hr with hin2 | hfresh2
      · exact Or.inl (e ▸ hin2)
      · exact Or.inr (by omega)
    · exact Or.inr (Nat.le_trans a.size hfresh)

/-- a loop over the rows whose body is a `RowOp` -/
theorem effRows_pairFold {β : Type} (g : Cells → Lin × β → Cells × Lin) (hg : RowOp g) (rps : List (Lin × β))
    (h : Cells) (hwf : RowsCapWF h (rps.map (·.1))) :
    EffRows h (rps.map (·.1)) (pairFold g rps (h, [])).1 (pairFold g rps (h, [])).2 ∧
    (pairFold g rps (h, [])).2.length = rps.length := by
  obtain ⟨rows', h2, hall, hpw, hframe, hsize⟩ :=
    pairFold_spec g hg (fun _ _ _ _ => True) (fun _ _ _ _ => trivial) rps h [] hwf
  simp only [List.nil_append] at h2
  rw [h2]
  refine ⟨⟨hsize, ?_, ?_, ⟨?_, hpw⟩⟩, hall.length_eq.symm⟩
  · intro b hb hnot
    apply hframe b _ hb
    intro rp hrp e
    exact hnot (List.mem_map.mpr ⟨rp.1, List.mem_map.mpr ⟨rp, hrp, rfl⟩, e⟩)
  · intro r' hr'
    obtain ⟨rp, hrp, hx⟩ := hall.exists_left r' hr'
    rcases hx.2.1 with e | e
    · exact Or.inl (List.mem_map.mpr ⟨rp.1, List.mem_map.mpr ⟨rp, hrp, rfl⟩, e.symm⟩)
    · exact Or.inr e
  · intro r' hr'
    obtain ⟨rp, _, hx⟩ := hall.exists_left r' hr'
    exact hx.2.2

theorem rowsFold_eq_pairFold (g : Cells → Lin → Cells × Lin) (rows : List Lin) (acc : Cells × List Lin) :
    rowsFold g rows acc = pairFold (fun h (rp : Lin × Unit) => g h rp.1) (rows.map fun r => (r, ())) acc := by
  simp only [rowsFold, pairFold, List.foldl_map]

theorem map_unit_fst (rows : List Lin) : (rows.map fun r => (r, ())).map (·.1) = rows := by
  rw [List.map_map]; exact List.map_id _

/-- a loop `for _, r := range rows { g(r) }` whose body is a `RowOp` -/
theorem effRows_rowsFold (g : Cells → Lin → Cells × Lin) (hg : RowOp (fun h (rp : Lin × Unit) => g h rp.1))
    (rows : List Lin) (h : Cells) (hwf : RowsCapWF h rows) :
    EffRows h rows (rowsFold g rows (h, [])).1 (rowsFold g rows (h, [])).2 := by
  have := (effRows_pairFold _ hg (rows.map fun r => (r, ())) h (by rw [map_unit_fst]; exact hwf)).1
  rw [map_unit_fst] at this
  rw [rowsFold_eq_pairFold]
  exact this

/-- a row operation that keeps the row's slice and writes only inside the row's array -/
theorem rowOp_of_inplace {β : Type} (g : Cells → Lin × β → Cells × Lin)
    (hs : ∀ h rp, (g h rp).2.s = rp.1.s) (hsh : ∀ h rp, SameShape [rp.1.s.arr] h (g h rp).1) : RowOp g where
  foot h r p _ := Or.inl (by rw [hs])
  frame h r p b _ hb _ := (hsh h (r, p)).frame b (by simpa using hb)
  size h r p _ := by rw [(hsh h (r, p)).size]; exact Nat.le_refl _
  valid h r p hv := by rw [hs]; exact hv.sameShape (hsh h (r, p))

theorem sameShape_lin_revComp (cx : Ctx) (h : Cells) (l : Lin) : SameShape [l.s.arr] h (l.revComp cx h).1 :=
  SameShape.hTwoPtr _ _ _ _ _ _ _ (by simp)

theorem sameShape_lin_reverse (h : Cells) (l : Lin) : SameShape [l.s.arr] h (l.reverse h).1 :=
  SameShape.hTwoPtr _ _ _ _ _ _ _ (by simp)

theorem rowOp_revComp (cx : Ctx) : RowOp (fun h (rp : Lin × Unit) => rp.1.revComp cx h) :=
  rowOp_of_inplace _ (fun _ _ => rfl) (fun h rp => sameShape_lin_revComp cx h rp.1)

theorem rowOp_reverse : RowOp (fun h (rp : Lin × Unit) => rp.1.reverse h) :=
  rowOp_of_inplace _ (fun _ _ => rfl) (fun h rp => sameShape_lin_reverse h rp.1)

theorem rowOp_gRevComp (cx : Ctx) (st en : Int) : RowOp (fun h (rp : Lin × Unit) => gRevComp cx st en h rp.1) :=
  rowOp_of_inplace _ (fun _ _ => rfl) (fun h rp => sameShape_lin_revComp cx h rp.1)

theorem rowOp_gReverse (st en : Int) : RowOp (fun h (rp : Lin × Unit) => gReverse st en h rp.1) :=
  rowOp_of_inplace _ (fun _ _ => rfl) (fun h rp => sameShape_lin_reverse h rp.1)

theorem rowOp_set (pos : Int) (c : QL) : RowOp (fun h (rp : Lin × Unit) => (rp.1.set h pos c, rp.1)) :=
  rowOp_of_inplace _ (fun _ _ => rfl) (fun h rp => sameShape_lin_set h rp.1 pos c)

theorem rowOp_clone (cx : Ctx) : RowOp (fun h (rp : Lin × Unit) => rp.1.clone cx h) where
  foot h r _ _ := Or.inr (by rw [(lin_clone_facts cx h r).1]; exact Nat.le_refl _)
  frame h r _ b _ _ hbl := (lin_clone_facts cx h r).2.2.1.frame b hbl
  size h r _ _ := (lin_clone_facts cx h r).2.2.1.size
  valid h r _ _ := (lin_clone_facts cx h r).2.1

theorem effRows_revComp (cx : Ctx) (h : Cells) (m : Multi) (hw : RowsCapWF h m.rows) :
    EffRows h m.rows (m.revComp cx h).1 (m.revComp cx h).2.rows :=
  effRows_rowsFold _ (rowOp_gRevComp cx m.start m.«end») m.rows h hw

theorem effRows_reverse (h : Cells) (m : Multi) (hw : RowsCapWF h m.rows) :
    EffRows h m.rows (m.reverse h).1 (m.reverse h).2.rows :=
  effRows_rowsFold _ (rowOp_gReverse m.start m.«end») m.rows h hw

theorem effRows_setRevComp (cx : Ctx) (h : Cells) (m : Multi) (hw : RowsCapWF h m.rows) :
    EffRows h m.rows (m.setRevComp cx h).1 (m.setRevComp cx h).2.rows :=
  effRows_rowsFold _ (rowOp_revComp cx) m.rows h hw

theorem effRows_setReverse (h : Cells) (m : Multi) (hw : RowsCapWF h m.rows) :
    EffRows h m.rows (m.setReverse h).1 (m.setReverse h).2.rows :=
  effRows_rowsFold _ rowOp_reverse m.rows h hw

/-- `Clone` of a multi: every row in a new array, every old array as it was -/
theorem multi_clone_facts (cx : Ctx) (h : Cells) (m : Multi) (hw : RowsCapWF h m.rows) :
    Grow h (m.clone cx h).1 ∧ RowsCapWF (m.clone cx h).1 (m.clone cx h).2.rows ∧
    ∀ r' ∈ (m.clone cx h).2.rows, h.arrays.length ≤ r'.s.arr := by
  -- the generic fold lemma with `foot` always fresh
  obtain ⟨rows', h2, hall, hpw, _, hsize⟩ :=
    pairFold_spec _ (rowOp_clone cx) (fun _ _ _ _ => True) (fun _ _ _ _ => trivial)
      (m.rows.map fun r => (r, ())) h [] (by rw [map_unit_fst]; exact hw)
  obtain ⟨cs, c2, call, _, csz, cfr⟩ := cloneFold_spec cx m.rows h [] (fun r hr => (hw.1 r hr).toValid)
  have hm : m.clone cx h = ((rowsFold (fun h r => r.clone cx h) m.rows (h, [])).1,
      { m with rows := (rowsFold (fun h r => r.clone cx h) m.rows (h, [])).2 }) := rfl
  rw [hm]
  refine ⟨⟨csz, cfr⟩, ?_, ?_⟩
  · rw [rowsFold_eq_pairFold]
    simp only [List.nil_append] at h2
    simp only [h2]
    refine ⟨fun r' hr' => ?_, hpw⟩
    obtain ⟨rp, _, hx⟩ := hall.exists_left r' hr'
    exact hx.2.2
  · simp only [List.nil_append] at c2
    simp only [c2]
    intro r' hr'
    obtain ⟨a, _, hx⟩ := call.exists_left r' hr'
    exact hx.2.1

/-- an operation on row `i` only -/
theorem effRows_onRow (g : Cells → Lin → Cells × Lin) (hg : RowOp (fun h (rp : Lin × Unit) => g h rp.1))
    (h : Cells) (m : Multi) (hw : RowsCapWF h m.rows) (i : Nat) :
    EffRows h m.rows (m.onRow h i g).1 (m.onRow h i g).2.rows := by
  cases hi : m.rows[i]? with
  | none => rw [Multi.onRow_none h m i g hi]; exact EffRows.refl hw
  | some r =>
    rw [Multi.onRow_eq h m i g r hi]
    have hmem : r ∈ m.rows := List.mem_of_getElem? hi
    have hvr := hw.1 r hmem
    have hfoot : (g h r).2.s.arr = r.s.arr ∨ h.arrays.length ≤ (g h r).2.s.arr := hg.foot h r () hvr
    have hframe : ∀ b, CapValid h r.s → b ≠ r.s.arr → b < h.arrays.length → (g h r).1.arr b = h.arr b :=
      hg.frame h r ()
    have hsize : h.arrays.length ≤ (g h r).1.arrays.length := hg.size h r () hvr
    have hvalid : CapValid (g h r).1 (g h r).2.s := hg.valid h r () hvr
    refine ⟨hsize, ?_, ?_, ⟨?_, ?_⟩⟩
    · intro b hb hnot
      exact hframe b hvr (fun e => hnot (List.mem_map.mpr ⟨r, hmem, e.symm⟩)) hb
    · intro r' hr'
      rcases List.mem_or_eq_of_mem_set hr' with hm | e
      · exact Or.inl (List.mem_map.mpr ⟨r', hm, rfl⟩)
      · subst e
        rcases hfoot with e | e
        · exact Or.inl (List.mem_map.mpr ⟨r, hmem, e.symm⟩)
        · exact Or.inr e
    · intro x hx
      obtain ⟨j, hj⟩ := List.getElem?_of_mem hx
      rw [List.getElem?_set] at hj
      by_cases e : i = j
      · simp only [e, if_true] at hj
        split at hj
        · simp only [Option.some.injEq] at hj; subst hj; exact hvalid
        · cases hj
      · simp only [e, if_false] at hj
        have hne := pairwise_ne_getElem? hw.2 e hi hj
        have hxv := hw.1 x (List.mem_of_getElem? hj)
        exact hxv.mono hsize (hframe _ hvr (Ne.symm hne) hxv.1)
    · -- the arrays stay pairwise different
      rw [List.pairwise_iff_getElem]
      intro a b ha hb hab
      simp only [List.length_set] at ha hb
      simp only [List.getElem_set]
      have key : ∀ j (hj : j < m.rows.length), j ≠ i → (g h r).2.s.arr ≠ (m.rows[j]).s.arr := by
        intro j hj hji
        have hjv := hw.1 _ (List.getElem_mem hj)
        rcases hfoot with e | e
        · rw [e]; exact pairwise_ne_getElem? hw.2 (Ne.symm hji) hi (List.getElem?_eq_getElem hj)
        · have := hjv.1; omega
      by_cases ea : i = a
      · by_cases eb : i = b
        · omega
        · rw [if_pos ea, if_neg eb]
          exact key b hb (Ne.symm eb)
      · by_cases eb : i = b
        · rw [if_neg ea, if_pos eb]
          exact (key a ha (Ne.symm ea)).symm
        · rw [if_neg ea, if_neg eb]
          exact List.pairwise_iff_getElem.mp hw.2 a b ha hb hab

/-! ### Delete, Add on a multi -/

theorem effRows_delete (h : Cells) (m : Multi) (hw : RowsCapWF h m.rows) (i : Nat) :
    EffRows h m.rows h (m.delete i).rows := by
  refine ⟨Nat.le_refl _, fun _ _ _ => rfl, ?_, ⟨?_, ?_⟩⟩
  · intro r' hr'
    exact Or.inl (List.mem_map.mpr ⟨r', List.mem_of_mem_eraseIdx hr', rfl⟩)
  · intro r' hr'
    exact hw.1 r' (List.mem_of_mem_eraseIdx hr')
  · exact hw.2.sublist (List.eraseIdx_sublist _ _)

/-- `newLins`: the new sequences own new, pairwise different arrays -/
theorem newLins_facts (cx : Ctx) (h : Cells) (sps : List SeqSpec) :
    Grow h (newLins cx h sps).1 ∧ RowsCapWF (newLins cx h sps).1 (newLins cx h sps).2 ∧
    ∀ l ∈ (newLins cx h sps).2, h.arrays.length ≤ l.s.arr := by
  obtain ⟨ls, h2, hall, hpw, hsz, hfr⟩ := newLins_capwf cx sps h []
  rw [newLins_eq]
  simp only [List.nil_append] at h2
  rw [h2]
  exact ⟨⟨hsz, hfr⟩, ⟨fun l hl => (hall l hl).2, hpw⟩, fun l hl => (hall l hl).1⟩

theorem effRows_add (cx : Ctx) (h : Cells) (m : Multi) (hw : RowsCapWF h m.rows) (sps : List SeqSpec) :
    EffRows h m.rows (newLins cx h sps).1 (m.add (newLins cx h sps).2).rows := by
  obtain ⟨hg, hnw, hfresh⟩ := newLins_facts cx h sps
  refine ⟨hg.size, fun b hb _ => hg.frame b hb, ?_, ⟨?_, ?_⟩⟩
  · intro r' hr'
    rcases List.mem_append.mp hr' with hm | hm
    · exact Or.inl (List.mem_map.mpr ⟨r', hm, rfl⟩)
    · exact Or.inr (hfresh r' hm)
  · intro r' hr'
    rcases List.mem_append.mp hr' with hm | hm
    · exact (hw.1 r' hm).mono hg.size (hg.frame _ (hw.1 r' hm).1)
    · exact hnw.1 r' hm
  · show (m.rows ++ (newLins cx h sps).2).Pairwise _
    rw [List.pairwise_append]
    refine ⟨hw.2, hnw.2, ?_⟩
    intro a ha b hb
    have := (hw.1 a ha).1
    have := hfresh b hb
    omega

/-! ### AppendColumns / AppendEach on a multi -/

theorem effRows_appendRows (cx : Ctx) (payload : Nat → List QL) (h : Cells) (rows : List Lin)
    (hwf : RowsCapWF h rows) :
    let res := rows.foldl (fun (acc : Cells × List Lin × Nat) r =>
        ((r.appendQL cx acc.1 (payload acc.2.2)).1, acc.2.1 ++ [(r.appendQL cx acc.1 (payload acc.2.2)).2], acc.2.2 + 1))
        (h, [], 0)
    EffRows h rows res.1 res.2.1 := by
  intro res
  have hres : res = _ := counterFold_eq cx payload rows h [] 0
  have hfst : ((rows.zipIdx 0).map fun rk => (rk.1, payload rk.2)).map (·.1) = rows := by
    rw [List.map_map]
    have : ((fun (x : Lin × List QL) => x.1) ∘ fun (rk : Lin × Nat) => (rk.1, payload rk.2)) = (·.1) := rfl
    rw [this, zipIdx_map_fst]
  have := (effRows_pairFold _ (rowOp_appendQL cx) ((rows.zipIdx 0).map fun rk => (rk.1, payload rk.2)) h
    (by rw [hfst]; exact hwf)).1
  rw [hfst] at this
  rw [hres]
  exact this

theorem effRows_appendColumns (cx : Ctx) (h : Cells) (m : Multi) (hw : RowsCapWF h m.rows) (colsIn : List (List QL))
    (h' : Cells) (m' : Multi) (happ : m.appendColumns cx h colsIn = some (h', m')) :
    EffRows h m.rows h' m'.rows := by
  unfold Multi.appendColumns at happ
  split at happ
  · cases happ
  · simp only [Option.some.injEq, Prod.mk.injEq] at happ
    obtain ⟨e1, e2⟩ := happ
    subst e1; subst e2
    exact effRows_appendRows cx (fun k => colsIn.map fun c => c.getD k zeroQL) h m.rows hw

theorem effRows_appendEach (cx : Ctx) (h : Cells) (m : Multi) (hw : RowsCapWF h m.rows) (runs : List (List QL))
    (h' : Cells) (m' : Multi) (happ : m.appendEach cx h runs = some (h', m')) :
    EffRows h m.rows h' m'.rows := by
  unfold Multi.appendEach at happ
  split at happ
  · cases happ
  · simp only [Option.some.injEq, Prod.mk.injEq] at happ
    obtain ⟨e1, e2⟩ := happ
    subst e1; subst e2
    exact effRows_appendRows cx (fun k => runs.getD k []) h m.rows hw

/-! ### Flush -/

theorem effRows_foldRows (g : Cells → Lin → Cells × Lin) (hg : RowOp (fun h (rp : Lin × Unit) => g h rp.1))
    (rows : List Lin) (h : Cells) (hwf : RowsCapWF h rows) :
    EffRows h rows (Multi.foldRows g rows h).1 (Multi.foldRows g rows h).2 := by
  have := (effRows_pairFold _ hg (rows.map fun r => (r, ())) h (by rw [map_unit_fst]; exact hwf)).1
  rw [map_unit_fst] at this
  rw [foldRows_eq_pairFold]
  exact this

theorem effRows_flush (cx : Ctx) (h : Cells) (m : Multi) (hw : RowsCapWF h m.rows) (wh : Nat) (fill : UInt8) :
    EffRows h m.rows (m.flush cx h wh fill).1 (m.flush cx h wh fill).2.rows := by
  unfold Multi.flush
  by_cases hf : m.isFlush wh = true
  · simp only [hf, if_true]; exact EffRows.refl hw
  · simp only [hf, Bool.false_eq_true, if_false]
    have e1 : EffRows h m.rows
        (if wh % 2 == 1 then Multi.foldRows (Multi.flushStartStep cx m.start fill) m.rows h else (h, m.rows)).1
        (if wh % 2 == 1 then Multi.foldRows (Multi.flushStartStep cx m.start fill) m.rows h else (h, m.rows)).2 := by
      by_cases hw1 : (wh % 2 == 1) = true
      · rw [if_pos hw1]; exact effRows_foldRows _ (rowOp_flushStart cx m.start fill) m.rows h hw
      · rw [if_neg hw1]; exact EffRows.refl hw
    generalize (if wh % 2 == 1 then Multi.foldRows (Multi.flushStartStep cx m.start fill) m.rows h else (h, m.rows)) = p1 at e1
    by_cases hw2 : ((wh / 2) % 2 == 1) = true
    · rw [if_pos hw2]
      exact e1.trans (effRows_foldRows _ (rowOp_flushEnd cx _ fill) p1.2 p1.1 e1.wf)
    · rw [if_neg hw2]; exact e1

/-! ### Truncate, Subseq -/

theorem Lin.truncate_capValid (h : Cells) (l l' : Lin) (st en : Int) (ht : l.truncate st en = some l')
    (hv : CapValid h l.s) : CapValid h l'.s ∧ l'.s.arr = l.s.arr := by
  simp only [Lin.truncate] at ht
  split at ht
  · cases ht
  · split at ht
    · split at ht
      · rename_i s' hs
        simp only [Option.some.injEq] at ht
        subst ht
        simp only [Slice.slice] at hs
        split at hs
        · rename_i hc
          simp only [Option.some.injEq] at hs
          subst hs
          obtain ⟨h1, h2, h3⟩ := hv
          exact ⟨⟨h1, by simp only; omega, by simp only; omega⟩, rfl⟩
        · cases hs
      · cases ht
    · cases ht

theorem rowsCapWF_of_all2 {h h' : Cells} {rows rows' : List Lin}
    (hall : All2 (fun r r' => r'.s.arr = r.s.arr ∧ CapValid h' r'.s) rows rows')
    (hwf : RowsCapWF h rows) : RowsCapWF h' rows' := by
  constructor
  · intro r' hr'
    obtain ⟨r, _, hx⟩ := hall.exists_left r' hr'
    exact hx.2
  · have hm : rows.map (·.s.arr) = rows'.map (·.s.arr) :=
      hall.map_eq _ _ fun a b hab => hab.1.symm
    have := (List.pairwise_map (f := fun (r : Lin) => r.s.arr) (R := (· ≠ ·)) (l := rows)).mpr hwf.2
    rw [hm] at this
    exact List.pairwise_map.mp this

theorem truncFold_all2 (h : Cells) (st en : Int) : ∀ (rows : List Lin) (acc : List Lin) (flag : Bool),
    (∀ r ∈ rows, CapValid h r.s) →
    ∃ rs', (rows.foldl (Multi.truncStep st en) (acc, flag)).1 = acc ++ rs' ∧
      All2 (fun r r' => r'.s.arr = r.s.arr ∧ CapValid h r'.s) rows rs' := by
  intro rows
  induction rows with
  | nil => intro acc flag _; exact ⟨[], by simp, .nil⟩
  | cons r rs ih =>
    intro acc flag hv
    have hvr := hv r List.mem_cons_self
    have hvs : ∀ x ∈ rs, CapValid h x.s := fun x hx => hv x (List.mem_cons_of_mem _ hx)
    simp only [List.foldl_cons]
    -- whatever the step does, the row it emits is in the same array and valid
    have hstep : ∃ r1 f1, Multi.truncStep st en (acc, flag) r = (acc ++ [r1], f1) ∧
        r1.s.arr = r.s.arr ∧ CapValid h r1.s := by
      unfold Multi.truncStep
      cases flag with
      | false => exact ⟨r, false, by simp, rfl, hvr⟩
      | true =>
        simp only [Bool.not_true, Bool.false_eq_true, if_false]
        cases ht : r.truncate st en with
        | none => exact ⟨r, false, rfl, rfl, hvr⟩
        | some r' =>
          obtain ⟨c1, c2⟩ := Lin.truncate_capValid h r r' st en ht hvr
          exact ⟨r', true, rfl, c2, c1⟩
    obtain ⟨r1, f1, e, a1, a2⟩ := hstep
    rw [e]
    obtain ⟨rs', h1, h2⟩ := ih (acc ++ [r1]) f1 hvs
    exact ⟨r1 :: rs', by rw [h1]; simp, .cons ⟨a1, a2⟩ h2⟩

theorem effRows_truncate (h : Cells) (m : Multi) (hw : RowsCapWF h m.rows) (st en : Int) :
    EffRows h m.rows h (m.truncate st en).1.rows := by
  obtain ⟨rs', h1, h2⟩ := truncFold_all2 h st en m.rows [] true hw.1
  have hr : (m.truncate st en).1.rows = rs' := by
    simp only [Multi.truncate]
    rw [h1]; simp
  rw [hr]
  refine ⟨Nat.le_refl _, fun _ _ _ => rfl, ?_, rowsCapWF_of_all2 h2 hw⟩
  intro r' hr'
  obtain ⟨r, hrm, hx⟩ := h2.exists_left r' hr'
  exact Or.inl (List.mem_map.mpr ⟨r, hrm, hx.1.symm⟩)

/-- the loop of `Subseq`: the heap only grows; the rows collected live in new, pairwise
    different arrays -/
theorem subseqFold_wf (cx : Ctx) (st en : Int) (h0 : Cells) : ∀ (rows : List Lin) (hc : Cells) (acc : List Lin)
    (flag : Bool), Grow h0 hc → (∀ c ∈ acc, CapValid hc c.s ∧ h0.arrays.length ≤ c.s.arr) →
    acc.Pairwise (fun a b => a.s.arr ≠ b.s.arr) →
    Grow h0 (rows.foldl (Multi.subseqStep cx st en) (hc, acc, flag)).1 ∧
    (∀ c ∈ (rows.foldl (Multi.subseqStep cx st en) (hc, acc, flag)).2.1,
      CapValid (rows.foldl (Multi.subseqStep cx st en) (hc, acc, flag)).1 c.s ∧ h0.arrays.length ≤ c.s.arr) ∧
    (rows.foldl (Multi.subseqStep cx st en) (hc, acc, flag)).2.1.Pairwise (fun a b => a.s.arr ≠ b.s.arr) := by
  intro rows
  induction rows with
  | nil => intro hc acc flag hg hv hp; exact ⟨hg, hv, hp⟩
  | cons r rs ih =>
    intro hc acc flag hg hv hp
    simp only [List.foldl_cons]
    cases flag with
    | false =>
      have : Multi.subseqStep cx st en (hc, acc, false) r = (hc, acc, false) := by simp [Multi.subseqStep]
      rw [this]; exact ih hc acc false hg hv hp
    | true =>
      obtain ⟨carr, cvalid, cgrow, csize⟩ := lin_clone_facts cx hc r
      have hv' : ∀ c ∈ acc, CapValid (r.clone cx hc).1 c.s ∧ h0.arrays.length ≤ c.s.arr := fun c hm =>
        ⟨(hv c hm).1.mono cgrow.size (cgrow.frame _ (hv c hm).1.1), (hv c hm).2⟩
      cases ht : ((r.clone cx hc).2).truncate st en with
      | none =>
        have : Multi.subseqStep cx st en (hc, acc, true) r = ((r.clone cx hc).1, acc, false) := by
          simp [Multi.subseqStep, ht]
        rw [this]
        exact ih _ acc false (hg.trans cgrow) hv' hp
      | some c' =>
        have : Multi.subseqStep cx st en (hc, acc, true) r = ((r.clone cx hc).1, acc ++ [c'], true) := by
          simp [Multi.subseqStep, ht]
        rw [this]
        obtain ⟨t1, t2⟩ := Lin.truncate_capValid (r.clone cx hc).1 _ c' st en ht cvalid
        refine ih _ (acc ++ [c']) true (hg.trans cgrow) ?_ ?_
        · intro c hm
          rcases List.mem_append.mp hm with hm | hm
          · exact hv' c hm
          · simp only [List.mem_singleton] at hm; subst hm
            exact ⟨t1, by rw [t2, carr]; exact hg.size⟩
        · rw [List.pairwise_append]
          refine ⟨hp, List.pairwise_singleton _ _, ?_⟩
          intro a ha b hb
          simp only [List.mem_singleton] at hb; subst hb
          have := (hv a ha).1.1
          rw [t2, carr]; omega

theorem multi_subseq_facts (cx : Ctx) (h : Cells) (m : Multi) (st en : Int) :
    Grow h (m.subseq cx h st en).1 ∧
    ∀ m', (m.subseq cx h st en).2 = some m' →
      RowsCapWF (m.subseq cx h st en).1 m'.rows ∧ ∀ r' ∈ m'.rows, h.arrays.length ≤ r'.s.arr := by
  obtain ⟨a, b, c⟩ := subseqFold_wf cx st en h m.rows h [] true (Grow.refl h) (by simp) List.Pairwise.nil
  refine ⟨a, ?_⟩
  intro m' hm'
  simp only [Multi.subseq] at hm'
  split at hm'
  · simp only [Option.some.injEq] at hm'
    subst hm'
    exact ⟨⟨fun r' hr' => (b r' hr').1, c⟩, fun r' hr' => (b r' hr').2⟩
  · cases hm'

/-! ### column-stored alignments: in-place operations -/

/-- an in-place change inside the object's arrays; the new object's arrays are among the old -/
theorem Eff.of_sameShape' {h h' : Cells} {o o' : Obj} (hs : SameShape o.arrs h h')
    (harrs : ∀ a' ∈ o'.arrs, a' ∈ o.arrs) (hwf : ObjWF h' o') : Eff h o h' o' :=
  ⟨by rw [hs.size]; exact Nat.le_refl _, fun b _ hb => hs.frame b hb, fun a' ha' => Or.inl (harrs a' ha'), hwf⟩

theorem ColsCapWF.sameShape {A : List Nat} {h h' : Cells} {n : Nat} {cols : List Slice} (hs : SameShape A h h')
    (hw : ColsCapWF h n cols) : ColsCapWF h' n cols := ⟨hw.1.sameShape hs, hw.2⟩

theorem eff_aln_revComp (cx : Ctx) (h : Cells) (a : Aln) (hw : ObjWF h (.aln a)) :
    Eff h (.aln a) (a.revComp cx h).1 (.aln (a.revComp cx h).2) := by
  have hs : SameShape (Obj.aln a).arrs h (a.revComp cx h).1 := SameShape.colLoop _ a.cols _ _ _ h
  obtain ⟨h0, n, hc, hsub⟩ := hw
  exact Eff.of_sameShape hs rfl ⟨h0, n, hc.sameShape hs, hsub⟩

theorem Aln.reverse_cols (a : Aln) : a.reverse.cols = a.cols.reverse := twoPtr_reverse a.cols

theorem eff_aln_reverse (h : Cells) (a : Aln) (hw : ObjWF h (.aln a)) :
    Eff h (.aln a) h (.aln a.reverse) := by
  obtain ⟨h0, n, hc, hsub⟩ := hw
  refine Eff.of_sameShape' (SameShape.refl _ h) ?_ ⟨h0, n, ⟨⟨?_, ?_⟩, ?_⟩, ?_⟩
  · intro a' ha'
    simp only [Obj.arrs, Aln.reverse_cols, List.map_reverse, List.mem_reverse] at ha'
    exact ha'
  · intro c hc'
    rw [Aln.reverse_cols, List.mem_reverse] at hc'
    exact hc.1.1 c hc'
  · rw [Aln.reverse_cols, List.pairwise_reverse]
    exact hc.1.2.imp fun hxy => Ne.symm hxy
  · intro c hc'
    rw [Aln.reverse_cols, List.mem_reverse] at hc'
    exact hc.2 c hc'
  · intro hne
    apply hsub
    intro e
    apply hne
    rw [Aln.reverse_cols, e]; rfl

theorem sameShape_aln_set (h : Cells) (a : Aln) (r : Nat) (pos : Int) (c : QL) :
    SameShape (Obj.aln a).arrs h (a.set h r pos c) := by
  unfold Aln.set
  split
  · exact SameShape.refl _ h
  · split
    · rename_i col hcol
      exact SameShape.set h col r _ (mem_arrs_of_getElem? hcol)
    · exact SameShape.refl _ h

theorem eff_aln_set (h : Cells) (a : Aln) (r : Nat) (pos : Int) (c : QL) (hw : ObjWF h (.aln a)) :
    Eff h (.aln a) (a.set h r pos c) (.aln a) := by
  obtain ⟨h0, n, hc, hsub⟩ := hw
  exact Eff.of_sameShape (sameShape_aln_set h a r pos c) rfl ⟨h0, n, hc.sameShape (sameShape_aln_set h a r pos c), hsub⟩

theorem eff_aln_rowRevComp (cx : Ctx) (h : Cells) (a : Aln) (r : Nat) (hw : ObjWF h (.aln a)) :
    Eff h (.aln a) (a.rowRevComp cx h r).1 (.aln (a.rowRevComp cx h r).2) := by
  have hs : SameShape (Obj.aln a).arrs h (a.rowRevComp cx h r).1 := SameShape.rowLoop _ _ a.cols r _ _ _ h
  obtain ⟨h0, n, hc, hsub⟩ := hw
  exact Eff.of_sameShape hs rfl ⟨h0, n, hc.sameShape hs, fun hne => by
    show (Aln.modSub a.subs r _).length = n
    simp only [Aln.modSub, List.length_modify]; exact hsub hne⟩

theorem eff_aln_rowReverse (h : Cells) (a : Aln) (r : Nat) (hw : ObjWF h (.aln a)) :
    Eff h (.aln a) (a.rowReverse h r).1 (.aln (a.rowReverse h r).2) := by
  have hs : SameShape (Obj.aln a).arrs h (a.rowReverse h r).1 := SameShape.rowLoop _ _ a.cols r _ _ _ h
  obtain ⟨h0, n, hc, hsub⟩ := hw
  exact Eff.of_sameShape hs rfl ⟨h0, n, hc.sameShape hs, fun hne => by
    show (Aln.modSub a.subs r _).length = n
    simp only [Aln.modSub, List.length_modify]; exact hsub hne⟩

/-! ### column-stored alignments: columns in new arrays (Clone, AppendColumns, AppendEach) -/

/-- columns of `n` rows allocated since `h0`, in pairwise different arrays -/
def FreshCols (h0 hc : Cells) (n : Nat) (fr : List Slice) : Prop :=
  (∀ c ∈ fr, CapValid hc c ∧ c.len = n ∧ h0.arrays.length ≤ c.arr) ∧ fr.Pairwise (fun x y => x.arr ≠ y.arr)

theorem FreshCols.nil (h0 hc : Cells) (n : Nat) : FreshCols h0 hc n [] := ⟨by simp, List.Pairwise.nil⟩

theorem FreshCols.push {h0 hc : Cells} {n : Nat} {fr : List Slice} (hg : Grow h0 hc) (hf : FreshCols h0 hc n fr)
    (xs : List QL) (cap : Nat) (hx : xs.length = n) :
    FreshCols h0 (hc.ofList xs cap zeroQL).1 n (fr ++ [(hc.ofList xs cap zeroQL).2]) ∧
    Grow h0 (hc.ofList xs cap zeroQL).1 := by
  obtain ⟨oarr, olen, osz, ovalid, ogrow, _⟩ := ofList_facts hc xs cap
  refine ⟨⟨?_, ?_⟩, hg.trans ogrow⟩
  · intro c hm
    rcases List.mem_append.mp hm with hm | hm
    · obtain ⟨c1, c2, c3⟩ := hf.1 c hm
      exact ⟨c1.mono ogrow.size (ogrow.frame _ c1.1), c2, c3⟩
    · simp only [List.mem_singleton] at hm; subst hm
      exact ⟨ovalid, by rw [olen, hx], by rw [oarr]; exact hg.size⟩
  · rw [List.pairwise_append]
    refine ⟨hf.2, List.pairwise_singleton _ _, ?_⟩
    intro x hx' y hy
    simp only [List.mem_singleton] at hy; subst hy
    have := (hf.1 x hx').1.1
    rw [oarr]; omega

theorem CapValid.length_read {h : Cells} {s : Slice} (hv : CapValid h s) : (h.read s).length = s.len := by
  simp only [Heap.read, List.length_take, List.length_drop]
  have := hv.2.1; have := hv.2.2
  omega

theorem cloneColsFold_wf (cx : Ctx) (n : Nat) (h0 : Cells) : ∀ (cols : List Slice) (hc : Cells) (fr : List Slice),
    Grow h0 hc → FreshCols h0 hc n fr → (∀ c ∈ cols, CapValid hc c ∧ c.len = n) →
    FreshCols h0 (cloneColsFold cx cols (hc, fr)).1 n (cloneColsFold cx cols (hc, fr)).2 ∧
    Grow h0 (cloneColsFold cx cols (hc, fr)).1 := by
  intro cols
  induction cols with
  | nil => intro hc fr hg hf _; exact ⟨hf, hg⟩
  | cons c cs ih =>
    intro hc fr hg hf hv
    obtain ⟨cv, cl⟩ := hv c List.mem_cons_self
    obtain ⟨hf', hg'⟩ := hf.push hg (hc.read c) (cx.grow 0 c.len) (by rw [cv.length_read, cl])
    have og := (ofList_facts hc (hc.read c) (cx.grow 0 c.len)).2.2.2.2.1
    have hfold : cloneColsFold cx (c :: cs) (hc, fr) = cloneColsFold cx cs
        ((hc.ofList (hc.read c) (cx.grow 0 c.len) zeroQL).1, fr ++ [(hc.ofList (hc.read c) (cx.grow 0 c.len) zeroQL).2]) := rfl
    rw [hfold]
    refine ih _ _ hg' hf' ?_
    intro x hx
    obtain ⟨xv, xl⟩ := hv x (List.mem_cons_of_mem _ hx)
    exact ⟨xv.mono og.size (og.frame _ xv.1), xl⟩

/-- `Clone` of a column-stored alignment: every column in a new array, every old array as it was -/
theorem aln_clone_facts (cx : Ctx) (h : Cells) (a : Aln) (hw : ObjWF h (.aln a)) :
    Grow h (a.clone cx h).1 ∧ ObjWF (a.clone cx h).1 (.aln (a.clone cx h).2) ∧
    ∀ x ∈ (Obj.aln (a.clone cx h).2).arrs, h.arrays.length ≤ x := by
  obtain ⟨h0, n, hc, hsub⟩ := hw
  obtain ⟨hf, hg⟩ := cloneColsFold_wf cx n h a.cols h [] (Grow.refl h) (FreshCols.nil h h n)
    (fun c hm => ⟨hc.1.1 c hm, hc.2 c hm⟩)
  obtain ⟨news, hn2, hall, _, _, _⟩ := cloneColsFold_spec cx n a.cols h [] hc.toColsWF.1
  rw [Aln.clone_eq]
  refine ⟨hg, ⟨h0, n, ⟨⟨fun c hm => (hf.1 c hm).1, hf.2⟩, fun c hm => (hf.1 c hm).2.1⟩, ?_⟩, ?_⟩
  · intro hne
    apply hsub
    intro e
    apply hne
    simp only [List.nil_append] at hn2
    have hl := hall.length_eq
    rw [e] at hl
    simp only [hn2]
    exact List.length_eq_zero_iff.mp hl.symm
  intro x hx
  simp only [Obj.arrs, List.mem_map] at hx
  obtain ⟨c, hm, rfl⟩ := hx
  exact (hf.1 c hm).2.2

theorem colsFold_wf (cx : Ctx) (q : Bool) (n : Nat) (h0 : Cells) : ∀ (colsIn : List (List QL)) (hc : Cells)
    (pre fr : List Slice), Grow h0 hc → FreshCols h0 hc n fr → (∀ c ∈ colsIn, c.length = n) →
    ∃ fr', (colsFold cx q colsIn (hc, pre ++ fr)).2 = pre ++ fr' ∧
      FreshCols h0 (colsFold cx q colsIn (hc, pre ++ fr)).1 n fr' ∧
      Grow h0 (colsFold cx q colsIn (hc, pre ++ fr)).1 := by
  intro colsIn
  induction colsIn with
  | nil => intro hc pre fr hg hf _; exact ⟨fr, rfl, hf, hg⟩
  | cons c cs ih =>
    intro hc pre fr hg hf hlen
    obtain ⟨hf', hg'⟩ := hf.push hg (c.map (Lin.stored q)) (cx.grow 0 c.length)
      (by rw [List.length_map]; exact hlen c List.mem_cons_self)
    have hfold : colsFold cx q (c :: cs) (hc, pre ++ fr)
        = colsFold cx q cs ((Aln.newColumn cx q hc c).1, pre ++ (fr ++ [(Aln.newColumn cx q hc c).2])) := by
      simp only [colsFold, List.foldl_cons, List.append_assoc]
    rw [hfold]
    exact ih _ pre _ hg' hf' (fun x hx => hlen x (List.mem_cons_of_mem _ hx))

/-- old columns followed by columns allocated since `h0` -/
theorem colsCapWF_append {h0 hc : Cells} {n : Nat} {cols fr : List Slice} (hw : ColsCapWF h0 n cols)
    (hg : Grow h0 hc) (hf : FreshCols h0 hc n fr) : ColsCapWF hc n (cols ++ fr) := by
  refine ⟨⟨?_, ?_⟩, ?_⟩
  · intro c hm
    rcases List.mem_append.mp hm with hm | hm
    · exact (hw.1.1 c hm).mono hg.size (hg.frame _ (hw.1.1 c hm).1)
    · exact (hf.1 c hm).1
  · rw [List.pairwise_append]
    refine ⟨hw.1.2, hf.2, ?_⟩
    intro x hx y hy
    have := (hw.1.1 x hx).1
    have := (hf.1 y hy).2.2
    omega
  · intro c hm
    rcases List.mem_append.mp hm with hm | hm
    · exact hw.2 c hm
    · exact (hf.1 c hm).2.1

/-- the state of an alignment while columns are being appended to it -/
structure Appended (h0 : Cells) (a : Aln) (n : Nat) (hk : Cells) (ak : Aln) : Prop where
  grow : Grow h0 hk
  off : ak.off = a.off
  subs : ak.subs = a.subs
  cols : ∃ fr, ak.cols = a.cols ++ fr ∧ FreshCols h0 hk n fr

theorem Appended.eff {h0 hk : Cells} {a ak : Aln} {n : Nat} (hoff : a.off = 0) (hw : ColsCapWF h0 n a.cols)
    (hsub : a.subs.length = n) (hap : Appended h0 a n hk ak) : Eff h0 (.aln a) hk (.aln ak) := by
  obtain ⟨fr, hcols, hf⟩ := hap.cols
  refine ⟨hap.grow.size, fun b hb _ => hap.grow.frame b hb, ?_,
    ⟨by rw [hap.off]; exact hoff, n, ?_, fun _ => by rw [hap.subs]; exact hsub⟩⟩
  · intro a' ha'
    simp only [Obj.arrs, hcols, List.map_append, List.mem_append, List.mem_map] at ha'
    rcases ha' with ⟨c, hm, rfl⟩ | ⟨c, hm, rfl⟩
    · exact Or.inl (List.mem_map.mpr ⟨c, hm, rfl⟩)
    · exact Or.inr (hf.1 c hm).2.2
  · rw [hcols]; exact colsCapWF_append hw hap.grow hf

theorem appended_appendColumns (cx : Ctx) {h0 hk : Cells} {a ak : Aln} {n : Nat} (hap : Appended h0 a n hk ak)
    (colsIn : List (List QL)) (h' : Cells) (a' : Aln)
    (happ : ak.appendColumns cx hk n colsIn = some (h', a')) : Appended h0 a n h' a' := by
  have hok : colsIn.any (fun c => c.length != n) = false := by
    cases hc : colsIn.any (fun c => c.length != n) with
    | false => rfl
    | true => simp [Aln.appendColumns, hc] at happ
  rw [Aln.appendColumns_eq cx hk ak n colsIn hok] at happ
  simp only [Option.some.injEq, Prod.mk.injEq] at happ
  obtain ⟨e1, e2⟩ := happ
  obtain ⟨fr, hcols, hf⟩ := hap.cols
  have hlen : ∀ c ∈ colsIn, c.length = n := by
    intro c hc
    have := List.any_eq_false.mp hok c hc
    simpa using this
  obtain ⟨fr', r1, r2, r3⟩ := colsFold_wf cx ak.q n h0 colsIn hk a.cols fr hap.grow hf hlen
  rw [← hcols] at r1 r2 r3
  subst e1; subst e2
  exact ⟨r3, hap.off, hap.subs, fr', r1, r2⟩

theorem Aln.rows?_eq {h : Cells} {n : Nat} {a : Aln} (hw : ColsCapWF h n a.cols) {rows : Nat}
    (hr : a.rows? = some rows) : rows = n := by
  simp only [Aln.rows?] at hr
  cases hc : a.cols with
  | nil => rw [hc] at hr; simp at hr
  | cons c cs =>
    rw [hc] at hr
    simp only [List.head?_cons, Option.map_some, Option.some.injEq] at hr
    rw [← hr]
    exact hw.2 c (by rw [hc]; exact List.mem_cons_self)

theorem Aln.cols_ne_nil {a : Aln} {rows : Nat} (hr : a.rows? = some rows) : a.cols ≠ [] := by
  intro e
  simp [Aln.rows?, e] at hr

theorem eff_aln_appendColumns (cx : Ctx) (h : Cells) (a : Aln) (hw : ObjWF h (.aln a)) (rows : Nat)
    (hr : a.rows? = some rows) (colsIn : List (List QL)) (h' : Cells) (a' : Aln)
    (happ : a.appendColumns cx h rows colsIn = some (h', a')) : Eff h (.aln a) h' (.aln a') := by
  obtain ⟨h0, n, hc, hsub⟩ := hw
  have hrn := Aln.rows?_eq hc hr
  subst hrn
  have hap0 : Appended h a rows h a := ⟨Grow.refl h, rfl, rfl, [], by simp, FreshCols.nil h h rows⟩
  exact (appended_appendColumns cx hap0 colsIn h' a' happ).eff h0 hc (hsub (Aln.cols_ne_nil hr))

theorem appended_eachFold (cx : Ctx) (h0 : Cells) (a : Aln) (n : Nat) (runs : List (List QL)) (hr : runs.length = n) :
    ∀ (idx : List Nat) (hk : Cells) (ak : Aln), Appended h0 a n hk ak →
    ∃ h' a', idx.foldl (Aln.eachStep cx n runs) (some (hk, ak)) = some (h', a') ∧ Appended h0 a n h' a' := by
  intro idx
  induction idx with
  | nil => intro hk ak hap; exact ⟨hk, ak, rfl, hap⟩
  | cons i is ih =>
    intro hk ak hap
    simp only [List.foldl_cons, Aln.eachStep]
    have hok : [Aln.eachColumn cx runs i].any (fun c => c.length != n) = false := by
      simp [eachColumn_length, hr]
    have hsome := Aln.appendColumns_eq cx hk ak n [Aln.eachColumn cx runs i] hok
    rw [hsome]
    exact ih _ _ (appended_appendColumns cx hap _ _ _ hsome)

theorem eff_aln_appendEach (cx : Ctx) (h : Cells) (a : Aln) (hw : ObjWF h (.aln a)) (rows : Nat)
    (hr : a.rows? = some rows) (runs : List (List QL)) (h' : Cells) (a' : Aln)
    (happ : a.appendEach cx h rows runs = some (h', a')) : Eff h (.aln a) h' (.aln a') := by
  obtain ⟨h0, n, hc, hsub⟩ := hw
  have hrn := Aln.rows?_eq hc hr
  subst hrn
  unfold Aln.appendEach at happ
  split at happ
  · cases happ
  · rename_i hlen
    have hlen' : runs.length = rows := by simpa using hlen
    have hap0 : Appended h a rows h a := ⟨Grow.refl h, rfl, rfl, [], by simp, FreshCols.nil h h rows⟩
    obtain ⟨h2, a2, e, hap⟩ := appended_eachFold cx h a rows runs hlen' _ h a hap0
    rw [e] at happ
    simp only [Option.some.injEq, Prod.mk.injEq] at happ
    obtain ⟨e1, e2⟩ := happ
    subst e1; subst e2
    exact hap.eff h0 hc (hsub (Aln.cols_ne_nil hr))

/-! ### Delete on a column-stored alignment -/

theorem delCol_cap (h : Cells) (c : Slice) (i : Nat) :
    (Aln.delCol h c i).2.cap = c.cap ∧ (Aln.delCol h c i).2.arr = c.arr ∧ (Aln.delCol h c i).2.off = c.off := by
  unfold Aln.delCol
  split <;> simp

theorem delCol_facts (h : Cells) (n : Nat) (c : Slice) (i : Nat) (hv : CapValid h c) (hl : c.len = n) (hi : i < n) :
    SameShape [c.arr] h (Aln.delCol h c i).1 ∧ (Aln.delCol h c i).2.len = n - 1 := by
  have hcv : ColValid h n c := ⟨hv.1, by have := hv.2.1; have := hv.2.2; omega, hl⟩
  obtain ⟨_, _, r3, _, r5, r6, r7⟩ := delCol_spec h n c i hcv hi hv.2.1
  refine ⟨⟨r6, ?_, ?_⟩, r3⟩
  · intro b
    by_cases e : b = c.arr
    · rw [e]; exact r7
    · rw [r5 b e]
  · intro b hb
    exact r5 b (by simpa using hb)

theorem delFold_wf (i n : Nat) (hi : i < n) : ∀ (cols : List Slice) (h : Cells) (acc : List Slice),
    (∀ c ∈ cols, CapValid h c ∧ c.len = n) →
    ∃ cols', (delFold i cols (h, acc)).2 = acc ++ cols' ∧
      All2 (fun c c' => c'.arr = c.arr ∧ c'.off = c.off ∧ c'.cap = c.cap ∧ c'.len = n - 1) cols cols' ∧
      SameShape (cols.map (·.arr)) h (delFold i cols (h, acc)).1 := by
  intro cols
  induction cols with
  | nil => intro h acc _; exact ⟨[], by simp [delFold], .nil, SameShape.refl _ h⟩
  | cons c cs ih =>
    intro h acc hv
    obtain ⟨cv, cl⟩ := hv c List.mem_cons_self
    obtain ⟨hs, hlen⟩ := delCol_facts h n c i cv cl hi
    obtain ⟨hcap, harr, hoff⟩ := delCol_cap h c i
    have hv' : ∀ x ∈ cs, CapValid (Aln.delCol h c i).1 x ∧ x.len = n := fun x hx =>
      ⟨(hv x (List.mem_cons_of_mem _ hx)).1.sameShape hs, (hv x (List.mem_cons_of_mem _ hx)).2⟩
    obtain ⟨cols', h2, hall, hs'⟩ := ih (Aln.delCol h c i).1 (acc ++ [(Aln.delCol h c i).2]) hv'
    have hfold : delFold i (c :: cs) (h, acc)
        = delFold i cs ((Aln.delCol h c i).1, acc ++ [(Aln.delCol h c i).2]) := rfl
    rw [hfold]
    refine ⟨(Aln.delCol h c i).2 :: cols', by rw [h2]; simp, .cons ⟨harr, hoff, hcap, hlen⟩ hall, ?_⟩
    exact (hs.weaken (by simp)).trans (hs'.weaken fun x hx => by simp only [List.map_cons, List.mem_cons]; exact Or.inr hx)

theorem eff_aln_delete (h : Cells) (a : Aln) (hw : ObjWF h (.aln a)) (i : Nat) (hi : i < a.rows) :
    Eff h (.aln a) (a.delete h i).1 (.aln (a.delete h i).2) := by
  obtain ⟨h0, n, hc, hsub⟩ := hw
  -- `i < Rows()` means there is a column, of `n` rows
  have hin : i < n := by
    simp only [Aln.rows] at hi
    cases hr : a.rows? with
    | none => rw [hr] at hi; simp at hi
    | some rows => rw [hr] at hi; rw [← Aln.rows?_eq hc hr]; exact hi
  obtain ⟨cols', h2, hall, hs⟩ := delFold_wf i n hin a.cols h [] (fun c hm => ⟨hc.1.1 c hm, hc.2 c hm⟩)
  rw [Aln.delete_eq]
  simp only [List.nil_append] at h2
  have hm : cols'.map (·.arr) = a.cols.map (·.arr) := (hall.map_eq _ _ fun c c' hcc => hcc.1.symm).symm
  have hne : a.cols ≠ [] := by
    intro e
    simp [Aln.rows, Aln.rows?, e] at hi
  refine Eff.of_sameShape hs (by simp only [Obj.arrs, h2, hm]) ⟨h0, n - 1, ⟨⟨?_, ?_⟩, ?_⟩, fun _ => by
    show (a.subs.eraseIdx i).length = n - 1
    rw [List.length_eraseIdx, hsub hne]; simp [hin]⟩
  · intro c' hc'
    simp only [h2] at hc'
    obtain ⟨c, hcm, e1, e2, e3, e4⟩ := hall.exists_left c' hc'
    obtain ⟨v1, v2, v3⟩ := (hc.1.1 c hcm).sameShape hs
    have := hc.2 c hcm
    exact ⟨by rw [e1]; exact v1, by rw [e3, e4]; omega, by rw [e1, e2, e3]; exact v3⟩
  · simp only [h2]
    have := (List.pairwise_map (f := fun (c : Slice) => c.arr) (R := (· ≠ ·)) (l := a.cols)).mpr hc.1.2
    rw [← hm] at this
    exact List.pairwise_map.mp this
  · intro c' hc'
    simp only [h2] at hc'
    obtain ⟨c, _, hx⟩ := hall.exists_left c' hc'
    exact hx.2.2.2

/-! ### Add on a column-stored alignment -/

/-- the body of the loop of `Add`: `s.Seq[i] = append(s.Seq[i], s.column(n, i)...)` -/
def addStep (cx : Ctx) (a : Aln) (seqs : List Lin) (acc : Cells × List Slice) (k : Nat) : Cells × List Slice :=
  let pos : Int := a.off + (k : Int)
  match acc.2[pos.toNat]? with
  | some c =>
    ((acc.1.append cx.grow c (Aln.addColumn cx acc.1 a.q seqs pos) zeroQL).1,
     acc.2.set pos.toNat (acc.1.append cx.grow c (Aln.addColumn cx acc.1 a.q seqs pos) zeroQL).2)
  | none => acc

theorem Aln.add_eq (cx : Ctx) (h : Cells) (a : Aln) (seqs : List Lin) :
    a.add cx h seqs = (((List.range a.cols.length).foldl (addStep cx a seqs) (h, a.cols)).1,
      { a with cols := ((List.range a.cols.length).foldl (addStep cx a seqs) (h, a.cols)).2,
               subs := a.subs ++ seqs.map fun ss => ⟨ss.name, ss.off, ss.strand⟩ }) := rfl

theorem addColumn_length (cx : Ctx) (h : Cells) (q : Bool) (seqs : List Lin) (pos : Int) :
    (Aln.addColumn cx h q seqs pos).length = seqs.length := by simp [Aln.addColumn]

/-- invariant of the loop of `Add` after `k` columns: the first `k` columns have grown by one
    entry per added sequence (in place or into a new array), the others are as they were -/
theorem aln_add_prefix (cx : Ctx) (h : Cells) (a : Aln) (seqs : List Lin) (n : Nat) (hoff : a.off = 0)
    (hw : ColsCapWF h n a.cols) :
    ∀ k, k ≤ a.cols.length →
      ∃ news, ((List.range k).foldl (addStep cx a seqs) (h, a.cols)).2 = news ++ a.cols.drop k ∧
        news.length = k ∧
        SlicesCapWF ((List.range k).foldl (addStep cx a seqs) (h, a.cols)).1 (news ++ a.cols.drop k) ∧
        (∀ c ∈ news, c.len = n + seqs.length ∧ (c.arr ∈ a.cols.map (·.arr) ∨ h.arrays.length ≤ c.arr)) ∧
        h.arrays.length ≤ ((List.range k).foldl (addStep cx a seqs) (h, a.cols)).1.arrays.length ∧
        (∀ b, b < h.arrays.length → b ∉ a.cols.map (·.arr) →
          ((List.range k).foldl (addStep cx a seqs) (h, a.cols)).1.arr b = h.arr b) := by
  intro k
  induction k with
  | zero =>
    intro _
    exact ⟨[], by simp, rfl, by simpa using hw.1, by simp, Nat.le_refl _, fun _ _ _ => rfl⟩
  | succ k ih =>
    intro hk
    obtain ⟨news, e2, hlen, hwf, hnews, hsz, hfr⟩ := ih (by omega)
    rw [List.range_succ, List.foldl_append]
    simp only [List.foldl_cons, List.foldl_nil]
    generalize hres : (List.range k).foldl (addStep cx a seqs) (h, a.cols) = res at e2 hwf hsz hfr
    obtain ⟨hk', cur⟩ := res
    simp only at e2 hwf hsz hfr
    subst e2
    -- the column the step works on
    have hklt : k < a.cols.length := by omega
    have hdrop : a.cols.drop k = a.cols[k] :: a.cols.drop (k + 1) := (List.drop_eq_getElem_cons hklt)
    have hget : (news ++ a.cols.drop k)[k]? = some a.cols[k] := by
      rw [List.getElem?_append_right (by omega), hlen, Nat.sub_self, hdrop]; rfl
    have hpos : (a.off + (k : Int)).toNat = k := by omega
    have hcmem : a.cols[k] ∈ news ++ a.cols.drop k := List.mem_of_getElem? hget
    have hcv := hwf.1 _ hcmem
    obtain ⟨_, r2, r3, r4, r5, r6⟩ := append_spec cx.grow hk' a.cols[k]
      (Aln.addColumn cx hk' a.q seqs (a.off + (k : Int))) hcv
    have hstep : addStep cx a seqs (hk', news ++ a.cols.drop k) k =
        ((hk'.append cx.grow a.cols[k] (Aln.addColumn cx hk' a.q seqs (a.off + (k : Int))) zeroQL).1,
         (news ++ a.cols.drop k).set k
           (hk'.append cx.grow a.cols[k] (Aln.addColumn cx hk' a.q seqs (a.off + (k : Int))) zeroQL).2) := by
      simp only [addStep, hpos, hget]
    rw [hstep]
    generalize hap : hk'.append cx.grow a.cols[k] (Aln.addColumn cx hk' a.q seqs (a.off + (k : Int))) zeroQL = ap
      at r2 r3 r4 r5 r6
    obtain ⟨h2, c'⟩ := ap
    simp only at r2 r3 r4 r5 r6 ⊢
    have hset : (news ++ a.cols.drop k).set k c' = (news ++ [c']) ++ a.cols.drop (k + 1) := by
      rw [List.set_append_right _ _ (by omega), hlen, Nat.sub_self, hdrop, List.set_cons_zero]
      simp
    -- pairwise facts of the old list, split at the current column
    have hpw := hwf.2
    rw [hdrop, List.pairwise_append, List.pairwise_cons] at hpw
    obtain ⟨pw1, ⟨pwc, pw2⟩, pwx⟩ := hpw
    have holdlt : ∀ s ∈ news ++ a.cols.drop k, s.arr < hk'.arrays.length := fun s hs => (hwf.1 s hs).1
    have hmem_news : ∀ s ∈ news, s ∈ news ++ a.cols.drop k := fun s hs => List.mem_append_left _ hs
    have hmem_rest : ∀ s ∈ a.cols.drop (k + 1), s ∈ news ++ a.cols.drop k := fun s hs =>
      List.mem_append_right _ (by rw [hdrop]; exact List.mem_cons_of_mem _ hs)
    -- every other slice is in another array than the current column
    have hne_news : ∀ s ∈ news, s.arr ≠ a.cols[k].arr := fun s hs => pwx s hs _ List.mem_cons_self
    have hne_rest : ∀ s ∈ a.cols.drop (k + 1), s.arr ≠ a.cols[k].arr := fun s hs => (pwc s hs).symm
    have hkeep : ∀ s, s ∈ news ∨ s ∈ a.cols.drop (k + 1) → CapValid h2 s ∧ s.arr ≠ c'.arr := by
      intro s hs
      have hsm : s ∈ news ++ a.cols.drop k := hs.elim (hmem_news s) (hmem_rest s)
      have hne : s.arr ≠ a.cols[k].arr := hs.elim (hne_news s) (hne_rest s)
      refine ⟨(hwf.1 s hsm).mono r6 (r5 _ hne (holdlt s hsm)), ?_⟩
      rcases r4 with e | e
      · rw [e]; exact hne
      · have := holdlt s hsm; omega
    refine ⟨news ++ [c'], hset, by simp [hlen], ?_, ?_, by omega, ?_⟩
    · refine ⟨?_, ?_⟩
      · intro s hs
        simp only [List.mem_append, List.mem_singleton] at hs
        rcases hs with (hs | hs) | hs
        · exact (hkeep s (Or.inl hs)).1
        · subst hs; exact r2
        · exact (hkeep s (Or.inr hs)).1
      · rw [List.pairwise_append, List.pairwise_append]
        refine ⟨⟨pw1, List.pairwise_singleton _ _, ?_⟩, pw2, ?_⟩
        · intro x hx y hy
          simp only [List.mem_singleton] at hy; subst hy
          exact (hkeep x (Or.inl hx)).2
        · intro x hx y hy
          simp only [List.mem_append, List.mem_singleton] at hx
          rcases hx with hx | hx
          · exact pwx x hx y (List.mem_cons_of_mem _ hy)
          · subst hx; exact (hkeep y (Or.inr hy)).2.symm
    · intro c hc
      simp only [List.mem_append, List.mem_singleton] at hc
      rcases hc with hc | hc
      · exact hnews c hc
      · subst hc
        refine ⟨by rw [r3, addColumn_length, hw.2 _ (List.getElem_mem hklt)], ?_⟩
        rcases r4 with e | e
        · exact Or.inl (by rw [e]; exact List.mem_map.mpr ⟨_, List.getElem_mem hklt, rfl⟩)
        · exact Or.inr (by omega)
    · intro b hb hnot
      rw [r5 b (fun e => hnot (e ▸ List.mem_map.mpr ⟨_, List.getElem_mem hklt, rfl⟩)) (by omega)]
      exact hfr b hb hnot

theorem eff_aln_add (cx : Ctx) (h : Cells) (a : Aln) (hw : ObjWF h (.aln a)) (seqs : List Lin) :
    Eff h (.aln a) (a.add cx h seqs).1 (.aln (a.add cx h seqs).2) := by
  obtain ⟨h0, n, hc, hsub⟩ := hw
  obtain ⟨news, e2, hlen, hwf, hnews, hsz, hfr⟩ := aln_add_prefix cx h a seqs n h0 hc a.cols.length (Nat.le_refl _)
  rw [Aln.add_eq]
  rw [List.drop_length, List.append_nil] at e2 hwf
  refine ⟨hsz, hfr, ?_, ⟨h0, n + seqs.length, ?_, ?_⟩⟩
  · intro a' ha'
    simp only [Obj.arrs, e2, List.mem_map] at ha'
    obtain ⟨c, hm, rfl⟩ := ha'
    exact (hnews c hm).2
  · simp only [e2]
    exact ⟨hwf, fun c hm => (hnews c hm).1⟩
  · intro hne
    simp only [e2] at hne
    have hne' : a.cols ≠ [] := by
      intro e
      rw [e] at hlen
      simp only [List.length_nil] at hlen
      exact hne (List.length_eq_zero_iff.mp hlen)
    simp only [List.length_append, List.length_map, hsub hne']

end Biogo.Containers
