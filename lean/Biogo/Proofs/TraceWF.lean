/-
The traceback loop of the affine aligners (`Biogo.AlignAff.tbLoop`) emits a well-formed
path whatever the table contains: the segments abut, each is an ungapped block, a one-sided
gap, or (only as the very first one) empty with score 0.  Core only.
-/
import Biogo.Model.AlignAff
import Biogo.Spec.AffPairs
import Biogo.Proofs.AlignAffTable

namespace Biogo.Proofs.TraceWF
open Biogo.Spec.Alignment Biogo.AlignAff Biogo.Spec.AffPairs

theorem pairShape_of (p : Pair) (h1 : p.rs ≤ p.re) (h2 : p.qs ≤ p.qe)
    (h : (p.re - p.rs = p.qe - p.qs ∧ p.re - p.rs ≠ 0) ∨ (p.re - p.rs = 0 ∧ p.qe - p.qs ≠ 0) ∨
         (p.qe - p.qs = 0 ∧ p.re - p.rs ≠ 0) ∨ (p.re - p.rs = 0 ∧ p.qe - p.qs = 0 ∧ p.score = 0)) :
    pairShape p = true := by
  simp only [pairShape, Bool.and_eq_true, Bool.or_eq_true, decide_eq_true_eq, beq_iff_eq, bne_iff_ne]
  refine ⟨⟨h1, h2⟩, ?_⟩
  rcases h with h | h | h | h
  · exact Or.inl (Or.inl (Or.inl h))
  · exact Or.inl (Or.inl (Or.inr h))
  · exact Or.inl (Or.inr h)
  · exact Or.inr ⟨⟨h.1, h.2.1⟩, h.2.2⟩

/-- the end of the last pair, or the current segment's end when nothing has been emitted -/
def endOf (st : TB) : Nat × Nat :=
  match st.aln.getLast? with
  | some p => (p.re, p.qe)
  | none => (st.maxI, st.maxJ)

/-- loop invariant of the traceback, for a traceback started at `(I0, J0)` -/
structure Inv (R C I0 J0 : Nat) (st : TB) : Prop where
  hi : st.i ≤ st.maxI
  hj : st.j ≤ st.maxJ
  hR : st.maxI ≤ R
  hC : st.maxJ ≤ C
  segm : st.last = .m → st.maxI - st.i = st.maxJ - st.j
  -- a gap run in progress is non-empty, except in the initial state of a traceback that
  -- starts in a gap layer (`last = layer`, FittedAffine since the repair of K3)
  segu : st.last = .u → st.j = st.maxJ ∧ (st.i < st.maxI ∨ st.layer = .u)
  segl : st.last = .l → st.i = st.maxI ∧ (st.j < st.maxJ ∨ st.layer = .l)
  empty0 : st.i = st.maxI → st.j = st.maxJ → st.score = 0
  shapes : st.aln.all pairShape = true
  chn : chain st.aln = true
  link : ∀ p ps, st.aln = p :: ps → p.rs = st.maxI ∧ p.qs = st.maxJ
  endp : endOf st = (I0, J0)

theorem move_emit (st : TB) (e : Bool) (mv pl : Kind) (v pv : Int)
    (h : st.last ≠ mv ∧ (mv = .m ∨ ¬ e = true)) :
    st.move e mv pl v pv =
      { i := if mv = .l then st.i else st.i - 1, j := if mv = .u then st.j else st.j - 1,
        layer := pl, last := mv, score := 0 + (v - pv), maxI := st.i, maxJ := st.j,
        aln := ⟨st.i, st.maxI, st.j, st.maxJ, st.score⟩ :: st.aln,
        tie := st.tie || decide (st.layer ≠ mv) } := by
  simp only [TB.move, if_pos h, TB.emit]

theorem move_keep (st : TB) (e : Bool) (mv pl : Kind) (v pv : Int)
    (h : ¬ (st.last ≠ mv ∧ (mv = .m ∨ ¬ e = true))) :
    st.move e mv pl v pv =
      { i := if mv = .l then st.i else st.i - 1, j := if mv = .u then st.j else st.j - 1,
        layer := pl, last := mv, score := st.score + (v - pv), maxI := st.maxI, maxJ := st.maxJ,
        aln := st.aln, tie := st.tie || decide (st.layer ≠ mv) } := by
  simp only [TB.move, if_neg h]

theorem getLast?_cons_of {α} (a : α) (l : List α) :
    (a :: l).getLast? = match l.getLast? with | some x => some x | none => some a := by
  cases l with
  | nil => rfl
  | cons b t =>
    rw [List.getLast?_cons_cons]
    cases h : (b :: t).getLast? with
    | none => simp at h
    | some x => rfl

/-- one iteration keeps the invariant -/
theorem move_inv {R C I0 J0 : Nat} {st : TB} (h : Inv R C I0 J0 st) (hi0 : 0 < st.i) (hj0 : 0 < st.j)
    (hR : st.i ≤ R) (hC : st.j ≤ C) (mv pl : Kind) (v pv : Int) :
    Inv R C I0 J0 (st.move (decide (st.i = R ∧ st.j = C)) mv pl v pv) := by
  obtain ⟨hi, hj, hmR, hmC, segm, segu, segl, empty0, shapes, chn, link, endp⟩ := h
  by_cases hc : st.last ≠ mv ∧ (mv = .m ∨ ¬ decide (st.i = R ∧ st.j = C) = true)
  · -- the finished segment is emitted
    rw [move_emit st _ mv pl v pv hc]
    have hshape : pairShape ⟨st.i, st.maxI, st.j, st.maxJ, st.score⟩ = true := by
      apply pairShape_of _ hi hj
      simp only []
      cases hl : st.last with
      | m => have := segm hl; by_cases he : st.maxI - st.i = 0
             · right; right; right; exact ⟨he, by omega, empty0 (by omega) (by omega)⟩
             · left; exact ⟨this, he⟩
      | u => have := segu hl; by_cases he : st.maxI - st.i = 0
             · right; right; right; exact ⟨he, by omega, empty0 (by omega) (by omega)⟩
             · right; right; left; omega
      | l => have := segl hl; by_cases he : st.maxJ - st.j = 0
             · right; right; right; exact ⟨by omega, he, empty0 (by omega) (by omega)⟩
             · right; left; omega
    refine ⟨?_, ?_, hR, hC, ?_, ?_, ?_, ?_, ?_, ?_, ?_, ?_⟩
    · simp only []; split <;> omega
    · simp only []; split <;> omega
    · intro hm; simp only [] at hm ⊢; subst hm; simp; omega
    · intro hm; simp only [] at hm ⊢; subst hm; simp; omega
    · intro hm; simp only [] at hm ⊢; subst hm; simp; omega
    · intro h1 h2; simp only [] at h1 h2
      cases mv <;> simp at h1 h2 <;> omega
    · simp only [List.all_cons, hshape, shapes, Bool.and_self]
    · cases hal : st.aln with
      | nil => rfl
      | cons p ps =>
        obtain ⟨h1, h2⟩ := link p ps hal
        simp only [chain, Bool.and_eq_true, beq_iff_eq]
        rw [hal] at chn
        exact ⟨⟨h1.symm, h2.symm⟩, chn⟩
    · intro p ps hp
      simp only [List.cons.injEq] at hp
      obtain ⟨rfl, _⟩ := hp
      exact ⟨rfl, rfl⟩
    · simp only [endOf] at endp ⊢
      rw [getLast?_cons_of]
      cases hg : st.aln.getLast? with
      | some x => rw [hg] at endp; exact endp
      | none => rw [hg] at endp; exact endp
  · -- the current segment grows
    rw [move_keep st _ mv pl v pv hc]
    have hcase : st.last = mv ∨ (st.i = st.maxI ∧ st.j = st.maxJ ∧ mv ≠ .m) := by
      by_cases hl : st.last = mv
      · exact Or.inl hl
      · right
        have : ¬ (mv = .m ∨ ¬ decide (st.i = R ∧ st.j = C) = true) := fun h => hc ⟨hl, h⟩
        have h1 : mv ≠ .m := fun h => this (Or.inl h)
        have h2 : st.i = R ∧ st.j = C := by
          have : decide (st.i = R ∧ st.j = C) = true := by
            cases hd : decide (st.i = R ∧ st.j = C) with
            | true => rfl
            | false => exact absurd (Or.inr (by simp [hd])) this
          simpa using this
        exact ⟨by omega, by omega, h1⟩
    refine ⟨?_, ?_, hmR, hmC, ?_, ?_, ?_, ?_, shapes, chn, link, ?_⟩
    · simp only []; split <;> omega
    · simp only []; split <;> omega
    · intro hm; simp only [] at hm ⊢; subst hm
      rcases hcase with hl | ⟨_, _, hne⟩
      · have := segm hl; simp; omega
      · exact absurd rfl hne
    · intro hm; simp only [] at hm ⊢; subst hm
      rcases hcase with hl | ⟨h1, h2, _⟩
      · have := segu hl; simp; omega
      · simp; omega
    · intro hm; simp only [] at hm ⊢; subst hm
      rcases hcase with hl | ⟨h1, h2, _⟩
      · have := segl hl; simp; omega
      · simp; omega
    · intro h1 h2; simp only [] at h1 h2
      cases mv <;> simp at h1 h2 <;> omega
    · simpa [endOf] using endp

/-- the loop keeps the invariant and stops inside the table -/
theorem loop_inv (aware cross sw : Bool) (T : Table) (S : Matrix) (o : Int) (r q : List Nat) (R C I0 J0 : Nat) :
    ∀ (fuel : Nat) (st st' : TB), Inv R C I0 J0 st →
      tbLoop aware cross sw T S o r q R C fuel st = .ok st' → Inv R C I0 J0 st' := by
  intro fuel
  induction fuel with
  | zero => intro st st' h hl; simp only [tbLoop] at hl; cases hl; exact h
  | succ fuel ih =>
    intro st st' h hl
    unfold tbLoop at hl
    by_cases h0 : st.i = 0 ∨ st.j = 0
    · rw [if_pos h0] at hl; cases hl; exact h
    rw [if_neg h0] at hl
    simp only [] at hl
    cases hv : (T.at st.i st.j).get st.layer with
    | none => rw [hv] at hl; cases hl
    | some v =>
      rw [hv] at hl
      simp only [] at hl
      by_cases hsw : (sw = true ∧ v = 0)
      · rw [if_pos hsw] at hl; cases hl; exact h
      rw [if_neg hsw] at hl
      cases hf : (cands cross sw S o (r.getD (st.i - 1) 0) (q.getD (st.j - 1) 0)).find?
          (caseHit aware T st v) with
      | none => rw [hf] at hl; cases hl
      | some cd =>
        obtain ⟨mv, pl, add⟩ := cd
        rw [hf] at hl
        simp only [] at hl
        have hinv := move_inv h (by omega) (by omega) (by have := h.hi; have := h.hR; omega)
          (by have := h.hj; have := h.hC; omega) mv pl v (vget ((predOf T st.i st.j mv).get pl))
        have e : decide (st.i = R ∧ st.j = C) = (decide (st.i = R ∧ st.j = C)) := rfl
        exact ih _ _ hinv (by simpa using hl)

/-- the initial state of a traceback started at `(I0, J0)` -/
theorem init_inv (R C I0 J0 : Nat) (layer : Kind) (hI : I0 ≤ R) (hJ : J0 ≤ C) :
    Inv R C I0 J0 { i := I0, j := J0, layer, last := .m, score := 0, maxI := I0, maxJ := J0, aln := [] } where
  hi := Nat.le_refl _
  hj := Nat.le_refl _
  hR := hI
  hC := hJ
  segm := fun _ => by simp
  segu := fun h => by cases h
  segl := fun h => by cases h
  empty0 := fun _ _ => rfl
  shapes := rfl
  chn := rfl
  link := fun _ _ h => by cases h
  endp := rfl

/-- the initial state of a traceback started at `(I0, J0)` in the run of its start layer
    (`last = layer`, FittedAffine) -/
theorem init_inv_layer (R C I0 J0 : Nat) (layer : Kind) (hI : I0 ≤ R) (hJ : J0 ≤ C) :
    Inv R C I0 J0 { i := I0, j := J0, layer, last := layer, score := 0, maxI := I0, maxJ := J0, aln := [] } where
  hi := Nat.le_refl _
  hj := Nat.le_refl _
  hR := hI
  hC := hJ
  segm := fun _ => by simp
  segu := fun h => ⟨rfl, Or.inr h⟩
  segl := fun h => ⟨rfl, Or.inr h⟩
  empty0 := fun _ _ => rfl
  shapes := rfl
  chn := rfl
  link := fun _ _ h => by cases h
  endp := rfl

/-- emitting the last segment of a state satisfying the invariant gives a well-formed path
    that ends where the traceback started and starts where it stopped -/
theorem emit_wf {R C I0 J0 : Nat} {st : TB} (h : Inv R C I0 J0 st) :
    wellFormed st.emit.aln = true ∧ lastEnd st.emit.aln = (I0, J0) ∧
      firstStart st.emit.aln = (st.i, st.j) := by
  obtain ⟨hi, hj, hmR, hmC, segm, segu, segl, empty0, shapes, chn, link, endp⟩ := h
  have hshape : pairShape ⟨st.i, st.maxI, st.j, st.maxJ, st.score⟩ = true := by
    apply pairShape_of _ hi hj
    simp only []
    cases hl : st.last with
    | m => have := segm hl; by_cases he : st.maxI - st.i = 0
           · right; right; right; exact ⟨he, by omega, empty0 (by omega) (by omega)⟩
           · left; exact ⟨this, he⟩
    | u => have := segu hl; by_cases he : st.maxI - st.i = 0
           · right; right; right; exact ⟨he, by omega, empty0 (by omega) (by omega)⟩
           · right; right; left; omega
    | l => have := segl hl; by_cases he : st.maxJ - st.j = 0
           · right; right; right; exact ⟨by omega, he, empty0 (by omega) (by omega)⟩
           · right; left; omega
  refine ⟨?_, ?_, ?_⟩
  · simp only [wellFormed, TB.emit, List.isEmpty_cons, Bool.not_false, List.all_cons, hshape, shapes,
      Bool.and_self, Bool.true_and]
    cases hal : st.aln with
    | nil => rfl
    | cons p ps =>
      obtain ⟨h1, h2⟩ := link p ps hal
      simp only [chain, Bool.and_eq_true, beq_iff_eq]
      rw [hal] at chn
      exact ⟨⟨h1.symm, h2.symm⟩, chn⟩
  · simp only [lastEnd, TB.emit, endOf] at endp ⊢
    rw [getLast?_cons_of]
    cases hg : st.aln.getLast? with
    | some x => rw [hg] at endp; exact endp
    | none => rw [hg] at endp; exact endp
  · simp [firstStart, TB.emit]

theorem move_ij (st : TB) (e : Bool) (mv pl : Kind) (v pv : Int) :
    (st.move e mv pl v pv).i = (if mv = .l then st.i else st.i - 1) ∧
    (st.move e mv pl v pv).j = (if mv = .u then st.j else st.j - 1) := by
  by_cases h : st.last ≠ mv ∧ (mv = .m ∨ ¬ e = true)
  · rw [move_emit st e mv pl v pv h]; exact ⟨rfl, rfl⟩
  · rw [move_keep st e mv pl v pv h]; exact ⟨rfl, rfl⟩

/-- with enough fuel the NW/fitted loop stops only at the table's border -/
theorem loop_stops (aware cross : Bool) (T : Table) (S : Matrix) (o : Int) (r q : List Nat) (R C : Nat) :
    ∀ (fuel : Nat) (st st' : TB), tbLoop aware cross false T S o r q R C fuel st = .ok st' →
      st.i + st.j ≤ fuel → st'.i = 0 ∨ st'.j = 0 := by
  intro fuel
  induction fuel with
  | zero => intro st st' hl hf; simp only [tbLoop] at hl; cases hl; left; omega
  | succ fuel ih =>
    intro st st' hl hf
    unfold tbLoop at hl
    by_cases h0 : st.i = 0 ∨ st.j = 0
    · rw [if_pos h0] at hl; cases hl; exact h0
    rw [if_neg h0] at hl
    simp only [] at hl
    cases hv : (T.at st.i st.j).get st.layer with
    | none => rw [hv] at hl; cases hl
    | some v =>
      rw [hv] at hl
      simp only [] at hl
      have hsw : ¬ ((false : Bool) = true ∧ v = 0) := by simp
      rw [if_neg hsw] at hl
      cases hf' : (cands cross false S o (r.getD (st.i - 1) 0) (q.getD (st.j - 1) 0)).find?
          (caseHit aware T st v) with
      | none => rw [hf'] at hl; cases hl
      | some cd =>
        obtain ⟨mv, pl, add⟩ := cd
        rw [hf'] at hl
        simp only [] at hl
        apply ih _ _ hl
        obtain ⟨e1, e2⟩ := move_ij st (decide (st.i = R ∧ st.j = C)) mv pl v
          (vget ((predOf T st.i st.j mv).get pl))
        rw [e1, e2]
        cases mv <;> simp <;> omega

theorem lastEnd_cons (p : Pair) (ps : List Pair) (h : ps ≠ []) : lastEnd (p :: ps) = lastEnd ps := by
  cases ps with
  | nil => exact absurd rfl h
  | cons a t => simp [lastEnd, List.getLast?_cons_cons]

/-- `NWAffine` (either switch, either fill): the returned pairs form one well-formed path that
    spans both sequences -/
theorem nwAlignT_wf (aware cross : Bool) (S : Matrix) (o : Int) (r q : List Nat) (ps : List Pair) (t : Bool)
    (h : nwAlignT aware cross S o r q = .ok (ps, t)) :
    wellFormed ps = true ∧ spansAll ps r.length q.length = true := by
  unfold nwAlignT at h
  simp only [] at h
  split at h
  · cases h
  · rename_i st hl
    have hinv := loop_inv aware cross false _ S o r q r.length q.length r.length q.length _ _ st
      (init_inv r.length q.length r.length q.length _ (Nat.le_refl _) (Nat.le_refl _)) hl
    have hstop := loop_stops aware cross _ S o r q r.length q.length _ _ st hl (Nat.le_refl _)
    obtain ⟨hwf, hend, hstart⟩ := emit_wf hinv
    have hne : st.emit.aln ≠ [] := by simp [TB.emit]
    by_cases hij : st.i ≠ st.j
    · rw [if_pos hij] at h
      have h := (Prod.mk.inj (Except.ok.inj h)).1
      subst h
      simp only [wellFormed, Bool.and_eq_true, Bool.not_eq_true', List.all_eq_true] at hwf
      refine ⟨?_, ?_⟩
      · simp only [wellFormed, List.isEmpty_cons, Bool.not_false, Bool.true_and, List.all_cons,
          Bool.and_eq_true, List.all_eq_true]
        refine ⟨⟨?_, hwf.1.2⟩, ?_⟩
        · apply pairShape_of
          · simp
          · simp
          · simp only []
            rcases hstop with h0 | h0
            · right; left; omega
            · right; right; left; omega
        · cases hal : st.emit.aln with
          | nil => exact absurd hal hne
          | cons p ps' =>
            rw [hal] at hstart hwf
            simp only [firstStart, List.head?_cons, Prod.mk.injEq] at hstart
            simp only [chain, Bool.and_eq_true, beq_iff_eq]
            exact ⟨⟨hstart.1.symm, hstart.2.symm⟩, hwf.2⟩
      · simp only [spansAll, Bool.and_eq_true, beq_iff_eq]
        refine ⟨rfl, ?_⟩
        rw [lastEnd_cons _ _ hne]; exact hend
    · have hij' : st.i = st.j := Decidable.not_not.mp hij
      rw [if_neg hij] at h
      have h := (Prod.mk.inj (Except.ok.inj h)).1
      subst h
      refine ⟨hwf, ?_⟩
      simp only [spansAll, Bool.and_eq_true, beq_iff_eq]
      refine ⟨?_, hend⟩
      rw [hstart]
      have : st.i = 0 ∧ st.j = 0 := by omega
      rw [this.1, this.2]

/-- unfolding `Except.map Prod.fst … = .ok ps` -/
theorem map_fst_ok {α β ε} {x : Except ε (α × β)} {a : α} (h : x.map (·.1) = .ok a) :
    ∃ b, x = .ok (a, b) := by
  cases x with
  | error e => cases h
  | ok v => obtain ⟨a', b⟩ := v; simp only [Except.map] at h; cases h; exact ⟨b, rfl⟩

/-- `NWAffine`: the returned pairs form one well-formed path that spans both sequences -/
theorem nwAlign_wf (S : Matrix) (o : Int) (r q : List Nat) (ps : List Pair)
    (h : nwAlign S o r q = .ok ps) :
    wellFormed ps = true ∧ spansAll ps r.length q.length = true := by
  obtain ⟨t, ht⟩ := map_fst_ok h
  exact nwAlignT_wf true true S o r q ps t ht

/-! ### FittedAffine -/

theorem fitEnd_le (t : Table) (C B : Nat) : ∀ (n y : Nat) (best : Nat × V), best.1 ≤ B → y + n ≤ B + 1 →
    fitEnd t C n y best ≤ B := by
  intro n
  induction n with
  | zero => intro y best hb _; exact hb
  | succ n ih =>
    intro y best hb hy
    simp only [fitEnd]
    apply ih
    · split
      · exact hb
      · simp only []; omega
    · omega

theorem fitEnd3_le (t : Table) (C B : Nat) : ∀ (n y : Nat) (best : Nat × Kind × V), best.1 ≤ B → y + n ≤ B + 1 →
    (fitEnd3 t C n y best).1 ≤ B := by
  intro n
  induction n with
  | zero => intro y best hb _; exact hb
  | succ n ih =>
    intro y best hb hy
    simp only [fitEnd3]
    apply ih
    · split
      · exact hb
      · simp only []; omega
    · omega

/-- the start row of `FittedAffine` (either end selection) lies inside the table -/
theorem fitStart_le (ends : Bool) (t : Table) (R C : Nat) :
    (if ends then fitEnd3 t C R 1 (0, .m, none) else (fitEnd t C R 1 (0, none), Kind.m)).1 ≤ R := by
  cases ends with
  | true => exact fitEnd3_le _ _ _ _ _ _ (Nat.zero_le _) (by omega)
  | false => exact fitEnd_le _ _ _ _ _ _ (Nat.zero_le _) (by omega)

/-- `FittedAffine` (either switch, fill and end selection): one well-formed path inside the table
    that covers the whole query -/
theorem fitAlignT_wf (aware cross ends : Bool) (S : Matrix) (o : Int) (r q : List Nat) (ps : List Pair) (t : Bool)
    (h : fitAlignT aware cross ends S o r q = .ok (ps, t)) :
    wellFormed ps = true ∧ inBounds ps r.length q.length = true ∧
      (firstStart ps).2 = 0 ∧ (lastEnd ps).2 = q.length := by
  unfold fitAlignT at h
  simp only [] at h
  have hE := fitStart_le ends (fitTable cross S o r q) r.length q.length
  generalize (if ends then fitEnd3 (fitTable cross S o r q) q.length r.length 1 (0, .m, none)
    else (fitEnd (fitTable cross S o r q) q.length r.length 1 (0, none), Kind.m)) = start at h hE
  split at h
  · cases h
  · rename_i st hl
    have hinv := loop_inv aware cross false _ S o r q r.length q.length _ q.length _ _ st
      (init_inv_layer r.length q.length _ q.length _ hE (Nat.le_refl _)) hl
    have hstop := loop_stops aware cross _ S o r q r.length q.length _ _ st hl (Nat.le_refl _)
    obtain ⟨hwf, hend, hstart⟩ := emit_wf hinv
    have hne : st.emit.aln ≠ [] := by simp [TB.emit]
    by_cases hj : st.j ≠ 0
    · rw [if_pos hj] at h
      have h := (Prod.mk.inj (Except.ok.inj h)).1
      subst h
      simp only [wellFormed, Bool.and_eq_true, Bool.not_eq_true', List.all_eq_true] at hwf
      refine ⟨?_, ?_, rfl, ?_⟩
      · simp only [wellFormed, List.isEmpty_cons, Bool.not_false, Bool.true_and, List.all_cons,
          Bool.and_eq_true, List.all_eq_true]
        refine ⟨⟨?_, hwf.1.2⟩, ?_⟩
        · apply pairShape_of
          · simp
          · simp
          · simp only []; right; left; omega
        · cases hal : st.emit.aln with
          | nil => exact absurd hal hne
          | cons p ps' =>
            rw [hal] at hstart hwf
            simp only [firstStart, List.head?_cons, Prod.mk.injEq] at hstart
            simp only [chain, Bool.and_eq_true, beq_iff_eq]
            exact ⟨⟨hstart.1.symm, hstart.2.symm⟩, hwf.2⟩
      · rw [inBounds, lastEnd_cons _ _ hne, hend]; simp; exact hE
      · rw [lastEnd_cons _ _ hne, hend]
    · have hj' : st.j = 0 := Decidable.not_not.mp hj
      rw [if_neg hj] at h
      have h := (Prod.mk.inj (Except.ok.inj h)).1
      subst h
      refine ⟨hwf, ?_, ?_, ?_⟩
      · rw [inBounds, hend]; simp; exact hE
      · rw [hstart]; exact hj'
      · rw [hend]

/-- `FittedAffine`: one well-formed path inside the table that covers the whole query -/
theorem fitAlign_wf (S : Matrix) (o : Int) (r q : List Nat) (ps : List Pair)
    (h : fitAlign S o r q = .ok ps) :
    wellFormed ps = true ∧ inBounds ps r.length q.length = true ∧
      (firstStart ps).2 = 0 ∧ (lastEnd ps).2 = q.length := by
  obtain ⟨t, ht⟩ := map_fst_ok h
  exact fitAlignT_wf true true true S o r q ps t ht

/-! ### SWAffine -/

theorem swBestRow_bound (R C i : Nat) (hi : i ≤ R) :
    ∀ (cells : List Cell) (j : Nat) (best : Int × Nat × Nat), j + cells.length ≤ C + 1 →
      best.2.1 ≤ R ∧ best.2.2 ≤ C →
      (swBestRow i cells j best).2.1 ≤ R ∧ (swBestRow i cells j best).2.2 ≤ C := by
  intro cells
  induction cells with
  | nil => intro j best _ hb; exact hb
  | cons cell cs ih =>
    intro j best hj hb
    simp only [swBestRow]
    apply ih
    · simp at hj ⊢; omega
    · unfold swBestStep
      cases cell.d with
      | none => exact hb
      | some s =>
        simp only []
        split
        · simp at hj ⊢; exact ⟨hi, by omega⟩
        · exact hb

theorem swBestRows_bound (R C : Nat) :
    ∀ (rows : List (List Cell)) (i : Nat) (best : Int × Nat × Nat), i + rows.length ≤ R + 1 →
      (∀ row ∈ rows, row.length ≤ C + 1) → best.2.1 ≤ R ∧ best.2.2 ≤ C →
      (swBestRows rows i best).2.1 ≤ R ∧ (swBestRows rows i best).2.2 ≤ C := by
  intro rows
  induction rows with
  | nil => intro i best _ _ hb; exact hb
  | cons row rows ih =>
    intro i best hi hlen hb
    simp only [swBestRows]
    apply ih
    · simp at hi ⊢; omega
    · intro row' h'; exact hlen row' (List.mem_cons_of_mem _ h')
    · apply swBestRow_bound R C i (by simp at hi; omega)
      · have := hlen row List.mem_cons_self
        simp; omega
      · exact hb

theorem swBest_bound (cross : Bool) (S : Matrix) (o : Int) (r q : List Nat) :
    (swBest (swRows cross S o r q)).2.1 ≤ r.length ∧ (swBest (swRows cross S o r q)).2.2 ≤ q.length := by
  unfold swBest
  apply swBestRows_bound
  · simp [swRows, Biogo.Proofs.AlignAffTable.fillRows_length]; omega
  · intro row hrow
    have hmem : row ∈ swRows cross S o r q := List.mem_of_mem_drop hrow
    have := Biogo.Proofs.AlignAffTable.rows_all_len swFirst (swCell cross S o) q r
      (List.replicate (q.length + 1) zeroCell) (by simp) row hmem
    omega
  · exact ⟨Nat.zero_le _, Nat.zero_le _⟩

/-- `SWAffine` (either switch, either fill): one well-formed path inside the table -/
theorem swAlignT_wf (aware cross : Bool) (S : Matrix) (o : Int) (r q : List Nat) (ps : List Pair) (t : Bool)
    (h : swAlignT aware cross S o r q = .ok (ps, t)) :
    wellFormed ps = true ∧ inBounds ps r.length q.length = true := by
  unfold swAlignT at h
  simp only [] at h
  obtain ⟨hI, hJ⟩ := swBest_bound cross S o r q
  split at h
  · cases h
  · rename_i st hl
    have h := (Prod.mk.inj (Except.ok.inj h)).1
    subst h
    have hinv := loop_inv aware cross true _ S o r q r.length q.length _ _ _ _ st
      (init_inv r.length q.length _ _ _ hI hJ) hl
    obtain ⟨hwf, hend, _⟩ := emit_wf hinv
    refine ⟨hwf, ?_⟩
    rw [inBounds, hend]; simp; exact ⟨hI, hJ⟩

/-- `SWAffine`: one well-formed path inside the table -/
theorem swAlign_wf (S : Matrix) (o : Int) (r q : List Nat) (ps : List Pair)
    (h : swAlign S o r q = .ok ps) :
    wellFormed ps = true ∧ inBounds ps r.length q.length = true := by
  obtain ⟨t, ht⟩ := map_fst_ok h
  exact swAlignT_wf true true S o r q ps t ht

end Biogo.Proofs.TraceWF
