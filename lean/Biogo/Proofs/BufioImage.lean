/-
The line-level views the reader models consume are the image of the byte-level `bufio.Reader`
model: `Biogo.Spec.Bufio.lineInput` (= `Biogo.Go.Bytes.readLineInput` at 4096) for a `ReadLine`
loop, `Biogo.BytesFeat.lines` for a `ReadBytes('\n')` loop.  Core only.
-/
import Biogo.Proofs.BufioLines
import Biogo.Proofs.Bytes
import Biogo.Proofs.FeatTrim

namespace Biogo.Go.Bufio
open Biogo.Spec.Bufio (sliceOf lineOf lineInput endsPending endsPendingAux readBytesCalls)
open Biogo.Go.Bytes (splitLines stripCR dropCR)

/-! ### decomposing a byte string at its first LF -/

theorem first_lf (bs : Bytes) :
    (10 : UInt8) ∉ bs ∨ ∃ l post, bs = l ++ 10 :: post ∧ (10 : UInt8) ∉ l := by
  cases h : indexByte bs 10 with
  | none => exact Or.inl (indexByte_none_iff.mp h)
  | some i => exact Or.inr ⟨bs.take i, bs.drop (i + 1), (indexByte_some_split h).1, (indexByte_some_split h).2⟩

theorem chompCR_eq_stripCR (l : Bytes) : chompCR l = stripCR l := by
  simp only [chompCR, stripCR]
  rcases List.eq_nil_or_concat l with h | ⟨l', a, h⟩
  · subst h; simp [dropCR]
  · subst h
    simp only [List.concat_eq_append, List.getLast?_concat, Option.some.injEq, List.dropLast_concat,
      List.reverse_append, List.reverse_cons, List.reverse_nil, List.nil_append, List.cons_append]
    by_cases ha : a = 13
    · subst ha; simp [dropCR]
    · simp only [ha, ↓reduceIte]
      have : dropCR (a :: l'.reverse) = a :: l'.reverse := by
        unfold dropCR
        split
        · rename_i heq; simp only [List.cons.injEq] at heq; exact absurd heq.1 ha
        · rfl
      rw [this]; simp

/-! ### `lineInput` along the lines -/

theorem splitLines_ne_nil {bs : Bytes} (h : bs ≠ []) : splitLines bs ≠ [] := by
  rcases first_lf bs with hno | ⟨l, post, rfl, hl⟩
  · rw [Biogo.Go.Bytes.splitLines_last bs (fun b hb e => hno (e ▸ hb)) h]; simp
  · rw [Biogo.Go.Bytes.splitLines_line l post (fun b hb e => hl (e ▸ hb))]; simp

theorem lineInput_nil (size : Nat) (wd : Bool) : lineInput size wd [] = ([], []) := by
  simp [lineInput, Biogo.Go.Bytes.splitLines_nil]

theorem lineInput_line (size : Nat) (wd : Bool) (l post : Bytes) (hl : (10 : UInt8) ∉ l) :
    lineInput size wd (l ++ 10 :: post) =
      (stripCR l :: (lineInput size wd post).1, (lineInput size wd post).2) := by
  have hsl := Biogo.Go.Bytes.splitLines_line l post (fun b hb e => hl (e ▸ hb))
  simp only [lineInput, hsl]
  cases wd with
  | true => simp
  | false =>
    simp only [Bool.false_eq_true, ↓reduceIte]
    by_cases hp : post = []
    · subst hp
      simp [Biogo.Go.Bytes.splitLines_nil]
    · have hsp := splitLines_ne_nil hp
      have h1 : (l ++ 10 :: post).getLast? = post.getLast? := by
        have : l ++ 10 :: post = (l ++ [10]) ++ post := by simp
        rw [this, getLast?_append_ne _ hp]
      have h2 : (stripCR l :: splitLines post).getLast? = (splitLines post).getLast? := by
        obtain ⟨x, xs, hx⟩ := List.exists_cons_of_ne_nil hsp
        rw [hx, List.getLast?_cons_cons]
      rw [h1, h2]
      cases hq : post.getLast? with
      | none => exact absurd (List.getLast?_eq_none_iff.mp hq) hp
      | some a =>
        cases hq2 : (splitLines post).getLast? with
        | none => exact absurd (List.getLast?_eq_none_iff.mp hq2) hsp
        | some l' =>
          simp only
          split
          · simp only [Prod.mk.injEq, and_true]
            obtain ⟨x, xs, hx⟩ := List.exists_cons_of_ne_nil hsp
            rw [hx]; rfl
          · rfl

theorem endsPending_eq {size : Nat} {l : Bytes} (hne : l ≠ []) :
    endsPending size l = endsPendingAux size (l.length + 1) l := by
  simp only [endsPending]
  by_cases h : l.length ≥ size
  · simp [h]
  · have h0 : ¬ l.length = 0 := fun h0 => hne (List.eq_nil_of_length_eq_zero h0)
    have hlt : l.length < size := by omega
    simp [h, endsPendingAux, h0, hlt]

theorem lineInput_last (size : Nat) (wd : Bool) (l : Bytes) (hl : (10 : UInt8) ∉ l) (hne : l ≠ []) :
    lineInput size wd l =
      if wd = false ∧ endsPendingAux size (l.length + 1) l = true then ([], l) else ([l], []) := by
  have hsl := Biogo.Go.Bytes.splitLines_last l (fun b hb e => hl (e ▸ hb)) hne
  simp only [lineInput, hsl]
  cases wd with
  | true => simp
  | false =>
    simp only [Bool.false_eq_true, ↓reduceIte, true_and]
    cases hq : l.getLast? with
    | none => exact absurd (List.getLast?_eq_none_iff.mp hq) hne
    | some a =>
      have ha : a ≠ 10 := fun e => hl (List.mem_of_getLast? (e ▸ hq))
      simp only [List.getLast?_singleton, bne_iff_ne, ne_eq, ha, not_false_eq_true, Bool.and_eq_true,
        true_and, endsPending_eq hne, List.dropLast_singleton]

/-! ### the `ReadLine` loop sees `lineInput` -/

theorem allLinesAux_image : ∀ (n : Nat) (bs : Bytes), bs.length = n → ∀ (b : Reader) (fuel : Nat), Inv b →
    b.stream = bs → bs.length < fuel →
    allLinesAux fuel b =
      ((lineInput b.size b.src.withData bs).1, (lineInput b.size b.src.withData bs).2, some b.src.fin) := by
  intro n
  induction n using Nat.strongRecOn with
  | _ n ih =>
    intro bs hn b fuel hinv hst hfuel
    cases fuel with
    | zero => omega
    | succ fuel =>
      rw [allLinesAux, nextLine]
      rcases first_lf bs with hno | ⟨l, post, hbs, hl⟩
      · -- the last, unterminated, line (or nothing)
        obtain ⟨b', h1, h2, h3, h4⟩ := collectLine_last _ bs rfl hno b [] (b.stream.length + 1) (bs.length + 1) hinv hst
          (by rw [hst]; omega) (by omega)
        rw [h1]
        by_cases hnil : bs = []
        · subst hnil
          simp [lineInput_nil]
        · simp only [hnil, false_or, List.nil_append]
          rw [lineInput_last _ _ bs hno hnil]
          by_cases hc : b.src.withData = false ∧ endsPendingAux b.size (bs.length + 1) bs = true
          · simp only [hc, and_self, ↓reduceIte]
          · simp only [hc, ↓reduceIte]
            have hpos : 0 < n := by
              rw [← hn]; exact List.length_pos_iff.mpr hnil
            have := ih 0 hpos [] rfl b' fuel h3 h2 (by simp only [List.length_nil]; omega)
            rw [this, lineInput_nil, h4.2.2.2]
      · -- a terminated line, then the rest
        subst hbs
        obtain ⟨b', h1, h2, h3, h4⟩ := collectLine_terminated _ l rfl hl b [] post (b.stream.length + 1) hinv hst
          (by rw [hst]; simp only [List.length_append, List.length_cons]; omega)
        rw [h1]
        simp only [List.nil_append]
        have hlt : post.length < n := by
          rw [← hn]; simp only [List.length_append, List.length_cons]; omega
        have := ih _ hlt post rfl b' fuel h3 h2
          (by simp only [List.length_append, List.length_cons] at hfuel; omega)
        rw [this, lineInput_line _ _ l post hl, chompCR_eq_stripCR, h4.1, h4.2.2.1, h4.2.2.2]

/-- **The image of a `ReadLine` loop.**  Over any reader in a state between calls, with stream
    `bs`: the complete lines it collects, the fragments pending at the final error, and that
    error, are `lineInput size withData bs` and `fin`. -/
theorem allLines_image (b : Reader) (hinv : Inv b) :
    allLines b = ((lineInput b.size b.src.withData b.stream).1, (lineInput b.size b.src.withData b.stream).2,
      some b.src.fin) :=
  allLinesAux_image _ b.stream rfl b _ hinv rfl (Nat.lt_succ_self _)

/-! ### the `ReadBytes('\n')` loop sees `BytesFeat.lines` -/

open Biogo.BytesFeat (lines) in
theorem lines_line (l post : Bytes) (hl : (10 : UInt8) ∉ l) : lines (l ++ 10 :: post) = (l ++ [10]) :: lines post := by
  induction l with
  | nil => exact Biogo.BytesFeat.lines_nl post
  | cons c l ih =>
    have hc : c ≠ 10 := fun e => hl (by simp [e])
    have hl' : (10 : UInt8) ∉ l := fun h => hl (by simp [h])
    exact Biogo.BytesFeat.lines_cons_cons hc (ih hl')

open Biogo.BytesFeat (lines) in
theorem lines_last (l : Bytes) (hl : (10 : UInt8) ∉ l) (hne : l ≠ []) : lines l = [l] := by
  induction l with
  | nil => exact absurd rfl hne
  | cons c l ih =>
    have hc : c ≠ 10 := fun e => hl (by simp [e])
    have hl' : (10 : UInt8) ∉ l := fun h => hl (by simp [h])
    by_cases hn : l = []
    · subst hn; exact Biogo.BytesFeat.lines_cons_nil hc (by rw [Biogo.BytesFeat.lines])
    · exact Biogo.BytesFeat.lines_cons_cons hc (ih hl' hn)

theorem readBytesCalls_nil (fin : Err) : readBytesCalls fin [] = [([], some fin)] := by
  simp [readBytesCalls, Biogo.BytesFeat.lines]

theorem readBytesCalls_line (fin : Err) (l post : Bytes) (hl : (10 : UInt8) ∉ l) :
    readBytesCalls fin (l ++ 10 :: post) = (l ++ [10], none) :: readBytesCalls fin post := by
  simp only [readBytesCalls, lines_line l post hl, List.map_cons, List.getLast?_concat, ↓reduceIte, List.cons_append]
  congr 2
  by_cases hp : post = []
  · subst hp; simp
  · have : l ++ 10 :: post = (l ++ [10]) ++ post := by simp
    rw [this, getLast?_append_ne _ hp]
    simp [hp]

theorem readBytesCalls_last (fin : Err) (l : Bytes) (hl : (10 : UInt8) ∉ l) (hne : l ≠ []) :
    readBytesCalls fin l = [(l, some fin)] := by
  have h1 : l.getLast? ≠ some 10 := fun h => hl (List.mem_of_getLast? h)
  simp [readBytesCalls, lines_last l hl hne, h1, hne]

theorem allReadBytesAux_image : ∀ (n : Nat) (bs : Bytes), bs.length = n → ∀ (b : Reader) (fuel : Nat), Inv b →
    b.stream = bs → bs.length < fuel → allReadBytesAux fuel b = readBytesCalls b.src.fin bs := by
  intro n
  induction n using Nat.strongRecOn with
  | _ n ih =>
    intro bs hn b fuel hinv hst hfuel
    cases fuel with
    | zero => omega
    | succ fuel =>
      rw [allReadBytesAux]
      rcases first_lf bs with hno | ⟨l, post, hbs, hl⟩
      · obtain ⟨b', h1, h2, h3, h4⟩ := readBytes_last bs hno b hinv hst
        rw [h1]
        by_cases hnil : bs = []
        · subst hnil; simp [readBytesCalls_nil]
        · simp [readBytesCalls_last _ bs hno hnil]
      · subst hbs
        obtain ⟨b', h1, h2, h3, h4⟩ := readBytes_terminated l post hl b hinv hst
        rw [h1]
        simp only
        have hlt : post.length < n := by
          rw [← hn]; simp only [List.length_append, List.length_cons]; omega
        rw [ih _ hlt post rfl b' fuel h3 h2 (by simp only [List.length_append, List.length_cons] at hfuel; omega),
          readBytesCalls_line _ l post hl, h4.2.2.2]

/-- **The image of a `ReadBytes('\n')` loop.** -/
theorem allReadBytes_image (b : Reader) (hinv : Inv b) : allReadBytes b = readBytesCalls b.src.fin b.stream :=
  allReadBytesAux_image _ b.stream rfl b _ hinv rfl (Nat.lt_succ_self _)

/-- the data of the calls the BED and GFF readers go on to process (no error, or the final
    error together with a non-empty unterminated line) are `Biogo.BytesFeat.lines` -/
theorem readBytesCalls_processed (fin : Err) : ∀ (n : Nat) (bs : Bytes), bs.length = n →
    ((readBytesCalls fin bs).filter (fun c => c.2.isNone || !c.1.isEmpty)).map (·.1) = Biogo.BytesFeat.lines bs := by
  intro n
  induction n using Nat.strongRecOn with
  | _ n ih =>
    intro bs hn
    rcases first_lf bs with hno | ⟨l, post, hbs, hl⟩
    · by_cases hnil : bs = []
      · subst hnil; simp [readBytesCalls_nil, Biogo.BytesFeat.lines]
      · simp [readBytesCalls_last _ bs hno hnil, lines_last bs hno hnil, hnil]
    · subst hbs
      have hlt : post.length < n := by
        rw [← hn]; simp only [List.length_append, List.length_cons]; omega
      rw [readBytesCalls_line _ l post hl, lines_line l post hl, ← ih _ hlt post rfl]
      simp

/-! ### at the default buffer size -/

theorem endsPendingAux_default (fuel : Nat) (l : Bytes) :
    endsPendingAux 4096 fuel l = Biogo.Go.Bytes.endsPendingAux fuel l := by
  induction fuel generalizing l with
  | zero => rfl
  | succ f ih =>
    simp only [endsPendingAux, Biogo.Go.Bytes.endsPendingAux, Biogo.Go.Bytes.bufSize, ih]
    rfl

/-- at `bufio.NewReader`'s buffer size `lineInput` is the `readLineInput` of the FASTA/FASTQ models -/
theorem lineInput_default (wd : Bool) (bs : Bytes) :
    lineInput 4096 wd bs = Biogo.Go.Bytes.readLineInput wd bs := by
  simp only [lineInput, Biogo.Go.Bytes.readLineInput, endsPending, Biogo.Go.Bytes.endsPending,
    Biogo.Go.Bytes.bufSize, endsPendingAux_default]
  rfl

/-- what the FASTA reader makes of the `ReadLine` loop after fix `02b768f`: fragments pending at
    `io.EOF` are processed as a line, so it sees `splitLines` -/
theorem lineInput_all_lines (size : Nat) (hs : 0 < size) (wd : Bool) (bs : Bytes) :
    (lineInput size wd bs).1 ++ (if (lineInput size wd bs).2 = [] then [] else [(lineInput size wd bs).2])
      = splitLines bs := by
  simp only [lineInput]
  cases wd with
  | true => simp
  | false =>
    simp only [Bool.false_eq_true, ↓reduceIte]
    cases hq : bs.getLast? with
    | none => simp
    | some a =>
      cases hq2 : (splitLines bs).getLast? with
      | none => simp
      | some l =>
        simp only
        split
        · rename_i hc
          obtain ⟨ys, hys⟩ := List.getLast?_eq_some_iff.mp hq2
          simp only [hys, List.dropLast_concat]
          by_cases hl : l = []
          · subst hl
            simp only [endsPending, List.length_nil, ge_iff_le, Nat.le_zero_eq, Bool.and_eq_true, decide_eq_true_eq] at hc
            omega
          · simp [hl]
        · simp

end Biogo.Go.Bufio
