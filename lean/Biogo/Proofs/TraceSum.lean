/-
The traceback loop of the affine aligners reports scores that telescope: whatever has been
reported so far plus the value of the current cell and layer is the value the traceback
started from, provided some `case` of the switch matches in every inner cell (which each
aligner's recurrence guarantees).  Core only.
-/
import Biogo.Model.AlignAff

namespace Biogo.Proofs.TraceSum
open Biogo.Spec.Alignment Biogo.AlignAff

theorem vadd_eq_some {a : V} {x v : Int} (h : vadd a x = some v) : ∃ w, a = some w ∧ w + x = v := by
  cases a with
  | none => cases h
  | some w => exact ⟨w, rfl, by simpa [vadd] using h⟩

theorem total_cons (p : Pair) (ps : List Pair) : total (p :: ps) = p.score + total ps := by
  simp [total, List.sum_cons]

theorem move_sum (st : TB) (e : Bool) (mv pl : Kind) (v pv : Int) :
    total (st.move e mv pl v pv).aln + (st.move e mv pl v pv).score
      = total st.aln + st.score + (v - pv) := by
  unfold TB.move
  simp only []
  split
  · simp only [TB.emit, total_cons]; omega
  · omega

theorem ite_emit_i (c : Prop) [Decidable c] (st : TB) : (if c then st.emit else st).i = st.i := by
  split <;> rfl

theorem ite_emit_j (c : Prop) [Decidable c] (st : TB) : (if c then st.emit else st).j = st.j := by
  split <;> rfl

theorem move_i (st : TB) (e : Bool) (mv pl : Kind) (v pv : Int) :
    (st.move e mv pl v pv).i = if mv = .l then st.i else st.i - 1 := by
  unfold TB.move
  simp only [ite_emit_i]

theorem move_j (st : TB) (e : Bool) (mv pl : Kind) (v pv : Int) :
    (st.move e mv pl v pv).j = if mv = .u then st.j else st.j - 1 := by
  unfold TB.move
  simp only [ite_emit_j]

theorem move_layer (st : TB) (e : Bool) (mv pl : Kind) (v pv : Int) :
    (st.move e mv pl v pv).layer = pl := by
  unfold TB.move
  simp only []

theorem predOf_eq (T : Table) (i j : Nat) (mv : Kind) :
    predOf T i j mv = T.at (if mv = .l then i else i - 1) (if mv = .u then j else j - 1) := by
  cases mv <;> rfl

/-- the loop invariant: the current layer holds a value, and what has been reported so far
    plus that value is the value the traceback started from -/
def Good (T : Table) (R C : Nat) (B : Int) (st : TB) : Prop :=
  st.i ≤ R ∧ st.j ≤ C ∧ ∃ v, (T.at st.i st.j).get st.layer = some v ∧ total st.aln + st.score + v = B

theorem caseHit_vadd {aware : Bool} {T : Table} {st : TB} {v : Int} {cd : Kind × Kind × Int}
    (h : caseHit aware T st v cd = true) :
    vadd ((predOf T st.i st.j cd.1).get cd.2.1) cd.2.2 = some v := by
  simp only [caseHit, Bool.and_eq_true, beq_iff_eq] at h
  exact h.2

theorem caseHit_layer {T : Table} {st : TB} {v : Int} {cd : Kind × Kind × Int}
    (h : caseHit true T st v cd = true) : cd.1 = st.layer := by
  simp only [caseHit, Bool.and_eq_true, Bool.not_true, Bool.false_or, decide_eq_true_eq] at h
  exact h.1

theorem caseHit_of {aware : Bool} {T : Table} {st : TB} {v : Int} {cd : Kind × Kind × Int}
    (hl : cd.1 = st.layer) (h : vadd ((predOf T st.i st.j cd.1).get cd.2.1) cd.2.2 = some v) :
    caseHit aware T st v cd = true := by
  simp only [caseHit, Bool.and_eq_true, beq_iff_eq, Bool.or_eq_true, decide_eq_true_eq]
  exact ⟨Or.inr hl, h⟩

/-- `H`: in an inner cell some `case` *of the current layer* matches the current value (unless
    the local aligner stops) — so the layer-aware switch finds one as well as the layer-blind -/
theorem loop_good_gen (aware cross sw : Bool) {T : Table} {S : Matrix} {o : Int} {r q : List Nat} (R C : Nat)
    (H : ∀ i j, i < R → j < C → ∀ k v, (T.at (i + 1) (j + 1)).get k = some v → ¬ (sw = true ∧ v = 0) →
      ∃ cd ∈ cands cross sw S o (r.getD i 0) (q.getD j 0), cd.1 = k ∧
        vadd ((predOf T (i + 1) (j + 1) cd.1).get cd.2.1) cd.2.2 = some v)
    (B : Int) :
    ∀ (fuel : Nat) (st : TB), Good T R C B st → st.i + st.j ≤ fuel →
      ∃ st', tbLoop aware cross sw T S o r q R C fuel st = .ok st' ∧ Good T R C B st' ∧
        (st'.i = 0 ∨ st'.j = 0 ∨ (sw = true ∧ (T.at st'.i st'.j).get st'.layer = some 0)) := by
  intro fuel
  induction fuel with
  | zero =>
    intro st hg hf
    exact ⟨st, rfl, hg, Or.inl (by omega)⟩
  | succ fuel ih =>
    intro st hg hf
    unfold tbLoop
    by_cases h0 : st.i = 0 ∨ st.j = 0
    · rw [if_pos h0]
      exact ⟨st, rfl, hg, by rcases h0 with h | h; exact Or.inl h; exact Or.inr (Or.inl h)⟩
    rw [if_neg h0]
    obtain ⟨hi, hj, v, hv, hsum⟩ := hg
    obtain ⟨i', hi'⟩ : ∃ i', st.i = i' + 1 := ⟨st.i - 1, by omega⟩
    obtain ⟨j', hj'⟩ : ∃ j', st.j = j' + 1 := ⟨st.j - 1, by omega⟩
    simp only [hv]
    by_cases hsw : (sw = true ∧ v = 0)
    · rw [if_pos hsw]
      exact ⟨st, rfl, ⟨hi, hj, v, hv, hsum⟩, Or.inr (Or.inr ⟨hsw.1, by rw [hv, hsw.2]⟩)⟩
    rw [if_neg hsw]
    have hx : st.i - 1 = i' := by omega
    have hy : st.j - 1 = j' := by omega
    rw [hx, hy]
    obtain ⟨cd, hmem, hcdk, hcd⟩ := H i' j' (by omega) (by omega) st.layer v (by rw [← hi', ← hj']; exact hv) hsw
    cases hfind : (cands cross sw S o (r.getD i' 0) (q.getD j' 0)).find? (caseHit aware T st v) with
    | none =>
      exfalso
      rw [List.find?_eq_none] at hfind
      apply hfind cd hmem
      apply caseHit_of hcdk
      rw [hi', hj']
      exact hcd
    | some found =>
      obtain ⟨mv, pl, add⟩ := found
      have hp := caseHit_vadd (List.find?_some hfind)
      simp only [] at hp
      obtain ⟨pv, hpv, hadd⟩ := vadd_eq_some hp
      simp only []
      have hvget : vget ((predOf T st.i st.j mv).get pl) = pv := by rw [hpv]; rfl
      rw [hvget]
      apply ih
      · refine ⟨?_, ?_, pv, ?_, ?_⟩
        · rw [move_i]; split <;> omega
        · rw [move_j]; split <;> omega
        · rw [move_i, move_j, move_layer, ← predOf_eq]; exact hpv
        · rw [move_sum]; omega
      · rw [move_i, move_j]
        cases mv <;> simp <;> omega

end Biogo.Proofs.TraceSum
