/-
Stitch (assembled) and Compose of the heap model (core only).
-/
import Biogo.Proofs.SequtilsStitch

set_option linter.unusedSectionVars false

namespace Biogo.Sequtils

variable {α : Type} [Inhabited α]

theorem Keeps.trans {h1 h2 h3 : Heap α} (a : Keeps h1 h2) (b : Keeps h2 h3) : Keeps h1 h3 :=
  ⟨Nat.le_trans a.1 b.1, fun i hi => by rw [b.2 i (Nat.lt_of_lt_of_le hi a.1), a.2 i hi]⟩

/-! ### Stitch -/

theorem stitchSorted_cases (h : Heap α) (src : Seq) (ff : List Feat) (h' : Heap α) (r : Seq)
    (wf : WF h src.sl) (hs : List.Pairwise (fun x y : Feat => x.s ≤ y.s) ff)
    (hr : stitchSorted h src ff = .ok (h', r)) :
    read h' r.sl = lettersAt (read h src.sl) src.offset (stitchPositions src.offset src.stop ff) ∧
    Keeps h h' ∧ h.length ≤ r.sl.arr ∧ r.offset = 0 ∧ r.conf = confLinear := by
  unfold stitchSorted at hr
  dsimp only at hr
  simp only [bind, Except.bind, pure, Except.pure] at hr
  split at hr
  · cases hr
  rename_i x h1t hmk
  obtain ⟨h1, t⟩ := h1t
  dsimp only at hr
  split at hr
  · cases hr
  rename_i y h2t hap
  obtain ⟨h2, t'⟩ := h2t
  simp only [Except.ok.injEq, Prod.mk.injEq] at hr
  obtain ⟨rfl, rfl⟩ := hr
  obtain ⟨_, _, m3, m4, m5, m6, m7, m8, m9, m10⟩ := mk_spec h _ _ h1 t hmk
  obtain ⟨r1, r2, r3, _⟩ := stitchAppend_spec h src wf (mergeFeats ff) h1 t h2 t'
    ⟨by omega, m9⟩ (by omega) m8 hap
  refine ⟨?_, r2, r3, rfl, rfl⟩
  rw [r1, m10, mergeFeats_spec _ _ ff hs]
  simp [stitchPositions]

theorem stitchSorted_ok (h : Heap α) (src : Seq) (ff : List Feat) (wf : WF h src.sl) :
    ∃ x, stitchSorted h src ff = .ok x := by
  unfold stitchSorted
  dsimp only
  simp only [bind, Except.bind, pure, Except.pure]
  rw [mk_eq h 0 _ (by omega) (sum_clip_nonneg _ _ _)]
  dsimp only
  obtain ⟨r, hr⟩ := stitchAppend_ok src.sl src.offset wf.2.2 (mergeFeats ff)
    ((h ++ [List.replicate _ default], { arr := h.length, off := 0, len := (0 : Int).toNat, cap := _ }) : Heap α × Sl)
  rw [hr]
  exact ⟨_, rfl⟩

/-! ### Compose -/

/-- one clipped segment of the source -/
def segOf (xs : List α) (offset : Int) (f : Feat) : List α :=
  lettersAt xs offset (segPositions offset (offset + xs.length) f)

/-- a scratch copy made by the first loop: lives in its own array between `n` and `m`,
    shows the clipped segment of its feature -/
def Good (xs : List α) (offset : Int) (h : Heap α) (n m : Nat) (p : Feat × Sl) : Prop :=
  WF h p.2 ∧ n ≤ p.2.arr ∧ p.2.arr < m ∧ read h p.2 = segOf xs offset p.1

theorem Good.mono {xs : List α} {offset : Int} {h h' : Heap α} {n n' m m' : Nat} {p : Feat × Sl}
    (g : Good xs offset h n m p) (hl : h.length ≤ h'.length) (e : h'.arr p.2.arr = h.arr p.2.arr)
    (hn : n' ≤ n) (hm : m ≤ m') : Good xs offset h' n' m' p :=
  ⟨WF_congr h h' _ hl e g.1, Nat.le_trans hn g.2.1, Nat.lt_of_lt_of_le g.2.2.1 hm,
   by rw [read_congr h h' _ e]; exact g.2.2.2⟩

theorem composeCopy_spec (h0 : Heap α) (src : Seq) (wf : WF h0 src.sl) :
    ∀ (fs : List Feat) (h h2 : Heap α) (ts : List Sl), Keeps h0 h →
      composeCopy src.sl src.offset src.sl.len h fs = .ok (h2, ts) →
      Keeps h h2 ∧ ts.length = fs.length ∧
      (∀ p ∈ fs.zip ts, Good (read h0 src.sl) src.offset h2 h.length h2.length p) ∧
      List.Pairwise (fun p q : Feat × Sl => p.2.arr ≠ q.2.arr) (fs.zip ts) := by
  have hlen := read_length h0 src.sl wf
  intro fs
  induction fs with
  | nil =>
    intro h h2 ts hk hr
    simp only [composeCopy, Except.ok.injEq, Prod.mk.injEq] at hr
    obtain ⟨rfl, rfl⟩ := hr
    exact ⟨Keeps.refl _, rfl, by simp, by simp⟩
  | cons f fs ih =>
    intro h h2 ts hk hr
    unfold composeCopy at hr
    dsimp only at hr
    split at hr
    · cases hr
    rename_i hfe
    split at hr
    · cases hr
    rename_i x h1 t hmk
    obtain ⟨_, _, m3, m4, m5, m6, m7, m8, m9, m10⟩ := mk_spec h _ _ h1 t hmk
    have hk1 : Keeps h h1 := ⟨by omega, m9⟩
    -- the state after the optional copy: `hc`, in which `t` shows the segment
    have main : ∀ (hc : Heap α) (ts' : List Sl), (∀ i, i < h.length → hc.arr i = h.arr i) →
        hc.length = h1.length → WF hc t →
        read hc t = segOf (read h0 src.sl) src.offset f →
        composeCopy src.sl src.offset src.sl.len hc fs = .ok (h2, ts') →
        Keeps h h2 ∧ (t :: ts').length = (f :: fs).length ∧
        (∀ p ∈ (f :: fs).zip (t :: ts'), Good (read h0 src.sl) src.offset h2 h.length h2.length p) ∧
        List.Pairwise (fun p q : Feat × Sl => p.2.arr ≠ q.2.arr) ((f :: fs).zip (t :: ts')) := by
      intro hc ts' hkc' hlc hwt hrt hrec
      have hkc : Keeps h hc := ⟨by omega, hkc'⟩
      obtain ⟨i1, i2, i3, i4⟩ := ih hc h2 ts' (hk.trans hkc) hrec
      have et : h2.arr t.arr = hc.arr t.arr := i1.2 _ (by omega)
      have gt : Good (read h0 src.sl) src.offset h2 h.length h2.length (f, t) :=
        ⟨WF_congr hc h2 t i1.1 et hwt, by dsimp only; omega, by have := i1.1; dsimp only; omega,
         by rw [read_congr hc h2 t et]; exact hrt⟩
      refine ⟨hkc.trans i1, by simp [i2], ?_, ?_⟩
      · intro p hp
        simp only [List.zip_cons_cons, List.mem_cons] at hp
        rcases hp with rfl | hp
        · exact gt
        · exact (i3 p hp).mono (Nat.le_refl _) rfl (by omega) (Nat.le_refl _)
      · simp only [List.zip_cons_cons, List.pairwise_cons]
        refine ⟨?_, i4⟩
        intro p hp
        have := (i3 p hp).2.1
        omega
    split at hr
    · rename_i hpos
      split at hr
      · cases hr
      rename_i x hx
      split at hr
      · cases hr
      rename_i y h2' ts' hrec
      simp only [Except.ok.injEq, Prod.mk.injEq] at hr
      obtain ⟨rfl, rfl⟩ := hr
      have hxa := slice_arr _ _ _ _ hx
      have ex : read h1 x = read h0 x :=
        read_congr h0 h1 x (by rw [hxa, m9 _ (by have := hk.1; have := wf.1; omega)]; exact hk.2 _ wf.1)
      have rx : read h1 x = segOf (read h0 src.sl) src.offset f := by
        rw [ex, read_slice h0 src.sl _ _ x hx (by omega)]
        unfold segOf segPositions
        rw [lettersAt_intRange _ _ _ _ (by omega) (by omega)]
        congr 1
        · congr 1; omega
        · congr 1; omega
      have lx : (read h1 x).length = t.len := by
        rw [ex, read_slice h0 src.sl _ _ x hx (by omega), List.length_take, List.length_drop, hlen, m6]
        omega
      exact main (copy h1 t x) ts'
        (fun i hi => by rw [copy_other h1 t x i (by omega)]; exact m9 i hi)
        (copy_length _ _ _) (copy_wf h1 t x m8 lx) (by rw [copy_read h1 t x m8 lx]; exact rx) hrec
    · rename_i hnpos
      split at hr
      · cases hr
      rename_i y h2' ts' hrec
      simp only [Except.ok.injEq, Prod.mk.injEq] at hr
      obtain ⟨rfl, rfl⟩ := hr
      refine main h1 ts' m9 rfl m8 ?_ hrec
      rw [m10]
      unfold segOf segPositions
      rw [intRange_empty _ _ (by omega)]
      have : (max 0 (min f.e (↑src.sl.len + src.offset) - max f.s src.offset)).toNat = 0 := by omega
      rw [this]; rfl

/-- the first loop cannot panic: it fails only for a feature with `e < s` -/
theorem composeCopy_ok (sl : Sl) (offset : Int) (hcap : sl.len ≤ sl.cap) :
    ∀ (fs : List Feat) (h : Heap α), (∀ f ∈ fs, f.s ≤ f.e) →
      ∃ r, composeCopy sl offset sl.len h fs = .ok r := by
  intro fs
  induction fs with
  | nil => intro h _; exact ⟨_, rfl⟩
  | cons f fs ih =>
    intro h hwf
    have hf := hwf f (by simp)
    unfold composeCopy
    dsimp only
    rw [if_neg (by omega), mk_eq h _ _ (by omega) (by omega)]
    dsimp only
    split
    · rw [slice_eq sl _ _ (by omega) (by omega) (by omega)]
      dsimp only
      obtain ⟨r, hr⟩ := ih (copy (h ++ [List.replicate _ default]) _ _) (fun g hg => hwf g (by simp [hg]))
      rw [hr]
      exact ⟨_, rfl⟩
    · obtain ⟨r, hr⟩ := ih (h ++ [List.replicate _ default]) (fun g hg => hwf g (by simp [hg]))
      rw [hr]
      exact ⟨_, rfl⟩

/-- the second loop -/
theorem composeAppend_spec (xs : List α) (offset : Int) (h0 : Heap α) (rev : Option (α → α)) (n m : Nat)
    (hn : h0.length ≤ n) (hm : h0.length ≤ m) :
    ∀ (pairs : List (Feat × Sl)) (h : Heap α) (c : Sl) (h' : Heap α) (c' : Sl),
      Keeps h0 h → m ≤ h.length → (∀ p ∈ pairs, Good xs offset h n m p) →
      List.Pairwise (fun p q : Feat × Sl => p.2.arr ≠ q.2.arr) pairs →
      m ≤ c.arr → WF h c →
      composeAppend rev (h, c) pairs = .ok (h', c') →
      read h' c' = read h c ++ pairs.flatMap (fun p =>
          if p.1.o = orientReverse then revComp (rev.getD id) (segOf xs offset p.1) else segOf xs offset p.1) ∧
      Keeps h0 h' ∧ m ≤ c'.arr := by
  intro pairs
  induction pairs with
  | nil =>
    intro h c h' c' hk _ _ _ hc _ hr
    simp only [composeAppend, Except.ok.injEq, Prod.mk.injEq] at hr
    obtain ⟨rfl, rfl⟩ := hr
    simp [hk, hc]
  | cons p rest ih =>
    intro h c h' c' hk hmh hg hd hc hw hr
    obtain ⟨f, t⟩ := p
    have gp := hg (f, t) (by simp)
    rw [List.pairwise_cons] at hd
    -- appending `t` (whose window shows `seg`) to `c` in a heap `hx` that agrees with `h` off `t.arr`
    have step : ∀ (hx : Heap α) (seg : List α), hx.length = h.length →
        (∀ i, i ≠ t.arr → hx.arr i = h.arr i) → WF hx t → read hx t = seg →
        composeAppend rev (append hx c t) rest = .ok (h', c') →
        read h' c' = read h c ++ (seg ++ rest.flatMap (fun p =>
          if p.1.o = orientReverse then revComp (rev.getD id) (segOf xs offset p.1) else segOf xs offset p.1)) ∧
        Keeps h0 h' ∧ m ≤ c'.arr := by
      intro hx seg hlx hox hwt hrt hrec
      have hct : c.arr ≠ t.arr := by have := gp.2.2.1; dsimp only at this; omega
      have hwc : WF hx c := WF_congr h hx c (by omega) (hox _ hct) hw
      have hkx : Keeps h0 hx := ⟨by have := hk.1; omega, fun i hi => by
        rw [hox i (by have := gp.2.1; dsimp only at this; omega)]; exact hk.2 i hi⟩
      have hk2 : Keeps h0 (append hx c t).1 := by
        refine ⟨?_, ?_⟩
        · have := append_length hx c t; have := hkx.1; omega
        · intro i hi
          rw [append_other hx c t i (by have := hkx.1; omega) (by omega)]
          exact hkx.2 i hi
      have hc2 : m ≤ (append hx c t).2.arr := by
        rcases append_arr hx c t with e1 | e1 <;> rw [e1]
        · exact hc
        · omega
      have hg2 : ∀ q ∈ rest, Good xs offset (append hx c t).1 n m q := by
        intro q hq
        have gq := hg q (by simp [hq])
        have hne : q.2.arr ≠ t.arr := fun e => hd.1 q hq e.symm
        have e1 : (append hx c t).1.arr q.2.arr = h.arr q.2.arr := by
          rw [append_other hx c t _ (by have := gq.1.1; omega) (by have := gq.2.2.1; omega)]
          exact hox _ hne
        exact gq.mono (by have := append_length hx c t; omega) e1 (Nat.le_refl _) (Nat.le_refl _)
      obtain ⟨r1, r2, r3⟩ := ih (append hx c t).1 (append hx c t).2 h' c' hk2
        (by have := append_length hx c t; omega) hg2 hd.2 hc2
        (append_wf hx c t hwc) hrec
      refine ⟨?_, r2, r3⟩
      rw [r1, append_read hx c t hwc, hrt, read_congr h hx c (hox _ hct), List.append_assoc]
    unfold composeAppend at hr
    split at hr
    · rename_i hrev
      cases rev with
      | none => cases hr
      | some rc =>
        dsimp only at hr
        have := step (revInPlace rc h t) (revComp rc (segOf xs offset f)) (revInPlace_length _ _ _)
          (fun i hi => revInPlace_other rc h t i hi) (revInPlace_wf rc h t gp.1)
          (by rw [revInPlace_read rc h t gp.1, gp.2.2.2]) hr
        simpa [List.flatMap_cons, hrev] using this
    · rename_i hrev
      have := step h (segOf xs offset f) rfl (fun _ _ => rfl) gp.1 gp.2.2.2 hr
      simpa [List.flatMap_cons, hrev] using this

theorem flatMap_zip_fst {β γ δ : Type} (f : β → List δ) : ∀ (l : List β) (l' : List γ), l'.length = l.length →
    (l.zip l').flatMap (fun p => f p.1) = l.flatMap f := by
  intro l
  induction l with
  | nil => intro l' _; simp
  | cons x l ih =>
    intro l' hl
    cases l' with
    | nil => simp at hl
    | cons y l' =>
      simp only [List.zip_cons_cons, List.flatMap_cons]
      rw [ih l' (by simpa using hl)]

theorem compose_cases (rev : Option (α → α)) (h : Heap α) (src : Seq) (fs : List Feat) (h' : Heap α) (r : Seq)
    (wf : WF h src.sl) (hr : compose rev h src fs = .ok (h', r)) :
    read h' r.sl = composeSpec (rev.getD id) (read h src.sl) src.offset fs ∧
    Keeps h h' ∧ h.length ≤ r.sl.arr ∧ r.offset = 0 ∧ r.conf = confLinear := by
  unfold compose at hr
  dsimp only at hr
  simp only [bind, Except.bind, pure, Except.pure] at hr
  split at hr
  · cases hr
  rename_i x h1ts hcp
  obtain ⟨h1, ts⟩ := h1ts
  dsimp only at hr
  split at hr
  · cases hr
  rename_i y h2c hmk
  obtain ⟨h2, c⟩ := h2c
  dsimp only at hr
  split at hr
  · cases hr
  rename_i z h3c hap
  obtain ⟨h3, c'⟩ := h3c
  simp only [Except.ok.injEq, Prod.mk.injEq] at hr
  obtain ⟨rfl, rfl⟩ := hr
  obtain ⟨c1, c2, c3, c4⟩ := composeCopy_spec h src wf fs h h1 ts (Keeps.refl _) hcp
  obtain ⟨_, _, m3, m4, m5, m6, m7, m8, m9, m10⟩ := mk_spec h1 _ _ h2 c hmk
  have hk2 : Keeps h h2 := c1.trans ⟨by omega, m9⟩
  have hg : ∀ p ∈ fs.zip ts, Good (read h src.sl) src.offset h2 h.length h1.length p := by
    intro p hp
    have g := c3 p hp
    exact g.mono (by omega) (m9 _ g.2.2.1) (Nat.le_refl _) (Nat.le_refl _)
  obtain ⟨r1, r2, r3⟩ := composeAppend_spec (read h src.sl) src.offset h rev h.length h1.length (Nat.le_refl _)
    c1.1 (fs.zip ts) h2 c h3 c' hk2 (by omega) hg c4 (by omega) m8 hap
  refine ⟨?_, r2, (by have := c1.1; show h.length ≤ c'.arr; omega), rfl, rfl⟩
  rw [r1, m10]
  simp only [Int.toNat_zero, List.replicate_zero, List.nil_append]
  rw [flatMap_zip_fst (fun f => if f.o = orientReverse then revComp (rev.getD id) (segOf (read h src.sl) src.offset f)
      else segOf (read h src.sl) src.offset f) fs ts c2]
  rfl

/-- the second loop fails only for a reverse feature on a source that cannot reverse -/
theorem composeAppend_ok (rev : Option (α → α)) :
    ∀ (pairs : List (Feat × Sl)) (st : Heap α × Sl),
      (rev.isSome ∨ ∀ p ∈ pairs, p.1.o ≠ orientReverse) → ∃ r, composeAppend rev st pairs = .ok r := by
  intro pairs
  induction pairs with
  | nil => intro st _; exact ⟨st, by simp [composeAppend]⟩
  | cons p rest ih =>
    intro st hrev
    obtain ⟨h, c⟩ := st
    obtain ⟨f, t⟩ := p
    have hrest : rev.isSome ∨ ∀ p ∈ rest, p.1.o ≠ orientReverse := by
      rcases hrev with a | b
      · exact Or.inl a
      · exact Or.inr (fun q hq => b q (by simp [hq]))
    unfold composeAppend
    split
    · rename_i hr
      cases rev with
      | none =>
        rcases hrev with a | b
        · cases a
        · exact absurd hr (b (f, t) (by simp))
      | some rc => exact ih _ hrest
    · exact ih _ hrest

theorem sum_len_nonneg (ts : List Sl) : 0 ≤ (ts.map fun (t : Sl) => (t.len : Int)).sum := by
  induction ts with
  | nil => simp
  | cons t ts ih => simp only [List.map_cons, List.sum_cons]; omega

theorem mem_zip_fst {β γ : Type} : ∀ (l : List β) (l' : List γ) (p : β × γ), p ∈ l.zip l' → p.1 ∈ l := by
  intro l l' p hp
  exact (List.of_mem_zip hp).1

/-- Compose never panics: it answers for well-formed features unless a reverse feature meets
    a source that cannot reverse -/
theorem compose_ok (rev : Option (α → α)) (h : Heap α) (src : Seq) (fs : List Feat) (wf : WF h src.sl)
    (hfs : ∀ f ∈ fs, f.s ≤ f.e) (hrev : rev.isSome ∨ ∀ f ∈ fs, f.o ≠ orientReverse) :
    ∃ x, compose rev h src fs = .ok x := by
  unfold compose
  dsimp only
  simp only [bind, Except.bind, pure, Except.pure]
  obtain ⟨⟨h1, ts⟩, hcp⟩ := composeCopy_ok src.sl src.offset wf.2.2 fs h hfs
  rw [hcp]
  dsimp only
  rw [mk_eq h1 0 _ (by omega) (sum_len_nonneg ts)]
  dsimp only
  obtain ⟨r, hr⟩ := composeAppend_ok rev (fs.zip ts)
    ((h1 ++ [List.replicate _ default], { arr := h1.length, off := 0, len := (0 : Int).toNat, cap := _ }) : Heap α × Sl)
    (by
      rcases hrev with a | b
      · exact Or.inl a
      · exact Or.inr (fun p hp => b p.1 (mem_zip_fst fs ts p hp)))
  rw [hr]
  exact ⟨_, rfl⟩

end Biogo.Sequtils
