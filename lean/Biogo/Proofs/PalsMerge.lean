/-
Proofs about the merger model `Biogo.PalsMerge` (C15, part merge).  Core Lean only.

`walk_spec` is the loop invariant of `MergeFilterHit`: on an active list that is ascending in the
diagonals with more than `diagonalPadding` between neighbours, whose trapezoids are at least
`binWidth` wide and start at or below the new hit's `From` (the sorted-input assumption), one
call keeps those three facts, only enlarges trapezoids, and leaves the new hit inside one of them.
-/
import Biogo.Model.PalsMerge

namespace Biogo.Proofs.PalsMerge
open Biogo.PalsMerge

/-- `t` lies inside `t'` -/
def Sub (t t' : Trap) : Prop :=
  t'.left ≤ t.left ∧ t.right ≤ t'.right ∧ t'.bottom ≤ t.bottom ∧ t.top ≤ t'.top

theorem Sub.refl (t : Trap) : Sub t t := ⟨Int.le_refl _, Int.le_refl _, Int.le_refl _, Int.le_refl _⟩

theorem Sub.trans {a b d : Trap} (h1 : Sub a b) (h2 : Sub b d) : Sub a d := by
  unfold Sub at *; omega

/-- the band `[L, L + binWidth]` and the query interval `[B, T]` of a hit lie inside `t` -/
def Holds (c : Cfg) (t : Trap) (L T B : Int) : Prop :=
  t.left ≤ L ∧ L + c.binWidth ≤ t.right ∧ t.bottom ≤ B ∧ T ≤ t.top

theorem Holds.mono {c : Cfg} {t t' : Trap} {L T B : Int} (h : Holds c t L T B) (s : Sub t t') :
    Holds c t' L T B := by
  unfold Holds Sub at *; omega

/-- neighbours are more than `diagonalPadding` apart -/
def Gap (x y : Trap) : Prop := x.right + 2 < y.left

/-- the invariant of the active list while hits with `From ≥ B` are still to come -/
structure Good (c : Cfg) (B : Int) (l : List Trap) : Prop where
  chain : l.Pairwise Gap
  wide : ∀ t ∈ l, t.left + c.binWidth ≤ t.right
  low : ∀ t ∈ l, t.bottom ≤ B

theorem Good.nil (c : Cfg) (B : Int) : Good c B [] :=
  ⟨List.Pairwise.nil, by simp, by simp⟩

theorem Good.mono {c : Cfg} {B B' : Int} {l : List Trap} (h : Good c B l) (hb : B ≤ B') : Good c B' l :=
  ⟨h.chain, h.wide, fun t ht => Int.le_trans (h.low t ht) hb⟩

/-- everything in `old` lies inside something in `new` -/
def Covers (old new : List Trap) : Prop := ∀ t ∈ old, ∃ t' ∈ new, Sub t t'

theorem Covers.refl (l : List Trap) : Covers l l := fun t ht => ⟨t, ht, Sub.refl t⟩

theorem Covers.trans {a b d : List Trap} (h1 : Covers a b) (h2 : Covers b d) : Covers a d := by
  intro t ht
  obtain ⟨t', ht', s⟩ := h1 t ht
  obtain ⟨t'', ht'', s'⟩ := h2 t' ht'
  exact ⟨t'', ht'', s.trans s'⟩

theorem Covers.of_subset {a b : List Trap} (h : ∀ t ∈ a, t ∈ b) : Covers a b :=
  fun t ht => ⟨t, h t ht, Sub.refl t⟩

section walk
variable (c : Cfg) (L T B : Int)

theorem widen_sub (base : Trap) : Sub base (widen c L T base) := by
  unfold Sub widen
  dsimp only
  refine ⟨?_, ?_, Int.le_refl _, ?_⟩ <;> split <;> omega

theorem widen_holds (base : Trap) (hlow : base.bottom ≤ B) : Holds c (widen c L T base) L T B := by
  unfold Holds widen
  dsimp only
  refine ⟨?_, ?_, hlow, ?_⟩ <;> split <;> omega

theorem widen_left (base : Trap) : (widen c L T base).left = min base.left L := by
  unfold widen; dsimp only; split <;> omega

theorem widen_right (base : Trap) : (widen c L T base).right = max base.right (L + c.binWidth) := by
  unfold widen; dsimp only; split <;> omega

theorem widen_bottom (base : Trap) : (widen c L T base).bottom = base.bottom := rfl

theorem absorb_left (x y : Trap) : (absorb x y).left = x.left := rfl
theorem absorb_right (x y : Trap) : (absorb x y).right = y.right := rfl
theorem absorb_bottom (x y : Trap) : (absorb x y).bottom = min x.bottom y.bottom := by
  unfold absorb; dsimp only; split <;> omega
theorem absorb_top (x y : Trap) : (absorb x y).top = max x.top y.top := by
  unfold absorb; dsimp only; split <;> omega

theorem absorb_sub_left (x y : Trap) (h : x.right ≤ y.right) : Sub x (absorb x y) := by
  unfold Sub; rw [absorb_left, absorb_right, absorb_bottom, absorb_top]; omega

theorem absorb_sub_right (x y : Trap) (h : x.left ≤ y.left) : Sub y (absorb x y) := by
  unfold Sub; rw [absorb_left, absorb_right, absorb_bottom, absorb_top]; omega

end walk

/-! ### splitting and splicing the invariant -/

theorem Good.append_iff {c : Cfg} {B : Int} {p r : List Trap} :
    Good c B (p ++ r) ↔ Good c B p ∧ Good c B r ∧ ∀ a ∈ p, ∀ b ∈ r, Gap a b := by
  constructor
  · intro h
    have hc := List.pairwise_append.mp h.chain
    exact ⟨⟨hc.1, fun t ht => h.wide t (List.mem_append_left _ ht), fun t ht => h.low t (List.mem_append_left _ ht)⟩,
           ⟨hc.2.1, fun t ht => h.wide t (List.mem_append_right _ ht), fun t ht => h.low t (List.mem_append_right _ ht)⟩,
           hc.2.2⟩
  · rintro ⟨hp, hr, hx⟩
    refine ⟨List.pairwise_append.mpr ⟨hp.chain, hr.chain, hx⟩, ?_, ?_⟩
    · intro t ht
      rcases List.mem_append.mp ht with h | h
      · exact hp.wide t h
      · exact hr.wide t h
    · intro t ht
      rcases List.mem_append.mp ht with h | h
      · exact hp.low t h
      · exact hr.low t h

theorem Good.cons_iff {c : Cfg} {B : Int} {x : Trap} {r : List Trap} :
    Good c B (x :: r) ↔ (x.left + c.binWidth ≤ x.right ∧ x.bottom ≤ B) ∧ Good c B r ∧ ∀ b ∈ r, Gap x b := by
  constructor
  · intro h
    have hc := List.pairwise_cons.mp h.chain
    exact ⟨⟨h.wide x (List.mem_cons_self), h.low x (List.mem_cons_self)⟩,
           ⟨hc.2, fun t ht => h.wide t (List.mem_cons_of_mem _ ht), fun t ht => h.low t (List.mem_cons_of_mem _ ht)⟩,
           hc.1⟩
  · rintro ⟨⟨hw, hl⟩, hr, hx⟩
    refine ⟨List.pairwise_cons.mpr ⟨hx, hr.chain⟩, ?_, ?_⟩
    · intro t ht
      rcases List.mem_cons.mp ht with h | h
      · subst h; exact hw
      · exact hr.wide t h
    · intro t ht
      rcases List.mem_cons.mp ht with h | h
      · subst h; exact hl
      · exact hr.low t h

/-! ### the loop of `MergeFilterHit` -/

theorem fresh_holds (c : Cfg) (L T B : Int) : Holds c (fresh c L T B) L T B := by
  unfold Holds fresh; dsimp only; omega

theorem walk_spec (c : Cfg) (hbw : 0 ≤ c.binWidth) (L T B : Int) :
    ∀ (rest pre done : List Trap) (s' : St),
      Good c B (pre.reverse ++ rest) → (∀ x ∈ pre, x.right + 2 < L) →
      walk c L T B pre rest done = some s' →
      Good c B s'.active ∧ Covers (pre.reverse ++ rest ++ done) (s'.active ++ s'.done) ∧
      ∃ t' ∈ s'.active, Holds c t' L T B := by
  intro rest
  induction rest with
  | nil =>
    intro pre done s' hg hpre hw
    simp only [walk, Option.some.injEq] at hw
    subst hw
    simp only [List.append_nil] at hg
    refine ⟨?_, ?_, fresh c L T B, by simp, fresh_holds c L T B⟩
    · refine Good.append_iff.mpr ⟨hg, Good.cons_iff.mpr ⟨⟨?_, ?_⟩, Good.nil c B, by simp⟩, ?_⟩
      · simp [fresh]
      · simp [fresh]
      · intro a ha b hb
        simp only [List.mem_singleton] at hb
        subst hb
        have := hpre a (List.mem_reverse.mp ha)
        simp only [Gap, fresh]; omega
    · apply Covers.of_subset
      intro t ht
      simp only [List.append_nil, List.mem_append, List.mem_singleton] at ht ⊢
      rcases ht with h | h
      · exact Or.inl (Or.inl h)
      · exact Or.inr h
  | cons base temp ih =>
    intro pre done s' hg hpre hw
    obtain ⟨gp, gr, gx⟩ := Good.append_iff.mp hg
    obtain ⟨⟨bw, bl⟩, gt, gbt⟩ := Good.cons_iff.mp gr
    unfold walk at hw
    split at hw
    · -- the trapezoid is finished: moved to the done list
      have hg' : Good c B (pre.reverse ++ temp) :=
        Good.append_iff.mpr ⟨gp, gt, fun a ha b hb => gx a ha b (List.mem_cons_of_mem _ hb)⟩
      obtain ⟨g1, cv, hh⟩ := ih pre (base :: done) s' hg' hpre hw
      refine ⟨g1, Covers.trans (Covers.of_subset ?_) cv, hh⟩
      intro t ht
      simp only [List.mem_append, List.mem_cons] at ht ⊢
      rcases ht with (h | h | h) | h
      · exact Or.inl (Or.inl h)
      · exact Or.inr (Or.inl h)
      · exact Or.inl (Or.inr h)
      · exact Or.inr (Or.inr h)
    · split at hw
      · -- left of the hit: becomes `free`
        rename_i h2
        have e : (base :: pre).reverse ++ temp = pre.reverse ++ base :: temp := by simp
        have hpre' : ∀ x ∈ base :: pre, x.right + 2 < L := by
          intro x hx
          rcases List.mem_cons.mp hx with h | h
          · subst h; simp only [diagonalPadding] at h2; omega
          · exact hpre x h
        obtain ⟨g1, cv, hh⟩ := ih (base :: pre) done s' (by rw [e]; exact hg) hpre' hw
        rw [e] at cv
        exact ⟨g1, cv, hh⟩
      · rename_i h1 h2
        simp only [diagonalPadding] at h2
        split at hw
        · -- the hit is merged into `base`
          rename_i h3
          have hbL : ∀ a ∈ pre.reverse, a.right + 2 < (widen c L T base).left := by
            intro a ha
            have q1 := hpre a (List.mem_reverse.mp ha)
            have q2 := gx a ha base List.mem_cons_self
            rw [widen_left]; simp only [Gap] at q2; omega
          have hwl := widen_left c L T base
          have hwr := widen_right c L T base
          have hwb := widen_bottom c L T base
          -- the `free` branch cannot be taken
          have viaTemp : bridge c (widen c L T base) pre temp done = some s' := by
            cases pre with
            | nil => exact hw
            | cons free pre' =>
              simp only at hw
              split at hw
              · rename_i hf
                have := hbL free (by simp)
                simp only [diagonalPadding] at hf
                omega
              · exact hw
          clear hw
          unfold bridge at viaTemp
          cases temp with
          | nil =>
            simp only at viaTemp
            split at viaTemp
            · cases viaTemp
            · simp only [Option.some.injEq] at viaTemp
              subst viaTemp
              refine ⟨?_, ?_, widen c L T base, by simp, widen_holds c L T B base bl⟩
              · refine Good.append_iff.mpr ⟨gp, Good.cons_iff.mpr ⟨⟨by omega, by omega⟩, Good.nil c B, by simp⟩, ?_⟩
                intro a ha b hb
                simp only [List.mem_singleton] at hb
                subst hb
                exact hbL a ha
              · intro t ht
                simp only [List.mem_append, List.mem_cons, List.not_mem_nil, or_false] at ht ⊢
                rcases ht with (h | h) | h
                · exact ⟨t, Or.inl (Or.inl h), Sub.refl t⟩
                · subst h; exact ⟨_, Or.inl (Or.inr rfl), widen_sub c L T t⟩
                · exact ⟨t, Or.inr h, Sub.refl t⟩
          | cons t tt =>
            obtain ⟨⟨tw, tl⟩, gtt, gttt⟩ := Good.cons_iff.mp gt
            have gbt1 := gbt t List.mem_cons_self
            simp only [Gap] at gbt1
            simp only at viaTemp
            split at viaTemp
            · -- bridge: `temp` is absorbed
              simp only [Option.some.injEq] at viaTemp
              subst viaTemp
              have hr : (widen c L T base).right ≤ t.right := by omega
              have hl : (widen c L T base).left ≤ t.left := by omega
              refine ⟨?_, ?_, absorb (widen c L T base) t, by simp,
                      (widen_holds c L T B base bl).mono (absorb_sub_left _ _ hr)⟩
              · refine Good.append_iff.mpr ⟨gp, Good.cons_iff.mpr ⟨⟨?_, ?_⟩, gtt, ?_⟩, ?_⟩
                · rw [absorb_left, absorb_right]; omega
                · rw [absorb_bottom]; omega
                · intro b hb
                  have := gttt b hb
                  simp only [Gap, absorb_right] at this ⊢
                  exact this
                · intro a ha b hb
                  rcases List.mem_cons.mp hb with h | h
                  · subst h
                    simp only [Gap, absorb_left]
                    exact hbL a ha
                  · exact gx a ha b (List.mem_cons_of_mem _ (List.mem_cons_of_mem _ h))
              · intro x hx
                simp only [List.mem_append, List.mem_cons] at hx ⊢
                rcases hx with (h | h | h | h) | h
                · exact ⟨x, Or.inl (Or.inl h), Sub.refl x⟩
                · subst h
                  exact ⟨_, Or.inl (Or.inr (Or.inl rfl)), (widen_sub c L T x).trans (absorb_sub_left _ _ hr)⟩
                · subst h
                  exact ⟨_, Or.inl (Or.inr (Or.inl rfl)), absorb_sub_right _ _ hl⟩
                · exact ⟨x, Or.inl (Or.inr (Or.inr h)), Sub.refl x⟩
                · exact ⟨x, Or.inr h, Sub.refl x⟩
            · rename_i h4
              simp only [diagonalPadding] at h4
              simp only [Option.some.injEq] at viaTemp
              subst viaTemp
              refine ⟨?_, ?_, widen c L T base, by simp, widen_holds c L T B base bl⟩
              · refine Good.append_iff.mpr ⟨gp, Good.cons_iff.mpr ⟨⟨by omega, by omega⟩, gt, ?_⟩, ?_⟩
                · intro b hb
                  rcases List.mem_cons.mp hb with h | h
                  · subst h; simp only [Gap]; omega
                  · have := gttt b h
                    simp only [Gap] at this ⊢
                    omega
                · intro a ha b hb
                  rcases List.mem_cons.mp hb with h | h
                  · subst h
                    simp only [Gap]
                    exact hbL a ha
                  · exact gx a ha b (List.mem_cons_of_mem _ h)
              · intro x hx
                simp only [List.mem_append, List.mem_cons] at hx ⊢
                rcases hx with (h | h | h | h) | h
                · exact ⟨x, Or.inl (Or.inl h), Sub.refl x⟩
                · subst h
                  exact ⟨_, Or.inl (Or.inr (Or.inl rfl)), widen_sub c L T x⟩
                · exact ⟨x, Or.inl (Or.inr (Or.inr (Or.inl h))), Sub.refl x⟩
                · exact ⟨x, Or.inl (Or.inr (Or.inr (Or.inr h))), Sub.refl x⟩
                · exact ⟨x, Or.inr h, Sub.refl x⟩
        · -- a new trapezoid is linked in before `base`
          rename_i h3
          simp only [Option.some.injEq] at hw
          subst hw
          simp only [Cfg.leftPadding, diagonalPadding] at h3
          refine ⟨?_, ?_, fresh c L T B, by simp, fresh_holds c L T B⟩
          · refine Good.append_iff.mpr ⟨gp, Good.cons_iff.mpr ⟨⟨by simp [fresh], by simp [fresh]⟩, gr, ?_⟩, ?_⟩
            · intro b hb
              rcases List.mem_cons.mp hb with h | h
              · subst h; simp only [Gap, fresh]; omega
              · have := gbt b h
                simp only [Gap, fresh] at this ⊢
                omega
            · intro a ha b hb
              rcases List.mem_cons.mp hb with h | h
              · subst h
                have := hpre a (List.mem_reverse.mp ha)
                simp only [Gap, fresh]; omega
              · exact gx a ha b h
          · apply Covers.of_subset
            intro x hx
            simp only [List.mem_append, List.mem_cons] at hx ⊢
            rcases hx with (h | h | h) | h
            · exact Or.inl (Or.inl h)
            · exact Or.inl (Or.inr (Or.inr (Or.inl h)))
            · exact Or.inl (Or.inr (Or.inr (Or.inr h)))
            · exact Or.inr h

/-- the finished list only gains trapezoids that were active -/
theorem walk_done (c : Cfg) (L T B : Int) :
    ∀ (rest pre done : List Trap) (s' : St), walk c L T B pre rest done = some s' →
      ∀ t ∈ s'.done, t ∈ done ∨ t ∈ rest := by
  intro rest
  induction rest with
  | nil =>
    intro pre done s' hw t ht
    simp only [walk, Option.some.injEq] at hw
    subst hw
    exact Or.inl ht
  | cons base temp ih =>
    intro pre done s' hw t ht
    unfold walk at hw
    split at hw
    · rcases ih pre (base :: done) s' hw t ht with h | h
      · rcases List.mem_cons.mp h with h | h
        · subst h; exact Or.inr List.mem_cons_self
        · exact Or.inl h
      · exact Or.inr (List.mem_cons_of_mem _ h)
    · split at hw
      · rcases ih (base :: pre) done s' hw t ht with h | h
        · exact Or.inl h
        · exact Or.inr (List.mem_cons_of_mem _ h)
      · split at hw
        · have hb : ∀ b, bridge c b pre temp done = some s' → t ∈ done := by
            intro b hb
            unfold bridge at hb
            split at hb
            · split at hb
              · cases hb
              · cases hb; exact ht
            · split at hb <;> (cases hb; exact ht)
          cases pre with
          | nil => exact Or.inl (hb _ hw)
          | cons free pre' =>
            simp only at hw
            split at hw
            · cases hw; exact Or.inl ht
            · exact Or.inl (hb _ hw)
        · cases hw; exact Or.inl ht

/-- a predicate that holds of the new hit's own trapezoid and is kept by `widen` and `absorb`
    is kept by the loop -/
theorem walk_forall (c : Cfg) (L T B : Int) (P : Trap → Prop) (hf : P (fresh c L T B))
    (hwid : ∀ t, P t → P (widen c L T t)) (hab : ∀ x y, P x → P y → P (absorb x y)) :
    ∀ (rest pre done : List Trap) (s' : St), (∀ t ∈ pre, P t) → (∀ t ∈ rest, P t) → (∀ t ∈ done, P t) →
      walk c L T B pre rest done = some s' → (∀ t ∈ s'.active, P t) ∧ (∀ t ∈ s'.done, P t) := by
  intro rest
  induction rest with
  | nil =>
    intro pre done s' hp _ hd hw
    simp only [walk, Option.some.injEq] at hw
    subst hw
    refine ⟨?_, hd⟩
    intro t ht
    simp only [List.mem_append, List.mem_reverse, List.mem_singleton] at ht
    rcases ht with h | h
    · exact hp t h
    · subst h; exact hf
  | cons base temp ih =>
    intro pre done s' hp hr hd hw
    have hbase := hr base List.mem_cons_self
    have htemp : ∀ t ∈ temp, P t := fun t ht => hr t (List.mem_cons_of_mem _ ht)
    unfold walk at hw
    split at hw
    · refine ih pre (base :: done) s' hp htemp ?_ hw
      intro t ht
      rcases List.mem_cons.mp ht with h | h
      · subst h; exact hbase
      · exact hd t h
    · split at hw
      · refine ih (base :: pre) done s' ?_ htemp hd hw
        intro t ht
        rcases List.mem_cons.mp ht with h | h
        · subst h; exact hbase
        · exact hp t h
      · split at hw
        · have hb : ∀ pre, (∀ t ∈ pre, P t) → bridge c (widen c L T base) pre temp done = some s' →
              (∀ t ∈ s'.active, P t) ∧ (∀ t ∈ s'.done, P t) := by
            intro pre hp hb
            unfold bridge at hb
            split at hb
            · split at hb
              · cases hb
              · cases hb
                refine ⟨?_, hd⟩
                intro t ht
                simp only [List.mem_append, List.mem_reverse, List.mem_singleton] at ht
                rcases ht with h | h
                · exact hp t h
                · subst h; exact hwid _ hbase
            · rename_i t tt
              split at hb
              · cases hb
                refine ⟨?_, hd⟩
                intro x hx
                simp only [List.mem_append, List.mem_reverse, List.mem_cons] at hx
                rcases hx with h | h | h
                · exact hp x h
                · subst h; exact hab _ _ (hwid _ hbase) (htemp t List.mem_cons_self)
                · exact htemp x (List.mem_cons_of_mem _ h)
              · cases hb
                refine ⟨?_, hd⟩
                intro x hx
                simp only [List.mem_append, List.mem_reverse, List.mem_cons] at hx
                rcases hx with h | h | h | h
                · exact hp x h
                · subst h; exact hwid _ hbase
                · subst h; exact htemp _ List.mem_cons_self
                · exact htemp x (List.mem_cons_of_mem _ h)
          cases pre with
          | nil => exact hb [] hp hw
          | cons free pre' =>
            simp only at hw
            split at hw
            · cases hw
              refine ⟨?_, hd⟩
              intro x hx
              simp only [List.mem_append, List.mem_reverse, List.mem_cons] at hx
              rcases hx with h | h | h
              · exact hp x (List.mem_cons_of_mem _ h)
              · subst h; exact hab _ _ (hp free List.mem_cons_self) (hwid _ hbase)
              · exact htemp x h
            · exact hb _ hp hw
        · cases hw
          refine ⟨?_, hd⟩
          intro x hx
          simp only [List.mem_append, List.mem_reverse, List.mem_cons] at hx
          rcases hx with h | h | h | h
          · exact hp x h
          · subst h; exact hf
          · subst h; exact hbase
          · exact htemp x h

/-- inside the modelled domain the loop never answers `none` -/
theorem walk_total (c : Cfg) (L T B : Int) (hL : L ≤ c.qlen) :
    ∀ (rest pre done : List Trap), (∀ t ∈ rest, t.right ≤ c.qlen + c.binWidth) →
      ∃ s', walk c L T B pre rest done = some s' := by
  intro rest
  induction rest with
  | nil => intro pre done _; exact ⟨_, rfl⟩
  | cons base temp ih =>
    intro pre done hr
    have htemp : ∀ t ∈ temp, t.right ≤ c.qlen + c.binWidth := fun t ht => hr t (List.mem_cons_of_mem _ ht)
    have hbase := hr base List.mem_cons_self
    unfold walk
    split
    · exact ih pre (base :: done) htemp
    · split
      · exact ih (base :: pre) done htemp
      · split
        · have hb : ∀ pre, ∃ s', bridge c (widen c L T base) pre temp done = some s' := by
            intro pre
            unfold bridge
            split
            · rw [if_neg]
              · exact ⟨_, rfl⟩
              · rw [widen_right]
                simp only [Cfg.leftPadding, diagonalPadding]
                omega
            · split <;> exact ⟨_, rfl⟩
          cases pre with
          | nil => exact hb []
          | cons free pre' =>
            simp only
            split
            · exact ⟨_, rfl⟩
            · exact hb _
        · exact ⟨_, rfl⟩

/-! ### all hits -/

/-- hits arrive in ascending `From` (the morass sorts them by `Hit.Less`) -/
def SortedByFrom (hits : List FHit) : Prop := hits.Pairwise (fun a b => a.from_ ≤ b.from_)

/-- what `mergeAll` maintains between two hits -/
structure SInv (c : Cfg) (B : Int) (s : St) : Prop where
  good : Good c B s.active
  doneWide : ∀ t ∈ s.done, t.left + c.binWidth ≤ t.right

theorem mergeHit_spec (c : Cfg) (hbw : 0 ≤ c.binWidth) (s s' : St) (h : FHit)
    (inv : SInv c h.from_ s) (hm : mergeHit c s h = some s') :
    SInv c h.from_ s' ∧ Covers (s.active ++ s.done) (s'.active ++ s'.done) ∧
    (dropped c h = false → ∃ t ∈ s'.active ++ s'.done, Holds c t (-h.diagonal) h.to h.from_) := by
  unfold mergeHit at hm
  split at hm
  · rename_i hc
    cases hm
    exact ⟨inv, Covers.refl _, fun h' => by rw [hc] at h'; cases h'⟩
  · split at hm
    · cases hm
    · have hg : Good c h.from_ ([].reverse ++ s.active) := by simpa using inv.good
      obtain ⟨g, cv, t, ht, hh⟩ := walk_spec c hbw _ _ _ s.active [] s.done s' hg (by simp) hm
      refine ⟨⟨g, ?_⟩, by simpa using cv, fun _ => ⟨t, List.mem_append_left _ ht, hh⟩⟩
      intro t ht
      rcases walk_done c _ _ _ s.active [] s.done s' hm t ht with h | h
      · exact inv.doneWide t h
      · exact inv.good.wide t h

theorem mergeAll_spec (c : Cfg) (hbw : 0 ≤ c.binWidth) :
    ∀ (hits : List FHit) (s s' : St) (B : Int), SInv c B s → (∀ h ∈ hits, B ≤ h.from_) →
      SortedByFrom hits → mergeAll c s hits = some s' →
      (∃ B', SInv c B' s') ∧ Covers (s.active ++ s.done) (s'.active ++ s'.done) ∧
      ∀ h ∈ hits, dropped c h = false → ∃ t ∈ s'.active ++ s'.done, Holds c t (-h.diagonal) h.to h.from_ := by
  intro hits
  induction hits with
  | nil =>
    intro s s' B inv _ _ hm
    simp only [mergeAll, Option.some.injEq] at hm
    subst hm
    exact ⟨⟨B, inv⟩, Covers.refl _, by simp⟩
  | cons h hs ih =>
    intro s s' B inv hB hsort hm
    unfold mergeAll at hm
    split at hm
    · cases hm
    · rename_i s1 h1
      have hBh := hB h List.mem_cons_self
      have inv0 : SInv c h.from_ s := ⟨inv.good.mono hBh, inv.doneWide⟩
      obtain ⟨inv1, cv1, hold1⟩ := mergeHit_spec c hbw s s1 h inv0 h1
      have hs' := List.pairwise_cons.mp hsort
      obtain ⟨inv2, cv2, hold2⟩ := ih s1 s' h.from_ inv1 hs'.1 hs'.2 hm
      refine ⟨inv2, cv1.trans cv2, ?_⟩
      intro x hx hcut
      rcases List.mem_cons.mp hx with e | e
      · subst e
        obtain ⟨t, ht, hh⟩ := hold1 hcut
        obtain ⟨t', ht', st⟩ := cv2 t ht
        exact ⟨t', ht', hh.mono st⟩
      · exact hold2 x e hcut

/-- pointwise invariants through all hits: `P` must hold of the own trapezoid of every hit that
    is merged and be kept by `widen` and `absorb` -/
theorem mergeAll_forall (c : Cfg) (P : Trap → Prop) (hab : ∀ x y, P x → P y → P (absorb x y)) :
    ∀ (hits : List FHit) (s s' : St),
      (∀ h ∈ hits, dropped c h = false → P (fresh c (-h.diagonal) h.to h.from_) ∧
        ∀ t, P t → P (widen c (-h.diagonal) h.to t)) →
      (∀ t ∈ s.active, P t) → (∀ t ∈ s.done, P t) → mergeAll c s hits = some s' →
      (∀ t ∈ s'.active, P t) ∧ (∀ t ∈ s'.done, P t) := by
  intro hits
  induction hits with
  | nil =>
    intro s s' _ ha hd hm
    simp only [mergeAll, Option.some.injEq] at hm
    subst hm
    exact ⟨ha, hd⟩
  | cons h hs ih =>
    intro s s' hf ha hd hm
    unfold mergeAll at hm
    split at hm
    · cases hm
    · rename_i s1 h1
      have step : (∀ t ∈ s1.active, P t) ∧ (∀ t ∈ s1.done, P t) := by
        unfold mergeHit at h1
        split at h1
        · cases h1; exact ⟨ha, hd⟩
        · rename_i hc
          split at h1
          · cases h1
          · have hfh := hf h List.mem_cons_self (by simpa using hc)
            exact walk_forall c _ _ _ P hfh.1 hfh.2 hab s.active [] s.done s1 (by simp) ha hd h1
      exact ih s1 s' (fun x hx => hf x (List.mem_cons_of_mem _ hx)) step.1 step.2 hm

/-- inside the modelled domain `mergeAll` never answers `none` -/
theorem mergeAll_total (c : Cfg) :
    ∀ (hits : List FHit) (s : St), (∀ h ∈ hits, dropped c h = true ∨ inDomain c h = true) →
      (∀ t ∈ s.active, t.right ≤ c.qlen + c.binWidth) → (∀ t ∈ s.done, t.right ≤ c.qlen + c.binWidth) →
      ∃ s', mergeAll c s hits = some s' := by
  intro hits
  induction hits with
  | nil => intro s _ _ _; exact ⟨s, rfl⟩
  | cons h hs ih =>
    intro s hd ha hdn
    have hs' : ∀ x ∈ hs, dropped c x = true ∨ inDomain c x = true := fun x hx => hd x (List.mem_cons_of_mem _ hx)
    unfold mergeAll
    by_cases hc : dropped c h = true
    · have : mergeHit c s h = some s := by unfold mergeHit; rw [if_pos hc]
      rw [this]
      exact ih s hs' ha hdn
    · have hdom : inDomain c h = true := by
        rcases hd h List.mem_cons_self with e | e
        · exact absurd e hc
        · exact e
      have hL : -h.diagonal ≤ c.qlen := by
        unfold dropped beyondQuery at hc
        simp only [Bool.or_eq_true, decide_eq_true_eq, not_or] at hc
        omega
      obtain ⟨s1, h1⟩ := walk_total c (-h.diagonal) h.to h.from_ hL s.active [] s.done ha
      have hm : mergeHit c s h = some s1 := by
        unfold mergeHit
        rw [if_neg hc, hdom]
        simpa using h1
      rw [hm]
      have := walk_forall c (-h.diagonal) h.to h.from_ (fun t => t.right ≤ c.qlen + c.binWidth)
        (by simp only [fresh]; omega)
        (by intro t ht; show (widen c _ _ t).right ≤ _; rw [widen_right]; omega)
        (by intro x y _ hy; exact hy)
        s.active [] s.done s1 (by simp) ha hdn h1
      exact ih s1 hs' this.1 this.2

end Biogo.Proofs.PalsMerge
