/-
Helper lemmas for C10: `ComplementOf` against reverse-complement of digit lists, by bit
extensionality.  Core-only.
-/
import Biogo.Model.Kmer
import Biogo.Spec.Kmer
import Biogo.Proofs.Kmer
import Biogo.Proofs.KmerWord

set_option linter.unusedSimpArgs false

namespace Biogo.Proofs.KmerComplement
open Biogo.Kmer Biogo.Spec.Kmer Biogo.Proofs.Kmer Biogo.Proofs.KmerWord

/-- bit `b` of the reverse complement of the `k`-digit word `w`: the complemented bit `b % 2` of
    the digit that mirrors digit `b / 2` -/
def mir (w k b : Nat) : Bool := !w.testBit (2 * (k - 1 - b / 2) + b % 2)

/-! ### the specification side: `encode (revComp (toDigits k w))` bit by bit -/

theorem testBit_three (x : Nat) : (3 : Nat).testBit x = decide (x < 2) :=
  Nat.testBit_two_pow_sub_one 2 x

theorem testBit_compl_digit (x r : Nat) (hx : x < 4) (hr : r < 2) : (3 - x).testBit r = !x.testBit r := by
  have hx' : x = 0 ∨ x = 1 ∨ x = 2 ∨ x = 3 := by omega
  have hr' : r = 0 ∨ r = 1 := by omega
  rcases hx' with h | h | h | h <;> rcases hr' with h' | h' <;> subst h <;> subst h' <;> decide

theorem revComp_toDigits_succ (k w : Nat) :
    revComp (toDigits (k + 1) w) = (3 - w % 4) :: revComp (toDigits k (w / 4)) := by
  simp [revComp, toDigits]

theorem encode_revComp_lt (k w : Nat) : encode (revComp (toDigits k w)) < 4 ^ k := by
  have h := encode_lt (revComp (toDigits k w)) (by
    intro d hd
    simp only [revComp, List.mem_map, List.mem_reverse] at hd
    obtain ⟨x, _, rfl⟩ := hd
    omega)
  simpa [revComp, toDigits_length] using h

theorem testBit_encode_revComp (k w b : Nat) :
    (encode (revComp (toDigits k w))).testBit b = (decide (b / 2 < k) && mir w k b) := by
  induction k generalizing w with
  | zero => simp [toDigits, revComp, encode]
  | succ k ih =>
    rw [revComp_toDigits_succ, encode_cons]
    have hlen : (revComp (toDigits k (w / 4))).length = k := by simp [revComp, toDigits_length]
    have hlt := encode_revComp_lt k (w / 4)
    rw [hlen, four_pow_eq, Nat.mul_comm]
    rw [four_pow_eq] at hlt
    rw [Nat.testBit_two_pow_mul_add _ hlt]
    by_cases hb : b < 2 * k
    · rw [if_pos hb, ih]
      have h1 : b / 2 < k := by omega
      have h2 : b / 2 < k + 1 := by omega
      simp only [h1, h2, decide_true, Bool.true_and, mir]
      have : w / 4 = w / 2 ^ 2 := rfl
      rw [this, Nat.testBit_div_two_pow]
      congr 2; omega
    · rw [if_neg hb]
      by_cases hb2 : b / 2 = k
      · have h2 : b / 2 < k + 1 := by omega
        simp only [h2, decide_true, Bool.true_and, mir]
        rw [testBit_compl_digit (w % 4) (b - 2 * k) (Nat.mod_lt _ (by decide)) (by omega)]
        have : w % 4 = w % 2 ^ 2 := rfl
        rw [this, Nat.testBit_mod_two_pow]
        have h3 : b - 2 * k < 2 := by omega
        simp only [h3, decide_true, Bool.true_and]
        congr 2; omega
      · have h2 : ¬ b / 2 < k + 1 := by omega
        simp only [h2, decide_false, Bool.false_and]
        apply Nat.testBit_lt_two_pow
        have : 3 - w % 4 < 2 ^ 2 := by omega
        exact Nat.lt_of_lt_of_le this (Nat.pow_le_pow_right (by decide) (by omega))

/-! ### the loop of `ComplementOf` bit by bit -/

theorem testBit_not32 (x b : Nat) : (not32 x).testBit b = (x.testBit b ^^ decide (b < wordBits)) := by
  unfold not32
  rw [Nat.testBit_xor, Nat.testBit_two_pow_sub_one]

theorem testBit_trunc (x b : Nat) : (trunc x).testBit b = (decide (b < wordBits) && x.testBit b) := by
  unfold trunc; exact Nat.testBit_mod_two_pow x wordBits b

/-- digits below `m` from either end are done -/
def done (m k b : Nat) : Bool := decide (b / 2 < m) || (decide (k ≤ b / 2 + m) && decide (b / 2 < k))

/-- the low digit written by one iteration (`i = 2m`, `j = 2(k-1-m)`) -/
theorem testBit_low (w k m b : Nat) (hm : 2 * m + 1 ≤ k) (hk : 2 * k ≤ wordBits) :
    ((not32 (w >>> (2 * (k - 1 - m) - 2 * m)) &&& trunc (3 <<< (2 * m))).testBit b)
      = (decide (b / 2 = m) && mir w k b) := by
  rw [Nat.testBit_and, testBit_not32, testBit_trunc, Nat.testBit_shiftRight, Nat.testBit_shiftLeft, testBit_three]
  by_cases hb : b / 2 = m
  · have h1 : b < wordBits := by omega
    have h2 : b ≥ 2 * m := by omega
    have h3 : b - 2 * m < 2 := by omega
    simp only [h1, h2, h3, hb, decide_true, Bool.and_true, Bool.true_and, Bool.xor_true, mir]
    congr 2; omega
  · have h23 : ¬ (b ≥ 2 * m ∧ b - 2 * m < 2) := by omega
    have : (decide (b ≥ 2 * m) && decide (b - 2 * m < 2)) = false := by
      rw [← Bool.decide_and]; exact decide_eq_false h23
    simp only [this, hb, decide_false, Bool.and_false, Bool.false_and]

/-- the high digit written by one iteration -/
theorem testBit_high (w k m b : Nat) (hm : 2 * m + 1 ≤ k) (hk : 2 * k ≤ wordBits) :
    ((trunc ((not32 (w >>> (2 * m)) &&& 3) <<< (2 * (k - 1 - m)))).testBit b)
      = (decide (b / 2 = k - 1 - m) && mir w k b) := by
  rw [testBit_trunc, Nat.testBit_shiftLeft, Nat.testBit_and, testBit_not32, Nat.testBit_shiftRight, testBit_three]
  by_cases hb : b / 2 = k - 1 - m
  · have h1 : b < wordBits := by omega
    have h2 : b ≥ 2 * (k - 1 - m) := by omega
    have h3 : b - 2 * (k - 1 - m) < 2 := by omega
    have h4 : b - 2 * (k - 1 - m) < wordBits := by omega
    simp only [h1, h2, h3, h4, hb, decide_true, Bool.and_true, Bool.true_and, Bool.xor_true, mir]
    congr 2; omega
  · have h23 : ¬ (b ≥ 2 * (k - 1 - m) ∧ b - 2 * (k - 1 - m) < 2) := by omega
    by_cases h2 : b ≥ 2 * (k - 1 - m)
    · have h3 : ¬ b - 2 * (k - 1 - m) < 2 := fun h => h23 ⟨h2, h⟩
      simp only [h2, h3, hb, decide_true, decide_false, Bool.and_false, Bool.false_and, Bool.true_and]
    · simp only [h2, hb, decide_false, Bool.and_false, Bool.false_and]

theorem done_succ (m k b : Nat) (hm : 2 * m + 1 ≤ k) :
    done (m + 1) k b = (done m k b || decide (b / 2 = m) || decide (b / 2 = k - 1 - m)) := by
  unfold done
  by_cases h1 : b / 2 < m <;> by_cases h2 : b / 2 = m <;> by_cases h3 : b / 2 = k - 1 - m <;>
    by_cases h4 : b / 2 < k <;> by_cases h5 : k ≤ b / 2 + m <;>
    simp [h1, h2, h3, h4, h5] <;> omega

theorem testBit_compStep (w k m c b : Nat) (hm : 2 * m + 1 ≤ k) (hk : 2 * k ≤ wordBits)
    (hc : c.testBit b = (done m k b && mir w k b)) :
    (compStep w (2 * m) (2 * (k - 1 - m)) c).testBit b = (done (m + 1) k b && mir w k b) := by
  unfold compStep
  rw [Nat.testBit_or, Nat.testBit_or, hc, testBit_low w k m b hm hk, testBit_high w k m b hm hk,
    done_succ m k b hm]
  cases done m k b <;> cases decide (b / 2 = m) <;> cases decide (b / 2 = k - 1 - m) <;> cases mir w k b <;> rfl

/-- the loop from iteration `m` on, with `fuel` iterations allowed -/
theorem testBit_compLoop (w k : Nat) (hk2 : 2 ≤ k) (hk : 2 * k ≤ wordBits) (fuel m c : Nat)
    (hfuel : k ≤ 2 * m + 2 * fuel) (hm : 2 * m ≤ k + 1)
    (hc : ∀ b, c.testBit b = (done m k b && mir w k b)) (b : Nat) :
    (compLoop w fuel (2 * m) (2 * (k - 1 - m)) c).testBit b = (decide (b / 2 < k) && mir w k b) := by
  induction fuel generalizing m c with
  | zero =>
    rw [compLoop, hc]
    congr 1
    unfold done
    by_cases h4 : b / 2 < k <;> by_cases h1 : b / 2 < m <;> by_cases h5 : k ≤ b / 2 + m <;>
      simp [h1, h4, h5] <;> omega
  | succ fuel ih =>
    rw [compLoop]
    by_cases hij : 2 * m ≤ 2 * (k - 1 - m)
    · rw [if_pos hij]
      have hm' : 2 * m + 1 ≤ k := by omega
      simp only []
      by_cases hj : 2 * (k - 1 - m) < 2
      · -- last iteration with j = 0: only for k = 1, excluded
        omega
      · rw [if_neg hj]
        have hstep : ∀ b, (compStep w (2 * m) (2 * (k - 1 - m)) c).testBit b = (done (m + 1) k b && mir w k b) :=
          fun b => testBit_compStep w k m c b hm' hk (hc b)
        have := ih (m + 1) (compStep w (2 * m) (2 * (k - 1 - m)) c) (by omega) (by omega) hstep
        rw [show 2 * (m + 1) = 2 * m + 2 by omega, show 2 * (k - 1 - (m + 1)) = 2 * (k - 1 - m) - 2 by omega] at this
        exact this
    · rw [if_neg hij, hc]
      congr 1
      unfold done
      by_cases h4 : b / 2 < k <;> by_cases h1 : b / 2 < m <;> by_cases h5 : k ≤ b / 2 + m <;>
        simp [h1, h4, h5] <;> omega

/-- `ComplementOf(k, w)` is the numeral of the reversed, complemented digits of `w` -/
theorem complementOf_eq (k w : Nat) (hk2 : 2 ≤ k) (hk : 2 * k ≤ wordBits) :
    complementOf k w = encode (revComp (toDigits k w)) := by
  apply Nat.eq_of_testBit_eq
  intro b
  rw [testBit_encode_revComp]
  unfold complementOf
  have := testBit_compLoop w k hk2 hk k 0 0 (by omega) (by omega) (by
    intro b; simp [done]; intro h1 h2; omega) b
  simpa [Nat.mul_comm] using this

end Biogo.Proofs.KmerComplement
