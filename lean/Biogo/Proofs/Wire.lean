/-
The wire format's byte-string encoding is lossless: decoding the hex token the harness (or the
driver) writes for a byte string gives that byte string back.  This takes `hexOfBytes` /
`bytesOfHex` — used by every driver to read inputs and observations — out of the "read, not
proved" part of the tie.  Core only.
-/
import Biogo.Go.Wire

namespace Biogo.Wire

theorem hexVal_hexDigit (n : Nat) (h : n < 16) : hexVal (hexDigit n) = some n := by
  have : n = 0 ∨ n = 1 ∨ n = 2 ∨ n = 3 ∨ n = 4 ∨ n = 5 ∨ n = 6 ∨ n = 7 ∨ n = 8 ∨ n = 9 ∨ n = 10 ∨
      n = 11 ∨ n = 12 ∨ n = 13 ∨ n = 14 ∨ n = 15 := by omega
  rcases this with h | h | h | h | h | h | h | h | h | h | h | h | h | h | h | h <;> subst h <;> decide

theorem byte_split (b : UInt8) : UInt8.ofNat (b.toNat / 16 * 16 + b.toNat % 16) = b := by
  have : b.toNat / 16 * 16 + b.toNat % 16 = b.toNat := by omega
  rw [this]; exact UInt8.ofNat_toNat

theorem bytesOfHexAux_encode (bs : List UInt8) (acc : List UInt8) :
    bytesOfHexAux (bs.flatMap fun b => [hexDigit (b.toNat / 16), hexDigit (b.toNat % 16)]) acc
      = some (acc.reverse ++ bs) := by
  induction bs generalizing acc with
  | nil => simp [bytesOfHexAux]
  | cons b bs ih =>
    have hlt : b.toNat < 256 := b.toNat_lt
    simp only [List.flatMap_cons, List.cons_append, List.nil_append, bytesOfHexAux]
    rw [hexVal_hexDigit _ (by omega), hexVal_hexDigit _ (by omega)]
    simp only []
    rw [ih, byte_split]
    simp

end Biogo.Wire

namespace Biogo.Wire

theorem foldl_append_toList (acc : String) (ss : List String) :
    (List.foldl (fun r s => r ++ s) acc ss).toList = acc.toList ++ ss.flatMap String.toList := by
  induction ss generalizing acc with
  | nil => simp
  | cons s ss ih => simp [List.foldl_cons, ih, String.toList_append, List.append_assoc]

theorem join_toList (ss : List String) : (String.join ss).toList = ss.flatMap String.toList := by
  unfold String.join
  rw [foldl_append_toList]
  simp

example : (String.join ["ab", "cd"]).toList = ['a', 'b', 'c', 'd'] := by decide

/-- **the byte-string encoding of the wire format is lossless** -/
theorem bytesOfHex_hexOfBytes (bs : List UInt8) : bytesOfHex (hexOfBytes bs) = some bs := by
  unfold hexOfBytes
  cases bs with
  | nil => simp [bytesOfHex]
  | cons b bs =>
    have hlist : (String.join ((b :: bs).map hexOfByte)).toList =
        (b :: bs).flatMap fun b => [hexDigit (b.toNat / 16), hexDigit (b.toNat % 16)] := by
      rw [join_toList]
      simp only [List.flatMap_map, hexOfByte, String.toList_ofList]
    have hne : (String.join ((b :: bs).map hexOfByte) == "-") = false := by
      apply Bool.eq_false_iff.mpr
      intro h
      have h' : String.join ((b :: bs).map hexOfByte) = "-" := by simpa using h
      have := congrArg (fun s => s.toList.length) h'
      simp only [hlist, List.flatMap_cons, List.cons_append, List.length_cons] at this
      simp at this
    simp only [List.isEmpty_cons, Bool.false_eq_true, if_false, bytesOfHex, hne]
    rw [hlist, bytesOfHexAux_encode]
    simp

end Biogo.Wire
