/-
`FittedAffine` as it was before the repairs of K1 and K3 (`fitAlignLegacy`, `fitTable false`)
is optimal over the class of alignments it explored
(`Spec.FittedRestricted.IsFittedRestricted`): every layer of every cell of its table, from
column 1 on, is the optimum of the alignments of its prefixes that have no adjacent opposite
gaps, end in that layer's kind and start with a letter pair (or, at reference position 0,
with a gap in the reference).  Column 0 — the free reference prefix kept in the `up` layer —
is handled cell by cell: it feeds the match layer of column 1 with the empty alignment and
the `left` layer of column 1 with nothing.  Core only.
-/
import Biogo.Proofs.FittedAffine
import Biogo.Spec.FittedRestricted
import Biogo.Spec.AffPairs

namespace Biogo.Proofs.FittedClass
open Biogo.Spec.Alignment Biogo.AlignAff Biogo.Spec.AffineOpt Biogo.Proofs.AffineAln
open Biogo.Proofs.AffineOpt Biogo.Proofs.AlignAffTable Biogo.Proofs.FittedAffine
open Biogo.Spec.FittedRestricted

/-! ### the first column of an alignment -/

theorem firstKind_snoc_ne (a : Aln) (c : Col) (h : a ≠ []) : firstKind (a ++ [c]) = firstKind a := by
  cases a with
  | nil => exact absurd rfl h
  | cons d t => rfl

theorem firstKind_single (c : Col) : firstKind [c] = some c.kind := rfl

theorem firstKind_u_of_projQ_nil (a : Aln) (h : projQ a = []) (hne : a ≠ []) : firstKind a = some .u := by
  cases a with
  | nil => exact absurd rfl hne
  | cons c t => cases c <;> simp [projQ] at h <;> rfl

theorem firstKind_l_of_projR_nil (a : Aln) (h : projR a = []) (hne : a ≠ []) : firstKind a = some .l := by
  cases a with
  | nil => exact absurd rfl hne
  | cons c t => cases c <;> simp [projR] at h <;> rfl

/-- the start condition of the class: a letter pair first, or a gap in the reference first
    and the whole reference prefix aligned -/
def StartOK (rp : List Nat) (a : Aln) : Prop :=
  firstKind a = some .m ∨ (firstKind a = some .l ∧ projR a = rp)

theorem startOK_snoc_m (rp : List Nat) (a : Aln) (x y : Nat) (h : a ≠ []) :
    StartOK (rp ++ [x]) (a ++ [.m x y]) ↔ StartOK rp a := by
  simp only [StartOK, firstKind_snoc_ne a _ h, projR_append, projR]
  constructor
  · rintro (h | ⟨h1, h2⟩)
    · exact Or.inl h
    · exact Or.inr ⟨h1, (List.append_inj' h2 rfl).1⟩
  · rintro (h | ⟨h1, h2⟩)
    · exact Or.inl h
    · exact Or.inr ⟨h1, by rw [h2]⟩

theorem startOK_snoc_u (rp : List Nat) (a : Aln) (x : Nat) (h : a ≠ []) :
    StartOK (rp ++ [x]) (a ++ [.u x]) ↔ StartOK rp a := by
  simp only [StartOK, firstKind_snoc_ne a _ h, projR_append, projR]
  constructor
  · rintro (h | ⟨h1, h2⟩)
    · exact Or.inl h
    · exact Or.inr ⟨h1, (List.append_inj' h2 rfl).1⟩
  · rintro (h | ⟨h1, h2⟩)
    · exact Or.inl h
    · exact Or.inr ⟨h1, by rw [h2]⟩

theorem startOK_snoc_l (rp : List Nat) (a : Aln) (y : Nat) (h : a ≠ []) :
    StartOK rp (a ++ [.l y]) ↔ StartOK rp a := by
  simp only [StartOK, firstKind_snoc_ne a _ h, projR_append, projR, List.append_nil]

/-! ### the class of a cell and the steps between cells -/

/-- the alignments layer `k` of the cell of prefixes `(rp, qp)` of the fitted table stands for -/
def RCls (rp qp : List Nat) (k : Kind) (a : Aln) : Prop := Cls flF rp qp k a ∧ StartOK rp a

def RCellOK (S : Matrix) (o : Int) (rp qp : List Nat) (c : Cell) : Prop :=
  ∀ k, IsOpt (RCls rp qp k) (scoreAff S o) (c.get k)

theorem adm_ne_nil {rp qp : List Nat} {a : Aln} (h : Adm flF rp qp a) (hq : qp ≠ []) : a ≠ [] := by
  intro e
  subst e
  have := h.2.1
  simp [fits, flF, projQ] at this
  exact hq this

theorem r_u_step {S : Matrix} {o : Int} {rp Q : List Nat} {c : Cell} (x : Nat) (hQ : Q ≠ [])
    (h : RCellOK S o rp Q c) :
    IsOpt (RCls (rp ++ [x]) Q .u) (scoreAff S o)
      (max2 (vadd c.d (o + S x 0)) (vadd c.u (S x 0))) := by
  have hA := isOpt_snoc (.u x) (o + S x 0)
    (fun a (ha : RCls rp Q .m a) => by rw [cost_u, ha.1.2]; simp) (h .m)
  have hB := isOpt_snoc (.u x) (S x 0)
    (fun a (ha : RCls rp Q .u a) => by rw [cost_u, ha.1.2]; simp) (h .u)
  refine isOpt_congr ?_ (isOpt_max2 hA hB)
  intro b
  simp only [RCls]
  rw [cls_u_snoc]
  constructor
  · rintro (⟨a, ⟨ha, hs⟩, rfl⟩ | ⟨a, ⟨ha, hs⟩, rfl⟩)
    · exact ⟨⟨a, rfl, ha.1, Or.inr (by rw [ha.2]; decide)⟩,
        (startOK_snoc_u rp a x (adm_ne_nil ha.1 hQ)).mpr hs⟩
    · exact ⟨⟨a, rfl, ha.1, Or.inr (by rw [ha.2]; decide)⟩,
        (startOK_snoc_u rp a x (adm_ne_nil ha.1 hQ)).mpr hs⟩
  · rintro ⟨⟨a, rfl, ha, hc⟩, hs⟩
    have hs' := (startOK_snoc_u rp a x (adm_ne_nil ha hQ)).mp hs
    cases hk : endK a with
    | m => exact Or.inl ⟨a, ⟨⟨ha, hk⟩, hs'⟩, rfl⟩
    | u => exact Or.inr ⟨a, ⟨⟨ha, hk⟩, hs'⟩, rfl⟩
    | l =>
      rcases hc with hc | hc
      · cases hc
      · exact absurd hk hc

theorem r_l_step {S : Matrix} {o : Int} {R qp : List Nat} {c : Cell} (y : Nat) (hq : qp ≠ [])
    (h : RCellOK S o R qp c) :
    IsOpt (RCls R (qp ++ [y]) .l) (scoreAff S o)
      (max2 (vadd c.d (o + S 0 y)) (vadd c.l (S 0 y))) := by
  have hA := isOpt_snoc (.l y) (o + S 0 y)
    (fun a (ha : RCls R qp .m a) => by rw [cost_l, ha.1.2]; simp) (h .m)
  have hB := isOpt_snoc (.l y) (S 0 y)
    (fun a (ha : RCls R qp .l a) => by rw [cost_l, ha.1.2]; simp) (h .l)
  refine isOpt_congr ?_ (isOpt_max2 hA hB)
  intro b
  simp only [RCls]
  rw [cls_l_snoc]
  constructor
  · rintro (⟨a, ⟨ha, hs⟩, rfl⟩ | ⟨a, ⟨ha, hs⟩, rfl⟩)
    · exact ⟨⟨a, rfl, ha.1, Or.inr (by rw [ha.2]; decide)⟩,
        (startOK_snoc_l R a y (adm_ne_nil ha.1 hq)).mpr hs⟩
    · exact ⟨⟨a, rfl, ha.1, Or.inr (by rw [ha.2]; decide)⟩,
        (startOK_snoc_l R a y (adm_ne_nil ha.1 hq)).mpr hs⟩
  · rintro ⟨⟨a, rfl, ha, hc⟩, hs⟩
    have hs' := (startOK_snoc_l R a y (adm_ne_nil ha hq)).mp hs
    cases hk : endK a with
    | m => exact Or.inl ⟨a, ⟨⟨ha, hk⟩, hs'⟩, rfl⟩
    | l => exact Or.inr ⟨a, ⟨⟨ha, hk⟩, hs'⟩, rfl⟩
    | u =>
      rcases hc with hc | hc
      · cases hc
      · exact absurd hk hc

theorem r_m_step {S : Matrix} {o : Int} {rp qp : List Nat} {c : Cell} (x y : Nat) (hq : qp ≠ [])
    (h : RCellOK S o rp qp c) :
    IsOpt (RCls (rp ++ [x]) (qp ++ [y]) .m) (scoreAff S o) (vadd (max3 c.d c.u c.l) (S x y)) := by
  have hM := isOpt_snoc (.m x y) (S x y) (fun a _ => cost_m S o x y a)
    (isOpt_max3 (h .m) (h .u) (h .l))
  refine isOpt_congr ?_ hM
  intro b
  simp only [RCls]
  rw [cls_m_snoc]
  constructor
  · rintro ⟨a, (⟨ha, hs⟩ | ⟨ha, hs⟩ | ⟨ha, hs⟩), rfl⟩ <;>
      exact ⟨Or.inr ⟨a, rfl, ha.1⟩, (startOK_snoc_m rp a x y (adm_ne_nil ha.1 hq)).mpr hs⟩
  · rintro ⟨(⟨hf, _⟩ | ⟨a, rfl, ha⟩), hs⟩
    · simp [flF] at hf
    · have hs' := (startOK_snoc_m rp a x y (adm_ne_nil ha hq)).mp hs
      refine ⟨a, ?_, rfl⟩
      cases hk : endK a with
      | m => exact Or.inl ⟨⟨ha, hk⟩, hs'⟩
      | u => exact Or.inr (Or.inl ⟨⟨ha, hk⟩, hs'⟩)
      | l => exact Or.inr (Or.inr ⟨⟨ha, hk⟩, hs'⟩)

/-! ### column 1: what the free-prefix column feeds -/

theorem not_startOK_of_u {rp : List Nat} {a : Aln} (h : firstKind a = some .u) : ¬ StartOK rp a := by
  rintro (h' | ⟨h', _⟩) <;> (rw [h] at h'; cases h')

/-- match layer of column 1: the single letter pair (the free prefix contributes the empty
    alignment, never a gap in the query) -/
theorem r_m_first (S : Matrix) (o : Int) (rp : List Nat) (x y : Nat) :
    IsOpt (RCls (rp ++ [x]) ([] ++ [y]) .m) (scoreAff S o) (some (S x y)) := by
  have hsc : scoreAff S o [.m x y] = S x y := by
    have := cost_m S o x y []
    simpa [scoreAff, scoreAffFrom] using this
  have hcls : ∀ a, RCls (rp ++ [x]) ([] ++ [y]) .m a ↔ a = [.m x y] := by
    intro a
    simp only [RCls]
    rw [cls_m_snoc]
    constructor
    · rintro ⟨(⟨hf, _⟩ | ⟨a', rfl, ha⟩), hs⟩
      · simp [flF] at hf
      · by_cases hne : a' = []
        · subst hne; rfl
        · exfalso
          have hq : projQ a' = [] := by simpa [fits, flF] using ha.2.1
          have := firstKind_u_of_projQ_nil a' hq hne
          exact not_startOK_of_u (by rw [firstKind_snoc_ne a' _ hne]; exact this) hs
    · rintro rfl
      refine ⟨Or.inr ⟨[], rfl, ?_, ?_, Or.inr rfl⟩, Or.inl rfl⟩
      · simp [fits, flF, projR]
      · simp [fits, flF, projQ]
  constructor
  · intro a ha
    rw [(hcls a).mp ha, hsc]
    exact ⟨S x y, rfl, Int.le_refl _⟩
  · intro v hv
    cases hv
    exact ⟨[.m x y], (hcls _).mpr rfl, hsc⟩

/-- `left` layer of column 1 below row 0: nothing (no gap in the reference can be opened
    after a skipped reference prefix) -/
theorem r_l_first (S : Matrix) (o : Int) (rp : List Nat) (y : Nat) (hrp : rp ≠ []) :
    IsOpt (RCls rp ([] ++ [y]) .l) (scoreAff S o) none := by
  refine isOpt_none ?_
  intro a
  simp only [RCls]
  rw [cls_l_snoc]
  rintro ⟨⟨a', rfl, ha, _⟩, hs⟩
  have hq : projQ a' = [] := by simpa [fits, flF] using ha.2.1
  by_cases hne : a' = []
  · subst hne
    rcases hs with h | ⟨_, h⟩
    · cases h
    · simp [projR] at h; exact hrp h
  · have := firstKind_u_of_projQ_nil a' hq hne
    exact not_startOK_of_u (by rw [firstKind_snoc_ne a' _ hne]; exact this) hs

/-! ### row 0 -/

theorem rcell_row0 {S : Matrix} {o : Int} {qp : List Nat} {c : Cell} (hq : qp ≠ [])
    (h : CellOK (Biogo.Proofs.NWAffine.flN false) S o [] qp c) : RCellOK S o [] qp c := by
  intro k
  refine isOpt_congr ?_ (h k)
  intro a
  simp only [RCls, Cls, Adm, fits_nil_right]
  constructor
  · rintro ⟨⟨hr, hqq, hn⟩, hk⟩
    have hqq' : fits flF.freeQ (projQ a) qp := by simpa [fits, flF, Biogo.Proofs.NWAffine.flN] using hqq
    have hn' : flF.cross = true ∨ noAdj a = true := by simpa [flF, Biogo.Proofs.NWAffine.flN] using hn
    have hne : a ≠ [] := adm_ne_nil (rp := []) ⟨by rw [fits_nil_right]; exact hr, hqq', hn'⟩ hq
    exact ⟨⟨⟨hr, hqq', hn'⟩, hk⟩, Or.inr ⟨firstKind_l_of_projR_nil a hr hne, hr⟩⟩
  · rintro ⟨⟨⟨hr, hqq, hn⟩, hk⟩, _⟩
    exact ⟨⟨hr, by simpa [fits, flF, Biogo.Proofs.NWAffine.flN] using hqq,
      by simpa [flF, Biogo.Proofs.NWAffine.flN] using hn⟩, hk⟩

/-! ### the table -/

theorem take_succ_getD (l : List Nat) (i : Nat) (h : i < l.length) : l.take (i + 1) = l.take i ++ [l.getD i 0] := by
  rw [List.take_add_one, List.getD_eq_getElem?_getD, List.getElem?_eq_getElem h]
  rfl

theorem take_ne_nil (l : List Nat) (j : Nat) (h : j < l.length) : l.take (j + 1) ≠ [] := by
  cases l with
  | nil => simp at h
  | cons a t => simp

/-- every cell of the fitted table from column 1 on holds, layer by layer, the optimum of
    its class -/
theorem fit_rcell (S : Matrix) (o : Int) (r q : List Nat) :
    ∀ i, i ≤ r.length → ∀ j, j < q.length →
      RCellOK S o (r.take i) (q.take (j + 1)) (fitAt false S o r q i (j + 1)) := by
  intro i
  induction i with
  | zero =>
    intro _ j hj
    rw [fitAt_row0 false S o r q _ false]
    have := optRows_ok (Biogo.Proofs.NWAffine.flN false) S o r q 0 (j + 1) (Nat.zero_le _) (by omega)
    simp only [List.take_zero] at this ⊢
    exact rcell_row0 (take_ne_nil q j hj) this
  | succ i ihi =>
    intro hi j
    induction j with
    | zero =>
      intro hj
      rw [fitAt_inner false S o r q i 0 (by omega) hj, take_succ_getD r i (by omega)]
      have hq1 : q.take (0 + 1) = [] ++ [q.getD 0 0] := by
        rw [take_succ_getD q 0 hj]; rfl
      have hpd : max3 (fitAt false S o r q i 0).d (fitAt false S o r q i 0).u (fitAt false S o r q i 0).l = some 0 := by
        cases i with
        | zero => rw [fitAt_row0 false S o r q _ false, optRows_origin]; rfl
        | succ i' => rw [fitAt_col0 false S o r q i' (by omega)]; rfl
      intro k
      cases k with
      | m =>
        simp only [Cell.get, nwCell, hpd, vadd, Int.zero_add]
        rw [hq1]
        exact r_m_first S o _ _ _
      | u =>
        simp only [Cell.get, nwCell, gapLayer_false]
        exact r_u_step _ (take_ne_nil q 0 hj) (ihi (by omega) 0 hj)
      | l =>
        simp only [Cell.get, nwCell, gapLayer_false]
        rw [fitAt_col0 false S o r q i (by omega), hq1, ← take_succ_getD r i (by omega)]
        exact r_l_first S o _ _ (take_ne_nil r i (by omega))
    | succ j ihj =>
      intro hj
      rw [fitAt_inner false S o r q i (j + 1) (by omega) hj, take_succ_getD r i (by omega),
        take_succ_getD q (j + 1) hj]
      intro k
      cases k with
      | m =>
        simp only [Cell.get, nwCell, gapLayer_false]
        exact r_m_step _ _ (take_ne_nil q j (by omega)) (ihi (by omega) j (by omega))
      | u =>
        simp only [Cell.get, nwCell, gapLayer_false]
        rw [← take_succ_getD q (j + 1) hj]
        exact r_u_step _ (take_ne_nil q (j + 1) hj) (ihi (by omega) (j + 1) hj)
      | l =>
        simp only [Cell.get, nwCell, gapLayer_false]
        rw [← take_succ_getD r i (by omega)]
        exact r_l_step _ (take_ne_nil q j (by omega)) (ihj (by omega))

/-! ### the class of the end cell, in the words of `Spec.FittedRestricted` -/

theorem lastKind_eq_endK (a : Aln) (h : a ≠ []) : lastKind a = some (endK a) := by
  obtain ⟨a', c, rfl⟩ := eq_snoc_of_ne_nil a h
  rw [endK_snoc]
  simp [lastKind]

theorem rcls_iff_restricted (r q : List Nat) (e : Nat) (he : e ≤ r.length) (hq : q ≠ []) (a : Aln) :
    RCls (r.take e) q .m a ↔ IsFittedRestricted a r q e := by
  have hlen : (r.take e).length = e := by rw [List.length_take]; omega
  constructor
  · rintro ⟨⟨ha, hk⟩, hs⟩
    have hne : a ≠ [] := adm_ne_nil ha hq
    obtain ⟨hfit, hna⟩ := fitted_of_adm r q e he a ha
    refine ⟨hfit, hna, by rw [lastKind_eq_endK a hne, hk], ?_⟩
    rcases hs with h | ⟨h1, h2⟩
    · exact Or.inl h
    · exact Or.inr ⟨h1, by rw [h2, hlen]⟩
  · rintro ⟨⟨i, _, _, hr, hqq⟩, hna, hl, hs⟩
    have hne : a ≠ [] := by intro e'; subst e'; cases hl
    have hsuf : projR a <:+ r.take e := by rw [hr]; exact List.drop_suffix _ _
    refine ⟨⟨⟨by simpa [fits, flF] using hsuf, by simpa [fits, flF] using hqq, Or.inr hna⟩, ?_⟩, ?_⟩
    · have := lastKind_eq_endK a hne
      rw [hl] at this
      exact (Option.some.inj this).symm
    · rcases hs with h | ⟨h1, h2⟩
      · exact Or.inl h
      · exact Or.inr ⟨h1, hsuf.eq_of_length (by rw [h2, hlen])⟩

/-- **`FittedAffine` is optimal over the alignments it explores**: the pairs the model returns
    end at some row `e`, and their total is the maximum of the affine score over the
    alignments of the whole query with a reference segment ending at `e` that have no adjacent
    opposite gaps, end with a letter pair and start with a letter pair (or, from reference
    position 0, with a gap in the reference). -/
theorem fitAlign_restricted_opt (S : Matrix) (o : Int) (r q : List Nat) (hr : r ≠ []) (hq : q ≠ []) :
    ∃ ps, fitAlignLegacy S o r q = .ok ps ∧
      (∀ a, IsFittedRestricted a r q (Biogo.Spec.AffPairs.lastEnd ps).1 → scoreAff S o a ≤ total ps) ∧
      (∃ a, IsFittedRestricted a r q (Biogo.Spec.AffPairs.lastEnd ps).1 ∧ scoreAff S o a = total ps) := by
  have hC : 1 ≤ q.length := by cases q with | nil => exact absurd rfl hq | cons _ _ => simp
  obtain ⟨ps, e, x, hps, hend, he1, heR, hx, htot⟩ := fitAlign_value S o r q hr hq
  obtain ⟨C', hC'⟩ : ∃ C', q.length = C' + 1 := ⟨q.length - 1, by omega⟩
  have hcell := fit_rcell S o r q e heR C' (by omega) .m
  rw [← hC', List.take_length] at hcell
  have hopt : IsOpt (fun a => IsFittedRestricted a r q e) (scoreAff S o) (some x) := by
    have : ((fitAt false S o r q e q.length).get .m) = some x := hx
    rw [this] at hcell
    exact isOpt_congr (rcls_iff_restricted r q e heR hq) hcell
  refine ⟨ps, hps, ?_, ?_⟩
  · intro a ha
    rw [hend] at ha
    obtain ⟨y, hy, hle⟩ := hopt.1 a ha
    cases hy
    omega
  · obtain ⟨a, ha, hsc⟩ := hopt.2 x rfl
    exact ⟨a, by rw [hend]; exact ha, by rw [hsc, htot]⟩

/-- the same for any row: the match-layer value of the last column of row `e` is the optimum
    of the class for end `e` (the yardstick the driver of C08 uses for finding K3) -/
theorem fitTable_restricted_opt (S : Matrix) (o : Int) (r q : List Nat) (hq : q ≠ []) (e : Nat)
    (he : e ≤ r.length) :
    IsOpt (fun a => IsFittedRestricted a r q e) (scoreAff S o) ((fitTable false S o r q).at e q.length).d := by
  have hC : 1 ≤ q.length := by cases q with | nil => exact absurd rfl hq | cons _ _ => simp
  obtain ⟨C', hC'⟩ : ∃ C', q.length = C' + 1 := ⟨q.length - 1, by omega⟩
  have hcell := fit_rcell S o r q e he C' (by omega) .m
  rw [← hC', List.take_length] at hcell
  rw [fitTable_at false S o r q e q.length (Nat.le_refl _)]
  exact isOpt_congr (rcls_iff_restricted r q e he hq) hcell

end Biogo.Proofs.FittedClass
