/-
`ReadSlice` of the byte-level `bufio.Reader` model computes `Biogo.Spec.Bufio.sliceOf` of the
undelivered stream, whatever the chunking of the underlying reads.  Core only.
-/
import Biogo.Proofs.Bufio

namespace Biogo.Go.Bufio
open Biogo.Spec.Bufio (sliceOf lineOf)

theorem sliceOf_found {size : Nat} {delim : UInt8} {fin : Err} {early : Bool} {st : Bytes} {i : Nat}
    (h : indexByte (st.take size) delim = some i) :
    sliceOf size delim fin early st = (st.take (i + 1), none, st.drop (i + 1)) := by
  simp only [sliceOf, h]

theorem sliceOf_none {size : Nat} {delim : UInt8} {fin : Err} {early : Bool} {st : Bytes}
    (h : indexByte (st.take size) delim = none) :
    sliceOf size delim fin early st =
      if st.length < size ∨ (st.length = size ∧ early = true) then (st, some fin, [])
      else (st.take size, some .bufferFull, st.drop size) := by
  simp only [sliceOf, h]

/-- the final error matters only for a stream that fills the buffer exactly -/
theorem sliceOf_early {size : Nat} {delim : UInt8} {fin : Err} {st : Bytes} (e e' : Bool)
    (h : st.length ≠ size ∨ e = e') : sliceOf size delim fin e st = sliceOf size delim fin e' st := by
  rcases h with h | h
  · simp only [sliceOf, h, false_and]
  · rw [h]

/-- what a call of `ReadSlice` that computes `spec` leaves behind -/
structure SliceRes (b : Reader) (spec : Bytes × Option Err × Bytes) (res : Bytes × Option Err × Reader) : Prop where
  line_eq : res.1 = spec.1
  err_eq : res.2.1 = spec.2.1
  stream_eq : res.2.2.stream = spec.2.2
  inv : Inv res.2.2
  cfg : SameCfg b res.2.2
  full : res.2.1 = some .bufferFull →
    res.2.2.data = [] ∧ res.2.2.r = b.size ∧ res.2.2.err = none ∧ (b.src.withData = true → res.2.2.src.rest ≠ [])

theorem readSliceLoop_spec (delim : UInt8) : ∀ (fuel : Nat) (b : Reader) (s : Nat), LInv b → s ≤ b.data.length →
    indexByte (b.data.take s) delim = none →
    (b.err.isSome = true → b.src.withData = true ∨ s = b.data.length) →
    b.size - b.data.length + (if b.err.isSome = true then 0 else 1) < fuel →
    SliceRes b (sliceOf b.size delim b.src.fin (b.err.isSome || b.src.withData) b.stream)
      (readSliceLoop delim fuel b s) := by
  intro fuel
  induction fuel with
  | zero => intro b s _ _ _ _ hf; omega
  | succ fuel ih =>
    intro b s hinv hs hpre herr hf
    obtain ⟨size, src, r, data, err, panicked⟩ := b
    obtain ⟨rest, pol, withData, fin, calls⟩ := src
    obtain ⟨hsz, hfits, hprog, hfin, herrfin, hwd, hnp⟩ := hinv
    simp only at hs hpre herr hf hsz hfits hprog hfin herrfin hwd hnp
    simp only [Reader.stream]
    have hlen : data.length ≤ size := by omega
    have hsplit : data = data.take s ++ data.drop s := (List.take_append_drop s data).symm
    have htl : (data.take s).length = s := by simp [List.length_take]; omega
    have htake : (data ++ rest).take size = data ++ rest.take (size - data.length) := by
      simp only [List.take_append, List.take_of_length_le hlen]
    rw [readSliceLoop]
    simp only
    cases hidx : indexByte (data.drop s) delim with
    | some i =>
      have hfound : indexByte data delim = some (i + s) := by
        rw [hsplit, indexByte_append, hpre, hidx]; simp [htl]
      have hi : i + s < data.length := indexByte_lt hfound
      have hspec : indexByte ((data ++ rest).take size) delim = some (i + s) := by
        rw [htake, indexByte_append, hfound]
      rw [sliceOf_found hspec]
      have hdne : data ≠ [] := by intro h; rw [h] at hi; simp at hi
      simp only
      refine ⟨?_, rfl, ?_, ⟨⟨hsz, ?_, hprog, hfin, herrfin, ?_, hnp⟩, ?_⟩, SameCfg.refl _, ?_⟩
      · simp only; rw [List.take_append_of_le_length (by omega)]
      · simp only [Reader.stream]; rw [List.drop_append_of_le_length (by omega)]
      · simp only [List.length_drop]; omega
      · intro hw hr
        rcases hwd hw hr with h | h
        · exact Or.inl h
        · exact absurd h hdne
      · intro he
        rcases herr he with h | h
        · exact h
        · rw [h] at hidx; simp [indexByte] at hidx
      · intro h; simp at h
    | none =>
      have hnone : indexByte data delim = none := by
        rw [hsplit, indexByte_append, hpre, hidx]; rfl
      simp only
      cases err with
      | some e =>
        obtain ⟨he, hrest⟩ := herrfin e rfl
        subst he hrest
        have hspec : indexByte ((data ++ []).take size) delim = none := by
          rw [List.append_nil, List.take_of_length_le hlen]; exact hnone
        rw [sliceOf_none hspec]
        have hcond : (data ++ []).length < size ∨ ((data ++ []).length = size ∧ ((some e).isSome || withData) = true) := by
          simp only [List.append_nil]
          rcases Nat.lt_or_ge data.length size with h | h
          · exact Or.inl h
          · exact Or.inr ⟨by omega, rfl⟩
        simp only [List.append_nil] at hcond ⊢
        rw [if_pos hcond]
        refine ⟨rfl, rfl, ?_, ⟨⟨hsz, ?_, hprog, hfin, ?_, ?_, hnp⟩, ?_⟩, SameCfg.refl _, ?_⟩
        · simp [Reader.stream]
        · simp [Reader.w]; omega
        · intro e h; simp at h
        · intro _ _; right; rfl
        · intro h; simp at h
        · intro h
          simp only [Option.some.injEq] at h
          exact absurd h hfin
      | none =>
        simp only [Reader.buffered]
        by_cases hfull : data.length ≥ size
        · -- buffer full
          simp only [hfull, ↓reduceIte]
          have hleq : data.length = size := by omega
          have hr0 : r = 0 := by omega
          have hspec : indexByte ((data ++ rest).take size) delim = none := by
            rw [htake, hleq, Nat.sub_self, List.take_zero, List.append_nil]; exact hnone
          rw [sliceOf_none hspec]
          have hcond : ¬ ((data ++ rest).length < size ∨ ((data ++ rest).length = size ∧ ((none : Option Err).isSome || withData) = true)) := by
            simp only [List.length_append, Option.isSome_none, Bool.false_or]
            intro h
            rcases h with h | ⟨h1, h2⟩
            · omega
            · have hr : rest = [] := by
                apply List.eq_nil_of_length_eq_zero; omega
              rcases hwd h2 hr with h | h
              · simp at h
              · rw [h] at hleq; simp at hleq; omega
          rw [if_neg hcond]
          refine ⟨?_, rfl, ?_, ⟨⟨hsz, ?_, hprog, hfin, ?_, ?_, hnp⟩, ?_⟩, SameCfg.refl _, ?_⟩
          · simp only; rw [← hleq, List.take_left]
          · simp only [Reader.stream]; rw [← hleq, List.drop_left]; simp
          · simp [Reader.w]; omega
          · intro e h; simp at h
          · intro _ _; right; rfl
          · intro h; simp at h
          · intro _
            refine ⟨rfl, by simp [Reader.w, hr0, hleq], rfl, ?_⟩
            intro hw hr
            apply hcond
            right
            simp only at hw hr
            refine ⟨by simp [hr, hleq], by simp [hw]⟩
        · -- fill and go round again
          simp only [hfull, ↓reduceIte]
          have hlt : data.length < size := by omega
          have hf' : size - data.length + 1 < fuel + 1 := by simpa using hf
          have hinv : LInv ⟨size, ⟨rest, pol, withData, fin, calls⟩, r, data, none, panicked⟩ :=
            ⟨hsz, hfits, hprog, hfin, herrfin, hwd, hnp⟩
          rcases fill_spec _ hinv rfl hlt with ⟨hrest, hfill⟩ | ⟨n, hn1, hn2, hn3, hfill⟩
          · -- the source is exhausted: its final error becomes pending
            simp only at hrest hfill
            subst hrest
            rw [hfill]
            have hres := ih ⟨size, ⟨[], pol, withData, fin, calls + 1⟩, 0, data, some fin, panicked⟩ data.length
              ⟨hsz, by simp only; omega, hprog, hfin,
                by intro e h; simp only [Option.some.injEq] at h; exact ⟨h.symm, rfl⟩,
                by intro _ _; left; rfl, hnp⟩
              (Nat.le_refl _) (by simpa using hnone) (by intro _; right; rfl)
              (by simp only [Option.isSome_some, ↓reduceIte]; omega)
            simp only [Reader.stream] at hres
            rw [sliceOf_early ((none : Option Err).isSome || withData) ((some fin).isSome || withData)
              (Or.inl (by simp only [List.append_nil]; omega))]
            exact ⟨hres.line_eq, hres.err_eq, hres.stream_eq, hres.inv, hres.cfg, hres.full⟩
          · -- at least one byte arrived
            simp only at hn2 hn3 hfill
            rw [hfill]
            have hres := ih ⟨size, ⟨rest.drop n, pol, withData, fin, calls + 1⟩, 0, data ++ rest.take n,
                if rest.length = n ∧ withData = true then some fin else none, panicked⟩ data.length
              ⟨hsz, by simp only [List.length_append, List.length_take]; omega, hprog, hfin,
                by
                  intro e h
                  by_cases hc : rest.length = n ∧ withData = true
                  · simp only [hc, and_self, ↓reduceIte, Option.some.injEq] at h
                    exact ⟨h.symm, by simp [hc.1.symm]⟩
                  · simp only [hc, ↓reduceIte] at h; exact absurd h (by simp),
                by
                  intro hw hr
                  left
                  simp only at hw hr
                  have : rest.length = n := by
                    simp only [List.drop_eq_nil_iff] at hr; omega
                  simp [this, hw],
                hnp⟩
              (by simp) (by simpa using hnone)
              (by
                intro h
                left
                by_cases hc : rest.length = n ∧ withData = true
                · exact hc.2
                · simp [hc] at h)
              (by
                simp only [List.length_append, List.length_take, Nat.min_eq_left hn3]
                by_cases hc : rest.length = n ∧ withData = true
                · simp only [hc, and_self, ↓reduceIte, Option.isSome_some]; omega
                · simp only [hc, ↓reduceIte, Option.isSome_none, Bool.false_eq_true]; omega)
            simp only [Reader.stream, List.append_assoc, List.take_append_drop] at hres
            have hearly : ((if rest.length = n ∧ withData = true then some fin else none : Option Err).isSome || withData)
                = ((none : Option Err).isSome || withData) := by
              by_cases hc : rest.length = n ∧ withData = true
              · simp [hc]
              · simp [hc]
            rw [hearly] at hres
            exact ⟨hres.line_eq, hres.err_eq, hres.stream_eq, hres.inv, hres.cfg, hres.full⟩

/-- **`ReadSlice` is a function of the stream**: for every buffer size, every split of the stream
    between buffer and underlying reader, every chunking. -/
theorem readSlice_spec (delim : UInt8) (b : Reader) (h : Inv b) :
    SliceRes b (sliceOf b.size delim b.src.fin b.src.withData b.stream) (readSlice delim b) := by
  have hl := readSliceLoop_spec delim (b.size - b.buffered + 2) b 0 h.toLInv (Nat.zero_le _)
    (by simp [indexByte]) (fun he => Or.inl (h.err_wd he))
    (by simp only [Reader.buffered]; split <;> omega)
  have he : (b.err.isSome || b.src.withData) = b.src.withData := by
    cases hw : b.src.withData with
    | true => simp
    | false =>
      cases hi : b.err.isSome with
      | false => rfl
      | true => have := h.err_wd hi; rw [hw] at this; exact absurd this (by simp)
  rw [he] at hl
  exact hl

/-! ### `ReadLine` -/

structure LineRes (b : Reader) (spec : Line × Bytes) (res : Line × Reader) : Prop where
  line_eq : res.1 = spec.1
  stream_eq : res.2.stream = spec.2
  inv : Inv res.2
  cfg : SameCfg b res.2

/-- **`ReadLine` is a function of the stream.** -/
theorem readLine_spec (b : Reader) (h : Inv b) :
    LineRes b (lineOf b.size b.src.fin b.src.withData b.stream) (readLine b) := by
  have hs := readSlice_spec 10 b h
  simp only [readLine, lineOf, beq_iff_eq, Bool.and_eq_true, decide_eq_true_eq]
  generalize readSlice 10 b = res at hs
  obtain ⟨line, err, b'⟩ := res
  generalize sliceOf b.size 10 b.src.fin b.src.withData b.stream = spec at hs
  obtain ⟨sl, se, st'⟩ := spec
  obtain ⟨h1, h2, h3, h4, h5, h6⟩ := hs
  simp only at h1 h2 h3 h4 h5 h6
  subst h1 h2
  simp only
  by_cases hfull : err = some .bufferFull
  · obtain ⟨hd, hr, herr, hrest⟩ := h6 hfull
    simp only [hfull, ↓reduceIte]
    by_cases hcr : line.getLast? = some 13
    · simp only [hcr, ↓reduceIte]
      refine ⟨rfl, ?_, ⟨⟨h4.size_ge, ?_, h4.prog, h4.fin_ne, ?_, ?_, ?_⟩, ?_⟩, h5⟩
      · simp only [Reader.stream] at h3 ⊢; rw [← h3, hd]; rfl
      · have := h.size_ge; have := h5.1
        simp only [hd, List.length_cons, List.length_nil]; omega
      · intro e he; simp only [herr] at he; exact absurd he (by simp)
      · intro hw hr2
        exfalso
        exact hrest (by rw [← h5.2.2.1]; exact hw) hr2
      · have hnp := h4.noPanic
        have h2 := h.size_ge
        simp only [hnp, Bool.false_or, beq_eq_false_iff_ne, ne_eq]
        omega
      · intro he; simp only [herr] at he; exact absurd he (by simp)
    · simp only [hcr, ↓reduceIte]
      exact ⟨rfl, h3, h4, h5⟩
  · simp only [hfull, ↓reduceIte]
    by_cases hlen : line.length = 0
    · simp only [hlen, ↓reduceIte]
      exact ⟨rfl, h3, h4, h5⟩
    · simp only [hlen, ↓reduceIte]
      by_cases hlf : line.getLast? = some 10
      · simp only [hlf, ↓reduceIte]
        exact ⟨rfl, h3, h4, h5⟩
      · simp only [hlf, ↓reduceIte]
        exact ⟨rfl, h3, h4, h5⟩

end Biogo.Go.Bufio
