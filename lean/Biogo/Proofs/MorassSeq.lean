/-
Third wave (C13, fault lists): invariants of the sorter model that hold whatever the caller's
program is and whatever faults are injected, and that say what state a `Clear` finds:

* `Low`      — a chunk buffer is never lost entirely (both modes): `pool`, the writers that hold a
               buffer, `writable` and the caller's `chunk` together hold at least one;
* `StrB 1`   — in sequential mode there is exactly one buffer in circulation;
* `Quiet`    — in sequential mode every `write()` activation has ended whenever the caller is
               between two calls (the hand-off is synchronous);
* `Consts`   — chunk size and AutoClear never change.

Together: in sequential mode a successful `Clear` always leaves a `Fresh` sorter with no live
writer (`clear_restores`), whatever happened before — reported errors, abandoned cycles, faults.
Core Lean only.
-/
import Biogo.Model.MorassConc
import Biogo.Proofs.MorassConc
import Biogo.Proofs.MorassCycle
import Biogo.Proofs.MorassHistory
import Biogo.Proofs.MorassReject

namespace Biogo.MorassConc
open Biogo.Morass Biogo.Interleave

/-! ### the caller's share of the buffers is not emptied by `Pull` / `Clear` -/

def mtok (m : Morass.State) : Nat := m.pool + b2n m.chunk.isSome

theorem clear_pos (m : Morass.State) (h : 1 ≤ mtok m) : 1 ≤ mtok (clear m) := by
  unfold clear
  split
  · simp [mtok, b2n]
  · rename_i hp
    have hp0 : m.pool = 0 := by omega
    unfold mtok at h ⊢
    cases hc : m.chunk with
    | none => simp [hc, hp0, b2n] at h
    | some ch => simp [b2n]

theorem clearF_pos (s : CState) (h : 1 ≤ mtok s.m) : 1 ≤ mtok (clearF s).1.m := by
  rcases clearF_spec s with ⟨_, e⟩ | ⟨_, e⟩ <;> rw [e]
  · exact h
  · exact clear_pos _ h

theorem condClear_pos (b : Bool) (s : CState) (h : 1 ≤ mtok s.m) :
    1 ≤ mtok (atEof (if b = true then (clearF s).1 else s)).m := by
  rw [atEof_m]
  cases b
  · exact h
  · exact clearF_pos s h

theorem pullF_pos (s : CState) (h : 1 ≤ mtok s.m) : 1 ≤ mtok (pullF s).1.m := by
  cases hf : s.m.fast
  · cases hpm : popMin s.m.files with
    | none =>
      have e1 : pullF s = (atEof (if s.m.autoClear = true then (clearF s).1 else s), .eof, none) := by
        simp [pullF, hf, hpm]
      rw [e1]; exact condClear_pos _ s h
    | some p =>
      obtain ⟨low, others⟩ := p
      cases ht : tick s.flt .pdecode with
      | mk bad flt =>
        cases bad <;> cases hr : low.rest <;> cases hh : low.head <;>
          simp [pullF, hf, hpm, ht, hr, hh, mtok] <;> exact h
  · cases hch : s.m.chunk with
    | none =>
      have e1 : pullF s = (atEof (if s.m.autoClear = true then (clearF s).1 else s), .eof, none) := by
        simp [pullF, hf, hch]
      rw [e1]; exact condClear_pos _ s h
    | some ch =>
      cases hg : ch[s.m.pos]? with
      | some e =>
        have e1 : pullF s = ({ s with m := { s.m with pos := s.m.pos + 1 } }, .ok, some e) := by
          simp [pullF, hf, hch, hg]
        rw [e1]; exact h
      | none =>
        by_cases h2 : 2 ≤ s.m.pool
        · have e1 : pullF s = (s, .hang, none) := by simp [pullF, hf, hch, hg, h2]
          rw [e1]; exact h
        · have e1 : pullF s = (atEof (if s.m.autoClear = true
                then (clearF { s with m := { s.m with pool := s.m.pool + 1, chunk := none } }).1
                else { s with m := { s.m with pool := s.m.pool + 1, chunk := none } }), .eof, none) := by
            simp [pullF, hf, hch, hg, h2]
          rw [e1]
          exact condClear_pos _ { s with m := { s.m with pool := s.m.pool + 1, chunk := none } }
            (by show 1 ≤ s.m.pool + 1 + b2n (none : Option (List Elem)).isSome; omega)

/-! ### `Low`: a chunk buffer is never lost entirely -/

def tokens (s : CState) : Nat := s.m.pool + cnt holding s + s.writable.buf.length + chunkTok s

def Low (s : CState) : Prop := 1 ≤ tokens s

theorem Low_init (conc : Bool) (c : Nat) (ac acl : Bool) (prog : List Op) (flt : Fault) (reuse : Bool) :
    Low (initState conc c ac acl prog flt reuse) := by
  cases conc <;> simp [Low, tokens, initState, cnt, chunkTok, b2n]

/-- a caller block that ends between calls and spawns nothing -/
theorem Low_idle {s t : CState} (hl : Low s) (hfrom : s.pc ≠ .finWrite) (hpc : t.pc = .idle)
    (hwr : t.writers = s.writers) (hwb : t.writable = s.writable)
    (htok : 1 ≤ s.m.pool + chunkTok s → 1 ≤ mtok t.m) : Low t := by
  have hc : cnt holding t = cnt holding s := cnt_eq_of holding hwr hfrom (by rw [hpc]; simp)
  have hk : chunkTok t = b2n t.m.chunk.isSome := chunkTok_idle (by rw [hpc]; simp)
  unfold Low tokens at hl ⊢
  rw [hc, hwb, hk]
  unfold mtok at htok
  by_cases h1 : 1 ≤ s.m.pool + chunkTok s
  · have := htok h1; omega
  · omega

/-- a caller block that only moves the caller to another step of the same call -/
theorem tokens_move {s t : CState} (hfrom : s.pc = .idle) (hpc : t.pc = .pushSend ∨ t.pc = .finSend)
    (hwr : t.writers = s.writers) (hwb : t.writable = s.writable) (hpool : t.m.pool = s.m.pool)
    (hch : t.m.chunk.isSome = s.m.chunk.isSome) : tokens t = tokens s := by
  have h1 : t.pc ≠ .finWrite := by rcases hpc with h | h <;> rw [h] <;> simp
  have h2 : t.pc ≠ .pushRecv := by rcases hpc with h | h <;> rw [h] <;> simp
  unfold tokens
  rw [cnt_eq_of holding hwr (by rw [hfrom]; simp) h1, chunkTok_idle h2,
    chunkTok_idle (s := s) (by rw [hfrom]; simp), hwb, hpool, hch]

theorem Low_CStep {s t : CState} (hs : Str s) (hl : Low s) (h : CStep s t) : Low t := by
  have hidle : ∀ (s1 : CState) (r : Res) (x : Option Elem), s.pc = .idle → s1.writers = s.writers →
      s1.writable = s.writable → (1 ≤ mtok s.m → 1 ≤ mtok s1.m) → Low (finishOp s1 r x) := by
    intro s1 r x hpc hw hb hm
    apply Low_idle (t := finishOp s1 r x) hl (by rw [hpc]; simp) rfl hw hb
    intro h1
    rw [chunkTok_idle (by rw [hpc]; simp)] at h1
    exact hm h1
  cases h with
  | pushErr e rest r hpc hprog herr => exact hidle s _ _ hpc rfl rfl id
  | pushNil e rest hpc hprog herr hch => exact hidle s _ _ hpc rfl rfl id
  | pushFull e rest ch hpc hprog herr hch hfull =>
    have e1 : tokens { s with pc := CPc.pushSend } = tokens s :=
      tokens_move hpc (Or.inl rfl) rfl rfl rfl rfl
    show 1 ≤ tokens _; rw [e1]; exact hl
  | pushRoom e rest ch hpc hprog herr hch hfull =>
    refine hidle { s with m := (push s.m e).1 } _ _ hpc rfl rfl ?_
    intro _
    simp [mtok, push, herr, hch, hfull, b2n]
  | finErr rest r hpc hprog herr => exact hidle s _ _ hpc rfl rfl id
  | finNil rest hpc hprog herr hch => exact hidle s _ _ hpc rfl rfl id
  | finFast rest ch hpc hprog herr hch hlt =>
    refine hidle { s with m := (finalise s.m).1 } _ _ hpc rfl rfl ?_
    intro _
    simp [mtok, finalise, herr, hch, hlt, b2n]
  | finDisk rest ch hpc hprog herr hch hlt hpos =>
    have e1 : tokens { s with m := { s.m with fast := false }, pc := CPc.finSend } = tokens s :=
      tokens_move hpc (Or.inr rfl) rfl rfl rfl rfl
    show 1 ≤ tokens _; rw [e1]; exact hl
  | finEmpty rest ch flt fs ok hpc hprog herr hch hlt hpos hp =>
    refine hidle { s with flt := flt, m := { s.m with fast := false, pos := 0, files := fs } } _ _ hpc rfl rfl ?_
    intro h1; exact h1
  | pull rest hpc hprog =>
    have f := pullF_frame s
    exact hidle _ _ _ hpc f.writers f.writable (pullF_pos s)
  | clear rest hpc hprog =>
    have f := clearF_frame s
    exact hidle _ _ _ hpc f.writers f.writable (clearF_pos s)
  | reject rest hpc hprog => exact hidle s _ _ hpc rfl rfl id
  | send ch wr hpc hch hsend =>
    obtain ⟨hb, _, _⟩ := Chan.send_buf hsend
    show 1 ≤ tokens _
    simp only [tokens]
    rw [hb]; simp only [List.length_append, List.length_cons, List.length_nil]; omega
  | recvErr e rest r hpc hpool hprog herr =>
    refine Low_idle (t := finishOp { s with m := { s.m with pool := s.m.pool - 1, chunk := some [] } } r none)
      hl (by rw [hpc]; simp) rfl rfl rfl ?_
    intro _; simp [finishOp, mtok, b2n]
  | recvOk e rest hpc hpool hprog herr =>
    refine Low_idle (t := finishOp { s with m := { s.m with pool := s.m.pool - 1, chunk := some [e], pos := s.m.pos + 1, len := s.m.len + 1 } } .ok none)
      hl (by rw [hpc]; simp) rfl rfl rfl ?_
    intro _; simp [finishOp, mtok, b2n]
  | fsend ch wr hpc hch hsend =>
    obtain ⟨hb, _, _⟩ := Chan.send_buf hsend
    show 1 ≤ tokens _
    simp only [tokens]
    rw [hb]; simp only [List.length_append, List.length_cons, List.length_nil]; omega
  | fwrite w s' hpc hw =>
    have hlive : live s.inl = true := by simp [live, hs.inlLive hpc]
    have hwg1 : 1 ≤ s.wg := by rw [hs.wg]; simp [cnt, hpc, hlive, b2n]
    have E := wstep_effect hw (fun _ => hwg1)
    have e3 : cnt holding { s' with inl := w, pc := if w.pc = WPc.done then CPc.finWait else CPc.finWrite }
        + b2n (holding s.inl) = cnt holding s + b2n (holding w) := by
      by_cases hd : w.pc = .done
      · simp [cnt, hd, (done_false hd).2.2, E.writers, hpc, b2n]
      · simp [cnt, hd, E.writers, hpc, b2n]; omega
    have htokeq : chunkTok { s' with inl := w, pc := if w.pc = WPc.done then CPc.finWait else CPc.finWrite } = chunkTok s := by
      by_cases hd : w.pc = .done <;> simp [chunkTok, hd, E.chunk, hpc] <;> cases s.m.chunk.isSome <;> rfl
    have a3 := E.tokEq
    unfold Low tokens at hl ⊢
    rw [htokeq]
    show 1 ≤ s'.m.pool + _ + s'.writable.buf.length + _
    omega
  | waitErr r hpc hwg herr =>
    refine Low_idle (t := finishOp s r none) hl (by rw [hpc]; simp) rfl rfl rfl ?_
    intro h1; rw [chunkTok_idle (by rw [hpc]; simp)] at h1; exact h1
  | waitOk flt fs ok hpc hwg herr hp =>
    refine Low_idle (t := finishOp { s with flt := flt, m := { s.m with pos := 0, files := fs } } (if ok then .ok else .ioerr) none)
      hl (by rw [hpc]; simp) rfl rfl rfl ?_
    intro h1; rw [chunkTok_idle (by rw [hpc]; simp)] at h1; exact h1

theorem Low_wactor {s s' : CState} {k : Nat} {w w' : Writer} (hs : Str s) (hl : Low s)
    (hk : s.writers[k]? = some w) (hw : wstep s w = some (w', s')) :
    Low { s' with writers := s'.writers.set k w' } := by
  have hwg1 : live w = true → 1 ≤ s.wg := by
    intro hl'; rw [hs.wg]; exact cnt_ge_of_mem live hk hl'
  have E := wstep_effect hw hwg1
  obtain ⟨hklt, hkw⟩ := List.getElem?_eq_some_iff.mp hk
  have e3 : cnt holding { s' with writers := s'.writers.set k w' } + b2n (holding w) = cnt holding s + b2n (holding w') := by
    have := countP_set' holding s.writers k w' hklt
    rw [hkw] at this
    simp only [cnt, E.writers, E.pc, E.inl]
    omega
  have a3 := E.tokEq
  have htok : chunkTok { s' with writers := s'.writers.set k w' } = chunkTok s := by
    simp [chunkTok, E.chunk, E.pc]
  unfold Low tokens at hl ⊢
  rw [htok]
  show 1 ≤ s'.m.pool + _ + s'.writable.buf.length + _
  omega

theorem Low_step {s t : CState} {i : Nat} (hs : Str s) (hl : Low s) (h : step s i = some t) : Low t := by
  cases i with
  | zero => exact Low_CStep hs hl (cstep_cases (show cstep s = some t from h))
  | succ k =>
    simp only [step] at h
    cases hk : s.writers[k]? with
    | none => simp [hk] at h
    | some w =>
      simp only [hk] at h
      cases hw : wstep s w with
      | none => simp [hw] at h
      | some p =>
        obtain ⟨w', s'⟩ := p
        simp only [hw, Option.some.injEq] at h; subst h
        exact Low_wactor hs hl hk hw

theorem reach_Low {conc : Bool} {c : Nat} {ac acl : Bool} {prog : List Op} {flt : Fault} {reuse : Bool} {s : CState}
    (h : Reach (sys conc c ac acl prog flt reuse) s) : Low s := by
  have : Str s ∧ Low s := by
    refine inv_of_reach _ (fun s => Str s ∧ Low s) ⟨Str_init _ _ _ _ _ _ _, Low_init _ _ _ _ _ _ _⟩ ?_ s h
    intro a i b hab hst
    exact ⟨Str_step hab.1 hst, Low_step hab.1 hab.2 hst⟩
  exact this.2

/-! ### sequential mode: one buffer, and no live writer between two calls -/

theorem Str1_init (c : Nat) (ac acl : Bool) (prog : List Op) (flt : Fault) (reuse : Bool) :
    StrB 1 (initState false c ac acl prog flt reuse) := by
  refine ⟨rfl, rfl, ?_, fun h => by simp [initState] at h, rfl, fun h => by simp [initState] at h⟩
  simp [initState, cnt, chunkTok, b2n]

theorem reach_Str1 {c : Nat} {ac acl : Bool} {prog : List Op} {flt : Fault} {reuse : Bool} {s : CState}
    (h : Reach (sys false c ac acl prog flt reuse) s) : StrB 1 s :=
  inv_of_reach _ (StrB 1) (Str1_init c ac acl prog flt reuse) (fun _ _ _ hs hst => Str_step hs hst) s h

theorem Str_of_Str1 {s : CState} (h : StrB 1 s) : Str s :=
  ⟨h.wg, h.chan, Nat.le_trans h.cap (by omega), h.recv, h.wcap, h.inlLive⟩

/-- the caller is between two calls, or at the hand-over of a full chunk before it has sent it -/
def AtRest (s : CState) : Prop := s.pc = .idle ∨ s.pc = .pushSend ∨ s.pc = .finSend

def Quiet (s : CState) : Prop := AtRest s → ∀ w ∈ s.writers, w.pc = .done

theorem done_of_not {w : Writer} (h1 : atRecv w = false) (h2 : holding w = false) : w.pc = .done := by
  cases hpc : w.pc <;> simp [atRecv, holding, hpc] at h1 h2 ⊢

theorem all_done_of_counts {s : CState} (hpc : s.pc ≠ .finWrite) (h1 : cnt atRecv s = 0) (h2 : cnt holding s = 0) :
    ∀ w ∈ s.writers, w.pc = .done := by
  have e : (s.pc == CPc.finWrite) = false := by simpa using hpc
  simp only [cnt, e, Bool.false_and, b2n, Bool.false_eq_true, if_false, Nat.add_zero] at h1 h2
  intro w hw
  have a := List.countP_eq_zero.mp h1 w hw
  have b := List.countP_eq_zero.mp h2 w hw
  exact done_of_not (by simpa using a) (by simpa using b)

/-- sequential mode: when `Push` gets a buffer back from `pool` every writer has ended -/
theorem quiet_of_pool {s : CState} (hs : StrB 1 s) (hpc : s.pc = .pushRecv) (hpool : s.m.pool ≠ 0) :
    ∀ w ∈ s.writers, w.pc = .done := by
  have hcap := hs.cap
  have hchan := hs.chan
  apply all_done_of_counts (by rw [hpc]; simp) <;> omega

theorem quiet_of_wg {s : CState} (hs : StrB 1 s) (hpc : s.pc = .finWait) (hwg : s.wg = 0) :
    ∀ w ∈ s.writers, w.pc = .done := by
  have h0 := hs.wg
  rw [hwg] at h0
  have e : (s.pc == CPc.finWrite) = false := by rw [hpc]; rfl
  simp only [cnt, e, Bool.false_and, b2n, Bool.false_eq_true, if_false, Nat.add_zero] at h0
  intro w hw
  have a := List.countP_eq_zero.mp h0.symm w hw
  simpa [live] using a

theorem Quiet_CStep {s t : CState} (hs : StrB 1 s) (hq : Quiet s) (h : CStep s t) : Quiet t := by
  have keep : ∀ (t : CState), s.pc = .idle → t.writers = s.writers → Quiet t := by
    intro t hpc hw _ w hm
    rw [hw] at hm
    exact hq (Or.inl hpc) w hm
  have nrest : ∀ (t : CState), t.pc ≠ .idle → t.pc ≠ .pushSend → t.pc ≠ .finSend → Quiet t := by
    intro t h1 h2 h3 hr
    rcases hr with hr | hr | hr
    · exact absurd hr h1
    · exact absurd hr h2
    · exact absurd hr h3
  cases h with
  | pushErr e rest r hpc hprog herr => exact keep _ hpc rfl
  | pushNil e rest hpc hprog herr hch => exact keep _ hpc rfl
  | pushFull e rest ch hpc hprog herr hch hfull => exact keep _ hpc rfl
  | pushRoom e rest ch hpc hprog herr hch hfull => exact keep _ hpc rfl
  | finErr rest r hpc hprog herr => exact keep _ hpc rfl
  | finNil rest hpc hprog herr hch => exact keep _ hpc rfl
  | finFast rest ch hpc hprog herr hch hlt => exact keep _ hpc rfl
  | finDisk rest ch hpc hprog herr hch hlt hpos => exact keep _ hpc rfl
  | finEmpty rest ch flt fs ok hpc hprog herr hch hlt hpos hp => exact keep _ hpc rfl
  | pull rest hpc hprog => exact keep _ hpc (pullF_frame s).writers
  | clear rest hpc hprog => exact keep _ hpc (clearF_frame s).writers
  | reject rest hpc hprog => exact keep _ hpc rfl
  | send ch wr hpc hch hsend => exact nrest _ (by simp) (by simp) (by simp)
  | recvErr e rest r hpc hpool hprog herr => exact fun _ => quiet_of_pool (s := s) hs hpc hpool
  | recvOk e rest hpc hpool hprog herr => exact fun _ => quiet_of_pool (s := s) hs hpc hpool
  | fsend ch wr hpc hch hsend => exact nrest _ (by simp) (by simp) (by simp)
  | fwrite w s' hpc hw =>
    apply nrest
    · show (if w.pc = WPc.done then CPc.finWait else CPc.finWrite) ≠ _; split <;> simp
    · show (if w.pc = WPc.done then CPc.finWait else CPc.finWrite) ≠ _; split <;> simp
    · show (if w.pc = WPc.done then CPc.finWait else CPc.finWrite) ≠ _; split <;> simp
  | waitErr r hpc hwg herr => exact fun _ => quiet_of_wg (s := s) hs hpc hwg
  | waitOk flt fs ok hpc hwg herr hp => exact fun _ => quiet_of_wg (s := s) hs hpc hwg

theorem Quiet_step {s t : CState} {i : Nat} (hs : StrB 1 s) (hq : Quiet s) (h : step s i = some t) : Quiet t := by
  cases i with
  | zero => exact Quiet_CStep hs hq (cstep_cases (show cstep s = some t from h))
  | succ k =>
    simp only [step] at h
    cases hk : s.writers[k]? with
    | none => simp [hk] at h
    | some w =>
      simp only [hk] at h
      cases hw : wstep s w with
      | none => simp [hw] at h
      | some p =>
        obtain ⟨w', s'⟩ := p
        simp only [hw, Option.some.injEq] at h; subst h
        intro hr
        exfalso
        have hpc : s'.pc = s.pc := (wstep_mu hw).2.2
        have hr' : AtRest s := by
          rcases hr with hr | hr | hr
          · exact Or.inl (by rw [← hpc]; exact hr)
          · exact Or.inr (Or.inl (by rw [← hpc]; exact hr))
          · exact Or.inr (Or.inr (by rw [← hpc]; exact hr))
        have hd := hq hr' w (List.mem_of_getElem? hk)
        rw [wstep_done_none s hd] at hw; cases hw

theorem reach_Quiet {c : Nat} {ac acl : Bool} {prog : List Op} {flt : Fault} {reuse : Bool} {s : CState}
    (h : Reach (sys false c ac acl prog flt reuse) s) : Quiet s := by
  have : StrB 1 s ∧ Quiet s := by
    refine inv_of_reach _ (fun s => StrB 1 s ∧ Quiet s) ⟨Str1_init _ _ _ _ _ _, fun _ w hw => by simp [sys, initState] at hw⟩ ?_ s h
    intro a i b hab hst
    exact ⟨Str_step hab.1 hst, Quiet_step hab.1 hab.2 hst⟩
  exact this.2

/-! ### chunk size and AutoClear never change -/

def Consts (c : Nat) (ac : Bool) (s : CState) : Prop := s.m.chunkSize = c ∧ s.m.autoClear = ac

theorem wstep_consts {s s' : CState} {w w' : Writer} (h : wstep s w = some (w', s')) :
    s'.m.chunkSize = s.m.chunkSize ∧ s'.m.autoClear = s.m.autoClear := by
  unfold wstep at h
  cases hpc : w.pc <;> simp only [hpc] at h
  · cases hr : s.writable.recv with
    | none => simp [hr] at h
    | some p =>
      obtain ⟨r, ch⟩ := p
      simp only [hr] at h
      cases ht : tick s.flt .tempfile with
      | mk bad flt =>
        simp only [ht] at h
        cases bad <;> simp only [Bool.false_eq_true, if_false, if_true, Option.some.injEq, Prod.mk.injEq] at h <;>
          obtain ⟨_, rfl⟩ := h <;> exact ⟨rfl, rfl⟩
  · simp only [Option.some.injEq, Prod.mk.injEq] at h; obtain ⟨_, rfl⟩ := h; exact ⟨rfl, rfl⟩
  · cases htodo : w.todo with
    | nil => simp only [htodo, Option.some.injEq, Prod.mk.injEq] at h; obtain ⟨_, rfl⟩ := h; exact ⟨rfl, rfl⟩
    | cons e t =>
      simp only [htodo] at h
      cases ht : tick s.flt .encode with
      | mk bad flt =>
        simp only [ht] at h
        cases bad <;> simp only [Bool.false_eq_true, if_false, if_true, Option.some.injEq, Prod.mk.injEq] at h <;>
          obtain ⟨_, rfl⟩ := h <;> exact ⟨rfl, rfl⟩
  · cases ht : tick s.flt .sync with
    | mk bad flt =>
      simp only [ht, Option.some.injEq, Prod.mk.injEq] at h
      obtain ⟨_, rfl⟩ := h
      cases bad <;> exact ⟨rfl, rfl⟩
  · split at h
    · simp only [Option.some.injEq, Prod.mk.injEq] at h; obtain ⟨_, rfl⟩ := h; exact ⟨rfl, rfl⟩
    · simp at h
  · simp at h

theorem Consts_CStep {c : Nat} {ac : Bool} {s t : CState} (hk : Consts c ac s) (h : CStep s t) : Consts c ac t := by
  cases h with
  | pushErr e rest r hpc hprog herr => exact hk
  | pushNil e rest hpc hprog herr hch => exact hk
  | pushFull e rest ch hpc hprog herr hch hfull => exact hk
  | pushRoom e rest ch hpc hprog herr hch hfull =>
    show (push s.m e).1.chunkSize = c ∧ (push s.m e).1.autoClear = ac
    simp [push, herr, hch, hfull]; exact hk
  | finErr rest r hpc hprog herr => exact hk
  | finNil rest hpc hprog herr hch => exact hk
  | finFast rest ch hpc hprog herr hch hlt =>
    show (finalise s.m).1.chunkSize = c ∧ (finalise s.m).1.autoClear = ac
    simp [finalise, herr, hch, hlt]; exact hk
  | finDisk rest ch hpc hprog herr hch hlt hpos => exact hk
  | finEmpty rest ch flt fs ok hpc hprog herr hch hlt hpos hp => exact hk
  | pull rest hpc hprog =>
    have f := pullF_frame s
    exact ⟨f.cs.trans hk.1, f.ac.trans hk.2⟩
  | clear rest hpc hprog =>
    have f := clearF_frame s
    exact ⟨f.cs.trans hk.1, f.ac.trans hk.2⟩
  | reject rest hpc hprog => exact hk
  | send ch wr hpc hch hsend => exact hk
  | recvErr e rest r hpc hpool hprog herr => exact hk
  | recvOk e rest hpc hpool hprog herr => exact hk
  | fsend ch wr hpc hch hsend => exact hk
  | fwrite w s' hpc hw =>
    obtain ⟨h1, h2⟩ := wstep_consts hw
    exact ⟨h1.trans hk.1, h2.trans hk.2⟩
  | waitErr r hpc hwg herr => exact hk
  | waitOk flt fs ok hpc hwg herr hp => exact hk

theorem Consts_step {c : Nat} {ac : Bool} {s t : CState} {i : Nat} (hk : Consts c ac s) (h : step s i = some t) :
    Consts c ac t := by
  cases i with
  | zero => exact Consts_CStep hk (cstep_cases (show cstep s = some t from h))
  | succ k =>
    simp only [step] at h
    cases hk' : s.writers[k]? with
    | none => simp [hk'] at h
    | some w =>
      simp only [hk'] at h
      cases hw : wstep s w with
      | none => simp [hw] at h
      | some p =>
        obtain ⟨w', s'⟩ := p
        simp only [hw, Option.some.injEq] at h; subst h
        obtain ⟨h1, h2⟩ := wstep_consts hw
        exact ⟨h1.trans hk.1, h2.trans hk.2⟩

theorem reach_Consts {conc : Bool} {c : Nat} {ac acl : Bool} {prog : List Op} {flt : Fault} {reuse : Bool} {s : CState}
    (h : Reach (sys conc c ac acl prog flt reuse) s) : Consts c ac s :=
  inv_of_reach _ (Consts c ac) ⟨rfl, rfl⟩ (fun _ _ _ hs hst => Consts_step hs hst) s h

/-! ### what a successful `Clear` finds and leaves in sequential mode -/

/-- the invariants of sequential mode, for every program, fault list and schedule -/
structure SeqInv (c : Nat) (ac : Bool) (s : CState) : Prop where
  str1 : StrB 1 s
  low : Low s
  quiet : Quiet s
  consts : Consts c ac s

theorem reach_SeqInv {c : Nat} {ac acl : Bool} {prog : List Op} {flt : Fault} {reuse : Bool} {s : CState}
    (h : Reach (sys false c ac acl prog flt reuse) s) : SeqInv c ac s :=
  ⟨reach_Str1 h, reach_Low h, reach_Quiet h, reach_Consts h⟩

/-- **A successful `Clear` that finds no live writer leaves a fresh sorter** (either mode),
    whatever came before it (reported errors, cycles given up half-way, any faults). -/
theorem clear_restores_of_quiet {c : Nat} {ac : Bool} {sp : CState} (hs : Str sp) (hl : Low sp)
    (hk : Consts c ac sp) (hpc : sp.pc = .idle) (hq : ∀ w ∈ sp.writers, w.pc = .done)
    (hok : (clearF sp).2 = .ok) :
    Fresh c ac 1 (finishOp (clearF sp).1 .ok none).m ∧ (∀ w ∈ (finishOp (clearF sp).1 .ok none).writers, w.pc = .done) := by
  have hm : (clearF sp).1.m = clear sp.m := by
    rcases clearF_spec sp with ⟨h1, _⟩ | ⟨_, h2⟩
    · rw [hok] at h1; cases h1
    · exact h2
  have hfr := clearF_frame sp
  refine ⟨?_, ?_⟩
  · show Fresh c ac 1 (clearF sp).1.m
    rw [hm]
    -- the caller's share of the buffers: at least one, at most two
    have hcap := hs.cap
    have hlow := hl
    have h0 : cnt holding sp = 0 := by
      have e : (sp.pc == CPc.finWrite) = false := by rw [hpc]; rfl
      simp only [cnt, e, Bool.false_and, b2n, Bool.false_eq_true, if_false, Nat.add_zero]
      apply List.countP_eq_zero.mpr
      intro w hw; simp [holding, hq w hw]
    have hwb : sp.writable.buf = [] := wb_nil_of_done hs (by rw [hpc]; simp) hq
    have hkk : chunkTok sp = b2n sp.m.chunk.isSome := chunkTok_idle (by rw [hpc]; simp)
    unfold Low tokens at hlow
    rw [h0, hwb, hkk] at hlow hcap
    simp only [List.length_nil, Nat.add_zero] at hlow hcap
    apply clear_fresh_of hk.1 hk.2 (by omega)
    intro hp0 hnone
    rw [hp0, hnone] at hlow
    simp [b2n] at hlow
  · show ∀ w ∈ (clearF sp).1.writers, _
    rw [hfr.writers]; exact hq

/-- **Sequential mode: a successful `Clear` always leaves a fresh sorter with no live writer**,
    whatever came before it. -/
theorem clear_restores {c : Nat} {ac : Bool} {sp : CState} (hi : SeqInv c ac sp) (hpc : sp.pc = .idle)
    (hok : (clearF sp).2 = .ok) :
    Fresh c ac 1 (finishOp (clearF sp).1 .ok none).m ∧ (∀ w ∈ (finishOp (clearF sp).1 .ok none).writers, w.pc = .done) :=
  clear_restores_of_quiet (Str_of_Str1 hi.str1) hi.low hi.consts hpc (hi.quiet (Or.inl hpc)) hok

/-! ### a fresh sorter with no live writer starts a history afresh -/

/-- everything that happened before is hidden: all writers, all outputs, nothing of the program -/
def restartView (s0 : CState) : View := ⟨s0.writers.length, s0.outs.length, 0⟩

theorem HInv_fresh (c : Nat) (ac : Bool) {s0 : CState} (hs : Str s0) (hpc : s0.pc = .idle)
    (hq : ∀ w ∈ s0.writers, w.pc = .done) (hfr : Fresh c ac 1 s0.m) (cy : Cycle) (todo : List Cycle)
    (hwf : wellFormed ac (cy :: todo) = true) (hprog : s0.prog = histOps (cy :: todo)) :
    HInv c ac (cy :: todo) (proj (restartView s0) s0) := by
  have hwb : s0.writable.buf = [] := wb_nil_of_done hs (by rw [hpc]; simp) hq
  have hP : (proj (restartView s0) s0).prog = cy.ops ++ histOps todo := by
    show s0.prog.take (s0.prog.length - 0) = _
    rw [Nat.sub_zero, List.take_length, hprog]; simp [histOps]
  have hp : (proj (viewOf [] todo 0) (proj (restartView s0) s0)).prog = cy.ops := by
    show (proj (restartView s0) s0).prog.take ((proj (restartView s0) s0).prog.length - (histOps todo).length) = _
    rw [hP, List.length_append, Nat.add_sub_cancel, List.take_left']
    rfl
  have hw : (proj (viewOf [] todo 0) (proj (restartView s0) s0)).writers = [] := by
    simp [proj, viewOf, restartView]
  have ho : (proj (viewOf [] todo 0) (proj (restartView s0) s0)).outs = [] := by
    simp [proj, viewOf, restartView]
  refine Or.inr ⟨[], cy, todo, [], 0, rfl, rfl, hwf, Nat.zero_le _, by simp, ?_, ?_, ?_, ?_⟩
  · rw [ho]; simp [proj, restartView]
  · rw [hp]; exact hP
  · refine Or.inr (Or.inr ⟨hfr.err, Or.inl ⟨[], cy.pushes, [], [], ?_⟩⟩)
    refine ⟨by simp, ?_, ?_, hfr.pos, hfr.len, hfr.cs, hfr.ac, hfr.chunk, by simp,
      fun _ => ⟨hfr.files, hwb⟩, ?_, Or.inl ⟨hpc, rfl, ?_, fun h => absurd hw h⟩⟩
    · rw [hp]; exact cycle_ops_eq cy
    · rw [ho]; simp [pushOuts]
    · show DI s0.writable.buf (proj _ (proj _ s0)).writers s0.m.files [] []
      rw [hw, hwb, hfr.files]; exact DI_init
    · rw [hw]; simp
  · left; rw [hp]; exact cycle_ops_ne cy

/-! ### the history invariant of the restarted view is kept by every step -/

/-- while the caller is inside a call its program is not exhausted -/
def ProgLive (s : CState) : Prop := Ctl s ∧ ErrOK s ∧ FinProg s

theorem ProgLive_ne {s t : CState} (h : ProgLive s) (hst : cstep s = some t) : s.prog ≠ [] := by
  intro h0
  cases hpc : s.pc
  · simp [cstep, hpc, h0] at hst
  · obtain ⟨e, rest, hp⟩ := h.1.pushProg (Or.inl hpc); rw [h0] at hp; cases hp
  · obtain ⟨e, rest, hp⟩ := h.1.pushProg (Or.inr hpc); rw [h0] at hp; cases hp
  · obtain ⟨rest, hp⟩ := h.2.2 (Or.inl hpc); rw [h0] at hp; cases hp
  · obtain ⟨rest, hp⟩ := h.2.2 (Or.inr (Or.inl hpc)); rw [h0] at hp; cases hp
  · obtain ⟨rest, hp⟩ := h.2.2 (Or.inr (Or.inr hpc)); rw [h0] at hp; cases hp

theorem ProgLive_step {s t : CState} {i : Nat} (hs : Str s) (h : ProgLive s) (hst : step s i = some t) : ProgLive t :=
  ⟨Ctl_step hs h.1 hst, (erase_step h.2.1 h.2.2 hst).2⟩

theorem reach_ProgLive {conc : Bool} {c : Nat} {ac acl : Bool} {prog : List Op} {flt : Fault} {reuse : Bool} {s : CState}
    (h : Reach (sys conc c ac acl prog flt reuse) s) : ProgLive s := by
  have : Str s ∧ ProgLive s := by
    refine inv_of_reach _ (fun s => Str s ∧ ProgLive s) ⟨Str_init _ _ _ _ _ _ _, Ctl_trivial (Or.inl rfl), ?_, ?_⟩ ?_ s h
    · simp [ErrOK, sys, initState]
    · intro hp; rcases hp with hp | hp | hp <;> simp [sys, initState] at hp
    · intro a i b hab hst
      exact ⟨Str_step hab.1 hst, ProgLive_step hab.1 hab.2 hst⟩
  exact this.2

/-- the part of the state a restarted view relies on -/
structure Restarted (c : Nat) (ac : Bool) (H : List Cycle) (v : View) (s : CState) : Prop where
  str : Str s
  live : ProgLive s
  nrest : v.nrest = 0
  n0le : v.n0 ≤ s.writers.length
  old : ∀ w ∈ s.writers.take v.n0, w.pc = .done
  npre : v.npre ≤ s.outs.length
  inv : HInv c ac H (proj v s)

theorem Restarted_step {c : Nat} {ac : Bool} {H : List Cycle} {v : View} {s t : CState} {i : Nat} (hc : 1 ≤ c)
    (h : Restarted c ac H v s) (hst : step s i = some t) : Restarted c ac H v t := by
  have hs' : Str t := Str_step h.str hst
  have hl' : ProgLive t := ProgLive_step h.str h.live hst
  have hSp : Str (proj v s) := Str_proj v h.str h.old
  cases i with
  | zero =>
    have hcs : CStep s t := cstep_cases (show cstep s = some t from hst)
    have hne : s.prog ≠ [] := ProgLive_ne h.live (show cstep s = some t from hst)
    have hp : v.nrest < s.prog.length := by
      rw [h.nrest]; exact List.length_pos_iff.mpr hne
    have hcs' := proj_CStep v h.n0le h.npre hp hcs
    have hinv' : HInv c ac H (proj v t) :=
      HInv_step c ac hc hSp h.inv (i := 0) (cstep_of_CStep hcs')
    rcases CStep_shape hcs with ⟨ho, _, hw⟩ | ⟨s1, r, x, rfl, ho, _, hw, _⟩
    · refine ⟨hs', hl', h.nrest, ?_, ?_, by rw [ho]; exact h.npre, hinv'⟩
      · rcases hw with hw | hw <;> rw [hw]
        · exact h.n0le
        · simp only [List.length_append, List.length_cons, List.length_nil]
          exact Nat.le_trans h.n0le (Nat.le_add_right _ _)
      · rcases hw with hw | hw <;> rw [hw]
        · exact h.old
        · rw [List.take_append_of_le_length h.n0le]; exact h.old
    · refine ⟨hs', hl', h.nrest, ?_, ?_, ?_, hinv'⟩
      · show v.n0 ≤ s1.writers.length; rw [hw]; exact h.n0le
      · show ∀ w ∈ s1.writers.take v.n0, _; rw [hw]; exact h.old
      · show v.npre ≤ (_ :: s1.outs).length
        rw [ho]; simp only [List.length_cons]; exact Nat.le_trans h.npre (Nat.le_add_right _ _)
  | succ k =>
    simp only [step] at hst
    cases hk : s.writers[k]? with
    | none => simp [hk] at hst
    | some w =>
      simp only [hk] at hst
      cases hw : wstep s w with
      | none => simp [hw] at hst
      | some p =>
        obtain ⟨w', s1⟩ := p
        simp only [hw, Option.some.injEq] at hst; subst hst
        obtain ⟨e1, e2, e3⟩ := wstep_wop hw
        have hklt : k < s.writers.length := (List.getElem?_eq_some_iff.mp hk).1
        have hge : v.n0 ≤ k := by
          by_cases hlt : k < v.n0
          · exfalso
            have hm : w ∈ s.writers.take v.n0 := by
              apply List.mem_iff_getElem?.mpr
              exact ⟨k, by rw [List.getElem?_take_of_lt hlt]; exact hk⟩
            rw [wstep_done_none s (h.old w hm)] at hw; cases hw
          · omega
        have hk' : (proj v s).writers[k - v.n0]? = some w := by
          show (s.writers.drop v.n0)[k - v.n0]? = some w
          rw [List.getElem?_drop]
          have : v.n0 + (k - v.n0) = k := by omega
          rw [this]; exact hk
        have hw' := proj_wstep v hw
        have hstep' : step (proj v s) (k - v.n0 + 1)
            = some (proj v { s1 with writers := s1.writers.set k w' }) := by
          simp only [step, hk', hw']
          congr 1
          show _ = proj _ _
          simp only [proj]
          rw [drop_set_ge _ _ _ _ hge]
        have hinv' := HInv_step c ac hc hSp h.inv hstep'
        refine ⟨hs', hl', h.nrest, ?_, ?_, ?_, hinv'⟩
        · show v.n0 ≤ (s1.writers.set k w').length
          rw [List.length_set, e1]; exact h.n0le
        · show ∀ w ∈ (s1.writers.set k w').take v.n0, _
          rw [take_set_ge _ _ _ _ hge, e1]; exact h.old
        · show v.npre ≤ s1.outs.length
          rw [e2]; exact h.npre

theorem Restarted_run {c : Nat} {ac : Bool} {H : List Cycle} {v : View} (hc : 1 ≤ c) (S : Sys CState Nat)
    (hS : S.step = step) : ∀ (sched : List Nat) (s t : CState), Restarted c ac H v s →
    runFrom S s sched = some t → Restarted c ac H v t := by
  intro sched
  induction sched with
  | nil => intro s t h hr; simp only [runFrom, Option.some.injEq] at hr; subst hr; exact h
  | cons i is ih =>
    intro s t h hr
    simp only [runFrom] at hr
    cases hst : S.step s i with
    | none => simp [hst] at hr
    | some s' =>
      simp only [hst] at hr
      rw [hS] at hst
      exact ih s' t (Restarted_step hc h hst) hr

end Biogo.MorassConc
