/-
`concurrent.Map` cuts its input into chunks that partition it — for every length, thread count
and maximum chunk size (both at least 1).
-/
import Biogo.Model.Processor

namespace Biogo.Processor

theorem tiles_chunksFrom (n chunk : Nat) (hc : 0 < chunk) :
    ∀ fuel s, n ≤ fuel + s * chunk → tiles n (min (s * chunk) n) (chunksFrom n chunk fuel s) = true := by
  intro fuel
  induction fuel with
  | zero =>
    intro s h
    simp only [chunksFrom, tiles]
    simp; omega
  | succ fuel ih =>
    intro s h
    simp only [chunksFrom]
    split
    · rename_i hlt
      have h1 : chunk * s = s * chunk := Nat.mul_comm _ _
      have h2 : chunk * (s + 1) = (s + 1) * chunk := Nat.mul_comm _ _
      have h3 : (s + 1) * chunk = s * chunk + chunk := Nat.succ_mul _ _
      have hnext := ih (s + 1) (by omega)
      simp only [tiles, Bool.and_eq_true, beq_iff_eq, decide_eq_true_eq]
      refine ⟨⟨by omega, by omega⟩, ?_⟩
      rw [h2]; exact hnext
    · rename_i hge
      simp only [tiles]
      simp; omega

theorem tiles_chunks (n chunk : Nat) (hc : 0 < chunk) : tiles n 0 (chunks n chunk) = true := by
  have := tiles_chunksFrom n chunk hc n 0 (by omega)
  simpa [chunks] using this

/-- tiling chunks, concatenated, give back the rest of the list -/
theorem tiles_join {α : Type} (xs : List α) :
    ∀ (cs : List (Nat × Nat)) (pos : Nat), tiles xs.length pos cs = true →
      cs.flatMap (slice xs) = xs.drop pos := by
  intro cs
  induction cs with
  | nil =>
    intro pos h
    simp [tiles] at h
    simp [h]
  | cons p rest ih =>
    intro pos h
    obtain ⟨a, b⟩ := p
    simp only [tiles, Bool.and_eq_true, beq_iff_eq, decide_eq_true_eq] at h
    obtain ⟨⟨ha, hab⟩, hrest⟩ := h
    subst ha
    rw [List.flatMap_cons, ih b hrest]
    simp only [slice]
    have : xs.drop b = (xs.drop a).drop (b - a) := by
      rw [List.drop_drop]; congr 1; omega
    rw [this, List.take_append_drop]

theorem tiles_bounds (n : Nat) :
    ∀ (cs : List (Nat × Nat)) (pos : Nat), tiles n pos cs = true →
      ∀ p ∈ cs, pos ≤ p.1 ∧ p.1 < p.2 ∧ p.2 ≤ n := by
  intro cs
  induction cs with
  | nil => intro pos _ p hp; cases hp
  | cons q rest ih =>
    intro pos h p hp
    obtain ⟨a, b⟩ := q
    simp only [tiles, Bool.and_eq_true, beq_iff_eq, decide_eq_true_eq] at h
    obtain ⟨⟨ha, hab⟩, hrest⟩ := h
    subst ha
    cases hp with
    | head =>
      refine ⟨Nat.le_refl _, hab, ?_⟩
      -- the end of the first chunk is at most n because the rest tiles up to n
      cases rest with
      | nil => simp [tiles] at hrest; omega
      | cons q2 rest2 =>
        have := ih b hrest q2 (List.mem_cons_self ..)
        omega
    | tail _ hmem =>
      have := ih b hrest p hmem
      omega

theorem chunkSize_pos (n threads maxChunk : Nat) (hn : 0 < n) (ht : 0 < threads) (hm : 0 < maxChunk) :
    0 < chunkSize n threads maxChunk := by
  unfold chunkSize
  have : 0 < (n + threads - 1) / threads := Nat.div_pos (by omega) ht
  omega

theorem chunks_zero (chunk : Nat) : chunks 0 chunk = [] := rfl

end Biogo.Processor
