/-
Recursive (suffix-oriented) forms of the three linear-gap recurrences and their optimality
against `Spec.Alignment`: for every scoring function, `gRec S false r q` is the maximum score of
a global alignment of `r` with `q`; `gRec S true r q` (gap scores ≤ 0) the maximum over global
alignments of a prefix of `r` with all of `q`; `swRec S r q` (gap scores ≤ 0) the maximum over
global alignments of a prefix of `r` with a prefix of `q`.  The table cells of the model are
these functions on reversed prefixes (`Proofs/AlignLinTable.lean`).
-/
import Biogo.Model.AlignLin

namespace Biogo.Proofs.AlignLin
open Biogo.Spec.Alignment Biogo.AlignLin

theorem max3_ge_left (a b c : Int) : a ≤ max3 a b c := by
  simp only [max3]; split <;> split <;> omega
theorem max3_ge_mid (a b c : Int) : b ≤ max3 a b c := by
  simp only [max3]; split <;> split <;> omega
theorem max3_ge_right (a b c : Int) : c ≤ max3 a b c := by
  simp only [max3]; split <;> split <;> omega
theorem max3_cases (a b c : Int) : max3 a b c = a ∨ max3 a b c = b ∨ max3 a b c = c := by
  simp only [max3]; split <;> split <;> omega

/-- the recurrence of NW (`free = false`) and Fitted (`free = true`), consuming both
    sequences from the front -/
def gRec (S : Matrix) (free : Bool) : List Nat → List Nat → Int
  | [], [] => 0
  | [], b :: q => gRec S free [] q + S 0 b
  | a :: r, [] => if free then 0 else gRec S free r [] + S a 0
  | a :: r, b :: q =>
    max3 (gRec S free r q + S a b) (gRec S free r (b :: q) + S a 0) (gRec S free (a :: r) q + S 0 b)
termination_by r q => r.length + q.length

/-- the recurrence of SW -/
def swRec (S : Matrix) : List Nat → List Nat → Int
  | [], _ => 0
  | _ :: _, [] => 0
  | a :: r, b :: q =>
    let sc := max3 (swRec S r q + S a b) (swRec S r (b :: q) + S a 0) (swRec S (a :: r) q + S 0 b)
    if sc > 0 then sc else 0
termination_by r q => r.length + q.length

/-- the gap scores of all letters that occur are non-positive -/
def GapsNonPos (S : Matrix) (r q : List Nat) : Prop := (∀ x ∈ r, S x 0 ≤ 0) ∧ (∀ y ∈ q, S 0 y ≤ 0)

theorem isGlobal_nil {r q : List Nat} (h : IsGlobal [] r q) : r = [] ∧ q = [] := by
  simp [IsGlobal, projR, projQ] at h; exact ⟨h.1, h.2⟩

/-! ### NW -/

theorem nwRec_upper (S : Matrix) : ∀ (a : Aln) (r q : List Nat), IsGlobal a r q →
    scoreLin S a ≤ gRec S false r q := by
  intro a
  induction a with
  | nil => intro r q h; obtain ⟨rfl, rfl⟩ := isGlobal_nil h; simp [scoreLin, gRec]
  | cons c a ih =>
    intro r q h
    cases c with
    | m x y =>
      simp only [IsGlobal, projR, projQ] at h
      obtain ⟨rfl, rfl⟩ := h
      have := ih (projR a) (projQ a) ⟨rfl, rfl⟩
      have h1 := max3_ge_left (gRec S false (projR a) (projQ a) + S x y)
        (gRec S false (projR a) (y :: projQ a) + S x 0) (gRec S false (x :: projR a) (projQ a) + S 0 y)
      simp only [scoreLin, colScore, gRec]; omega
    | u x =>
      simp only [IsGlobal, projR, projQ] at h
      obtain ⟨rfl, rfl⟩ := h
      have := ih (projR a) (projQ a) ⟨rfl, rfl⟩
      cases hq : projQ a with
      | nil => rw [hq] at this; simp [scoreLin, colScore, gRec]; omega
      | cons y q' =>
        rw [hq] at this
        have h1 := max3_ge_mid (gRec S false (projR a) q' + S x y)
          (gRec S false (projR a) (y :: q') + S x 0) (gRec S false (x :: projR a) q' + S 0 y)
        simp only [scoreLin, colScore, gRec]; omega
    | l y =>
      simp only [IsGlobal, projR, projQ] at h
      obtain ⟨rfl, rfl⟩ := h
      have := ih (projR a) (projQ a) ⟨rfl, rfl⟩
      cases hr : projR a with
      | nil => rw [hr] at this; simp only [scoreLin, colScore, gRec]; omega
      | cons x r' =>
        rw [hr] at this
        have h1 := max3_ge_right (gRec S false r' (projQ a) + S x y)
          (gRec S false r' (y :: projQ a) + S x 0) (gRec S false (x :: r') (projQ a) + S 0 y)
        simp only [scoreLin, colScore, gRec]; omega

theorem nwRec_attain (S : Matrix) : ∀ (r q : List Nat),
    ∃ a, IsGlobal a r q ∧ scoreLin S a = gRec S false r q := by
  intro r
  induction r with
  | nil =>
    intro q
    induction q with
    | nil => exact ⟨[], ⟨rfl, rfl⟩, by simp [scoreLin, gRec]⟩
    | cons b q ih =>
      obtain ⟨a, ⟨h1, h2⟩, hs⟩ := ih
      exact ⟨.l b :: a, ⟨by simp [projR, h1], by simp [projQ, h2]⟩, by simp only [scoreLin, colScore, gRec]; omega⟩
  | cons a r ihr =>
    intro q
    induction q with
    | nil =>
      obtain ⟨al, ⟨h1, h2⟩, hs⟩ := ihr []
      exact ⟨.u a :: al, ⟨by simp [projR, h1], by simp [projQ, h2]⟩, by simp [scoreLin, colScore, gRec]; omega⟩
    | cons b q ihq =>
      obtain ⟨a1, ⟨h11, h12⟩, hs1⟩ := ihr q
      obtain ⟨a2, ⟨h21, h22⟩, hs2⟩ := ihr (b :: q)
      obtain ⟨a3, ⟨h31, h32⟩, hs3⟩ := ihq
      rcases max3_cases (gRec S false r q + S a b) (gRec S false r (b :: q) + S a 0)
          (gRec S false (a :: r) q + S 0 b) with h | h | h
      · exact ⟨.m a b :: a1, ⟨by simp [projR, h11], by simp [projQ, h12]⟩, by simp only [scoreLin, colScore, gRec]; omega⟩
      · exact ⟨.u a :: a2, ⟨by simp [projR, h21], by simp [projQ, h22]⟩, by simp only [scoreLin, colScore, gRec]; omega⟩
      · exact ⟨.l b :: a3, ⟨by simp [projR, h31], by simp [projQ, h32]⟩, by simp only [scoreLin, colScore, gRec]; omega⟩

/-! ### Fitted: free reference prefix (in this orientation: any prefix `r'` of `r` is aligned) -/

theorem fitRec_nil (S : Matrix) (r : List Nat) : gRec S true r [] = 0 := by
  cases r <;> simp [gRec]

theorem fitRec_upper (S : Matrix) : ∀ (a : Aln) (r r' q : List Nat),
    (∀ x ∈ r, S x 0 ≤ 0) → r' <+: r → IsGlobal a r' q → scoreLin S a ≤ gRec S true r q := by
  intro a
  induction a with
  | nil =>
    intro r r' q _ _ h; obtain ⟨rfl, rfl⟩ := isGlobal_nil h
    simp [scoreLin, fitRec_nil]
  | cons c a ih =>
    intro r r' q hr hp h
    cases c with
    | m x y =>
      simp only [IsGlobal, projR, projQ] at h
      obtain ⟨rfl, rfl⟩ := h
      cases r with
      | nil => simp at hp
      | cons x' r₀ =>
        obtain ⟨rfl, hp'⟩ := List.cons_prefix_cons.mp hp
        have := ih r₀ (projR a) (projQ a) (fun z hz => hr z (List.mem_cons_of_mem _ hz)) hp' ⟨rfl, rfl⟩
        have h1 := max3_ge_left (gRec S true r₀ (projQ a) + S x y)
          (gRec S true r₀ (y :: projQ a) + S x 0) (gRec S true (x :: r₀) (projQ a) + S 0 y)
        simp only [scoreLin, colScore, gRec]; omega
    | u x =>
      simp only [IsGlobal, projR, projQ] at h
      obtain ⟨rfl, rfl⟩ := h
      cases r with
      | nil => simp at hp
      | cons x' r₀ =>
        obtain ⟨rfl, hp'⟩ := List.cons_prefix_cons.mp hp
        have := ih r₀ (projR a) (projQ a) (fun z hz => hr z (List.mem_cons_of_mem _ hz)) hp' ⟨rfl, rfl⟩
        cases hq : projQ a with
        | nil =>
          rw [hq, fitRec_nil] at this
          have := hr x (by simp)
          simp only [scoreLin, colScore, fitRec_nil]; omega
        | cons y q' =>
          rw [hq] at this
          have h1 := max3_ge_mid (gRec S true r₀ q' + S x y)
            (gRec S true r₀ (y :: q') + S x 0) (gRec S true (x :: r₀) q' + S 0 y)
          simp only [scoreLin, colScore, gRec]; omega
    | l y =>
      simp only [IsGlobal, projR, projQ] at h
      obtain ⟨rfl, rfl⟩ := h
      have := ih r (projR a) (projQ a) hr hp ⟨rfl, rfl⟩
      cases r with
      | nil => simp only [scoreLin, colScore, gRec]; omega
      | cons x r₀ =>
        have h1 := max3_ge_right (gRec S true r₀ (projQ a) + S x y)
          (gRec S true r₀ (y :: projQ a) + S x 0) (gRec S true (x :: r₀) (projQ a) + S 0 y)
        simp only [scoreLin, colScore, gRec]; omega

theorem fitRec_attain (S : Matrix) : ∀ (r q : List Nat),
    ∃ r' a, r' <+: r ∧ IsGlobal a r' q ∧ scoreLin S a = gRec S true r q := by
  intro r
  induction r with
  | nil =>
    intro q
    induction q with
    | nil => exact ⟨[], [], List.prefix_rfl, ⟨rfl, rfl⟩, by simp [scoreLin, gRec]⟩
    | cons b q ih =>
      obtain ⟨r', a, hp, ⟨h1, h2⟩, hs⟩ := ih
      exact ⟨r', .l b :: a, hp, ⟨by simp [projR, h1], by simp [projQ, h2]⟩,
        by simp only [scoreLin, colScore, gRec]; omega⟩
  | cons a r ihr =>
    intro q
    induction q with
    | nil => exact ⟨[], [], List.nil_prefix, ⟨rfl, rfl⟩, by simp [scoreLin, gRec]⟩
    | cons b q ihq =>
      obtain ⟨r1, a1, hp1, ⟨h11, h12⟩, hs1⟩ := ihr q
      obtain ⟨r2, a2, hp2, ⟨h21, h22⟩, hs2⟩ := ihr (b :: q)
      obtain ⟨r3, a3, hp3, ⟨h31, h32⟩, hs3⟩ := ihq
      rcases max3_cases (gRec S true r q + S a b) (gRec S true r (b :: q) + S a 0)
          (gRec S true (a :: r) q + S 0 b) with h | h | h
      · exact ⟨a :: r1, .m a b :: a1, List.cons_prefix_cons.mpr ⟨rfl, hp1⟩,
          ⟨by simp [projR, h11], by simp [projQ, h12]⟩, by simp only [scoreLin, colScore, gRec]; omega⟩
      · exact ⟨a :: r2, .u a :: a2, List.cons_prefix_cons.mpr ⟨rfl, hp2⟩,
          ⟨by simp [projR, h21], by simp [projQ, h22]⟩, by simp only [scoreLin, colScore, gRec]; omega⟩
      · exact ⟨r3, .l b :: a3, hp3,
          ⟨by simp [projR, h31], by simp [projQ, h32]⟩, by simp only [scoreLin, colScore, gRec]; omega⟩

/-! ### SW: any prefix of `r` against any prefix of `q`, or nothing -/

theorem swRec_nonneg (S : Matrix) (r q : List Nat) : 0 ≤ swRec S r q := by
  cases r with
  | nil => simp [swRec]
  | cons a r =>
    cases q with
    | nil => simp [swRec]
    | cons b q => simp only [swRec]; split <;> omega

theorem swRec_nil_right (S : Matrix) (r : List Nat) : swRec S r [] = 0 := by
  cases r <;> simp [swRec]

theorem swRec_ge (S : Matrix) (a b : Nat) (r q : List Nat) :
    max3 (swRec S r q + S a b) (swRec S r (b :: q) + S a 0) (swRec S (a :: r) q + S 0 b)
      ≤ swRec S (a :: r) (b :: q) := by
  simp only [swRec]; split <;> omega

theorem swRec_upper (S : Matrix) : ∀ (a : Aln) (r r' q q' : List Nat),
    (∀ x ∈ r, S x 0 ≤ 0) → (∀ y ∈ q, S 0 y ≤ 0) → r' <+: r → q' <+: q → IsGlobal a r' q' → scoreLin S a ≤ swRec S r q := by
  intro a
  induction a with
  | nil =>
    intro r r' q q' _ _ _ _ _
    simpa [scoreLin] using swRec_nonneg S r q
  | cons c a ih =>
    intro r r' q q' hr hq hpr hpq h
    cases c with
    | m x y =>
      simp only [IsGlobal, projR, projQ] at h
      obtain ⟨rfl, rfl⟩ := h
      cases r with
      | nil => simp at hpr
      | cons x' r₀ =>
        cases q with
        | nil => simp at hpq
        | cons y' q₀ =>
          obtain ⟨rfl, hpr'⟩ := List.cons_prefix_cons.mp hpr
          obtain ⟨rfl, hpq'⟩ := List.cons_prefix_cons.mp hpq
          have := ih r₀ (projR a) q₀ (projQ a) (fun z hz => hr z (List.mem_cons_of_mem _ hz))
            (fun z hz => hq z (List.mem_cons_of_mem _ hz)) hpr' hpq' ⟨rfl, rfl⟩
          have h1 := max3_ge_left (swRec S r₀ q₀ + S x y)
            (swRec S r₀ (y :: q₀) + S x 0) (swRec S (x :: r₀) q₀ + S 0 y)
          have h2 := swRec_ge S x y r₀ q₀
          simp only [scoreLin, colScore]; omega
    | u x =>
      simp only [IsGlobal, projR, projQ] at h
      obtain ⟨rfl, rfl⟩ := h
      cases r with
      | nil => simp at hpr
      | cons x' r₀ =>
        obtain ⟨rfl, hpr'⟩ := List.cons_prefix_cons.mp hpr
        have := ih r₀ (projR a) q (projQ a) (fun z hz => hr z (List.mem_cons_of_mem _ hz)) hq hpr' hpq ⟨rfl, rfl⟩
        cases q with
        | nil =>
          rw [swRec_nil_right] at this
          have := hr x (by simp)
          simp only [scoreLin, colScore, swRec_nil_right]; omega
        | cons y q₀ =>
          have h1 := max3_ge_mid (swRec S r₀ q₀ + S x y)
            (swRec S r₀ (y :: q₀) + S x 0) (swRec S (x :: r₀) q₀ + S 0 y)
          have h2 := swRec_ge S x y r₀ q₀
          simp only [scoreLin, colScore]; omega
    | l y =>
      simp only [IsGlobal, projR, projQ] at h
      obtain ⟨rfl, rfl⟩ := h
      cases q with
      | nil => simp at hpq
      | cons y' q₀ =>
        obtain ⟨rfl, hpq'⟩ := List.cons_prefix_cons.mp hpq
        have := ih r (projR a) q₀ (projQ a) hr (fun z hz => hq z (List.mem_cons_of_mem _ hz)) hpr hpq' ⟨rfl, rfl⟩
        cases r with
        | nil =>
          simp only [swRec] at this ⊢
          have := hq y (by simp)
          simp only [scoreLin, colScore]; omega
        | cons x r₀ =>
          have h1 := max3_ge_right (swRec S r₀ q₀ + S x y)
            (swRec S r₀ (y :: q₀) + S x 0) (swRec S (x :: r₀) q₀ + S 0 y)
          have h2 := swRec_ge S x y r₀ q₀
          simp only [scoreLin, colScore]; omega

theorem swRec_attain (S : Matrix) : ∀ (r q : List Nat),
    ∃ r' q' a, r' <+: r ∧ q' <+: q ∧ IsGlobal a r' q' ∧ scoreLin S a = swRec S r q := by
  intro r
  induction r with
  | nil => intro q; exact ⟨[], [], [], List.nil_prefix, List.nil_prefix, ⟨rfl, rfl⟩, by simp [scoreLin, swRec]⟩
  | cons a r ihr =>
    intro q
    induction q with
    | nil => exact ⟨[], [], [], List.nil_prefix, List.nil_prefix, ⟨rfl, rfl⟩, by simp [scoreLin, swRec]⟩
    | cons b q ihq =>
      by_cases hpos : max3 (swRec S r q + S a b) (swRec S r (b :: q) + S a 0) (swRec S (a :: r) q + S 0 b) > 0
      · obtain ⟨r1, q1, a1, hr1, hq1, ⟨h11, h12⟩, hs1⟩ := ihr q
        obtain ⟨r2, q2, a2, hr2, hq2, ⟨h21, h22⟩, hs2⟩ := ihr (b :: q)
        obtain ⟨r3, q3, a3, hr3, hq3, ⟨h31, h32⟩, hs3⟩ := ihq
        have hv : swRec S (a :: r) (b :: q) =
            max3 (swRec S r q + S a b) (swRec S r (b :: q) + S a 0) (swRec S (a :: r) q + S 0 b) := by
          simp only [swRec]; rw [if_pos hpos]
        rcases max3_cases (swRec S r q + S a b) (swRec S r (b :: q) + S a 0)
            (swRec S (a :: r) q + S 0 b) with h | h | h
        · exact ⟨a :: r1, b :: q1, .m a b :: a1, List.cons_prefix_cons.mpr ⟨rfl, hr1⟩,
            List.cons_prefix_cons.mpr ⟨rfl, hq1⟩,
            ⟨by simp [projR, h11], by simp [projQ, h12]⟩, by simp only [scoreLin, colScore]; omega⟩
        · exact ⟨a :: r2, q2, .u a :: a2, List.cons_prefix_cons.mpr ⟨rfl, hr2⟩, hq2,
            ⟨by simp [projR, h21], by simp [projQ, h22]⟩, by simp only [scoreLin, colScore]; omega⟩
        · exact ⟨r3, b :: q3, .l b :: a3, hr3, List.cons_prefix_cons.mpr ⟨rfl, hq3⟩,
            ⟨by simp [projR, h31], by simp [projQ, h32]⟩, by simp only [scoreLin, colScore]; omega⟩
      · exact ⟨[], [], [], List.nil_prefix, List.nil_prefix, ⟨rfl, rfl⟩, by
          simp only [swRec]; rw [if_neg hpos]; simp [scoreLin]⟩

end Biogo.Proofs.AlignLin
