/-
Separation and frame lemmas for worlds of row-stored objects (linear.Seq/QSeq, multi.Multi,
multi.Set): every operation of C05 touches only the backing arrays of the object it is
applied to, and Clone's result lives in new arrays.  Core-only.
-/
import Biogo.Model.ContWorld
import Biogo.Proofs.Containers

namespace Biogo.Containers
open Biogo.Go

/-- the linear sequences an object consists of (column-stored alignments are handled apart) -/
def Obj.lins : Obj → List Lin
  | .lin l => [l]
  | .multi m => m.rows
  | .set m => m.rows
  | .aln _ => []

def Obj.isRowStored : Obj → Bool
  | .aln _ => false
  | _ => true

/-- what is observed of a row-stored object: per row `Start`, `End`, strand, name, kind and
    `At(i)` over `[Start,End)` -/
def Obj.rowsV (h : Cells) (o : Obj) : List RowV := o.lins.map (linRowV h)

theorem viewObj_rows (cx : Ctx) (h : Cells) (o : Obj) (hk : o.isRowStored = true) :
    (viewObj cx h o).rows = o.rowsV h := by
  cases o with
  | lin l => rfl
  | multi m => rfl
  | set m => rfl
  | aln a => simp [Obj.isRowStored] at hk

theorem Lin.valid_mono {h h' : Cells} {l : Lin} (hl : h.arrays.length ≤ h'.arrays.length)
    (ha : h'.arr l.s.arr = h.arr l.s.arr) (hv : l.Valid h) : l.Valid h' := by
  simp only [Lin.Valid, ha]; exact ⟨Nat.lt_of_lt_of_le hv.1 hl, hv.2⟩

theorem linRowV_congr {h h' : Cells} {l : Lin} (ha : h'.arr l.s.arr = h.arr l.s.arr) :
    linRowV h' l = linRowV h l := by
  simp only [linRowV, Lin.letters_congr ha]

/-- separation: every object is row-stored and well formed, and different objects own
    different backing arrays -/
structure Separated (w : World) : Prop where
  wf : ∀ (i : Nat) (o : Obj), w.objs[i]? = some o → o.isRowStored = true ∧ RowsWF w.cells o.lins
  disj : ∀ (i j : Nat) (oi oj : Obj), i ≠ j → w.objs[i]? = some oi → w.objs[j]? = some oj →
    ∀ a ∈ oi.lins, ∀ b ∈ oj.lins, a.s.arr ≠ b.s.arr

/-- the effect of an operation on object `o`, giving `(h', o')`, is local to `o` -/
structure Local (h : Cells) (o : Obj) (h' : Cells) (o' : Obj) : Prop where
  size : h.arrays.length ≤ h'.arrays.length
  frame : ∀ b, b < h.arrays.length → (∀ a ∈ o.lins, a.s.arr ≠ b) → h'.arr b = h.arr b
  foot : ∀ a' ∈ o'.lins, (∃ a ∈ o.lins, a'.s.arr = a.s.arr) ∨ h.arrays.length ≤ a'.s.arr
  wf : RowsWF h' o'.lins
  kind : o'.isRowStored = true

/-- an object that shares nothing with `o` is observed unchanged and stays well formed -/
theorem Local.other {h h' : Cells} {o o' : Obj} (hl : Local h o h' o') (oj : Obj)
    (hwf : RowsWF h oj.lins) (hdis : ∀ a ∈ o.lins, ∀ b ∈ oj.lins, a.s.arr ≠ b.s.arr) :
    oj.rowsV h' = oj.rowsV h ∧ RowsWF h' oj.lins ∧
    (∀ a' ∈ o'.lins, ∀ b ∈ oj.lins, a'.s.arr ≠ b.s.arr) := by
  have harr : ∀ b ∈ oj.lins, h'.arr b.s.arr = h.arr b.s.arr := fun b hb =>
    hl.frame _ (hwf.1 b hb).1 (fun a ha => hdis a ha b hb)
  refine ⟨?_, ⟨fun b hb => Lin.valid_mono hl.size (harr b hb) (hwf.1 b hb), hwf.2⟩, ?_⟩
  · simp only [Obj.rowsV]
    apply List.map_congr_left
    intro b hb
    exact linRowV_congr (harr b hb)
  · intro a' ha' b hb
    rcases hl.foot a' ha' with ⟨a, ha, e⟩ | hfresh
    · rw [e]; exact hdis a ha b hb
    · have := (hwf.1 b hb).1; omega

/-- applying a local operation to object `k` keeps the world separated and leaves every other
    object's observation as it was -/
theorem Separated.setObj {w : World} (hs : Separated w) (k : Nat) (o : Obj) (hk : w.objs[k]? = some o)
    (h' : Cells) (o' : Obj) (hl : Local w.cells o h' o') :
    Separated (w.setObj k h' o') ∧
    ∀ (j : Nat) (oj : Obj), j ≠ k → w.objs[j]? = some oj →
      (w.setObj k h' o').objs[j]? = some oj ∧ oj.rowsV h' = oj.rowsV w.cells := by
  have hklt : k < w.objs.length := (List.getElem?_eq_some_iff.mp hk).1
  have hget : ∀ j, (w.setObj k h' o').objs[j]? = if k = j then some o' else w.objs[j]? := by
    intro j
    simp only [World.setObj, List.getElem?_set]
    by_cases e : k = j
    · subst e; simp [hklt]
    · simp [e]
  have hoth : ∀ (j : Nat) (oj : Obj), j ≠ k → w.objs[j]? = some oj →
      oj.rowsV h' = oj.rowsV w.cells ∧ RowsWF h' oj.lins ∧
      (∀ a' ∈ o'.lins, ∀ b ∈ oj.lins, a'.s.arr ≠ b.s.arr) := fun j oj hjk hj =>
    hl.other oj (hs.wf j oj hj).2 (hs.disj k j o oj (Ne.symm hjk) hk hj)
  refine ⟨⟨?_, ?_⟩, ?_⟩
  · intro i oi hi
    rw [hget] at hi
    by_cases e : k = i
    · simp only [e, if_true, Option.some.injEq] at hi; subst hi; exact ⟨hl.kind, hl.wf⟩
    · simp only [e, if_false] at hi
      exact ⟨(hs.wf i oi hi).1, (hoth i oi (Ne.symm e) hi).2.1⟩
  · intro i j oi oj hij hi hj
    rw [hget] at hi hj
    by_cases ei : k = i
    · simp only [ei, if_true, Option.some.injEq] at hi; subst hi
      have ej : ¬ k = j := fun e => hij (ei.symm.trans e)
      simp only [ej, if_false] at hj
      exact (hoth j oj (Ne.symm ej) hj).2.2
    · simp only [ei, if_false] at hi
      by_cases ej : k = j
      · simp only [ej, if_true, Option.some.injEq] at hj; subst hj
        intro a ha b hb
        exact ((hoth i oi (Ne.symm ei) hi).2.2 b hb a ha).symm
      · simp only [ej, if_false] at hj
        exact hs.disj i j oi oj hij hi hj
  · intro j oj hjk hj
    refine ⟨?_, (hoth j oj hjk hj).1⟩
    rw [hget]; simp [Ne.symm hjk, hj]

/-- the effect of an allocation-only operation (Clone): every old array is as it was and the
    new object lives in arrays that did not exist before -/
structure Fresh (h h' : Cells) (c : Obj) : Prop where
  size : h.arrays.length ≤ h'.arrays.length
  frame : ∀ b, b < h.arrays.length → h'.arr b = h.arr b
  foot : ∀ a' ∈ c.lins, h.arrays.length ≤ a'.s.arr
  wf : RowsWF h' c.lins
  kind : c.isRowStored = true

theorem Separated.addObj {w : World} (hs : Separated w) (h' : Cells) (c : Obj) (hf : Fresh w.cells h' c) :
    Separated { w with cells := h', objs := w.objs ++ [c] } ∧
    ∀ (j : Nat) (oj : Obj), w.objs[j]? = some oj →
      (w.objs ++ [c])[j]? = some oj ∧ oj.rowsV h' = oj.rowsV w.cells := by
  have hold : ∀ (j : Nat) (oj : Obj), w.objs[j]? = some oj →
      oj.rowsV h' = oj.rowsV w.cells ∧ RowsWF h' oj.lins ∧
      (∀ a' ∈ c.lins, ∀ b ∈ oj.lins, a'.s.arr ≠ b.s.arr) := by
    intro j oj hj
    have hwf := (hs.wf j oj hj).2
    have harr : ∀ b ∈ oj.lins, h'.arr b.s.arr = w.cells.arr b.s.arr := fun b hb =>
      hf.frame _ (hwf.1 b hb).1
    refine ⟨?_, ⟨fun b hb => Lin.valid_mono hf.size (harr b hb) (hwf.1 b hb), hwf.2⟩, ?_⟩
    · simp only [Obj.rowsV]
      apply List.map_congr_left
      intro b hb
      exact linRowV_congr (harr b hb)
    · intro a' ha' b hb
      have := hf.foot a' ha'; have := (hwf.1 b hb).1; omega
  have hget : ∀ j, (w.objs ++ [c])[j]? = if j < w.objs.length then w.objs[j]? else
      if j = w.objs.length then some c else none := by
    intro j
    by_cases hj : j < w.objs.length
    · simp [hj, List.getElem?_append_left hj]
    · simp only [hj, if_false]
      rw [List.getElem?_append_right (by omega)]
      by_cases e : j = w.objs.length
      · simp [e]
      · have : j - w.objs.length ≠ 0 := by omega
        simp only [e, if_false]
        cases hx : j - w.objs.length with
        | zero => omega
        | succ n => simp
  have hsome : ∀ (j : Nat) (oj : Obj), w.objs[j]? = some oj → j < w.objs.length := fun j oj hj =>
    (List.getElem?_eq_some_iff.mp hj).1
  refine ⟨⟨?_, ?_⟩, ?_⟩
  · intro i oi hi
    simp only [hget] at hi
    by_cases hlt : i < w.objs.length
    · simp only [hlt, if_true] at hi
      exact ⟨(hs.wf i oi hi).1, (hold i oi hi).2.1⟩
    · simp only [hlt, if_false] at hi
      by_cases e : i = w.objs.length
      · simp only [e, if_true, Option.some.injEq] at hi; subst hi; exact ⟨hf.kind, hf.wf⟩
      · simp [e] at hi
  · intro i j oi oj hij hi hj
    simp only [hget] at hi hj
    by_cases hil : i < w.objs.length
    · simp only [hil, if_true] at hi
      by_cases hjl : j < w.objs.length
      · simp only [hjl, if_true] at hj
        exact hs.disj i j oi oj hij hi hj
      · simp only [hjl, if_false] at hj
        by_cases e : j = w.objs.length
        · simp only [e, if_true, Option.some.injEq] at hj; subst hj
          intro a ha b hb
          exact ((hold i oi hi).2.2 b hb a ha).symm
        · simp [e] at hj
    · simp only [hil, if_false] at hi
      by_cases e : i = w.objs.length
      · simp only [e, if_true, Option.some.injEq] at hi; subst hi
        have hjl : j < w.objs.length := by
          by_cases hjl : j < w.objs.length
          · exact hjl
          · simp only [hjl, if_false] at hj
            by_cases e2 : j = w.objs.length
            · omega
            · simp [e2] at hj
        simp only [hjl, if_true] at hj
        exact (hold j oj hj).2.2
      · simp [e] at hi
  · intro j oj hj
    refine ⟨?_, (hold j oj hj).1⟩
    rw [hget, if_pos (hsome j oj hj)]; exact hj

/-! ### the operations of C05 are local -/

theorem pairwise_ne_getElem? {rows : List Lin} (hp : rows.Pairwise (fun a b => a.s.arr ≠ b.s.arr))
    {i j : Nat} {a b : Lin} (hij : i ≠ j) (hi : rows[i]? = some a) (hj : rows[j]? = some b) :
    a.s.arr ≠ b.s.arr := by
  obtain ⟨hil, rfl⟩ := List.getElem?_eq_some_iff.mp hi
  obtain ⟨hjl, rfl⟩ := List.getElem?_eq_some_iff.mp hj
  rcases Nat.lt_or_gt_of_ne hij with h | h
  · exact List.pairwise_iff_getElem.mp hp i j hil hjl h
  · exact (List.pairwise_iff_getElem.mp hp j i hjl hil h).symm

/-- a whole-container operation that runs an in-place row operation over every row -/
theorem rowsFold_local (g : Cells → Lin → Cells × Lin) (hg : InPlace g) (rows : List Lin) (h : Cells)
    (hwf : RowsWF h rows) :
    (rowsFold g rows (h, [])).1.arrays.length = h.arrays.length ∧
    (∀ b, (∀ a ∈ rows, a.s.arr ≠ b) → (rowsFold g rows (h, [])).1.arr b = h.arr b) ∧
    (∀ a' ∈ (rowsFold g rows (h, [])).2, ∃ a ∈ rows, a'.s.arr = a.s.arr) ∧
    RowsWF (rowsFold g rows (h, [])).1 (rowsFold g rows (h, [])).2 := by
  obtain ⟨rows', h2, hall, hframe, hsize⟩ :=
    rowsFold_spec g hg (fun _ _ _ _ => True) (fun _ _ _ => trivial) rows h [] hwf
  simp only [List.nil_append] at h2
  rw [h2]
  refine ⟨hsize, hframe, ?_, rowsWF_of_all2 (hall.imp fun a b hab => ⟨hab.2.1, hab.2.2⟩) hwf⟩
  intro a' ha'
  obtain ⟨a, ha, hr⟩ := hall.exists_left a' ha'
  exact ⟨a, ha, hr.2.1⟩

/-- an in-place operation on row `i` only -/
theorem onRow_local (g : Cells → Lin → Cells × Lin) (hg : InPlace g) (rows : List Lin) (h : Cells)
    (hwf : RowsWF h rows) (i : Nat) (r : Lin) (hi : rows[i]? = some r) :
    (g h r).1.arrays.length = h.arrays.length ∧
    (∀ b, (∀ a ∈ rows, a.s.arr ≠ b) → (g h r).1.arr b = h.arr b) ∧
    (∀ a' ∈ rows.set i (g h r).2, ∃ a ∈ rows, a'.s.arr = a.s.arr) ∧
    RowsWF (g h r).1 (rows.set i (g h r).2) := by
  have hmem : r ∈ rows := List.mem_of_getElem? hi
  have hil : i < rows.length := (List.getElem?_eq_some_iff.mp hi).1
  refine ⟨hg.size h r, fun b hb => hg.frame h r b (hb r hmem), ?_, ?_, ?_⟩
  · intro a' ha'
    rcases List.mem_or_eq_of_mem_set ha' with hm | e
    · exact ⟨a', hm, rfl⟩
    · exact ⟨r, hmem, by rw [e, hg.arr]⟩
  · intro x hx
    obtain ⟨j, hj⟩ := List.getElem?_of_mem hx
    rw [List.getElem?_set] at hj
    by_cases e : i = j
    · simp only [e, if_true] at hj
      split at hj
      · simp only [Option.some.injEq] at hj; subst hj; exact hg.valid h r (hwf.1 r hmem)
      · cases hj
    · simp only [e, if_false] at hj
      have hne := pairwise_ne_getElem? hwf.2 e hi hj
      exact Lin.valid_congr (hg.size h r) (hg.frame h r _ hne) (hwf.1 x (List.mem_of_getElem? hj))
  · have hm : (rows.set i (g h r).2).map (fun (r : Lin) => r.s.arr) = rows.map (fun (r : Lin) => r.s.arr) := by
      rw [List.map_set, hg.arr]
      apply set_getElem?_self
      rw [List.getElem?_map, hi]; rfl
    have := (List.pairwise_map (f := fun (r : Lin) => r.s.arr) (R := (· ≠ ·)) (l := rows)).mpr hwf.2
    rw [← hm] at this
    exact List.pairwise_map.mp this

theorem inPlace_revComp (cx : Ctx) : InPlace (fun h r => r.revComp cx h) where
  arr _ _ := rfl
  frame h r b hne := arr_hTwoPtr _ _ r.s b hne _ _ _ h
  size h r := length_hTwoPtr _ _ r.s _ _ _ h
  valid h r hv := Lin.revComp_valid cx h r hv

theorem inPlace_reverse : InPlace (fun h r => r.reverse h) where
  arr _ _ := rfl
  frame h r b hne := arr_hTwoPtr _ _ r.s b hne _ _ _ h
  size h r := length_hTwoPtr _ _ r.s _ _ _ h
  valid h r hv := Lin.reverse_valid h r hv

theorem inPlace_set (pos : Int) (c : QL) : InPlace (fun h r => (r.set h pos c, r)) where
  arr _ _ := rfl
  frame h r b hne := by
    simp only [Lin.set]
    split
    · rfl
    · exact Heap.arr_set_other _ _ _ _ _ hne
  size h r := by
    simp only [Lin.set]
    split
    · rfl
    · exact Heap.length_set _ _ _ _
  valid h r hv := by
    simp only [Lin.set]
    split
    · exact hv
    · exact ⟨by rw [Heap.length_set]; exact hv.1, by rw [Heap.length_arr_set]; exact hv.2⟩

/-! ### Clone allocates -/

theorem Lin.clone_fresh (cx : Ctx) (h : Cells) (l : Lin) (hv : l.Valid h) :
    let r := l.clone cx h
    r.2.letters r.1 = l.letters h ∧ r.2.s.arr = h.arrays.length ∧ r.2.Valid r.1 ∧
    r.1.arrays.length = h.arrays.length + 1 ∧ (∀ b, b < h.arrays.length → r.1.arr b = h.arr b) ∧
    r.2.off = l.off ∧ r.2.strand = l.strand ∧ r.2.name = l.name ∧ r.2.q = l.q ∧ r.2.s.len = l.s.len := by
  refine ⟨?_, rfl, ⟨?_, ?_⟩, ?_, ?_, rfl, rfl, rfl, rfl, ?_⟩
  · simp only [Lin.clone, Lin.letters]
    rw [Heap.read_ofList]
  · simp only [Lin.clone, Heap.ofList, Heap.alloc, List.length_append, List.length_singleton]
    omega
  · simp only [Lin.clone]
    rw [show (h.ofList (h.read l.s) (cx.grow 0 l.s.len) zeroQL).2.arr
          = (h.alloc ((h.read l.s) ++ List.replicate (max (h.read l.s).length (cx.grow 0 l.s.len) - (h.read l.s).length) zeroQL)).2 from rfl]
    simp only [Heap.ofList]
    rw [Heap.arr_alloc_new]
    simp only [List.length_append, List.length_replicate]
    omega
  · simp only [Lin.clone]; exact Heap.size_ofList _ _ _ _
  · intro b hb
    simp only [Lin.clone, Heap.ofList]
    exact Heap.arr_alloc_old _ _ _ hb
  · simp only [Lin.clone, Heap.ofList]
    exact length_read_of_valid h l hv

theorem linRowV_clone (cx : Ctx) (h : Cells) (l : Lin) (hv : l.Valid h) :
    linRowV (l.clone cx h).1 (l.clone cx h).2 = linRowV h l := by
  obtain ⟨hl, _, _, _, _, ho, hs, hn, hq, hlen⟩ := Lin.clone_fresh cx h l hv
  simp only [linRowV, Lin.start, Lin.«end», hl, ho, hs, hn, hq, hlen]

theorem Multi.clone_eq (cx : Ctx) (h : Cells) (m : Multi) :
    m.clone cx h = ((rowsFold (fun h r => r.clone cx h) m.rows (h, [])).1,
      { m with rows := (rowsFold (fun h r => r.clone cx h) m.rows (h, [])).2 }) := rfl

theorem cloneFold_spec (cx : Ctx) : ∀ (rows : List Lin) (h : Cells) (acc : List Lin),
    (∀ r ∈ rows, r.Valid h) →
    ∃ cs, (rowsFold (fun h r => r.clone cx h) rows (h, acc)).2 = acc ++ cs ∧
      All2 (fun r c => linRowV (rowsFold (fun h r => r.clone cx h) rows (h, acc)).1 c = linRowV h r ∧
          h.arrays.length ≤ c.s.arr ∧ c.Valid (rowsFold (fun h r => r.clone cx h) rows (h, acc)).1) rows cs ∧
      cs.Pairwise (fun a b => a.s.arr ≠ b.s.arr) ∧
      h.arrays.length ≤ (rowsFold (fun h r => r.clone cx h) rows (h, acc)).1.arrays.length ∧
      (∀ b, b < h.arrays.length → (rowsFold (fun h r => r.clone cx h) rows (h, acc)).1.arr b = h.arr b) := by
  intro rows
  induction rows with
  | nil => intro h acc _; exact ⟨[], by simp [rowsFold], .nil, List.Pairwise.nil, Nat.le_refl _, fun _ _ => rfl⟩
  | cons r rs ih =>
    intro h acc hv
    have hvr := hv r List.mem_cons_self
    obtain ⟨_, harr, hvalid, hsize, hold, _⟩ := Lin.clone_fresh cx h r hvr
    have hrow := linRowV_clone cx h r hvr
    have hv' : ∀ x ∈ rs, x.Valid (r.clone cx h).1 := fun x hx => by
      have hxv := hv x (List.mem_cons_of_mem _ hx)
      exact Lin.valid_mono (by omega) (hold _ hxv.1) hxv
    obtain ⟨cs, h2, hall, hpw, hsz, hfr⟩ := ih (r.clone cx h).1 (acc ++ [(r.clone cx h).2]) hv'
    have hfold : rowsFold (fun h r => r.clone cx h) (r :: rs) (h, acc)
        = rowsFold (fun h r => r.clone cx h) rs ((r.clone cx h).1, acc ++ [(r.clone cx h).2]) := rfl
    rw [hfold]
    have hkeep : (rowsFold (fun h r => r.clone cx h) rs ((r.clone cx h).1, acc ++ [(r.clone cx h).2])).1.arr
        (r.clone cx h).2.s.arr = (r.clone cx h).1.arr (r.clone cx h).2.s.arr := hfr _ (by rw [harr, hsize]; omega)
    refine ⟨(r.clone cx h).2 :: cs, by rw [h2]; simp, .cons ⟨?_, by rw [harr]; omega, ?_⟩ ?_, ?_, by omega, ?_⟩
    · rw [linRowV_congr hkeep]; exact hrow
    · exact Lin.valid_mono hsz hkeep hvalid
    · refine hall.imp_mem fun a b ha hab => ⟨?_, by have := hab.2.1; omega, hab.2.2⟩
      rw [hab.1]
      exact linRowV_congr (hold _ (hv a (List.mem_cons_of_mem _ ha)).1)
    · refine List.pairwise_cons.mpr ⟨?_, hpw⟩
      intro c hc
      obtain ⟨a, _, hr⟩ := hall.exists_left c hc
      have := hr.2.1
      rw [harr]; omega
    · intro b hb
      rw [hfr b (by omega), hold b hb]

/-! ### every C05 operation keeps the world separated and is invisible through other objects -/

theorem local_of_facts {h h' : Cells} {o o' : Obj} (hk : o'.isRowStored = true)
    (facts : h'.arrays.length = h.arrays.length ∧
      (∀ b, (∀ a ∈ o.lins, a.s.arr ≠ b) → h'.arr b = h.arr b) ∧
      (∀ a' ∈ o'.lins, ∃ a ∈ o.lins, a'.s.arr = a.s.arr) ∧ RowsWF h' o'.lins) : Local h o h' o' where
  size := by rw [facts.1]; exact Nat.le_refl _
  frame b _ hb := facts.2.1 b hb
  foot a' ha' := Or.inl (facts.2.2.1 a' ha')
  wf := facts.2.2.2
  kind := hk

/-- an in-place row operation applied to a `linear` object -/
theorem local_lin (g : Cells → Lin → Cells × Lin) (hg : InPlace g) (h : Cells) (l : Lin)
    (hwf : RowsWF h [l]) : Local h (.lin l) (g h l).1 (.lin (g h l).2) :=
  local_of_facts rfl (onRow_local g hg [l] h hwf 0 l rfl)

theorem local_multi_fold (g : Cells → Lin → Cells × Lin) (hg : InPlace g) (h : Cells) (m : Multi)
    (hwf : RowsWF h m.rows) :
    Local h (.multi m) (rowsFold g m.rows (h, [])).1 (.multi { m with rows := (rowsFold g m.rows (h, [])).2 }) :=
  local_of_facts rfl (rowsFold_local g hg m.rows h hwf)

theorem local_set_fold (g : Cells → Lin → Cells × Lin) (hg : InPlace g) (h : Cells) (m : Multi)
    (hwf : RowsWF h m.rows) :
    Local h (.set m) (rowsFold g m.rows (h, [])).1 (.set { m with rows := (rowsFold g m.rows (h, [])).2 }) :=
  local_of_facts rfl (rowsFold_local g hg m.rows h hwf)

theorem Multi.onRow_eq (h : Cells) (m : Multi) (i : Nat) (g : Cells → Lin → Cells × Lin) (r : Lin)
    (hi : m.rows[i]? = some r) :
    m.onRow h i g = ((g h r).1, { m with rows := m.rows.set i (g h r).2 }) := by
  simp only [Multi.onRow, hi]

theorem Multi.onRow_none (h : Cells) (m : Multi) (i : Nat) (g : Cells → Lin → Cells × Lin)
    (hi : m.rows[i]? = none) : m.onRow h i g = (h, m) := by
  simp only [Multi.onRow, hi]

theorem local_refl (h : Cells) (o : Obj) (hk : o.isRowStored = true) (hwf : RowsWF h o.lins) :
    Local h o h o :=
  local_of_facts hk ⟨rfl, fun _ _ => rfl, fun a ha => ⟨a, ha, rfl⟩, hwf⟩

theorem local_multi_onRow (g : Cells → Lin → Cells × Lin) (hg : InPlace g) (h : Cells) (m : Multi)
    (hwf : RowsWF h m.rows) (i : Nat) :
    Local h (.multi m) (m.onRow h i g).1 (.multi (m.onRow h i g).2) := by
  cases hi : m.rows[i]? with
  | none => rw [Multi.onRow_none h m i g hi]; exact local_refl h _ rfl hwf
  | some r => rw [Multi.onRow_eq h m i g r hi]; exact local_of_facts rfl (onRow_local g hg m.rows h hwf i r hi)

theorem local_set_onRow (g : Cells → Lin → Cells × Lin) (hg : InPlace g) (h : Cells) (m : Multi)
    (hwf : RowsWF h m.rows) (i : Nat) :
    Local h (.set m) (m.onRow h i g).1 (.set (m.onRow h i g).2) := by
  cases hi : m.rows[i]? with
  | none => rw [Multi.onRow_none h m i g hi]; exact local_refl h _ rfl hwf
  | some r => rw [Multi.onRow_eq h m i g r hi]; exact local_of_facts rfl (onRow_local g hg m.rows h hwf i r hi)

/-- the operations of C05 -/
def Op.isC05 : Op → Bool
  | .revComp _ | .reverse _ | .clone _ | .set .. | .rowRevComp .. | .rowReverse .. => true
  | _ => false

/-- the object an operation writes through (Clone writes through none) -/
def Op.target : Op → Option Nat
  | .revComp k | .reverse k | .set k _ _ _ | .rowRevComp k _ | .rowReverse k _ => some k
  | _ => none

/-- what holds of the world after one step -/
def StepOK (cx : Ctx) (w : World) (op : Op) : Prop :=
  Separated (apply cx w op).1 ∧
  ∀ (j : Nat) (oj : Obj), op.target ≠ some j → w.objs[j]? = some oj →
    (apply cx w op).1.objs[j]? = some oj ∧ oj.rowsV (apply cx w op).1.cells = oj.rowsV w.cells

theorem stepOK_of_local {cx : Ctx} {w : World} {op : Op} (hs : Separated w) (k : Nat) (o : Obj)
    (hk : w.objs[k]? = some o) (htgt : op.target = some k) (h' : Cells) (o' : Obj) (res : String)
    (happ : apply cx w op = (w.setObj k h' o', res)) (hl : Local w.cells o h' o') : StepOK cx w op := by
  obtain ⟨hsep, hoth⟩ := hs.setObj k o hk h' o' hl
  unfold StepOK
  rw [happ]
  refine ⟨hsep, fun j oj hj hoj => ?_⟩
  exact hoth j oj (fun e => hj (by rw [htgt, e])) hoj

theorem stepOK_of_unchanged {cx : Ctx} {w : World} {op : Op} (hs : Separated w) (res : String)
    (happ : apply cx w op = (w, res)) : StepOK cx w op := by
  unfold StepOK
  rw [happ]
  exact ⟨hs, fun j oj _ hoj => ⟨hoj, rfl⟩⟩

theorem not_aln_of_sep {w : World} (hs : Separated w) {k : Nat} {a : Aln} (hk : w.objs[k]? = some (.aln a)) :
    False := by
  have := (hs.wf k _ hk).1
  simp [Obj.isRowStored] at this

theorem step_revComp (cx : Ctx) (w : World) (hs : Separated w) (k : Nat) : StepOK cx w (.revComp k) := by
  cases hk : w.objs[k]? with
  | none => exact stepOK_of_unchanged hs "panic" (by simp only [apply, hk])
  | some o =>
    have hwf := (hs.wf k o hk).2
    cases o with
    | lin l =>
      exact stepOK_of_local hs k _ hk rfl _ _ "ok" (by simp only [apply, hk])
        (local_lin (fun h r => r.revComp cx h) (inPlace_revComp cx) w.cells l hwf)
    | aln a => exact (not_aln_of_sep hs hk).elim
    | multi m =>
      exact stepOK_of_local hs k _ hk rfl _ _ "ok" (by simp only [apply, hk]; rfl)
        (local_multi_fold (gRevComp cx m.start m.«end») (inPlace_gRevComp cx _ _) w.cells m hwf)
    | set m =>
      exact stepOK_of_local hs k _ hk rfl _ _ "ok" (by simp only [apply, hk]; rfl)
        (local_set_fold (fun h r => r.revComp cx h) (inPlace_revComp cx) w.cells m hwf)

theorem step_reverse (cx : Ctx) (w : World) (hs : Separated w) (k : Nat) : StepOK cx w (.reverse k) := by
  cases hk : w.objs[k]? with
  | none => exact stepOK_of_unchanged hs "panic" (by simp only [apply, hk])
  | some o =>
    have hwf := (hs.wf k o hk).2
    cases o with
    | lin l =>
      exact stepOK_of_local hs k _ hk rfl _ _ "ok" (by simp only [apply, hk])
        (local_lin (fun h r => r.reverse h) inPlace_reverse w.cells l hwf)
    | aln a => exact (not_aln_of_sep hs hk).elim
    | multi m =>
      exact stepOK_of_local hs k _ hk rfl _ _ "ok" (by simp only [apply, hk]; rfl)
        (local_multi_fold (gReverse m.start m.«end») (inPlace_gReverse _ _) w.cells m hwf)
    | set m =>
      exact stepOK_of_local hs k _ hk rfl _ _ "ok" (by simp only [apply, hk]; rfl)
        (local_set_fold (fun h r => r.reverse h) inPlace_reverse w.cells m hwf)

theorem step_set (cx : Ctx) (w : World) (hs : Separated w) (k r : Nat) (pos : Int) (c : QL) :
    StepOK cx w (.set k r pos c) := by
  cases hk : w.objs[k]? with
  | none => exact stepOK_of_unchanged hs "panic" (by simp only [apply, hk])
  | some o =>
    have hwf := (hs.wf k o hk).2
    cases o with
    | lin l =>
      by_cases hp : (l.at? w.cells pos).isNone = true
      · exact stepOK_of_unchanged hs "panic" (by simp only [apply, hk, hp, if_true])
      · exact stepOK_of_local hs k _ hk rfl _ _ "ok" (by simp only [apply, hk, hp]; rfl)
          (local_lin (fun h r => (r.set h pos c, r)) (inPlace_set pos c) w.cells l hwf)
    | aln a => exact (not_aln_of_sep hs hk).elim
    | multi m =>
      by_cases hp : ((m.rows[r]?).bind (·.at? w.cells pos)).isNone = true
      · exact stepOK_of_unchanged hs "panic" (by simp only [apply, hk, hp, if_true])
      · exact stepOK_of_local hs k _ hk rfl _ _ "ok" (by simp only [apply, hk, hp]; rfl)
          (local_multi_onRow (fun h l => (l.set h pos c, l)) (inPlace_set pos c) w.cells m hwf r)
    | set m =>
      by_cases hp : ((m.rows[r]?).bind (·.at? w.cells pos)).isNone = true
      · exact stepOK_of_unchanged hs "panic" (by simp only [apply, hk, hp, if_true])
      · exact stepOK_of_local hs k _ hk rfl _ _ "ok" (by simp only [apply, hk, hp]; rfl)
          (local_set_onRow (fun h l => (l.set h pos c, l)) (inPlace_set pos c) w.cells m hwf r)

theorem step_rowRevComp (cx : Ctx) (w : World) (hs : Separated w) (k r : Nat) :
    StepOK cx w (.rowRevComp k r) := by
  cases hk : w.objs[k]? with
  | none => exact stepOK_of_unchanged hs "panic" (by simp only [apply, hk])
  | some o =>
    have hwf := (hs.wf k o hk).2
    cases o with
    | lin l => exact stepOK_of_unchanged hs "panic" (by simp only [apply, hk])
    | aln a => exact (not_aln_of_sep hs hk).elim
    | multi m =>
      by_cases hp : r < m.nrows
      · exact stepOK_of_local hs k _ hk rfl _ _ "ok" (by simp only [apply, hk, hp, if_true])
          (local_multi_onRow (fun h l => l.revComp cx h) (inPlace_revComp cx) w.cells m hwf r)
      · exact stepOK_of_unchanged hs "panic" (by simp only [apply, hk, hp, if_false])
    | set m =>
      by_cases hp : r < m.nrows
      · exact stepOK_of_local hs k _ hk rfl _ _ "ok" (by simp only [apply, hk, hp, if_true])
          (local_set_onRow (fun h l => l.revComp cx h) (inPlace_revComp cx) w.cells m hwf r)
      · exact stepOK_of_unchanged hs "panic" (by simp only [apply, hk, hp, if_false])

theorem step_rowReverse (cx : Ctx) (w : World) (hs : Separated w) (k r : Nat) :
    StepOK cx w (.rowReverse k r) := by
  cases hk : w.objs[k]? with
  | none => exact stepOK_of_unchanged hs "panic" (by simp only [apply, hk])
  | some o =>
    have hwf := (hs.wf k o hk).2
    cases o with
    | lin l => exact stepOK_of_unchanged hs "panic" (by simp only [apply, hk])
    | aln a => exact (not_aln_of_sep hs hk).elim
    | multi m =>
      by_cases hp : r < m.nrows
      · exact stepOK_of_local hs k _ hk rfl _ _ "ok" (by simp only [apply, hk, hp, if_true])
          (local_multi_onRow (fun h l => l.reverse h) inPlace_reverse w.cells m hwf r)
      · exact stepOK_of_unchanged hs "panic" (by simp only [apply, hk, hp, if_false])
    | set m =>
      by_cases hp : r < m.nrows
      · exact stepOK_of_local hs k _ hk rfl _ _ "ok" (by simp only [apply, hk, hp, if_true])
          (local_set_onRow (fun h l => l.reverse h) inPlace_reverse w.cells m hwf r)
      · exact stepOK_of_unchanged hs "panic" (by simp only [apply, hk, hp, if_false])

theorem fresh_lin_clone (cx : Ctx) (h : Cells) (l : Lin) (hv : l.Valid h) :
    Fresh h (l.clone cx h).1 (.lin (l.clone cx h).2) := by
  obtain ⟨_, harr, hvalid, hsize, hold, _⟩ := Lin.clone_fresh cx h l hv
  refine ⟨by omega, hold, ?_, ⟨?_, List.pairwise_singleton _ _⟩, rfl⟩
  · intro a' ha'
    simp only [Obj.lins, List.mem_singleton] at ha'
    subst ha'; omega
  · intro r hr
    simp only [Obj.lins, List.mem_singleton] at hr
    subst hr; exact hvalid

theorem fresh_multi_clone (cx : Ctx) (h : Cells) (m : Multi) (hv : ∀ r ∈ m.rows, r.Valid h) :
    Fresh h (m.clone cx h).1 (.multi (m.clone cx h).2) ∧
    (Obj.multi (m.clone cx h).2).rowsV (m.clone cx h).1 = (Obj.multi m).rowsV h := by
  obtain ⟨cs, h2, hall, hpw, hsz, hfr⟩ := cloneFold_spec cx m.rows h [] hv
  simp only [List.nil_append] at h2
  rw [Multi.clone_eq]
  simp only [h2]
  refine ⟨⟨hsz, hfr, ?_, ⟨?_, hpw⟩, rfl⟩, ?_⟩
  · intro a' ha'
    obtain ⟨a, _, hr⟩ := hall.exists_left a' ha'
    exact hr.2.1
  · intro c hc
    obtain ⟨a, _, hr⟩ := hall.exists_left c hc
    exact hr.2.2
  · simp only [Obj.rowsV, Obj.lins]
    exact (hall.map_eq (linRowV h) (linRowV (rowsFold (fun h r => r.clone cx h) m.rows (h, [])).1)
      fun a b hab => hab.1.symm).symm

theorem step_clone (cx : Ctx) (w : World) (hs : Separated w) (k : Nat) : StepOK cx w (.clone k) := by
  cases hk : w.objs[k]? with
  | none => exact stepOK_of_unchanged hs "panic" (by simp only [apply, hk])
  | some o =>
    have hwf := (hs.wf k o hk).2
    cases o with
    | lin l =>
      have hf := fresh_lin_clone cx w.cells l (hwf.1 l List.mem_cons_self)
      obtain ⟨hsep, hoth⟩ := hs.addObj _ _ hf
      unfold StepOK
      have happ : apply cx w (.clone k) =
          ({ w with cells := (l.clone cx w.cells).1, objs := w.objs ++ [.lin (l.clone cx w.cells).2] }, "ok") := by
        simp only [apply, hk]
      rw [happ]
      exact ⟨hsep, fun j oj _ hoj => hoth j oj hoj⟩
    | aln a => exact (not_aln_of_sep hs hk).elim
    | multi m =>
      have hf := (fresh_multi_clone cx w.cells m hwf.1).1
      obtain ⟨hsep, hoth⟩ := hs.addObj _ _ hf
      unfold StepOK
      have happ : apply cx w (.clone k) =
          ({ w with cells := (m.clone cx w.cells).1, objs := w.objs ++ [.multi (m.clone cx w.cells).2] }, "ok") := by
        simp only [apply, hk]
      rw [happ]
      exact ⟨hsep, fun j oj _ hoj => hoth j oj hoj⟩
    | set m => exact stepOK_of_unchanged hs "panic" (by simp only [apply, hk])

/-- one C05 operation: the world stays separated and every object the operation is not applied
    to is the same object with the same observation -/
theorem step_c05 (cx : Ctx) (w : World) (hs : Separated w) (op : Op) (hop : op.isC05 = true) :
    StepOK cx w op := by
  cases op with
  | revComp k => exact step_revComp cx w hs k
  | reverse k => exact step_reverse cx w hs k
  | clone k => exact step_clone cx w hs k
  | set k r pos c => exact step_set cx w hs k r pos c
  | rowRevComp k r => exact step_rowRevComp cx w hs k r
  | rowReverse k r => exact step_rowReverse cx w hs k r
  | _ => simp [Op.isC05] at hop

/-- the world after a sequence of operations -/
def runOps (cx : Ctx) (w : World) (ops : List Op) : World :=
  ops.foldl (fun w op => (apply cx w op).1) w

/-- **clone_deep, general form**: whatever sequence of C05 operations is applied to other
    objects, an object is observed unchanged (`At` over every row's span, `Start`, `End`,
    strand of every row) -/
theorem untouched_object_unchanged (cx : Ctx) (ops : List Op) : ∀ (w : World), Separated w →
    (∀ op ∈ ops, op.isC05 = true) → ∀ (j : Nat) (oj : Obj), w.objs[j]? = some oj →
    (∀ op ∈ ops, op.target ≠ some j) →
    (runOps cx w ops).objs[j]? = some oj ∧ oj.rowsV (runOps cx w ops).cells = oj.rowsV w.cells ∧
    Separated (runOps cx w ops) := by
  induction ops with
  | nil => intro w hs _ j oj hj _; exact ⟨hj, rfl, hs⟩
  | cons op ops ih =>
    intro w hs hops j oj hj htgt
    obtain ⟨hsep, hoth⟩ := step_c05 cx w hs op (hops op List.mem_cons_self)
    obtain ⟨hj', hobs⟩ := hoth j oj (htgt op List.mem_cons_self) hj
    obtain ⟨r1, r2, r3⟩ := ih (apply cx w op).1 hsep (fun o ho => hops o (List.mem_cons_of_mem _ ho)) j oj hj'
      (fun o ho => htgt o (List.mem_cons_of_mem _ ho))
    exact ⟨r1, r2.trans hobs, r3⟩

/-- right after `Clone` the copy is observed equal to the original -/
theorem clone_observed_equal (cx : Ctx) (w : World) (hs : Separated w) (k : Nat) (o : Obj)
    (hk : w.objs[k]? = some o) (hclonable : ∀ m, o ≠ .set m) :
    ∃ c, (apply cx w (.clone k)).1.objs[w.objs.length]? = some c ∧
      c.rowsV (apply cx w (.clone k)).1.cells = o.rowsV w.cells := by
  have hwf := (hs.wf k o hk).2
  cases o with
  | lin l =>
    refine ⟨.lin (l.clone cx w.cells).2, by simp [apply, hk], ?_⟩
    simp only [apply, hk, Obj.rowsV, Obj.lins, List.map_cons, List.map_nil]
    rw [linRowV_clone cx w.cells l (hwf.1 l List.mem_cons_self)]
  | aln a => exact (not_aln_of_sep hs hk).elim
  | multi m =>
    refine ⟨.multi (m.clone cx w.cells).2, by simp [apply, hk], ?_⟩
    simp only [apply, hk]
    exact (fresh_multi_clone cx w.cells m hwf.1).2
  | set m => exact (hclonable m rfl).elim

/-! ### the constructors establish separation -/

theorem newLin_fresh (cx : Ctx) (h : Cells) (sp : SeqSpec) :
    (newLin cx h sp).2.s.arr = h.arrays.length ∧ (newLin cx h sp).2.Valid (newLin cx h sp).1 ∧
    (newLin cx h sp).1.arrays.length = h.arrays.length + 1 ∧
    (∀ b, b < h.arrays.length → (newLin cx h sp).1.arr b = h.arr b) := by
  refine ⟨rfl, ⟨?_, ?_⟩, ?_, ?_⟩
  · simp only [newLin, Heap.ofList, Heap.alloc, List.length_append, List.length_singleton]; omega
  · simp only [newLin]
    rw [show (h.ofList (sp.cells.map (Lin.stored sp.q)) (cx.grow 0 sp.cells.length) zeroQL).2.arr
          = (h.alloc ((sp.cells.map (Lin.stored sp.q)) ++ List.replicate
              (max (sp.cells.map (Lin.stored sp.q)).length (cx.grow 0 sp.cells.length) - (sp.cells.map (Lin.stored sp.q)).length) zeroQL)).2 from rfl]
    simp only [Heap.ofList]
    rw [Heap.arr_alloc_new]
    simp only [List.length_append, List.length_replicate, List.length_map]
    omega
  · simp only [newLin]; exact Heap.size_ofList _ _ _ _
  · intro b hb
    simp only [newLin, Heap.ofList]
    exact Heap.arr_alloc_old _ _ _ hb

theorem newLins_spec (cx : Ctx) : ∀ (sps : List SeqSpec) (h : Cells) (acc : List Lin),
    ∃ ls, (sps.foldl (fun (acc : Cells × List Lin) sp =>
            ((newLin cx acc.1 sp).1, acc.2 ++ [(newLin cx acc.1 sp).2])) (h, acc)).2 = acc ++ ls ∧
      (∀ l ∈ ls, h.arrays.length ≤ l.s.arr ∧
        l.Valid (sps.foldl (fun (acc : Cells × List Lin) sp =>
            ((newLin cx acc.1 sp).1, acc.2 ++ [(newLin cx acc.1 sp).2])) (h, acc)).1) ∧
      ls.Pairwise (fun a b => a.s.arr ≠ b.s.arr) ∧
      h.arrays.length ≤ (sps.foldl (fun (acc : Cells × List Lin) sp =>
            ((newLin cx acc.1 sp).1, acc.2 ++ [(newLin cx acc.1 sp).2])) (h, acc)).1.arrays.length ∧
      (∀ b, b < h.arrays.length → (sps.foldl (fun (acc : Cells × List Lin) sp =>
            ((newLin cx acc.1 sp).1, acc.2 ++ [(newLin cx acc.1 sp).2])) (h, acc)).1.arr b = h.arr b) := by
  intro sps
  induction sps with
  | nil => intro h acc; exact ⟨[], by simp, by simp, List.Pairwise.nil, Nat.le_refl _, fun _ _ => rfl⟩
  | cons sp sps ih =>
    intro h acc
    obtain ⟨harr, hvalid, hsize, hold⟩ := newLin_fresh cx h sp
    obtain ⟨ls, h2, hall, hpw, hsz, hfr⟩ := ih (newLin cx h sp).1 (acc ++ [(newLin cx h sp).2])
    simp only [List.foldl_cons]
    refine ⟨(newLin cx h sp).2 :: ls, by rw [h2]; simp, ?_, ?_, by omega, ?_⟩
    · intro l hl
      rcases List.mem_cons.mp hl with e | e
      · subst e
        refine ⟨by omega, Lin.valid_mono hsz (hfr _ (by rw [harr, hsize]; omega)) hvalid⟩
      · have := hall l e; exact ⟨by omega, this.2⟩
    · refine List.pairwise_cons.mpr ⟨?_, hpw⟩
      intro c hc
      have := (hall c hc).1
      rw [harr]; omega
    · intro b hb
      rw [hfr b (by omega), hold b hb]

theorem newLins_eq (cx : Ctx) (h : Cells) (sps : List SeqSpec) :
    newLins cx h sps = sps.foldl (fun (acc : Cells × List Lin) sp =>
      ((newLin cx acc.1 sp).1, acc.2 ++ [(newLin cx acc.1 sp).2])) (h, []) := rfl

theorem newLins_wf (cx : Ctx) (h : Cells) (sps : List SeqSpec) :
    RowsWF (newLins cx h sps).1 (newLins cx h sps).2 ∧
    (∀ l ∈ (newLins cx h sps).2, h.arrays.length ≤ l.s.arr) := by
  obtain ⟨ls, h2, hall, hpw, _, _⟩ := newLins_spec cx sps h []
  rw [newLins_eq]
  simp only [List.nil_append] at h2
  rw [h2]
  exact ⟨⟨fun l hl => (hall l hl).2, hpw⟩, fun l hl => (hall l hl).1⟩

theorem separated_single (h : Cells) (o : Obj) (hk : o.isRowStored = true) (hwf : RowsWF h o.lins) :
    Separated ⟨h, [o], []⟩ := by
  constructor
  · intro i oi hi
    cases i with
    | zero => simp at hi; subst hi; exact ⟨hk, hwf⟩
    | succ n => simp at hi
  · intro i j oi oj hij hi hj
    cases i with
    | zero =>
      cases j with
      | zero => exact (hij rfl).elim
      | succ n => simp at hj
    | succ n => simp at hi

/-- **the initial object of every row-stored history is separated**: `linear.NewSeq/NewQSeq`
    copy the caller's letters, so the rows of a new multi or set own distinct arrays -/
theorem initWorld_separated (cx : Ctx) (kind : String) (strand : Int) (rows : List SeqSpec)
    (hkind : kind = "multi" ∨ kind = "set" ∨ ((kind = "lin" ∨ kind = "qlin") ∧ rows ≠ [])) :
    Separated (initWorld cx kind strand rows) := by
  rcases hkind with e | e | ⟨e, hne⟩
  · subst e
    have := newLins_wf cx Heap.empty rows
    exact separated_single _ (.multi ⟨(newLins cx Heap.empty rows).2⟩) rfl this.1
  · subst e
    have := newLins_wf cx Heap.empty rows
    exact separated_single _ (.set ⟨(newLins cx Heap.empty rows).2⟩) rfl this.1
  · cases rows with
    | nil => exact (hne rfl).elim
    | cons sp rest =>
      have hv : ∀ q, RowsWF (newLin cx Heap.empty { sp with q := q }).1 [(newLin cx Heap.empty { sp with q := q }).2] :=
        fun q => ⟨fun l hl => by
          simp only [List.mem_singleton] at hl; subst hl
          exact (newLin_fresh cx Heap.empty { sp with q := q }).2.1, List.pairwise_singleton _ _⟩
      rcases e with e | e
      · subst e; exact separated_single _ (.lin _) rfl (hv _)
      · subst e; exact separated_single _ (.lin _) rfl (hv _)

/-! ### the driver's `runHistory` observes the worlds of `runOps` -/

theorem runHistory_fold (cx : Ctx) : ∀ (ops : List Op) (w : World) (acc : List (String × List ObjV)),
    acc ≠ [] → (∃ res, acc.getLast? = some (res, w.view cx)) →
    (ops.foldl (fun (st : World × List (String × List ObjV)) op =>
        ((apply cx st.1 op).1, st.2 ++ [((apply cx st.1 op).2, (apply cx st.1 op).1.view cx)])) (w, acc)).1
      = runOps cx w ops ∧
    ∃ res, (ops.foldl (fun (st : World × List (String × List ObjV)) op =>
        ((apply cx st.1 op).1, st.2 ++ [((apply cx st.1 op).2, (apply cx st.1 op).1.view cx)])) (w, acc)).2.getLast?
      = some (res, (runOps cx w ops).view cx) := by
  intro ops
  induction ops with
  | nil => intro w acc _ hlast; exact ⟨rfl, hlast⟩
  | cons op ops ih =>
    intro w acc _ _
    simp only [List.foldl_cons]
    exact ih (apply cx w op).1 (acc ++ [((apply cx w op).2, (apply cx w op).1.view cx)]) (by simp)
      ⟨(apply cx w op).2, by simp⟩

/-- the last observation `runHistory` (the function the driver executes) reports is the
    observation of the world `runOps` reaches -/
theorem runHistory_last (cx : Ctx) (w : World) (ops : List Op) :
    ∃ res, (runHistory cx w ops).getLast? = some (res, (runOps cx w ops).view cx) := by
  have h := (runHistory_fold cx ops w [("ok", w.view cx)] (by simp) ⟨"ok", rfl⟩).2
  exact h

end Biogo.Containers
