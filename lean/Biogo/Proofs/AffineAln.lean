/-
Alignments column by column from the right: what appending one column does to the
projections, to the affine score and to the no-adjacent-gaps predicate
(`Biogo.Spec.Alignment`).  Core only.
-/
import Biogo.Spec.Alignment

namespace Biogo.Proofs.AffineAln
open Biogo.Spec.Alignment

/-- kind of the last column, `p` for the empty alignment -/
def endFrom (p : Kind) : Aln → Kind
  | [] => p
  | c :: a => endFrom c.kind a

/-- kind of the last column; the empty alignment counts as ending in a match (a following gap
    column opens a gap) -/
def endK (a : Aln) : Kind := endFrom .m a

/-- what one more column adds to the affine score after a column of kind `prev` -/
def stepCost (S : Matrix) (gapOpen : Int) (prev : Kind) (c : Col) : Int :=
  (if c.kind ≠ .m ∧ c.kind ≠ prev then gapOpen else 0) + colScore S c

/-- a gap may not directly follow a gap in the other sequence -/
def compat : Kind → Kind → Bool
  | .u, .l => false
  | .l, .u => false
  | _, _ => true

theorem endFrom_snoc (p : Kind) (a : Aln) (c : Col) : endFrom p (a ++ [c]) = c.kind := by
  induction a generalizing p with
  | nil => rfl
  | cons d a ih => exact ih d.kind

theorem endK_snoc (a : Aln) (c : Col) : endK (a ++ [c]) = c.kind := endFrom_snoc _ a c

theorem projR_append (a b : Aln) : projR (a ++ b) = projR a ++ projR b := by
  induction a with
  | nil => rfl
  | cons c a ih => cases c <;> simp [projR, ih]

theorem projQ_append (a b : Aln) : projQ (a ++ b) = projQ a ++ projQ b := by
  induction a with
  | nil => rfl
  | cons c a ih => cases c <;> simp [projQ, ih]

theorem scoreAffFrom_snoc (S : Matrix) (o : Int) (p : Kind) (a : Aln) (c : Col) :
    scoreAffFrom S o p (a ++ [c]) = scoreAffFrom S o p a + stepCost S o (endFrom p a) c := by
  induction a generalizing p with
  | nil =>
    show scoreAffFrom S o p [c] = scoreAffFrom S o p [] + stepCost S o p c
    simp only [scoreAffFrom, stepCost, Int.add_zero, Int.zero_add]
  | cons d a ih =>
    simp only [List.cons_append, scoreAffFrom, endFrom, ih d.kind, Int.add_assoc]

theorem scoreAff_snoc (S : Matrix) (o : Int) (a : Aln) (c : Col) :
    scoreAff S o (a ++ [c]) = scoreAff S o a + stepCost S o (endK a) c :=
  scoreAffFrom_snoc S o .m a c

/-- `noAdj` seen from a preceding column of kind `p` -/
def noAdjFrom (p : Kind) : Aln → Bool
  | [] => true
  | c :: a => compat p c.kind && noAdjFrom c.kind a

theorem noAdj_cons_cons (c d : Col) (a : Aln) :
    noAdj (c :: d :: a) = (compat c.kind d.kind && noAdj (d :: a)) := by
  cases c <;> cases d <;> rfl

theorem noAdj_eq_from (a : Aln) : noAdj a = noAdjFrom .m a := by
  have h : ∀ (c : Col) (a : Aln), noAdj (c :: a) = noAdjFrom c.kind a := by
    intro c a
    induction a generalizing c with
    | nil => cases c <;> rfl
    | cons d a ih => rw [noAdj_cons_cons, ih d]; rfl
  cases a with
  | nil => rfl
  | cons c a =>
    rw [h c a]
    cases c <;> simp [noAdjFrom, compat, Col.kind]

theorem noAdjFrom_snoc (p : Kind) (a : Aln) (c : Col) :
    noAdjFrom p (a ++ [c]) = (noAdjFrom p a && compat (endFrom p a) c.kind) := by
  induction a generalizing p with
  | nil => simp [noAdjFrom, endFrom]
  | cons d a ih => simp [noAdjFrom, endFrom, ih d.kind, Bool.and_assoc]

theorem noAdj_snoc (a : Aln) (c : Col) :
    noAdj (a ++ [c]) = (noAdj a && compat (endK a) c.kind) := by
  rw [noAdj_eq_from, noAdj_eq_from, noAdjFrom_snoc]; rfl

theorem endK_nil : endK [] = .m := rfl

/-- every non-empty alignment is an alignment followed by a last column -/
theorem eq_snoc_of_ne_nil (a : Aln) (h : a ≠ []) : ∃ a' c, a = a' ++ [c] :=
  ⟨a.dropLast, a.getLast h, (List.dropLast_concat_getLast h).symm⟩

theorem endK_ne_m_ne_nil (a : Aln) (h : endK a ≠ .m) : a ≠ [] := by
  intro e; subst e; exact h rfl

end Biogo.Proofs.AffineAln
