/-
The model's observations satisfy the declarative step statements of C07 that the executable laws
are proved to imply (`Laws.DeleteSpec`, `Laws.RangeSpec`, `Laws.AppendColsSpec`), for
column-stored alignments and multis in well-formed states.  Core-only.
-/
import Biogo.Proofs.ContLawsSound
import Biogo.Proofs.ContSepWorld
import Biogo.Proofs.ContModelObs

namespace Biogo.Containers
open Biogo.Go Biogo.Containers.Laws

/-! ### Delete -/

theorem map_eraseIdx' {α β : Type} (f : α → β) : ∀ (l : List α) (i : Nat),
    (l.eraseIdx i).map f = (l.map f).eraseIdx i := by
  intro l
  induction l with
  | nil => intro i; rfl
  | cons r rs ih =>
    intro i
    cases i with
    | zero => rfl
    | succ i => simp only [List.eraseIdx_cons_succ, List.map_cons, ih]

theorem model_delete_multi (cx : Ctx) (h : Cells) (m : Multi) (i : Nat) (hi : i < m.nrows) :
    DeleteSpec (viewObj cx h (.multi m)) (viewObj cx h (.multi (m.delete i))) i := by
  refine ⟨?_, ?_⟩
  · show (m.delete i).rows.map (linRowV h) = (m.rows.map (linRowV h)).eraseIdx i
    exact map_eraseIdx' _ _ _
  · show (m.delete i).nrows + 1 = m.nrows
    simp only [Multi.delete, Multi.nrows, List.length_eraseIdx] at hi ⊢
    simp [hi]; omega

/-- the index of the old row that becomes row `r` once row `i` is removed -/
def skipIdx (i r : Nat) : Nat := if r < i then r else r + 1

theorem eraseIdx_map_range {β : Type} (n i : Nat) (f : Nat → β) (hi : i < n) :
    ((List.range n).map f).eraseIdx i = (List.range (n - 1)).map fun r => f (skipIdx i r) := by
  apply List.ext_getElem?
  intro k
  rw [List.getElem?_eraseIdx, List.getElem?_map, List.getElem?_map, List.getElem?_map]
  by_cases hk : k < n - 1
  · rw [List.getElem?_range hk]
    by_cases hki : k < i
    · simp only [hki, if_true, skipIdx, Option.map_some]
      rw [List.getElem?_range (by omega)]; rfl
    · simp only [hki, if_false, skipIdx, Option.map_some]
      rw [List.getElem?_range (by omega)]; rfl
  · have h1 : (List.range (n - 1))[k]? = none := by
      rw [List.getElem?_eq_none_iff]; simp; omega
    rw [h1]
    by_cases hki : k < i
    · omega
    · simp only [hki, if_false, Option.map_none]
      have h2 : (List.range n)[k + 1]? = none := by
        rw [List.getElem?_eq_none_iff]; simp; omega
      rw [h2]; rfl

theorem getD_eraseIdx {β : Type} (l : List β) (i r : Nat) (d : β) :
    (l.eraseIdx i).getD r d = l.getD (skipIdx i r) d := by
  simp only [List.getD_eq_getElem?_getD, List.getElem?_eraseIdx, skipIdx]
  by_cases hr : r < i <;> simp [hr]

theorem model_delete_aln (cx : Ctx) (h : Cells) (a : Aln) (n : Nat) (hc : ColsCapWF h n a.cols) (i : Nat)
    (hi : i < a.rows) :
    DeleteSpec (viewObj cx h (.aln a)) (viewObj cx (a.delete h i).1 (.aln (a.delete h i).2)) i := by
  -- `i < Rows()`: there is a column, of `n` rows
  have hne : a.cols ≠ [] := by intro e; simp [Aln.rows, Aln.rows?, e] at hi
  have hrows : a.rows = n := by
    cases hcs : a.cols with
    | nil => exact (hne hcs).elim
    | cons c cs =>
      simp only [Aln.rows, Aln.rows?, hcs, List.head?_cons, Option.map_some, Option.getD_some]
      exact hc.2 c (by rw [hcs]; exact List.mem_cons_self)
  have hin : i < n := by rw [← hrows]; exact hi
  obtain ⟨cols', h2, hall, _, _⟩ := delFold_spec i n hin a.cols h [] hc.toColsWF hc.cap
  simp only [List.nil_append] at h2
  have hcols' : (a.delete h i).2.cols = cols' := by rw [Aln.delete_eq]; exact h2
  have hheap : (a.delete h i).1 = (delFold i a.cols (h, [])).1 := by rw [Aln.delete_eq]
  have hsubs : (a.delete h i).2.subs = a.subs.eraseIdx i := rfl
  have hq : (a.delete h i).2.q = a.q := rfl
  have hlen : cols'.length = a.cols.length := hall.length_eq.symm
  have hrows' : (a.delete h i).2.rows = n - 1 := by
    simp only [Aln.rows, Aln.rows?, hcols']
    have h0 : 0 < a.cols.length := List.length_pos_iff.mpr hne
    have h0' : 0 < cols'.length := by rw [hlen]; exact h0
    have := (hall.get 0 _ _ (List.getElem?_eq_getElem h0) (List.getElem?_eq_getElem h0')).2.2
    rw [List.head?_eq_getElem?, List.getElem?_eq_getElem h0']
    simp only [Option.map_some, Option.getD_some]; exact this
  have hrowL : ∀ r, (a.delete h i).2.rowLetters (a.delete h i).1 r = a.rowLetters h (skipIdx i r) := by
    intro r
    simp only [Aln.rowLetters, hcols', hq, hheap]
    refine (hall.map_eq _ _ fun c c' hcc => ?_).symm
    simp only [Heap.get, Heap.get?_eq_read, hcc.1, List.getElem?_eraseIdx, skipIdx]
    by_cases hr : r < i <;> simp [hr]
  refine ⟨?_, ?_⟩
  · show (viewObj cx (a.delete h i).1 (.aln (a.delete h i).2)).rows = (viewObj cx h (.aln a)).rows.eraseIdx i
    simp only [viewObj, hrows', hrows]
    rw [eraseIdx_map_range n i _ hin]
    apply List.map_congr_left
    intro r _
    simp only [hsubs, getD_eraseIdx, hrowL, hq, Aln.len, hcols', hlen]
  · show (a.delete h i).2.rows + 1 = a.rows
    rw [hrows', hrows]; omega

/-! ### Truncate (multi) over a range every row covers -/

theorem model_truncate_multi (cx : Ctx) (h : Cells) (m : Multi) (hwf : RowsCapWF h m.rows) (st en : Int)
    (hse : st ≤ en) (hcov : ∀ r ∈ m.rows, r.start ≤ st ∧ en ≤ r.«end») :
    (m.truncate st en).2 = true ∧
    RangeSpec (viewObj cx h (.multi m)) (viewObj cx h (.multi (m.truncate st en).1)) st en := by
  have hall : ∀ r ∈ m.rows, (r.truncate st en).isSome = true := fun r hr =>
    Lin.truncate_isSome r st en (hcov r hr).1 hse (hcov r hr).2 (hwf.1 r hr).2.1
  obtain ⟨hok, hrows⟩ := Multi.truncate_spec m st en hall
  refine ⟨hok, by simp [viewObj, hrows.length_eq], ?_⟩
  intro i rb hb
  simp only [viewObj, List.getElem?_map] at hb
  cases hl : m.rows[i]? with
  | none => rw [hl] at hb; cases hb
  | some l =>
    rw [hl] at hb
    simp only [Option.map_some, Option.some.injEq] at hb
    have hil : i < (m.truncate st en).1.rows.length := by
      rw [← hrows.length_eq]; exact (List.getElem?_eq_some_iff.mp hl).1
    have hl' := List.getElem?_eq_getElem hil
    have ht := hrows.get i l _ hl hl'
    obtain ⟨s1, s2, s3, s4, s5, s6, _⟩ := Lin.truncate_spec h l _ st en ht
    refine ⟨linRowV h (m.truncate st en).1.rows[i], by simp only [viewObj, List.getElem?_map, hl', Option.map_some], ?_⟩
    subst hb
    simp only [linRowV]
    exact ⟨s2, s3, ⟨s5, s6, s4⟩, s1⟩

/-! ### AppendColumns -/

theorem shown_stored_eq (q : Bool) (c : QL) : Lin.shown q (Lin.stored q c) = shownAs q c := by
  cases q <;> rfl

theorem appendColumns_facts (cx : Ctx) (h h' : Cells) (a a' : Aln) (rows : Nat) (colsIn : List (List QL))
    (hv : a.ColsValid h) (happ : a.appendColumns cx h rows colsIn = some (h', a')) :
    ∃ news, a'.cols = a.cols ++ news ∧
      (∀ c ∈ a.cols, h'.read c = h.read c) ∧
      All2 (fun c s => h'.read s = c.map (Lin.stored a.q) ∧ c.length = rows) colsIn news ∧
      a'.q = a.q ∧ a'.subs = a.subs := by
  have hok : colsIn.any (fun c => c.length != rows) = false := by
    cases hc : colsIn.any (fun c => c.length != rows) with
    | false => rfl
    | true => simp [Aln.appendColumns, hc] at happ
  rw [Aln.appendColumns_eq cx h a rows colsIn hok] at happ
  simp only [Option.some.injEq, Prod.mk.injEq] at happ
  obtain ⟨e1, e2⟩ := happ
  obtain ⟨news, h2, hall, _, hfr⟩ := colsFold_spec cx a.q colsIn h a.cols
  subst e1; subst e2
  refine ⟨news, h2, fun c hc => read_congr_arr _ _ _ (hfr _ (hv c hc)), ?_, rfl, rfl⟩
  have hlen : ∀ c ∈ colsIn, c.length = rows := by
    intro c hc
    have := List.any_eq_false.mp hok c hc
    simpa using this
  exact hall.imp_mem fun c s hc hcs => ⟨hcs.1, hlen c hc⟩

theorem model_appendCols_aln (cx : Ctx) (h : Cells) (a : Aln) (n : Nat) (hc : ColsCapWF h n a.cols)
    (rows : Nat) (hr : a.rows? = some rows) (colsIn : List (List QL)) (h' : Cells) (a' : Aln)
    (happ : a.appendColumns cx h rows colsIn = some (h', a')) :
    AppendColsSpec (viewObj cx h (.aln a)) (viewObj cx h' (.aln a')) colsIn := by
  have hrn : rows = n := Aln.rows?_eq hc hr
  subst hrn
  have hne : a.cols ≠ [] := Aln.cols_ne_nil hr
  obtain ⟨news, hcols, hold, hnews, hq, hsubs⟩ :=
    appendColumns_facts cx h h' a a' rows colsIn (fun c hm => (hc.1.1 c hm).1) happ
  have hrows : a.rows = rows := by simp only [Aln.rows, hr, Option.getD_some]
  have hrows' : a'.rows = rows := by
    simp only [Aln.rows, Aln.rows?, hcols]
    cases hcs : a.cols with
    | nil => exact (hne hcs).elim
    | cons c cs =>
      simp only [List.cons_append, List.head?_cons, Option.map_some, Option.getD_some]
      have := hr; simp only [Aln.rows?, hcs, List.head?_cons, Option.map_some, Option.some.injEq] at this
      exact this
  have hnl : news.length = colsIn.length := hnews.length_eq.symm
  refine ⟨by simp [viewObj, hrows, hrows'], by simp only [viewObj, hrows, hrows'], ?_⟩
  intro i rb hb
  simp only [viewObj, List.getElem?_map, hrows] at hb
  cases hx : (List.range rows)[i]? with
  | none => rw [hx] at hb; cases hb
  | some j =>
    have hji : j = i ∧ i < rows := by
      obtain ⟨hl, hg⟩ := List.getElem?_eq_some_iff.mp hx
      simp at hl hg; exact ⟨hg.symm, hl⟩
    rw [hx] at hb
    simp only [Option.map_some, Option.some.injEq] at hb
    obtain ⟨rfl, hi⟩ := hji
    refine ⟨_, by simp only [viewObj, List.getElem?_map, hrows', hx, Option.map_some]; rfl, ?_⟩
    subst hb
    simp only [hsubs, hq, Aln.len, hcols, List.length_append, hnl]
    refine ⟨?_, trivial, by omega, ⟨rfl, rfl, rfl⟩⟩
    -- the letters of row `j`
    simp only [Aln.rowLetters, hcols, hq, List.map_append]
    congr 1
    · apply List.map_congr_left
      intro c hm
      simp only [Heap.get, Heap.get?_eq_read, hold c hm]
    · refine (hnews.map_eq _ _ fun c s hcs => ?_).symm
      simp only [Heap.get, Heap.get?_eq_read, hcs.1, List.getElem?_map]
      have hjc : j < c.length := by rw [hcs.2]; exact hi
      rw [List.getElem?_eq_getElem hjc]
      simp only [Option.map_some, Option.getD_some, List.getD_eq_getElem?_getD, List.getElem?_eq_getElem hjc]
      exact (shown_stored_eq a.q c[j]).symm

end Biogo.Containers
