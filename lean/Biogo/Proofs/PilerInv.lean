/-
The whole-piler invariant and the derivation of `IsComponents` from local facts
(used both for the model's piles and for the soundness of the executable checker).  Core-only.
-/
import Biogo.Proofs.Piler

namespace Biogo.Proofs.Piler
open Biogo.Piler Biogo.Spec.Piles

/-! ### from local facts to "share a pile iff chained" -/

/-- every id names one feature -/
def Uniq (fs : Feats) : Prop := ∀ i k k', (i, k) ∈ fs → (i, k') ∈ fs → k = k'

theorem uniq_of_nodup {fs : Feats} (h : (fs.map (·.1)).Nodup) : Uniq fs := by
  induction fs with
  | nil => intro i k k' h1; cases h1
  | cons x fs ih =>
    simp only [List.map_cons, List.nodup_cons, List.mem_map, not_exists, not_and] at h
    intro i k k' h1 h2
    rcases List.mem_cons.mp h1 with e1 | h1 <;> rcases List.mem_cons.mp h2 with e2 | h2
    · rw [← e1] at e2; exact (Prod.mk.inj e2).2.symm ▸ rfl
    · exact absurd (by rw [← e1]) (h.1 (i, k') h2)
    · exact absurd (by rw [← e2]) (h.1 (i, k) h1)
    · exact ih h.2 i k k' h1 h2

theorem share_iff_of {fs : Feats} {ps : List Pile}
    (memAll : ∀ i k, (i, k) ∈ fs → ∃ p ∈ ps, i ∈ p.imgs)
    (inside : ∀ p ∈ ps, ∀ i ∈ p.imgs, ∀ k, (i, k) ∈ fs → k.loc = p.loc ∧ p.s ≤ k.s ∧ k.e ≤ p.e)
    (disj : ∀ p ∈ ps, ∀ q ∈ ps, p = q ∨ p.loc ≠ q.loc ∨ p.e < q.s ∨ q.e < p.s)
    (linked : ∀ p ∈ ps, ∀ i ∈ p.imgs, ∀ j ∈ p.imgs, Linked fs i j) :
    ∀ i j ki kj, (i, ki) ∈ fs → (j, kj) ∈ fs → (SamePile ps i j ↔ Linked fs i j) := by
  intro i j ki kj hi hj
  constructor
  · rintro ⟨p, hp, h1, h2⟩
    exact linked p hp i h1 j h2
  · intro h
    -- every pile that holds `i` holds everything linked to `i`
    have key : ∀ p ∈ ps, i ∈ p.imgs → j ∈ p.imgs := by
      clear hj
      induction h with
      | refl _ => intro p _ h; exact h
      | @tail j k _ t ih =>
        intro p hp hip
        have hjp := ih p hp hip
        obtain ⟨kj', kk, hj', hk', tt⟩ := t
        obtain ⟨q, hq, hkq⟩ := memAll k kk hk'
        have ⟨a1, a2, a3⟩ := inside p hp j hjp kj' hj'
        have ⟨b1, b2, b3⟩ := inside q hq k hkq kk hk'
        have ⟨t1, t2, t3⟩ := touches_iff.mp tt
        rcases disj p hp q hq with e | e | e | e
        · rw [e]; exact hkq
        · exact absurd (by omega) e
        · omega
        · omega
    obtain ⟨p, hp, hip⟩ := memAll i ki hi
    exact ⟨p, hp, hip, key p hp hip⟩

theorem pairwise_trichotomy {α} {R : α → α → Prop} {l : List α} (h : l.Pairwise R) {a b : α}
    (ha : a ∈ l) (hb : b ∈ l) : a = b ∨ R a b ∨ R b a := by
  induction l with
  | nil => cases ha
  | cons c t ih =>
    have sc := List.pairwise_cons.mp h
    rcases List.mem_cons.mp ha with rfl | ha' <;> rcases List.mem_cons.mp hb with rfl | hb'
    · left; rfl
    · right; left; exact sc.1 _ hb'
    · right; right; exact sc.1 _ ha'
    · exact ih sc.2 ha' hb'

/-! ### the piler invariant -/

def allImgs (p : Piler) : List Nat := p.locs.flatMap fun l => (p.trees l).flatMap (·.imgs)

structure Inv (p : Piler) : Prop where
  wf : WF p.feats
  trees : ∀ l, TreeOK p.feats l (p.trees l)
  locs : ∀ l, l ∉ p.locs → p.trees l = []
  nodup : p.locs.Nodup
  imgs : (allImgs p).Perm (p.feats.map (·.1))

theorem flatMap_congr' {α β} {f g : α → List β} {l : List α} (h : ∀ a ∈ l, f a = g a) :
    l.flatMap f = l.flatMap g := by
  induction l with
  | nil => rfl
  | cons a l ih =>
    simp only [List.flatMap_cons]
    rw [h a (List.mem_cons_self ..), ih (fun b hb => h b (List.mem_cons_of_mem _ hb))]

theorem allImgs_merge (p : Piler) (loc : Nat) (pi : Iv) (hl : ∀ l, l ∉ p.locs → p.trees l = [])
    (nd : p.locs.Nodup) : (allImgs (p.merge loc pi)).Perm (pi.imgs ++ allImgs p) := by
  simp only [allImgs, Piler.merge]
  by_cases hmem : loc ∈ p.locs
  · simp only [hmem, if_true]
    obtain ⟨s, t, hst⟩ := List.append_of_mem hmem
    rw [hst] at nd ⊢
    have nd' := List.nodup_append.mp nd
    have hs : ∀ a ∈ s, a ≠ loc := fun a ha => nd'.2.2 a ha loc (List.mem_cons_self ..)
    have ht : ∀ a ∈ t, a ≠ loc := fun a ha e =>
      (List.nodup_cons.mp nd'.2.1).1 (e ▸ ha)
    simp only [List.flatMap_append, List.flatMap_cons, if_true]
    rw [flatMap_congr' (f := fun l => (if l = loc then mergeLoc (p.trees loc) pi else p.trees l).flatMap (·.imgs))
          (g := fun l => (p.trees l).flatMap (·.imgs)) (l := s) (fun a ha => by simp [hs a ha]),
        flatMap_congr' (f := fun l => (if l = loc then mergeLoc (p.trees loc) pi else p.trees l).flatMap (·.imgs))
          (g := fun l => (p.trees l).flatMap (·.imgs)) (l := t) (fun a ha => by simp [ht a ha])]
    generalize s.flatMap (fun l => (p.trees l).flatMap (·.imgs)) = A
    generalize t.flatMap (fun l => (p.trees l).flatMap (·.imgs)) = B
    have := mergeLoc_imgs (p.trees loc) pi
    generalize (mergeLoc (p.trees loc) pi).flatMap (·.imgs) = N at *
    generalize (p.trees loc).flatMap (·.imgs) = O at *
    -- A ++ (N ++ B) ~ pi.imgs ++ (A ++ (O ++ B))
    refine (List.Perm.append_left A (this.append_right B)).trans ?_
    simp only [List.append_assoc]
    rw [← List.append_assoc A, ← List.append_assoc pi.imgs]
    exact List.Perm.append_right _ List.perm_append_comm
  · simp only [hmem, if_false, List.flatMap_append, List.flatMap_cons, List.flatMap_nil, if_true,
      List.append_nil]
    rw [flatMap_congr' (f := fun l => (if l = loc then mergeLoc (p.trees loc) pi else p.trees l).flatMap (·.imgs))
          (g := fun l => (p.trees l).flatMap (·.imgs)) (l := p.locs)
          (fun a ha => by have : a ≠ loc := fun e => hmem (e ▸ ha); simp [this])]
    have := mergeLoc_imgs (p.trees loc) pi
    rw [hl loc hmem] at this ⊢
    simp only [List.flatMap_nil, List.append_nil] at this
    exact List.perm_append_comm.trans (this.append_right _)

theorem merge_locs_nodup (p : Piler) (loc : Nat) (pi : Iv) (nd : p.locs.Nodup) :
    (p.merge loc pi).locs.Nodup := by
  simp only [Piler.merge]
  split
  · exact nd
  · rename_i h
    refine List.nodup_append.mpr ⟨nd, by simp, ?_⟩
    intro a ha b hb
    simp only [List.mem_singleton] at hb
    rw [hb]; intro e; exact h (e ▸ ha)

theorem merge_locs_keep (p : Piler) (loc : Nat) (pi : Iv) (hl : ∀ l, l ∉ p.locs → p.trees l = []) :
    ∀ l, l ∉ (p.merge loc pi).locs → (p.merge loc pi).trees l = [] := by
  intro l h
  simp only [Piler.merge] at h ⊢
  by_cases e : l = loc
  · subst e
    split at h
    · contradiction
    · simp at h
  · simp only [e, if_false]
    apply hl
    split at h
    · exact h
    · intro hm; exact h (List.mem_append_left _ hm)

/-- one `merge` of a feature already recorded in the feature table `fs'` -/
theorem merge_step {p : Piler} {fs' : Feats} {i : Nat} {k : Key}
    (wf' : WF fs') (sub : ∀ x ∈ p.feats, x ∈ fs') (hik : (i, k) ∈ fs')
    (tr : ∀ l, TreeOK p.feats l (p.trees l)) :
    ∀ l, TreeOK fs' l ((p.merge k.loc { s := k.s, e := k.e, imgs := [i] }).trees l) := by
  intro l
  simp only [Piler.merge]
  split
  · rename_i e
    subst e
    exact mergeLoc_ok wf' sub hik rfl (tr _)
  · exact (tr l).mono sub

theorem add_inv {p : Piler} (h : Inv p) (x : PairIn) (ha : x.a.s ≤ x.a.e) (hb : x.b.s ≤ x.b.e) :
    Inv (p.add x).1 := by
  simp only [Piler.add]
  split
  · exact h
  · simp only
    generalize hfs : p.feats ++ [(2 * x.id, x.a), (2 * x.id + 1, x.b)] = fs'
    have sub : ∀ y ∈ p.feats, y ∈ fs' := fun y hy => hfs ▸ List.mem_append_left _ hy
    have wf' : WF fs' := by
      intro y hy
      rw [← hfs] at hy
      rcases List.mem_append.mp hy with hy | hy
      · exact h.wf y hy
      · simp only [List.mem_cons, List.not_mem_nil, or_false] at hy
        rcases hy with rfl | rfl <;> assumption
    have ma : (2 * x.id, x.a) ∈ fs' := by rw [← hfs]; simp
    have mb : (2 * x.id + 1, x.b) ∈ fs' := by rw [← hfs]; simp
    let p1 := p.merge x.a.loc { s := x.a.s, e := x.a.e, imgs := [2 * x.id] }
    let p2 := p1.merge x.b.loc { s := x.b.s, e := x.b.e, imgs := [2 * x.id + 1] }
    have t1 : ∀ l, TreeOK fs' l (p1.trees l) := merge_step wf' sub ma h.trees
    have t2 : ∀ l, TreeOK fs' l (p2.trees l) :=
      merge_step (p := { p1 with feats := fs' }) wf' (fun y hy => hy) mb t1
    have l1 := merge_locs_keep p x.a.loc { s := x.a.s, e := x.a.e, imgs := [2 * x.id] } h.locs
    have n1 := merge_locs_nodup p x.a.loc { s := x.a.s, e := x.a.e, imgs := [2 * x.id] } h.nodup
    have l2 := merge_locs_keep p1 x.b.loc { s := x.b.s, e := x.b.e, imgs := [2 * x.id + 1] } l1
    have n2 := merge_locs_nodup p1 x.b.loc { s := x.b.s, e := x.b.e, imgs := [2 * x.id + 1] } n1
    have i1 := allImgs_merge p x.a.loc { s := x.a.s, e := x.a.e, imgs := [2 * x.id] } h.locs h.nodup
    have i2 := allImgs_merge p1 x.b.loc { s := x.b.s, e := x.b.e, imgs := [2 * x.id + 1] } l1 n1
    refine ⟨wf', t2, l2, n2, ?_⟩
    show (allImgs p2).Perm _
    rw [← hfs]
    simp only [List.map_append, List.map_cons, List.map_nil]
    have e1 : (allImgs p1).Perm (2 * x.id :: allImgs p) := by simpa using i1
    have e2 : (allImgs p2).Perm ((2 * x.id + 1) :: allImgs p1) := by simpa using i2
    refine e2.trans ?_
    refine (List.Perm.cons _ (e1.trans (List.Perm.cons _ h.imgs))).trans ?_
    refine (List.Perm.swap _ _ _).trans ?_
    exact (List.perm_append_comm (l₁ := [2 * x.id, 2 * x.id + 1]))

theorem new_inv : Inv Piler.new where
  wf := fun x hx => by cases hx
  trees := fun l => ⟨fun a ha => (by simp [Piler.new] at ha), List.Pairwise.nil⟩
  locs := fun l _ => rfl
  nodup := List.nodup_nil
  imgs := by simp [allImgs, Piler.new]

def WFIn (xs : List PairIn) : Prop := ∀ x ∈ xs, x.a.s ≤ x.a.e ∧ x.b.s ≤ x.b.e

theorem addAll_inv {p : Piler} (h : Inv p) (xs : List PairIn) (wf : WFIn xs) :
    Inv (p.addAll xs).1 := by
  induction xs generalizing p with
  | nil => exact h
  | cons x xs ih =>
    simp only [Piler.addAll]
    have hx := wf x (List.mem_cons_self ..)
    exact ih (add_inv h x hx.1 hx.2) (fun y hy => wf y (List.mem_cons_of_mem _ hy))

end Biogo.Proofs.Piler
