/-
Proofs about `FinaliseMerge` in the merger model (C15, part merge): the two clipping passes are
the identity when every letter is valid and `maxIGap ≥ 1`; for arbitrary sequences they never
move a trapezoid's left edge down (nor its right edge up); the final sort returns the same
trapezoids in ascending `Bottom`.  Core Lean only.
-/
import Biogo.Model.PalsMerge

namespace Biogo.Proofs.PalsMerge
open Biogo.PalsMerge

/-- every letter of the sequence is a valid letter of the alphabet -/
def AllValid (v : Array Bool) : Prop := ∀ i : Nat, i < v.size → v.getD i false = true

theorem validAt_of_allValid {v : Array Bool} (h : AllValid v) (pos : Int) (h0 : 0 ≤ pos)
    (h1 : pos < v.size) : validAt v pos = true := by
  unfold validAt
  apply h
  omega

/-! ### the vertical clip -/

theorem cvLoop_valid (c : Cfg) (hg : 1 ≤ c.maxIGap) (hv : AllValid c.qv) :
    ∀ (n : Nat) (pos : Int) (base : Trap) (out : List Trap), 0 ≤ pos → (n ≠ 0 → pos + n ≤ c.qlen) →
      cvLoop c n pos pos base out = (pos + n, pos + n, base, out) := by
  intro n
  induction n with
  | zero => intro pos base out _ _; simp [cvLoop]
  | succ n ih =>
    intro pos base out h0 h1
    have h1 := h1 (by omega)
    have hva : validAt c.qv pos = true := validAt_of_allValid hv pos h0 (by unfold Cfg.qlen at h1; omega)
    unfold cvLoop
    rw [if_pos hva, if_neg (by omega)]
    rw [ih (pos + 1) base out (by omega) (by omega)]
    have e : pos + 1 + (n : Int) = pos + ((n + 1 : Nat) : Int) := by omega
    rw [e]

theorem clipVertical1_valid (c : Cfg) (hg : 1 ≤ c.maxIGap) (hv : AllValid c.qv) (base : Trap) :
    clipVertical1 c base = [base] := by
  unfold clipVertical1
  generalize hl0 : (if base.bottom - c.maxIGap + 1 < 0 then (0 : Int) else base.bottom - c.maxIGap + 1) = lag0
  generalize hl1 : (if base.top + c.maxIGap > c.qlen then c.qlen else base.top + c.maxIGap) = last
  have h0 : 0 ≤ lag0 := by rw [← hl0]; split <;> omega
  have h1 : last ≤ c.qlen := by rw [← hl1]; split <;> omega
  have hq : 0 ≤ c.qlen := by unfold Cfg.qlen; omega
  have hn : (last - lag0).toNat ≠ 0 → lag0 + ((last - lag0).toNat : Int) ≤ c.qlen := by omega
  simp only []
  rw [cvLoop_valid c hg hv _ lag0 base [] h0 hn]
  simp only []
  rw [if_neg (by omega)]
  rfl

theorem clipVertical_valid (c : Cfg) (hg : 1 ≤ c.maxIGap) (hv : AllValid c.qv) (l : List Trap) :
    clipVertical c l = l := by
  unfold clipVertical
  induction l with
  | nil => rfl
  | cons x xs ih => rw [List.flatMap_cons, clipVertical1_valid c hg hv, ih]; rfl

/-! ### the clip against the target -/

theorem tdiv_mid (b t : Int) (h : b ≤ t) : b ≤ (b + t).tdiv 2 ∧ (b + t).tdiv 2 ≤ t := by
  rcases Int.le_total 0 (b + t) with hs | hs
  · rw [Int.tdiv_eq_ediv_of_nonneg hs]; omega
  · have e : (b + t).tdiv 2 = -((-(b + t)).tdiv 2) := by rw [Int.neg_tdiv, Int.neg_neg]
    rw [e, Int.tdiv_eq_ediv_of_nonneg (by omega)]
    omega

/-- clipping a well-formed trapezoid against its own target range changes nothing -/
theorem clip_id (tr : Trap) (h1 : tr.bottom ≤ tr.top) (h2 : tr.left ≤ tr.right) :
    clip tr (tr.top - tr.left) (tr.bottom - tr.right) = tr := by
  unfold clip
  have e1 : (if tr.bottom < tr.bottom - tr.right + tr.left then tr.bottom - tr.right + tr.left else tr.bottom) = tr.bottom := by
    rw [if_neg (by omega)]
  have e2 : (if tr.top > tr.top - tr.left + tr.right then tr.top - tr.left + tr.right else tr.top) = tr.top := by
    rw [if_neg (by omega)]
  simp only [e1, e2]
  have hm := tdiv_mid tr.bottom tr.top h1
  rw [if_neg (by omega), if_neg (by omega)]

theorem ctLoop_valid (c : Cfg) (hg : 1 ≤ c.maxIGap) (hv : AllValid c.tv) :
    ∀ (n : Nat) (pos lagClip : Int) (base : Trap) (out : List Trap), 0 ≤ pos → (n ≠ 0 → pos + n ≤ c.tlen) →
      ctLoop c n pos pos lagClip base out = (pos + n, pos + n, lagClip, out) := by
  intro n
  induction n with
  | zero => intro pos lagClip base out _ _; simp [ctLoop]
  | succ n ih =>
    intro pos lagClip base out h0 h1
    have h1 := h1 (by omega)
    have hva : validAt c.tv pos = true := validAt_of_allValid hv pos h0 (by unfold Cfg.tlen at h1; omega)
    unfold ctLoop
    rw [if_pos hva, if_neg (by omega)]
    rw [ih (pos + 1) lagClip base out (by omega) (by omega)]
    have e : pos + 1 + (n : Int) = pos + ((n + 1 : Nat) : Int) := by omega
    rw [e]

theorem clipTrap1_valid (c : Cfg) (hg : 1 ≤ c.maxIGap) (hv : AllValid c.tv) (base : Trap)
    (h1 : base.bottom ≤ base.top) (h2 : base.left ≤ base.right) : clipTrap1 c base = [base] := by
  unfold clipTrap1
  split
  · rfl
  · simp only []
    generalize hl0 : (if base.bottom - base.right - c.maxIGap + 1 < 0 then (0 : Int)
      else base.bottom - base.right - c.maxIGap + 1) = lag0
    generalize hl1 : (if base.top - base.left + c.maxIGap > c.tlen then c.tlen
      else base.top - base.left + c.maxIGap) = last
    have h0 : 0 ≤ lag0 := by rw [← hl0]; split <;> omega
    have h1' : last ≤ c.tlen := by rw [← hl1]; split <;> omega
    have hq : 0 ≤ c.tlen := by unfold Cfg.tlen; omega
    have hn : (last - lag0).toNat ≠ 0 → lag0 + ((last - lag0).toNat : Int) ≤ c.tlen := by omega
    rw [ctLoop_valid c hg hv _ lag0 _ base [] h0 hn]
    simp only []
    rw [if_pos (by omega), clip_id base h1 h2]
    rfl

theorem clipTrapezoids_valid (c : Cfg) (hg : 1 ≤ c.maxIGap) (hv : AllValid c.tv) (l : List Trap)
    (h : ∀ t ∈ l, t.bottom ≤ t.top ∧ t.left ≤ t.right) : clipTrapezoids c l = l := by
  unfold clipTrapezoids
  induction l with
  | nil => rfl
  | cons x xs ih =>
    have hx := h x List.mem_cons_self
    rw [List.flatMap_cons, clipTrap1_valid c hg hv x hx.1 hx.2, ih (fun t ht => h t (List.mem_cons_of_mem _ ht))]
    rfl

/-! ### for arbitrary sequences: the diagonal range only shrinks -/

theorem cvLoop_diag (c : Cfg) (l r : Int) :
    ∀ (n : Nat) (pos lag : Int) (base : Trap) (out : List Trap),
      base.left = l → base.right = r → (∀ p ∈ out, p.left = l ∧ p.right = r) →
      (cvLoop c n pos lag base out).2.2.1.left = l ∧ (cvLoop c n pos lag base out).2.2.1.right = r ∧
      ∀ p ∈ (cvLoop c n pos lag base out).2.2.2, p.left = l ∧ p.right = r := by
  intro n
  induction n with
  | zero => intro pos lag base out hl hr ho; exact ⟨hl, hr, ho⟩
  | succ n ih =>
    intro pos lag base out hl hr ho
    unfold cvLoop
    split
    · split
      · split
        · apply ih _ _ { base with bottom := pos } _ hl hr
          intro p hp
          rcases List.mem_cons.mp hp with e | e
          · subst e; exact ⟨hl, hr⟩
          · exact ho p e
        · exact ih _ _ { base with bottom := pos } _ hl hr ho
      · exact ih _ _ _ _ hl hr ho
    · exact ih _ _ _ _ hl hr ho

theorem clipVertical1_diag (c : Cfg) (base : Trap) :
    ∀ p ∈ clipVertical1 c base, p.left = base.left ∧ p.right = base.right := by
  intro p hp
  unfold clipVertical1 at hp
  simp only [] at hp
  generalize hl0 : (if base.bottom - c.maxIGap + 1 < 0 then (0 : Int) else base.bottom - c.maxIGap + 1) = lag0 at hp
  generalize hl1 : (if base.top + c.maxIGap > c.qlen then c.qlen else base.top + c.maxIGap) = last at hp
  have h := cvLoop_diag c base.left base.right (last - lag0).toNat lag0 lag0 base [] rfl rfl (by simp)
  generalize cvLoop c (last - lag0).toNat lag0 lag0 base [] = r at hp h
  obtain ⟨pos, lag, b, out⟩ := r
  simp only [List.reverse_cons, List.mem_append, List.mem_reverse, List.mem_singleton] at hp
  rcases hp with e | e
  · exact h.2.2 p e
  · subst e
    split
    · exact ⟨h.1, h.2.1⟩
    · exact ⟨h.1, h.2.1⟩

theorem clip_diag (tr : Trap) (a b : Int) : tr.left ≤ (clip tr a b).left ∧ (clip tr a b).right ≤ tr.right := by
  unfold clip
  simp only []
  constructor <;> split <;> omega

theorem ctLoop_diag (c : Cfg) (base : Trap) :
    ∀ (n : Nat) (pos lag lagClip : Int) (out : List Trap),
      (∀ p ∈ out, base.left ≤ p.left ∧ p.right ≤ base.right) →
      ∀ p ∈ (ctLoop c n pos lag lagClip base out).2.2.2, base.left ≤ p.left ∧ p.right ≤ base.right := by
  intro n
  induction n with
  | zero => intro pos lag lagClip out ho; exact ho
  | succ n ih =>
    intro pos lag lagClip out ho
    unfold ctLoop
    split
    · split
      · split
        · apply ih
          intro p hp
          rcases List.mem_cons.mp hp with e | e
          · subst e; exact clip_diag base _ _
          · exact ho p e
        · exact ih _ _ _ _ ho
      · exact ih _ _ _ _ ho
    · exact ih _ _ _ _ ho

theorem clipTrap1_diag (c : Cfg) (base : Trap) :
    ∀ p ∈ clipTrap1 c base, base.left ≤ p.left ∧ p.right ≤ base.right := by
  intro p hp
  unfold clipTrap1 at hp
  split at hp
  · simp only [List.mem_singleton] at hp
    subst hp
    exact ⟨Int.le_refl _, Int.le_refl _⟩
  · simp only [] at hp
    generalize hl0 : (if base.bottom - base.right - c.maxIGap + 1 < 0 then (0 : Int)
      else base.bottom - base.right - c.maxIGap + 1) = lag0 at hp
    generalize hl1 : (if base.top - base.left + c.maxIGap > c.tlen then c.tlen
      else base.top - base.left + c.maxIGap) = last at hp
    have h := ctLoop_diag c base (last - lag0).toNat lag0 lag0 (base.bottom - base.right) [] (by simp)
    generalize ctLoop c (last - lag0).toNat lag0 lag0 (base.bottom - base.right) base [] = r at hp h
    obtain ⟨pos, lag, lagClip, out⟩ := r
    simp only [List.reverse_cons, List.mem_append, List.mem_reverse, List.mem_singleton] at hp
    rcases hp with e | e
    · exact h p e
    · subst e
      exact clip_diag base _ _

/-- every trapezoid of the clipped list comes from a trapezoid of the merged list whose diagonal
    range contains its own -/
theorem finalList_diag (c : Cfg) (s : St) :
    ∀ p ∈ finalList c s, ∃ t, (t ∈ s.active ∨ t ∈ s.done) ∧ t.left ≤ p.left ∧ p.right ≤ t.right := by
  intro p hp
  unfold finalList clipTrapezoids clipVertical at hp
  obtain ⟨m, hm, hpm⟩ := List.mem_flatMap.mp hp
  obtain ⟨t, ht, hmt⟩ := List.mem_flatMap.mp hm
  have d1 := clipVertical1_diag c t m hmt
  have d2 := clipTrap1_diag c m p hpm
  refine ⟨t, ?_, by omega, by omega⟩
  simp only [List.mem_append, List.mem_reverse] at ht
  exact ht

/-! ### clipping never grows a trapezoid vertically (arbitrary letters, `maxIGap ≥ 1`) -/

/-- The scan of `clipVertical` over one trapezoid with rows `[B0, T0]`: the piece being scanned keeps
    its top and never lowers its bottom; every piece split off lies within `[B0, T0]`.  `last` is
    the end of the scan (`≤ T0 + maxIGap`), `lag0` its start (`≥ B0 - maxIGap + 1`). -/
theorem cvLoop_rows (c : Cfg) (B0 T0 lag0 last : Int) (hlast : last ≤ T0 + c.maxIGap)
    (hlag0 : B0 - c.maxIGap + 1 ≤ lag0) :
    ∀ (n : Nat) (pos lag : Int) (base : Trap) (out : List Trap),
      ((n : Int) ≤ last - pos ∨ n = 0) → lag0 ≤ lag → lag ≤ pos →
      base.top = T0 → B0 ≤ base.bottom → (∀ p ∈ out, B0 ≤ p.bottom ∧ p.top ≤ T0) →
      let r := cvLoop c n pos lag base out
      r.1 = pos + n ∧ lag0 ≤ r.2.1 ∧ r.2.1 ≤ r.1 ∧ r.2.2.1.top = T0 ∧ B0 ≤ r.2.2.1.bottom ∧
      ∀ p ∈ r.2.2.2, B0 ≤ p.bottom ∧ p.top ≤ T0 := by
  intro n
  induction n with
  | zero =>
    intro pos lag base out _ hl0 hlp ht hb ho
    simp only [cvLoop]
    exact ⟨by omega, hl0, hlp, ht, hb, ho⟩
  | succ n ih =>
    intro pos lag base out hn hl0 hlp ht hb ho
    have hn' : ((n + 1 : Nat) : Int) ≤ last - pos := by
      rcases hn with h | h
      · exact h
      · omega
    have hnext : ((n : Int) ≤ last - (pos + 1) ∨ n = 0) := Or.inl (by omega)
    have e : pos + 1 + (n : Int) = pos + ((n + 1 : Nat) : Int) := by omega
    unfold cvLoop
    split
    · split
      · rename_i hcut
        split
        · have h := ih (pos + 1) (pos + 1) { base with bottom := pos } ({ base with top := lag } :: out) hnext
            (by omega) (Int.le_refl _) ht (by simp only []; omega) (by
              intro p hp
              rcases List.mem_cons.mp hp with e' | e'
              · subst e'; simp only []; exact ⟨hb, by omega⟩
              · exact ho p e')
          simp only [] at h ⊢
          rw [e] at h; exact h
        · have h := ih (pos + 1) (pos + 1) { base with bottom := pos } out hnext
            (by omega) (Int.le_refl _) ht (by simp only []; omega) ho
          simp only [] at h ⊢
          rw [e] at h; exact h
      · have h := ih (pos + 1) (pos + 1) base out hnext (by omega) (Int.le_refl _) ht hb ho
        simp only [] at h ⊢
        rw [e] at h; exact h
    · have h := ih (pos + 1) lag base out hnext hl0 (by omega) ht hb ho
      simp only [] at h ⊢
      rw [e] at h; exact h

theorem clipVertical1_rows (c : Cfg) (hg : 1 ≤ c.maxIGap) (base : Trap) :
    ∀ p ∈ clipVertical1 c base, base.bottom ≤ p.bottom ∧ p.top ≤ base.top := by
  intro p hp
  unfold clipVertical1 at hp
  simp only [] at hp
  generalize hl0 : (if base.bottom - c.maxIGap + 1 < 0 then (0 : Int) else base.bottom - c.maxIGap + 1) = lag0 at hp
  generalize hl1 : (if base.top + c.maxIGap > c.qlen then c.qlen else base.top + c.maxIGap) = last at hp
  have h0 : base.bottom - c.maxIGap + 1 ≤ lag0 := by rw [← hl0]; split <;> omega
  have h1 : last ≤ base.top + c.maxIGap := by rw [← hl1]; split <;> omega
  have h := cvLoop_rows c base.bottom base.top lag0 last h1 h0 (last - lag0).toNat lag0 lag0 base []
    (by omega) (Int.le_refl _) (Int.le_refl _) rfl (Int.le_refl _) (by simp)
  simp only [] at h
  generalize cvLoop c (last - lag0).toNat lag0 lag0 base [] = r at hp h
  obtain ⟨pos, lag, b, out⟩ := r
  simp only [] at h hp
  obtain ⟨hpos, hl0', hlp, htop, hbot, hout⟩ := h
  simp only [List.reverse_cons, List.mem_append, List.mem_reverse, List.mem_singleton] at hp
  rcases hp with e | e
  · exact hout p e
  · subst e
    split
    · simp only []
      rename_i hc
      -- the final cut: `pos = max lag0 last`, so `lag ≤ pos - maxIGap ≤ top`
      refine ⟨hbot, ?_⟩
      omega
    · exact ⟨hbot, by omega⟩

theorem clip_rows (tr : Trap) (a b : Int) : tr.bottom ≤ (clip tr a b).bottom ∧ (clip tr a b).top ≤ tr.top := by
  unfold clip
  simp only []
  constructor <;> split <;> omega

theorem ctLoop_rows (c : Cfg) (base : Trap) :
    ∀ (n : Nat) (pos lag lagClip : Int) (out : List Trap),
      (∀ p ∈ out, base.bottom ≤ p.bottom ∧ p.top ≤ base.top) →
      ∀ p ∈ (ctLoop c n pos lag lagClip base out).2.2.2, base.bottom ≤ p.bottom ∧ p.top ≤ base.top := by
  intro n
  induction n with
  | zero => intro pos lag lagClip out ho; exact ho
  | succ n ih =>
    intro pos lag lagClip out ho
    unfold ctLoop
    split
    · split
      · split
        · apply ih
          intro p hp
          rcases List.mem_cons.mp hp with e | e
          · subst e; exact clip_rows base _ _
          · exact ho p e
        · exact ih _ _ _ _ ho
      · exact ih _ _ _ _ ho
    · exact ih _ _ _ _ ho

theorem clipTrap1_rows (c : Cfg) (base : Trap) :
    ∀ p ∈ clipTrap1 c base, base.bottom ≤ p.bottom ∧ p.top ≤ base.top := by
  intro p hp
  unfold clipTrap1 at hp
  split at hp
  · simp only [List.mem_singleton] at hp
    subst hp
    exact ⟨Int.le_refl _, Int.le_refl _⟩
  · simp only [] at hp
    generalize hl0 : (if base.bottom - base.right - c.maxIGap + 1 < 0 then (0 : Int)
      else base.bottom - base.right - c.maxIGap + 1) = lag0 at hp
    generalize hl1 : (if base.top - base.left + c.maxIGap > c.tlen then c.tlen
      else base.top - base.left + c.maxIGap) = last at hp
    have h := ctLoop_rows c base (last - lag0).toNat lag0 lag0 (base.bottom - base.right) [] (by simp)
    generalize ctLoop c (last - lag0).toNat lag0 lag0 (base.bottom - base.right) base [] = r at hp h
    obtain ⟨pos, lag, lagClip, out⟩ := r
    simp only [List.reverse_cons, List.mem_append, List.mem_reverse, List.mem_singleton] at hp
    rcases hp with e | e
    · exact h p e
    · subst e
      exact clip_rows base _ _

/-- **neither clipping pass ever grows a trapezoid**: every trapezoid of the clipped list comes from
    a trapezoid of the merged list whose query rows and diagonal range contain its own — for
    arbitrary letters (runs of `N` anywhere), `maxIGap ≥ 1` -/
theorem finalList_within (c : Cfg) (hg : 1 ≤ c.maxIGap) (s : St) :
    ∀ p ∈ finalList c s, ∃ t, (t ∈ s.active ∨ t ∈ s.done) ∧
      t.bottom ≤ p.bottom ∧ p.top ≤ t.top ∧ t.left ≤ p.left ∧ p.right ≤ t.right := by
  intro p hp
  unfold finalList clipTrapezoids clipVertical at hp
  obtain ⟨m, hm, hpm⟩ := List.mem_flatMap.mp hp
  obtain ⟨t, ht, hmt⟩ := List.mem_flatMap.mp hm
  have d1 := clipVertical1_diag c t m hmt
  have d2 := clipTrap1_diag c m p hpm
  have r1 := clipVertical1_rows c hg t m hmt
  have r2 := clipTrap1_rows c m p hpm
  refine ⟨t, ?_, by omega, by omega, by omega, by omega⟩
  simp only [List.mem_append, List.mem_reverse] at ht
  exact ht

/-! ### the final sort -/

theorem mem_insertByBottom (x : Trap) : ∀ (l : List Trap) (y : Trap), y ∈ insertByBottom x l ↔ y = x ∨ y ∈ l := by
  intro l
  induction l with
  | nil => intro y; simp [insertByBottom]
  | cons z zs ih =>
    intro y
    unfold insertByBottom
    split
    · simp only [List.mem_cons, ih]
      constructor
      · rintro (h | h | h)
        · exact Or.inr (Or.inl h)
        · exact Or.inl h
        · exact Or.inr (Or.inr h)
      · rintro (h | h | h)
        · exact Or.inr (Or.inl h)
        · exact Or.inl h
        · exact Or.inr (Or.inr h)
    · simp only [List.mem_cons]

theorem mem_sortByBottom : ∀ (l : List Trap) (y : Trap), y ∈ sortByBottom l ↔ y ∈ l := by
  intro l
  induction l with
  | nil => intro y; simp [sortByBottom]
  | cons x xs ih =>
    intro y
    simp only [sortByBottom, mem_insertByBottom, ih, List.mem_cons]

def ByBottom (l : List Trap) : Prop := l.Pairwise (fun a b => a.bottom ≤ b.bottom)

theorem insertByBottom_sorted (x : Trap) : ∀ l : List Trap, ByBottom l → ByBottom (insertByBottom x l) := by
  intro l
  induction l with
  | nil => intro _; simp [insertByBottom, ByBottom]
  | cons z zs ih =>
    intro h
    have hc := List.pairwise_cons.mp h
    unfold insertByBottom
    split
    · rename_i hle
      refine List.pairwise_cons.mpr ⟨?_, ih hc.2⟩
      intro y hy
      rcases (mem_insertByBottom x zs y).mp hy with e | e
      · subst e; exact hle
      · exact hc.1 y e
    · rename_i hnle
      refine List.pairwise_cons.mpr ⟨?_, h⟩
      intro y hy
      rcases List.mem_cons.mp hy with e | e
      · subst e; omega
      · have := hc.1 y e; omega

theorem sortByBottom_sorted : ∀ l : List Trap, ByBottom (sortByBottom l) := by
  intro l
  induction l with
  | nil => simp [sortByBottom, ByBottom]
  | cons x xs ih => exact insertByBottom_sorted x _ ih

theorem sortByBottom_length : ∀ l : List Trap, (sortByBottom l).length = l.length := by
  have hi : ∀ (x : Trap) (l : List Trap), (insertByBottom x l).length = l.length + 1 := by
    intro x l
    induction l with
    | nil => rfl
    | cons z zs ih =>
      unfold insertByBottom
      split
      · simp [ih]
      · simp
  intro l
  induction l with
  | nil => rfl
  | cons x xs ih => simp [sortByBottom, hi, ih]

end Biogo.Proofs.PalsMerge
