/-
Soundness of the executable laws of Spec/ContLaws.lean: when a law evaluates to `none` (no
complaint) on observations, the declarative statement it stands for holds of those observations.
The drivers answer `fail` exactly when a law complains, so a verdict `ok`/`diff` means the
declarative statements below hold of the implementation's own observations.  Core-only.
-/
import Biogo.Spec.ContLaws

namespace Biogo.Containers.Laws
open Biogo.Containers Biogo.Alphabet

/-! ### the combinators -/

theorem check_none (c : Bool) (w : String) : check c w = none ↔ c = true := by
  unfold check; cases c <;> simp

theorem and_none (a : Why) (b : Unit → Why) : a.and b = none ↔ a = none ∧ b () = none := by
  unfold Why.and; cases a <;> simp

theorem allIdx_succ (n : Nat) (f : Nat → Why) :
    allIdx (n + 1) f = match allIdx n f with | some w => some w | none => f n := by
  unfold allIdx
  rw [List.range_succ, List.foldl_append]
  rfl

theorem allIdx_none (n : Nat) (f : Nat → Why) : allIdx n f = none ↔ ∀ i, i < n → f i = none := by
  induction n with
  | zero => simp [allIdx]
  | succ n ih =>
    rw [allIdx_succ]
    constructor
    · intro h i hi
      cases hn : allIdx n f with
      | some w => rw [hn] at h; cases h
      | none =>
        rw [hn] at h
        by_cases e : i = n
        · subst e; exact h
        · exact ih.mp hn i (by omega)
    · intro h
      have hn : allIdx n f = none := ih.mpr fun i hi => h i (by omega)
      rw [hn]
      exact h n (Nat.lt_succ_self n)

/-- `(zip l₁ l₂).all p` speaks about the entries with the same index -/
theorem zip_all {α β : Type} (l1 : List α) (l2 : List β) (p : α × β → Bool) :
    (List.zip l1 l2).all p = true ↔ ∀ (i : Nat) (x : α) (y : β), l1[i]? = some x → l2[i]? = some y → p (x, y) = true := by
  rw [List.all_eq_true]
  constructor
  · intro h i x y hx hy
    apply h
    rw [List.mem_iff_getElem?]
    exact ⟨i, by rw [List.getElem?_zip_eq_some]; exact ⟨hx, hy⟩⟩
  · intro h xy hm
    obtain ⟨i, hi⟩ := List.mem_iff_getElem?.mp hm
    obtain ⟨x, y⟩ := xy
    rw [List.getElem?_zip_eq_some] at hi
    exact h i x y hi.1 hi.2

/-! ### frame: the independence of copies -/

/-- every object except `k` is observed after exactly as before -/
def FrameSpec (before after : List ObjV) (k : Option Nat) : Prop :=
  ∀ j, j < before.length → k ≠ some j → after[j]? = before[j]?

theorem lawFrame_sound (before after : List ObjV) (k : Option Nat) (h : lawFrame before after k = none) :
    FrameSpec before after k := by
  intro j hj hk
  have := (allIdx_none _ _).mp h j hj
  have hne : (some j == k) = false := by
    cases k with
    | none => rfl
    | some k' =>
      have : j ≠ k' := fun e => hk (by rw [e])
      simp [this]
  simp only [hne, Bool.false_eq_true, if_false, check_none, beq_iff_eq] at this
  exact this

/-! ### C05 -/

/-- `RevComp()` of a whole object, on observations: every row reads as the reverse complement
    (qualities travelling), names kept; strand(s) negated; a column-stored alignment keeps its
    coordinates, the rows of a multi are mirrored about its span (which is kept), the rows of
    the other kinds keep their coordinates -/
def RevCompSpec (comp : UInt8 → UInt8) (b a : ObjV) : Prop :=
  a.kind = b.kind ∧ a.nrows = b.nrows ∧ a.rows.length = b.rows.length ∧
  (∀ (i : Nat) (rb ra : RowV), b.rows[i]? = some rb → a.rows[i]? = some ra →
    ra.cells = revCompCells comp rb.cells ∧ ra.name = rb.name) ∧
  (if b.kind = "aln" ∨ b.kind = "qaln" then
     a.strand = -b.strand ∧ a.start = b.start ∧ a.«end» = b.«end»
   else if b.kind = "multi" then
     (∀ (i : Nat) (rb ra : RowV), b.rows[i]? = some rb → a.rows[i]? = some ra →
        ra.strand = -rb.strand ∧ ra.start = b.start + b.«end» - rb.«end» ∧ ra.«end» = b.start + b.«end» - rb.start) ∧
     a.start = b.start ∧ a.«end» = b.«end»
   else
     ∀ (i : Nat) (rb ra : RowV), b.rows[i]? = some rb → a.rows[i]? = some ra →
        ra.strand = -rb.strand ∧ ra.start = rb.start ∧ ra.«end» = rb.«end»)

theorem lawRevComp_sound (comp : UInt8 → UInt8) (b a : ObjV) (h : lawRevComp comp b a = none) :
    RevCompSpec comp b a := by
  simp only [lawRevComp, and_none, check_none, Bool.and_eq_true, beq_iff_eq, zip_all] at h
  obtain ⟨⟨⟨h1, h2⟩, h3⟩, h4, h5⟩ := h
  refine ⟨h1, h2, h3, fun i rb ra hb ha => h4 i rb ra hb ha, ?_⟩
  split at h5
  · rename_i e
    simp only [and_none, check_none, Bool.and_eq_true, beq_iff_eq] at h5
    rw [if_pos (Or.inl e)]
    exact ⟨h5.1, h5.2.1, h5.2.2⟩
  · rename_i e
    simp only [and_none, check_none, Bool.and_eq_true, beq_iff_eq] at h5
    rw [if_pos (Or.inr e)]
    exact ⟨h5.1, h5.2.1, h5.2.2⟩
  · rename_i e
    simp only [and_none, check_none, Bool.and_eq_true, beq_iff_eq, zip_all] at h5
    have hn : ¬ (b.kind = "aln" ∨ b.kind = "qaln") := by rw [e]; decide
    rw [if_neg hn, if_pos e]
    obtain ⟨h6, h7, h8⟩ := h5
    exact ⟨fun i rb ra hb ha => ⟨h6 i rb ra hb ha, (h7 i rb ra hb ha).1, (h7 i rb ra hb ha).2⟩, h8.1, h8.2⟩
  · rename_i e1 e2 e3
    simp only [and_none, check_none, Bool.and_eq_true, beq_iff_eq, zip_all] at h5
    have hn : ¬ (b.kind = "aln" ∨ b.kind = "qaln") := fun e => e.elim (e1 ·) (e2 ·)
    rw [if_neg hn, if_neg e3]
    obtain ⟨h6, h7⟩ := h5
    exact fun i rb ra hb ha => ⟨h6 i rb ra hb ha, (h7 i rb ra hb ha).1, (h7 i rb ra hb ha).2⟩

/-- the rows of two observations agree in letters, qualities, coordinates and strand -/
def SameLettersCoords (x y : ObjV) : Prop :=
  x.rows.length = y.rows.length ∧
  ∀ (i : Nat) (rx ry : RowV), x.rows[i]? = some rx → y.rows[i]? = some ry →
    rx.cells = ry.cells ∧ rx.start = ry.start ∧ rx.«end» = ry.«end» ∧ rx.strand = ry.strand

theorem sameLettersCoords_sound (x y : ObjV) (h : sameLettersCoords x y = true) : SameLettersCoords x y := by
  simp only [sameLettersCoords, Bool.and_eq_true, beq_iff_eq, zip_all] at h
  exact ⟨h.1, fun i rx ry hx hy => by
    obtain ⟨⟨⟨a, b⟩, c⟩, d⟩ := h.2 i rx ry hx hy; exact ⟨a, b, c, d⟩⟩

def SameLetters (x y : ObjV) : Prop :=
  x.rows.length = y.rows.length ∧
  ∀ (i : Nat) (rx ry : RowV), x.rows[i]? = some rx → y.rows[i]? = some ry → rx.cells = ry.cells

theorem sameLetters_sound (x y : ObjV) (h : sameLetters x y = true) : SameLetters x y := by
  simp only [sameLetters, Bool.and_eq_true, beq_iff_eq, zip_all] at h
  exact ⟨h.1, fun i rx ry hx hy => h.2 i rx ry hx hy⟩

/-- `Row(r).RevComp()`: row `r` reverse-complemented with its strand negated and its name and
    coordinates kept; every other row observed exactly as before -/
def RowRevCompSpec (comp : UInt8 → UInt8) (b a : ObjV) (r : Nat) : Prop :=
  a.rows.length = b.rows.length ∧
  ∀ (i : Nat) (rb : RowV), b.rows[i]? = some rb → ∃ ra, a.rows[i]? = some ra ∧
    (if i = r then
       ra.cells = revCompCells comp rb.cells ∧ ra.strand = -rb.strand ∧ ra.name = rb.name ∧
       ra.start = rb.start ∧ ra.«end» = rb.«end»
     else ra = rb)

theorem lawRowRevComp_sound (comp : UInt8 → UInt8) (b a : ObjV) (r : Nat) (h : lawRowRevComp comp b a r = none) :
    RowRevCompSpec comp b a r := by
  simp only [lawRowRevComp, and_none, check_none, beq_iff_eq, allIdx_none] at h
  obtain ⟨h1, h2⟩ := h
  refine ⟨h1, ?_⟩
  intro i rb hb
  have hi : i < b.rows.length := (List.getElem?_eq_some_iff.mp hb).1
  have := h2 i hi
  rw [hb] at this
  cases ha : a.rows[i]? with
  | none => rw [ha] at this; simp at this
  | some ra =>
    rw [ha] at this
    refine ⟨ra, rfl, ?_⟩
    dsimp only at this
    by_cases e : i = r
    · rw [if_pos e] at this
      simp only [check_none, rowRevComped, Bool.and_eq_true, beq_iff_eq] at this
      rw [if_pos e]
      obtain ⟨⟨⟨⟨c1, c2⟩, c3⟩, c4⟩, c5⟩ := this
      exact ⟨c1, c2, c3, c4, c5⟩
    · rw [if_neg e] at this
      simp only [check_none, beq_iff_eq] at this
      rw [if_neg e]; exact this

/-- `Set(pos, c)` through row `r`: exactly that cell shows `c` (with the default quality for a
    row without qualities); nothing else of the object changes -/
def SetSpec (b a : ObjV) (r : Nat) (pos : Int) (c : QL) : Prop :=
  a.rows.length = b.rows.length ∧
  ∀ (i : Nat) (rb : RowV), b.rows[i]? = some rb → ∃ ra, a.rows[i]? = some ra ∧
    (if i = r then
       let idx := (pos - setBase b rb).toNat
       ra.cells[idx]? = some (if rb.q then c else ⟨c.L, defaultQ⟩) ∧ ra.cells.length = rb.cells.length ∧
       (∀ j, j < rb.cells.length → j ≠ idx → ra.cells[j]? = rb.cells[j]?) ∧
       ra.start = rb.start ∧ ra.«end» = rb.«end» ∧ ra.strand = rb.strand ∧ ra.name = rb.name ∧ ra.q = rb.q
     else ra = rb)

theorem lawSet_sound (b a : ObjV) (r : Nat) (pos : Int) (c : QL) (h : lawSet b a r pos c = none) :
    SetSpec b a r pos c := by
  simp only [lawSet, and_none, check_none, beq_iff_eq, allIdx_none] at h
  obtain ⟨h1, h2⟩ := h
  refine ⟨h1, ?_⟩
  intro i rb hb
  have hi : i < b.rows.length := (List.getElem?_eq_some_iff.mp hb).1
  have := h2 i hi
  rw [hb] at this
  cases ha : a.rows[i]? with
  | none => rw [ha] at this; simp at this
  | some ra =>
    rw [ha] at this
    refine ⟨ra, rfl, ?_⟩
    dsimp only at this
    by_cases e : i = r
    · rw [if_pos e]
      rw [if_pos e] at this
      simp only [check_none, Bool.and_eq_true, beq_iff_eq, List.all_eq_true,
        List.mem_range, Bool.or_eq_true] at this
      obtain ⟨⟨⟨⟨⟨⟨⟨c1, c2⟩, c3⟩, c4⟩, c5⟩, c6⟩, c7⟩, c8⟩ := this
      refine ⟨c1, c2, ?_, c4, c5, c6, c7, c8⟩
      intro j hj hne
      rcases c3 j hj with e1 | e1
      · exact (hne e1).elim
      · exact e1
    · rw [if_neg e] at this
      simp only [check_none, beq_iff_eq] at this
      rw [if_neg e]; exact this

theorem setBase_eq (b : ObjV) (rb : RowV) :
    setBase b rb = if b.kind = "aln" ∨ b.kind = "qaln" then b.start else rb.start := by
  unfold setBase
  split
  · rename_i e1; rw [if_pos (Or.inl e1)]
  · rename_i e1; rw [if_pos (Or.inr e1)]
  · rename_i e1 e2; rw [if_neg (fun e => e.elim (e1 ·) (e2 ·))]

/-! ### C07 -/

/-- what the column view must show for a cell of the row view: the letter, or for a quality
    alignment (`Column` applies the documented filter) the ambiguity letter below the threshold;
    the gap letter for a row that does not cover the position -/
def columnLetter (gap amb : UInt8) (o : ObjV) (c : Option QL) : UInt8 :=
  match c with
  | some c => if o.kind == "qaln" && c.Q < alnThreshold then amb else c.L
  | none => gap

/-- **row_eq_column**, on one observation: `Rows()` and `Len()` agree with the rows and the
    span; at every position `Start+p` of the span the column views have one entry per row, entry
    `i` of `ColumnQL` is what row `i` shows there (`At`) or `{gap, 0}` when the row does not
    cover the position, entry `i` of `Column` is its letter (under the quality filter); for a
    multi, `Column(pos, false)` lists the letters of the covering rows in row order -/
def RowEqColumnSpec (gap amb : UInt8) (o : ObjV) : Prop :=
  isAligned o = true →
  o.nrows = o.rows.length ∧ o.len = o.«end» - o.start ∧
  ∀ p, p < (o.«end» - o.start).toNat →
    ∃ cq c, o.colsQL[p]? = some cq ∧ o.cols[p]? = some c ∧
      cq.length = o.rows.length ∧ c.length = o.rows.length ∧
      (∀ (i : Nat) (r : RowV), o.rows[i]? = some r →
        cq[i]? = some ((rowCell o r (o.start + (p : Int))).getD ⟨gap, 0⟩) ∧
        c[i]? = some (columnLetter gap amb o (rowCell o r (o.start + (p : Int))))) ∧
      (o.kind = "multi" →
        o.colsNF[p]? = some ((o.rows.map fun r => rowCell o r (o.start + (p : Int))).filterMap fun c => c.map (·.L)))

theorem lawRowEqColumn_sound (gap amb : UInt8) (o : ObjV) (h : lawRowEqColumn gap amb o = none) :
    RowEqColumnSpec gap amb o := by
  intro hal
  simp only [lawRowEqColumn, hal, Bool.not_true, Bool.false_eq_true, if_false, and_none, check_none,
    Bool.and_eq_true, beq_iff_eq, allIdx_none, Bool.or_eq_true, bne_iff_ne, ne_eq] at h
  obtain ⟨⟨h1, h2⟩, ⟨⟨_, _⟩, _⟩, h4⟩ := h
  refine ⟨h1, h2, ?_⟩
  intro p hp
  obtain ⟨hq, hc, hnf⟩ := h4 p hp
  refine ⟨_, _, hq, hc, by simp, by simp, ?_, ?_⟩
  · intro i r hr
    constructor
    · simp only [List.getElem?_map, hr, Option.map_some]
    · simp only [List.getElem?_map, hr, Option.map_some, columnLetter]
      cases rowCell o r (o.start + (p : Int)) with
      | none => rfl
      | some x => simp only [Bool.and_eq_true, beq_iff_eq]
  · intro hk
    simp only [hk, beq_self_eq_true, if_true, check_none, beq_iff_eq] at hnf
    exact hnf

/-- **unanimous_consensus**, on one observation: at a position where every row shows a valid
    letter equal, up to case, to the letter `c0` of the first row (and, for a quality alignment,
    of quality at least the threshold), the consensus letter is `c0` up to case -/
def ConsensusSpec (valid : UInt8 → Bool) (o : ObjV) : Prop :=
  isAligned o = true →
  ∀ p, p < (o.«end» - o.start).toNat → ∀ (r0 : RowV) (rest : List RowV) (c0 : QL), o.rows = r0 :: rest →
    rowCell o r0 (o.start + (p : Int)) = some c0 →
    (∀ r ∈ o.rows, ∃ c, rowCell o r (o.start + (p : Int)) = some c ∧ toLower c.L = toLower c0.L ∧
      valid c.L = true ∧ (o.kind = "qaln" → c.Q ≥ alnThreshold)) →
    (o.cons[p]?).map toLower = some (toLower c0.L)

theorem lawConsensus_sound (valid : UInt8 → Bool) (o : ObjV) (h : lawConsensus valid o = none) :
    ConsensusSpec valid o := by
  intro hal p hp r0 rest c0 hrows hc0 hall
  have hne : o.rows.isEmpty = false := by rw [hrows]; rfl
  simp only [lawConsensus, hal, hne, Bool.not_true, Bool.or_false, Bool.false_eq_true, if_false, allIdx_none] at h
  have := h p hp
  simp only [hrows, List.map_cons, hc0] at this
  split at this
  · simp only [check_none, beq_iff_eq] at this
    exact this
  · rename_i hneg
    exfalso
    apply hneg
    rw [List.all_eq_true]
    intro x hx
    have hx' : x ∈ o.rows.map fun r => rowCell o r (o.start + (p : Int)) := by
      rw [hrows, List.map_cons, hc0]; exact hx
    obtain ⟨r, hr, rfl⟩ := List.mem_map.mp hx'
    obtain ⟨c, e1, e2, e3, e4⟩ := hall r hr
    rw [e1]
    simp only [Bool.and_eq_true, beq_iff_eq, Bool.or_eq_true, bne_iff_ne, ne_eq, decide_eq_true_eq]
    refine ⟨⟨e2, e3⟩, ?_⟩
    by_cases hk : o.kind = "qaln"
    · exact Or.inr (e4 hk)
    · exact Or.inl hk

def SameMeta (b a : RowV) : Prop := a.name = b.name ∧ a.strand = b.strand ∧ a.q = b.q

theorem sameMeta_sound (b a : RowV) (h : sameMeta b a = true) : SameMeta b a := by
  simp only [sameMeta, Bool.and_eq_true, beq_iff_eq] at h
  exact ⟨h.1.1, h.1.2, h.2⟩

/-- **append_exact (AppendColumns)**: no row is added or removed; row `i` reads as before followed
    by `cols[0][i], cols[1][i], …` (with the default quality for a row without qualities), starts
    where it started, ends `len(cols)` later, keeps name, strand and kind -/
def AppendColsSpec (b a : ObjV) (cols : List (List QL)) : Prop :=
  a.rows.length = b.rows.length ∧ a.nrows = b.nrows ∧
  ∀ (i : Nat) (rb : RowV), b.rows[i]? = some rb → ∃ ra, a.rows[i]? = some ra ∧
    ra.cells = rb.cells ++ cols.map (fun c => shownAs rb.q (c.getD i zeroQL)) ∧
    ra.start = rb.start ∧ ra.«end» = rb.«end» + cols.length ∧ SameMeta rb ra

theorem lawAppendCols_sound (b a : ObjV) (cols : List (List QL)) (h : lawAppendCols b a cols = none) :
    AppendColsSpec b a cols := by
  simp only [lawAppendCols, and_none, check_none, Bool.and_eq_true, beq_iff_eq, allIdx_none] at h
  obtain ⟨⟨h1, h2⟩, h3⟩ := h
  refine ⟨h1, h2, ?_⟩
  intro i rb hb
  have hi : i < b.rows.length := (List.getElem?_eq_some_iff.mp hb).1
  have := h3 i hi
  rw [hb] at this
  cases ha : a.rows[i]? with
  | none => rw [ha] at this; simp at this
  | some ra =>
    rw [ha] at this
    dsimp only at this
    simp only [check_none, Bool.and_eq_true, beq_iff_eq] at this
    obtain ⟨⟨⟨c1, c2⟩, c3⟩, c4⟩ := this
    exact ⟨ra, rfl, c1, c2, c3, sameMeta_sound rb ra c4⟩

/-- **append_exact (AppendEach)**: row `i` reads as before, then exactly run `i` (letters and
    qualities), then — column-stored alignments only — gap letters up to the longest run; same
    start, end moved by the number of cells gained -/
def AppendEachSpec (gap : UInt8) (b a : ObjV) (runs : List (List QL)) : Prop :=
  a.rows.length = b.rows.length ∧ a.nrows = b.nrows ∧
  ∀ (i : Nat) (rb : RowV), b.rows[i]? = some rb → ∃ ra, a.rows[i]? = some ra ∧
    let run := runs.getD i []
    let npad := if b.kind = "multi" then 0 else (runs.foldl (fun m r => Nat.max m r.length) 0) - run.length
    ra.cells.take rb.cells.length = rb.cells ∧
    ((ra.cells.drop rb.cells.length).take run.length) = run.map (shownAs rb.q) ∧
    ((ra.cells.drop rb.cells.length).drop run.length).map (·.L) = List.replicate npad gap ∧
    ra.start = rb.start ∧ ra.«end» = rb.«end» + ((run.length + npad : Nat) : Int) ∧ SameMeta rb ra

theorem lawAppendEach_sound (gap : UInt8) (b a : ObjV) (runs : List (List QL))
    (h : lawAppendEach gap b a runs = none) : AppendEachSpec gap b a runs := by
  simp only [lawAppendEach, and_none, check_none, Bool.and_eq_true, beq_iff_eq, allIdx_none] at h
  obtain ⟨⟨h1, h2⟩, h3⟩ := h
  refine ⟨h1, h2, ?_⟩
  intro i rb hb
  have hi : i < b.rows.length := (List.getElem?_eq_some_iff.mp hb).1
  have := h3 i hi
  rw [hb] at this
  cases ha : a.rows[i]? with
  | none => rw [ha] at this; simp at this
  | some ra =>
    rw [ha] at this
    dsimp only at this
    simp only [check_none, Bool.and_eq_true, beq_iff_eq] at this
    obtain ⟨⟨⟨⟨⟨c1, c2⟩, c3⟩, c4⟩, c5⟩, c6⟩ := this
    exact ⟨ra, rfl, c1, c2, c3, c4, c5, sameMeta_sound rb ra c6⟩

/-- **delete_exact**: the rows observed after are the rows before without row `i` -/
def DeleteSpec (b a : ObjV) (i : Nat) : Prop := a.rows = b.rows.eraseIdx i ∧ a.nrows + 1 = b.nrows

theorem lawDelete_sound (b a : ObjV) (i : Nat) (h : lawDelete b a i = none) : DeleteSpec b a i := by
  simp only [lawDelete, check_none, Bool.and_eq_true, beq_iff_eq] at h
  exact h

/-- **flush_preserves**: every row starts at the span's start / ends at the span's end according
    to the bits of `where`, shows the fill letter on the positions gained and its old letters and
    qualities in between -/
def FlushSpec (b a : ObjV) (wh : Nat) (fill : UInt8) : Prop :=
  a.rows.length = b.rows.length ∧
  ∀ (i : Nat) (rb : RowV), b.rows[i]? = some rb → ∃ ra, a.rows[i]? = some ra ∧
    let st := if wh % 2 = 1 then b.start else rb.start
    let en := if (wh / 2) % 2 = 1 then b.«end» else rb.«end»
    let nl := (rb.start - st).toNat
    let nr := (en - rb.«end»).toNat
    ra.start = st ∧ ra.«end» = en ∧ SameMeta rb ra ∧
    (ra.cells.take nl).map (·.L) = List.replicate nl fill ∧
    (ra.cells.drop nl).take rb.cells.length = rb.cells ∧
    ((ra.cells.drop nl).drop rb.cells.length).map (·.L) = List.replicate nr fill

theorem lawFlush_sound (b a : ObjV) (wh : Nat) (fill : UInt8) (h : lawFlush b a wh fill = none) :
    FlushSpec b a wh fill := by
  simp only [lawFlush, and_none, check_none, Bool.and_eq_true, beq_iff_eq, allIdx_none] at h
  obtain ⟨h1, h3⟩ := h
  refine ⟨h1, ?_⟩
  intro i rb hb
  have hi : i < b.rows.length := (List.getElem?_eq_some_iff.mp hb).1
  have := h3 i hi
  rw [hb] at this
  cases ha : a.rows[i]? with
  | none => rw [ha] at this; simp at this
  | some ra =>
    rw [ha] at this
    dsimp only at this
    simp only [check_none, Bool.and_eq_true, beq_iff_eq] at this
    obtain ⟨⟨⟨⟨⟨c1, c2⟩, c3⟩, c4⟩, c5⟩, c6⟩ := this
    exact ⟨ra, rfl, c1, c2, sameMeta_sound rb ra c3, c4, c5, c6⟩

/-- **subseq_truncate_exact**: every row spans exactly `[st,en)` and shows exactly the cells it
    showed at those positions -/
def RangeSpec (b a : ObjV) (st en : Int) : Prop :=
  a.rows.length = b.rows.length ∧
  ∀ (i : Nat) (rb : RowV), b.rows[i]? = some rb → ∃ ra, a.rows[i]? = some ra ∧
    ra.start = st ∧ ra.«end» = en ∧ SameMeta rb ra ∧
    ra.cells = (rb.cells.drop (st - rb.start).toNat).take (en - st).toNat

theorem lawRange_sound (b a : ObjV) (st en : Int) (h : lawRange b a st en = none) : RangeSpec b a st en := by
  simp only [lawRange, and_none, check_none, Bool.and_eq_true, beq_iff_eq, allIdx_none] at h
  obtain ⟨h1, h3⟩ := h
  refine ⟨h1, ?_⟩
  intro i rb hb
  have hi : i < b.rows.length := (List.getElem?_eq_some_iff.mp hb).1
  have := h3 i hi
  rw [hb] at this
  cases ha : a.rows[i]? with
  | none => rw [ha] at this; simp at this
  | some ra =>
    rw [ha] at this
    dsimp only at this
    simp only [check_none, Bool.and_eq_true, beq_iff_eq] at this
    obtain ⟨⟨⟨c1, c2⟩, c3⟩, c4⟩ := this
    exact ⟨ra, rfl, c1, c2, sameMeta_sound rb ra c3, c4⟩

/-- the range `[st,en)` is covered by every row -/
theorem allCover_sound (o : ObjV) (st en : Int) (h : allCover o st en = true) :
    st ≤ en ∧ ∀ r ∈ o.rows, r.start ≤ st ∧ en ≤ r.«end» := by
  simp only [allCover, Bool.and_eq_true, decide_eq_true_eq, List.all_eq_true] at h
  exact h

end Biogo.Containers.Laws
