/-
Lemmas for the column-stored alignments (alignment.Seq / alignment.QSeq): RevComp as a
two-pointer loop over columns with an inner loop over rows equals reversal of the column list
with every letter complemented.  Core-only.
-/
import Biogo.Model.ContWorld
import Biogo.Proofs.Containers

namespace Biogo.Containers
open Biogo.Go

/-- a column slice lies in an allocated array, long enough, and has `n` rows -/
def ColValid (h : Cells) (n : Nat) (c : Slice) : Prop :=
  c.arr < h.arrays.length ∧ c.off + c.len ≤ (h.arr c.arr).length ∧ c.len = n

theorem ColValid.length_read {h : Cells} {n : Nat} {c : Slice} (hv : ColValid h n c) :
    (h.read c).length = n := by
  simp only [Heap.read, List.length_take, List.length_drop]
  have := hv.2.1; have := hv.2.2
  omega

theorem take_drop_set {α : Type} : ∀ (k : Nat) (A B : List α) (a : α), A[k]? = some a → k < B.length →
    (A.take k ++ B.drop k).set k a = A.take (k + 1) ++ B.drop (k + 1) := by
  intro k
  induction k with
  | zero =>
    intro A B a hA hB
    cases A with
    | nil => simp at hA
    | cons a0 A' =>
      cases B with
      | nil => simp at hB
      | cons b0 B' => simp at hA; subst hA; simp
  | succ k ih =>
    intro A B a hA hB
    cases A with
    | nil => simp at hA
    | cons a0 A' =>
      cases B with
      | nil => simp at hB
      | cons b0 B' =>
        simp only [List.getElem?_cons_succ] at hA
        simp only [List.length_cons, Nat.add_lt_add_iff_right] at hB
        simp only [List.take_succ_cons, List.drop_succ_cons, List.cons_append, List.set_cons_succ]
        rw [ih A' B' a hA hB]

/-- the body of `for r := range ci { ci[r], cj[r] = f(cj[r]), f(ci[r]) }` -/
def swapStep (f : QL → QL) (ci cj : Slice) (h : Cells) (r : Nat) : Cells :=
  match h.get? ci r, h.get? cj r with
  | some x, some y => (h.set ci r (f y)).set cj r (f x)
  | _, _ => h

theorem swapCols_eq (f : QL → QL) (h : Cells) (ci cj : Slice) :
    Aln.swapCols f h ci cj = (List.range ci.len).foldl (swapStep f ci cj) h := rfl

/-- invariant of the inner loop after `k` rows -/
theorem swapCols_prefix (f : QL → QL) (h : Cells) (n : Nat) (ci cj : Slice)
    (hi : ColValid h n ci) (hj : ColValid h n cj) (hne : ci.arr ≠ cj.arr) :
    ∀ k, k ≤ n →
      ((List.range k).foldl (swapStep f ci cj) h).read ci
          = ((h.read cj).map f).take k ++ (h.read ci).drop k ∧
      ((List.range k).foldl (swapStep f ci cj) h).read cj
          = ((h.read ci).map f).take k ++ (h.read cj).drop k ∧
      (∀ b, b ≠ ci.arr → b ≠ cj.arr → ((List.range k).foldl (swapStep f ci cj) h).arr b = h.arr b) ∧
      ((List.range k).foldl (swapStep f ci cj) h).arrays.length = h.arrays.length ∧
      (∀ b, (((List.range k).foldl (swapStep f ci cj) h).arr b).length = (h.arr b).length) := by
  intro k
  induction k with
  | zero => intro _; simp
  | succ k ih =>
    intro hk
    obtain ⟨r1, r2, r3, r4, r5⟩ := ih (by omega)
    rw [List.range_succ, List.foldl_append]
    simp only [List.foldl_cons, List.foldl_nil]
    have hli := hi.length_read
    have hlj := hj.length_read
    -- the cells read at row k are still the original ones
    have gx : ((List.range k).foldl (swapStep f ci cj) h).get? ci k = (h.read ci)[k]? := by
      rw [Heap.get?_eq_read, r1, List.getElem?_append_right (by simp; omega)]
      simp only [List.length_take, List.length_map, hlj]
      rw [List.getElem?_drop]
      congr 1; omega
    have gy : ((List.range k).foldl (swapStep f ci cj) h).get? cj k = (h.read cj)[k]? := by
      rw [Heap.get?_eq_read, r2, List.getElem?_append_right (by simp; omega)]
      simp only [List.length_take, List.length_map, hli]
      rw [List.getElem?_drop]
      congr 1; omega
    have hxk : k < (h.read ci).length := by omega
    have hyk : k < (h.read cj).length := by omega
    simp only [swapStep, gx, gy, List.getElem?_eq_getElem hxk, List.getElem?_eq_getElem hyk]
    have sz1 : ci.arr < ((List.range k).foldl (swapStep f ci cj) h).arrays.length := by rw [r4]; exact hi.1
    have sz2 : cj.arr < (((List.range k).foldl (swapStep f ci cj) h).set ci k (f (h.read cj)[k])).arrays.length := by
      rw [Heap.length_set, r4]; exact hj.1
    refine ⟨?_, ?_, ?_, ?_, ?_⟩
    · rw [Heap.read_set_other _ _ _ _ _ hne.symm, Heap.read_set_same _ _ _ _ sz1, r1]
      apply take_drop_set
      · rw [List.getElem?_map, List.getElem?_eq_getElem hyk]; rfl
      · exact hxk
    · rw [Heap.read_set_same _ _ _ _ sz2, Heap.read_set_other _ _ _ _ _ hne, r2]
      apply take_drop_set
      · rw [List.getElem?_map, List.getElem?_eq_getElem hxk]; rfl
      · exact hyk
    · intro b hb1 hb2
      rw [Heap.arr_set_other _ _ _ _ _ (Ne.symm hb2), Heap.arr_set_other _ _ _ _ _ (Ne.symm hb1), r3 b hb1 hb2]
    · rw [Heap.length_set, Heap.length_set, r4]
    · intro b
      rw [Heap.length_arr_set, Heap.length_arr_set, r5]

/-- the inner loop swaps the two columns, complementing every letter -/
theorem swapCols_spec (f : QL → QL) (h : Cells) (n : Nat) (ci cj : Slice)
    (hi : ColValid h n ci) (hj : ColValid h n cj) (hne : ci.arr ≠ cj.arr) :
    (Aln.swapCols f h ci cj).read ci = (h.read cj).map f ∧
    (Aln.swapCols f h ci cj).read cj = (h.read ci).map f ∧
    (∀ b, b ≠ ci.arr → b ≠ cj.arr → (Aln.swapCols f h ci cj).arr b = h.arr b) ∧
    (Aln.swapCols f h ci cj).arrays.length = h.arrays.length ∧
    (∀ b, ((Aln.swapCols f h ci cj).arr b).length = (h.arr b).length) := by
  rw [swapCols_eq, hi.2.2]
  obtain ⟨r1, r2, r3, r4, r5⟩ := swapCols_prefix f h n ci cj hi hj hne n (Nat.le_refl _)
  refine ⟨?_, ?_, r3, r4, r5⟩
  · rw [r1]
    have : ((h.read cj).map f).length = n := by rw [List.length_map]; exact hj.length_read
    rw [List.take_of_length_le (by omega), List.drop_of_length_le (by rw [hi.length_read]; omega)]
    simp
  · rw [r2]
    have : ((h.read ci).map f).length = n := by rw [List.length_map]; exact hi.length_read
    rw [List.take_of_length_le (by omega), List.drop_of_length_le (by rw [hj.length_read]; omega)]
    simp

theorem mapCol_prefix (f : QL → QL) (h : Cells) (n : Nat) (c : Slice) (hv : ColValid h n c) :
    ∀ k, k ≤ n →
      ((List.range k).foldl (fun h r => hModAt f h c r) h).read c
          = ((h.read c).map f).take k ++ (h.read c).drop k ∧
      (∀ b, b ≠ c.arr → ((List.range k).foldl (fun h r => hModAt f h c r) h).arr b = h.arr b) ∧
      ((List.range k).foldl (fun h r => hModAt f h c r) h).arrays.length = h.arrays.length ∧
      (∀ b, (((List.range k).foldl (fun h r => hModAt f h c r) h).arr b).length = (h.arr b).length) := by
  intro k
  induction k with
  | zero => intro _; simp
  | succ k ih =>
    intro hk
    obtain ⟨r1, r3, r4, r5⟩ := ih (by omega)
    rw [List.range_succ, List.foldl_append]
    simp only [List.foldl_cons, List.foldl_nil]
    have hl := hv.length_read
    have hxk : k < (h.read c).length := by omega
    have sz1 : c.arr < ((List.range k).foldl (fun h r => hModAt f h c r) h).arrays.length := by rw [r4]; exact hv.1
    refine ⟨?_, ?_, ?_, ?_⟩
    · rw [read_hModAt f _ c k sz1, r1]
      have hget : (((h.read c).map f).take k ++ (h.read c).drop k)[k]? = some (h.read c)[k] := by
        rw [List.getElem?_append_right (by simp; omega)]
        simp only [List.length_take, List.length_map]
        rw [List.getElem?_drop]
        have : k + (k - min k (h.read c).length) = k := by omega
        rw [this, List.getElem?_eq_getElem hxk]
      simp only [modAt, hget]
      apply take_drop_set
      · rw [List.getElem?_map, List.getElem?_eq_getElem hxk]; rfl
      · exact hxk
    · intro b hb
      rw [arr_hModAt f _ c k b (Ne.symm hb), r3 b hb]
    · rw [length_hModAt, r4]
    · intro b
      rw [arrlen_hModAt, r5]

/-- the middle column: every letter complemented in place -/
theorem mapCol_spec (f : QL → QL) (h : Cells) (n : Nat) (c : Slice) (hv : ColValid h n c) :
    (Aln.mapCol f h c).read c = (h.read c).map f ∧
    (∀ b, b ≠ c.arr → (Aln.mapCol f h c).arr b = h.arr b) ∧
    (Aln.mapCol f h c).arrays.length = h.arrays.length ∧
    (∀ b, ((Aln.mapCol f h c).arr b).length = (h.arr b).length) := by
  have heq : Aln.mapCol f h c = (List.range c.len).foldl (fun h r => hModAt f h c r) h := rfl
  rw [heq, hv.2.2]
  obtain ⟨r1, r3, r4, r5⟩ := mapCol_prefix f h n c hv n (Nat.le_refl _)
  refine ⟨?_, r3, r4, r5⟩
  rw [r1]
  have : ((h.read c).map f).length = n := by rw [List.length_map]; exact hv.length_read
  rw [List.take_of_length_le (by omega), List.drop_of_length_le (by rw [hv.length_read]; omega)]
  simp

/-! ### the loop over columns -/

/-- the columns of an alignment: allocated, `n` rows each, pairwise different arrays -/
def ColsWF (h : Cells) (n : Nat) (cols : List Slice) : Prop :=
  (∀ c ∈ cols, ColValid h n c) ∧ cols.Pairwise (fun x y => x.arr ≠ y.arr)

theorem ColValid.congr {h h' : Cells} {n : Nat} {c : Slice} (hv : ColValid h n c)
    (hl : h'.arrays.length = h.arrays.length) (ha : ∀ b, (h'.arr b).length = (h.arr b).length) :
    ColValid h' n c := ⟨by rw [hl]; exact hv.1, by rw [ha]; exact hv.2.1, hv.2.2⟩

theorem ColsWF.congr {h h' : Cells} {n : Nat} {cols : List Slice} (hw : ColsWF h n cols)
    (hl : h'.arrays.length = h.arrays.length) (ha : ∀ b, (h'.arr b).length = (h.arr b).length) :
    ColsWF h' n cols := ⟨fun c hc => (hw.1 c hc).congr hl ha, hw.2⟩

theorem cols_ne_of_pairwise {cols : List Slice} (hp : cols.Pairwise (fun x y => x.arr ≠ y.arr))
    {i j : Nat} {a b : Slice} (hij : i ≠ j) (hi : cols[i]? = some a) (hj : cols[j]? = some b) :
    a.arr ≠ b.arr := by
  obtain ⟨hil, rfl⟩ := List.getElem?_eq_some_iff.mp hi
  obtain ⟨hjl, rfl⟩ := List.getElem?_eq_some_iff.mp hj
  rcases Nat.lt_or_gt_of_ne hij with h | h
  · exact List.pairwise_iff_getElem.mp hp i j hil hjl h
  · exact (List.pairwise_iff_getElem.mp hp j i hjl hil h).symm

/-- one outer iteration, seen on the matrix of columns -/
theorem matrix_swapCols (f : QL → QL) (h : Cells) (n : Nat) (cols : List Slice) (hw : ColsWF h n cols)
    (i j : Nat) (ci cj : Slice) (hi : cols[i]? = some ci) (hj : cols[j]? = some cj) (hij : i ≠ j) :
    cols.map (Aln.swapCols f h ci cj).read = swapAt (List.map f) (cols.map h.read) i j := by
  have hvi := hw.1 ci (List.mem_of_getElem? hi)
  have hvj := hw.1 cj (List.mem_of_getElem? hj)
  have hne := cols_ne_of_pairwise hw.2 hij hi hj
  obtain ⟨r1, r2, r3, _, _⟩ := swapCols_spec f h n ci cj hvi hvj hne
  have mi : (cols.map h.read)[i]? = some (h.read ci) := by rw [List.getElem?_map, hi]; rfl
  have mj : (cols.map h.read)[j]? = some (h.read cj) := by rw [List.getElem?_map, hj]; rfl
  simp only [swapAt, mi, mj]
  apply List.ext_getElem?
  intro k
  rw [List.getElem?_map, List.getElem?_set, List.getElem?_set]
  have hil : i < cols.length := (List.getElem?_eq_some_iff.mp hi).1
  have hjl : j < cols.length := (List.getElem?_eq_some_iff.mp hj).1
  by_cases ekj : j = k
  · subst ekj
    simp only [if_true, List.length_set, List.length_map, hjl, hj, Option.map_some, r2]
  · simp only [ekj, if_false]
    by_cases eki : i = k
    · subst eki
      simp only [if_true, List.length_map, hil, hi, Option.map_some, r1]
    · simp only [eki, if_false, List.getElem?_map]
      cases hk : cols[k]? with
      | none => rfl
      | some ck =>
        simp only [Option.map_some]
        have n1 := cols_ne_of_pairwise hw.2 eki hi hk
        have n2 := cols_ne_of_pairwise hw.2 ekj hj hk
        rw [read_congr_arr _ _ _ (r3 ck.arr n1.symm n2.symm)]

theorem matrix_mapCol (f : QL → QL) (h : Cells) (n : Nat) (cols : List Slice) (hw : ColsWF h n cols)
    (i : Nat) (ci : Slice) (hi : cols[i]? = some ci) :
    cols.map (Aln.mapCol f h ci).read = modAt (List.map f) (cols.map h.read) i := by
  have hvi := hw.1 ci (List.mem_of_getElem? hi)
  obtain ⟨r1, r3, _, _⟩ := mapCol_spec f h n ci hvi
  have mi : (cols.map h.read)[i]? = some (h.read ci) := by rw [List.getElem?_map, hi]; rfl
  simp only [modAt, mi]
  apply List.ext_getElem?
  intro k
  rw [List.getElem?_map, List.getElem?_set]
  have hil : i < cols.length := (List.getElem?_eq_some_iff.mp hi).1
  by_cases eki : i = k
  · subst eki
    simp only [if_true, List.length_map, hil, hi, Option.map_some, r1]
  · simp only [eki, if_false, List.getElem?_map]
    cases hk : cols[k]? with
    | none => rfl
    | some ck =>
      simp only [Option.map_some]
      have n1 := cols_ne_of_pairwise hw.2 eki hi hk
      rw [read_congr_arr _ _ _ (r3 ck.arr n1.symm)]

/-- **the loop of `alignment.Seq.RevComp` refines the two-pointer loop on the list of columns**
    with `map f` as the element operation -/
theorem matrix_colLoop (f : QL → QL) (n : Nat) (cols : List Slice) :
    ∀ (fuel i j1 : Nat) (h : Cells), ColsWF h n cols → j1 ≤ cols.length →
      cols.map (Aln.colLoop f cols fuel i j1 h).read
        = twoPtr (List.map f) true fuel i j1 (cols.map h.read) := by
  intro fuel
  induction fuel with
  | zero => intro i j1 h _ _; rfl
  | succ fuel ih =>
    intro i j1 h hw hj1
    unfold Aln.colLoop twoPtr
    by_cases h1 : i + 1 < j1
    · simp only [h1, if_true]
      have hil : i < cols.length := by omega
      have hjl : j1 - 1 < cols.length := by omega
      rw [List.getElem?_eq_getElem hil, List.getElem?_eq_getElem hjl]
      simp only
      have hi := List.getElem?_eq_getElem hil
      have hj := List.getElem?_eq_getElem hjl
      have hvi := hw.1 _ (List.mem_of_getElem? hi)
      have hvj := hw.1 _ (List.mem_of_getElem? hj)
      have hne := cols_ne_of_pairwise hw.2 (show i ≠ j1 - 1 by omega) hi hj
      obtain ⟨_, _, _, r4, r5⟩ := swapCols_spec f h n _ _ hvi hvj hne
      rw [ih _ _ _ (hw.congr r4 r5) (by omega), matrix_swapCols f h n cols hw i (j1 - 1) _ _ hi hj (by omega)]
    · simp only [h1, if_false]
      by_cases h2 : (i + 1 == j1) = true
      · simp only [h2, if_true, Bool.true_and]
        have hil : i < cols.length := by have := beq_iff_eq.mp h2; omega
        rw [List.getElem?_eq_getElem hil]
        simp only
        exact matrix_mapCol f h n cols hw i _ (List.getElem?_eq_getElem hil)
      · simp only [h2, Bool.false_eq_true, if_false, Bool.and_false]

theorem colLoop_wf (f : QL → QL) (n : Nat) (cols : List Slice) :
    ∀ (fuel i j1 : Nat) (h : Cells), ColsWF h n cols → j1 ≤ cols.length →
      ColsWF (Aln.colLoop f cols fuel i j1 h) n cols := by
  intro fuel
  induction fuel with
  | zero => intro i j1 h hw _; exact hw
  | succ fuel ih =>
    intro i j1 h hw hj1
    unfold Aln.colLoop
    by_cases h1 : i + 1 < j1
    · simp only [h1, if_true]
      have hil : i < cols.length := by omega
      have hjl : j1 - 1 < cols.length := by omega
      rw [List.getElem?_eq_getElem hil, List.getElem?_eq_getElem hjl]
      simp only
      have hi := List.getElem?_eq_getElem hil
      have hj := List.getElem?_eq_getElem hjl
      have hvi := hw.1 _ (List.mem_of_getElem? hi)
      have hvj := hw.1 _ (List.mem_of_getElem? hj)
      have hne := cols_ne_of_pairwise hw.2 (show i ≠ j1 - 1 by omega) hi hj
      obtain ⟨_, _, _, r4, r5⟩ := swapCols_spec f h n _ _ hvi hvj hne
      exact ih _ _ _ (hw.congr r4 r5) (by omega)
    · simp only [h1, if_false]
      by_cases h2 : (i + 1 == j1) = true
      · simp only [h2, if_true]
        have hil : i < cols.length := by have := beq_iff_eq.mp h2; omega
        rw [List.getElem?_eq_getElem hil]
        simp only
        obtain ⟨_, _, r4, r5⟩ := mapCol_spec f h n _ (hw.1 _ (List.mem_of_getElem? (List.getElem?_eq_getElem hil)))
        exact hw.congr r4 r5
      · simp only [h2, Bool.false_eq_true, if_false]; exact hw

/-- the letters of row `r` are the `r`-th entries of the columns -/
theorem Aln.rowLetters_eq (h : Cells) (a : Aln) (r : Nat) :
    a.rowLetters h r = (a.cols.map h.read).map fun col => Lin.shown a.q (col[r]?.getD zeroQL) := by
  simp only [Aln.rowLetters, List.map_map]
  apply List.map_congr_left
  intro c _
  simp only [Function.comp, Heap.get, Heap.get?_eq_read]

/-- **revcomp_spec (alignment.Seq, alignment.QSeq).** After `RevComp` the matrix of columns is
    the reversed matrix with every letter complemented (qualities travelling); hence every row
    `r < Rows()` reads as the reverse complement of what it read; the alignment's strand is
    negated and its coordinates are unchanged. -/
theorem Aln.revComp_spec (cx : Ctx) (h : Cells) (a : Aln) (n : Nat) (hw : ColsWF h n a.cols) :
    (a.revComp cx h).2.cols.map (a.revComp cx h).1.read
        = (a.cols.map h.read).reverse.map (List.map (compQL cx.comp)) ∧
    (∀ r, r < n → (a.revComp cx h).2.rowLetters (a.revComp cx h).1 r
        = (a.rowLetters h r).reverse.map (compQL cx.comp)) ∧
    (a.revComp cx h).2.strand = -a.strand ∧ (a.revComp cx h).2.start = a.start ∧
    (a.revComp cx h).2.«end» = a.«end» ∧ (a.revComp cx h).2.subs = a.subs ∧
    ColsWF (a.revComp cx h).1 n (a.revComp cx h).2.cols := by
  have hm : (a.revComp cx h).2.cols.map (a.revComp cx h).1.read
      = (a.cols.map h.read).reverse.map (List.map (compQL cx.comp)) := by
    simp only [Aln.revComp]
    rw [matrix_colLoop _ n a.cols _ _ _ h hw (Nat.le_refl _)]
    have := twoPtr_spec (List.map (compQL cx.comp)) (a.cols.map h.read)
    rw [List.length_map] at this
    exact this
  refine ⟨hm, ?_, rfl, rfl, rfl, rfl, colLoop_wf _ n a.cols _ _ _ h hw (Nat.le_refl _)⟩
  intro r hr
  have hq : (a.revComp cx h).2.q = a.q := rfl
  rw [Aln.rowLetters_eq, hm, Aln.rowLetters_eq, hq]
  simp only [← List.map_reverse, List.map_map]
  apply List.map_congr_left
  intro c hc
  have hlen := (hw.1 c (List.mem_reverse.mp hc)).length_read
  simp only [Function.comp, List.getElem?_map]
  have hx : r < (h.read c).length := by omega
  rw [List.getElem?_eq_getElem hx]
  simp only [Option.map_some, Option.getD_some]
  exact shown_compQL a.q cx.comp _

/-- **revcomp_involutive (alignment.Seq, alignment.QSeq)** -/
theorem Aln.revComp_twice (cx : Ctx) (h : Cells) (a : Aln) (n : Nat) (hw : ColsWF h n a.cols)
    (hinv : ∀ c ∈ a.cols, ∀ x ∈ h.read c, cx.comp (cx.comp x.L) = x.L) :
    let r1 := a.revComp cx h
    let r2 := r1.2.revComp cx r1.1
    r2.2.cols.map r2.1.read = a.cols.map h.read ∧
    (∀ r, r2.2.rowLetters r2.1 r = a.rowLetters h r) ∧
    r2.2.strand = a.strand ∧ r2.2.start = a.start ∧ r2.2.«end» = a.«end» := by
  intro r1 r2
  obtain ⟨m1, _, s1, b1, e1, _, w1⟩ := Aln.revComp_spec cx h a n hw
  obtain ⟨m2, _, s2, b2, e2, _, _⟩ := Aln.revComp_spec cx r1.1 r1.2 n w1
  have hm : r2.2.cols.map r2.1.read = a.cols.map h.read := by
    rw [m2, m1, ← List.map_reverse, List.reverse_reverse, List.map_map]
    conv => rhs; rw [← List.map_id (a.cols.map h.read)]
    apply List.map_congr_left
    intro col hcol
    obtain ⟨c, hc, rfl⟩ := List.mem_map.mp hcol
    simp only [Function.comp, List.map_map, id]
    conv => rhs; rw [← List.map_id (h.read c)]
    apply List.map_congr_left
    intro x hx
    simp only [Function.comp, compQL, id]
    rw [hinv c hc x hx]
  refine ⟨hm, ?_, by rw [s2, s1]; omega, by rw [b2, b1], by rw [e2, e1]⟩
  intro r
  rw [Aln.rowLetters_eq, hm, Aln.rowLetters_eq]
  rfl

/-! ### Delete -/

theorem arr_writeList_same {α : Type} (h : Heap α) (s : Slice) (xs : List α) (ha : s.arr < h.arrays.length) :
    (h.writeList s xs).arr s.arr
      = (h.arr s.arr).take s.off ++ xs.take (min s.len xs.length) ++ (h.arr s.arr).drop (s.off + min s.len xs.length) := by
  simp only [Heap.writeList]
  exact Heap.arr_modify_same h s.arr _ ha

theorem arr_writeList_other {α : Type} (h : Heap α) (s : Slice) (xs : List α) (b : Nat) (hne : s.arr ≠ b) :
    (h.writeList s xs).arr b = h.arr b := by
  simp only [Heap.writeList]
  exact Heap.arr_modify_other h s.arr b _ hne

theorem length_writeList {α : Type} (h : Heap α) (s : Slice) (xs : List α) :
    (h.writeList s xs).arrays.length = h.arrays.length := by
  simp [Heap.writeList]

theorem del_list {α : Type} (A : List α) (off n i : Nat) (hi : i < n) (hA : off + n ≤ A.length) :
    ((A.take (off + i) ++ ((A.drop (off + (i + 1))).take (n - (i + 1))) ++ A.drop (off + i + (n - (i + 1)))).drop off).take (i + (n - (i + 1)))
      = ((A.drop off).take n).eraseIdx i := by
  rw [List.eraseIdx_eq_take_drop_succ]
  apply List.ext_getElem?
  intro k
  by_cases hk : k < i + (n - (i + 1))
  · rw [List.getElem?_take_of_lt hk, List.getElem?_drop]
    by_cases hki : k < i
    · rw [List.append_assoc, List.getElem?_append_left (by simp; omega), List.getElem?_take_of_lt (by omega)]
      rw [List.getElem?_append_left (by simp; omega), List.getElem?_take_of_lt hki,
          List.getElem?_take_of_lt (by omega), List.getElem?_drop]
    · rw [List.getElem?_append_left (by simp; omega), List.getElem?_append_right (by simp; omega)]
      rw [List.getElem?_append_right (by simp; omega)]
      simp only [List.length_take, List.length_drop]
      rw [List.getElem?_take_of_lt (by omega), List.getElem?_drop, List.getElem?_drop,
          List.getElem?_take_of_lt (by omega), List.getElem?_drop]
      congr 1; omega
  · rw [List.getElem?_eq_none_iff.mpr (by simp; omega), List.getElem?_eq_none_iff.mpr (by simp; omega)]

/-- one column of `Delete(i)`: `c[:i+copy(c[i:], c[i+1:])]` reads as the column without entry `i` -/
theorem delCol_spec (h : Cells) (n : Nat) (c : Slice) (i : Nat) (hv : ColValid h n c) (hi : i < n)
    (hcap : c.len ≤ c.cap) :
    (Aln.delCol h c i).1.read (Aln.delCol h c i).2 = (h.read c).eraseIdx i ∧
    (Aln.delCol h c i).2.arr = c.arr ∧ (Aln.delCol h c i).2.len = n - 1 ∧
    (Aln.delCol h c i).2.off = c.off ∧
    (∀ b, b ≠ c.arr → (Aln.delCol h c i).1.arr b = h.arr b) ∧
    (Aln.delCol h c i).1.arrays.length = h.arrays.length ∧
    ((Aln.delCol h c i).1.arr c.arr).length = (h.arr c.arr).length := by
  have hlen := hv.2.2
  have harr := hv.2.1
  have s1 : c.slice i c.len = some ⟨c.arr, c.off + i, c.len - i, c.cap - i⟩ := by
    simp only [Slice.slice]; rw [if_pos ⟨by omega, hcap⟩]
  have s2 : c.slice (i + 1) c.len = some ⟨c.arr, c.off + (i + 1), c.len - (i + 1), c.cap - (i + 1)⟩ := by
    simp only [Slice.slice]; rw [if_pos ⟨by omega, hcap⟩]
  have hsrc : (h.read ⟨c.arr, c.off + (i + 1), c.len - (i + 1), c.cap - (i + 1)⟩).length = c.len - (i + 1) := by
    simp only [Heap.read, List.length_take, List.length_drop]; omega
  have hmin : min (c.len - i) (c.len - (i + 1)) = c.len - (i + 1) := by omega
  have hw := arr_writeList_same h ⟨c.arr, c.off + i, c.len - i, c.cap - i⟩
    (h.read ⟨c.arr, c.off + (i + 1), c.len - (i + 1), c.cap - (i + 1)⟩) hv.1
  simp only [hsrc, hmin] at hw
  have hdel : Aln.delCol h c i =
      (h.writeList ⟨c.arr, c.off + i, c.len - i, c.cap - i⟩
          (h.read ⟨c.arr, c.off + (i + 1), c.len - (i + 1), c.cap - (i + 1)⟩),
       { c with len := i + (c.len - (i + 1)) }) := by
    simp only [Aln.delCol, s1, s2, Heap.copy, hmin]
  rw [hdel]
  refine ⟨?_, rfl, by simp only; omega, rfl, ?_, ?_, ?_⟩
  · have hw' : (h.writeList ⟨c.arr, c.off + i, c.len - i, c.cap - i⟩
          (h.read ⟨c.arr, c.off + (i + 1), c.len - (i + 1), c.cap - (i + 1)⟩)).arr c.arr
        = (h.arr c.arr).take (c.off + i) ++ (((h.arr c.arr).drop (c.off + (i + 1))).take (c.len - (i + 1)))
          ++ (h.arr c.arr).drop (c.off + i + (c.len - (i + 1))) := by
      rw [hw]
      congr 2
      rw [List.take_of_length_le (by rw [hsrc]; exact Nat.le_refl _)]
      rfl
    show (((h.writeList ⟨c.arr, c.off + i, c.len - i, c.cap - i⟩
          (h.read ⟨c.arr, c.off + (i + 1), c.len - (i + 1), c.cap - (i + 1)⟩)).arr c.arr).drop c.off).take
            (i + (c.len - (i + 1))) = (((h.arr c.arr).drop c.off).take c.len).eraseIdx i
    rw [hw']
    exact del_list (h.arr c.arr) c.off c.len i (by omega) harr
  · intro b hb
    exact arr_writeList_other _ _ _ _ (Ne.symm hb)
  · exact length_writeList _ _ _
  · rw [hw]
    simp only [List.length_append, List.length_take, List.length_drop, hsrc]
    omega

/-- the loop of `Delete(i)` over the columns -/
def delFold (i : Nat) (cols : List Slice) (acc : Cells × List Slice) : Cells × List Slice :=
  cols.foldl (fun (acc : Cells × List Slice) c =>
    ((Aln.delCol acc.1 c i).1, acc.2 ++ [(Aln.delCol acc.1 c i).2])) acc

theorem Aln.delete_eq (h : Cells) (a : Aln) (i : Nat) :
    a.delete h i = ((delFold i a.cols (h, [])).1,
      { a with cols := (delFold i a.cols (h, [])).2, subs := a.subs.eraseIdx i }) := rfl

theorem delFold_spec (i n : Nat) (hi : i < n) : ∀ (cols : List Slice) (h : Cells) (acc : List Slice),
    ColsWF h n cols → (∀ c ∈ cols, c.len ≤ c.cap) →
    ∃ cols', (delFold i cols (h, acc)).2 = acc ++ cols' ∧
      All2 (fun c c' => (delFold i cols (h, acc)).1.read c' = (h.read c).eraseIdx i ∧
          c'.arr = c.arr ∧ c'.len = n - 1) cols cols' ∧
      (∀ b, (∀ c ∈ cols, c.arr ≠ b) → (delFold i cols (h, acc)).1.arr b = h.arr b) ∧
      (delFold i cols (h, acc)).1.arrays.length = h.arrays.length := by
  intro cols
  induction cols with
  | nil => intro h acc _ _; exact ⟨[], by simp [delFold], .nil, fun _ _ => rfl, rfl⟩
  | cons c cs ih =>
    intro h acc hw hcap
    have hvc := hw.1 c List.mem_cons_self
    have hpw := List.pairwise_cons.mp hw.2
    obtain ⟨r1, r2, r3, _, r5, r6, r7⟩ := delCol_spec h n c i hvc hi (hcap c List.mem_cons_self)
    have hw' : ColsWF (Aln.delCol h c i).1 n cs := by
      refine ⟨fun x hx => ?_, hpw.2⟩
      have hxv := hw.1 x (List.mem_cons_of_mem _ hx)
      have hne : x.arr ≠ c.arr := fun e => hpw.1 x hx e.symm
      exact ⟨by rw [r6]; exact hxv.1, by rw [r5 _ hne]; exact hxv.2.1, hxv.2.2⟩
    obtain ⟨cols', h2, hall, hframe, hsize⟩ := ih (Aln.delCol h c i).1 (acc ++ [(Aln.delCol h c i).2]) hw'
      (fun x hx => hcap x (List.mem_cons_of_mem _ hx))
    have hfold : delFold i (c :: cs) (h, acc)
        = delFold i cs ((Aln.delCol h c i).1, acc ++ [(Aln.delCol h c i).2]) := rfl
    rw [hfold]
    refine ⟨(Aln.delCol h c i).2 :: cols', by rw [h2]; simp, .cons ⟨?_, r2, r3⟩ ?_, ?_, by rw [hsize, r6]⟩
    · have hk : (delFold i cs ((Aln.delCol h c i).1, acc ++ [(Aln.delCol h c i).2])).1.arr (Aln.delCol h c i).2.arr
          = (Aln.delCol h c i).1.arr (Aln.delCol h c i).2.arr := by
        apply hframe
        intro x hx
        rw [r2]
        exact fun e => hpw.1 x hx e.symm
      rw [read_congr_arr _ _ _ hk]; exact r1
    · refine hall.imp_mem fun x x' hx hxx => ⟨?_, hxx.2⟩
      rw [hxx.1]
      have hne : x.arr ≠ c.arr := fun e => hpw.1 x hx e.symm
      rw [read_congr_arr _ _ _ (r5 _ hne)]
    · intro b hb
      rw [hframe b (fun x hx => hb x (List.mem_cons_of_mem _ hx)),
          r5 b (Ne.symm (hb c List.mem_cons_self))]

/-! ### Clone of a column-stored alignment -/

/-- the loop of `Clone`: every column copied into a new backing array -/
def cloneColsFold (cx : Ctx) (cols : List Slice) (acc : Cells × List Slice) : Cells × List Slice :=
  cols.foldl (fun (acc : Cells × List Slice) c =>
    ((acc.1.ofList (acc.1.read c) (cx.grow 0 c.len) zeroQL).1,
     acc.2 ++ [(acc.1.ofList (acc.1.read c) (cx.grow 0 c.len) zeroQL).2])) acc

theorem Aln.clone_eq (cx : Ctx) (h : Cells) (a : Aln) :
    a.clone cx h = ((cloneColsFold cx a.cols (h, [])).1, { a with cols := (cloneColsFold cx a.cols (h, [])).2 }) := rfl

theorem cloneColsFold_spec (cx : Ctx) (n : Nat) : ∀ (cols : List Slice) (h : Cells) (acc : List Slice),
    (∀ c ∈ cols, ColValid h n c) →
    ∃ news, (cloneColsFold cx cols (h, acc)).2 = acc ++ news ∧
      All2 (fun c c' => (cloneColsFold cx cols (h, acc)).1.read c' = h.read c ∧
          h.arrays.length ≤ c'.arr ∧ ColValid (cloneColsFold cx cols (h, acc)).1 n c') cols news ∧
      news.Pairwise (fun x y => x.arr ≠ y.arr) ∧
      h.arrays.length ≤ (cloneColsFold cx cols (h, acc)).1.arrays.length ∧
      (∀ b, b < h.arrays.length → (cloneColsFold cx cols (h, acc)).1.arr b = h.arr b) := by
  intro cols
  induction cols with
  | nil => intro h acc _; exact ⟨[], by simp [cloneColsFold], .nil, List.Pairwise.nil, Nat.le_refl _, fun _ _ => rfl⟩
  | cons c cs ih =>
    intro h acc hv
    have hvc := hv c List.mem_cons_self
    have hread : (h.ofList (h.read c) (cx.grow 0 c.len) zeroQL).1.read (h.ofList (h.read c) (cx.grow 0 c.len) zeroQL).2
        = h.read c := Heap.read_ofList _ _ _ _
    have harr : (h.ofList (h.read c) (cx.grow 0 c.len) zeroQL).2.arr = h.arrays.length := rfl
    have hsize : (h.ofList (h.read c) (cx.grow 0 c.len) zeroQL).1.arrays.length = h.arrays.length + 1 :=
      Heap.size_ofList _ _ _ _
    have hold : ∀ b, b < h.arrays.length → (h.ofList (h.read c) (cx.grow 0 c.len) zeroQL).1.arr b = h.arr b :=
      fun b hb => Heap.arr_alloc_old _ _ _ hb
    have hnewvalid : ColValid (h.ofList (h.read c) (cx.grow 0 c.len) zeroQL).1 n
        (h.ofList (h.read c) (cx.grow 0 c.len) zeroQL).2 := by
      refine ⟨by rw [harr, hsize]; omega, ?_, ?_⟩
      · rw [show (h.ofList (h.read c) (cx.grow 0 c.len) zeroQL).2.arr
            = (h.alloc ((h.read c) ++ List.replicate (max (h.read c).length (cx.grow 0 c.len) - (h.read c).length) zeroQL)).2 from rfl]
        simp only [Heap.ofList]
        rw [Heap.arr_alloc_new]
        simp only [List.length_append, List.length_replicate]
        omega
      · simp only [Heap.ofList]; exact hvc.length_read
    have hv' : ∀ x ∈ cs, ColValid (h.ofList (h.read c) (cx.grow 0 c.len) zeroQL).1 n x := fun x hx => by
      have hxv := hv x (List.mem_cons_of_mem _ hx)
      exact ⟨by rw [hsize]; have := hxv.1; omega, by rw [hold _ hxv.1]; exact hxv.2.1, hxv.2.2⟩
    obtain ⟨news, h2, hall, hpw, hsz, hfr⟩ := ih _ (acc ++ [(h.ofList (h.read c) (cx.grow 0 c.len) zeroQL).2]) hv'
    have hfold : cloneColsFold cx (c :: cs) (h, acc) = cloneColsFold cx cs
        ((h.ofList (h.read c) (cx.grow 0 c.len) zeroQL).1, acc ++ [(h.ofList (h.read c) (cx.grow 0 c.len) zeroQL).2]) := rfl
    rw [hfold]
    have hkeep := hfr (h.ofList (h.read c) (cx.grow 0 c.len) zeroQL).2.arr (by rw [harr, hsize]; omega)
    refine ⟨(h.ofList (h.read c) (cx.grow 0 c.len) zeroQL).2 :: news, by rw [h2]; simp,
      .cons ⟨?_, by rw [harr]; omega, ?_⟩ ?_, ?_, by omega, ?_⟩
    · rw [read_congr_arr _ _ _ hkeep]; exact hread
    · exact ⟨by have := hnewvalid.1; omega, by rw [hkeep]; exact hnewvalid.2.1, hnewvalid.2.2⟩
    · refine hall.imp_mem fun x x' hx hxx => ⟨?_, by have := hxx.2.1; omega, hxx.2.2⟩
      rw [hxx.1, read_congr_arr _ _ _ (hold _ (hv x (List.mem_cons_of_mem _ hx)).1)]
    · refine List.pairwise_cons.mpr ⟨?_, hpw⟩
      intro x hx
      obtain ⟨y, _, hr⟩ := hall.exists_left x hx
      have := hr.2.1
      rw [harr]; omega
    · intro b hb
      rw [hfr b (by omega), hold b hb]

end Biogo.Containers
