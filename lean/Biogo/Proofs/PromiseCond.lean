/-
The promise protocol with the condition variable spelled out (Biogo.PromiseCond) refines the
protocol of Biogo.Promise, never loses a wake-up (with Broadcast), blocks only sleeping Waits on
an empty promise, and terminates.
-/
import Biogo.Model.PromiseCond
import Biogo.Proofs.PromiseAll

namespace Biogo.PromiseCond
open Biogo.LTS Biogo.Promise

variable {c : FCfg} {s s' : FSt} {i : Nat}

/-! ### the kinds of step -/

inductive FStepKind (c : FCfg) (s : FSt) (i : Nat) (s' : FSt) : Prop
  | atomic (call : Call) (b : Option Res) (ret : Ret)
      (hcall : c.calls[i]? = some call) (hnw : call ≠ .wait) (hpc : s.pcs[i]? = some .start)
      (hmu : s.mu = none) (heq : atomicCall c.flags s.box call = (b, ret))
      (hs' : s' = { s with box := b,
                           pcs := if places c.flags call then wake c.wake (s.pcs.set i (.done ret))
                                  else s.pcs.set i (.done ret) })
  | take (pc : FPc) (r : Res)
      (hcall : c.calls[i]? = some .wait) (hpc : s.pcs[i]? = some pc) (hsw : pc = .start ∨ pc = .woken)
      (hmu : s.mu = none) (hbox : s.box = some r)
      (hs' : s' = { box := none, mu := some i, pcs := s.pcs.set i (.borrowed r) })
  | sleep (pc : FPc)
      (hcall : c.calls[i]? = some .wait) (hpc : s.pcs[i]? = some pc) (hsw : pc = .start ∨ pc = .woken)
      (hmu : s.mu = none) (hbox : s.box = none)
      (hs' : s' = { s with pcs := s.pcs.set i .sleeping })
  | put (r : Res)
      (hcall : c.calls[i]? = some .wait) (hpc : s.pcs[i]? = some (.borrowed r))
      (hs' : s' = { box := some r, mu := none, pcs := s.pcs.set i (.done (.res r)) })

theorem fstep_cases (h : fstep c s i = some s') : FStepKind c s i s' := by
  cases hcall : c.calls[i]? with
  | none => simp [fstep, hcall] at h
  | some call =>
    cases hpc : s.pcs[i]? with
    | none => simp [fstep, hcall, hpc] at h
    | some pc =>
      cases call with
      | wait =>
        cases pc with
        | borrowed r =>
          simp [fstep, hcall, hpc] at h
          exact .put r hcall hpc h.symm
        | done ret => simp [fstep, hcall, hpc] at h
        | sleeping => simp [fstep, hcall, hpc] at h
        | start =>
          simp only [fstep, hcall, hpc] at h
          cases hmu : s.mu <;> cases hbox : s.box <;> simp [hmu, hbox] at h
          · exact .sleep _ hcall hpc (Or.inl rfl) hmu hbox (by rw [← h, hmu, hbox])
          · exact .take _ _ hcall hpc (Or.inl rfl) hmu hbox h.symm
        | woken =>
          simp only [fstep, hcall, hpc] at h
          cases hmu : s.mu <;> cases hbox : s.box <;> simp [hmu, hbox] at h
          · exact .sleep _ hcall hpc (Or.inr rfl) hmu hbox (by rw [← h, hmu, hbox])
          · exact .take _ _ hcall hpc (Or.inr rfl) hmu hbox h.symm
      | fulfill v =>
        cases pc <;> simp only [fstep, hcall, hpc] at h <;> try cases h
        cases hmu : s.mu with
        | some j => simp [hmu] at h
        | none =>
          simp only [hmu] at h
          cases hq : atomicCall c.flags s.box (.fulfill v) with
          | mk b ret =>
            rw [hq] at h; simp only [Option.some.injEq] at h
            exact .atomic _ b ret hcall (by simp) hpc hmu hq (by rw [← h, hmu])
      | fail v e =>
        cases pc <;> simp only [fstep, hcall, hpc] at h <;> try cases h
        cases hmu : s.mu with
        | some j => simp [hmu] at h
        | none =>
          simp only [hmu] at h
          cases hq : atomicCall c.flags s.box (.fail v e) with
          | mk b ret =>
            rw [hq] at h; simp only [Option.some.injEq] at h
            exact .atomic _ b ret hcall (by simp) hpc hmu hq (by rw [← h, hmu])
      | recover v =>
        cases pc <;> simp only [fstep, hcall, hpc] at h <;> try cases h
        cases hmu : s.mu with
        | some j => simp [hmu] at h
        | none =>
          simp only [hmu] at h
          cases hq : atomicCall c.flags s.box (.recover v) with
          | mk b ret =>
            rw [hq] at h; simp only [Option.some.injEq] at h
            exact .atomic _ b ret hcall (by simp) hpc hmu hq (by rw [← h, hmu])
      | brk =>
        cases pc <;> simp only [fstep, hcall, hpc] at h <;> try cases h
        cases hmu : s.mu with
        | some j => simp [hmu] at h
        | none =>
          simp only [hmu] at h
          cases hq : atomicCall c.flags s.box .brk with
          | mk b ret =>
            rw [hq] at h; simp only [Option.some.injEq] at h
            exact .atomic _ b ret hcall (by simp) hpc hmu hq (by rw [← h, hmu])

/-! ### refinement: every step is a step of `Biogo.Promise.sys`, or invisible -/

theorem absPc_wakePc (pc : FPc) : absPc (wakePc pc) = absPc pc := by cases pc <;> rfl

theorem map_absPc_wakeAll (pcs : List FPc) : (wakeAll pcs).map absPc = pcs.map absPc := by
  simp [wakeAll, List.map_map, Function.comp_def, absPc_wakePc]

theorem map_absPc_wakeOne (pcs : List FPc) : (wakeOne pcs).map absPc = pcs.map absPc := by
  induction pcs with
  | nil => rfl
  | cons pc rest ih => cases pc <;> simp [wakeOne, ih, absPc]

theorem map_absPc_wake (w : Wake) (pcs : List FPc) : (wake w pcs).map absPc = pcs.map absPc := by
  cases w
  · exact map_absPc_wakeAll pcs
  · exact map_absPc_wakeOne pcs

theorem map_set_same {α β : Type} (f : α → β) (l : List α) (k : Nat) (a b : α) (h : l[k]? = some a)
    (hf : f b = f a) : (l.set k b).map f = l.map f := by
  induction l generalizing k with
  | nil => simp
  | cons x xs ih =>
    cases k with
    | zero => simp at h; subst h; simp [hf]
    | succ n => simp at h; simp [ih n h]

theorem abs_get {pc : FPc} (h : s.pcs[i]? = some pc) : (abs s).pcs[i]? = some (absPc pc) := by
  simp [abs, h]

theorem step_atomic_eq {c : Cfg} {s : St} {i : Nat} {call : Call} (hcall : c.calls[i]? = some call)
    (hnw : call ≠ .wait) (hpc : s.pcs[i]? = some .start) (hmu : s.mu = none) :
    Promise.step c s i = some { s with box := (atomicCall c.flags s.box call).1,
                                       pcs := s.pcs.set i (.done (atomicCall c.flags s.box call).2) } := by
  cases call with
  | wait => exact absurd rfl hnw
  | fulfill v => simp [Promise.step, hcall, hpc, hmu]
  | fail v e => simp [Promise.step, hcall, hpc, hmu]
  | recover v => simp [Promise.step, hcall, hpc, hmu]
  | brk => simp [Promise.step, hcall, hpc, hmu]

theorem step_take_eq {c : Cfg} {s : St} {i : Nat} {r : Res} (hfix : c.fixed = true)
    (hcall : c.calls[i]? = some .wait) (hpc : s.pcs[i]? = some .start) (hmu : s.mu = none)
    (hbox : s.box = some r) :
    Promise.step c s i = some { box := none, mu := some i, pcs := s.pcs.set i (.borrowed r) } := by
  simp [Promise.step, hcall, hpc, hfix, hmu, hbox]

theorem step_put_eq {c : Cfg} {s : St} {i : Nat} {r : Res} (hfix : c.fixed = true)
    (hcall : c.calls[i]? = some .wait) (hpc : s.pcs[i]? = some (.borrowed r)) :
    Promise.step c s i = some { box := some r, mu := none, pcs := s.pcs.set i (.done (.res r)) } := by
  simp [Promise.step, hcall, hpc, hfix]

/-- a step of the protocol with the condition variable is a step of the abstract protocol, or
    does not change the abstract state (a Wait going to sleep) -/
theorem abs_step (h : fstep c s i = some s') :
    Promise.step (absCfg c) (abs s) i = some (abs s') ∨ abs s' = abs s := by
  cases fstep_cases h with
  | atomic call b ret hcall hnw hpc hmu heq hs' =>
    left
    have hpc' : (abs s).pcs[i]? = some .start := abs_get hpc
    rw [step_atomic_eq (c := absCfg c) hcall hnw hpc' hmu]
    have heq' : atomicCall (absCfg c).flags (abs s).box call = (b, ret) := heq
    rw [heq', hs']
    simp only [abs]
    congr 2
    split
    · rw [map_absPc_wake, List.map_set]; rfl
    · rw [List.map_set]; rfl
  | take pc r hcall hpc hsw hmu hbox hs' =>
    left
    have hpc' : (abs s).pcs[i]? = some .start := by
      rw [abs_get hpc]; rcases hsw with e | e <;> subst e <;> rfl
    rw [step_take_eq (c := absCfg c) rfl hcall hpc' hmu hbox, hs']
    simp only [abs, List.map_set]; rfl
  | sleep pc hcall hpc hsw hmu hbox hs' =>
    right
    rw [hs']
    simp only [abs]
    congr 1
    exact map_set_same absPc s.pcs i pc .sleeping hpc (by rcases hsw with e | e <;> subst e <;> rfl)
  | put r hcall hpc hs' =>
    left
    have hpc' : (abs s).pcs[i]? = some (.borrowed r) := abs_get hpc
    rw [step_put_eq (c := absCfg c) rfl hcall hpc', hs']
    simp only [abs, List.map_set]; rfl

theorem abs_init (c : FCfg) : abs (finit c) = Promise.init (absCfg c) := by
  simp [abs, finit, Promise.init, absCfg, absPc]

/-- every reachable state of the protocol with the condition variable is, with the sleep
    forgotten, a reachable state of `Biogo.Promise.sys` -/
theorem abs_reach : ∀ s, Reach (fsys c) s → Reach (Promise.sys (absCfg c)) (abs s) := by
  intro s hr
  induction hr with
  | init =>
    have : abs (fsys c).init = (Promise.sys (absCfg c)).init := abs_init c
    rw [this]; exact .init
  | step _ hs ih =>
    rcases abs_step hs with h | h
    · exact .step ih h
    · rw [h]; exact ih

/-! ### no lost wake-up (Broadcast) -/

/-- nobody sleeps unless the promise is empty and the mutex free -/
def NoSleeper (s : FSt) : Prop := ∀ (j : Nat), s.pcs[j]? = some .sleeping → s.box = none ∧ s.mu = none

theorem wakeAll_get (pcs : List FPc) (j : Nat) : (wakeAll pcs)[j]? = (pcs[j]?).map wakePc := by
  simp [wakeAll]

theorem not_sleeping_wakeAll (pcs : List FPc) (j : Nat) : (wakeAll pcs)[j]? ≠ some .sleeping := by
  rw [wakeAll_get]
  cases pcs[j]? with
  | none => simp
  | some pc => cases pc <;> simp [wakePc]

/-- the box is filled only by calls that place a message -/
theorem atomic_some_places (f : Flags) (call : Call) (hnw : call ≠ .wait) (r : Res)
    (h : (atomicCall f none call).1 = some r) : places f call = true := by
  cases call with
  | fulfill v => rfl
  | fail v e => rfl
  | recover v =>
    cases hrc : f.recoverable <;> cases v <;> simp [atomicCall, recover, hrc, places] at h ⊢
  | brk => simp [atomicCall, brk] at h
  | wait => exact absurd rfl hnw

theorem noSleeper_step (hw : c.wake = .broadcast) (hG : GInv (absCfg c) (abs s)) (hI : NoSleeper s)
    (h : fstep c s i = some s') : NoSleeper s' := by
  cases fstep_cases h with
  | atomic call b ret hcall hnw hpc hmu heq hs' =>
    intro j hj
    rw [hs'] at hj ⊢
    simp only at hj ⊢
    refine ⟨?_, hmu⟩
    cases hpl : places c.flags call with
    | true =>
      rw [hpl, hw] at hj
      exact absurd hj (not_sleeping_wakeAll _ j)
    | false =>
      rw [hpl] at hj
      simp only [Bool.false_eq_true, if_false, List.getElem?_set] at hj
      split at hj
      · split at hj <;> simp at hj
      · -- a sleeper exists, so the box was empty; a call that does not place leaves it empty
        have hb0 := (hI j hj).1
        cases hb : b with
        | none => rfl
        | some r =>
          exfalso
          have := atomic_some_places c.flags call hnw r (by rw [← hb0, heq, hb])
          rw [hpl] at this; cases this
  | take pc r hcall hpc hsw hmu hbox hs' =>
    intro j hj
    rw [hs'] at hj
    simp only [List.getElem?_set] at hj
    split at hj
    · split at hj <;> simp at hj
    · have := (hI j hj).1; rw [hbox] at this; cases this
  | sleep pc hcall hpc hsw hmu hbox hs' =>
    intro j _
    rw [hs']; exact ⟨hbox, hmu⟩
  | put r hcall hpc hs' =>
    intro j hj
    rw [hs'] at hj
    simp only [List.getElem?_set] at hj
    split at hj
    · split at hj <;> simp at hj
    · -- a sleeper while somebody has borrowed: impossible (the mutex was held)
      exfalso
      have hmu : s.mu = some i := (hG.bor i r (abs_get hpc)).1
      have := (hI j hj).2
      rw [hmu] at this; cases this

theorem noSleeper_reach (hw : c.wake = .broadcast) : ∀ s, Reach (fsys c) s → NoSleeper s :=
  inv_induction' (S := fsys c) NoSleeper
    (by intro j h; simp [fsys, finit, List.getElem?_replicate] at h)
    (fun s _ _ hr hI h => noSleeper_step hw (ginv_reach (c := absCfg c) rfl _ (abs_reach s hr)) hI h)

/-! ### only Waits sleep -/

def WaitOnly (c : FCfg) (s : FSt) : Prop :=
  ∀ (j : Nat) (pc : FPc), s.pcs[j]? = some pc → pc = .sleeping ∨ pc = .woken → c.calls[j]? = some .wait

theorem wakeOne_get (pcs : List FPc) (j : Nat) (pc' : FPc) (h : (wakeOne pcs)[j]? = some pc') :
    ∃ pc, pcs[j]? = some pc ∧ (pc' = pc ∨ (pc = .sleeping ∧ pc' = .woken)) := by
  induction pcs generalizing j with
  | nil => simp [wakeOne] at h
  | cons x xs ih =>
    cases j with
    | zero =>
      cases x <;> simp [wakeOne] at h ⊢ <;> subst h <;> simp
    | succ n =>
      cases x <;> simp [wakeOne] at h ⊢
      all_goals first | exact ih n h | exact ⟨pc', h, Or.inl rfl⟩

theorem wake_get (w : Wake) (pcs : List FPc) (j : Nat) (pc' : FPc) (h : (wake w pcs)[j]? = some pc') :
    ∃ pc, pcs[j]? = some pc ∧ (pc' = pc ∨ (pc = .sleeping ∧ pc' = .woken)) := by
  cases w with
  | signal => exact wakeOne_get pcs j pc' h
  | broadcast =>
    simp only [wake] at h
    rw [wakeAll_get] at h
    cases hp : pcs[j]? with
    | none => rw [hp] at h; cases h
    | some pc =>
      rw [hp] at h; simp at h
      refine ⟨pc, rfl, ?_⟩
      cases pc <;> simp [wakePc] at h <;> subst h <;> simp

theorem waitOnly_step (hI : WaitOnly c s) (h : fstep c s i = some s') : WaitOnly c s' := by
  have keep : ∀ (pc0 : FPc) (j : Nat) (pc : FPc), (pc0 ≠ .sleeping ∧ pc0 ≠ .woken) →
      (s.pcs.set i pc0)[j]? = some pc → pc = .sleeping ∨ pc = .woken → c.calls[j]? = some .wait := by
    intro pc0 j pc hne hj hsw
    simp only [List.getElem?_set] at hj
    split at hj
    · split at hj
      · simp at hj; subst hj; rcases hsw with e | e <;> simp [e] at hne
      · cases hj
    · exact hI j pc hj hsw
  cases fstep_cases h with
  | atomic call b ret hcall hnw hpc hmu heq hs' =>
    intro j pc hj hsw
    rw [hs'] at hj
    simp only at hj
    split at hj
    · obtain ⟨pc1, h1, h2⟩ := wake_get _ _ j pc hj
      rcases h2 with e | ⟨e1, e2⟩
      · subst e; exact keep _ j pc ⟨by simp, by simp⟩ h1 hsw
      · subst e1; exact keep _ j .sleeping ⟨by simp, by simp⟩ h1 (Or.inl rfl)
    · exact keep _ j pc ⟨by simp, by simp⟩ hj hsw
  | take pc0 r hcall hpc hsw0 hmu hbox hs' =>
    intro j pc hj hsw
    rw [hs'] at hj
    exact keep _ j pc ⟨by simp, by simp⟩ hj hsw
  | sleep pc0 hcall hpc hsw0 hmu hbox hs' =>
    intro j pc hj hsw
    rw [hs'] at hj
    simp only [List.getElem?_set] at hj
    split at hj
    · rename_i e; subst e; exact hcall
    · exact hI j pc hj hsw
  | put r hcall hpc hs' =>
    intro j pc hj hsw
    rw [hs'] at hj
    exact keep _ j pc ⟨by simp, by simp⟩ hj hsw

theorem waitOnly_reach : ∀ s, Reach (fsys c) s → WaitOnly c s :=
  inv_induction (S := fsys c) (WaitOnly c)
    (by intro j pc h hsw; simp [fsys, finit, List.getElem?_replicate] at h; rcases hsw with e | e <;> simp [e] at h)
    (fun _ _ _ hI h => waitOnly_step hI h)

/-! ### blocked states -/

/-- with Broadcast: in a state where nobody can move the mutex is free and every call that has
    not returned is a Wait asleep on the condition variable — hence (`NoSleeper`) the promise
    is empty -/
theorem fstuck_shape (hG : GInv (absCfg c) (abs s)) (hW : WaitOnly c s) (hstuck : ∀ i, fstep c s i = none) :
    s.mu = none ∧
    ∀ (i : Nat) (pc : FPc), s.pcs[i]? = some pc → pc.isDone = false →
      c.calls[i]? = some .wait ∧ pc = .sleeping := by
  have hmu : s.mu = none := by
    cases hm : s.mu with
    | none => rfl
    | some j =>
      exfalso
      obtain ⟨r, hr⟩ := hG.mu_bor j hm
      have hcall : c.calls[j]? = some .wait := (hG.bor j r hr).2.2
      -- the abstract pc is `borrowed r`, so is the concrete one
      have hlt : j < s.pcs.length := by
        have := lt_of_get hr; simpa [abs] using this
      have hpc : s.pcs[j]? = some s.pcs[j] := by simp [hlt]
      have hap := abs_get hpc
      rw [hr] at hap
      have hb : s.pcs[j] = .borrowed r := by
        cases hq : s.pcs[j] <;> rw [hq] at hap <;> simp [absPc] at hap
        rw [hap]
      have := hstuck j
      simp [fstep, hcall, hpc, hb] at this
  refine ⟨hmu, ?_⟩
  intro i pc hpc hnd
  have hlt : i < c.calls.length := by
    have h1 := hG.len
    have h2 := lt_of_get (abs_get hpc)
    rw [h1] at h2; exact h2
  have hcall : c.calls[i]? = some c.calls[i] := by simp [hlt]
  have hst := hstuck i
  cases pc with
  | done ret => simp [FPc.isDone] at hnd
  | borrowed r =>
    have : s.mu = some i := (hG.bor i r (abs_get hpc)).1
    rw [hmu] at this; cases this
  | sleeping => exact ⟨hW i _ hpc (Or.inl rfl), rfl⟩
  | start =>
    exfalso
    cases hc : c.calls[i] <;> cases hb : s.box <;> simp [fstep, hcall, hc, hpc, hmu, hb] at hst
  | woken =>
    exfalso
    have hw := hW i _ hpc (Or.inr rfl)
    cases hb : s.box <;> simp [fstep, hw, hpc, hmu, hb] at hst

/-! ### termination: sleeping and waking cannot go on for ever -/

/-- rank of a pc, `n` = number of calls: a call at its start outweighs one wake-up of every
    other call -/
def frank (n : Nat) : FPc → Nat
  | .start => n + 3 | .woken => 3 | .sleeping => 2 | .borrowed _ => 1 | .done _ => 0

def fmu (c : FCfg) (s : FSt) : Nat := (s.pcs.map (frank c.calls.length)).sum

def FPc.isSleeping : FPc → Bool
  | .sleeping => true
  | _ => false

theorem fsum_set (f : FPc → Nat) (l : List FPc) (k : Nat) (a b : FPc) (h : l[k]? = some a) :
    ((l.set k b).map f).sum + f a = (l.map f).sum + f b := by
  induction l generalizing k with
  | nil => simp at h
  | cons x xs ih =>
    cases k with
    | zero => simp at h; subst h; simp; omega
    | succ n => simp at h; have := ih n h; simp at this ⊢; omega

theorem frank_wakeAll (n : Nat) (pcs : List FPc) :
    ((wakeAll pcs).map (frank n)).sum = (pcs.map (frank n)).sum + pcs.countP FPc.isSleeping := by
  induction pcs with
  | nil => rfl
  | cons x xs ih =>
    have ih' : ((wakeAll xs).map (frank n)).sum = (xs.map (frank n)).sum + xs.countP FPc.isSleeping := ih
    cases x <;> simp [wakeAll, wakePc, frank, FPc.isSleeping, List.countP_cons] at ih' ⊢ <;> omega

theorem frank_wakeOne (n : Nat) (pcs : List FPc) :
    ((wakeOne pcs).map (frank n)).sum ≤ (pcs.map (frank n)).sum + pcs.countP FPc.isSleeping := by
  induction pcs with
  | nil => simp [wakeOne]
  | cons x xs ih =>
    cases x <;> simp [wakeOne, frank, FPc.isSleeping, List.countP_cons] at ih ⊢ <;> omega

theorem frank_wake (w : Wake) (n : Nat) (pcs : List FPc) :
    ((wake w pcs).map (frank n)).sum ≤ (pcs.map (frank n)).sum + pcs.countP FPc.isSleeping := by
  cases w with
  | broadcast => simp only [wake]; rw [frank_wakeAll]; omega
  | signal => exact frank_wakeOne n pcs

/-- every step decreases `fmu` (either way of waking) -/
theorem fmu_step (hlen : s.pcs.length = c.calls.length) (h : fstep c s i = some s') :
    fmu c s' < fmu c s := by
  cases fstep_cases h with
  | atomic call b ret hcall hnw hpc hmu heq hs' =>
    have hlt : i < s.pcs.length := by
      rcases Nat.lt_or_ge i s.pcs.length with h' | h'
      · exact h'
      · rw [List.getElem?_eq_none h'] at hpc; cases hpc
    have hset := fsum_set (frank c.calls.length) s.pcs i _ (.done ret) hpc
    have hget' : (s.pcs.set i (.done ret))[i]? = some (.done ret) := by simp [hlt]
    have hcnt := countP_lt_length_of FPc.isSleeping (s.pcs.set i (.done ret)) i _ hget' rfl
    have hw := frank_wake c.wake c.calls.length (s.pcs.set i (.done ret))
    simp only [List.length_set] at hcnt
    simp only [frank] at hset
    rw [hs']
    simp only [fmu]
    split
    · omega
    · omega
  | take pc r hcall hpc hsw hmu hbox hs' =>
    have hset := fsum_set (frank c.calls.length) s.pcs i _ (.borrowed r) hpc
    rw [hs']; simp only [fmu]
    rcases hsw with e | e <;> subst e <;> simp only [frank] at hset <;> omega
  | sleep pc hcall hpc hsw hmu hbox hs' =>
    have hset := fsum_set (frank c.calls.length) s.pcs i _ .sleeping hpc
    rw [hs']; simp only [fmu]
    rcases hsw with e | e <;> subst e <;> simp only [frank] at hset <;> omega
  | put r hcall hpc hs' =>
    have hset := fsum_set (frank c.calls.length) s.pcs i _ (.done (.res r)) hpc
    rw [hs']; simp only [fmu]
    simp only [frank] at hset; omega

theorem wakeOne_length (pcs : List FPc) : (wakeOne pcs).length = pcs.length := by
  induction pcs with
  | nil => rfl
  | cons x xs ih => cases x <;> simp [wakeOne, ih]

theorem wake_length (w : Wake) (pcs : List FPc) : (wake w pcs).length = pcs.length := by
  cases w with
  | broadcast => simp [wake, wakeAll]
  | signal => exact wakeOne_length pcs

theorem flen_step (hlen : s.pcs.length = c.calls.length) (h : fstep c s i = some s') :
    s'.pcs.length = c.calls.length := by
  cases fstep_cases h with
  | atomic call b ret hcall hnw hpc hmu heq hs' =>
    rw [hs']; simp only
    split
    · rw [wake_length]; simp [hlen]
    · simp [hlen]
  | take pc r hcall hpc hsw hmu hbox hs' => rw [hs']; simp [hlen]
  | sleep pc hcall hpc hsw hmu hbox hs' => rw [hs']; simp [hlen]
  | put r hcall hpc hs' => rw [hs']; simp [hlen]

end Biogo.PromiseCond
