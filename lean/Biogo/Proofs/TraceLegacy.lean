/-
The repair of K5 is conservative: on every input on which the layer-blind traceback (the
`switch` before the repair, `aware = false`) never takes a `case` of another layer — its ghost
flag stays `false` — the layer-aware traceback (`aware = true`) goes through exactly the same
states, so the three aligners return exactly the same pairs.  Core only.
-/
import Biogo.Proofs.TraceFaith

namespace Biogo.Proofs.TraceLegacy
open Biogo.Spec.Alignment Biogo.AlignAff Biogo.Proofs.TraceWF Biogo.Proofs.TraceFaith
open Biogo.Proofs.TraceSum

theorem find?_strengthen {α} {p p' : α → Bool} (himp : ∀ a, p' a = true → p a = true) :
    ∀ {l : List α} {x : α}, l.find? p = some x → p' x = true → l.find? p' = some x := by
  intro l
  induction l with
  | nil => intro x h; cases h
  | cons a t ih =>
    intro x h hx
    simp only [List.find?_cons] at h ⊢
    cases hpa : p a with
    | true =>
      rw [hpa] at h
      cases h
      rw [hx]
    | false =>
      rw [hpa] at h
      have : p' a = false := by
        cases hp' : p' a with
        | false => rfl
        | true => rw [himp a hp'] at hpa; cases hpa
      rw [this]
      exact ih h hx

theorem caseHit_weaken (T : Table) (st : TB) (v : Int) (cd : Kind × Kind × Int)
    (h : caseHit true T st v cd = true) : caseHit false T st v cd = true := by
  simp only [caseHit, Bool.and_eq_true, beq_iff_eq, Bool.not_true, Bool.false_or, Bool.not_false,
    Bool.true_or, true_and, decide_eq_true_eq] at h ⊢
  exact h.2

/-- once raised, the ghost flag stays raised -/
theorem loop_tie_mono (aware cross sw : Bool) (T : Table) (S : Matrix) (o : Int) (r q : List Nat) (R C : Nat) :
    ∀ (fuel : Nat) (st st' : TB), tbLoop aware cross sw T S o r q R C fuel st = .ok st' → st.tie = true →
      st'.tie = true := by
  intro fuel
  induction fuel with
  | zero => intro st st' hl ht; simp only [tbLoop] at hl; cases hl; exact ht
  | succ fuel ih =>
    intro st st' hl ht
    unfold tbLoop at hl
    by_cases h0 : st.i = 0 ∨ st.j = 0
    · rw [if_pos h0] at hl; cases hl; exact ht
    rw [if_neg h0] at hl
    simp only [] at hl
    cases hv : (T.at st.i st.j).get st.layer with
    | none => rw [hv] at hl; cases hl
    | some v =>
      rw [hv] at hl
      simp only [] at hl
      by_cases hsw : (sw = true ∧ v = 0)
      · rw [if_pos hsw] at hl; cases hl; exact ht
      rw [if_neg hsw] at hl
      cases hfind : (cands cross sw S o (r.getD (st.i - 1) 0) (q.getD (st.j - 1) 0)).find?
          (caseHit aware T st v) with
      | none => rw [hfind] at hl; cases hl
      | some cd =>
        obtain ⟨mv, pl, add⟩ := cd
        rw [hfind] at hl
        simp only [] at hl
        apply ih _ _ hl
        rw [move_tie, ht]; rfl

/-- a layer-blind traceback that never raises the flag is a layer-aware traceback -/
theorem loop_legacy_agree (cross sw : Bool) (T : Table) (S : Matrix) (o : Int) (r q : List Nat) (R C : Nat) :
    ∀ (fuel : Nat) (st st' : TB), tbLoop false cross sw T S o r q R C fuel st = .ok st' → st'.tie = false →
      tbLoop true cross sw T S o r q R C fuel st = .ok st' := by
  intro fuel
  induction fuel with
  | zero => intro st st' hl _; simp only [tbLoop] at hl ⊢; exact hl
  | succ fuel ih =>
    intro st st' hl ht
    unfold tbLoop at hl ⊢
    by_cases h0 : st.i = 0 ∨ st.j = 0
    · rw [if_pos h0] at hl ⊢; exact hl
    rw [if_neg h0] at hl ⊢
    simp only [] at hl ⊢
    cases hv : (T.at st.i st.j).get st.layer with
    | none => rw [hv] at hl; cases hl
    | some v =>
      rw [hv] at hl
      simp only [] at hl ⊢
      by_cases hsw : (sw = true ∧ v = 0)
      · rw [if_pos hsw] at hl ⊢; exact hl
      rw [if_neg hsw] at hl ⊢
      cases hfind : (cands cross sw S o (r.getD (st.i - 1) 0) (q.getD (st.j - 1) 0)).find?
          (caseHit false T st v) with
      | none => rw [hfind] at hl; cases hl
      | some cd =>
        obtain ⟨mv, pl, add⟩ := cd
        rw [hfind] at hl
        simp only [] at hl
        -- the step taken belongs to the current layer, or the flag would be raised for good
        have hlay : mv = st.layer := by
          cases hm : (st.move (decide (st.i = R ∧ st.j = C)) mv pl v
              (vget ((predOf T st.i st.j mv).get pl))).tie with
          | true => rw [loop_tie_mono false cross sw T S o r q R C _ _ _ hl hm] at ht; cases ht
          | false =>
            rw [move_tie] at hm
            simp only [Bool.or_eq_false_iff, decide_eq_false_iff_not, ne_eq, Decidable.not_not] at hm
            exact hm.2.symm
        have hhit : caseHit true T st v (mv, pl, add) = true := by
          have := caseHit_vadd (List.find?_some hfind)
          exact caseHit_of hlay this
        rw [find?_strengthen (caseHit_weaken T st v) hfind hhit]
        simp only []
        exact ih _ _ hl ht

/-- **The repair of K5 changes nothing else**: if the traceback before the repair returns
    `ps` without ever taking a `case` of another layer, the repaired traceback returns `ps`
    (all three affine aligners, every matrix, gap-open value and pair of sequences). -/
theorem alignT_legacy_agree (w : Which) (S : Matrix) (o : Int) (r q : List Nat) (ps : List Pair)
    (h : alignT false w S o r q = .ok (ps, false)) : alignT true w S o r q = .ok (ps, false) := by
  cases w with
  | nw =>
    simp only [alignT, nwAlignT] at h ⊢
    split at h
    · cases h
    · rename_i st hl
      have ht : st.tie = false := by split at h <;> exact (Prod.mk.inj (Except.ok.inj h)).2
      rw [loop_legacy_agree true false _ S o r q _ _ _ _ st hl ht]
      exact h
  | sw =>
    simp only [alignT, swAlignT] at h ⊢
    split at h
    · cases h
    · rename_i st hl
      have ht : st.tie = false := (Prod.mk.inj (Except.ok.inj h)).2
      rw [loop_legacy_agree true true _ S o r q _ _ _ _ st hl ht]
      exact h
  | fit =>
    simp only [alignT, fitAlignT] at h ⊢
    split at h
    · cases h
    · rename_i st hl
      have ht : st.tie = false := by split at h <;> exact (Prod.mk.inj (Except.ok.inj h)).2
      rw [loop_legacy_agree true false _ S o r q _ _ _ _ st hl ht]
      exact h

end Biogo.Proofs.TraceLegacy
