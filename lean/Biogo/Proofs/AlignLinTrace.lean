/-
Loop invariant of the traceback (`traceLoop`, shared by NW/Fitted and, with `loc = true`, SW):
the pairs emitted so far plus the pending block always form a chain of well-shaped pairs that
ends at the fixed end cell, every pair's score is the score recomputed from its columns, and
(pending score) + (scores emitted) + (table value of the current cell) is constant.  The
`default: panic` branch is never reached.
-/
import Biogo.Proofs.AlignLinBest

namespace Biogo.Proofs.AlignLin
open Biogo.Spec.Alignment Biogo.AlignLin Biogo.Spec.AlignPairs

/-- what the traceback needs to know about the table -/
structure TabOK (S : Matrix) (r q : List Nat) (tab : Array Int) (loc : Bool) (T : Nat → Nat → Int) : Prop where
  get : ∀ i j, i ≤ r.length → j ≤ q.length → tab.getD (i * (q.length + 1) + j) 0 = T i j
  size : tab.size = (r.length + 1) * (q.length + 1)
  recur : ∀ i j, i < r.length → j < q.length → (loc = true → T (i + 1) (j + 1) ≠ 0) →
    T (i + 1) (j + 1) = max3 (T i j + S (r.getD i 0) (q.getD j 0)) (T i (j + 1) + S (r.getD i 0) 0)
      (T (i + 1) j + S 0 (q.getD j 0))

/-! ### list and `cols` facts -/

theorem drop_take_cons (l : List Nat) (i M : Nat) (h1 : i < M) (h2 : M ≤ l.length) :
    (l.take M).drop i = l.getD i 0 :: (l.take M).drop (i + 1) := by
  have hlen : i < (l.take M).length := by simp; omega
  rw [List.drop_eq_getElem_cons hlen]
  have : i < l.length := by omega
  simp [List.getD, this]

theorem drop_take_self (l : List Nat) (M : Nat) : (l.take M).drop M = [] := by
  simp

theorem cols_diag (r q : List Nat) (i maxI j maxJ : Nat) (sc : Int)
    (h : maxI - i = maxJ - j) (hi : i ≤ maxI) (hj : j ≤ maxJ) :
    Pair.cols r q ⟨i, maxI, j, maxJ, sc⟩ =
      List.zipWith Col.m ((r.take maxI).drop i) ((q.take maxJ).drop j) := by
  simp only [Pair.cols]
  by_cases h1 : j = maxJ
  · have h2 : i = maxI := by omega
    subst h1; subst h2; simp
  · have h2 : i ≠ maxI := by omega
    rw [if_neg h1, if_neg h2]

theorem cols_up (r q : List Nat) (i maxI j : Nat) (sc : Int) :
    Pair.cols r q ⟨i, maxI, j, j, sc⟩ = ((r.take maxI).drop i).map Col.u := by
  simp [Pair.cols]

theorem cols_left (r q : List Nat) (i j maxJ : Nat) (sc : Int) :
    Pair.cols r q ⟨i, i, j, maxJ, sc⟩ = ((q.take maxJ).drop j).map Col.l := by
  by_cases h1 : j = maxJ
  · subst h1; simp [Pair.cols]
  · simp [Pair.cols, h1]

theorem cols_empty (r q : List Nat) (i j : Nat) (sc : Int) : Pair.cols r q ⟨i, i, j, j, sc⟩ = [] := by
  simp [Pair.cols]

theorem cols_score_irrel (r q : List Nat) (a b c d : Nat) (s s' : Int) :
    Pair.cols r q ⟨a, b, c, d, s⟩ = Pair.cols r q ⟨a, b, c, d, s'⟩ := rfl

/-! ### the invariant -/

def kindOK (k : Dir) (i j maxI maxJ : Nat) : Prop :=
  match k with
  | .diag => maxI - i = maxJ - j
  | .up => j = maxJ
  | .left => i = maxI

structure Inv (S : Matrix) (r q : List Nat) (T : Nat → Nat → Int) (E1 E2 : Nat) (K : Int)
    (i j : Nat) (last : Dir) (score : Int) (maxI maxJ : Nat) (acc : List Pair) : Prop where
  hi : i ≤ maxI
  hj : j ≤ maxJ
  hI : maxI ≤ r.length
  hJ : maxJ ≤ q.length
  kind : kindOK last i j maxI maxJ
  sc : score = scoreLin S (Pair.cols r q ⟨i, maxI, j, maxJ, 0⟩)
  chain : chainEnd maxI maxJ acc = some (E1, E2)
  accOK : pairScoresOk S r q acc = true
  tot : score + total acc + T i j = K

theorem chainEnd_cons_ok (p : Pair) (ps : List Pair) (h : p.okShape = true) :
    chainEnd p.a0 p.b0 (p :: ps) = chainEnd p.a1 p.b1 ps := by
  simp only [chainEnd, h, and_self, if_true]

theorem total_cons (p : Pair) (ps : List Pair) : total (p :: ps) = p.score + total ps := by
  simp [total]

theorem pairScoresOk_cons (S : Matrix) (r q : List Nat) (p : Pair) (ps : List Pair) :
    pairScoresOk S r q (p :: ps) = (decide (p.score = scoreLin S (p.cols r q)) && pairScoresOk S r q ps) := by
  simp [pairScoresOk]

/-- the pending block is always a well-shaped pair -/
theorem Inv.pending_ok {S r q T E1 E2 K i j last score maxI maxJ acc}
    (h : Inv S r q T E1 E2 K i j last score maxI maxJ acc) :
    (⟨i, maxI, j, maxJ, score⟩ : Pair).okShape = true := by
  have hk := h.kind
  have hsc := h.sc
  simp only [Pair.okShape, Bool.and_eq_true, Bool.or_eq_true, decide_eq_true_eq, Bool.not_eq_true',
    Bool.and_eq_false_iff, decide_eq_false_iff_not]
  refine ⟨⟨⟨h.hi, h.hj⟩, ?_⟩, ?_⟩
  · cases last <;> simp only [kindOK] at hk <;> omega
  · by_cases h1 : i = maxI
    · by_cases h2 : j = maxJ
      · subst h1; subst h2
        rw [cols_empty] at hsc
        right; simpa [scoreLin] using hsc
      · left; right; exact h2
    · left; left; exact h1

/-- emitting the pending block keeps chain, scores and total -/
theorem Inv.emit {S r q T E1 E2 K i j last score maxI maxJ acc}
    (h : Inv S r q T E1 E2 K i j last score maxI maxJ acc) :
    chainEnd i j (⟨i, maxI, j, maxJ, score⟩ :: acc) = some (E1, E2) ∧
    pairScoresOk S r q (⟨i, maxI, j, maxJ, score⟩ :: acc) = true ∧
    total (⟨i, maxI, j, maxJ, score⟩ :: acc) = score + total acc := by
  refine ⟨?_, ?_, total_cons _ _⟩
  · simp only [chainEnd, h.pending_ok, and_self, if_true, h.chain]
  · rw [pairScoresOk_cons, h.accOK]
    have := h.sc
    rw [cols_score_irrel r q i maxI j maxJ 0 score] at this
    simp only [Bool.and_true, decide_eq_true_eq]
    exact this

theorem step_diag {S r q T E1 E2 K i' j' last score maxI maxJ acc}
    (h : Inv S r q T E1 E2 K (i' + 1) (j' + 1) last score maxI maxJ acc) (cond : Bool)
    (hcond : cond = false → kindOK .diag (i' + 1) (j' + 1) maxI maxJ)
    (hT : T (i' + 1) (j' + 1) = T i' j' + S (r.getD i' 0) (q.getD j' 0)) :
    Inv S r q T E1 E2 K i' j' .diag
      ((emitIf cond (i' + 1) (j' + 1) score maxI maxJ acc).1 + (T (i' + 1) (j' + 1) - T i' j'))
      (emitIf cond (i' + 1) (j' + 1) score maxI maxJ acc).2.1
      (emitIf cond (i' + 1) (j' + 1) score maxI maxJ acc).2.2.1
      (emitIf cond (i' + 1) (j' + 1) score maxI maxJ acc).2.2.2 := by
  have hi := h.hi; have hj := h.hj; have hI := h.hI; have hJ := h.hJ
  cases cond with
  | true =>
    obtain ⟨e1, e2, e3⟩ := h.emit
    simp only [emitIf, if_true]
    refine ⟨by omega, by omega, by omega, by omega, by simp [kindOK], ?_, e1, e2, ?_⟩
    · rw [cols_diag r q i' (i' + 1) j' (j' + 1) 0 (by omega) (by omega) (by omega),
        drop_take_cons r i' (i' + 1) (by omega) (by omega), drop_take_cons q j' (j' + 1) (by omega) (by omega),
        drop_take_self, drop_take_self]
      simp only [List.zipWith_cons_cons, List.zipWith_nil_left, scoreLin, colScore, List.getD_eq_getElem?_getD] at hT ⊢
      omega
    · rw [e3]; have := h.tot; omega
  | false =>
    have hk := hcond rfl
    simp only [kindOK] at hk
    simp only [emitIf, Bool.false_eq_true, if_false]
    refine ⟨by omega, by omega, hI, hJ, by simp only [kindOK]; omega, ?_, h.chain, h.accOK, ?_⟩
    · have hsc := h.sc
      rw [cols_diag r q (i' + 1) maxI (j' + 1) maxJ 0 hk hi hj] at hsc
      rw [cols_diag r q i' maxI j' maxJ 0 (by omega) (by omega) (by omega),
        drop_take_cons r i' maxI (by omega) hI, drop_take_cons q j' maxJ (by omega) hJ]
      simp only [List.zipWith_cons_cons, scoreLin, colScore, List.getD_eq_getElem?_getD] at hsc hT ⊢; omega
    · have := h.tot; omega

theorem step_up {S r q T E1 E2 K i' j last score maxI maxJ acc}
    (h : Inv S r q T E1 E2 K (i' + 1) j last score maxI maxJ acc) (cond : Bool)
    (hcond : cond = false → kindOK .up (i' + 1) j maxI maxJ)
    (hT : T (i' + 1) j = T i' j + S (r.getD i' 0) 0) :
    Inv S r q T E1 E2 K i' j .up
      ((emitIf cond (i' + 1) j score maxI maxJ acc).1 + (T (i' + 1) j - T i' j))
      (emitIf cond (i' + 1) j score maxI maxJ acc).2.1
      (emitIf cond (i' + 1) j score maxI maxJ acc).2.2.1
      (emitIf cond (i' + 1) j score maxI maxJ acc).2.2.2 := by
  have hi := h.hi; have hj := h.hj; have hI := h.hI; have hJ := h.hJ
  cases cond with
  | true =>
    obtain ⟨e1, e2, e3⟩ := h.emit
    simp only [emitIf, if_true]
    refine ⟨by omega, by omega, by omega, by omega, by simp [kindOK], ?_, e1, e2, ?_⟩
    · rw [cols_up, drop_take_cons r i' (i' + 1) (by omega) (by omega), drop_take_self]
      simp only [List.map_cons, List.map_nil, scoreLin, colScore, List.getD_eq_getElem?_getD] at hT ⊢; omega
    · rw [e3]; have := h.tot; omega
  | false =>
    have hk := hcond rfl
    simp only [kindOK] at hk
    subst hk
    simp only [emitIf, Bool.false_eq_true, if_false]
    refine ⟨by omega, by omega, hI, hJ, by simp only [kindOK], ?_, h.chain, h.accOK, ?_⟩
    · have hsc := h.sc
      rw [cols_up] at hsc
      rw [cols_up, drop_take_cons r i' maxI (by omega) hI]
      simp only [List.map_cons, scoreLin, colScore, List.getD_eq_getElem?_getD] at hsc hT ⊢; omega
    · have := h.tot; omega

theorem step_left {S r q T E1 E2 K i j' last score maxI maxJ acc}
    (h : Inv S r q T E1 E2 K i (j' + 1) last score maxI maxJ acc) (cond : Bool)
    (hcond : cond = false → kindOK .left i (j' + 1) maxI maxJ)
    (hT : T i (j' + 1) = T i j' + S 0 (q.getD j' 0)) :
    Inv S r q T E1 E2 K i j' .left
      ((emitIf cond i (j' + 1) score maxI maxJ acc).1 + (T i (j' + 1) - T i j'))
      (emitIf cond i (j' + 1) score maxI maxJ acc).2.1
      (emitIf cond i (j' + 1) score maxI maxJ acc).2.2.1
      (emitIf cond i (j' + 1) score maxI maxJ acc).2.2.2 := by
  have hi := h.hi; have hj := h.hj; have hI := h.hI; have hJ := h.hJ
  cases cond with
  | true =>
    obtain ⟨e1, e2, e3⟩ := h.emit
    simp only [emitIf, if_true]
    refine ⟨by omega, by omega, by omega, by omega, by simp [kindOK], ?_, e1, e2, ?_⟩
    · rw [cols_left, drop_take_cons q j' (j' + 1) (by omega) (by omega), drop_take_self]
      simp only [List.map_cons, List.map_nil, scoreLin, colScore, List.getD_eq_getElem?_getD] at hT ⊢; omega
    · rw [e3]; have := h.tot; omega
  | false =>
    have hk := hcond rfl
    simp only [kindOK] at hk
    subst hk
    simp only [emitIf, Bool.false_eq_true, if_false]
    refine ⟨by omega, by omega, hI, hJ, by simp only [kindOK], ?_, h.chain, h.accOK, ?_⟩
    · have hsc := h.sc
      rw [cols_left] at hsc
      rw [cols_left, drop_take_cons q j' maxJ (by omega) hJ]
      simp only [List.map_cons, scoreLin, colScore, List.getD_eq_getElem?_getD] at hsc hT ⊢; omega
    · have := h.tot; omega

/-! ### index arithmetic of the flat table -/

theorem idx_diag (i j c : Nat) : (i + 1) * c + (j + 1) - c - 1 = i * c + j := by
  rw [Nat.succ_mul]; omega
theorem idx_up (i j c : Nat) : (i + 1) * c + (j + 1) - c = i * c + (j + 1) := by
  rw [Nat.succ_mul]; omega
theorem idx_pred (i j c : Nat) : i * c + (j + 1) - 1 = i * c + j := by
  omega
theorem idx_left (i j c : Nat) : (i + 1) * c + (j + 1) - 1 = (i + 1) * c + j := by
  omega

/-- `p == len(table)-1` only at the bottom-right corner -/
theorem corner (i j n m : Nat) (hi : i ≤ n) (hj : j ≤ m)
    (h : i * (m + 1) + j = (n + 1) * (m + 1) - 1) : i = n ∧ j = m := by
  obtain ⟨d, rfl⟩ : ∃ d, n = i + d := ⟨n - i, by omega⟩
  cases d with
  | zero => rw [Nat.succ_mul] at h; simp at h ⊢; omega
  | succ d =>
    exfalso
    have : (i + (d + 1) + 1) * (m + 1) = i * (m + 1) + (d + 1) * (m + 1) + (m + 1) := by
      rw [Nat.add_mul, Nat.add_mul]; simp
    rw [this] at h
    have : (d + 1) * (m + 1) ≥ m + 1 := Nat.le_mul_of_pos_left _ (by omega)
    omega

/-! ### the loop -/

theorem traceLoop_spec {S : Matrix} {r q : List Nat} {tab : Array Int} {loc : Bool} {T : Nat → Nat → Int}
    (hT : TabOK S r q tab loc T) (E1 E2 : Nat) (K : Int) :
    ∀ (fuel i j : Nat) (last : Dir) (score : Int) (maxI maxJ : Nat) (acc : List Pair),
    i + j ≤ fuel → Inv S r q T E1 E2 K i j last score maxI maxJ acc →
    ∃ o last', traceLoop S r q tab (q.length + 1) loc fuel i j last score maxI maxJ acc = some o ∧
      Inv S r q T E1 E2 K o.i o.j last' o.score o.maxI o.maxJ o.acc ∧
      (o.i = 0 ∨ o.j = 0 ∨ (loc = true ∧ T o.i o.j = 0)) := by
  intro fuel
  induction fuel with
  | zero =>
    intro i j last score maxI maxJ acc hf hinv
    have : i = 0 := by omega
    exact ⟨⟨i, j, score, maxI, maxJ, acc⟩, last, by simp [traceLoop], hinv, Or.inl this⟩
  | succ fuel ih =>
    intro i j last score maxI maxJ acc hf hinv
    by_cases hpos : i > 0 ∧ j > 0
    · obtain ⟨i', rfl⟩ : ∃ i', i = i' + 1 := ⟨i - 1, by omega⟩
      obtain ⟨j', rfl⟩ : ∃ j', j = j' + 1 := ⟨j - 1, by omega⟩
      have hi := hinv.hi; have hj := hinv.hj; have hI := hinv.hI; have hJ := hinv.hJ
      have g11 := hT.get (i' + 1) (j' + 1) (by omega) (by omega)
      have g00 := hT.get i' j' (by omega) (by omega)
      have g01 := hT.get i' (j' + 1) (by omega) (by omega)
      have g10 := hT.get (i' + 1) j' (by omega) (by omega)
      simp only [traceLoop, if_pos hpos, Nat.add_sub_cancel, idx_up, idx_left, idx_pred, g11, g00, g01, g10]
      by_cases hstop : loc = true ∧ T (i' + 1) (j' + 1) = 0
      · rw [if_pos hstop]
        exact ⟨_, last, rfl, hinv, Or.inr (Or.inr hstop)⟩
      · rw [if_neg hstop]
        have hrec := hT.recur i' j' (by omega) (by omega) (fun hl h0 => hstop ⟨hl, h0⟩)
        by_cases h1 : T (i' + 1) (j' + 1) = T i' j' + S (r.getD i' 0) (q.getD j' 0)
        · rw [if_pos h1]
          refine ih _ _ _ _ _ _ _ (by omega) ?_
          refine step_diag hinv _ ?_ h1
          intro hc
          have : last = .diag := by cases last <;> first | rfl | (exfalso; revert hc; decide)
          subst this; exact hinv.kind
        · rw [if_neg h1]
          by_cases h2 : T (i' + 1) (j' + 1) = T i' (j' + 1) + S (r.getD i' 0) 0
          · rw [if_pos h2]
            refine ih _ _ _ _ _ _ _ (by omega) ?_
            refine step_up hinv _ ?_ h2
            intro hc
            simp only [Bool.and_eq_false_iff, Bool.or_eq_false_iff, bne_eq_false_iff_eq] at hc
            rcases hc with hc | ⟨_, hc⟩
            · subst hc; exact hinv.kind
            · rw [hT.size] at hc
              obtain ⟨_, hjm⟩ := corner (i' + 1) (j' + 1) r.length q.length (by omega) (by omega) hc
              simp only [kindOK]; omega
          · rw [if_neg h2]
            by_cases h3 : T (i' + 1) (j' + 1) = T (i' + 1) j' + S 0 (q.getD j' 0)
            · rw [if_pos h3]
              refine ih _ _ _ _ _ _ _ (by omega) ?_
              refine step_left hinv _ ?_ h3
              intro hc
              simp only [Bool.and_eq_false_iff, Bool.or_eq_false_iff, bne_eq_false_iff_eq] at hc
              rcases hc with hc | ⟨_, hc⟩
              · subst hc; exact hinv.kind
              · rw [hT.size] at hc
                obtain ⟨him, _⟩ := corner (i' + 1) (j' + 1) r.length q.length (by omega) (by omega) hc
                simp only [kindOK]; omega
            · exfalso
              rcases max3_cases (T i' j' + S (r.getD i' 0) (q.getD j' 0)) (T i' (j' + 1) + S (r.getD i' 0) 0)
                (T (i' + 1) j' + S 0 (q.getD j' 0)) with h | h | h <;> rw [← hrec] at h
              · exact h1 h
              · exact h2 h
              · exact h3 h
    · simp only [traceLoop, if_neg hpos]
      exact ⟨_, last, rfl, hinv, by simp only; omega⟩

end Biogo.Proofs.AlignLin
