/-
GFF inline sequences (`##DNA id … ##end-DNA`): what the reader makes of the writer's text (C02).
-/
import Biogo.Proofs.FeatGffRound

namespace Biogo.Gff
open Biogo.BytesFeat Biogo.FeatIO

/-- a physical line of sequence data as written: `\\n##` followed by the letters -/
def pre (c : Bytes) : Bytes := 10 :: 35 :: 35 :: c

theorem seqBody_chunksAux (w : Nat) (letters : Bytes) (i : Nat) (cur : Bytes) (hcur : cur ≠ []) :
    pre cur ++ seqBody w letters i = ((chunksAux w letters i cur).map pre).flatten := by
  induction letters generalizing i cur with
  | nil =>
    have : cur.isEmpty = false := by cases cur <;> simp_all
    simp [seqBody, chunksAux, this]
  | cons c r ih =>
    have hce : cur.isEmpty = false := by cases cur <;> simp_all
    rw [seqBody, chunksAux]
    by_cases hm : i % w = 0
    · simp only [hm, beq_self_eq_true, if_true, hce, Bool.not_false, Bool.and_self, List.map_cons, List.flatten_cons]
      rw [← ih (i + 1) [c] (by simp)]
      simp [pre]
    · have : (i % w == 0) = false := beq_false_of_ne hm
      simp only [this, Bool.false_eq_true, if_false, Bool.false_and, List.nil_append]
      rw [← ih (i + 1) (cur ++ [c]) (by simp)]
      simp [pre]

/-- the letter loop of the FASTA writer prints the chunks, each preceded by `\\n##` -/
theorem seqBody_chunks (w : Nat) (letters : Bytes) :
    seqBody w letters 0 = ((chunks w letters).map pre).flatten := by
  cases letters with
  | nil => simp [seqBody, chunks, chunksAux]
  | cons c r =>
    rw [seqBody, chunks, chunksAux]
    simp only [Nat.zero_mod, beq_self_eq_true, if_true, List.isEmpty_nil, Bool.not_true, Bool.and_false,
      Bool.false_eq_true, if_false, List.nil_append, Nat.zero_add]
    rw [← seqBody_chunksAux w r 1 [c] (by simp)]
    simp [pre]

theorem chunksAux_flatten (w : Nat) (letters : Bytes) (i : Nat) (cur : Bytes) :
    (chunksAux w letters i cur).flatten = cur ++ letters := by
  induction letters generalizing i cur with
  | nil => simp only [chunksAux]; split <;> simp_all
  | cons c r ih =>
    rw [chunksAux]
    split
    · simp [ih]
    · simp [ih]

theorem chunks_flatten (w : Nat) (letters : Bytes) : (chunks w letters).flatten = letters := by
  simp [chunks, chunksAux_flatten]

theorem chunksAux_mem (w : Nat) (letters : Bytes) (i : Nat) (cur : Bytes) :
    ∀ c ∈ chunksAux w letters i cur, ∀ b ∈ c, b ∈ cur ∨ b ∈ letters := by
  induction letters generalizing i cur with
  | nil =>
    intro c hc b hb
    simp only [chunksAux] at hc
    split at hc
    · simp at hc
    · simp at hc; subst hc; left; exact hb
  | cons x r ih =>
    intro c hc b hb
    rw [chunksAux] at hc
    split at hc
    · rcases List.mem_cons.mp hc with rfl | hc
      · left; exact hb
      · rcases ih (i + 1) [x] c hc b hb with h | h
        · right; simp at h; simp [h]
        · right; simp [h]
    · rcases ih (i + 1) (cur ++ [x]) c hc b hb with h | h
      · rcases List.mem_append.mp h with h | h
        · left; exact h
        · right; simp at h; simp [h]
      · right; simp [h]

theorem chunks_mem (w : Nat) (letters : Bytes) : ∀ c ∈ chunks w letters, ∀ b ∈ c, b ∈ letters := by
  intro c hc b hb
  rcases chunksAux_mem w letters 0 [] c hc b hb with h | h
  · simp at h
  · exact h

/-- the lines of a text made of newline-terminated, otherwise newline-free lines -/
theorem lines_flatten (bodies : List Bytes) (h : ∀ b ∈ bodies, (10 : UInt8) ∉ b) :
    lines ((bodies.map (· ++ [10])).flatten) = bodies.map (· ++ [10]) := by
  induction bodies with
  | nil => simp [lines]
  | cons b bs ih =>
    simp only [List.map_cons, List.flatten_cons]
    have : b ++ [10] ++ (bs.map (· ++ [10])).flatten = b ++ 10 :: (bs.map (· ++ [10])).flatten := by simp
    rw [this, lines_append_line _ _ (h b (by simp)), ih (fun x hx => h x (List.mem_cons_of_mem _ hx))]

theorem removeSpaces_ascii (s : Bytes) (h : ∀ c ∈ s, c < 128 ∧ isAsciiSpace c = false) : removeSpaces s = s := by
  unfold removeSpaces
  induction s with
  | nil => rfl
  | cons a r ih =>
    have ha := h a (by simp)
    rw [removeSpacesAux, spaceLen_ascii_head a r ha.1 ha.2]
    simp only []
    rw [ih (fun c hc => h c (List.mem_cons_of_mem _ hc))]

theorem trimSpace_ascii (s : Bytes) (h : ∀ c ∈ s, c < 128 ∧ isAsciiSpace c = false) : trimSpace s = s := by
  cases s with
  | nil => simp [trimSpace, trimLeft, trimRight_nil]
  | cons a r =>
    apply trimSpace_of_trimmed
    have := ends_of_ascii (a :: r) (by simp) h
    simp [trimmed, this.1, this.2]

end Biogo.Gff

namespace Biogo.Gff
open Biogo.BytesFeat Biogo.FeatIO

theorem molName_facts (m : Nat) (hm : m ≤ 2) :
    parseMoltype (molName m) = (m : Int) ∧ isSeqKeyword (molName m) = true ∧
    (∀ c ∈ molName m, c < 128 ∧ isAsciiSpace c = false ∧ c ≠ 32 ∧ c ≠ 10) ∧
    (molName m == ofString "gff-version") = false ∧ (molName m == ofString "source-version") = false ∧
    (molName m == ofString "date") = false ∧ (molName m == ofString "Type") = false ∧
    (molName m == ofString "type") = false ∧ (molName m == ofString "sequence-region") = false := by
  have : m = 0 ∨ m = 1 ∨ m = 2 := by omega
  rcases this with rfl | rfl | rfl <;> decide

/-- the end marker line without `##` -/
def endMarker (m : Nat) : Bytes := ofString "end-" ++ molName m

theorem endMarker_ascii (m : Nat) (hm : m ≤ 2) : ∀ c ∈ endMarker m, c < 128 ∧ isAsciiSpace c = false := by
  have : m = 0 ∨ m = 1 ∨ m = 2 := by omega
  rcases this with rfl | rfl | rfl <;> decide

/-- `metaSeq` over the lines `##chunk … ##end-Mol` -/
theorem metaSeq_chunks (m : Nat) (hm : m ≤ 2) (id : Bytes) (cs : List Bytes) (rest : List Bytes) (st : St) (body : Bytes)
    (hcs : ∀ c ∈ cs, (∀ b ∈ c, b < 128 ∧ isAsciiSpace b = false) ∧ c ≠ endMarker m) :
    metaSeq (molName m) id (cs.map (fun c => 35 :: 35 :: c) ++ (35 :: 35 :: endMarker m) :: rest) st body =
      (.item (.sequence id m (body ++ cs.flatten)), rest, { st with line := st.line + cs.length + 1 }) := by
  induction cs generalizing st body with
  | nil =>
    simp only [List.map_nil, List.nil_append, List.flatten_nil, List.append_nil, List.length_nil, Nat.add_zero]
    rw [metaSeq]
    have h1 : (35 :: 35 :: endMarker m).isEmpty = false := rfl
    have h2 : ¬ ((35 :: 35 :: endMarker m).length < 2) := by simp
    have h3 : hasPrefix [35, 35] (35 :: 35 :: endMarker m) = true := by simp [hasPrefix]
    have h4 : trimSpace ((35 :: 35 :: endMarker m).drop 2) = endMarker m := by
      simp only [List.drop_succ_cons, List.drop_zero]
      exact trimSpace_ascii _ (endMarker_ascii m hm)
    have h5 : (endMarker m == ofString "end-" ++ molName m) = true := by simp [endMarker]
    have h6 := (molName_facts m hm).1
    have h7 : ((m : Int) == -1) = false := by
      apply beq_false_of_ne; omega
    simp only [h1, Bool.false_eq_true, if_false, h3, Bool.not_true, Bool.or_false, decide_eq_true_eq, h2, h4, h5,
      if_true, h6, h7]
  | cons c r ih =>
    obtain ⟨hc, hne⟩ := hcs c (by simp)
    simp only [List.map_cons, List.cons_append]
    rw [metaSeq]
    have h1 : (35 :: 35 :: c).isEmpty = false := rfl
    have h2 : ¬ ((35 :: 35 :: c).length < 2) := by simp
    have h3 : hasPrefix [35, 35] (35 :: 35 :: c) = true := by simp [hasPrefix]
    have h4 : trimSpace ((35 :: 35 :: c).drop 2) = c := by
      simp only [List.drop_succ_cons, List.drop_zero]
      exact trimSpace_ascii _ hc
    have h5 : (c == ofString "end-" ++ molName m) = false := by
      apply beq_false_of_ne; exact hne
    simp only [h1, Bool.false_eq_true, if_false, h3, Bool.not_true, Bool.or_false, decide_eq_true_eq, h2, h4, h5,
      removeSpaces_ascii c hc]
    rw [ih _ _ (fun x hx => hcs x (List.mem_cons_of_mem _ hx))]
    simp only [List.flatten_cons, List.append_assoc, List.length_cons]
    congr 2
    simp only [St.mk.injEq, and_true]
    omega

/-- the header line of an inline sequence, without terminator -/
def seqHeader (m : Nat) (id desc : Bytes) : Bytes :=
  35 :: 35 :: (molName m ++ 32 :: id ++ (if desc.isEmpty then [] else 32 :: desc))

theorem text_as_lines (X : Bytes) (cs : List Bytes) :
    X ++ (cs.map pre).flatten ++ [10] = ((X :: cs.map (fun c => 35 :: 35 :: c)).map (· ++ [10])).flatten := by
  induction cs generalizing X with
  | nil => simp
  | cons c r ih =>
    have := ih (35 :: 35 :: c)
    simp only [List.map_cons, List.flatten_cons, List.append_assoc] at this ⊢
    rw [← this]
    simp [pre]

/-- the text `Writer.Write(seq)` emits, as a list of newline-terminated lines -/
theorem writeSeq_lines (width m : Nat) (hm : m ≤ 2) (id desc letters : Bytes) (hl : letters ≠ []) :
    ∃ t, writeSeq width m id desc letters = .ok (t, t.length) ∧
      t = (((seqHeader m id desc :: (chunks width letters).map (fun c => 35 :: 35 :: c)) ++ [35 :: 35 :: endMarker m]).map
            (· ++ [10])).flatten := by
  have hle : letters.isEmpty = false := by cases letters <;> simp_all
  have hm' : ¬ (m > 2) := by omega
  refine ⟨_, by simp only [writeSeq, hle, Bool.false_eq_true, if_false, hm']; rfl, ?_⟩
  rw [seqBody_chunks]
  have h := text_as_lines (seqHeader m id desc) (chunks width letters)
  simp only [List.map_append, List.flatten_append, List.map_cons, List.map_nil, List.flatten_cons, List.flatten_nil,
    List.append_nil]
  simp only [List.map_cons, List.flatten_cons] at h
  rw [← h]
  simp [seqHeader, endMarker, ofString, List.append_assoc]

end Biogo.Gff

namespace Biogo.Gff
open Biogo.BytesFeat Biogo.FeatIO

theorem descOK_unpack {d : Bytes} (h : descOK d = true) : (10 : UInt8) ∉ d ∧ trimmed d = true := by
  simp only [descOK, Bool.and_eq_true, Bool.not_eq_true'] at h
  refine ⟨?_, h.2⟩
  intro hm; have := List.contains_iff_mem.mpr hm; rw [h.1] at this; cases this

theorem lettersOK_unpack {s : Bytes} (h : lettersOK s = true) :
    s ≠ [] ∧ ∀ c ∈ s, c < 128 ∧ isAsciiSpace c = false := by
  simp only [lettersOK, Bool.and_eq_true, Bool.not_eq_true', List.isEmpty_eq_false_iff, List.all_eq_true,
    decide_eq_true_eq] at h
  exact ⟨h.1, fun c hc => by simpa using h.2 c hc⟩

theorem seqHeader_facts (m : Nat) (hm : m ≤ 2) (id desc : Bytes) (hid : nameOK id = true) (hd : descOK desc = true) :
    (10 : UInt8) ∉ seqHeader m id desc ∧ trimSpace (seqHeader m id desc) = seqHeader m id desc := by
  obtain ⟨hidne, _, hidt⟩ := nameOK_unpack hid
  obtain ⟨hd10, hdt⟩ := descOK_unpack hd
  have hmol := (molName_facts m hm).2.2.1
  constructor
  · unfold seqHeader
    simp only [List.mem_cons, List.mem_append, not_or]
    refine ⟨by decide, by decide, ⟨fun h => (hmol 10 h).2.2.2 rfl, by decide, name_not_mem hid 10 (by decide)⟩, ?_⟩
    split
    · simp
    · simp only [List.mem_cons, not_or]; exact ⟨by decide, hd10⟩
  · apply trimSpace_of_trimmed
    have : seqHeader m id desc = (35 :: 35 :: molName m) ++ 32 :: (id ++ (if desc.isEmpty then [] else 32 :: desc)) := by
      simp [seqHeader]
    rw [this]
    apply trimmed_pair _ _ 32 (by simp) (by simp [hidne]) _ _ (by decide)
    · simp only [startsWithSpace, bne_eq_false_iff_eq]
      exact spaceLen_ascii_head 35 _ (by decide) (by decide)
    · split
      · simpa using (trimmed_unpack hidt).2
      · rename_i hde
        have hdne : desc ≠ [] := by intro e; rw [e] at hde; simp at hde
        exact endsWithSpace_append_ascii id desc 32 hdne (trimmed_unpack hdt).2 (by decide)

theorem seqHeader_step (o : Oracles) (md : Meta) (m : Nat) (hm : m ≤ 2) (id desc : Bytes) (hid : nameOK id = true) :
    commentMetaline o md ((seqHeader m id desc).drop 2) = .metaSeq (molName m) id := by
  obtain ⟨_, hkw, hmol, k1, k2, k3, k4, k5, k6⟩ := molName_facts m hm
  have h32 : (32 : UInt8) ∉ molName m := fun h => (hmol 32 h).2.2.1 rfl
  have hsplit : ∃ more, splitOn 32 ((seqHeader m id desc).drop 2) = molName m :: id :: more := by
    have hd : (seqHeader m id desc).drop 2 = molName m ++ 32 :: (id ++ (if desc.isEmpty then [] else 32 :: desc)) := by
      simp [seqHeader]
    rw [hd, splitOn_field 32 _ _ h32]
    split
    · exact ⟨[], by rw [List.append_nil, splitOn_nosep 32 id (name_not_mem hid 32 (by decide))]⟩
    · exact ⟨_, by rw [splitOn_field 32 id _ (name_not_mem hid 32 (by decide))]⟩
  obtain ⟨more, hs⟩ := hsplit
  unfold commentMetaline
  simp only [hs, k1, k2, k3, k4, k5, k6, hkw, Bool.false_eq_true, if_false, Bool.or_self, if_true]

/-- reading `[##gff-version 2\\n] ##Mol id [desc]\\n ##letters…\\n … ##end-Mol\\n` -/
theorem readAll_seq (o : Oracles) (width m : Nat) (hm : m ≤ 2) (id desc letters : Bytes) (hdr : Bool)
    (hid : nameOK id = true) (hd : descOK desc = true) (hl : lettersOK letters = true)
    (hend : noEndMarker width m letters = true) :
    ∃ t, writeSeq width m id desc letters = .ok (t, t.length) ∧
      (readAll o ((if hdr then headerText else []) ++ t)).1 = [.item (.sequence id m letters), .eof] := by
  obtain ⟨hlne, hlall⟩ := lettersOK_unpack hl
  obtain ⟨t, hw, ht⟩ := writeSeq_lines width m hm id desc letters hlne
  refine ⟨t, hw, ?_⟩
  obtain ⟨hH10, hHtrim⟩ := seqHeader_facts m hm id desc hid hd
  have hchunk : ∀ c ∈ chunks width letters, (∀ b ∈ c, b < 128 ∧ isAsciiSpace b = false) ∧ c ≠ endMarker m := by
    intro c hc
    refine ⟨fun b hb => hlall b (chunks_mem width letters c hc b hb), ?_⟩
    intro e
    simp only [noEndMarker, Bool.not_eq_true', endMarker] at hend e
    rw [e] at hc
    have := List.contains_iff_mem.mpr hc
    rw [hend] at this; cases this
  -- the lines after the header of the sequence
  let rest := (chunks width letters).map (fun c => 35 :: 35 :: c) ++ [35 :: 35 :: endMarker m]
  have hrest10 : ∀ b ∈ rest, (10 : UInt8) ∉ b := by
    intro b hb
    rcases List.mem_append.mp hb with hb | hb
    · obtain ⟨c, hc, rfl⟩ := List.mem_map.mp hb
      simp only [List.mem_cons, not_or]
      exact ⟨by decide, by decide, fun h => by have := ((hchunk c hc).1 10 h).2; simp [isAsciiSpace] at this⟩
    · simp at hb; subst hb
      simp only [List.mem_cons, not_or]
      exact ⟨by decide, by decide, fun h => by have := (endMarker_ascii m hm 10 h).2; simp [isAsciiSpace] at this⟩
  have hresttrim : rest.map trimSpace = rest := by
    have : ∀ b ∈ rest, trimSpace b = (fun x => x) b := by
      intro b hb
      show trimSpace b = b
      rcases List.mem_append.mp hb with hb | hb
      · obtain ⟨c, hc, rfl⟩ := List.mem_map.mp hb
        apply trimSpace_ascii
        intro x hx
        rcases List.mem_cons.mp hx with rfl | hx
        · decide
        · rcases List.mem_cons.mp hx with rfl | hx
          · decide
          · exact (hchunk c hc).1 x hx
      · simp at hb; subst hb
        apply trimSpace_ascii
        intro x hx
        rcases List.mem_cons.mp hx with rfl | hx
        · decide
        · rcases List.mem_cons.mp hx with rfl | hx
          · decide
          · exact endMarker_ascii m hm x hx
    rw [List.map_congr_left this]; simp
  have hread : ∀ st : St, read o (seqHeader m id desc :: rest) st =
      (.item (.sequence id m letters), [], { st with line := st.line + 1 + (chunks width letters).length + 1 }) := by
    intro st
    rw [read]
    have h1 : (seqHeader m id desc).isEmpty = false := rfl
    have h2 : hasPrefix [35, 35] (seqHeader m id desc) = true := by simp [seqHeader, hasPrefix]
    simp only [h1, h2, Bool.false_eq_true, if_false, if_true, seqHeader_step o _ m hm id desc hid]
    have := metaSeq_chunks m hm id (chunks width letters) [] { st with line := st.line + 1 } [] hchunk
    simp only [List.nil_append, chunks_flatten] at this
    exact this
  have htl : t = (((seqHeader m id desc :: rest)).map (· ++ [10])).flatten := ht
  cases hdr with
  | false =>
    simp only [Bool.false_eq_true, if_false, List.nil_append]
    unfold readAll trimmedLines
    rw [htl, lines_flatten _ (by
      intro b hb
      rcases List.mem_cons.mp hb with rfl | hb
      · exact hH10
      · exact hrest10 b hb)]
    simp only [List.map_map, List.map_cons]
    have hm1 : (trimSpace ∘ fun x => x ++ [10]) = trimSpace := by
      funext x; simp [trimSpace_append_nl]
    simp only [Function.comp_def, trimSpace_append_nl, hHtrim]
    have : List.map (fun x => trimSpace x) rest = rest := hresttrim
    rw [this]
    simp only [List.length_cons, readCalls, hread, read_nil]
  | true =>
    simp only [if_true]
    unfold readAll trimmedLines
    have : headerText ++ t = (((headerLine :: seqHeader m id desc :: rest)).map (· ++ [10])).flatten := by
      rw [htl, headerText_eq]; simp
    rw [this, lines_flatten _ (by
      intro b hb
      rcases List.mem_cons.mp hb with rfl | hb
      · exact headerLine_facts.1
      · rcases List.mem_cons.mp hb with rfl | hb
        · exact hH10
        · exact hrest10 b hb)]
    simp only [List.map_map, List.map_cons, Function.comp_def, trimSpace_append_nl, hHtrim, headerLine_facts.2]
    have : List.map (fun x => trimSpace x) rest = rest := hresttrim
    rw [this]
    have hhdr : ∀ st : St, read o (headerLine :: seqHeader m id desc :: rest) st =
        (.item (.sequence id m letters), [],
          { line := st.line + 1 + 1 + (chunks width letters).length + 1, md := { st.md with version := 2 } }) := by
      intro st
      rw [read]
      have h1 : headerLine.isEmpty = false := by decide
      have h2 : hasPrefix [35, 35] headerLine = true := by decide
      simp only [h1, h2, Bool.false_eq_true, if_false, if_true, header_step, hread]
    simp only [List.length_cons, readCalls, hhdr, read_nil]

end Biogo.Gff
