/-
One use cycle of the concurrent sorter model under every schedule and every single fault:
data invariant of the hand-off protocol, phases of the caller, and the link to the draining
lemmas of the sequential model.  Core Lean only.
-/
import Biogo.Model.MorassConc
import Biogo.Proofs.Morass
import Biogo.Proofs.MorassConc

namespace Biogo.MorassConc
open Biogo.Morass Biogo.Interleave

/-! ### the fault-aware operations against their fault-free counterparts -/

theorem clearLoop_nil (flt : Fault) (d : Nat) : clearLoop flt d [] = (flt, d, true) := rfl

/-- `Clear`: an I/O error, or exactly the sequential `clear` on the sorter's fields -/
theorem clearF_spec (s : CState) :
    ((clearF s).2 = .ioerr ∧ (clearF s).1.m = s.m) ∨ ((clearF s).2 = .ok ∧ (clearF s).1.m = clear s.m) := by
  unfold clearF
  cases clearLoop s.flt s.onDisk s.m.files with
  | mk flt rest =>
    obtain ⟨d, ok⟩ := rest
    cases ok
    · exact Or.inl ⟨rfl, rfl⟩
    · exact Or.inr ⟨rfl, rfl⟩

theorem clearF_nofiles {s : CState} (h : s.m.files = []) : (clearF s).1.m = clear s.m := by
  simp [clearF, h, clearLoop_nil]

theorem atEof_m (s : CState) : (atEof s).m = s.m := by
  unfold atEof; split <;> rfl

theorem eof_m (b : Bool) (s1 : CState) (h : s1.m.files = []) :
    (atEof (if b = true then (clearF s1).1 else s1)).m = (if b = true then clear s1.m else s1.m) := by
  rw [atEof_m]
  cases b
  · rfl
  · simp only [if_true]; exact clearF_nofiles h

/-- `Pull`: an I/O error, or exactly the sequential `pull` (when an in-memory cycle holds no files) -/
theorem pullF_spec (s : CState) (hfast : s.m.fast = true → s.m.files = []) :
    (pullF s).2.1 = .ioerr ∨ ((pullF s).1.m = (pull s.m).1 ∧ (pullF s).2 = (pull s.m).2) := by
  cases hf : s.m.fast
  · -- merge path
    cases hpm : popMin s.m.files with
    | none =>
      right
      have hfiles : s.m.files = [] := popMin_none hpm
      have e1 : pullF s = (atEof (if s.m.autoClear = true then (clearF s).1 else s), .eof, none) := by
        simp [pullF, hf, hpm]
      have e2 : pull s.m = (if s.m.autoClear = true then clear s.m else s.m, .eof, none) := by
        simp [pull, hf, hpm]
      rw [e1, e2]
      exact ⟨eof_m _ s hfiles, rfl⟩
    | some p =>
      obtain ⟨low, others⟩ := p
      cases ht : tick s.flt .pdecode with
      | mk bad flt =>
        cases bad
        · right
          cases hr : low.rest <;> cases hh : low.head <;> simp [pullF, pull, hf, hpm, ht, hr, hh]
        · left
          simp [pullF, hf, hpm, ht]
  · -- in-memory path
    have hfiles := hfast hf
    right
    cases hch : s.m.chunk with
    | none =>
      have e1 : pullF s = (atEof (if s.m.autoClear = true then (clearF s).1 else s), .eof, none) := by
        simp [pullF, hf, hch]
      have e2 : pull s.m = (if s.m.autoClear = true then clear s.m else s.m, .eof, none) := by
        simp [pull, hf, hch]
      rw [e1, e2]
      exact ⟨eof_m _ s hfiles, rfl⟩
    | some ch =>
      cases hg : ch[s.m.pos]? with
      | some e => simp [pullF, pull, hf, hch, hg]
      | none =>
        by_cases h2 : 2 ≤ s.m.pool
        · simp [pullF, pull, hf, hch, hg, h2]
        · have e1 : pullF s = (atEof (if s.m.autoClear = true
                then (clearF { s with m := { s.m with pool := s.m.pool + 1, chunk := none } }).1
                else { s with m := { s.m with pool := s.m.pool + 1, chunk := none } }), .eof, none) := by
            simp [pullF, hf, hch, hg, h2]
          have e2 : pull s.m = (if s.m.autoClear = true
                then clear { s.m with pool := s.m.pool + 1, chunk := none }
                else { s.m with pool := s.m.pool + 1, chunk := none }, .eof, none) := by
            simp [pull, hf, hch, hg, h2]
          rw [e1, e2]
          exact ⟨eof_m _ _ hfiles, rfl⟩

theorem primeAll_ok : ∀ (flt : Fault) (fs : List File), (primeAll flt fs).2.2 = true →
    (primeAll flt fs).2.1 = fs.map primeFile := by
  intro flt fs
  induction fs generalizing flt with
  | nil => intro _; rfl
  | cons f fs ih =>
    intro h
    simp only [primeAll] at h ⊢
    cases h1 : tick flt .seek with
    | mk bad1 flt1 =>
      simp only [h1] at h ⊢
      cases bad1
      · simp only [Bool.false_eq_true, if_false] at h ⊢
        cases h2 : tick flt1 .fdecode with
        | mk bad2 flt2 =>
          simp only [h2] at h ⊢
          cases bad2
          · simp only [Bool.false_eq_true, if_false] at h ⊢
            cases h3 : primeAll flt2 fs with
            | mk flt3 rest =>
              obtain ⟨fs', ok⟩ := rest
              simp only [h3] at h ⊢
              have := ih flt2 (by rw [h3]; exact h)
              rw [h3] at this
              simp only at this
              rw [this]; rfl
          · simp at h
      · simp at h

/-! ### list bookkeeping -/

theorem count_flatMap_cons {α β} [BEq β] (a : β) (x : α) (l : List α) (f : α → List β) :
    List.count a ((x :: l).flatMap f) = List.count a (f x) + List.count a (l.flatMap f) := by
  simp [List.flatMap_cons, List.count_append]

theorem count_flatMap_set {α β} [BEq β] (a : β) (f : α → List β) :
    ∀ (l : List α) (i : Nat) (w w' : α), l[i]? = some w →
      List.count a ((l.set i w').flatMap f) + List.count a (f w)
        = List.count a (l.flatMap f) + List.count a (f w') := by
  intro l
  induction l with
  | nil => intro i w w' h; simp at h
  | cons x xs ih =>
    intro i w w' h
    cases i with
    | zero =>
      simp only [List.getElem?_cons_zero, Option.some.injEq] at h
      subst h
      simp only [List.set_cons_zero, count_flatMap_cons]
      omega
    | succ i =>
      simp only [List.getElem?_cons_succ] at h
      simp only [List.set_cons_succ, count_flatMap_cons]
      have := ih i w w' h
      omega

theorem count_flatMap_modify {α β} [BEq β] (a : β) (f : α → List β) (g : α → α) :
    ∀ (l : List α) (i : Nat) (x : α), l[i]? = some x →
      List.count a ((l.modify i g).flatMap f) + List.count a (f x)
        = List.count a (l.flatMap f) + List.count a (f (g x)) := by
  intro l
  induction l with
  | nil => intro i x h; simp at h
  | cons y ys ih =>
    intro i x h
    cases i with
    | zero =>
      simp only [List.getElem?_cons_zero, Option.some.injEq] at h
      subst h
      simp only [List.modify_zero_cons, count_flatMap_cons]
      omega
    | succ i =>
      simp only [List.getElem?_cons_succ] at h
      simp only [List.modify_succ_cons, count_flatMap_cons]
      have := ih i x h
      omega

theorem count_sortRun (a : Elem) (r : List Elem) : List.count a (sortRun r) = List.count a r :=
  List.perm_iff_count.mp (sortRun_perm r) a

theorem getElem?_set_ne' {α} {l : List α} {i j : Nat} {a : α} (h : i ≠ j) : (l.set i a)[j]? = l[j]? := by
  rw [List.getElem?_set]; simp [h]

theorem getElem?_set_self' {α} {l : List α} {i : Nat} {a x : α} (h : l[i]? = some x) : (l.set i a)[i]? = some a := by
  rw [List.getElem?_set]
  have : i < l.length := (List.getElem?_eq_some_iff.mp h).1
  simp [this]

theorem mem_set_of_ne {α} {l : List α} {i j : Nat} {x y : α} (h : l[j]? = some x) (hne : i ≠ j) :
    x ∈ l.set i y :=
  List.mem_iff_getElem?.mpr ⟨j, by rw [getElem?_set_ne' hne]; exact h⟩

/-- an element of `l.set i y` is `y` itself, or sits in `l` at an index other than `i` -/
theorem of_getElem?_set {α} {l : List α} {i j : Nat} {y z : α} (h : (l.set i y)[j]? = some z) :
    (j = i ∧ z = y) ∨ (j ≠ i ∧ l[j]? = some z) := by
  by_cases hji : i = j
  · subst hji
    rw [List.getElem?_set] at h
    simp only [if_true] at h
    split at h
    · simp only [Option.some.injEq] at h; exact Or.inl ⟨rfl, h.symm⟩
    · simp at h
  · rw [getElem?_set_ne' hji] at h
    exact Or.inr ⟨fun e => hji e.symm, h⟩

/-! ### the data invariant of the hand-off protocol

`wb` = runs waiting in `writable`, `A` = the `write()` activations, `fs` = the registered run
files, `cp` = the caller's chunk, `xs` = the values pushed so far in the cycle. -/

structure DI (wb : List (List Elem)) (A : List Writer) (fs : List File) (cp xs : List Elem) : Prop where
  perm : ∀ a, List.count a cp + List.count a wb.flatten + List.count a (A.flatMap (·.todo))
            + List.count a (fs.flatMap (·.data)) = List.count a xs
  runsNe : ∀ r ∈ wb, r ≠ []
  todoNil : ∀ w ∈ A, w.pc ≠ .register → w.pc ≠ .encode → w.todo = []
  regOK : ∀ w ∈ A, w.pc = .register → Sorted w.todo ∧ w.todo ≠ []
  encOK : ∀ w ∈ A, w.pc = .encode → ∃ f, fs[w.file]? = some f ∧ Sorted (f.data ++ w.todo) ∧ w.todo ≠ []
  encUniq : ∀ (i j : Nat) (wi wj : Writer), A[i]? = some wi → A[j]? = some wj → wi.pc = .encode → wj.pc = .encode →
              wi.file = wj.file → i = j
  filesOK : ∀ f ∈ fs, Sorted f.data
  filesNe : ∀ (i : Nat) (f : File), fs[i]? = some f → f.data = [] → ∃ w ∈ A, w.pc = .encode ∧ w.file = i

theorem mem_of_getElem?' {α} {l : List α} {i : Nat} {x : α} (h : l[i]? = some x) : x ∈ l :=
  List.mem_iff_getElem?.mpr ⟨i, h⟩

/-- write.recv: the activation takes the oldest run and sorts it -/
theorem DI_recv {r : List Elem} {wb A fs cp xs} {i : Nat} {w : Writer}
    (h : DI (r :: wb) A fs cp xs) (hi : A[i]? = some w) (hpc : w.pc = .recv) (f : Nat) :
    DI wb (A.set i { w with pc := .register, todo := sortRun r, file := f }) fs cp xs := by
  have hw0 : w.todo = [] := h.todoNil w (mem_of_getElem?' hi) (by rw [hpc]; simp) (by rw [hpc]; simp)
  have hr : r ≠ [] := h.runsNe r (by simp)
  refine ⟨?_, fun r' hr' => h.runsNe r' (List.mem_cons_of_mem _ hr'), ?_, ?_, ?_, ?_, h.filesOK, ?_⟩
  · intro a
    have h1 := h.perm a
    have h2 := count_flatMap_set a (·.todo) A i w { w with pc := .register, todo := sortRun r, file := f } hi
    simp only [List.flatten_cons, List.count_append, hw0, List.count_nil, count_sortRun] at h1 h2
    omega
  · intro w0 hw0' h1 h2
    rcases List.mem_or_eq_of_mem_set hw0' with hm | rfl
    · exact h.todoNil w0 hm h1 h2
    · exact absurd rfl h1
  · intro w0 hw0' h1
    rcases List.mem_or_eq_of_mem_set hw0' with hm | rfl
    · exact h.regOK w0 hm h1
    · exact ⟨sortRun_sorted r, sortRun_ne_nil hr⟩
  · intro w0 hw0' h1
    rcases List.mem_or_eq_of_mem_set hw0' with hm | rfl
    · exact h.encOK w0 hm h1
    · simp at h1
  · intro a b wa wb' ha hb hpa hpb hf
    rcases of_getElem?_set ha with ⟨_, rfl⟩ | ⟨_, ha'⟩
    · simp at hpa
    · rcases of_getElem?_set hb with ⟨_, rfl⟩ | ⟨_, hb'⟩
      · simp at hpb
      · exact h.encUniq a b wa wb' ha' hb' hpa hpb hf
  · intro k fk hk hd
    obtain ⟨w0, hm, hp, hf⟩ := h.filesNe k fk hk hd
    obtain ⟨j, hj⟩ := List.mem_iff_getElem?.mp hm
    have hne : i ≠ j := by
      intro e; subst e; rw [hi] at hj; simp only [Option.some.injEq] at hj; subst hj; rw [hpc] at hp; simp at hp
    exact ⟨w0, mem_set_of_ne hj hne, hp, hf⟩

/-- write.register: the activation appends its (still empty) file to `m.files` -/
theorem DI_register {wb A fs cp xs} {i : Nat} {w : Writer}
    (h : DI wb A fs cp xs) (hi : A[i]? = some w) (hpc : w.pc = .register) :
    DI wb (A.set i { w with pc := .encode, file := fs.length }) (fs ++ [mkFile []]) cp xs := by
  obtain ⟨hsorted, hne⟩ := h.regOK w (mem_of_getElem?' hi) hpc
  have hlt : ∀ w0 ∈ A, w0.pc = .encode → w0.file < fs.length := by
    intro w0 hm hp
    obtain ⟨f, hf, _⟩ := h.encOK w0 hm hp
    exact (List.getElem?_eq_some_iff.mp hf).1
  refine ⟨?_, h.runsNe, ?_, ?_, ?_, ?_, ?_, ?_⟩
  · intro a
    have h1 := h.perm a
    have h2 := count_flatMap_set a (·.todo) A i w { w with pc := .encode, file := fs.length } hi
    simp only [List.flatMap_append, List.count_append, List.flatMap_cons, List.flatMap_nil, mkFile,
      List.count_nil, List.append_nil] at h1 h2 ⊢
    omega
  · intro w0 hw0' h1 h2
    rcases List.mem_or_eq_of_mem_set hw0' with hm | rfl
    · exact h.todoNil w0 hm h1 h2
    · exact absurd rfl h2
  · intro w0 hw0' h1
    rcases List.mem_or_eq_of_mem_set hw0' with hm | rfl
    · exact h.regOK w0 hm h1
    · simp at h1
  · intro w0 hw0' h1
    rcases List.mem_or_eq_of_mem_set hw0' with hm | rfl
    · obtain ⟨f, hf, hs, hn⟩ := h.encOK w0 hm h1
      refine ⟨f, ?_, hs, hn⟩
      rw [List.getElem?_append_left (List.getElem?_eq_some_iff.mp hf).1]; exact hf
    · refine ⟨mkFile [], ?_, ?_, hne⟩
      · simp
      · simpa [mkFile] using hsorted
  · intro a b wa wb' ha hb hpa hpb hf
    rcases of_getElem?_set ha with ⟨rfl, rfl⟩ | ⟨hai, ha'⟩
    · rcases of_getElem?_set hb with ⟨rfl, rfl⟩ | ⟨_, hb'⟩
      · rfl
      · have := hlt wb' (mem_of_getElem?' hb') hpb
        simp only at hf; omega
    · rcases of_getElem?_set hb with ⟨rfl, rfl⟩ | ⟨_, hb'⟩
      · have := hlt wa (mem_of_getElem?' ha') hpa
        simp only at hf; omega
      · exact h.encUniq a b wa wb' ha' hb' hpa hpb hf
  · intro f hf
    rcases List.mem_append.mp hf with hf | hf
    · exact h.filesOK f hf
    · simp only [List.mem_singleton] at hf; subst hf; simp [mkFile, Sorted]
  · intro k fk hk hd
    by_cases hklt : k < fs.length
    · rw [List.getElem?_append_left hklt] at hk
      obtain ⟨w0, hm, hp, hf⟩ := h.filesNe k fk hk hd
      obtain ⟨j, hj⟩ := List.mem_iff_getElem?.mp hm
      have hne' : i ≠ j := by
        intro e; subst e; rw [hi] at hj; simp only [Option.some.injEq] at hj; subst hj; rw [hpc] at hp; simp at hp
      exact ⟨w0, mem_set_of_ne hj hne', hp, hf⟩
    · have hk' : k = fs.length := by
        have := (List.getElem?_eq_some_iff.mp hk).1
        simp only [List.length_append, List.length_cons, List.length_nil] at this; omega
      refine ⟨{ w with pc := .encode, file := fs.length }, ?_, rfl, hk'.symm⟩
      exact List.mem_iff_getElem?.mpr ⟨i, getElem?_set_self' hi⟩

theorem sorted_append_left {l₁ l₂ : List Elem} (h : Sorted (l₁ ++ l₂)) : Sorted l₁ :=
  List.Pairwise.sublist (List.sublist_append_left l₁ l₂) h

/-- write.encode: the activation encodes the next element of its run into its own file -/
theorem DI_encode {wb A fs cp xs} {i : Nat} {w : Writer} {e : Elem} {t : List Elem}
    (h : DI wb A fs cp xs) (hi : A[i]? = some w) (hpc : w.pc = .encode) (htodo : w.todo = e :: t) :
    DI wb (A.set i { w with pc := if t.isEmpty then .sync else .encode, todo := t })
       (appendData fs w.file e) cp xs := by
  obtain ⟨f0, hf0, hs0, _⟩ := h.encOK w (mem_of_getElem?' hi) hpc
  rw [htodo] at hs0
  let g : File → File := fun f => { f with data := f.data ++ [e] }
  have hmod : ∀ k, (appendData fs w.file e)[k]? = (fun a => if w.file = k then g a else a) <$> fs[k]? := by
    intro k; exact List.getElem?_modify g w.file fs k
  have hother : ∀ w0 j, A[j]? = some w0 → j ≠ i → w0.pc = .encode → w0.file ≠ w.file := by
    intro w0 j hj hji hp hfile
    exact hji (h.encUniq j i w0 w hj hi hp hpc hfile)
  refine ⟨?_, h.runsNe, ?_, ?_, ?_, ?_, ?_, ?_⟩
  · intro a
    have h1 := h.perm a
    have h2 := count_flatMap_set a (·.todo) A i w { w with pc := if t.isEmpty then .sync else .encode, todo := t } hi
    have h3 := count_flatMap_modify a (·.data) g fs w.file f0 hf0
    simp only [htodo, List.count_cons, List.count_append, List.count_nil, g] at h1 h2 h3
    show _ + _ + _ + List.count a ((fs.modify w.file g).flatMap (·.data)) = _
    simp only [g]
    omega
  · intro w0 hw0' h1 h2
    rcases List.mem_or_eq_of_mem_set hw0' with hm | rfl
    · exact h.todoNil w0 hm h1 h2
    · simp only at h1 h2 ⊢
      cases t with
      | nil => rfl
      | cons _ _ => simp at h2
  · intro w0 hw0' h1
    rcases List.mem_or_eq_of_mem_set hw0' with hm | rfl
    · exact h.regOK w0 hm h1
    · simp only at h1; split at h1 <;> simp at h1
  · intro w0 hw0' h1
    obtain ⟨j, hj⟩ := List.mem_iff_getElem?.mp hw0'
    rcases of_getElem?_set hj with ⟨_, rfl⟩ | ⟨hji, hj'⟩
    · simp only at h1 ⊢
      have htne : t ≠ [] := by
        intro h0; rw [h0] at h1; simp at h1
      refine ⟨g f0, ?_, ?_, htne⟩
      · rw [hmod, hf0]; simp
      · simpa [g, List.append_assoc] using hs0
    · obtain ⟨f, hf, hs, hn⟩ := h.encOK w0 (mem_of_getElem?' hj') h1
      have hne := hother w0 j hj' hji h1
      refine ⟨f, ?_, hs, hn⟩
      rw [hmod, hf]
      have hne' : ¬ w.file = w0.file := fun e' => hne e'.symm
      simp [hne']
  · intro a b wa wb' ha hb hpa hpb hf
    have back : ∀ (k : Nat) (wk : Writer), (A.set i { w with pc := if t.isEmpty then WPc.sync else WPc.encode, todo := t })[k]? = some wk →
        wk.pc = .encode → ∃ wk' : Writer, A[k]? = some wk' ∧ wk'.pc = .encode ∧ wk'.file = wk.file := by
      intro k wk hk hp
      rcases of_getElem?_set hk with ⟨rfl, rfl⟩ | ⟨_, hk'⟩
      · exact ⟨w, hi, hpc, rfl⟩
      · exact ⟨wk, hk', hp, rfl⟩
    obtain ⟨wa', ha', hpa', hfa⟩ := back a wa ha hpa
    obtain ⟨wb'', hb', hpb', hfb⟩ := back b wb' hb hpb
    exact h.encUniq a b wa' wb'' ha' hb' hpa' hpb' (by rw [hfa, hfb]; exact hf)
  · intro f hf
    obtain ⟨k, hk⟩ := List.mem_iff_getElem?.mp hf
    rw [hmod] at hk
    cases hfk : fs[k]? with
    | none => rw [hfk] at hk; simp at hk
    | some a =>
      rw [hfk] at hk
      simp only [Option.map_eq_map, Option.map_some, Option.some.injEq] at hk
      by_cases hwk : w.file = k
      · simp only [hwk, if_true] at hk
        subst hk
        have : a = f0 := by rw [← hwk] at hfk; rw [hf0] at hfk; simpa using hfk.symm
        subst this
        have : Sorted ((a.data ++ [e]) ++ t) := by simpa [List.append_assoc] using hs0
        exact sorted_append_left this
      · simp only [hwk, if_false] at hk
        subst hk
        exact h.filesOK a (mem_of_getElem?' hfk)
  · intro k fk hk hd
    rw [hmod] at hk
    cases hfk : fs[k]? with
    | none => rw [hfk] at hk; simp at hk
    | some a =>
      rw [hfk] at hk
      simp only [Option.map_eq_map, Option.map_some, Option.some.injEq] at hk
      by_cases hwk : w.file = k
      · simp only [hwk, if_true] at hk
        subst hk
        simp [g] at hd
      · simp only [hwk, if_false] at hk
        subst hk
        obtain ⟨w0, hm, hp, hfile⟩ := h.filesNe k a hfk hd
        obtain ⟨j, hj⟩ := List.mem_iff_getElem?.mp hm
        have hne' : i ≠ j := by
          intro e'; subst e'
          rw [hi] at hj; simp only [Option.some.injEq] at hj; subst hj
          exact hwk hfile
        exact ⟨w0, mem_set_of_ne hj hne', hp, hfile⟩

/-- write.sync, write.return, and any other move that neither owns a run nor touches a file -/
theorem DI_pc {wb A fs cp xs} {i : Nat} {w w' : Writer}
    (h : DI wb A fs cp xs) (hi : A[i]? = some w) (h1 : w.pc ≠ .register) (h2 : w.pc ≠ .encode)
    (h1' : w'.pc ≠ .register) (h2' : w'.pc ≠ .encode) (ht : w'.todo = []) :
    DI wb (A.set i w') fs cp xs := by
  have hw0 : w.todo = [] := h.todoNil w (mem_of_getElem?' hi) h1 h2
  have keep : ∀ w0 j, A[j]? = some w0 → w0.pc = .encode → i ≠ j := by
    intro w0 j hj hp e; subst e; rw [hi] at hj; simp only [Option.some.injEq] at hj; subst hj; exact h2 hp
  refine ⟨?_, h.runsNe, ?_, ?_, ?_, ?_, h.filesOK, ?_⟩
  · intro a
    have h1 := h.perm a
    have h2 := count_flatMap_set a (·.todo) A i w w' hi
    simp only [hw0, ht, List.count_nil] at h2
    omega
  · intro w0 hw0' a b
    rcases List.mem_or_eq_of_mem_set hw0' with hm | rfl
    · exact h.todoNil w0 hm a b
    · exact ht
  · intro w0 hw0' a
    rcases List.mem_or_eq_of_mem_set hw0' with hm | rfl
    · exact h.regOK w0 hm a
    · exact absurd a h1'
  · intro w0 hw0' a
    rcases List.mem_or_eq_of_mem_set hw0' with hm | rfl
    · exact h.encOK w0 hm a
    · exact absurd a h2'
  · intro a b wa wb' ha hb hpa hpb hf
    rcases of_getElem?_set ha with ⟨_, rfl⟩ | ⟨_, ha'⟩
    · exact absurd hpa h2'
    · rcases of_getElem?_set hb with ⟨_, rfl⟩ | ⟨_, hb'⟩
      · exact absurd hpb h2'
      · exact h.encUniq a b wa wb' ha' hb' hpa hpb hf
  · intro k fk hk hd
    obtain ⟨w0, hm, hp, hfile⟩ := h.filesNe k fk hk hd
    obtain ⟨j, hj⟩ := List.mem_iff_getElem?.mp hm
    exact ⟨w0, mem_set_of_ne hj (keep w0 j hj hp), hp, hfile⟩

/-! ### caller moves -/

theorem DI_init : DI [] [] [] [] [] :=
  ⟨fun _ => by simp, by simp, by simp, by simp, by simp, by simp, by simp, by simp⟩

theorem DI_push {wb A fs cp xs} (h : DI wb A fs cp xs) (e : Elem) : DI wb A fs (cp ++ [e]) (xs ++ [e]) := by
  refine ⟨?_, h.runsNe, h.todoNil, h.regOK, h.encOK, h.encUniq, h.filesOK, h.filesNe⟩
  intro a
  have := h.perm a
  simp only [List.count_append]
  omega

/-- a fresh `write()` activation (about to receive its run) -/
def newWriter : Writer := { pc := .recv, todo := [], file := 0 }

theorem newWriter_eq : ({} : Writer) = newWriter := rfl

/-- `m.writable <- m.chunk` together with the start of a `write()` activation -/
theorem DI_send {wb A fs cp xs} (h : DI wb A fs cp xs) (hcp : cp ≠ []) :
    DI (wb ++ [cp]) (A ++ [newWriter]) fs [] xs := by
  have hlen : ∀ (k : Nat) (wk : Writer), (A ++ [newWriter])[k]? = some wk → wk.pc = .encode → A[k]? = some wk := by
    intro k wk hk hp
    by_cases hlt : k < A.length
    · rw [List.getElem?_append_left hlt] at hk; exact hk
    · rw [List.getElem?_append_right (by omega)] at hk
      cases hk' : k - A.length with
      | zero => rw [hk'] at hk; simp at hk; subst hk; simp [newWriter] at hp
      | succ m => rw [hk'] at hk; simp at hk
  refine ⟨?_, ?_, ?_, ?_, ?_, ?_, h.filesOK, ?_⟩
  · intro a
    have := h.perm a
    simp only [List.flatten_append, List.flatten_cons, List.flatten_nil, List.append_nil, List.count_append,
      List.flatMap_append, List.flatMap_cons, List.flatMap_nil, List.count_nil, newWriter]
    omega
  · intro r hr
    rcases List.mem_append.mp hr with hr | hr
    · exact h.runsNe r hr
    · simp only [List.mem_singleton] at hr; subst hr; exact hcp
  · intro w hw h1 h2
    rcases List.mem_append.mp hw with hw | hw
    · exact h.todoNil w hw h1 h2
    · simp only [List.mem_singleton] at hw; subst hw; rfl
  · intro w hw h1
    rcases List.mem_append.mp hw with hw | hw
    · exact h.regOK w hw h1
    · simp only [List.mem_singleton] at hw; subst hw; simp [newWriter] at h1
  · intro w hw h1
    rcases List.mem_append.mp hw with hw | hw
    · exact h.encOK w hw h1
    · simp only [List.mem_singleton] at hw; subst hw; simp [newWriter] at h1
  · intro a b wa wb' ha hb hpa hpb hf
    exact h.encUniq a b wa wb' (hlen a wa ha hpa) (hlen b wb' hb hpb) hpa hpb hf
  · intro k fk hk hd
    obtain ⟨w, hw, hp, hf⟩ := h.filesNe k fk hk hd
    exact ⟨w, List.mem_append_left _ hw, hp, hf⟩

/-- the caller's own `write()` has returned: it is no longer an activation -/
theorem DI_dropDone {wb A fs cp xs} {w : Writer} (h : DI wb (A ++ [w]) fs cp xs) (hd : w.pc = .done) :
    DI wb A fs cp xs := by
  have hw0 : w.todo = [] := h.todoNil w (by simp) (by rw [hd]; simp) (by rw [hd]; simp)
  refine ⟨?_, h.runsNe, fun w0 hw0' => h.todoNil w0 (List.mem_append_left _ hw0'),
          fun w0 hw0' => h.regOK w0 (List.mem_append_left _ hw0'),
          fun w0 hw0' => h.encOK w0 (List.mem_append_left _ hw0'), ?_, h.filesOK, ?_⟩
  · intro a
    have := h.perm a
    simp only [List.flatMap_append, List.flatMap_cons, List.flatMap_nil, hw0, List.append_nil] at this
    exact this
  · intro a b wa wb' ha hb hpa hpb hf
    have la : a < A.length := (List.getElem?_eq_some_iff.mp ha).1
    have lb : b < A.length := (List.getElem?_eq_some_iff.mp hb).1
    exact h.encUniq a b wa wb' (by rw [List.getElem?_append_left la]; exact ha)
      (by rw [List.getElem?_append_left lb]; exact hb) hpa hpb hf
  · intro k fk hk hdd
    obtain ⟨w0, hw0', hp, hf⟩ := h.filesNe k fk hk hdd
    rcases List.mem_append.mp hw0' with hm | hm
    · exact ⟨w0, hm, hp, hf⟩
    · simp only [List.mem_singleton] at hm; subst hm; rw [hd] at hp; simp at hp

/-! ### one block of a `write()` activation preserves the data invariant (when no fault fires) -/

theorem setErr_some (m : Morass.State) (e : Res) : (setErr m e).err = some e := rfl

theorem DI_wstep {s s' : CState} {A : List Writer} {i : Nat} {w w' : Writer} {cp xs : List Elem}
    (h : DI s.writable.buf A s.m.files cp xs) (hi : A[i]? = some w) (hw : wstep s w = some (w', s'))
    (he' : s'.m.err = none) : DI s'.writable.buf (A.set i w') s'.m.files cp xs := by
  have hmem := mem_of_getElem?' hi
  unfold wstep at hw
  cases hpc : w.pc <;> simp only [hpc] at hw
  · -- recv
    cases hr : s.writable.recv with
    | none => simp [hr] at hw
    | some p =>
      obtain ⟨r, ch⟩ := p
      obtain ⟨hb, _⟩ := Chan.recv_buf hr
      simp only [hr] at hw
      cases ht : tick s.flt .tempfile with
      | mk bad flt =>
        simp only [ht] at hw
        cases bad
        · simp only [Bool.false_eq_true, if_false, Option.some.injEq, Prod.mk.injEq] at hw
          obtain ⟨rfl, rfl⟩ := hw
          rw [hb] at h
          exact DI_recv h hi hpc w.file
        · simp only [if_true, Option.some.injEq, Prod.mk.injEq] at hw
          obtain ⟨rfl, rfl⟩ := hw
          simp [setErr] at he'
  · -- register
    simp only [Option.some.injEq, Prod.mk.injEq] at hw
    obtain ⟨rfl, rfl⟩ := hw
    obtain ⟨_, hne⟩ := h.regOK w hmem hpc
    have : w.todo.isEmpty = false := by cases hh : w.todo <;> simp_all
    simp only [this, Bool.false_eq_true, if_false]
    exact DI_register h hi hpc
  · -- encode
    cases htodo : w.todo with
    | nil =>
      obtain ⟨_, _, _, hne⟩ := h.encOK w hmem hpc
      exact absurd htodo hne
    | cons e t =>
      simp only [htodo] at hw
      cases ht : tick s.flt .encode with
      | mk bad flt =>
        simp only [ht] at hw
        cases bad
        · simp only [Bool.false_eq_true, if_false, Option.some.injEq, Prod.mk.injEq] at hw
          obtain ⟨rfl, rfl⟩ := hw
          exact DI_encode h hi hpc htodo
        · simp only [if_true, Option.some.injEq, Prod.mk.injEq] at hw
          obtain ⟨rfl, rfl⟩ := hw
          simp [setErr] at he'
  · -- sync
    cases ht : tick s.flt .sync with
    | mk bad flt =>
      simp only [ht, Option.some.injEq, Prod.mk.injEq] at hw
      obtain ⟨rfl, rfl⟩ := hw
      have hw0 : w.todo = [] := h.todoNil w hmem (by rw [hpc]; simp) (by rw [hpc]; simp)
      have hfiles : (if bad = true then setErr s.m Res.ioerr else s.m).files = s.m.files := by
        cases bad <;> rfl
      show DI s.writable.buf _ (if bad = true then setErr s.m Res.ioerr else s.m).files cp xs
      rw [hfiles]
      exact DI_pc h hi (by rw [hpc]; simp) (by rw [hpc]; simp) (by simp) (by simp) hw0
  · -- ret
    split at hw
    · simp only [Option.some.injEq, Prod.mk.injEq] at hw
      obtain ⟨rfl, rfl⟩ := hw
      have hw0 : w.todo = [] := h.todoNil w hmem (by rw [hpc]; simp) (by rw [hpc]; simp)
      exact DI_pc h hi (by rw [hpc]; simp) (by rw [hpc]; simp) (by simp) (by simp) hw0
    · simp at hw
  · simp at hw

end Biogo.MorassConc
