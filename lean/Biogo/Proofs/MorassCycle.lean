/-
One use cycle of the concurrent sorter model under every schedule and every single fault:
data invariant of the hand-off protocol, phases of the caller, and the link to the draining
lemmas of the sequential model.  Core Lean only.
-/
import Biogo.Model.MorassConc
import Biogo.Proofs.Morass
import Biogo.Proofs.MorassConc

namespace Biogo.MorassConc
open Biogo.Morass Biogo.Interleave

/-! ### the fault-aware operations against their fault-free counterparts -/

theorem clearLoop_nil (flt : Fault) (d : Nat) : clearLoop flt d [] = (flt, d, true) := rfl

/-- `Clear`: an I/O error, or exactly the sequential `clear` on the sorter's fields -/
theorem clearF_spec (s : CState) :
    ((clearF s).2 = .ioerr ∧ (clearF s).1.m = s.m) ∨ ((clearF s).2 = .ok ∧ (clearF s).1.m = clear s.m) := by
  unfold clearF
  cases clearLoop s.flt s.onDisk s.m.files with
  | mk flt rest =>
    obtain ⟨d, ok⟩ := rest
    cases ok
    · exact Or.inl ⟨rfl, rfl⟩
    · exact Or.inr ⟨rfl, rfl⟩

theorem clearF_nofiles {s : CState} (h : s.m.files = []) : (clearF s).1.m = clear s.m := by
  simp [clearF, h, clearLoop_nil]

theorem atEof_m (s : CState) : (atEof s).m = s.m := by
  unfold atEof; split <;> rfl

theorem eof_m (b : Bool) (s1 : CState) (h : s1.m.files = []) :
    (atEof (if b = true then (clearF s1).1 else s1)).m = (if b = true then clear s1.m else s1.m) := by
  rw [atEof_m]
  cases b
  · rfl
  · simp only [if_true]; exact clearF_nofiles h

/-- `Pull`: an I/O error, or exactly the sequential `pull` (when an in-memory cycle holds no files) -/
theorem pullF_spec (s : CState) (hfast : s.m.fast = true → s.m.files = []) :
    (pullF s).2.1 = .ioerr ∨ ((pullF s).1.m = (pull s.m).1 ∧ (pullF s).2 = (pull s.m).2) := by
  cases hf : s.m.fast
  · -- merge path
    cases hpm : popMin s.m.files with
    | none =>
      right
      have hfiles : s.m.files = [] := popMin_none hpm
      have e1 : pullF s = (atEof (if s.m.autoClear = true then (clearF s).1 else s), .eof, none) := by
        simp [pullF, hf, hpm]
      have e2 : pull s.m = (if s.m.autoClear = true then clear s.m else s.m, .eof, none) := by
        simp [pull, hf, hpm]
      rw [e1, e2]
      exact ⟨eof_m _ s hfiles, rfl⟩
    | some p =>
      obtain ⟨low, others⟩ := p
      cases ht : tick s.flt .pdecode with
      | mk bad flt =>
        cases bad
        · right
          cases hr : low.rest <;> cases hh : low.head <;> simp [pullF, pull, hf, hpm, ht, hr, hh]
        · left
          simp [pullF, hf, hpm, ht]
  · -- in-memory path
    have hfiles := hfast hf
    right
    cases hch : s.m.chunk with
    | none =>
      have e1 : pullF s = (atEof (if s.m.autoClear = true then (clearF s).1 else s), .eof, none) := by
        simp [pullF, hf, hch]
      have e2 : pull s.m = (if s.m.autoClear = true then clear s.m else s.m, .eof, none) := by
        simp [pull, hf, hch]
      rw [e1, e2]
      exact ⟨eof_m _ s hfiles, rfl⟩
    | some ch =>
      cases hg : ch[s.m.pos]? with
      | some e => simp [pullF, pull, hf, hch, hg]
      | none =>
        by_cases h2 : 2 ≤ s.m.pool
        · simp [pullF, pull, hf, hch, hg, h2]
        · have e1 : pullF s = (atEof (if s.m.autoClear = true
                then (clearF { s with m := { s.m with pool := s.m.pool + 1, chunk := none } }).1
                else { s with m := { s.m with pool := s.m.pool + 1, chunk := none } }), .eof, none) := by
            simp [pullF, hf, hch, hg, h2]
          have e2 : pull s.m = (if s.m.autoClear = true
                then clear { s.m with pool := s.m.pool + 1, chunk := none }
                else { s.m with pool := s.m.pool + 1, chunk := none }, .eof, none) := by
            simp [pull, hf, hch, hg, h2]
          rw [e1, e2]
          exact ⟨eof_m _ _ hfiles, rfl⟩

theorem primeAll_ok : ∀ (flt : Fault) (fs : List File), (primeAll flt fs).2.2 = true →
    (primeAll flt fs).2.1 = fs.map primeFile := by
  intro flt fs
  induction fs generalizing flt with
  | nil => intro _; rfl
  | cons f fs ih =>
    intro h
    simp only [primeAll] at h ⊢
    cases h1 : tick flt .seek with
    | mk bad1 flt1 =>
      simp only [h1] at h ⊢
      cases bad1
      · simp only [Bool.false_eq_true, if_false] at h ⊢
        cases h2 : tick flt1 .fdecode with
        | mk bad2 flt2 =>
          simp only [h2] at h ⊢
          cases bad2
          · simp only [Bool.false_eq_true, if_false] at h ⊢
            cases h3 : primeAll flt2 fs with
            | mk flt3 rest =>
              obtain ⟨fs', ok⟩ := rest
              simp only [h3] at h ⊢
              have := ih flt2 (by rw [h3]; exact h)
              rw [h3] at this
              simp only at this
              rw [this]; rfl
          · simp at h
      · simp at h

/-! ### list bookkeeping -/

theorem count_flatMap_cons {α β} [BEq β] (a : β) (x : α) (l : List α) (f : α → List β) :
    List.count a ((x :: l).flatMap f) = List.count a (f x) + List.count a (l.flatMap f) := by
  simp [List.flatMap_cons, List.count_append]

theorem count_flatMap_set {α β} [BEq β] (a : β) (f : α → List β) :
    ∀ (l : List α) (i : Nat) (w w' : α), l[i]? = some w →
      List.count a ((l.set i w').flatMap f) + List.count a (f w)
        = List.count a (l.flatMap f) + List.count a (f w') := by
  intro l
  induction l with
  | nil => intro i w w' h; simp at h
  | cons x xs ih =>
    intro i w w' h
    cases i with
    | zero =>
      simp only [List.getElem?_cons_zero, Option.some.injEq] at h
      subst h
      simp only [List.set_cons_zero, count_flatMap_cons]
      omega
    | succ i =>
      simp only [List.getElem?_cons_succ] at h
      simp only [List.set_cons_succ, count_flatMap_cons]
      have := ih i w w' h
      omega

theorem count_flatMap_modify {α β} [BEq β] (a : β) (f : α → List β) (g : α → α) :
    ∀ (l : List α) (i : Nat) (x : α), l[i]? = some x →
      List.count a ((l.modify i g).flatMap f) + List.count a (f x)
        = List.count a (l.flatMap f) + List.count a (f (g x)) := by
  intro l
  induction l with
  | nil => intro i x h; simp at h
  | cons y ys ih =>
    intro i x h
    cases i with
    | zero =>
      simp only [List.getElem?_cons_zero, Option.some.injEq] at h
      subst h
      simp only [List.modify_zero_cons, count_flatMap_cons]
      omega
    | succ i =>
      simp only [List.getElem?_cons_succ] at h
      simp only [List.modify_succ_cons, count_flatMap_cons]
      have := ih i x h
      omega

theorem count_sortRun (a : Elem) (r : List Elem) : List.count a (sortRun r) = List.count a r :=
  List.perm_iff_count.mp (sortRun_perm r) a

theorem getElem?_set_ne' {α} {l : List α} {i j : Nat} {a : α} (h : i ≠ j) : (l.set i a)[j]? = l[j]? := by
  rw [List.getElem?_set]; simp [h]

theorem getElem?_set_self' {α} {l : List α} {i : Nat} {a x : α} (h : l[i]? = some x) : (l.set i a)[i]? = some a := by
  rw [List.getElem?_set]
  have : i < l.length := (List.getElem?_eq_some_iff.mp h).1
  simp [this]

theorem mem_set_of_ne {α} {l : List α} {i j : Nat} {x y : α} (h : l[j]? = some x) (hne : i ≠ j) :
    x ∈ l.set i y :=
  List.mem_iff_getElem?.mpr ⟨j, by rw [getElem?_set_ne' hne]; exact h⟩

/-- an element of `l.set i y` is `y` itself, or sits in `l` at an index other than `i` -/
theorem of_getElem?_set {α} {l : List α} {i j : Nat} {y z : α} (h : (l.set i y)[j]? = some z) :
    (j = i ∧ z = y) ∨ (j ≠ i ∧ l[j]? = some z) := by
  by_cases hji : i = j
  · subst hji
    rw [List.getElem?_set] at h
    simp only [if_true] at h
    split at h
    · simp only [Option.some.injEq] at h; exact Or.inl ⟨rfl, h.symm⟩
    · simp at h
  · rw [getElem?_set_ne' hji] at h
    exact Or.inr ⟨fun e => hji e.symm, h⟩

/-! ### the data invariant of the hand-off protocol

`wb` = runs waiting in `writable`, `A` = the `write()` activations, `fs` = the registered run
files, `cp` = the caller's chunk, `xs` = the values pushed so far in the cycle. -/

structure DI (wb : List (List Elem)) (A : List Writer) (fs : List File) (cp xs : List Elem) : Prop where
  perm : ∀ a, List.count a cp + List.count a wb.flatten + List.count a (A.flatMap (·.todo))
            + List.count a (fs.flatMap (·.data)) = List.count a xs
  runsNe : ∀ r ∈ wb, r ≠ []
  todoNil : ∀ w ∈ A, w.pc ≠ .register → w.pc ≠ .encode → w.todo = []
  regOK : ∀ w ∈ A, w.pc = .register → Sorted w.todo ∧ w.todo ≠ []
  encOK : ∀ w ∈ A, w.pc = .encode → ∃ f, fs[w.file]? = some f ∧ Sorted (f.data ++ w.todo) ∧ w.todo ≠ []
  encUniq : ∀ (i j : Nat) (wi wj : Writer), A[i]? = some wi → A[j]? = some wj → wi.pc = .encode → wj.pc = .encode →
              wi.file = wj.file → i = j
  filesOK : ∀ f ∈ fs, Sorted f.data
  filesNe : ∀ (i : Nat) (f : File), fs[i]? = some f → f.data = [] → ∃ w ∈ A, w.pc = .encode ∧ w.file = i

theorem mem_of_getElem?' {α} {l : List α} {i : Nat} {x : α} (h : l[i]? = some x) : x ∈ l :=
  List.mem_iff_getElem?.mpr ⟨i, h⟩

/-- write.recv: the activation takes the oldest run and sorts it -/
theorem DI_recv {r : List Elem} {wb A fs cp xs} {i : Nat} {w : Writer}
    (h : DI (r :: wb) A fs cp xs) (hi : A[i]? = some w) (hpc : w.pc = .recv) (f : Nat) :
    DI wb (A.set i { w with pc := .register, todo := sortRun r, file := f }) fs cp xs := by
  have hw0 : w.todo = [] := h.todoNil w (mem_of_getElem?' hi) (by rw [hpc]; simp) (by rw [hpc]; simp)
  have hr : r ≠ [] := h.runsNe r (by simp)
  refine ⟨?_, fun r' hr' => h.runsNe r' (List.mem_cons_of_mem _ hr'), ?_, ?_, ?_, ?_, h.filesOK, ?_⟩
  · intro a
    have h1 := h.perm a
    have h2 := count_flatMap_set a (·.todo) A i w { w with pc := .register, todo := sortRun r, file := f } hi
    simp only [List.flatten_cons, List.count_append, hw0, List.count_nil, count_sortRun] at h1 h2
    omega
  · intro w0 hw0' h1 h2
    rcases List.mem_or_eq_of_mem_set hw0' with hm | rfl
    · exact h.todoNil w0 hm h1 h2
    · exact absurd rfl h1
  · intro w0 hw0' h1
    rcases List.mem_or_eq_of_mem_set hw0' with hm | rfl
    · exact h.regOK w0 hm h1
    · exact ⟨sortRun_sorted r, sortRun_ne_nil hr⟩
  · intro w0 hw0' h1
    rcases List.mem_or_eq_of_mem_set hw0' with hm | rfl
    · exact h.encOK w0 hm h1
    · simp at h1
  · intro a b wa wb' ha hb hpa hpb hf
    rcases of_getElem?_set ha with ⟨_, rfl⟩ | ⟨_, ha'⟩
    · simp at hpa
    · rcases of_getElem?_set hb with ⟨_, rfl⟩ | ⟨_, hb'⟩
      · simp at hpb
      · exact h.encUniq a b wa wb' ha' hb' hpa hpb hf
  · intro k fk hk hd
    obtain ⟨w0, hm, hp, hf⟩ := h.filesNe k fk hk hd
    obtain ⟨j, hj⟩ := List.mem_iff_getElem?.mp hm
    have hne : i ≠ j := by
      intro e; subst e; rw [hi] at hj; simp only [Option.some.injEq] at hj; subst hj; rw [hpc] at hp; simp at hp
    exact ⟨w0, mem_set_of_ne hj hne, hp, hf⟩

/-- write.register: the activation appends its (still empty) file to `m.files` -/
theorem DI_register {wb A fs cp xs} {i : Nat} {w : Writer}
    (h : DI wb A fs cp xs) (hi : A[i]? = some w) (hpc : w.pc = .register) :
    DI wb (A.set i { w with pc := .encode, file := fs.length }) (fs ++ [mkFile []]) cp xs := by
  obtain ⟨hsorted, hne⟩ := h.regOK w (mem_of_getElem?' hi) hpc
  have hlt : ∀ w0 ∈ A, w0.pc = .encode → w0.file < fs.length := by
    intro w0 hm hp
    obtain ⟨f, hf, _⟩ := h.encOK w0 hm hp
    exact (List.getElem?_eq_some_iff.mp hf).1
  refine ⟨?_, h.runsNe, ?_, ?_, ?_, ?_, ?_, ?_⟩
  · intro a
    have h1 := h.perm a
    have h2 := count_flatMap_set a (·.todo) A i w { w with pc := .encode, file := fs.length } hi
    simp only [List.flatMap_append, List.count_append, List.flatMap_cons, List.flatMap_nil, mkFile,
      List.count_nil, List.append_nil] at h1 h2 ⊢
    omega
  · intro w0 hw0' h1 h2
    rcases List.mem_or_eq_of_mem_set hw0' with hm | rfl
    · exact h.todoNil w0 hm h1 h2
    · exact absurd rfl h2
  · intro w0 hw0' h1
    rcases List.mem_or_eq_of_mem_set hw0' with hm | rfl
    · exact h.regOK w0 hm h1
    · simp at h1
  · intro w0 hw0' h1
    rcases List.mem_or_eq_of_mem_set hw0' with hm | rfl
    · obtain ⟨f, hf, hs, hn⟩ := h.encOK w0 hm h1
      refine ⟨f, ?_, hs, hn⟩
      rw [List.getElem?_append_left (List.getElem?_eq_some_iff.mp hf).1]; exact hf
    · refine ⟨mkFile [], ?_, ?_, hne⟩
      · simp
      · simpa [mkFile] using hsorted
  · intro a b wa wb' ha hb hpa hpb hf
    rcases of_getElem?_set ha with ⟨rfl, rfl⟩ | ⟨hai, ha'⟩
    · rcases of_getElem?_set hb with ⟨rfl, rfl⟩ | ⟨_, hb'⟩
      · rfl
      · have := hlt wb' (mem_of_getElem?' hb') hpb
        simp only at hf; omega
    · rcases of_getElem?_set hb with ⟨rfl, rfl⟩ | ⟨_, hb'⟩
      · have := hlt wa (mem_of_getElem?' ha') hpa
        simp only at hf; omega
      · exact h.encUniq a b wa wb' ha' hb' hpa hpb hf
  · intro f hf
    rcases List.mem_append.mp hf with hf | hf
    · exact h.filesOK f hf
    · simp only [List.mem_singleton] at hf; subst hf; simp [mkFile, Sorted]
  · intro k fk hk hd
    by_cases hklt : k < fs.length
    · rw [List.getElem?_append_left hklt] at hk
      obtain ⟨w0, hm, hp, hf⟩ := h.filesNe k fk hk hd
      obtain ⟨j, hj⟩ := List.mem_iff_getElem?.mp hm
      have hne' : i ≠ j := by
        intro e; subst e; rw [hi] at hj; simp only [Option.some.injEq] at hj; subst hj; rw [hpc] at hp; simp at hp
      exact ⟨w0, mem_set_of_ne hj hne', hp, hf⟩
    · have hk' : k = fs.length := by
        have := (List.getElem?_eq_some_iff.mp hk).1
        simp only [List.length_append, List.length_cons, List.length_nil] at this; omega
      refine ⟨{ w with pc := .encode, file := fs.length }, ?_, rfl, hk'.symm⟩
      exact List.mem_iff_getElem?.mpr ⟨i, getElem?_set_self' hi⟩

theorem sorted_append_left {l₁ l₂ : List Elem} (h : Sorted (l₁ ++ l₂)) : Sorted l₁ :=
  List.Pairwise.sublist (List.sublist_append_left l₁ l₂) h

/-- write.encode: the activation encodes the next element of its run into its own file -/
theorem DI_encode {wb A fs cp xs} {i : Nat} {w : Writer} {e : Elem} {t : List Elem}
    (h : DI wb A fs cp xs) (hi : A[i]? = some w) (hpc : w.pc = .encode) (htodo : w.todo = e :: t) :
    DI wb (A.set i { w with pc := if t.isEmpty then .sync else .encode, todo := t })
       (appendData fs w.file e) cp xs := by
  obtain ⟨f0, hf0, hs0, _⟩ := h.encOK w (mem_of_getElem?' hi) hpc
  rw [htodo] at hs0
  let g : File → File := fun f => { f with data := f.data ++ [e] }
  have hmod : ∀ k, (appendData fs w.file e)[k]? = (fun a => if w.file = k then g a else a) <$> fs[k]? := by
    intro k; exact List.getElem?_modify g w.file fs k
  have hother : ∀ w0 j, A[j]? = some w0 → j ≠ i → w0.pc = .encode → w0.file ≠ w.file := by
    intro w0 j hj hji hp hfile
    exact hji (h.encUniq j i w0 w hj hi hp hpc hfile)
  refine ⟨?_, h.runsNe, ?_, ?_, ?_, ?_, ?_, ?_⟩
  · intro a
    have h1 := h.perm a
    have h2 := count_flatMap_set a (·.todo) A i w { w with pc := if t.isEmpty then .sync else .encode, todo := t } hi
    have h3 := count_flatMap_modify a (·.data) g fs w.file f0 hf0
    simp only [htodo, List.count_cons, List.count_append, List.count_nil, g] at h1 h2 h3
    show _ + _ + _ + List.count a ((fs.modify w.file g).flatMap (·.data)) = _
    simp only [g]
    omega
  · intro w0 hw0' h1 h2
    rcases List.mem_or_eq_of_mem_set hw0' with hm | rfl
    · exact h.todoNil w0 hm h1 h2
    · simp only at h1 h2 ⊢
      cases t with
      | nil => rfl
      | cons _ _ => simp at h2
  · intro w0 hw0' h1
    rcases List.mem_or_eq_of_mem_set hw0' with hm | rfl
    · exact h.regOK w0 hm h1
    · simp only at h1; split at h1 <;> simp at h1
  · intro w0 hw0' h1
    obtain ⟨j, hj⟩ := List.mem_iff_getElem?.mp hw0'
    rcases of_getElem?_set hj with ⟨_, rfl⟩ | ⟨hji, hj'⟩
    · simp only at h1 ⊢
      have htne : t ≠ [] := by
        intro h0; rw [h0] at h1; simp at h1
      refine ⟨g f0, ?_, ?_, htne⟩
      · rw [hmod, hf0]; simp
      · simpa [g, List.append_assoc] using hs0
    · obtain ⟨f, hf, hs, hn⟩ := h.encOK w0 (mem_of_getElem?' hj') h1
      have hne := hother w0 j hj' hji h1
      refine ⟨f, ?_, hs, hn⟩
      rw [hmod, hf]
      have hne' : ¬ w.file = w0.file := fun e' => hne e'.symm
      simp [hne']
  · intro a b wa wb' ha hb hpa hpb hf
    have back : ∀ (k : Nat) (wk : Writer), (A.set i { w with pc := if t.isEmpty then WPc.sync else WPc.encode, todo := t })[k]? = some wk →
        wk.pc = .encode → ∃ wk' : Writer, A[k]? = some wk' ∧ wk'.pc = .encode ∧ wk'.file = wk.file := by
      intro k wk hk hp
      rcases of_getElem?_set hk with ⟨rfl, rfl⟩ | ⟨_, hk'⟩
      · exact ⟨w, hi, hpc, rfl⟩
      · exact ⟨wk, hk', hp, rfl⟩
    obtain ⟨wa', ha', hpa', hfa⟩ := back a wa ha hpa
    obtain ⟨wb'', hb', hpb', hfb⟩ := back b wb' hb hpb
    exact h.encUniq a b wa' wb'' ha' hb' hpa' hpb' (by rw [hfa, hfb]; exact hf)
  · intro f hf
    obtain ⟨k, hk⟩ := List.mem_iff_getElem?.mp hf
    rw [hmod] at hk
    cases hfk : fs[k]? with
    | none => rw [hfk] at hk; simp at hk
    | some a =>
      rw [hfk] at hk
      simp only [Option.map_eq_map, Option.map_some, Option.some.injEq] at hk
      by_cases hwk : w.file = k
      · simp only [hwk, if_true] at hk
        subst hk
        have : a = f0 := by rw [← hwk] at hfk; rw [hf0] at hfk; simpa using hfk.symm
        subst this
        have : Sorted ((a.data ++ [e]) ++ t) := by simpa [List.append_assoc] using hs0
        exact sorted_append_left this
      · simp only [hwk, if_false] at hk
        subst hk
        exact h.filesOK a (mem_of_getElem?' hfk)
  · intro k fk hk hd
    rw [hmod] at hk
    cases hfk : fs[k]? with
    | none => rw [hfk] at hk; simp at hk
    | some a =>
      rw [hfk] at hk
      simp only [Option.map_eq_map, Option.map_some, Option.some.injEq] at hk
      by_cases hwk : w.file = k
      · simp only [hwk, if_true] at hk
        subst hk
        simp [g] at hd
      · simp only [hwk, if_false] at hk
        subst hk
        obtain ⟨w0, hm, hp, hfile⟩ := h.filesNe k a hfk hd
        obtain ⟨j, hj⟩ := List.mem_iff_getElem?.mp hm
        have hne' : i ≠ j := by
          intro e'; subst e'
          rw [hi] at hj; simp only [Option.some.injEq] at hj; subst hj
          exact hwk hfile
        exact ⟨w0, mem_set_of_ne hj hne', hp, hfile⟩

/-- write.sync, write.return, and any other move that neither owns a run nor touches a file -/
theorem DI_pc {wb A fs cp xs} {i : Nat} {w w' : Writer}
    (h : DI wb A fs cp xs) (hi : A[i]? = some w) (h1 : w.pc ≠ .register) (h2 : w.pc ≠ .encode)
    (h1' : w'.pc ≠ .register) (h2' : w'.pc ≠ .encode) (ht : w'.todo = []) :
    DI wb (A.set i w') fs cp xs := by
  have hw0 : w.todo = [] := h.todoNil w (mem_of_getElem?' hi) h1 h2
  have keep : ∀ w0 j, A[j]? = some w0 → w0.pc = .encode → i ≠ j := by
    intro w0 j hj hp e; subst e; rw [hi] at hj; simp only [Option.some.injEq] at hj; subst hj; exact h2 hp
  refine ⟨?_, h.runsNe, ?_, ?_, ?_, ?_, h.filesOK, ?_⟩
  · intro a
    have h1 := h.perm a
    have h2 := count_flatMap_set a (·.todo) A i w w' hi
    simp only [hw0, ht, List.count_nil] at h2
    omega
  · intro w0 hw0' a b
    rcases List.mem_or_eq_of_mem_set hw0' with hm | rfl
    · exact h.todoNil w0 hm a b
    · exact ht
  · intro w0 hw0' a
    rcases List.mem_or_eq_of_mem_set hw0' with hm | rfl
    · exact h.regOK w0 hm a
    · exact absurd a h1'
  · intro w0 hw0' a
    rcases List.mem_or_eq_of_mem_set hw0' with hm | rfl
    · exact h.encOK w0 hm a
    · exact absurd a h2'
  · intro a b wa wb' ha hb hpa hpb hf
    rcases of_getElem?_set ha with ⟨_, rfl⟩ | ⟨_, ha'⟩
    · exact absurd hpa h2'
    · rcases of_getElem?_set hb with ⟨_, rfl⟩ | ⟨_, hb'⟩
      · exact absurd hpb h2'
      · exact h.encUniq a b wa wb' ha' hb' hpa hpb hf
  · intro k fk hk hd
    obtain ⟨w0, hm, hp, hfile⟩ := h.filesNe k fk hk hd
    obtain ⟨j, hj⟩ := List.mem_iff_getElem?.mp hm
    exact ⟨w0, mem_set_of_ne hj (keep w0 j hj hp), hp, hfile⟩

/-! ### caller moves -/

theorem DI_init : DI [] [] [] [] [] :=
  ⟨fun _ => by simp, by simp, by simp, by simp, by simp, by simp, by simp, by simp⟩

theorem DI_push {wb A fs cp xs} (h : DI wb A fs cp xs) (e : Elem) : DI wb A fs (cp ++ [e]) (xs ++ [e]) := by
  refine ⟨?_, h.runsNe, h.todoNil, h.regOK, h.encOK, h.encUniq, h.filesOK, h.filesNe⟩
  intro a
  have := h.perm a
  simp only [List.count_append]
  omega

/-- a fresh `write()` activation (about to receive its run) -/
def newWriter : Writer := { pc := .recv, todo := [], file := 0 }

theorem newWriter_eq : ({} : Writer) = newWriter := rfl

/-- `m.writable <- m.chunk` together with the start of a `write()` activation -/
theorem DI_send {wb A fs cp xs} (h : DI wb A fs cp xs) (hcp : cp ≠ []) :
    DI (wb ++ [cp]) (A ++ [newWriter]) fs [] xs := by
  have hlen : ∀ (k : Nat) (wk : Writer), (A ++ [newWriter])[k]? = some wk → wk.pc = .encode → A[k]? = some wk := by
    intro k wk hk hp
    by_cases hlt : k < A.length
    · rw [List.getElem?_append_left hlt] at hk; exact hk
    · rw [List.getElem?_append_right (by omega)] at hk
      cases hk' : k - A.length with
      | zero => rw [hk'] at hk; simp at hk; subst hk; simp [newWriter] at hp
      | succ m => rw [hk'] at hk; simp at hk
  refine ⟨?_, ?_, ?_, ?_, ?_, ?_, h.filesOK, ?_⟩
  · intro a
    have := h.perm a
    simp only [List.flatten_append, List.flatten_cons, List.flatten_nil, List.append_nil, List.count_append,
      List.flatMap_append, List.flatMap_cons, List.flatMap_nil, List.count_nil, newWriter]
    omega
  · intro r hr
    rcases List.mem_append.mp hr with hr | hr
    · exact h.runsNe r hr
    · simp only [List.mem_singleton] at hr; subst hr; exact hcp
  · intro w hw h1 h2
    rcases List.mem_append.mp hw with hw | hw
    · exact h.todoNil w hw h1 h2
    · simp only [List.mem_singleton] at hw; subst hw; rfl
  · intro w hw h1
    rcases List.mem_append.mp hw with hw | hw
    · exact h.regOK w hw h1
    · simp only [List.mem_singleton] at hw; subst hw; simp [newWriter] at h1
  · intro w hw h1
    rcases List.mem_append.mp hw with hw | hw
    · exact h.encOK w hw h1
    · simp only [List.mem_singleton] at hw; subst hw; simp [newWriter] at h1
  · intro a b wa wb' ha hb hpa hpb hf
    exact h.encUniq a b wa wb' (hlen a wa ha hpa) (hlen b wb' hb hpb) hpa hpb hf
  · intro k fk hk hd
    obtain ⟨w, hw, hp, hf⟩ := h.filesNe k fk hk hd
    exact ⟨w, List.mem_append_left _ hw, hp, hf⟩

/-- the caller's own `write()` has returned: it is no longer an activation -/
theorem DI_dropDone {wb A fs cp xs} {w : Writer} (h : DI wb (A ++ [w]) fs cp xs) (hd : w.pc = .done) :
    DI wb A fs cp xs := by
  have hw0 : w.todo = [] := h.todoNil w (by simp) (by rw [hd]; simp) (by rw [hd]; simp)
  refine ⟨?_, h.runsNe, fun w0 hw0' => h.todoNil w0 (List.mem_append_left _ hw0'),
          fun w0 hw0' => h.regOK w0 (List.mem_append_left _ hw0'),
          fun w0 hw0' => h.encOK w0 (List.mem_append_left _ hw0'), ?_, h.filesOK, ?_⟩
  · intro a
    have := h.perm a
    simp only [List.flatMap_append, List.flatMap_cons, List.flatMap_nil, hw0, List.append_nil] at this
    exact this
  · intro a b wa wb' ha hb hpa hpb hf
    have la : a < A.length := (List.getElem?_eq_some_iff.mp ha).1
    have lb : b < A.length := (List.getElem?_eq_some_iff.mp hb).1
    exact h.encUniq a b wa wb' (by rw [List.getElem?_append_left la]; exact ha)
      (by rw [List.getElem?_append_left lb]; exact hb) hpa hpb hf
  · intro k fk hk hdd
    obtain ⟨w0, hw0', hp, hf⟩ := h.filesNe k fk hk hdd
    rcases List.mem_append.mp hw0' with hm | hm
    · exact ⟨w0, hm, hp, hf⟩
    · simp only [List.mem_singleton] at hm; subst hm; rw [hd] at hp; simp at hp

/-! ### one block of a `write()` activation preserves the data invariant (when no fault fires) -/

theorem setErr_some (m : Morass.State) (e : Res) : (setErr m e).err = some e := rfl

theorem DI_wstep {s s' : CState} {A : List Writer} {i : Nat} {w w' : Writer} {cp xs : List Elem}
    (h : DI s.writable.buf A s.m.files cp xs) (hi : A[i]? = some w) (hw : wstep s w = some (w', s'))
    (he' : s'.m.err = none) : DI s'.writable.buf (A.set i w') s'.m.files cp xs := by
  have hmem := mem_of_getElem?' hi
  unfold wstep at hw
  cases hpc : w.pc <;> simp only [hpc] at hw
  · -- recv
    cases hr : s.writable.recv with
    | none => simp [hr] at hw
    | some p =>
      obtain ⟨r, ch⟩ := p
      obtain ⟨hb, _⟩ := Chan.recv_buf hr
      simp only [hr] at hw
      cases ht : tick s.flt .tempfile with
      | mk bad flt =>
        simp only [ht] at hw
        cases bad
        · simp only [Bool.false_eq_true, if_false, Option.some.injEq, Prod.mk.injEq] at hw
          obtain ⟨rfl, rfl⟩ := hw
          rw [hb] at h
          exact DI_recv h hi hpc w.file
        · simp only [if_true, Option.some.injEq, Prod.mk.injEq] at hw
          obtain ⟨rfl, rfl⟩ := hw
          simp [setErr] at he'
  · -- register
    simp only [Option.some.injEq, Prod.mk.injEq] at hw
    obtain ⟨rfl, rfl⟩ := hw
    obtain ⟨_, hne⟩ := h.regOK w hmem hpc
    have : w.todo.isEmpty = false := by cases hh : w.todo <;> simp_all
    simp only [this, Bool.false_eq_true, if_false]
    exact DI_register h hi hpc
  · -- encode
    cases htodo : w.todo with
    | nil =>
      obtain ⟨_, _, _, hne⟩ := h.encOK w hmem hpc
      exact absurd htodo hne
    | cons e t =>
      simp only [htodo] at hw
      cases ht : tick s.flt .encode with
      | mk bad flt =>
        simp only [ht] at hw
        cases bad
        · simp only [Bool.false_eq_true, if_false, Option.some.injEq, Prod.mk.injEq] at hw
          obtain ⟨rfl, rfl⟩ := hw
          exact DI_encode h hi hpc htodo
        · simp only [if_true, Option.some.injEq, Prod.mk.injEq] at hw
          obtain ⟨rfl, rfl⟩ := hw
          simp [setErr] at he'
  · -- sync
    cases ht : tick s.flt .sync with
    | mk bad flt =>
      simp only [ht, Option.some.injEq, Prod.mk.injEq] at hw
      obtain ⟨rfl, rfl⟩ := hw
      have hw0 : w.todo = [] := h.todoNil w hmem (by rw [hpc]; simp) (by rw [hpc]; simp)
      have hfiles : (if bad = true then setErr s.m Res.ioerr else s.m).files = s.m.files := by
        cases bad <;> rfl
      show DI s.writable.buf _ (if bad = true then setErr s.m Res.ioerr else s.m).files cp xs
      rw [hfiles]
      exact DI_pc h hi (by rw [hpc]; simp) (by rw [hpc]; simp) (by simp) (by simp) hw0
  · -- ret
    split at hw
    · simp only [Option.some.injEq, Prod.mk.injEq] at hw
      obtain ⟨rfl, rfl⟩ := hw
      have hw0 : w.todo = [] := h.todoNil w hmem (by rw [hpc]; simp) (by rw [hpc]; simp)
      exact DI_pc h hi (by rw [hpc]; simp) (by rw [hpc]; simp) (by simp) (by simp) hw0
    · simp at hw
  · simp at hw

/-! ### phases of one use cycle -/

def tailOps (cy : Cycle) : List Op :=
  List.replicate cy.pulls Op.pull ++ (if cy.clear then [Op.clear] else [])

theorem cycle_ops_eq (cy : Cycle) : cy.ops = cy.pushes.map Op.push ++ Op.finalise :: tailOps cy := rfl

def acts (s : CState) : List Writer := s.writers ++ (if s.pc = .finWrite then [s.inl] else [])

def pushOuts (k : Nat) : List Out := (List.range k).map (fun i => (⟨.ok, none, i + 1, i + 1⟩ : Out))

theorem pushOuts_succ (k : Nat) : pushOuts (k + 1) = pushOuts k ++ [⟨.ok, none, k + 1, k + 1⟩] := by
  simp [pushOuts, List.range_succ]

/-- outputs of the successful pulls: the j-th delivers `ds[j]`, `Len` = n, `Pos` = j+1 -/
def dOuts (n : Nat) : Nat → List Elem → List Out
  | _, [] => []
  | j, d :: ds => ⟨.ok, some d, n, j + 1⟩ :: dOuts n (j + 1) ds

theorem dOuts_append (n : Nat) (ds : List Elem) (d : Elem) : ∀ j,
    dOuts n j (ds ++ [d]) = dOuts n j ds ++ [⟨.ok, some d, n, j + ds.length + 1⟩] := by
  induction ds with
  | nil => intro j; simp [dOuts]
  | cons x xs ih =>
    intro j
    simp only [List.cons_append, dOuts, List.length_cons, ih (j + 1)]
    have : j + 1 + xs.length + 1 = j + (xs.length + 1) + 1 := by omega
    rw [this]

/-- the pulls of `specCycle` for `ys = ds ++ rs` when `ds` were delivered and then `e` times io.EOF -/
theorem spec_pulls (ac : Bool) (n : Nat) (ds rs : List Elem) (e : Nat) (he : 0 < e → rs = []) : ∀ j,
    (List.range' j (ds.length + e)).map (fun i =>
        match (ds ++ rs)[i - j]? with
        | some v => (⟨.ok, some v, n, i + 1⟩ : Out)
        | none => ⟨.eof, none, if ac then 0 else n, if ac then 0 else n⟩)
      = dOuts n j ds ++ List.replicate e (eofOut ac n) := by
  induction ds with
  | nil =>
    intro j
    simp only [List.length_nil, Nat.zero_add, List.nil_append, dOuts]
    cases e with
    | zero => simp
    | succ e' =>
      have hrs := he (Nat.succ_pos _)
      subst hrs
      simp [eofOut, List.map_const']
  | cons d ds ih =>
    intro j
    have hlen : (d :: ds).length + e = (ds.length + e) + 1 := by simp; omega
    rw [hlen, List.range'_succ]
    simp only [List.map_cons, Nat.sub_self, List.cons_append, List.getElem?_cons_zero, dOuts]
    congr 1
    rw [← ih (j + 1)]
    apply List.map_congr_left
    intro i hi
    have hij : j + 1 ≤ i := (List.mem_range'_1.mp hi).1
    have : i - j = (i - (j + 1)) + 1 := by omega
    rw [this, List.getElem?_cons_succ]

theorem final_outs (ac : Bool) (cy : Cycle) (ds rs : List Elem) (e : Nat)
    (hlen : ds.length + e = cy.pulls) (he : 0 < e → rs = []) :
    pushOuts cy.pushes.length ++ (⟨.ok, none, cy.pushes.length, 0⟩ ::
        (dOuts cy.pushes.length 0 ds ++ List.replicate e (eofOut ac cy.pushes.length)
          ++ (if cy.clear then [(⟨.ok, none, 0, 0⟩ : Out)] else [])))
      = specCycle ac (ds ++ rs) cy := by
  unfold specCycle pushOuts
  simp only
  congr 2
  rw [← hlen, List.range_eq_range', ← spec_pulls ac cy.pushes.length ds rs e he 0]
  simp
  intro a _; rfl

variable (c : Nat) (ac : Bool) (cy : Cycle)

/-- an I/O error has been returned to the caller -/
def Reported (s : CState) : Prop := ∃ o ∈ s.outs, o.res = .ioerr

/-- a writer has recorded an error that the caller has not yet seen; it is still inside the
    filling part of the cycle, where every call checks the error slot before it returns -/
def Pending (s : CState) : Prop :=
  s.m.err = some .ioerr ∧ ((∃ e rest, s.prog = Op.push e :: rest) ∨ (∃ rest, s.prog = Op.finalise :: rest))

/-- filling: `xs` pushed so far, `todo` still to push, `ch` = the slice `m.chunk` refers to,
    `cp` = the part of it the caller still owns -/
structure PhaseF (s : CState) (xs todo ch cp : List Elem) : Prop where
  split : cy.pushes = xs ++ todo
  prog : s.prog = todo.map Op.push ++ Op.finalise :: tailOps cy
  outs : s.outs.reverse = pushOuts xs.length
  pos : s.m.pos = xs.length
  len : s.m.len = xs.length
  cs : s.m.chunkSize = c
  ac : s.m.autoClear = ac
  chunk : s.m.chunk = some ch
  chLe : ch.length ≤ c
  empty : s.writers = [] → s.m.files = [] ∧ s.writable.buf = []
  di : DI s.writable.buf s.writers s.m.files cp xs
  at_ : (s.pc = .idle ∧ cp = ch ∧ xs.length = s.writers.length * c + ch.length ∧ (s.writers ≠ [] → ch ≠ []))
      ∨ (s.pc = .pushSend ∧ cp = ch ∧ ch.length = c ∧ xs.length = s.writers.length * c + c)
      ∨ (s.pc = .pushRecv ∧ cp = [] ∧ xs.length = s.writers.length * c ∧ s.writers ≠ [])

/-- inside a spilling `Finalise`; `A` = the `write()` activations, `cp` = the caller's chunk -/
structure PhaseZ (s : CState) (A : List Writer) (cp : List Elem) : Prop where
  prog : s.prog = Op.finalise :: tailOps cy
  outs : s.outs.reverse = pushOuts cy.pushes.length
  pos : s.m.pos = cy.pushes.length
  len : s.m.len = cy.pushes.length
  cs : s.m.chunkSize = c
  ac : s.m.autoClear = ac
  fast : s.m.fast = false
  di : DI s.writable.buf A s.m.files cp cy.pushes
  at_ : (s.pc = .finSend ∧ A = s.writers ∧ s.m.chunk = some cp ∧ cp ≠ [])
      ∨ (s.pc = .finWrite ∧ A = s.writers ++ [s.inl] ∧ s.m.chunk = none ∧ cp = [])
      ∨ (s.pc = .finWait ∧ A = s.writers ∧ s.m.chunk = none ∧ cp = [] ∧ 1 ≤ s.m.pool)

/-- after `Finalise`: `ds` delivered, then `e` times io.EOF, `k` pulls still to make -/
structure PhaseD (s : CState) : Prop where
  pc : s.pc = .idle
  quiet : ∀ w ∈ s.writers, w.pc = .done
  ex : ∃ (ds : List Elem) (e k : Nat),
    s.prog = List.replicate k Op.pull ++ (if cy.clear then [Op.clear] else []) ∧
    ds.length + e + k = cy.pulls ∧
    s.outs.reverse = pushOuts cy.pushes.length ++ (⟨.ok, none, cy.pushes.length, 0⟩ ::
        (dOuts cy.pushes.length 0 ds ++ List.replicate e (eofOut ac cy.pushes.length))) ∧
    Sorted ds ∧
    ((e = 0 ∧ Draining c ac 1 s.m cy.pushes.length ∧ (ds ++ remaining s.m).Perm cy.pushes
        ∧ (∀ d ∈ ds, ∀ r ∈ remaining s.m, d.key ≤ r.key) ∧ s.m.pos = ds.length)
     ∨ (0 < e ∧ AtEof c ac 1 s.m cy.pushes.length ∧ ds.Perm cy.pushes ∧ (ac = true → Fresh c ac 1 s.m)))

/-- the outputs of the whole cycle are those the property demands -/
def Final (s : CState) : Prop := ∃ ys, SortedPermOf ys cy.pushes ∧ s.outs.reverse = specCycle ac ys cy

/-- the cycle is over (after its `Clear`) -/
structure PhaseEnd (s : CState) : Prop where
  pc : s.pc = .idle
  prog : s.prog = []
  quiet : ∀ w ∈ s.writers, w.pc = .done
  files : s.m.files = []
  final : Final ac cy s
  fresh : Fresh c ac 1 s.m

/-- the invariant of one use cycle -/
def CInv (s : CState) : Prop :=
  Reported s ∨ Pending s ∨
  (s.m.err = none ∧ ((∃ xs todo ch cp, PhaseF c ac cy s xs todo ch cp) ∨ (∃ A cp, PhaseZ c ac cy s A cp)
      ∨ PhaseD c ac cy s ∨ PhaseEnd c ac cy s))

/-! ### the blocks of the caller, one constructor per branch of `cstep` -/

inductive CStep (s : CState) : CState → Prop where
  | pushErr (e : Elem) (rest : List Op) (r : Res) : s.pc = .idle → s.prog = Op.push e :: rest →
      s.m.err = some r → CStep s (finishOp s r none)
  | pushNil (e : Elem) (rest : List Op) : s.pc = .idle → s.prog = Op.push e :: rest →
      s.m.err = none → s.m.chunk = none → CStep s (finishOp s .finalised none)
  | pushFull (e : Elem) (rest : List Op) (ch : List Elem) : s.pc = .idle → s.prog = Op.push e :: rest →
      s.m.err = none → s.m.chunk = some ch → ch.length = s.m.chunkSize → CStep s { s with pc := .pushSend }
  | pushRoom (e : Elem) (rest : List Op) (ch : List Elem) : s.pc = .idle → s.prog = Op.push e :: rest →
      s.m.err = none → s.m.chunk = some ch → ch.length ≠ s.m.chunkSize →
      CStep s (finishOp { s with m := (push s.m e).1 } .ok none)
  | finErr (rest : List Op) (r : Res) : s.pc = .idle → s.prog = Op.finalise :: rest →
      s.m.err = some r → CStep s (finishOp s r none)
  | finNil (rest : List Op) : s.pc = .idle → s.prog = Op.finalise :: rest →
      s.m.err = none → s.m.chunk = none → CStep s (finishOp s .ok none)
  | finFast (rest : List Op) (ch : List Elem) : s.pc = .idle → s.prog = Op.finalise :: rest →
      s.m.err = none → s.m.chunk = some ch → s.m.pos < s.m.chunkSize →
      CStep s (finishOp { s with m := (finalise s.m).1 } .ok none)
  | finDisk (rest : List Op) (ch : List Elem) : s.pc = .idle → s.prog = Op.finalise :: rest →
      s.m.err = none → s.m.chunk = some ch → ¬ s.m.pos < s.m.chunkSize → 0 < ch.length →
      CStep s { s with m := { s.m with fast := false }, pc := .finSend }
  | finEmpty (rest : List Op) (ch : List Elem) (flt : Fault) (fs : List File) (ok : Bool) :
      s.pc = .idle → s.prog = Op.finalise :: rest →
      s.m.err = none → s.m.chunk = some ch → ¬ s.m.pos < s.m.chunkSize → ¬ 0 < ch.length →
      primeAll s.flt s.m.files = (flt, fs, ok) →
      CStep s (finishOp { s with flt := flt, m := { s.m with fast := false, pos := 0, files := fs } }
                (if ok then .ok else .ioerr) none)
  | pull (rest : List Op) : s.pc = .idle → s.prog = Op.pull :: rest →
      CStep s (finishOp (pullF s).1 (pullF s).2.1 (pullF s).2.2)
  | clear (rest : List Op) : s.pc = .idle → s.prog = Op.clear :: rest →
      CStep s (finishOp (clearF s).1 (clearF s).2 none)
  | reject (rest : List Op) : s.pc = .idle → s.prog = Op.reject :: rest →
      CStep s (finishOp s .rejected none)
  | send (ch : List Elem) (wr : Chan (List Elem)) : s.pc = .pushSend → s.m.chunk = some ch →
      s.writable.send ch = some wr →
      CStep s { s with writable := wr, wg := s.wg + 1, writers := s.writers ++ [{}], pc := .pushRecv }
  | recvErr (e : Elem) (rest : List Op) (r : Res) : s.pc = .pushRecv → s.m.pool ≠ 0 →
      s.prog = Op.push e :: rest → s.m.err = some r →
      CStep s (finishOp { s with m := { s.m with pool := s.m.pool - 1, chunk := some [] } } r none)
  | recvOk (e : Elem) (rest : List Op) : s.pc = .pushRecv → s.m.pool ≠ 0 →
      s.prog = Op.push e :: rest → s.m.err = none →
      CStep s (finishOp { s with m := { s.m with pool := s.m.pool - 1, chunk := some [e], pos := s.m.pos + 1, len := s.m.len + 1 } } .ok none)
  | fsend (ch : List Elem) (wr : Chan (List Elem)) : s.pc = .finSend → s.m.chunk = some ch →
      s.writable.send ch = some wr →
      CStep s { s with writable := wr, wg := s.wg + 1, m := { s.m with chunk := none }, inl := {}, pc := .finWrite }
  | fwrite (w : Writer) (s' : CState) : s.pc = .finWrite → wstep s s.inl = some (w, s') →
      CStep s { s' with inl := w, pc := if w.pc = .done then .finWait else .finWrite }
  | waitErr (r : Res) : s.pc = .finWait → s.wg = 0 → s.m.err = some r → CStep s (finishOp s r none)
  | waitOk (flt : Fault) (fs : List File) (ok : Bool) : s.pc = .finWait → s.wg = 0 → s.m.err = none →
      primeAll s.flt s.m.files = (flt, fs, ok) →
      CStep s (finishOp { s with flt := flt, m := { s.m with pos := 0, files := fs } } (if ok then .ok else .ioerr) none)

theorem cstep_cases {s t : CState} (h : cstep s = some t) : CStep s t := by
  cases hpc : s.pc
  · cases hprog : s.prog with
    | nil => simp [cstep, hpc, hprog] at h
    | cons op rest =>
      cases op with
      | push e =>
        cases herr : s.m.err with
        | some r =>
          have e1 : cstep s = some (finishOp s r none) := by simp [cstep, hpc, hprog, herr]
          rw [e1] at h; cases h; exact .pushErr e rest r hpc hprog herr
        | none =>
          cases hch : s.m.chunk with
          | none =>
            have e1 : cstep s = some (finishOp s .finalised none) := by simp [cstep, hpc, hprog, herr, hch]
            rw [e1] at h; cases h; exact .pushNil e rest hpc hprog herr hch
          | some ch =>
            by_cases hfull : ch.length = s.m.chunkSize
            · have e1 : cstep s = some { s with pc := .pushSend } := by simp [cstep, hpc, hprog, herr, hch, hfull]
              rw [e1] at h; cases h; exact .pushFull e rest ch hpc hprog herr hch hfull
            · have e1 : cstep s = some (finishOp { s with m := (push s.m e).1 } .ok none) := by
                simp [cstep, hpc, hprog, herr, hch, hfull]
              rw [e1] at h; cases h; exact .pushRoom e rest ch hpc hprog herr hch hfull
      | finalise =>
        cases herr : s.m.err with
        | some r =>
          have e1 : cstep s = some (finishOp s r none) := by simp [cstep, hpc, hprog, herr]
          rw [e1] at h; cases h; exact .finErr rest r hpc hprog herr
        | none =>
          cases hch : s.m.chunk with
          | none =>
            have e1 : cstep s = some (finishOp s .ok none) := by simp [cstep, hpc, hprog, herr, hch]
            rw [e1] at h; cases h; exact .finNil rest hpc hprog herr hch
          | some ch =>
            by_cases hlt : s.m.pos < s.m.chunkSize
            · have e1 : cstep s = some (finishOp { s with m := (finalise s.m).1 } .ok none) := by
                simp [cstep, hpc, hprog, herr, hch, hlt]
              rw [e1] at h; cases h; exact .finFast rest ch hpc hprog herr hch hlt
            · by_cases hpos : 0 < ch.length
              · have e1 : cstep s = some { s with m := { s.m with fast := false }, pc := .finSend } := by
                  simp [cstep, hpc, hprog, herr, hch, hlt, hpos]
                rw [e1] at h; cases h; exact .finDisk rest ch hpc hprog herr hch hlt hpos
              · cases hp : primeAll s.flt s.m.files with
                | mk flt rest' =>
                  obtain ⟨fs, ok⟩ := rest'
                  have e1 : cstep s = some (finishOp { s with flt := flt, m := { s.m with fast := false, pos := 0, files := fs } }
                      (if ok then .ok else .ioerr) none) := by
                    simp [cstep, hpc, hprog, herr, hch, hlt, hpos, hp]
                  rw [e1] at h; cases h; exact .finEmpty rest ch flt fs ok hpc hprog herr hch hlt hpos hp
      | pull =>
        have e1 : cstep s = some (finishOp (pullF s).1 (pullF s).2.1 (pullF s).2.2) := by simp [cstep, hpc, hprog]
        rw [e1] at h; cases h; exact .pull rest hpc hprog
      | clear =>
        have e1 : cstep s = some (finishOp (clearF s).1 (clearF s).2 none) := by simp [cstep, hpc, hprog]
        rw [e1] at h; cases h; exact .clear rest hpc hprog
      | reject =>
        have e1 : cstep s = some (finishOp s .rejected none) := by simp [cstep, hpc, hprog]
        rw [e1] at h; cases h; exact .reject rest hpc hprog
  · cases hch : s.m.chunk with
    | none => simp [cstep, hpc, hch] at h
    | some ch =>
      cases hsend : s.writable.send ch with
      | none => simp [cstep, hpc, hch, hsend] at h
      | some wr =>
        have e1 : cstep s = some { s with writable := wr, wg := s.wg + 1, writers := s.writers ++ [{}], pc := .pushRecv } := by
          simp [cstep, hpc, hch, hsend]
        rw [e1] at h; cases h; exact .send ch wr hpc hch hsend
  · by_cases hpool : s.m.pool = 0
    · simp [cstep, hpc, hpool] at h
    · cases hprog : s.prog with
      | nil => simp [cstep, hpc, hpool, hprog] at h
      | cons op rest =>
        cases op with
        | push e =>
          cases herr : s.m.err with
          | some r =>
            have e1 : cstep s = some (finishOp { s with m := { s.m with pool := s.m.pool - 1, chunk := some [] } } r none) := by
              simp [cstep, hpc, hpool, hprog, herr]
            rw [e1] at h; cases h; exact .recvErr e rest r hpc hpool hprog herr
          | none =>
            have e1 : cstep s = some (finishOp { s with m := { s.m with pool := s.m.pool - 1, chunk := some [e], pos := s.m.pos + 1, len := s.m.len + 1 } } .ok none) := by
              simp [cstep, hpc, hpool, hprog, herr]
            rw [e1] at h; cases h; exact .recvOk e rest hpc hpool hprog herr
        | finalise => simp [cstep, hpc, hpool, hprog] at h
        | pull => simp [cstep, hpc, hpool, hprog] at h
        | clear => simp [cstep, hpc, hpool, hprog] at h
        | reject => simp [cstep, hpc, hpool, hprog] at h
  · cases hch : s.m.chunk with
    | none => simp [cstep, hpc, hch] at h
    | some ch =>
      cases hsend : s.writable.send ch with
      | none => simp [cstep, hpc, hch, hsend] at h
      | some wr =>
        have e1 : cstep s = some { s with writable := wr, wg := s.wg + 1, m := { s.m with chunk := none }, inl := {}, pc := .finWrite } := by
          simp [cstep, hpc, hch, hsend]
        rw [e1] at h; cases h; exact .fsend ch wr hpc hch hsend
  · cases hw : wstep s s.inl with
    | none => simp [cstep, hpc, hw] at h
    | some p =>
      obtain ⟨w, s'⟩ := p
      have e1 : cstep s = some { s' with inl := w, pc := if w.pc = .done then .finWait else .finWrite } := by
        simp [cstep, hpc, hw]
      rw [e1] at h; cases h; exact .fwrite w s' hpc hw
  · by_cases hwg : s.wg = 0
    · cases herr : s.m.err with
      | some r =>
        have e1 : cstep s = some (finishOp s r none) := by simp [cstep, hpc, hwg, herr]
        rw [e1] at h; cases h; exact .waitErr r hpc hwg herr
      | none =>
        cases hp : primeAll s.flt s.m.files with
        | mk flt rest =>
          obtain ⟨fs, ok⟩ := rest
          have e1 : cstep s = some (finishOp { s with flt := flt, m := { s.m with pos := 0, files := fs } }
              (if ok then .ok else .ioerr) none) := by
            simp [cstep, hpc, hwg, herr, hp]
          rw [e1] at h; cases h; exact .waitOk flt fs ok hpc hwg herr hp
    · simp [cstep, hpc, hwg] at h

/-! ### preservation: reported and pending errors -/

theorem wstep_err {s s' : CState} {w w' : Writer} (h : wstep s w = some (w', s')) :
    s'.m.err = s.m.err ∨ s'.m.err = some .ioerr := by
  unfold wstep at h
  cases hpc : w.pc <;> simp only [hpc] at h
  · cases hr : s.writable.recv with
    | none => simp [hr] at h
    | some p =>
      obtain ⟨r, ch⟩ := p
      simp only [hr] at h
      cases ht : tick s.flt .tempfile with
      | mk bad flt =>
        simp only [ht] at h
        cases bad <;> simp only [Bool.false_eq_true, if_false, if_true, Option.some.injEq, Prod.mk.injEq] at h <;>
          obtain ⟨_, rfl⟩ := h
        · exact Or.inl rfl
        · exact Or.inr rfl
  · simp only [Option.some.injEq, Prod.mk.injEq] at h; obtain ⟨_, rfl⟩ := h; exact Or.inl rfl
  · cases htodo : w.todo with
    | nil => simp only [htodo, Option.some.injEq, Prod.mk.injEq] at h; obtain ⟨_, rfl⟩ := h; exact Or.inl rfl
    | cons e t =>
      simp only [htodo] at h
      cases ht : tick s.flt .encode with
      | mk bad flt =>
        simp only [ht] at h
        cases bad <;> simp only [Bool.false_eq_true, if_false, if_true, Option.some.injEq, Prod.mk.injEq] at h <;>
          obtain ⟨_, rfl⟩ := h
        · exact Or.inl rfl
        · exact Or.inr rfl
  · cases ht : tick s.flt .sync with
    | mk bad flt =>
      simp only [ht, Option.some.injEq, Prod.mk.injEq] at h
      obtain ⟨_, rfl⟩ := h
      cases bad
      · exact Or.inl rfl
      · exact Or.inr rfl
  · split at h
    · simp only [Option.some.injEq, Prod.mk.injEq] at h; obtain ⟨_, rfl⟩ := h; exact Or.inl rfl
    · simp at h
  · simp at h

theorem wstep_done_pool {s s' : CState} {w w' : Writer} (h : wstep s w = some (w', s'))
    (hd : w'.pc = .done) : 1 ≤ s'.m.pool := by
  unfold wstep at h
  cases hpc : w.pc <;> simp only [hpc] at h
  · cases hr : s.writable.recv with
    | none => simp [hr] at h
    | some p =>
      obtain ⟨r, ch⟩ := p
      simp only [hr] at h
      cases ht : tick s.flt .tempfile with
      | mk bad flt =>
        simp only [ht] at h
        cases bad <;> simp only [Bool.false_eq_true, if_false, if_true, Option.some.injEq, Prod.mk.injEq] at h <;>
          obtain ⟨rfl, _⟩ := h <;> simp at hd
  · simp only [Option.some.injEq, Prod.mk.injEq] at h; obtain ⟨rfl, _⟩ := h
    simp only at hd; split at hd <;> simp at hd
  · cases htodo : w.todo with
    | nil => simp only [htodo, Option.some.injEq, Prod.mk.injEq] at h; obtain ⟨rfl, _⟩ := h; simp at hd
    | cons e t =>
      simp only [htodo] at h
      cases ht : tick s.flt .encode with
      | mk bad flt =>
        simp only [ht] at h
        cases bad <;> simp only [Bool.false_eq_true, if_false, if_true, Option.some.injEq, Prod.mk.injEq] at h <;>
          obtain ⟨rfl, _⟩ := h
        · simp only at hd; split at hd <;> simp at hd
        · simp at hd
  · cases ht : tick s.flt .sync with
    | mk bad flt =>
      simp only [ht, Option.some.injEq, Prod.mk.injEq] at h
      obtain ⟨rfl, _⟩ := h; simp at hd
  · split at h
    · simp only [Option.some.injEq, Prod.mk.injEq] at h; obtain ⟨_, rfl⟩ := h
      show 1 ≤ s.m.pool + 1; omega
    · simp at h
  · simp at h

theorem inl_effect {s s' : CState} {w : Writer} (hs : Str s) (hpc : s.pc = .finWrite)
    (hw : wstep s s.inl = some (w, s')) : WEffect s s' s.inl w := by
  apply wstep_effect hw
  intro _
  have hlive : live s.inl = true := by simp [live, hs.inlLive hpc]
  rw [hs.wg]; simp [cnt, hpc, hlive, b2n]

theorem writer_effect {s s' : CState} {k : Nat} {w w' : Writer} (hs : Str s)
    (hk : s.writers[k]? = some w) (hw : wstep s w = some (w', s')) : WEffect s s' w w' :=
  wstep_effect hw (fun hl => by rw [hs.wg]; exact cnt_ge_of_mem live hk hl)

theorem Reported_finish {s : CState} (v : Option Elem) : Reported (finishOp s .ioerr v) :=
  ⟨⟨.ioerr, v, s.m.len, s.m.pos⟩, by simp [finishOp], rfl⟩

theorem Reported_finish_of {s s1 : CState} (h : Reported s) (ho : s1.outs = s.outs) (r : Res) (v : Option Elem) :
    Reported (finishOp s1 r v) := by
  obtain ⟨o, ho', hr⟩ := h
  exact ⟨o, by simp [finishOp, ho, ho'], hr⟩

theorem Reported_cstep {s t : CState} (hs : Str s) (h : Reported s) (hst : CStep s t) : Reported t := by
  cases hst with
  | pushErr => apply Reported_finish_of h; rfl
  | pushNil => apply Reported_finish_of h; rfl
  | pushFull => exact h
  | pushRoom => apply Reported_finish_of h; rfl
  | finErr => apply Reported_finish_of h; rfl
  | finNil => apply Reported_finish_of h; rfl
  | finFast => apply Reported_finish_of h; rfl
  | finDisk => exact h
  | finEmpty => apply Reported_finish_of h; rfl
  | pull => exact Reported_finish_of h (pullF_frame s).outs _ _
  | clear => exact Reported_finish_of h (clearF_frame s).outs _ _
  | reject => apply Reported_finish_of h; rfl
  | send => exact h
  | recvErr => apply Reported_finish_of h; rfl
  | recvOk => apply Reported_finish_of h; rfl
  | fsend => exact h
  | fwrite w s' hpc hw =>
    have E := inl_effect hs hpc hw
    obtain ⟨o, ho, hr⟩ := h
    exact ⟨o, by show o ∈ s'.outs; rw [E.outs]; exact ho, hr⟩
  | waitErr => apply Reported_finish_of h; rfl
  | waitOk => apply Reported_finish_of h; rfl

theorem Pending_cstep {s t : CState} (hs : Str s) (h : Pending s) (hst : CStep s t) :
    Reported t ∨ Pending t := by
  obtain ⟨herr, hprog⟩ := h
  cases hst with
  | pushErr e rest r _ _ he => rw [herr] at he; cases he; exact Or.inl (Reported_finish _)
  | pushNil _ _ _ _ he => rw [herr] at he; cases he
  | pushFull _ _ _ _ _ he => rw [herr] at he; cases he
  | pushRoom _ _ _ _ _ he => rw [herr] at he; cases he
  | finErr rest r _ _ he => rw [herr] at he; cases he; exact Or.inl (Reported_finish _)
  | finNil _ _ _ he => rw [herr] at he; cases he
  | finFast _ _ _ _ he => rw [herr] at he; cases he
  | finDisk _ _ _ _ he => rw [herr] at he; cases he
  | finEmpty _ _ _ _ _ _ _ he => rw [herr] at he; cases he
  | pull rest _ hp => rcases hprog with ⟨e, r, h'⟩ | ⟨r, h'⟩ <;> rw [h'] at hp <;> cases hp
  | clear rest _ hp => rcases hprog with ⟨e, r, h'⟩ | ⟨r, h'⟩ <;> rw [h'] at hp <;> cases hp
  | reject rest _ hp => rcases hprog with ⟨e, r, h'⟩ | ⟨r, h'⟩ <;> rw [h'] at hp <;> cases hp
  | send => exact Or.inr ⟨herr, hprog⟩
  | recvErr e rest r _ _ _ he => rw [herr] at he; cases he; exact Or.inl (Reported_finish _)
  | recvOk _ _ _ _ _ he => rw [herr] at he; cases he
  | fsend => exact Or.inr ⟨herr, hprog⟩
  | fwrite w s' hpc hw =>
    have E := inl_effect hs hpc hw
    refine Or.inr ⟨?_, ?_⟩
    · show s'.m.err = some .ioerr
      rcases wstep_err hw with h1 | h1
      · rw [h1]; exact herr
      · exact h1
    · show (∃ e rest, s'.prog = Op.push e :: rest) ∨ (∃ rest, s'.prog = Op.finalise :: rest)
      rw [E.prog]; exact hprog
  | waitErr r _ _ he => rw [herr] at he; cases he; exact Or.inl (Reported_finish _)
  | waitOk _ _ _ _ _ he => rw [herr] at he; cases he

/-! ### preservation: a background writer moves -/

theorem wstep_done_none (s : CState) {w : Writer} (h : w.pc = .done) : wstep s w = none := by
  simp [wstep, h]

theorem wstep_pool_ge {s s' : CState} {w w' : Writer} (h : wstep s w = some (w', s')) :
    s.m.pool ≤ s'.m.pool := by
  unfold wstep at h
  cases hpc : w.pc <;> simp only [hpc] at h
  · cases hr : s.writable.recv with
    | none => simp [hr] at h
    | some p =>
      obtain ⟨r, ch⟩ := p
      simp only [hr] at h
      cases ht : tick s.flt .tempfile with
      | mk bad flt =>
        simp only [ht] at h
        cases bad <;> simp only [Bool.false_eq_true, if_false, if_true, Option.some.injEq, Prod.mk.injEq] at h <;>
          obtain ⟨_, rfl⟩ := h <;> exact Nat.le_refl _
  · simp only [Option.some.injEq, Prod.mk.injEq] at h; obtain ⟨_, rfl⟩ := h; exact Nat.le_refl _
  · cases htodo : w.todo with
    | nil => simp only [htodo, Option.some.injEq, Prod.mk.injEq] at h; obtain ⟨_, rfl⟩ := h; exact Nat.le_refl _
    | cons e t =>
      simp only [htodo] at h
      cases ht : tick s.flt .encode with
      | mk bad flt =>
        simp only [ht] at h
        cases bad <;> simp only [Bool.false_eq_true, if_false, if_true, Option.some.injEq, Prod.mk.injEq] at h <;>
          obtain ⟨_, rfl⟩ := h <;> exact Nat.le_refl _
  · cases ht : tick s.flt .sync with
    | mk bad flt =>
      simp only [ht, Option.some.injEq, Prod.mk.injEq] at h
      obtain ⟨_, rfl⟩ := h
      cases bad <;> exact Nat.le_refl _
  · split at h
    · simp only [Option.some.injEq, Prod.mk.injEq] at h; obtain ⟨_, rfl⟩ := h
      show s.m.pool ≤ s.m.pool + 1; omega
    · simp at h
  · simp at h

theorem head_push_or_fin (todo : List Elem) (tl : List Op) :
    (∃ e rest, todo.map Op.push ++ Op.finalise :: tl = Op.push e :: rest)
      ∨ (∃ rest, todo.map Op.push ++ Op.finalise :: tl = Op.finalise :: rest) := by
  cases todo with
  | nil => exact Or.inr ⟨tl, rfl⟩
  | cons e t => exact Or.inl ⟨e, _, rfl⟩

theorem CInv_wactor {s s' : CState} {k : Nat} {w w' : Writer} (hs : Str s) (h : CInv c ac cy s)
    (hk : s.writers[k]? = some w) (hw : wstep s w = some (w', s')) :
    CInv c ac cy { s' with writers := s'.writers.set k w' } := by
  have E := writer_effect hs hk hw
  have hklt : k < s.writers.length := (List.getElem?_eq_some_iff.mp hk).1
  rcases h with hrep | hpend | ⟨herr, hph⟩
  · obtain ⟨o, ho, hr⟩ := hrep
    exact Or.inl ⟨o, by show o ∈ s'.outs; rw [E.outs]; exact ho, hr⟩
  · obtain ⟨he, hp⟩ := hpend
    refine Or.inr (Or.inl ⟨?_, ?_⟩)
    · show s'.m.err = some .ioerr
      rcases wstep_err hw with h1 | h1
      · rw [h1]; exact he
      · exact h1
    · show (∃ e rest, s'.prog = Op.push e :: rest) ∨ (∃ rest, s'.prog = Op.finalise :: rest)
      rw [E.prog]; exact hp
  · -- no error so far
    have herr' : s'.m.err = none ∨ s'.m.err = some .ioerr := by
      rcases wstep_err hw with h1 | h1
      · left; rw [h1]; exact herr
      · right; exact h1
    rcases hph with ⟨xs, todo, ch, cp, hF⟩ | ⟨A, cp, hZ⟩ | hD | hE
    · rcases herr' with he' | he'
      · refine Or.inr (Or.inr ⟨he', Or.inl ⟨xs, todo, ch, cp, ?_⟩⟩)
        have hdi := DI_wstep hF.di hk hw he'
        have hlen : (s'.writers.set k w').length = s.writers.length := by rw [List.length_set, E.writers]
        have hne : s'.writers.set k w' ≠ [] := by
          intro h0; rw [h0] at hlen; simp at hlen; omega
        have hne0 : s.writers ≠ [] := by intro h0; rw [h0] at hklt; simp at hklt
        refine ⟨hF.split, by show s'.prog = _; rw [E.prog]; exact hF.prog,
          by show s'.outs.reverse = _; rw [E.outs]; exact hF.outs,
          by show s'.m.pos = _; rw [E.pos]; exact hF.pos, by show s'.m.len = _; rw [E.len]; exact hF.len,
          by show s'.m.chunkSize = _; rw [E.cs]; exact hF.cs, by show s'.m.autoClear = _; rw [E.ac]; exact hF.ac,
          by show s'.m.chunk = _; rw [E.chunk]; exact hF.chunk, hF.chLe, fun h0 => absurd h0 hne,
          by show DI s'.writable.buf (s'.writers.set k w') s'.m.files cp xs; rw [E.writers]; exact hdi, ?_⟩
        show (s'.pc = _ ∧ _) ∨ (s'.pc = _ ∧ _) ∨ (s'.pc = _ ∧ _)
        rw [E.pc]
        simp only [hlen]
        rcases hF.at_ with ⟨a, b, c', d⟩ | ⟨a, b, c', d⟩ | ⟨a, b, c', d⟩
        · exact Or.inl ⟨a, b, c', fun _ => d hne0⟩
        · exact Or.inr (Or.inl ⟨a, b, c', d⟩)
        · exact Or.inr (Or.inr ⟨a, b, c', hne⟩)
      · refine Or.inr (Or.inl ⟨he', ?_⟩)
        show (∃ e rest, s'.prog = Op.push e :: rest) ∨ (∃ rest, s'.prog = Op.finalise :: rest)
        rw [E.prog, hF.prog]; exact head_push_or_fin _ _
    · rcases herr' with he' | he'
      · have hA : A[k]? = some w := by
          rcases hZ.at_ with ⟨_, hA, _⟩ | ⟨_, hA, _⟩ | ⟨_, hA, _⟩
          · rw [hA]; exact hk
          · rw [hA, List.getElem?_append_left hklt]; exact hk
          · rw [hA]; exact hk
        have hdi := DI_wstep hZ.di hA hw he'
        refine Or.inr (Or.inr ⟨he', Or.inr (Or.inl ⟨A.set k w', cp, ?_⟩)⟩)
        refine ⟨by show s'.prog = _; rw [E.prog]; exact hZ.prog,
          by show s'.outs.reverse = _; rw [E.outs]; exact hZ.outs,
          by show s'.m.pos = _; rw [E.pos]; exact hZ.pos, by show s'.m.len = _; rw [E.len]; exact hZ.len,
          by show s'.m.chunkSize = _; rw [E.cs]; exact hZ.cs, by show s'.m.autoClear = _; rw [E.ac]; exact hZ.ac,
          by show s'.m.fast = _; rw [E.fast]; exact hZ.fast, hdi, ?_⟩
        show (s'.pc = _ ∧ A.set k w' = s'.writers.set k w' ∧ s'.m.chunk = _ ∧ _)
          ∨ (s'.pc = _ ∧ A.set k w' = s'.writers.set k w' ++ [s'.inl] ∧ s'.m.chunk = _ ∧ _)
          ∨ (s'.pc = _ ∧ A.set k w' = s'.writers.set k w' ∧ s'.m.chunk = _ ∧ _ ∧ 1 ≤ s'.m.pool)
        rw [E.pc, E.writers, E.chunk, E.inl]
        rcases hZ.at_ with ⟨a, hA', b, d⟩ | ⟨a, hA', b, d⟩ | ⟨a, hA', b, d, e⟩
        · exact Or.inl ⟨a, by rw [hA'], b, d⟩
        · refine Or.inr (Or.inl ⟨a, ?_, b, d⟩)
          rw [hA', List.set_append]; simp [hklt]
        · exact Or.inr (Or.inr ⟨a, by rw [hA'], b, d, Nat.le_trans e (wstep_pool_ge hw)⟩)
      · refine Or.inr (Or.inl ⟨he', ?_⟩)
        show (∃ e rest, s'.prog = Op.push e :: rest) ∨ (∃ rest, s'.prog = Op.finalise :: rest)
        rw [E.prog, hZ.prog]; exact Or.inr ⟨_, rfl⟩
    · have := hD.quiet w (mem_of_getElem?' hk)
      rw [wstep_done_none s this] at hw; cases hw
    · have := hE.quiet w (mem_of_getElem?' hk)
      rw [wstep_done_none s this] at hw; cases hw

/-! ### preservation: the caller moves while filling -/

theorem todo_of_push {todo : List Elem} {tl rest : List Op} {e : Elem}
    (h : todo.map Op.push ++ Op.finalise :: tl = Op.push e :: rest) :
    ∃ todo', todo = e :: todo' ∧ rest = todo'.map Op.push ++ Op.finalise :: tl := by
  cases todo with
  | nil => simp at h
  | cons x t =>
    simp only [List.map_cons, List.cons_append, List.cons.injEq, Op.push.injEq] at h
    exact ⟨t, by rw [h.1], h.2.symm⟩

theorem todo_of_fin {todo : List Elem} {tl rest : List Op}
    (h : todo.map Op.push ++ Op.finalise :: tl = Op.finalise :: rest) : todo = [] ∧ rest = tl := by
  cases todo with
  | nil => simp at h; exact ⟨rfl, h.symm⟩
  | cons x t => simp at h

theorem finishOp_ok_prog (s : CState) (v : Option Elem) : (finishOp s .ok v).prog = s.prog.tail := by
  simp [finishOp]

theorem finishOp_outs (s : CState) (r : Res) (v : Option Elem) :
    (finishOp s r v).outs.reverse = s.outs.reverse ++ [⟨r, v, s.m.len, s.m.pos⟩] := by
  simp [finishOp]

theorem perm_of_count {l₁ l₂ : List Elem} (h : ∀ a, List.count a l₁ = List.count a l₂) : l₁.Perm l₂ :=
  List.perm_iff_count.mpr h

theorem F_cstep {s t : CState} {xs todo ch cp : List Elem} (hc : 1 ≤ c) (hs : Str s)
    (herr : s.m.err = none) (hF : PhaseF c ac cy s xs todo ch cp) (hst : CStep s t) : CInv c ac cy t := by
  have hpcs : s.pc = .idle ∨ s.pc = .pushSend ∨ s.pc = .pushRecv := by
    rcases hF.at_ with ⟨a, _⟩ | ⟨a, _⟩ | ⟨a, _⟩
    · exact Or.inl a
    · exact Or.inr (Or.inl a)
    · exact Or.inr (Or.inr a)
  have pcne : ∀ {p : CPc}, s.pc = p → p = .idle ∨ p = .pushSend ∨ p = .pushRecv := by
    intro p hp; rw [← hp]; exact hpcs
  cases hst with
  | pushErr _ _ _ _ _ he => rw [herr] at he; cases he
  | finErr _ _ _ _ he => rw [herr] at he; cases he
  | recvErr _ _ _ _ _ _ he => rw [herr] at he; cases he
  | waitErr _ _ _ he => rw [herr] at he; cases he
  | pushNil _ _ _ _ _ hch => rw [hF.chunk] at hch; cases hch
  | finNil _ _ _ _ hch => rw [hF.chunk] at hch; cases hch
  | pull rest _ hp =>
    rw [hF.prog] at hp
    rcases head_push_or_fin todo (tailOps cy) with ⟨e, r, h'⟩ | ⟨r, h'⟩ <;> rw [h'] at hp <;> cases hp
  | clear rest _ hp =>
    rw [hF.prog] at hp
    rcases head_push_or_fin todo (tailOps cy) with ⟨e, r, h'⟩ | ⟨r, h'⟩ <;> rw [h'] at hp <;> cases hp
  | reject rest _ hp =>
    rw [hF.prog] at hp
    rcases head_push_or_fin todo (tailOps cy) with ⟨e, r, h'⟩ | ⟨r, h'⟩ <;> rw [h'] at hp <;> cases hp
  | fsend _ _ hpc => rcases pcne hpc with h | h | h <;> cases h
  | fwrite _ _ hpc => rcases pcne hpc with h | h | h <;> cases h
  | waitOk _ _ _ hpc => rcases pcne hpc with h | h | h <;> cases h
  | pushFull e rest ch' hpc hprog _ hch hfull =>
    rw [hF.chunk] at hch; cases hch
    rcases hF.at_ with ⟨_, hcp, hcnt, hne⟩ | ⟨a, _⟩ | ⟨a, _⟩
    · refine Or.inr (Or.inr ⟨herr, Or.inl ⟨xs, todo, ch, cp, ?_⟩⟩)
      refine ⟨hF.split, hF.prog, hF.outs, hF.pos, hF.len, hF.cs, hF.ac, hF.chunk, hF.chLe, hF.empty, hF.di, ?_⟩
      refine Or.inr (Or.inl ⟨rfl, hcp, by rw [hfull, hF.cs], ?_⟩)
      rw [hcnt, hfull, hF.cs]
    · rw [hpc] at a; cases a
    · rw [hpc] at a; cases a
  | pushRoom e rest ch' hpc hprog _ hch hfull =>
    rw [hF.chunk] at hch; cases hch
    rw [hF.prog] at hprog
    obtain ⟨todo', rfl, hrest⟩ := todo_of_push hprog
    rcases hF.at_ with ⟨_, hcp, hcnt, hne⟩ | ⟨a, _⟩ | ⟨a, _⟩
    · subst hcp
      have hpush := push_room e herr hF.chunk hfull
      refine Or.inr (Or.inr ⟨?_, Or.inl ⟨xs ++ [e], todo', cp ++ [e], cp ++ [e], ?_⟩⟩)
      · show (finishOp _ _ _).m.err = none
        simp [finishOp, hpush, herr]
      · refine ⟨by rw [hF.split]; simp, ?_, ?_, ?_, ?_, ?_, ?_, ?_, ?_, ?_, ?_, ?_⟩
        · rw [finishOp_ok_prog]; show s.prog.tail = _; rw [hF.prog]; rfl
        · rw [finishOp_outs]; show s.outs.reverse ++ _ = _
          rw [hF.outs, hpush]; simp only [List.length_append, List.length_cons, List.length_nil, pushOuts_succ]
          rw [hF.len, hF.pos]
        · show (finishOp _ _ _).m.pos = _; simp [finishOp, hpush, hF.pos]
        · show (finishOp _ _ _).m.len = _; simp [finishOp, hpush, hF.len]
        · show (finishOp _ _ _).m.chunkSize = _; simp [finishOp, hpush, hF.cs]
        · show (finishOp _ _ _).m.autoClear = _; simp [finishOp, hpush, hF.ac]
        · show (finishOp _ _ _).m.chunk = _; simp [finishOp, hpush]
        · have := hF.chLe; have := hF.cs; simp only [List.length_append, List.length_cons, List.length_nil]; omega
        · intro h0
          have := hF.empty h0
          simpa [finishOp, hpush] using this
        · have := DI_push hF.di e
          simpa [finishOp, hpush] using this
        · refine Or.inl ⟨rfl, rfl, ?_, fun _ => by simp⟩
          show (xs ++ [e]).length = (finishOp _ _ _).writers.length * c + (cp ++ [e]).length
          simp only [finishOp, List.length_append, List.length_cons, List.length_nil]
          omega
    · rw [hpc] at a; cases a
    · rw [hpc] at a; cases a
  | finFast rest ch' hpc hprog _ hch hlt =>
    rw [hF.chunk] at hch; cases hch
    rw [hF.prog] at hprog
    obtain ⟨rfl, hrest⟩ := todo_of_fin hprog
    have hxs : xs = cy.pushes := by rw [hF.split]; simp
    rcases hF.at_ with ⟨_, hcp, hcnt, hne⟩ | ⟨a, _⟩ | ⟨a, _⟩
    · subst hcp
      have hW : s.writers = [] := by
        cases hwr : s.writers with
        | nil => rfl
        | cons w ws =>
          exfalso
          rw [hwr] at hcnt
          simp only [List.length_cons, Nat.add_mul, Nat.one_mul] at hcnt
          rw [hF.pos, hF.cs] at hlt; omega
      obtain ⟨hfiles, hwb⟩ := hF.empty hW
      have hlen : xs.length = cp.length := by rw [hcnt, hW]; simp
      have hperm : cp.Perm xs := by
        apply perm_of_count
        intro a
        have := hF.di.perm a
        rw [hwb, hW, hfiles] at this
        simpa using this
      have hfin : (finalise s.m).1 = { s.m with fast := true, chunk := some (sortRun cp), pos := 0 } := by
        simp [finalise, herr, hF.chunk, hlt]
      have hpool : s.m.pool ≤ 1 := by
        have h1 := hs.cap
        have h2 : chunkTok s = 1 := by simp [chunkTok, hF.chunk, hpc, b2n]
        omega
      refine Or.inr (Or.inr ⟨?_, Or.inr (Or.inr (Or.inl ⟨rfl, ?_, ?_⟩))⟩)
      · show (finishOp _ _ _).m.err = none
        simp [finishOp, hfin, herr]
      · intro w hw; simp [finishOp, hW] at hw
      · refine ⟨[], 0, cy.pulls, ?_, by simp, ?_, by simp [Sorted], Or.inl ⟨rfl, ?_, ?_, by simp, ?_⟩⟩
        · rw [finishOp_ok_prog]; show s.prog.tail = _; rw [hF.prog]; rfl
        · rw [finishOp_outs]; show s.outs.reverse ++ _ = _
          rw [hF.outs, hfin, ← hxs]; simp [dOuts, hF.len]
        · have hrem : remaining (finishOp { s with m := (finalise s.m).1 } Res.ok none).m = sortRun cp := by
            simp [finishOp, hfin, remaining]
          refine ⟨by simp [finishOp, hfin, hF.cs], by simp [finishOp, hfin, hF.ac], by simp [finishOp, hfin, herr],
            by simp [finishOp, hfin, hF.len, hxs], ?_, ?_⟩
          · rw [hrem, sortRun_length, ← hlen, hxs]; simp [finishOp, hfin]
          · refine Or.inl ⟨by simp [finishOp, hfin], by simp [finishOp, hfin, hfiles], Or.inl ⟨sortRun cp, ?_, sortRun_sorted cp, ?_⟩⟩
            · simp [finishOp, hfin]
            · simpa [finishOp, hfin] using hpool
        · have hrem : remaining (finishOp { s with m := (finalise s.m).1 } Res.ok none).m = sortRun cp := by
            simp [finishOp, hfin, remaining]
          rw [hrem, ← hxs]; simpa using (sortRun_perm cp).trans hperm
        · simp [finishOp, hfin]
    · rw [hpc] at a; cases a
    · rw [hpc] at a; cases a
  | finDisk rest ch' hpc hprog _ hch hlt hpos =>
    rw [hF.chunk] at hch; cases hch
    rw [hF.prog] at hprog
    obtain ⟨rfl, hrest⟩ := todo_of_fin hprog
    have hxs : xs = cy.pushes := by rw [hF.split]; simp
    rcases hF.at_ with ⟨_, hcp, hcnt, hne⟩ | ⟨a, _⟩ | ⟨a, _⟩
    · subst hcp
      have hcpne : cp ≠ [] := by intro h0; rw [h0] at hpos; simp at hpos
      refine Or.inr (Or.inr ⟨herr, Or.inr (Or.inl ⟨s.writers, cp, ?_⟩)⟩)
      refine ⟨by show s.prog = _; rw [hF.prog]; rfl, by show s.outs.reverse = _; rw [hF.outs, hxs],
        by show s.m.pos = _; rw [hF.pos, hxs], by show s.m.len = _; rw [hF.len, hxs], hF.cs, hF.ac, rfl,
        by rw [← hxs]; exact hF.di, Or.inl ⟨rfl, rfl, hF.chunk, hcpne⟩⟩
    · rw [hpc] at a; cases a
    · rw [hpc] at a; cases a
  | finEmpty rest ch' flt fs ok hpc hprog _ hch hlt hpos _ =>
    exfalso
    rw [hF.chunk] at hch; cases hch
    rcases hF.at_ with ⟨_, hcp, hcnt, hne⟩ | ⟨a, _⟩ | ⟨a, _⟩
    · have hch0 : ch = [] := by
        cases ch with
        | nil => rfl
        | cons _ _ => simp at hpos
      have hW : s.writers = [] := by
        cases hwr : s.writers with
        | nil => rfl
        | cons w ws => exact absurd hch0 (hne (by rw [hwr]; simp))
      rw [hW, hch0] at hcnt
      simp only [List.length_nil, Nat.zero_mul, Nat.add_zero] at hcnt
      rw [hF.pos, hF.cs] at hlt
      omega
    · rw [hpc] at a; cases a
    · rw [hpc] at a; cases a
  | send ch' wr hpc hch hsend =>
    rw [hF.chunk] at hch; cases hch
    obtain ⟨hb, hcap, _⟩ := Chan.send_buf hsend
    rcases hF.at_ with ⟨a, _⟩ | ⟨_, hcp, hfull, hcnt⟩ | ⟨a, _⟩
    · rw [hpc] at a; cases a
    · subst hcp
      have hcpne : cp ≠ [] := by intro h0; rw [h0] at hfull; simp at hfull; omega
      refine Or.inr (Or.inr ⟨herr, Or.inl ⟨xs, todo, cp, [], ?_⟩⟩)
      refine ⟨hF.split, hF.prog, hF.outs, hF.pos, hF.len, hF.cs, hF.ac, hF.chunk, hF.chLe,
        fun h0 => by simp at h0, ?_, Or.inr (Or.inr ⟨rfl, rfl, ?_, by simp⟩)⟩
      · show DI wr.buf (s.writers ++ [newWriter]) s.m.files [] xs
        rw [hb]; exact DI_send hF.di hcpne
      · show xs.length = (s.writers ++ [newWriter]).length * c
        simp only [List.length_append, List.length_cons, List.length_nil, Nat.add_mul, Nat.one_mul]
        omega
    · rw [hpc] at a; cases a
  | recvOk e rest hpc hpool hprog _ =>
    rw [hF.prog] at hprog
    obtain ⟨todo', rfl, hrest⟩ := todo_of_push hprog
    rcases hF.at_ with ⟨a, _⟩ | ⟨a, _⟩ | ⟨_, hcp, hcnt, hne⟩
    · rw [hpc] at a; cases a
    · rw [hpc] at a; cases a
    · subst hcp
      refine Or.inr (Or.inr ⟨?_, Or.inl ⟨xs ++ [e], todo', [e], [e], ?_⟩⟩)
      · show (finishOp _ _ _).m.err = none
        simp [finishOp, herr]
      · refine ⟨by rw [hF.split]; simp, ?_, ?_, by simp [finishOp, hF.pos], by simp [finishOp, hF.len],
          by simp [finishOp, hF.cs], by simp [finishOp, hF.ac], by simp [finishOp], by simpa using hc,
          fun h0 => absurd h0 hne, ?_, ?_⟩
        · rw [finishOp_ok_prog]; show s.prog.tail = _; rw [hF.prog]; rfl
        · rw [finishOp_outs]; show s.outs.reverse ++ _ = _
          rw [hF.outs]; simp only [List.length_append, List.length_cons, List.length_nil, pushOuts_succ]
          rw [hF.len, hF.pos]
        · have := DI_push hF.di e
          simpa [finishOp] using this
        · refine Or.inl ⟨rfl, rfl, ?_, fun _ => by simp⟩
          show (xs ++ [e]).length = (finishOp _ _ _).writers.length * c + [e].length
          simp only [finishOp, List.length_append, List.length_cons, List.length_nil]
          omega

/-! ### preservation: the caller moves inside a spilling `Finalise` -/

theorem all_done_of_wg {s : CState} (hs : Str s) (hpc : s.pc ≠ .finWrite) (hwg : s.wg = 0) :
    ∀ w ∈ s.writers, w.pc = .done := by
  have hcnt : s.writers.countP live = 0 := by
    have := hs.wg
    rw [hwg] at this
    have e : (s.pc == CPc.finWrite) = false := by simpa using hpc
    simp [cnt, e, b2n] at this
    exact this.symm
  intro w hw
  have hl : ¬ live w = true := List.countP_eq_zero.mp hcnt w hw
  simpa [live] using hl

theorem wb_nil_of_done {s : CState} (hs : Str s) (hpc : s.pc ≠ .finWrite)
    (hd : ∀ w ∈ s.writers, w.pc = .done) : s.writable.buf = [] := by
  have h0 : s.writers.countP atRecv = 0 := by
    apply List.countP_eq_zero.mpr
    intro w hw; simp [atRecv, hd w hw]
  have := hs.chan
  have e : (s.pc == CPc.finWrite) = false := by simpa using hpc
  simp [cnt, e, b2n, h0] at this
  exact this

theorem count_flatMap_nil {α} (a : Elem) (l : List α) (f : α → List Elem) (h : ∀ x ∈ l, f x = []) :
    List.count a (l.flatMap f) = 0 := by
  induction l with
  | nil => simp
  | cons x xs ih =>
    rw [count_flatMap_cons, h x (by simp), ih (fun y hy => h y (List.mem_cons_of_mem _ hy))]
    simp

theorem Z_cstep {s t : CState} {A : List Writer} {cp : List Elem} (hs : Str s)
    (herr : s.m.err = none) (hZ : PhaseZ c ac cy s A cp) (hst : CStep s t) : CInv c ac cy t := by
  have hpcs : s.pc = .finSend ∨ s.pc = .finWrite ∨ s.pc = .finWait := by
    rcases hZ.at_ with ⟨a, _⟩ | ⟨a, _⟩ | ⟨a, _⟩
    · exact Or.inl a
    · exact Or.inr (Or.inl a)
    · exact Or.inr (Or.inr a)
  have pcne : ∀ {p : CPc}, s.pc = p → p = .finSend ∨ p = .finWrite ∨ p = .finWait := by
    intro p hp; rw [← hp]; exact hpcs
  cases hst with
  | pushErr _ _ _ hpc => rcases pcne hpc with h | h | h <;> cases h
  | pushNil _ _ hpc => rcases pcne hpc with h | h | h <;> cases h
  | pushFull _ _ _ hpc => rcases pcne hpc with h | h | h <;> cases h
  | pushRoom _ _ _ hpc => rcases pcne hpc with h | h | h <;> cases h
  | finErr _ _ hpc => rcases pcne hpc with h | h | h <;> cases h
  | finNil _ hpc => rcases pcne hpc with h | h | h <;> cases h
  | finFast _ _ hpc => rcases pcne hpc with h | h | h <;> cases h
  | finDisk _ _ hpc => rcases pcne hpc with h | h | h <;> cases h
  | finEmpty _ _ _ _ _ hpc => rcases pcne hpc with h | h | h <;> cases h
  | pull _ hpc => rcases pcne hpc with h | h | h <;> cases h
  | clear _ hpc => rcases pcne hpc with h | h | h <;> cases h
  | reject _ hpc => rcases pcne hpc with h | h | h <;> cases h
  | send _ _ hpc => rcases pcne hpc with h | h | h <;> cases h
  | recvErr _ _ _ hpc => rcases pcne hpc with h | h | h <;> cases h
  | recvOk _ _ hpc => rcases pcne hpc with h | h | h <;> cases h
  | waitErr _ _ _ he => rw [herr] at he; cases he
  | fsend ch wr hpc hch hsend =>
    obtain ⟨hb, hcap, _⟩ := Chan.send_buf hsend
    rcases hZ.at_ with ⟨_, hA, hchunk, hne⟩ | ⟨a, _⟩ | ⟨a, _⟩
    · rw [hchunk] at hch; cases hch
      subst hA
      refine Or.inr (Or.inr ⟨herr, Or.inr (Or.inl ⟨s.writers ++ [newWriter], [], ?_⟩)⟩)
      refine ⟨hZ.prog, hZ.outs, hZ.pos, hZ.len, hZ.cs, hZ.ac, hZ.fast, ?_, Or.inr (Or.inl ⟨rfl, rfl, rfl, rfl⟩)⟩
      show DI wr.buf (s.writers ++ [newWriter]) s.m.files [] cy.pushes
      rw [hb]; exact DI_send hZ.di hne
    · rw [hpc] at a; cases a
    · rw [hpc] at a; cases a
  | fwrite w s' hpc hw =>
    have E := inl_effect hs hpc hw
    rcases hZ.at_ with ⟨a, _⟩ | ⟨_, hA, hchunk, hcp⟩ | ⟨a, _⟩
    · rw [hpc] at a; cases a
    · subst hcp
      rcases wstep_err hw with he' | he'
      · rw [herr] at he'
        have hi : A[s.writers.length]? = some s.inl := by
          rw [hA, List.getElem?_append_right (Nat.le_refl _)]; simp
        have hdi := DI_wstep hZ.di hi hw he'
        have hset : A.set s.writers.length w = s.writers ++ [w] := by
          rw [hA, List.set_append]; simp
        rw [hset] at hdi
        by_cases hd : w.pc = .done
        · refine Or.inr (Or.inr ⟨he', Or.inr (Or.inl ⟨s.writers, [], ?_⟩)⟩)
          refine ⟨by show s'.prog = _; rw [E.prog]; exact hZ.prog,
            by show s'.outs.reverse = _; rw [E.outs]; exact hZ.outs,
            by show s'.m.pos = _; rw [E.pos]; exact hZ.pos, by show s'.m.len = _; rw [E.len]; exact hZ.len,
            by show s'.m.chunkSize = _; rw [E.cs]; exact hZ.cs, by show s'.m.autoClear = _; rw [E.ac]; exact hZ.ac,
            by show s'.m.fast = _; rw [E.fast]; exact hZ.fast, DI_dropDone hdi hd, ?_⟩
          refine Or.inr (Or.inr ⟨by simp [hd], by show s.writers = s'.writers; rw [E.writers],
            by show s'.m.chunk = none; rw [E.chunk]; exact hchunk, rfl, by show 1 ≤ s'.m.pool; exact wstep_done_pool hw hd⟩)
        · refine Or.inr (Or.inr ⟨he', Or.inr (Or.inl ⟨s.writers ++ [w], [], ?_⟩)⟩)
          refine ⟨by show s'.prog = _; rw [E.prog]; exact hZ.prog,
            by show s'.outs.reverse = _; rw [E.outs]; exact hZ.outs,
            by show s'.m.pos = _; rw [E.pos]; exact hZ.pos, by show s'.m.len = _; rw [E.len]; exact hZ.len,
            by show s'.m.chunkSize = _; rw [E.cs]; exact hZ.cs, by show s'.m.autoClear = _; rw [E.ac]; exact hZ.ac,
            by show s'.m.fast = _; rw [E.fast]; exact hZ.fast, hdi, ?_⟩
          refine Or.inr (Or.inl ⟨by simp [hd], by show s.writers ++ [w] = s'.writers ++ [w]; rw [E.writers],
            by show s'.m.chunk = none; rw [E.chunk]; exact hchunk, rfl⟩)
      · refine Or.inr (Or.inl ⟨he', Or.inr ⟨tailOps cy, ?_⟩⟩)
        show s'.prog = _; rw [E.prog]; exact hZ.prog
    · rw [hpc] at a; cases a
  | waitOk flt fs ok hpc hwg _ hprime =>
    rcases hZ.at_ with ⟨a, _⟩ | ⟨a, _⟩ | ⟨_, hA, hchunk, hcp, hpool⟩
    · rw [hpc] at a; cases a
    · rw [hpc] at a; cases a
    · subst hcp; subst hA
      cases ok
      · exact Or.inl (by simpa using Reported_finish (s := { s with flt := flt, m := { s.m with pos := 0, files := fs } }) none)
      · have hne : s.pc ≠ .finWrite := by rw [hpc]; simp
        have hdone := all_done_of_wg hs hne hwg
        have hwb := wb_nil_of_done hs hne hdone
        have hfs : fs = s.m.files.map primeFile := by
          have := primeAll_ok s.flt s.m.files (by rw [hprime])
          rw [hprime] at this; exact this
        have htodo : ∀ a, List.count a (s.writers.flatMap (·.todo)) = 0 := by
          intro a
          apply count_flatMap_nil
          intro w hw
          exact hZ.di.todoNil w hw (by rw [hdone w hw]; simp) (by rw [hdone w hw]; simp)
        have hruns : ∀ f ∈ s.m.files, Sorted f.data ∧ f.data ≠ [] := by
          intro f hf
          refine ⟨hZ.di.filesOK f hf, ?_⟩
          intro h0
          obtain ⟨i, hi⟩ := List.mem_iff_getElem?.mp hf
          obtain ⟨w, hw, hp, _⟩ := hZ.di.filesNe i f hi h0
          rw [hdone w hw] at hp; cases hp
        have hperm : (s.m.files.flatMap (·.data)).Perm cy.pushes := by
          apply perm_of_count
          intro a
          have := hZ.di.perm a
          rw [hwb, htodo a] at this
          simpa using this
        have hrem : remaining (finishOp { s with flt := flt, m := { s.m with pos := 0, files := fs } } Res.ok none).m
            = s.m.files.flatMap (·.data) := by
          simp only [finishOp, remaining, hZ.fast, Bool.false_eq_true, if_false, hfs]
          exact flatMap_primeFile _ hruns
        have hpool2 : s.m.pool ≤ 2 := by have := hs.cap; omega
        refine Or.inr (Or.inr ⟨by simpa [finishOp] using herr, Or.inr (Or.inr (Or.inl ⟨rfl, hdone, ?_⟩))⟩)
        refine ⟨[], 0, cy.pulls, ?_, by simp, ?_, by simp [Sorted], Or.inl ⟨rfl, ?_, ?_, by simp, by simp [finishOp]⟩⟩
        · simp only [if_true]; rw [finishOp_ok_prog]; show s.prog.tail = _; rw [hZ.prog]; rfl
        · simp only [if_true]; rw [finishOp_outs]; show s.outs.reverse ++ _ = _
          rw [hZ.outs]; simp [dOuts, hZ.len]
        · simp only [if_true]
          refine ⟨by simp [finishOp, hZ.cs], by simp [finishOp, hZ.ac], by simp [finishOp, herr],
            by simp [finishOp, hZ.len], ?_, ?_⟩
          · rw [hrem, hperm.length_eq]; simp [finishOp]
          · refine Or.inr ⟨by simp [finishOp, hZ.fast], by simp [finishOp, hchunk], by simp [finishOp]; omega, ?_⟩
            intro f hf
            simp only [finishOp, hfs] at hf
            obtain ⟨g, hg, rfl⟩ := List.mem_map.mp hf
            exact (primeFile_ok (hruns g hg).1 (hruns g hg).2).1
        · simp only [if_true]; rw [hrem]; simpa using hperm

/-! ### preservation: the caller pulls and clears -/

theorem dprog_pull {k : Nat} {b : Bool} {rest : List Op}
    (h : List.replicate k Op.pull ++ (if b then [Op.clear] else []) = Op.pull :: rest) :
    ∃ k', k = k' + 1 ∧ rest = List.replicate k' Op.pull ++ (if b then [Op.clear] else []) := by
  cases k with
  | zero => cases b <;> simp at h
  | succ k' =>
    simp only [List.replicate_succ, List.cons_append, List.cons.injEq, true_and] at h
    exact ⟨k', rfl, h.symm⟩

theorem dprog_clear {k : Nat} {b : Bool} {rest : List Op}
    (h : List.replicate k Op.pull ++ (if b then [Op.clear] else []) = Op.clear :: rest) :
    k = 0 ∧ b = true ∧ rest = [] := by
  cases k with
  | zero => cases b <;> simp at h; exact ⟨rfl, rfl, h⟩
  | succ k' => simp [List.replicate_succ] at h

theorem dprog_not {k : Nat} {b : Bool} {op : Op} {rest : List Op}
    (h : List.replicate k Op.pull ++ (if b then [Op.clear] else []) = op :: rest) :
    op = Op.pull ∨ op = Op.clear := by
  cases k with
  | zero => cases b <;> simp at h; exact Or.inr h.1.symm
  | succ k' => simp [List.replicate_succ] at h; exact Or.inl h.1.symm

theorem clear_len_pos (m : Morass.State) : (clear m).len = 0 ∧ (clear m).pos = 0 ∧ (clear m).err = none := by
  unfold clear; split <;> exact ⟨rfl, rfl, rfl⟩

theorem sorted_append {l₁ l₂ : List Elem} (h1 : Sorted l₁) (h2 : Sorted l₂)
    (h : ∀ a ∈ l₁, ∀ b ∈ l₂, a.key ≤ b.key) : Sorted (l₁ ++ l₂) :=
  List.pairwise_append.mpr ⟨h1, h2, h⟩

/-- what has been delivered, completed by a sorted enumeration of what remains, is the sorted
    enumeration the property talks about -/
theorem D_ys {ds rem P : List Elem} (hsd : Sorted ds) (hperm : (ds ++ rem).Perm P)
    (hle : ∀ d ∈ ds, ∀ r ∈ rem, d.key ≤ r.key) : SortedPermOf (ds ++ sortRun rem) P := by
  refine ⟨(List.Perm.append_left ds (sortRun_perm rem)).trans hperm, ?_⟩
  apply sorted_append hsd (sortRun_sorted rem)
  intro a ha b hb
  exact hle a ha b ((sortRun_perm rem).mem_iff.mp hb)

theorem D_final {s : CState} (hD : PhaseD c ac cy s) (hprog : s.prog = []) (hcl : cy.clear = false) :
    Final ac cy s := by
  obtain ⟨ds, e, k, hp, hcount, houts, hsd, hcase⟩ := hD.ex
  rw [hprog, hcl] at hp
  have hk : k = 0 := by
    cases k with
    | zero => rfl
    | succ k' => simp [List.replicate_succ] at hp
  subst hk
  rcases hcase with ⟨he, hdr, hperm, hle, _⟩ | ⟨he, _, hperm, _⟩
  · subst he
    refine ⟨ds ++ sortRun (remaining s.m), D_ys hsd hperm hle, ?_⟩
    rw [houts, ← final_outs ac cy ds (sortRun (remaining s.m)) 0 (by omega) (by omega), hcl]
    simp
  · refine ⟨ds ++ [], by rw [List.append_nil]; exact ⟨hperm, hsd⟩, ?_⟩
    rw [houts, ← final_outs ac cy ds [] e (by omega) (fun _ => rfl), hcl]
    simp

theorem D_cstep {s t : CState} (hD : PhaseD c ac cy s) (hst : CStep s t) : CInv c ac cy t := by
  obtain ⟨ds, e, k, hp, hcount, houts, hsd, hcase⟩ := hD.ex
  have hfast : s.m.fast = true → s.m.files = [] := by
    intro hf
    have from_dr : ∀ {n}, Draining c ac 1 s.m n → s.m.files = [] := by
      intro n hdr
      rcases hdr.shape with ⟨_, h, _⟩ | ⟨h, _⟩
      · exact h
      · rw [hf] at h; cases h
    rcases hcase with ⟨_, hdr, _⟩ | ⟨_, hat, _⟩
    · exact from_dr hdr
    · rcases hat with ⟨hdr, _⟩ | ⟨_, hfr⟩
      · exact from_dr hdr
      · exact hfr.files
  have pcne : ∀ {p : CPc}, s.pc = p → p = .idle := fun hp' => by rw [← hp']; exact hD.pc
  have progne : ∀ {op : Op} {rest : List Op}, s.prog = op :: rest → op = Op.pull ∨ op = Op.clear := by
    intro op rest h'; rw [hp] at h'; exact dprog_not h'
  cases hst with
  | pushErr _ _ _ _ h' => rcases progne h' with h | h <;> cases h
  | pushNil _ _ _ h' => rcases progne h' with h | h <;> cases h
  | pushFull _ _ _ _ h' => rcases progne h' with h | h <;> cases h
  | pushRoom _ _ _ _ h' => rcases progne h' with h | h <;> cases h
  | finErr _ _ _ h' => rcases progne h' with h | h <;> cases h
  | finNil _ _ h' => rcases progne h' with h | h <;> cases h
  | finFast _ _ _ h' => rcases progne h' with h | h <;> cases h
  | finDisk _ _ _ h' => rcases progne h' with h | h <;> cases h
  | finEmpty _ _ _ _ _ _ h' => rcases progne h' with h | h <;> cases h
  | reject _ _ h' => rcases progne h' with h | h <;> cases h
  | send _ _ hpc => cases pcne hpc
  | recvErr _ _ _ hpc => cases pcne hpc
  | recvOk _ _ hpc => cases pcne hpc
  | fsend _ _ hpc => cases pcne hpc
  | fwrite _ _ hpc => cases pcne hpc
  | waitErr _ hpc => cases pcne hpc
  | waitOk _ _ _ hpc => cases pcne hpc
  | pull rest hpc hprog =>
    rw [hp] at hprog
    obtain ⟨k', rfl, hrest⟩ := dprog_pull hprog
    have hfr := pullF_frame s
    rcases pullF_spec s hfast with hio | ⟨hm, hres⟩
    · refine Or.inl ?_
      rw [hio]; exact Reported_finish _
    · have hquiet : ∀ w ∈ (finishOp (pullF s).1 (pullF s).2.1 (pullF s).2.2).writers, w.pc = .done := by
        intro w hw; simp only [finishOp, hfr.writers] at hw; exact hD.quiet w hw
      have hprog' : ∀ r v, r ≠ Res.panic → r ≠ Res.hang → r ≠ Res.ioerr →
          (finishOp (pullF s).1 r v).prog = List.replicate k' Op.pull ++ (if cy.clear then [Op.clear] else []) := by
        intro r v h1 h2 h3
        simp only [finishOp, h1, h2, h3, or_self, if_false, hfr.prog, hp]
        simp [List.replicate_succ]
      have houts' : ∀ r v, (finishOp (pullF s).1 r v).outs.reverse
          = s.outs.reverse ++ [⟨r, v, (pull s.m).1.len, (pull s.m).1.pos⟩] := by
        intro r v; rw [finishOp_outs, hfr.outs, hm]
      rcases hcase with ⟨he, hdr, hperm, hle, hpos⟩ | ⟨he, hat, hperm, _⟩
      · subst he
        by_cases hrem : remaining s.m = []
        · -- io.EOF
          obtain ⟨h1, h2, h3, h4⟩ := pull_eof (Nat.le_refl 1) hdr hrem
          have hr : (pullF s).2.1 = .eof := by rw [hres, h1]
          have hv : (pullF s).2.2 = none := by rw [hres, h1]
          have hlp : (⟨.eof, none, (pull s.m).1.len, (pull s.m).1.pos⟩ : Out) = eofOut ac cy.pushes.length := by
            cases ac with
            | true => have := h3 rfl; simp [eofOut, this.len, this.pos]
            | false => obtain ⟨a, b⟩ := h4 rfl; simp [eofOut, a, b]
          have herr' : (pull s.m).1.err = none := by
            rcases h2 with ⟨hd', _⟩ | ⟨_, hf'⟩
            · exact hd'.err
            · exact hf'.err
          refine Or.inr (Or.inr ⟨by simp [finishOp, hm, herr'], Or.inr (Or.inr (Or.inl ⟨rfl, hquiet, ?_⟩))⟩)
          refine ⟨ds, 1, k', ?_, by omega, ?_, hsd, Or.inr ⟨by omega, ?_, ?_, ?_⟩⟩
          · rw [hr]; exact hprog' _ _ (by simp) (by simp) (by simp)
          · rw [hr, hv, houts', houts, hlp]; simp
          · show AtEof c ac 1 (finishOp _ _ _).m _; simp only [finishOp, hm]; exact h2
          · rw [hrem] at hperm; simpa using hperm
          · show ac = true → Fresh c ac 1 (finishOp _ _ _).m; simp only [finishOp, hm]; exact h3
        · -- a value
          obtain ⟨v, h1, h2, hdr', hperm', hmin⟩ := pull_some hdr hrem
          have hr : (pullF s).2.1 = .ok := by rw [hres, h1]
          have hv : (pullF s).2.2 = some v := by rw [hres, h2]
          have hpos' : (pull s.m).1.pos = ds.length + 1 := by
            have a := hdr.cnt; have b := hdr'.cnt
            have := hperm'.length_eq; simp only [List.length_cons] at this
            omega
          refine Or.inr (Or.inr ⟨by simp [finishOp, hm, hdr'.err], Or.inr (Or.inr (Or.inl ⟨rfl, hquiet, ?_⟩))⟩)
          refine ⟨ds ++ [v], 0, k', ?_, by simp; omega, ?_, ?_, Or.inl ⟨rfl, ?_, ?_, ?_, ?_⟩⟩
          · rw [hr]; exact hprog' _ _ (by simp) (by simp) (by simp)
          · rw [hr, hv, houts', houts, dOuts_append, hdr'.len, hpos']; simp
          · apply sorted_append hsd (by simp [Sorted])
            intro a ha b hb
            simp only [List.mem_singleton] at hb; subst hb
            exact hle a ha b (hperm'.mem_iff.mpr (by simp))
          · show Draining c ac 1 (finishOp _ _ _).m _; simp only [finishOp, hm]; exact hdr'
          · simp only [finishOp, hm]
            refine List.Perm.trans ?_ hperm
            rw [List.append_assoc]
            exact List.Perm.append_left ds hperm'.symm
          · intro d hd r hr'
            simp only [finishOp, hm] at hr'
            rcases List.mem_append.mp hd with hd | hd
            · exact hle d hd r (hperm'.mem_iff.mpr (List.mem_cons_of_mem _ hr'))
            · simp only [List.mem_singleton] at hd; subst hd; exact hmin r hr'
          · simp [finishOp, hm, hpos']
      · -- io.EOF again
        obtain ⟨h1, h2, h3⟩ := step_pull_ateof (Nat.le_refl 1) hat
        have hstep : Morass.step s.m .pull = ((pull s.m).1, ⟨(pull s.m).2.1, (pull s.m).2.2, (pull s.m).1.len, (pull s.m).1.pos⟩) := rfl
        rw [hstep] at h1 h2
        simp only at h1 h2
        have hr : (pullF s).2.1 = .eof := by rw [hres]; have := congrArg Out.res h1; simpa [eofOut] using this
        have hv : (pullF s).2.2 = none := by rw [hres]; have := congrArg Out.val h1; simpa [eofOut] using this
        have hlp : (⟨.eof, none, (pull s.m).1.len, (pull s.m).1.pos⟩ : Out) = eofOut ac cy.pushes.length := by
          rw [← h1]
          have a := congrArg Out.res h1; have b := congrArg Out.val h1
          simp only [eofOut] at a b
          simp [a, b]
        have herr' : (pull s.m).1.err = none := by
          rcases h2 with ⟨hd', _⟩ | ⟨_, hf'⟩
          · exact hd'.err
          · exact hf'.err
        refine Or.inr (Or.inr ⟨by simp [finishOp, hm, herr'], Or.inr (Or.inr (Or.inl ⟨rfl, hquiet, ?_⟩))⟩)
        refine ⟨ds, e + 1, k', ?_, by omega, ?_, hsd, Or.inr ⟨by omega, ?_, hperm, ?_⟩⟩
        · rw [hr]; exact hprog' _ _ (by simp) (by simp) (by simp)
        · rw [hr, hv, houts', houts, hlp]; simp [List.replicate_succ']
        · show AtEof c ac 1 (finishOp _ _ _).m _; simp only [finishOp, hm]; exact h2
        · show ac = true → Fresh c ac 1 (finishOp _ _ _).m; simp only [finishOp, hm]; exact h3
  | clear rest hpc hprog =>
    rw [hp] at hprog
    obtain ⟨rfl, hcl, rfl⟩ := dprog_clear hprog
    have hfr := clearF_frame s
    rcases clearF_spec s with ⟨hio, _⟩ | ⟨hok, hm⟩
    · refine Or.inl ?_
      rw [hio]; exact Reported_finish _
    · obtain ⟨hl0, hp0, he0⟩ := clear_len_pos s.m
      refine Or.inr (Or.inr ⟨by simp [finishOp, hm, he0], Or.inr (Or.inr (Or.inr ⟨rfl, ?_, ?_, ?_, ?_, ?_⟩))⟩)
      · rw [hok, finishOp_ok_prog, hfr.prog, hp, hcl]; rfl
      · intro w hw; simp only [finishOp, hfr.writers] at hw; exact hD.quiet w hw
      · show (finishOp _ _ _).m.files = []
        simp only [finishOp, hm]; unfold clear; split <;> rfl
      · have houts' : (finishOp (clearF s).1 (clearF s).2 none).outs.reverse
            = s.outs.reverse ++ [⟨.ok, none, 0, 0⟩] := by
          rw [finishOp_outs, hfr.outs, hm, hok, hl0, hp0]
        rcases hcase with ⟨he, hdr, hperm, hle, _⟩ | ⟨he, _, hperm, _⟩
        · subst he
          refine ⟨ds ++ sortRun (remaining s.m), D_ys hsd hperm hle, ?_⟩
          rw [houts', houts, ← final_outs ac cy ds (sortRun (remaining s.m)) 0 (by omega) (by omega), hcl]
          simp
        · refine ⟨ds ++ [], by rw [List.append_nil]; exact ⟨hperm, hsd⟩, ?_⟩
          rw [houts', houts, ← final_outs ac cy ds [] e (by omega) (fun _ => rfl), hcl]
          simp
      · show Fresh c ac 1 (finishOp _ _ _).m
        simp only [finishOp, hm]
        rcases hcase with ⟨_, hdr, _⟩ | ⟨_, hat, _⟩
        · exact clear_draining hdr
        · rcases hat with ⟨hdr, _⟩ | ⟨_, hfr⟩
          · exact clear_draining hdr
          · exact clear_fresh hfr

/-! ### the invariant holds in every reachable state -/

theorem E_cstep {s t : CState} (hE : PhaseEnd c ac cy s) (hst : CStep s t) : CInv c ac cy t := by
  have pcne : ∀ {p : CPc}, s.pc = p → p = .idle := fun hp' => by rw [← hp']; exact hE.pc
  have progne : ∀ {op : Op} {rest : List Op}, s.prog = op :: rest → False := by
    intro op rest h'; rw [hE.prog] at h'; cases h'
  cases hst with
  | pushErr _ _ _ _ h' => exact (progne h').elim
  | pushNil _ _ _ h' => exact (progne h').elim
  | pushFull _ _ _ _ h' => exact (progne h').elim
  | pushRoom _ _ _ _ h' => exact (progne h').elim
  | finErr _ _ _ h' => exact (progne h').elim
  | finNil _ _ h' => exact (progne h').elim
  | finFast _ _ _ h' => exact (progne h').elim
  | finDisk _ _ _ h' => exact (progne h').elim
  | finEmpty _ _ _ _ _ _ h' => exact (progne h').elim
  | pull _ _ h' => exact (progne h').elim
  | clear _ _ h' => exact (progne h').elim
  | reject _ _ h' => exact (progne h').elim
  | send _ _ hpc => cases pcne hpc
  | recvErr _ _ _ hpc => cases pcne hpc
  | recvOk _ _ hpc => cases pcne hpc
  | fsend _ _ hpc => cases pcne hpc
  | fwrite _ _ hpc => cases pcne hpc
  | waitErr _ hpc => cases pcne hpc
  | waitOk _ _ _ hpc => cases pcne hpc

theorem CInv_step {s t : CState} {i : Nat} (hc : 1 ≤ c) (hs : Str s) (h : CInv c ac cy s)
    (hst : step s i = some t) : CInv c ac cy t := by
  cases i with
  | zero =>
    have hcs := cstep_cases (show cstep s = some t from hst)
    rcases h with hrep | hpend | ⟨herr, hF | hZ | hD | hE⟩
    · exact Or.inl (Reported_cstep hs hrep hcs)
    · rcases Pending_cstep hs hpend hcs with h' | h'
      · exact Or.inl h'
      · exact Or.inr (Or.inl h')
    · obtain ⟨xs, todo, ch, cp, hF⟩ := hF
      exact F_cstep c ac cy hc hs herr hF hcs
    · obtain ⟨A, cp, hZ⟩ := hZ
      exact Z_cstep c ac cy hs herr hZ hcs
    · exact D_cstep c ac cy hD hcs
    · exact E_cstep c ac cy hE hcs
  | succ k =>
    simp only [step] at hst
    cases hk : s.writers[k]? with
    | none => simp [hk] at hst
    | some w =>
      simp only [hk] at hst
      cases hw : wstep s w with
      | none => simp [hw] at hst
      | some p =>
        obtain ⟨w', s'⟩ := p
        simp only [hw, Option.some.injEq] at hst; subst hst
        exact CInv_wactor c ac cy hs h hk hw

theorem CInv_init (conc : Bool) (acl : Bool) (flt : Fault) (reuse : Bool := false) :
    CInv c ac cy (initState conc c ac acl cy.ops flt reuse) := by
  refine Or.inr (Or.inr ⟨rfl, Or.inl ⟨[], cy.pushes, [], [], ?_⟩⟩)
  refine ⟨by simp, cycle_ops_eq cy, by simp [initState, pushOuts], rfl, rfl, rfl, rfl, rfl, by simp,
    fun _ => ⟨rfl, rfl⟩, DI_init, Or.inl ⟨rfl, rfl, by simp [initState], fun h => by simp [initState] at h⟩⟩

theorem reach_CInv (hc : 1 ≤ c) {conc acl : Bool} {flt : Fault} {reuse : Bool} {s : CState}
    (h : Reach (sys conc c ac acl cy.ops flt reuse) s) : CInv c ac cy s := by
  have : Str s ∧ CInv c ac cy s := by
    refine inv_of_reach _ (fun s => Str s ∧ CInv c ac cy s) ⟨Str_init _ _ _ _ _ _ _, CInv_init c ac cy conc acl flt reuse⟩ ?_ s h
    intro a i b hab hst
    exact ⟨Str_step hab.1 hst, CInv_step c ac cy hc hab.1 hab.2 hst⟩
  exact this.2

/-- when the caller has returned from the last call of the cycle: an I/O error was returned to
    it, or all outputs are those the property demands -/
theorem finished_of_CInv {s : CState} (h : CInv c ac cy s) (hfin : finished s = true) :
    Reported s ∨ Final ac cy s := by
  simp only [finished, Bool.and_eq_true, List.isEmpty_iff, beq_iff_eq] at hfin
  obtain ⟨hprog, hpc⟩ := hfin
  rcases h with hrep | hpend | ⟨_, hF | hZ | hD | hE⟩
  · exact Or.inl hrep
  · obtain ⟨_, ⟨e, r, h'⟩ | ⟨r, h'⟩⟩ := hpend <;> rw [hprog] at h' <;> cases h'
  · obtain ⟨xs, todo, ch, cp, hF⟩ := hF
    have := hF.prog; rw [hprog] at this
    cases todo <;> simp at this
  · obtain ⟨A, cp, hZ⟩ := hZ
    have := hZ.prog; rw [hprog] at this; cases this
  · right
    obtain ⟨ds, e, k, hp, _⟩ := hD.ex
    rw [hprog] at hp
    have hcl : cy.clear = false := by
      cases hcl : cy.clear with
      | false => rfl
      | true => rw [hcl] at hp; cases k <;> simp [List.replicate_succ] at hp
    exact D_final c ac cy hD hprog hcl
  · exact Or.inr hE.final

/-! ### without an injected fault nothing fails -/

def NoFault (s : CState) : Prop := s.flt = [] ∧ s.m.err = none ∧ ∀ o ∈ s.outs, o.res ≠ .ioerr

theorem tick_none (pt : Pt) : tick [] pt = (false, []) := rfl

theorem clearLoop_none : ∀ (d : Nat) (fs : List File), ∃ d', clearLoop [] d fs = ([], d', true) := by
  intro d fs
  induction fs generalizing d with
  | nil => exact ⟨d, rfl⟩
  | cons f fs ih =>
    obtain ⟨d', h⟩ := ih (d - 1)
    exact ⟨d', by simp [clearLoop, tick_none, h]⟩

theorem primeAll_none : ∀ (fs : List File), ∃ fs', primeAll [] fs = ([], fs', true) := by
  intro fs
  induction fs with
  | nil => exact ⟨[], rfl⟩
  | cons f fs ih =>
    obtain ⟨fs', h⟩ := ih
    exact ⟨primeFile f :: fs', by simp [primeAll, tick_none, h]⟩

theorem clearF_nofault {s : CState} (h : s.flt = []) :
    (clearF s).2 = .ok ∧ (clearF s).1.flt = [] ∧ (clearF s).1.m.err = none := by
  obtain ⟨d', hd⟩ := clearLoop_none s.onDisk s.m.files
  refine ⟨?_, ?_, ?_⟩ <;> simp [clearF, h, hd, (clear_len_pos s.m).2.2]

theorem wstep_nofault {s s' : CState} {w w' : Writer} (hf : s.flt = []) (h : wstep s w = some (w', s')) :
    s'.flt = [] ∧ s'.m.err = s.m.err ∧ s'.outs = s.outs := by
  unfold wstep at h
  cases hpc : w.pc <;> simp only [hpc, hf, tick_none] at h
  · cases hr : s.writable.recv with
    | none => simp [hr] at h
    | some p =>
      obtain ⟨r, ch⟩ := p
      simp only [hr, Bool.false_eq_true, if_false, Option.some.injEq, Prod.mk.injEq] at h
      obtain ⟨_, rfl⟩ := h; exact ⟨rfl, rfl, rfl⟩
  · simp only [Option.some.injEq, Prod.mk.injEq] at h; obtain ⟨_, rfl⟩ := h; exact ⟨by first | rfl | exact hf, rfl, rfl⟩
  · cases htodo : w.todo with
    | nil => simp only [htodo, Option.some.injEq, Prod.mk.injEq] at h; obtain ⟨_, rfl⟩ := h; exact ⟨by first | rfl | exact hf, rfl, rfl⟩
    | cons e t =>
      simp only [htodo, Bool.false_eq_true, if_false, Option.some.injEq, Prod.mk.injEq] at h
      obtain ⟨_, rfl⟩ := h; exact ⟨rfl, rfl, rfl⟩
  · simp only [Bool.false_eq_true, if_false, Option.some.injEq, Prod.mk.injEq] at h
    obtain ⟨_, rfl⟩ := h; exact ⟨rfl, rfl, rfl⟩
  · split at h
    · simp only [Option.some.injEq, Prod.mk.injEq] at h; obtain ⟨_, rfl⟩ := h; exact ⟨by first | rfl | exact hf, rfl, rfl⟩
    · simp at h
  · simp at h

theorem condClear_nofault (b : Bool) {s : CState} (hf : s.flt = []) (he : s.m.err = none) :
    (if b = true then (clearF s).1 else s).flt = [] ∧ (if b = true then (clearF s).1 else s).m.err = none := by
  cases b
  · exact ⟨hf, he⟩
  · exact ⟨(clearF_nofault hf).2.1, (clearF_nofault hf).2.2⟩

theorem atEof_keep (s : CState) : (atEof s).flt = s.flt ∧ (atEof s).m = s.m := by
  unfold atEof; split <;> exact ⟨rfl, rfl⟩

theorem pullF_nofault {s : CState} (hf : s.flt = []) (he : s.m.err = none) :
    (pullF s).2.1 ≠ .ioerr ∧ (pullF s).1.flt = [] ∧ (pullF s).1.m.err = none := by
  cases hfa : s.m.fast
  · cases hpm : popMin s.m.files with
    | none =>
      have e1 : pullF s = (atEof (if s.m.autoClear = true then (clearF s).1 else s), .eof, none) := by
        simp [pullF, hfa, hpm]
      rw [e1]
      obtain ⟨a, b⟩ := atEof_keep (if s.m.autoClear = true then (clearF s).1 else s)
      obtain ⟨c', d⟩ := condClear_nofault s.m.autoClear hf he
      exact ⟨by simp, by rw [a]; exact c', by rw [b]; exact d⟩
    | some p =>
      obtain ⟨low, others⟩ := p
      cases hr : low.rest <;> cases hh : low.head <;>
        simp [pullF, hfa, hpm, hf, tick_none, hr, hh, he]
  · cases hch : s.m.chunk with
    | none =>
      have e1 : pullF s = (atEof (if s.m.autoClear = true then (clearF s).1 else s), .eof, none) := by
        simp [pullF, hfa, hch]
      rw [e1]
      obtain ⟨a, b⟩ := atEof_keep (if s.m.autoClear = true then (clearF s).1 else s)
      obtain ⟨c', d⟩ := condClear_nofault s.m.autoClear hf he
      exact ⟨by simp, by rw [a]; exact c', by rw [b]; exact d⟩
    | some ch =>
      cases hg : ch[s.m.pos]? with
      | some e => simp [pullF, hfa, hch, hg, hf, he]
      | none =>
        by_cases h2 : 2 ≤ s.m.pool
        · simp [pullF, hfa, hch, hg, h2, hf, he]
        · have e1 : pullF s = (atEof (if s.m.autoClear = true
                then (clearF { s with m := { s.m with pool := s.m.pool + 1, chunk := none } }).1
                else { s with m := { s.m with pool := s.m.pool + 1, chunk := none } }), .eof, none) := by
            simp [pullF, hfa, hch, hg, h2]
          rw [e1]
          obtain ⟨a, b⟩ := atEof_keep (if s.m.autoClear = true
                then (clearF { s with m := { s.m with pool := s.m.pool + 1, chunk := none } }).1
                else { s with m := { s.m with pool := s.m.pool + 1, chunk := none } })
          obtain ⟨c', d⟩ := condClear_nofault s.m.autoClear
            (s := { s with m := { s.m with pool := s.m.pool + 1, chunk := none } }) hf he
          exact ⟨by simp, by rw [a]; exact c', by rw [b]; exact d⟩

theorem NoFault_finish {s s1 : CState} (h : NoFault s) (hf : s1.flt = []) (he : s1.m.err = none)
    (ho : s1.outs = s.outs) (r : Res) (v : Option Elem) (hr : r ≠ .ioerr) : NoFault (finishOp s1 r v) := by
  refine ⟨hf, he, ?_⟩
  intro o hmem
  simp only [finishOp, List.mem_cons] at hmem
  rcases hmem with rfl | hmem
  · exact hr
  · rw [ho] at hmem; exact h.2.2 o hmem

theorem NoFault_cstep {s t : CState} (h : NoFault s) (hst : CStep s t) : NoFault t := by
  obtain ⟨hf, he, ho⟩ := h
  have h0 : NoFault s := ⟨hf, he, ho⟩
  cases hst with
  | pushErr _ _ _ _ _ he' => rw [he] at he'; cases he'
  | finErr _ _ _ _ he' => rw [he] at he'; cases he'
  | recvErr _ _ _ _ _ _ he' => rw [he] at he'; cases he'
  | waitErr _ _ _ he' => rw [he] at he'; cases he'
  | pushNil => exact NoFault_finish h0 hf he rfl _ _ (by simp)
  | pushFull => exact ⟨hf, he, ho⟩
  | pushRoom e rest ch _ _ _ hch hfull =>
    apply NoFault_finish h0
    · exact hf
    · show (push s.m e).1.err = none
      rw [push_room e he hch hfull]; exact he
    · rfl
    · simp
  | finNil => exact NoFault_finish h0 hf he rfl _ _ (by simp)
  | finFast rest ch _ _ _ hch hlt =>
    apply NoFault_finish h0
    · exact hf
    · show (finalise s.m).1.err = none
      simp [finalise, he, hch, hlt]
    · rfl
    · simp
  | finDisk => exact ⟨hf, he, ho⟩
  | finEmpty rest ch flt fs ok _ _ _ _ _ _ hp =>
    obtain ⟨fs', h'⟩ := primeAll_none s.m.files
    rw [hf, h'] at hp
    simp only [Prod.mk.injEq] at hp
    obtain ⟨rfl, rfl, rfl⟩ := hp
    apply NoFault_finish h0
    · rfl
    · exact he
    · rfl
    · simp
  | pull =>
    obtain ⟨a, b, c'⟩ := pullF_nofault hf he
    exact NoFault_finish h0 b c' (pullF_frame s).outs _ _ a
  | clear =>
    obtain ⟨a, b, c'⟩ := clearF_nofault hf
    apply NoFault_finish h0 b c' (clearF_frame s).outs _ _
    rw [a]; simp
  | reject => exact NoFault_finish h0 hf he rfl _ _ (by simp)
  | send => exact ⟨hf, he, ho⟩
  | recvOk =>
    apply NoFault_finish h0
    · exact hf
    · exact he
    · rfl
    · simp
  | fsend => exact ⟨hf, he, ho⟩
  | fwrite w s' _ hw =>
    obtain ⟨a, b, c'⟩ := wstep_nofault hf hw
    exact ⟨a, by show s'.m.err = none; rw [b]; exact he, by show ∀ o ∈ s'.outs, _; rw [c']; exact ho⟩
  | waitOk flt fs ok _ _ _ hp =>
    obtain ⟨fs', h'⟩ := primeAll_none s.m.files
    rw [hf, h'] at hp
    simp only [Prod.mk.injEq] at hp
    obtain ⟨rfl, rfl, rfl⟩ := hp
    apply NoFault_finish h0
    · rfl
    · exact he
    · rfl
    · simp

theorem NoFault_step {s t : CState} {i : Nat} (h : NoFault s) (hst : step s i = some t) : NoFault t := by
  cases i with
  | zero => exact NoFault_cstep h (cstep_cases (show cstep s = some t from hst))
  | succ k =>
    simp only [step] at hst
    cases hk : s.writers[k]? with
    | none => simp [hk] at hst
    | some w =>
      simp only [hk] at hst
      cases hw : wstep s w with
      | none => simp [hw] at hst
      | some p =>
        obtain ⟨w', s'⟩ := p
        simp only [hw, Option.some.injEq] at hst; subst hst
        obtain ⟨a, b, c'⟩ := wstep_nofault h.1 hw
        exact ⟨a, by show s'.m.err = none; rw [b]; exact h.2.1, by show ∀ o ∈ s'.outs, _; rw [c']; exact h.2.2⟩

theorem reach_NoFault {conc : Bool} {c : Nat} {ac acl : Bool} {prog : List Op} {reuse : Bool} {s : CState}
    (h : Reach (sys conc c ac acl prog [] reuse) s) : NoFault s :=
  inv_of_reach _ NoFault ⟨rfl, rfl, by simp [sys, initState]⟩ (fun _ _ _ hs hst => NoFault_step hs hst) s h

/-! ### residue of the temporary directory: AutoClean -/

theorem clearF_dir (s : CState) : (clearF s).1.dirExists = s.dirExists ∧ (clearF s).1.autoClean = s.autoClean := by
  unfold clearF
  cases clearLoop s.flt s.onDisk s.m.files with
  | mk flt rest => obtain ⟨d, ok⟩ := rest; cases ok <;> exact ⟨rfl, rfl⟩

theorem condClear_dir (b : Bool) (s : CState) :
    (if b = true then (clearF s).1 else s).dirExists = s.dirExists
    ∧ (if b = true then (clearF s).1 else s).autoClean = s.autoClean := by
  cases b
  · exact ⟨rfl, rfl⟩
  · exact clearF_dir s

theorem atEof_dir (s : CState) : (s.autoClean = true → (atEof s).dirExists = false)
    ∧ (s.dirExists = false → (atEof s).dirExists = false) := by
  unfold atEof
  constructor
  · intro h; simp [h]
  · intro h; split
    · rfl
    · exact h

/-- `Pull` never re-creates the directory, and removes it when it reports io.EOF under AutoClean -/
theorem pullF_dir (s : CState) :
    (s.dirExists = false → (pullF s).1.dirExists = false)
    ∧ ((pullF s).2.1 = .eof → s.autoClean = true → (pullF s).1.dirExists = false) := by
  have eofcase : ∀ (s1 : CState), s1.dirExists = s.dirExists → s1.autoClean = s.autoClean →
      (s.dirExists = false → (atEof (if s.m.autoClear = true then (clearF s1).1 else s1)).dirExists = false)
      ∧ (s.autoClean = true → (atEof (if s.m.autoClear = true then (clearF s1).1 else s1)).dirExists = false) := by
    intro s1 h1 h2
    obtain ⟨a, b⟩ := condClear_dir s.m.autoClear s1
    obtain ⟨c', d⟩ := atEof_dir (if s.m.autoClear = true then (clearF s1).1 else s1)
    exact ⟨fun h => d (by rw [a, h1]; exact h), fun h => c' (by rw [b, h2]; exact h)⟩
  cases hfa : s.m.fast
  · cases hpm : popMin s.m.files with
    | none =>
      have e1 : pullF s = (atEof (if s.m.autoClear = true then (clearF s).1 else s), .eof, none) := by
        simp [pullF, hfa, hpm]
      rw [e1]
      obtain ⟨a, b⟩ := eofcase s rfl rfl
      exact ⟨a, fun _ => b⟩
    | some p =>
      obtain ⟨low, others⟩ := p
      cases ht : tick s.flt .pdecode with
      | mk bad flt =>
        cases bad <;> cases hr : low.rest <;> cases hh : low.head <;>
          simp [pullF, hfa, hpm, ht, hr, hh]
  · cases hch : s.m.chunk with
    | none =>
      have e1 : pullF s = (atEof (if s.m.autoClear = true then (clearF s).1 else s), .eof, none) := by
        simp [pullF, hfa, hch]
      rw [e1]
      obtain ⟨a, b⟩ := eofcase s rfl rfl
      exact ⟨a, fun _ => b⟩
    | some ch =>
      cases hg : ch[s.m.pos]? with
      | some e => simp [pullF, hfa, hch, hg]
      | none =>
        by_cases h2 : 2 ≤ s.m.pool
        · simp [pullF, hfa, hch, hg, h2]
        · have e1 : pullF s = (atEof (if s.m.autoClear = true
                then (clearF { s with m := { s.m with pool := s.m.pool + 1, chunk := none } }).1
                else { s with m := { s.m with pool := s.m.pool + 1, chunk := none } }), .eof, none) := by
            simp [pullF, hfa, hch, hg, h2]
          rw [e1]
          obtain ⟨a, b⟩ := eofcase { s with m := { s.m with pool := s.m.pool + 1, chunk := none } } rfl rfl
          exact ⟨a, fun _ => b⟩

theorem wstep_dir {s s' : CState} {w w' : Writer} (h : wstep s w = some (w', s')) :
    s'.dirExists = s.dirExists ∧ s'.autoClean = s.autoClean := by
  unfold wstep at h
  cases hpc : w.pc <;> simp only [hpc] at h
  · cases hr : s.writable.recv with
    | none => simp [hr] at h
    | some p =>
      obtain ⟨r, ch⟩ := p
      simp only [hr] at h
      cases ht : tick s.flt .tempfile with
      | mk bad flt =>
        simp only [ht] at h
        cases bad <;> simp only [Bool.false_eq_true, if_false, if_true, Option.some.injEq, Prod.mk.injEq] at h <;>
          obtain ⟨_, rfl⟩ := h <;> exact ⟨rfl, rfl⟩
  · simp only [Option.some.injEq, Prod.mk.injEq] at h; obtain ⟨_, rfl⟩ := h; exact ⟨rfl, rfl⟩
  · cases htodo : w.todo with
    | nil => simp only [htodo, Option.some.injEq, Prod.mk.injEq] at h; obtain ⟨_, rfl⟩ := h; exact ⟨rfl, rfl⟩
    | cons e t =>
      simp only [htodo] at h
      cases ht : tick s.flt .encode with
      | mk bad flt =>
        simp only [ht] at h
        cases bad <;> simp only [Bool.false_eq_true, if_false, if_true, Option.some.injEq, Prod.mk.injEq] at h <;>
          obtain ⟨_, rfl⟩ := h <;> exact ⟨rfl, rfl⟩
  · cases ht : tick s.flt .sync with
    | mk bad flt =>
      simp only [ht, Option.some.injEq, Prod.mk.injEq] at h
      obtain ⟨_, rfl⟩ := h; exact ⟨rfl, rfl⟩
  · split at h
    · simp only [Option.some.injEq, Prod.mk.injEq] at h; obtain ⟨_, rfl⟩ := h; exact ⟨rfl, rfl⟩
    · simp at h
  · simp at h

/-- under AutoClean, once a `Pull` has reported io.EOF the directory is gone (no fault injected) -/
def EofDir (s : CState) : Prop :=
  NoFault s ∧ (s.autoClean = true → (∃ o ∈ s.outs, o.res = .eof) → s.dirExists = false)

theorem EofDir_finish {s s1 : CState} (h : EofDir s) (hn : NoFault (finishOp s1 r v))
    (ha : s1.autoClean = s.autoClean) (ho : s1.outs = s.outs)
    (hd : s.dirExists = false → s1.dirExists = false)
    (heof : r = .eof → s.autoClean = true → s1.dirExists = false) : EofDir (finishOp s1 r v) := by
  refine ⟨hn, ?_⟩
  intro hacl ⟨o, hmem, hres⟩
  have hacl' : s.autoClean = true := by rw [← ha]; exact hacl
  simp only [finishOp, List.mem_cons] at hmem
  show s1.dirExists = false
  rcases hmem with rfl | hmem
  · exact heof hres hacl'
  · rw [ho] at hmem
    exact hd (h.2 hacl' ⟨o, hmem, hres⟩)

theorem EofDir_cstep {s t : CState} (h : EofDir s) (hst : CStep s t) : EofDir t := by
  have hn : NoFault t := NoFault_cstep h.1 hst
  cases hst with
  | pushErr _ _ _ _ _ he' => rw [h.1.2.1] at he'; cases he'
  | finErr _ _ _ _ he' => rw [h.1.2.1] at he'; cases he'
  | recvErr _ _ _ _ _ _ he' => rw [h.1.2.1] at he'; cases he'
  | waitErr _ _ _ he' => rw [h.1.2.1] at he'; cases he'
  | pushNil => exact EofDir_finish h hn rfl rfl id (fun h' => by cases h')
  | pushFull => exact ⟨hn, h.2⟩
  | pushRoom => exact EofDir_finish h hn rfl rfl id (fun h' => by cases h')
  | finNil => exact EofDir_finish h hn rfl rfl id (fun h' => by cases h')
  | finFast => exact EofDir_finish h hn rfl rfl id (fun h' => by cases h')
  | finDisk => exact ⟨hn, h.2⟩
  | finEmpty _ _ _ _ ok =>
    apply EofDir_finish h hn rfl rfl id
    intro h'; cases ok <;> simp at h'
  | pull =>
    obtain ⟨a, b⟩ := pullF_dir s
    exact EofDir_finish h hn (pullF_frame s).autoClean (pullF_frame s).outs a b
  | clear =>
    exact EofDir_finish h hn (clearF_dir s).2 (clearF_frame s).outs (fun h' => by rw [(clearF_dir s).1]; exact h')
      (fun h' => by
        have := (clearF_nofault h.1.1).1
        rw [this] at h'; cases h')
  | reject => exact EofDir_finish h hn rfl rfl id (fun h' => by cases h')
  | send => exact ⟨hn, h.2⟩
  | recvOk => exact EofDir_finish h hn rfl rfl id (fun h' => by cases h')
  | fsend => exact ⟨hn, h.2⟩
  | fwrite w s' _ hw =>
    obtain ⟨_, _, ho⟩ := wstep_nofault h.1.1 hw
    refine ⟨hn, ?_⟩
    intro hacl hex
    show s'.dirExists = false
    rw [(wstep_dir hw).1]
    exact h.2 (by rw [← (wstep_dir hw).2]; exact hacl) (by rw [← ho]; exact hex)
  | waitOk _ _ ok =>
    apply EofDir_finish h hn rfl rfl id
    intro h'; cases ok <;> simp at h'

theorem EofDir_step {s t : CState} {i : Nat} (h : EofDir s) (hst : step s i = some t) : EofDir t := by
  cases i with
  | zero => exact EofDir_cstep h (cstep_cases (show cstep s = some t from hst))
  | succ k =>
    have hn : NoFault t := NoFault_step h.1 hst
    simp only [step] at hst
    cases hk : s.writers[k]? with
    | none => simp [hk] at hst
    | some w =>
      simp only [hk] at hst
      cases hw : wstep s w with
      | none => simp [hw] at hst
      | some p =>
        obtain ⟨w', s'⟩ := p
        simp only [hw, Option.some.injEq] at hst; subst hst
        obtain ⟨_, _, ho⟩ := wstep_nofault h.1.1 hw
        refine ⟨hn, ?_⟩
        intro hacl hex
        show s'.dirExists = false
        rw [(wstep_dir hw).1]
        exact h.2 (by rw [← (wstep_dir hw).2]; exact hacl) (by rw [← ho]; exact hex)

theorem reach_EofDir {conc : Bool} {c : Nat} {ac acl : Bool} {prog : List Op} {reuse : Bool} {s : CState}
    (h : Reach (sys conc c ac acl prog [] reuse) s) : EofDir s :=
  inv_of_reach _ EofDir ⟨⟨rfl, rfl, by simp [sys, initState]⟩, fun _ h' => by simp [sys, initState] at h'⟩
    (fun _ _ _ hs hst => EofDir_step hs hst) s h

theorem autoClean_const {conc : Bool} {c : Nat} {ac acl : Bool} {prog : List Op} {flt : Fault} {reuse : Bool} {s : CState}
    (h : Reach (sys conc c ac acl prog flt reuse) s) : s.autoClean = acl := by
  refine inv_of_reach _ (fun s => s.autoClean = acl) rfl ?_ s h
  intro a i b ha hst
  cases i with
  | zero =>
    have hcs := cstep_cases (show cstep a = some b from hst)
    cases hcs with
    | pull => show (pullF a).1.autoClean = acl; rw [(pullF_frame a).autoClean]; exact ha
    | clear => show (clearF a).1.autoClean = acl; rw [(clearF_frame a).autoClean]; exact ha
    | fwrite w s' _ hw => show s'.autoClean = acl; rw [(wstep_dir hw).2]; exact ha
    | _ => exact ha
  | succ k =>
    have hst : step a (k + 1) = some b := hst
    simp only [step] at hst
    cases hk : a.writers[k]? with
    | none => simp [hk] at hst
    | some w =>
      simp only [hk] at hst
      cases hw : wstep a w with
      | none => simp [hw] at hst
      | some p =>
        obtain ⟨w', s'⟩ := p
        simp only [hw, Option.some.injEq] at hst; subst hst
        show s'.autoClean = acl; rw [(wstep_dir hw).2]; exact ha

/-! ### residue of the temporary directory: AutoClear -/

def atReg (w : Writer) : Bool := w.pc == .register

/-- run files present in the directory = registered files + files created but not yet registered
    (AutoClear set, AutoClean not set, no fault injected) -/
def DiskInv (s : CState) : Prop :=
  s.flt = [] ∧ s.m.autoClear = true ∧ s.autoClean = false ∧ s.onDisk = s.m.files.length + cnt atReg s

theorem clearLoop_none' : ∀ (d : Nat) (fs : List File), clearLoop [] d fs = ([], d - fs.length, true) := by
  intro d fs
  induction fs generalizing d with
  | nil => rfl
  | cons f fs ih =>
    simp only [clearLoop, tick_none, Bool.false_eq_true, if_false, ih (d - 1), List.length_cons]
    congr 2; omega

theorem primeAll_none' : ∀ (fs : List File), primeAll [] fs = ([], fs.map primeFile, true) := by
  intro fs
  induction fs with
  | nil => rfl
  | cons f fs ih => simp [primeAll, tick_none, ih]

theorem clearF_disk {s : CState} (hf : s.flt = []) :
    (clearF s).1.flt = [] ∧ (clearF s).1.onDisk = s.onDisk - s.m.files.length ∧ (clearF s).1.m.files = []
    ∧ (clearF s).1.m.autoClear = s.m.autoClear := by
  have hfiles : (clear s.m).files = [] := by unfold clear; split <;> rfl
  have hac : (clear s.m).autoClear = s.m.autoClear := by unfold clear; split <;> rfl
  refine ⟨?_, ?_, ?_, ?_⟩ <;> simp [clearF, hf, clearLoop_none', hfiles, hac]

theorem popMin_length {fs : List File} {low : File} {others : List File}
    (h : popMin fs = some (low, others)) : fs.length = others.length + 1 := by
  have := (popMin_spec fs low others h).1.length_eq
  simpa using this

/-- the effect of `Pull` on the directory under AutoClear (no AutoClean, no fault) -/
theorem pullF_disk {s : CState} (hf : s.flt = []) (hac : s.m.autoClear = true) (hacl : s.autoClean = false)
    (hle : s.m.files.length ≤ s.onDisk) :
    (pullF s).1.flt = [] ∧ (pullF s).1.m.autoClear = true
    ∧ (pullF s).1.onDisk + s.m.files.length = s.onDisk + (pullF s).1.m.files.length := by
  have eofcase : ∀ (s1 : CState), s1.flt = [] → s1.m.autoClear = true → s1.autoClean = false →
      s1.onDisk = s.onDisk → s1.m.files = s.m.files →
      (atEof (clearF s1).1).flt = [] ∧ (atEof (clearF s1).1).m.autoClear = true
      ∧ (atEof (clearF s1).1).onDisk + s.m.files.length = s.onDisk + (atEof (clearF s1).1).m.files.length := by
    intro s1 h1 h2 h3 h4 h5
    obtain ⟨a, b, c', d⟩ := clearF_disk h1
    have hcl : (clearF s1).1.autoClean = false := by rw [(clearF_dir s1).2]; exact h3
    have he : atEof (clearF s1).1 = (clearF s1).1 := by simp [atEof, hcl]
    rw [he, a, b, c', d, h4, h5]
    exact ⟨rfl, h2, by simp; omega⟩
  cases hfa : s.m.fast
  · cases hpm : popMin s.m.files with
    | none =>
      have e1 : pullF s = (atEof (clearF s).1, .eof, none) := by simp [pullF, hfa, hpm, hac]
      rw [e1]; exact eofcase s hf hac hacl rfl rfl
    | some p =>
      obtain ⟨low, others⟩ := p
      have hlen := popMin_length hpm
      cases hr : low.rest <;> cases hh : low.head <;>
        simp [pullF, hfa, hpm, hf, tick_none, hr, hh, hac] <;> omega
  · cases hch : s.m.chunk with
    | none =>
      have e1 : pullF s = (atEof (clearF s).1, .eof, none) := by simp [pullF, hfa, hch, hac]
      rw [e1]; exact eofcase s hf hac hacl rfl rfl
    | some ch =>
      cases hg : ch[s.m.pos]? with
      | some e => simp [pullF, hfa, hch, hg, hf, hac]
      | none =>
        by_cases h2 : 2 ≤ s.m.pool
        · simp [pullF, hfa, hch, hg, h2, hf, hac]
        · have e1 : pullF s = (atEof (clearF { s with m := { s.m with pool := s.m.pool + 1, chunk := none } }).1, .eof, none) := by
            simp [pullF, hfa, hch, hg, h2, hac]
          rw [e1]
          exact eofcase { s with m := { s.m with pool := s.m.pool + 1, chunk := none } } hf hac hacl rfl rfl

/-- the effect of one `write()` block on the directory (no fault) -/
theorem wstep_disk {s s' : CState} {w w' : Writer} (hf : s.flt = []) (h : wstep s w = some (w', s')) :
    s'.onDisk + s.m.files.length + b2n (atReg w) = s.onDisk + s'.m.files.length + b2n (atReg w')
    ∧ s'.m.autoClear = s.m.autoClear := by
  unfold wstep at h
  cases hpc : w.pc <;> simp only [hpc, hf, tick_none] at h
  · cases hr : s.writable.recv with
    | none => simp [hr] at h
    | some p =>
      obtain ⟨r, ch⟩ := p
      simp only [hr, Bool.false_eq_true, if_false, Option.some.injEq, Prod.mk.injEq] at h
      obtain ⟨rfl, rfl⟩ := h
      simp [atReg, hpc, b2n]; omega
  · simp only [Option.some.injEq, Prod.mk.injEq] at h; obtain ⟨rfl, rfl⟩ := h
    have hne : (if w.todo = [] then WPc.sync else WPc.encode) ≠ WPc.register := by
      split <;> simp
    simp [atReg, hpc, b2n, hne]; omega
  · cases htodo : w.todo with
    | nil =>
      simp only [htodo, Option.some.injEq, Prod.mk.injEq] at h; obtain ⟨rfl, rfl⟩ := h
      simp [atReg, hpc, b2n]
    | cons e t =>
      simp only [htodo, Bool.false_eq_true, if_false, Option.some.injEq, Prod.mk.injEq] at h
      obtain ⟨rfl, rfl⟩ := h
      have hne : (if t = [] then WPc.sync else WPc.encode) ≠ WPc.register := by
        split <;> simp
      simp [atReg, hpc, b2n, appendData, List.length_modify, hne]
  · simp only [Bool.false_eq_true, if_false, Option.some.injEq, Prod.mk.injEq] at h
    obtain ⟨rfl, rfl⟩ := h
    simp [atReg, hpc, b2n]
  · split at h
    · simp only [Option.some.injEq, Prod.mk.injEq] at h; obtain ⟨rfl, rfl⟩ := h
      simp [atReg, hpc, b2n]
    · simp at h
  · simp at h

theorem DiskInv_keep {s t : CState} (h : DiskInv s) (hf : t.flt = []) (hac : t.m.autoClear = true)
    (hacl : t.autoClean = false) (hd : t.onDisk = s.onDisk) (hfl : t.m.files.length = s.m.files.length)
    (hc : cnt atReg t = cnt atReg s) : DiskInv t :=
  ⟨hf, hac, hacl, by rw [hd, hfl, hc]; exact h.2.2.2⟩

theorem cnt_caller (p : Writer → Bool) {s t : CState} (hw : t.writers = s.writers) (hi : t.inl = s.inl)
    (hpc : (t.pc == CPc.finWrite) = (s.pc == CPc.finWrite)) : cnt p t = cnt p s := by
  simp [cnt, hw, hi, hpc]

theorem cnt_notFW (p : Writer → Bool) {s : CState} (h : s.pc ≠ .finWrite) : cnt p s = s.writers.countP p := by
  have : (s.pc == CPc.finWrite) = false := by simpa using h
  simp [cnt, this, b2n]

theorem DiskInv_finishOp {s1 : CState} (h : DiskInv s1) (hpc : s1.pc ≠ .finWrite) (r : Res) (v : Option Elem) :
    DiskInv (finishOp s1 r v) := by
  refine ⟨h.1, h.2.1, h.2.2.1, ?_⟩
  have e1 := cnt_notFW atReg hpc
  have e2 : cnt atReg (finishOp s1 r v) = s1.writers.countP atReg := cnt_notFW atReg (by simp [finishOp])
  show s1.onDisk = s1.m.files.length + cnt atReg (finishOp s1 r v)
  rw [e2, ← e1]; exact h.2.2.2

/-- replacing the sorter's fields by ones with the same files and the same AutoClear flag -/
theorem DiskInv_m {s : CState} {m' : Morass.State} (h : DiskInv s) (hac : m'.autoClear = s.m.autoClear)
    (hfl : m'.files.length = s.m.files.length) : DiskInv { s with m := m' } :=
  ⟨h.1, by show m'.autoClear = true; rw [hac]; exact h.2.1, h.2.2.1,
   by show s.onDisk = m'.files.length + cnt atReg s
      rw [hfl]; exact h.2.2.2⟩

theorem DiskInv_cstep {s t : CState} (hs : Str s) (h : DiskInv s) (hst : CStep s t) : DiskInv t := by
  obtain ⟨hf, hac, hacl, hd⟩ := h
  have h0 : DiskInv s := ⟨hf, hac, hacl, hd⟩
  cases hst with
  | pushErr _ _ _ hpc => exact DiskInv_finishOp h0 (by rw [hpc]; simp) _ _
  | pushNil _ _ hpc => exact DiskInv_finishOp h0 (by rw [hpc]; simp) _ _
  | finErr _ _ hpc => exact DiskInv_finishOp h0 (by rw [hpc]; simp) _ _
  | finNil _ hpc => exact DiskInv_finishOp h0 (by rw [hpc]; simp) _ _
  | waitErr _ hpc => exact DiskInv_finishOp h0 (by rw [hpc]; simp) _ _
  | reject _ hpc => exact DiskInv_finishOp h0 (by rw [hpc]; simp) _ _
  | pushFull _ _ _ hpc =>
    exact ⟨hf, hac, hacl, by
      show s.onDisk = s.m.files.length + cnt atReg { s with pc := CPc.pushSend }
      rw [cnt_notFW atReg (s := { s with pc := CPc.pushSend }) (by simp), ← cnt_notFW atReg (s := s) (by rw [hpc]; simp)]
      exact hd⟩
  | pushRoom e _ ch hpc _ he hch hfull =>
    apply DiskInv_finishOp _ (by show s.pc ≠ _; rw [hpc]; simp)
    apply DiskInv_m h0 <;> rw [push_room e he hch hfull]
  | finFast _ ch hpc _ he hch hlt =>
    apply DiskInv_finishOp _ (by show s.pc ≠ _; rw [hpc]; simp)
    apply DiskInv_m h0 <;> simp [finalise, he, hch, hlt]
  | finDisk _ _ hpc =>
    exact ⟨hf, hac, hacl, by
      show s.onDisk = s.m.files.length + cnt atReg { s with m := { s.m with fast := false }, pc := CPc.finSend }
      rw [cnt_notFW atReg (s := { s with m := { s.m with fast := false }, pc := CPc.finSend }) (by simp),
        ← cnt_notFW atReg (s := s) (by rw [hpc]; simp)]
      exact hd⟩
  | finEmpty _ _ flt fs ok hpc _ _ _ _ _ hp =>
    rw [hf, primeAll_none'] at hp
    simp only [Prod.mk.injEq] at hp
    obtain ⟨rfl, rfl, rfl⟩ := hp
    apply DiskInv_finishOp _ (by show s.pc ≠ _; rw [hpc]; simp)
    exact ⟨rfl, hac, hacl, by
      show s.onDisk = (s.m.files.map primeFile).length + cnt atReg s
      rw [List.length_map]; exact hd⟩
  | waitOk flt fs ok hpc _ _ hp =>
    rw [hf, primeAll_none'] at hp
    simp only [Prod.mk.injEq] at hp
    obtain ⟨rfl, rfl, rfl⟩ := hp
    apply DiskInv_finishOp _ (by show s.pc ≠ _; rw [hpc]; simp)
    exact ⟨rfl, hac, hacl, by
      show s.onDisk = (s.m.files.map primeFile).length + cnt atReg s
      rw [List.length_map]; exact hd⟩
  | pull _ hpc =>
    have fr := pullF_frame s
    obtain ⟨a, b, c'⟩ := pullF_disk hf hac hacl (by omega)
    apply DiskInv_finishOp _ (by rw [fr.pc, hpc]; simp)
    refine ⟨a, b, by rw [fr.autoClean]; exact hacl, ?_⟩
    rw [cnt_caller atReg fr.writers fr.inl (by rw [fr.pc])]
    omega
  | clear _ hpc =>
    have fr := clearF_frame s
    obtain ⟨a, b, c', d⟩ := clearF_disk hf
    apply DiskInv_finishOp _ (by rw [fr.pc, hpc]; simp)
    refine ⟨a, by rw [d]; exact hac, by rw [fr.autoClean]; exact hacl, ?_⟩
    rw [cnt_caller atReg fr.writers fr.inl (by rw [fr.pc]), b, c']
    simp; omega
  | send _ wr hpc =>
    refine ⟨hf, hac, hacl, ?_⟩
    show s.onDisk = s.m.files.length + cnt atReg { s with writable := wr, wg := s.wg + 1, writers := s.writers ++ [{}], pc := CPc.pushRecv }
    rw [cnt_notFW atReg (s := { s with writable := wr, wg := s.wg + 1, writers := s.writers ++ [{}], pc := CPc.pushRecv }) (by simp)]
    rw [cnt_notFW atReg (s := s) (by rw [hpc]; simp)] at hd
    simp only [List.countP_append, List.countP_cons, List.countP_nil]
    simpa [atReg] using hd
  | recvErr _ _ _ hpc =>
    apply DiskInv_finishOp _ (by show s.pc ≠ _; rw [hpc]; simp)
    exact DiskInv_m h0 rfl rfl
  | recvOk _ _ hpc =>
    apply DiskInv_finishOp _ (by show s.pc ≠ _; rw [hpc]; simp)
    exact DiskInv_m h0 rfl rfl
  | fsend _ wr hpc =>
    refine ⟨hf, hac, hacl, ?_⟩
    rw [cnt_notFW atReg (s := s) (by rw [hpc]; simp)] at hd
    simpa [cnt, atReg, b2n] using hd
  | fwrite w s' hpc hw =>
    have E := inl_effect hs hpc hw
    obtain ⟨hdk, hac'⟩ := wstep_disk hf hw
    obtain ⟨hf', _, _⟩ := wstep_nofault hf hw
    refine ⟨hf', by show s'.m.autoClear = true; rw [hac']; exact hac,
      by show s'.autoClean = false; rw [E.autoClean]; exact hacl, ?_⟩
    have hc : cnt atReg { s' with inl := w, pc := if w.pc = WPc.done then CPc.finWait else CPc.finWrite }
          + b2n (atReg s.inl) = cnt atReg s + b2n (atReg w) := by
      by_cases hdn : w.pc = .done
      · simp [cnt, hdn, E.writers, hpc, b2n, atReg]
      · simp [cnt, hdn, E.writers, hpc, b2n]; omega
    show s'.onDisk = s'.m.files.length + _
    omega

theorem DiskInv_step {s t : CState} {i : Nat} (hs : Str s) (h : DiskInv s) (hst : step s i = some t) : DiskInv t := by
  cases i with
  | zero => exact DiskInv_cstep hs h (cstep_cases (show cstep s = some t from hst))
  | succ k =>
    simp only [step] at hst
    cases hk : s.writers[k]? with
    | none => simp [hk] at hst
    | some w =>
      simp only [hk] at hst
      cases hw : wstep s w with
      | none => simp [hw] at hst
      | some p =>
        obtain ⟨w', s'⟩ := p
        simp only [hw, Option.some.injEq] at hst; subst hst
        obtain ⟨hf, hac, hacl, hd⟩ := h
        have E := writer_effect hs hk hw
        obtain ⟨hdk, hac'⟩ := wstep_disk hf hw
        obtain ⟨hf', _, _⟩ := wstep_nofault hf hw
        obtain ⟨hklt, hkw⟩ := List.getElem?_eq_some_iff.mp hk
        have hc : cnt atReg { s' with writers := s'.writers.set k w' } + b2n (atReg w) = cnt atReg s + b2n (atReg w') := by
          have := countP_set' atReg s.writers k w' hklt
          rw [hkw] at this
          simp only [cnt, E.writers, E.pc, E.inl]
          omega
        refine ⟨hf', by show s'.m.autoClear = true; rw [hac']; exact hac,
          by show s'.autoClean = false; rw [E.autoClean]; exact hacl, ?_⟩
        show s'.onDisk = s'.m.files.length + _
        omega

theorem reach_DiskInv {conc : Bool} {c : Nat} {prog : List Op} {reuse : Bool} {s : CState}
    (h : Reach (sys conc c true false prog [] reuse) s) : DiskInv s := by
  have : Str s ∧ DiskInv s := by
    refine inv_of_reach _ (fun s => Str s ∧ DiskInv s)
      ⟨Str_init _ _ _ _ _ _ _, rfl, rfl, rfl, by simp [sys, initState, cnt, b2n]⟩ ?_ s h
    intro a i b hab hst
    exact ⟨Str_step hab.1 hst, DiskInv_step hab.1 hab.2 hst⟩
  exact this.2

/-- when the caller has returned from a cycle that was pulled to io.EOF, no run file is
    registered and no writer is about to register one -/
theorem finished_no_files {c : Nat} {ac : Bool} {cy : Cycle} {s : CState} (h : CInv c ac cy s)
    (hnf : ∀ o ∈ s.outs, o.res ≠ .ioerr) (hfin : finished s = true) (hdrain : cy.pushes.length < cy.pulls) :
    s.m.files = [] ∧ cnt atReg s = 0 := by
  simp only [finished, Bool.and_eq_true, List.isEmpty_iff, beq_iff_eq] at hfin
  obtain ⟨hprog, hpc⟩ := hfin
  have hq : (∀ w ∈ s.writers, w.pc = .done) → cnt atReg s = 0 := by
    intro hq
    rw [cnt_notFW atReg (by rw [hpc]; simp)]
    apply List.countP_eq_zero.mpr
    intro w hw; simp [atReg, hq w hw]
  rcases h with hrep | hpend | ⟨_, hF | hZ | hD | hE⟩
  · obtain ⟨o, ho, hio⟩ := hrep; exact absurd hio (hnf o ho)
  · obtain ⟨_, ⟨e, r, h'⟩ | ⟨r, h'⟩⟩ := hpend <;> rw [hprog] at h' <;> cases h'
  · obtain ⟨xs, todo, ch, cp, hF⟩ := hF
    have := hF.prog; rw [hprog] at this
    cases todo <;> simp at this
  · obtain ⟨A, cp, hZ⟩ := hZ
    have := hZ.prog; rw [hprog] at this; cases this
  · refine ⟨?_, hq hD.quiet⟩
    obtain ⟨ds, e, k, hp, hcount, _, _, hcase⟩ := hD.ex
    rw [hprog] at hp
    have hk : k = 0 := by
      cases k with
      | zero => rfl
      | succ k' => simp [List.replicate_succ] at hp
    subst hk
    have files_of_dr : ∀ {n}, Draining c ac 1 s.m n → remaining s.m = [] → s.m.files = [] := by
      intro n hdr hrem
      rcases hdr.shape with ⟨_, h, _⟩ | ⟨hfast, _, _, hok⟩
      · exact h
      · exact files_nil_of_remaining hok (by simpa [remaining, hfast] using hrem)
    rcases hcase with ⟨he, hdr, hperm, _, _⟩ | ⟨_, hat, _⟩
    · exfalso
      subst he
      have := hperm.length_eq
      simp only [List.length_append] at this
      omega
    · rcases hat with ⟨hdr, hrem⟩ | ⟨_, hfr⟩
      · exact files_of_dr hdr hrem
      · exact hfr.files
  · exact ⟨hE.files, hq hE.quiet⟩

end Biogo.MorassConc
