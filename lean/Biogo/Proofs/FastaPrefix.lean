/-
The FASTA writer model with user-set `IDPrefix` / `SeqPrefix` (as `gff.Writer` sets them for
inline sequences), and the GFF model's inline-sequence writer as an instance of it.  Core only.
-/
import Biogo.Proofs.Fasta
import Biogo.Model.Gff

namespace Biogo.Fasta
open Biogo.Go.Bytes

/-- the bytes of one record as `Write` lays them out at width `w` with the prefixes of `cfg` -/
def renderCfg (cfg : Cfg) (w : Nat) (r : Rec) : Bytes :=
  cfg.idPrefix ++ r.name ++ (if r.desc.length > 0 then 32 :: r.desc else [])
    ++ wrapFrom w (10 :: cfg.seqPrefix) 0 r.letters ++ [10]

theorem write_spec_cfg (cfg : Cfg) (w : Nat) (hw : w ≠ 0) (sink : Sink) (r : Rec) :
    ∃ sink', write { cfg := cfg, width := w } sink r = .ok (sink', (renderCfg cfg w r).length) ∧
      sink'.bytes = sink.bytes ++ renderCfg cfg w r := by
  obtain ⟨s', h1, h2⟩ := writeLoop_spec w hw (10 :: cfg.seqPrefix) 0 r.letters
    (sink.write (cfg.idPrefix ++ r.name ++ (if r.desc.length > 0 then 32 :: r.desc else []))).1
    (cfg.idPrefix ++ r.name ++ (if r.desc.length > 0 then 32 :: r.desc else [])).length
  refine ⟨(s'.write [10]).1, ?_, ?_⟩
  · simp only [write, bind, Except.bind]
    simp only [Sink.write] at h1 ⊢
    rw [h1]
    simp [pure, Except.pure, renderCfg]; omega
  · rw [bytes_write, h2, bytes_write]; simp [renderCfg]

end Biogo.Fasta

namespace Biogo.Gff
open Biogo.BytesFeat

/-- the prefixes `gff.Writer.Write` sets on the `fasta.Writer` it uses for a sequence of
    molecule type `m`: `IDPrefix = "##<Mol> "`, `SeqPrefix = "##"` -/
def seqCfg (m : Nat) : Biogo.Fasta.Cfg := { idPrefix := [35, 35] ++ molName m ++ [32], seqPrefix := [35, 35] }

/-- the line `gff.Writer.Write` adds after the FASTA record -/
def endLine (m : Nat) : Bytes := ofString "##end-" ++ molName m ++ [10]

theorem seqBody_wrapFrom (w : Nat) (letters : Bytes) (i : Nat) :
    seqBody w letters i = Biogo.Fasta.wrapFrom w [10, 35, 35] i letters := by
  induction letters generalizing i with
  | nil => rfl
  | cons c r ih => simp [seqBody, Biogo.Fasta.wrapFrom, ih]

/-- **The GFF model's inline-sequence writer is the FASTA writer model with the prefixes set**,
    followed by the end marker; its count is the FASTA writer's count plus the marker's length
    (as `n + _n` in `gff.Writer.Write`). -/
theorem writeSeq_via_fasta (width m : Nat) (hw : width ≠ 0) (hm : m ≤ 2) (id desc letters : Bytes)
    (hl : letters ≠ []) :
    ∃ sink' n, Biogo.Fasta.write { cfg := seqCfg m, width := width } {} ⟨id, desc, letters⟩ = .ok (sink', n) ∧
      writeSeq width m id desc letters = .ok (sink'.bytes ++ endLine m, n + (endLine m).length) := by
  obtain ⟨sink', h1, h2⟩ := Biogo.Fasta.write_spec_cfg (seqCfg m) width hw {} ⟨id, desc, letters⟩
  refine ⟨sink', _, h1, ?_⟩
  have he : letters.isEmpty = false := by cases letters with | nil => exact absurd rfl hl | cons _ _ => rfl
  have hm' : ¬ m > 2 := by omega
  have hb : (({} : Biogo.Go.Bytes.Sink).bytes) = [] := rfl
  rw [h2, hb]
  simp only [writeSeq, he, Bool.false_eq_true, ↓reduceIte, hm', Biogo.Fasta.renderCfg, seqCfg, endLine,
    seqBody_wrapFrom, List.nil_append]
  have hd : (if desc.length > 0 then 32 :: desc else []) = (if desc.isEmpty = true then [] else 32 :: desc) := by
    cases desc <;> simp
  simp only [hd, List.append_assoc, List.cons_append, List.nil_append, List.length_append, List.length_cons]
  congr 1
  · congr 1
    simp
    omega

end Biogo.Gff
