/-
Lemmas about the alphabet model (`Biogo.Model.Alphabet`): ASCII case folding, the two table
fill loops of `newAlphabet`, `AllValid`, and the pairing table of `NewPairing`.  Core-only.
-/
import Biogo.Model.Alphabet

namespace Biogo.Alphabet

/-! ### bytes -/

theorem u8_forall {P : UInt8 → Prop} (h : ∀ n < 256, P (UInt8.ofNat n)) (x : UInt8) : P x := by
  have := h x.toNat x.toNat_lt
  simpa using this

theorem toLower_toNat (b : UInt8) :
    (toLower b).toNat = if 65 ≤ b.toNat ∧ b.toNat ≤ 90 then b.toNat + 32 else b.toNat :=
  u8_forall (P := fun b => (toLower b).toNat = if 65 ≤ b.toNat ∧ b.toNat ≤ 90 then b.toNat + 32 else b.toNat)
    (by decide +kernel) b

theorem toUpper_toNat (b : UInt8) :
    (toUpper b).toNat = if 97 ≤ b.toNat ∧ b.toNat ≤ 122 then b.toNat - 32 else b.toNat :=
  u8_forall (P := fun b => (toUpper b).toNat = if 97 ≤ b.toNat ∧ b.toNat ≤ 122 then b.toNat - 32 else b.toNat)
    (by decide +kernel) b

theorem toLower_idem (x : UInt8) : toLower (toLower x) = toLower x := by
  apply UInt8.toNat_inj.mp
  simp only [toLower_toNat]; (repeat' split) <;> omega

theorem toLower_toUpper (x : UInt8) : toLower (toUpper x) = toLower x := by
  apply UInt8.toNat_inj.mp
  simp only [toLower_toNat, toUpper_toNat]; (repeat' split) <;> omega

/-- "equal up to ASCII case": `l` is the lower- or the upper-case form of `x` -/
theorem lower_eq_iff (x l : UInt8) : (toLower x = toLower l) ↔ (l = toLower x ∨ l = toUpper x) := by
  rw [← UInt8.toNat_inj, ← UInt8.toNat_inj, ← UInt8.toNat_inj]
  simp only [toLower_toNat, toUpper_toNat]
  have := x.toNat_lt; have := l.toNat_lt
  (repeat' split) <;> omega

/-! ### the fill loops -/

/-- `for i, l := range ls { valid[l] = true; index[l] = i }`: a letter outside `ls` keeps its
    entries; a letter of `ls` becomes valid and its index is a position at which it occurs. -/
theorem fillDirect_spec (ls : List UInt8) (i : Nat) (t : Tabs) (l : UInt8) :
    (l ∉ ls → (fillDirect ls i t).valid l = t.valid l ∧ (fillDirect ls i t).index l = t.index l) ∧
    (l ∈ ls → (fillDirect ls i t).valid l = true ∧
        ∃ j, ls[j]? = some l ∧ (fillDirect ls i t).index l = ((i + j : Nat) : Int)) := by
  induction ls generalizing i t with
  | nil => simp [fillDirect]
  | cons x xs ih =>
    simp only [fillDirect]
    have ih' := ih (i + 1) { valid := set t.valid x true, index := set t.index x i }
    constructor
    · intro hl
      have hx : l ≠ x := fun h => hl (h ▸ List.mem_cons_self)
      have hxs : l ∉ xs := fun h => hl (List.mem_cons_of_mem _ h)
      have := ih'.1 hxs
      simpa [set, hx] using this
    · intro hl
      by_cases hxs : l ∈ xs
      · obtain ⟨hv, j, hj, hi⟩ := ih'.2 hxs
        refine ⟨hv, j + 1, by simpa using hj, ?_⟩
        rw [hi]; congr 1; omega
      · have hx : l = x := by
          cases hl with
          | head => rfl
          | tail _ h => exact absurd h hxs
        obtain ⟨hv, hi⟩ := ih'.1 hxs
        subst hx
        exact ⟨by simp [hv, set], 0, by simp, by simp [hi, set]⟩

theorem fillDirect_valid (ls : List UInt8) (i : Nat) (t : Tabs) (l : UInt8) :
    (fillDirect ls i t).valid l = (t.valid l || ls.contains l) := by
  by_cases h : l ∈ ls
  · simp [((fillDirect_spec ls i t l).2 h).1, h]
  · simp [((fillDirect_spec ls i t l).1 h).1, h]

/-- `for i, l := range upper { valid[l] = true; index[l] = index[lower[i]] }` -/
theorem fillUpper_valid (us los : List UInt8) (t : Tabs) (l : UInt8) :
    (fillUpper us los t).valid l = (t.valid l || ((us.zip los).map (·.1)).contains l) := by
  induction us generalizing los t with
  | nil => simp [fillUpper]
  | cons u us ih =>
    cases los with
    | nil => simp [fillUpper]
    | cons lw los =>
      simp only [fillUpper, ih, set, List.zip_cons_cons, List.map_cons, List.contains_cons]
      by_cases h : l = u
      · simp [h]
      · have hb : (l == u) = false := by simpa using h
        simp [h, hb]

/-- What the two loops establish about the index table, relative to the list `LO` whose
    positions are the indices and a folding `F` (identity, or `toLower`): a valid letter's index
    is a position of `LO` holding its folded form; an invalid letter's index is -1. -/
def IndexOK (F : UInt8 → UInt8) (LO : List UInt8) (t : Tabs) : Prop :=
  (∀ c, t.valid c = true → ∃ p : Nat, LO[p]? = some (F c) ∧ t.index c = (p : Int)) ∧
  (∀ c, t.valid c = false → t.index c = -1)

theorem fillDirect_indexOK (F : UInt8 → UInt8) (LO : List UInt8) (hF : ∀ c ∈ LO, F c = c) :
    IndexOK F LO (fillDirect LO 0 emptyTabs) := by
  constructor
  · intro c hc
    by_cases h : c ∈ LO
    · obtain ⟨_, j, hj, hi⟩ := (fillDirect_spec LO 0 emptyTabs c).2 h
      exact ⟨j, by rw [hF c h]; exact hj, by simpa using hi⟩
    · have := ((fillDirect_spec LO 0 emptyTabs c).1 h).1
      rw [hc] at this; simp [emptyTabs] at this
  · intro c hc
    by_cases h : c ∈ LO
    · have := ((fillDirect_spec LO 0 emptyTabs c).2 h).1
      rw [hc] at this; cases this
    · simpa [emptyTabs] using ((fillDirect_spec LO 0 emptyTabs c).1 h).2

theorem fillUpper_indexOK (F : UInt8 → UInt8) (LO : List UInt8) (us los : List UInt8) (t : Tabs)
    (hpairs : ∀ p ∈ us.zip los, t.valid p.2 = true ∧ F p.1 = F p.2) (h : IndexOK F LO t) :
    IndexOK F LO (fillUpper us los t) := by
  induction us generalizing los t with
  | nil => simpa [fillUpper] using h
  | cons u us ih =>
    cases los with
    | nil => simpa [fillUpper] using h
    | cons lw los =>
      simp only [fillUpper]
      have hhead := hpairs (u, lw) (by simp)
      apply ih
      · intro p hp
        have := hpairs p (by simp [hp])
        refine ⟨?_, this.2⟩
        simp only [set]; split
        · rfl
        · exact this.1
      · constructor
        · intro c hc
          simp only [set] at hc ⊢
          by_cases hcu : c = u
          · subst hcu
            obtain ⟨p, hp, hi⟩ := h.1 lw hhead.1
            exact ⟨p, by rw [hhead.2]; exact hp, by simpa using hi⟩
          · simp only [hcu, if_false] at hc ⊢
            exact h.1 c hc
        · intro c hc
          simp only [set] at hc ⊢
          by_cases hcu : c = u
          · simp [hcu] at hc
          · simp only [hcu, if_false] at hc ⊢
            exact h.2 c hc

/-! ### `newAlphabet` -/

/-- the folding under which `Letter (IndexOf l)` returns `l`: identity, or lower-casing -/
def foldOf (cased : Bool) : UInt8 → UInt8 := if cased then id else toLower
/-- the list whose positions are the indices: the definition, lower-cased when not case sensitive -/
def indexList (cased : Bool) (ls : List UInt8) : List UInt8 := if cased then ls else ls.map toLower

theorem newAlphabet_ok {ls : List UInt8} {g a : UInt8} {cased : Bool} {A : Alpha}
    (h : newAlphabet ls g a cased = .ok A) :
    A.length = ls.length ∧ A.cased = cased ∧
    (cased = true → A.letters = ls ∧ A.valid = (fillDirect ls 0 emptyTabs).valid ∧
        A.index = (fillDirect ls 0 emptyTabs).index) ∧
    (cased = false → A.letters = ls.map toLower ++ ls.map toUpper ∧
        A.valid = (fillUpper (ls.map toUpper) (ls.map toLower)
                    (fillDirect (ls.map toLower) 0 emptyTabs)).valid ∧
        A.index = (fillUpper (ls.map toUpper) (ls.map toLower)
                    (fillDirect (ls.map toLower) 0 emptyTabs)).index) := by
  unfold newAlphabet at h
  split at h
  · cases h
  · split at h
    · rename_i hc
      injection h with h; subst h
      simp [hc]
    · rename_i hc
      injection h with h; subst h
      simp [hc]

theorem zip_upper_lower (ls : List UInt8) :
    (ls.map toUpper).zip (ls.map toLower) = ls.map (fun x => (toUpper x, toLower x)) := by
  induction ls with
  | nil => rfl
  | cons x xs ih => simp [ih]

theorem newAlphabet_indexOK {ls : List UInt8} {g a : UInt8} {cased : Bool} {A : Alpha}
    (h : newAlphabet ls g a cased = .ok A) :
    IndexOK (foldOf cased) (indexList cased ls) { valid := A.valid, index := A.index } := by
  obtain ⟨_, _, hc, hu⟩ := newAlphabet_ok h
  cases cased with
  | true =>
    obtain ⟨_, hv, hi⟩ := hc rfl
    rw [hv, hi]
    exact fillDirect_indexOK id ls (fun _ _ => rfl)
  | false =>
    obtain ⟨_, hv, hi⟩ := hu rfl
    rw [hv, hi]
    simp only [foldOf, indexList, Bool.false_eq_true, if_false]
    apply fillUpper_indexOK
    · intro p hp
      rw [zip_upper_lower] at hp
      obtain ⟨x, hx, rfl⟩ := List.mem_map.mp hp
      refine ⟨?_, by simp [toLower_toUpper, toLower_idem]⟩
      rw [fillDirect_valid]
      simp [List.mem_map]
      exact Or.inr ⟨x, hx, rfl⟩
    · apply fillDirect_indexOK
      intro c hc
      obtain ⟨x, _, rfl⟩ := List.mem_map.mp hc
      exact toLower_idem x

/-- "a letter is valid exactly when it (in either case, for case-insensitive alphabets)
    appears in the definition" -/
theorem newAlphabet_valid {ls : List UInt8} {g a : UInt8} {cased : Bool} {A : Alpha}
    (h : newAlphabet ls g a cased = .ok A) (l : UInt8) :
    A.valid l = inDefinition cased ls l := by
  obtain ⟨_, _, hc, hu⟩ := newAlphabet_ok h
  cases cased with
  | true =>
    obtain ⟨_, hv, _⟩ := hc rfl
    rw [hv, fillDirect_valid]; simp [inDefinition, emptyTabs]
  | false =>
    obtain ⟨_, hv, _⟩ := hu rfl
    rw [hv, fillUpper_valid, fillDirect_valid, zip_upper_lower]
    rw [Bool.eq_iff_iff]
    simp only [inDefinition, emptyTabs, Bool.false_or, Bool.or_eq_true, List.contains_iff_mem,
      List.mem_map, List.any_eq_true, beq_iff_eq, Bool.false_eq_true, if_false, List.map_map]
    constructor
    · rintro (⟨x, hx, rfl⟩ | ⟨x, hx, rfl⟩)
      · exact ⟨x, hx, (toLower_idem x).symm⟩
      · exact ⟨x, hx, by simp [toLower_toUpper]⟩
    · rintro ⟨x, hx, hxl⟩
      rcases (lower_eq_iff x l).mp hxl with h | h
      · exact Or.inl ⟨x, hx, h.symm⟩
      · exact Or.inr ⟨x, hx, by simpa using h.symm⟩

theorem indexList_length (cased : Bool) (ls : List UInt8) : (indexList cased ls).length = ls.length := by
  cases cased <;> simp [indexList]

/-- `a.letters[:a.length]` is the index list -/
theorem newAlphabet_letters {ls : List UInt8} {g a : UInt8} {cased : Bool} {A : Alpha}
    (h : newAlphabet ls g a cased = .ok A) (p : Nat) (hp : p < ls.length) :
    A.letter p = (indexList cased ls)[p]? := by
  obtain ⟨hlen, _, hc, hu⟩ := newAlphabet_ok h
  simp only [Alpha.letter, hlen, hp, if_true]
  cases cased with
  | true => rw [(hc rfl).1]; simp [indexList]
  | false =>
    rw [(hu rfl).1]
    simp only [indexList, Bool.false_eq_true, if_false]
    exact List.getElem?_append_left (by simpa using hp)

theorem indexOf_neg_iff {ls : List UInt8} {g a : UInt8} {cased : Bool} {A : Alpha}
    (h : newAlphabet ls g a cased = .ok A) (l : UInt8) :
    A.indexOf l < 0 ↔ A.isValid l = false := by
  have hok := newAlphabet_indexOK h
  simp only [Alpha.indexOf, Alpha.isValid]
  constructor
  · intro hneg
    cases hv : A.valid l with
    | false => rfl
    | true =>
      obtain ⟨p, _, hi⟩ := hok.1 l hv
      simp only at hi; omega
  · intro hv
    have := hok.2 l hv
    simp only at this; omega

/-- `Letter (IndexOf l)` is `l` folded (exactly `l` for a case-sensitive alphabet) -/
theorem letter_indexOf_fold {ls : List UInt8} {g a : UInt8} {cased : Bool} {A : Alpha}
    (h : newAlphabet ls g a cased = .ok A) (l : UInt8) (hv : A.isValid l = true) :
    0 ≤ A.indexOf l ∧ A.indexOf l < ls.length ∧
    A.letter (A.indexOf l).toNat = some (foldOf cased l) := by
  obtain ⟨p, hp, hi⟩ := (newAlphabet_indexOK h).1 l hv
  simp only at hi
  have hlt : p < ls.length := by
    obtain ⟨hlt, _⟩ := List.getElem?_eq_some_iff.mp hp
    simpa [indexList_length] using hlt
  simp only [Alpha.indexOf, hi]
  refine ⟨by omega, by omega, ?_⟩
  rw [Int.toNat_natCast, newAlphabet_letters h p hlt]; exact hp

/-- for a definition of distinct letters (distinct after lower-casing when the alphabet is not
    case sensitive) `IndexOf (Letter i) = i` for every `i < Len` -/
theorem indexOf_letter_nodup {ls : List UInt8} {g a : UInt8} {cased : Bool} {A : Alpha}
    (h : newAlphabet ls g a cased = .ok A) (hnd : (indexList cased ls).Nodup)
    (i : Nat) (hi : i < ls.length) :
    ∃ l, A.letter i = some l ∧ A.isValid l = true ∧ A.indexOf l = (i : Int) := by
  have hi' : i < (indexList cased ls).length := by simpa [indexList_length] using hi
  refine ⟨(indexList cased ls)[i], ?_, ?_, ?_⟩
  · rw [newAlphabet_letters h i hi]; exact List.getElem?_eq_getElem hi'
  · -- a letter of the index list is in the definition
    simp only [Alpha.isValid]
    rw [newAlphabet_valid h]
    cases cased with
    | true => simp [inDefinition, indexList]
    | false =>
      simp only [inDefinition, indexList, Bool.false_eq_true, if_false, List.getElem_map,
        List.any_eq_true, beq_iff_eq]
      exact ⟨ls[i], List.getElem_mem _, (toLower_idem _).symm⟩
  · have hmem : (indexList cased ls)[i] ∈ indexList cased ls := List.getElem_mem _
    have hv : A.valid (indexList cased ls)[i] = true := by
      rw [newAlphabet_valid h]
      cases cased with
      | true => simp [inDefinition, indexList]
      | false =>
        simp only [inDefinition, indexList, Bool.false_eq_true, if_false, List.getElem_map,
          List.any_eq_true, beq_iff_eq]
        exact ⟨ls[i], List.getElem_mem _, (toLower_idem _).symm⟩
    obtain ⟨p, hp, hidx⟩ := (newAlphabet_indexOK h).1 _ hv
    simp only at hidx
    have hfold : foldOf cased (indexList cased ls)[i] = (indexList cased ls)[i] := by
      cases cased with
      | true => simp [foldOf]
      | false => simp [foldOf, indexList, toLower_idem]
    rw [hfold] at hp
    obtain ⟨hplt, hpe⟩ := List.getElem?_eq_some_iff.mp hp
    have : p = i := (List.getElem_inj hnd).mp hpe
    simp only [Alpha.indexOf, hidx, this]

/-! ### `AllValid` -/

/-- `AllValid` either finds every letter valid and answers `(true, -1)`, or answers
    `(false, n)` where `n` is the first position holding an invalid letter. -/
theorem allValidFrom_spec (a : Alpha) (ls : List Letter) (i : Nat) :
    (a.allValidFrom ls i = (true, -1) ∧ ∀ l ∈ ls, a.valid l = true) ∨
    (∃ n, a.allValidFrom ls i = (false, ((i + n : Nat) : Int)) ∧
        ls[n]?.map a.valid = some false ∧ ∀ m < n, ls[m]?.map a.valid = some true) := by
  induction ls generalizing i with
  | nil => left; simp [Alpha.allValidFrom]
  | cons l ls ih =>
    simp only [Alpha.allValidFrom]
    cases hv : a.valid l with
    | false =>
      right
      exact ⟨0, by simp, by simp [hv], by intro m hm; omega⟩
    | true =>
      simp only [if_true]
      rcases ih (i + 1) with ⟨h1, h2⟩ | ⟨n, h1, h2, h3⟩
      · left
        refine ⟨h1, ?_⟩
        intro x hx
        cases hx with
        | head => exact hv
        | tail _ hx => exact h2 x hx
      · right
        refine ⟨n + 1, ?_, by simpa using h2, ?_⟩
        · rw [h1]; congr 2; omega
        · intro m hm
          cases m with
          | zero => simp [hv]
          | succ m => simpa using h3 m (by omega)

/-! ### `NewPairing` -/

theorem fillPairs_not_mem (s c : List UInt8) (t : PTabs) (x : UInt8) (hx : x ∉ s) :
    (fillPairs s c t).pair x = t.pair x ∧ (fillPairs s c t).ok x = t.ok x := by
  induction s generalizing c t with
  | nil => simp [fillPairs]
  | cons v s ih =>
    cases c with
    | nil => simp [fillPairs]
    | cons w c =>
      simp only [fillPairs]
      have hv : x ≠ v := fun h => hx (h ▸ List.mem_cons_self)
      have := ih c { pair := set t.pair v w, ok := set t.ok v true } (fun h => hx (List.mem_cons_of_mem _ h))
      simpa [set, hv] using this

/-- a letter whose `ok` flag is still false after the fill loop was never written -/
theorem fillPairs_ok_false (s c : List UInt8) (t : PTabs) (x : UInt8)
    (h : (fillPairs s c t).ok x = false) : (fillPairs s c t).pair x = t.pair x ∧ t.ok x = false := by
  induction s generalizing c t with
  | nil => simpa [fillPairs] using h
  | cons v s ih =>
    cases c with
    | nil => simpa [fillPairs] using h
    | cons w c =>
      simp only [fillPairs] at h ⊢
      obtain ⟨h1, h2⟩ := ih c { pair := set t.pair v w, ok := set t.ok v true } h
      simp only [set] at h1 h2
      by_cases hv : x = v
      · simp [hv] at h2
      · simp only [hv, if_false] at h1 h2
        exact ⟨h1, h2⟩

/-- the check loop visits every letter of `s` (the lists have equal length) -/
theorem checkBijection_mem (pair : UInt8 → UInt8) (s c : List UInt8) (hlen : s.length = c.length)
    (h : checkBijection pair s c = true) : ∀ l ∈ s, pair (pair l) = l := by
  induction s generalizing c with
  | nil => intro l hl; cases hl
  | cons v s ih =>
    cases c with
    | nil => simp at hlen
    | cons w c =>
      simp only [checkBijection, Bool.and_eq_true, beq_iff_eq] at h
      intro l hl
      cases hl with
      | head => exact h.1.1.symm
      | tail _ hl => exact ih c (by simpa using hlen) h.2 l hl

theorem checkBijection_of_involutive (pair : UInt8 → UInt8) (s c : List UInt8)
    (h : ∀ x, pair (pair x) = x) : checkBijection pair s c = true := by
  induction s generalizing c with
  | nil => simp [checkBijection]
  | cons v s ih =>
    cases c with
    | nil => simp [checkBijection]
    | cons w c => simp [checkBijection, h, ih]

/-- the pairing table `NewPairing` builds before it checks it -/
def pairTable (s c : List UInt8) : UInt8 → UInt8 := (fillPairs s c initPairs).pair

theorem pairTable_not_mem (s c : List UInt8) (x : UInt8) (hx : x ∉ s) : pairTable s c x = x :=
  (fillPairs_not_mem s c initPairs x hx).1

theorem newPairing_ok {s c : List UInt8} {p : Pairing} (h : newPairing s c = .ok p) :
    s.length = c.length ∧ s.all (· < 128) = true ∧ c.all (· < 128) = true ∧
    p.pair = pairTable s c ∧ p.ok = (fillPairs s c initPairs).ok ∧
    checkBijection (pairTable s c) s c = true ∧
    p.complements = fun b => if p.ok b then p.pair b else p.pair b ||| 128 := by
  unfold newPairing at h
  split at h
  · cases h
  · rename_i hlen
    split at h
    · cases h
    · rename_i hascii
      simp only at h
      split at h
      · rename_i hchk
        injection h with h; subst h
        refine ⟨by simpa using hlen, ?_, ?_, rfl, rfl, hchk, rfl⟩
        · simp only [Bool.or_eq_true, not_or, Bool.not_eq_true] at hascii
          have := hascii.1
          simp only [List.any_eq_false, List.all_eq_true, decide_eq_true_eq] at this ⊢
          intro x hx; have := this x hx; simpa using this
        · simp only [Bool.or_eq_true, not_or, Bool.not_eq_true] at hascii
          have := hascii.2
          simp only [List.any_eq_false, List.all_eq_true, decide_eq_true_eq] at this ⊢
          intro x hx; have := this x hx; simpa using this
      · cases h

/-- the pairing table of an accepted pairing is an involution on all 256 letters -/
theorem pairTable_involutive_of_check (s c : List UInt8)
    (hchk : ∀ l ∈ s, pairTable s c (pairTable s c l) = l) (x : UInt8) :
    pairTable s c (pairTable s c x) = x := by
  by_cases hx : x ∈ s
  · exact hchk x hx
  · rw [pairTable_not_mem s c x hx, pairTable_not_mem s c x hx]

end Biogo.Alphabet
